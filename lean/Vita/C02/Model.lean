/-
  C02 — model of the MEP genome and of the genetic operators of vita
  (src/kernel/gp/mep/i_mep.{h,cc}, gene.tcc, team.tcc, symbol_set.cc, individual.tcc).

  * A symbol is abstracted to {opcode, category, argument categories, parametric?, weight};
    a terminal is a symbol without arguments.
  * A genome is a rows × cols matrix of genes (`gene : Nat → Nat → Gene`, only the
    entries with `i < rows`, `c < cols` are meaningful – this mirrors `matrix<gene>`).
  * Every operator is given twice:
      - as a *function of explicit draws* (each call of random::between / sup / boolean and
        of terminal::init() is an argument, constrained only by the contract of that call);
      - as a *decidable step relation* `…Step pre post`, which is what the compiled driver
        decides for the pairs observed on real executions of the C++ operators.
    `Lemmas.lean` proves that each function satisfies its relation; `Props.lean` proves that
    the relations preserve well-formedness.
-/
namespace Vita.C02

/-- `gene::packed_index_t` is `std::uint16_t`: argument indices are stored modulo 2^16. -/
def PACK : Nat := 65536

/-- The part of `environment` the MEP operators read.  A `problem` (hence its environment) is a
    long-lived, mutable object that every operator receives as a PARAMETER: the environment an
    operator is given need not be the one its operand was created under. -/
structure MepEnv where
  codeLength : Nat          -- env.mep.code_length
  patchLength : Nat         -- env.mep.patch_length
  teamSize : Nat := 1       -- env.team.individuals
deriving Repr, Inhabited

/-- what `environment::is_valid` guarantees about these fields (after fix b7362fc) and what
    `i_mep(problem)` / `team(problem)` expect -/
structure MepEnv.Valid (e : MepEnv) : Prop where
  patch_lt : e.patchLength < e.codeLength
  len_le : e.codeLength ≤ PACK
  team_pos : 0 < e.teamSize

structure Sym where
  opcode : Nat
  cat : Nat
  argCats : List Nat
  parametric : Bool
  weight : Nat
deriving DecidableEq, Repr, Inhabited

def Sym.arity (s : Sym) : Nat := s.argCats.length
def Sym.terminal (s : Sym) : Bool := s.argCats.isEmpty

structure Locus where
  idx : Nat
  cat : Nat
deriving DecidableEq, Repr, Inhabited

/-- `par` is the 64-bit pattern of `gene::par`; it is meaningful only for parametric terminals
    (C++ leaves it unspecified otherwise; the harness prints 0 there and so does the model). -/
structure Gene where
  sym : Sym
  par : Nat
  args : List Nat
deriving DecidableEq, Repr, Inhabited

/-- `gene::arguments()`: the i-th argument designates locus (args[i], arg_category(i)). -/
def Gene.argLoci (g : Gene) : List Locus :=
  List.zipWith (fun a c => Locus.mk a c) g.args g.sym.argCats

structure Ind where
  rows : Nat
  cols : Nat
  gene : Nat → Nat → Gene
  best : Locus
  age : Nat
  xover : Nat            -- i_mep::crossover_t: 0 one_point, 1 two_points, 2 tree, 3 uniform

def setGene (x : Ind) (i c : Nat) (g : Gene) : Ind :=
  { x with gene := fun i' c' => if i' = i ∧ c' = c then g else x.gene i' c' }

structure SymSet where
  cats : Nat
  syms : List Sym

def SymSet.functions (ss : SymSet) (c : Nat) : List Sym :=
  ss.syms.filter (fun s => s.cat == c && !s.terminal)
def SymSet.terminals (ss : SymSet) (c : Nat) : List Sym :=
  ss.syms.filter (fun s => s.cat == c && s.terminal)

def wsum (l : List Sym) : Nat := (l.map (·.weight)).sum

/-- what `symbol_set::is_valid()` (enough_terminals) and `symbol_set::insert` guarantee -/
structure SymSet.Valid (ss : SymSet) : Prop where
  cats_pos : 0 < ss.cats
  cat_lt : ∀ s ∈ ss.syms, s.cat < ss.cats
  arg_lt : ∀ s ∈ ss.syms, ∀ a ∈ s.argCats, a < ss.cats

/-! ## Well-formedness (the property) -/

/-- gene `g` may sit at row `i`, column `c` of a `rows × cols` genome -/
def GeneWF (ss : SymSet) (rows cols i c : Nat) (g : Gene) : Prop :=
  g.sym ∈ ss.syms ∧ g.sym.cat = c ∧ g.args.length = g.sym.arity ∧
  (∀ a ∈ g.args, i < a ∧ a < rows) ∧ (∀ k ∈ g.sym.argCats, k < cols)

instance (ss rows cols i c g) : Decidable (GeneWF ss rows cols i c g) := by
  unfold GeneWF; infer_instance

structure WF (ss : SymSet) (x : Ind) : Prop where
  rows_pos : 0 < x.rows
  cols_eq : x.cols = ss.cats
  genes : ∀ i, i < x.rows → ∀ c, c < x.cols → GeneWF ss x.rows x.cols i c (x.gene i c)
  last : ∀ c, c < x.cols → (x.gene (x.rows - 1) c).sym.terminal = true
  best : x.best.idx < x.rows ∧ x.best.cat < x.cols

def WFb (ss : SymSet) (x : Ind) : Bool :=
  decide (0 < x.rows) && decide (x.cols = ss.cats) &&
  decide (∀ i, i < x.rows → ∀ c, c < x.cols → GeneWF ss x.rows x.cols i c (x.gene i c)) &&
  decide (∀ c, c < x.cols → (x.gene (x.rows - 1) c).sym.terminal = true) &&
  decide (x.best.idx < x.rows ∧ x.best.cat < x.cols)

/-! ## The active code: loci reached from a starting locus (row scan)

  `i_mep::basic_iterator`, `random_locus` and the tree crossover all walk the
  arguments of the genes starting from one locus; the iterator keeps a `std::set<locus>`
  ordered by (index, category).  Because arguments live in later rows, scanning the rows
  in increasing order and collecting the arguments of the loci already collected visits
  the same loci. -/

def reachRow (x : Ind) (i : Nat) (act : List Locus) : List Locus :=
  (List.range x.cols).foldl
    (fun act c => if Locus.mk i c ∈ act then act ++ (x.gene i c).argLoci else act) act

def reach (x : Ind) (l : Locus) : List Locus :=
  (List.range x.rows).foldl (fun act i => reachRow x i act) [l]

/-- the active loci (exons) of an individual -/
def exons (x : Ind) : List Locus := reach x x.best

/-! ## Trees -/

inductive Tree where
  | node (sym : Sym) (par : Nat) (kids : List Tree)

def unfoldF (x : Ind) : Nat → Nat → Nat → Tree
  | 0, i, c => .node (x.gene i c).sym (x.gene i c).par []
  | f + 1, i, c =>
      .node (x.gene i c).sym (x.gene i c).par
        ((x.gene i c).argLoci.map (fun l => unfoldF x f l.idx l.cat))

/-- the expression rooted at locus `l` (total because arguments point to later rows) -/
def unfold (x : Ind) (l : Locus) : Tree := unfoldF x (x.rows - l.idx) l.idx l.cat

/-! ## symbol_set::roulette (the wedge loop of sum_container::roulette) -/

/-- `for (wedge = elems[0].weight; wedge <= slot; wedge += elems[++i].weight) {}`;
    `none` = the loop ran past the end of the container -/
def wedgeIdx : List Sym → Nat → Nat → Option Nat
  | [], _, _ => none
  | s :: rest, acc, slot =>
      if acc + s.weight ≤ slot then (wedgeIdx rest (acc + s.weight) slot).map (· + 1) else some 0

def rouletteOf (l : List Sym) (slot : Nat) : Option Sym :=
  (wedgeIdx l 0 slot).bind (fun i => l[i]?)

def rouletteD (l : List Sym) (slot : Nat) : Sym := (rouletteOf l slot).getD default

/-- the draws consumed while building one gene -/
structure GDraw where
  b : Bool              -- random::boolean() in symbol_set::roulette
  slotF : Nat           -- random::sup(functions.sum())
  slotT : Nat           -- random::sup(terminals.sum())
  par : Nat             -- terminal::init() of a parametric terminal
  args : Nat → Nat      -- k-th random::between(from, sup) of gene(symbol, from, sup)

def SymSet.useF (ss : SymSet) (c : Nat) (d : GDraw) : Bool := d.b && !(ss.functions c).isEmpty

/-- `symbol_set::roulette(c)` -/
def SymSet.roulette (ss : SymSet) (c : Nat) (d : GDraw) : Sym :=
  if ss.useF c d then rouletteD (ss.functions c) d.slotF else rouletteD (ss.terminals c) d.slotT

/-- `symbol_set::roulette_terminal(c)` -/
def SymSet.rouletteT (ss : SymSet) (c : Nat) (d : GDraw) : Sym := rouletteD (ss.terminals c) d.slotT

/-- `gene(const terminal &)` -/
def geneOfTerminal (s : Sym) (d : GDraw) : Gene := ⟨s, if s.parametric then d.par else 0, []⟩

/-- `gene(const symbol &, from, sup)`: every argument is `random::between(from, sup)` cast
    to `packed_index_t` -/
def geneOfSym (s : Sym) (d : GDraw) : Gene :=
  if s.arity = 0 then geneOfTerminal s d
  else ⟨s, 0, (List.range s.arity).map (fun k => d.args k % PACK)⟩

/-- contract of the draws used for a gene of category `c` with arguments in `[lo, sup)` -/
def GDrawOK (ss : SymSet) (c lo sup : Nat) (d : GDraw) : Prop :=
  (ss.useF c d = true → d.slotF < wsum (ss.functions c)) ∧
  (ss.useF c d = false → d.slotT < wsum (ss.terminals c)) ∧
  (∀ k, lo ≤ d.args k ∧ d.args k < sup)

/-- contract of the draws used for a terminal gene of category `c` -/
def TDrawOK (ss : SymSet) (c : Nat) (d : GDraw) : Prop := d.slotT < wsum (ss.terminals c)

/-- the gene the constructor / mutation put at row `i`, column `c` of a genome of `rows` rows when
    the patch length is `pl`: the patch section are the last `pl` rows – ALL rows when `pl ≥ rows`
    (natural-number subtraction; `i_mep::mutation` treats an individual no longer than the patch
    length of the environment it is given that way since fix 936f9ad) -/
def drawGene (ss : SymSet) (rows pl i c : Nat) (d : GDraw) : Gene :=
  if i < rows - pl then geneOfSym (ss.roulette c d) d else geneOfTerminal (ss.rouletteT c d) d

def DrawOK (ss : SymSet) (rows pl i c : Nat) (d : GDraw) : Prop :=
  if i < rows - pl then GDrawOK ss c (i + 1) rows d else TDrawOK ss c d

/-! ## Operators as functions of explicit draws -/

/-- `i_mep::i_mep(const problem &)`: the genome has `env.mep.code_length` rows -/
def randomInd (ss : SymSet) (env : MepEnv) (xo : Nat) (d : Nat → Nat → GDraw) : Ind :=
  { rows := env.codeLength, cols := ss.cats,
    gene := fun i c => drawGene ss env.codeLength env.patchLength i c (d i c),
    best := ⟨0, 0⟩, age := 0, xover := xo }

structure MState where
  x : Ind
  act : List Locus
  n : Nat

/-- one step of `for (auto i(begin()); i != end(); ++i) if (random::boolean(pgm)) …`
    at locus (i, c); `eqv` is `operator==` of genes (symbol, arguments, almost_equal on the
    parameter) and is left abstract -/
def mutCell (ss : SymSet) (env : MepEnv) (eqv : Gene → Gene → Bool) (bern : Nat → Nat → Bool)
    (d : Nat → Nat → GDraw) (i c : Nat) (s : MState) : MState :=
  if Locus.mk i c ∈ s.act then
    let s1 : MState :=
      if bern i c then
        let g := drawGene ss s.x.rows env.patchLength i c (d i c)
        if eqv (s.x.gene i c) g then s else { s with x := setGene s.x i c g, n := s.n + 1 }
      else s
    { s1 with act := s1.act ++ (s1.x.gene i c).argLoci }
  else s

def mutRow (ss : SymSet) (env : MepEnv) (eqv : Gene → Gene → Bool) (bern : Nat → Nat → Bool)
    (d : Nat → Nat → GDraw) (cols : Nat) (s : MState) (i : Nat) : MState :=
  (List.range cols).foldl (fun s c => mutCell ss env eqv bern d i c s) s

/-- `i_mep::mutation(pgm, prb)`: returns the mutated individual and the number of mutations.
    The geometry is the INDIVIDUAL's (`x.rows` = `size()`, `x.cols` = `categories()`); of the
    environment `env` of `prb` only `patch_length` is read – `env.codeLength` is not. -/
def mutation (ss : SymSet) (env : MepEnv) (eqv : Gene → Gene → Bool) (bern : Nat → Nat → Bool)
    (d : Nat → Nat → GDraw) (x : Ind) : Ind × Nat :=
  let s := (List.range x.rows).foldl (mutRow ss env eqv bern d x.cols) ⟨x, [x.best], 0⟩
  (s.x, s.n)

/-- the draws of `crossover(lhs, rhs)` -/
structure XDraw where
  b : Bool                     -- which parent is `from`
  cut : Nat                    -- one point: random::between(1, n - 1)
  cut1 : Nat                   -- two points: random::sup(n - 1)
  cut2 : Nat                   --             random::between(cut1 + 1, n)
  mask : Nat → Nat → Bool      -- uniform: random::boolean() per locus
  pick : Nat                   -- tree: random::element(exons)

/-- the common cut of the one-point flavour (with two rows the only cut is 1) -/
def onePointCut (n cut : Nat) : Nat := if 2 < n then cut else 1

def XDrawOK (frm : Ind) (d : XDraw) : Prop :=
  (2 < frm.rows → 1 ≤ d.cut ∧ d.cut < frm.rows - 1) ∧
  d.cut1 < frm.rows - 1 ∧ d.cut1 + 1 ≤ d.cut2 ∧ d.cut2 < frm.rows ∧
  d.pick < (exons frm).length

/-- the gene crossover leaves at (i, c): `switch (from.active_crossover_type_)` -/
def xoverGene (frm to : Ind) (d : XDraw) (i c : Nat) : Gene :=
  if frm.xover = 0 then
    (if onePointCut frm.rows d.cut ≤ i then frm.gene i c else to.gene i c)
  else if frm.xover = 1 then
    (if d.cut1 ≤ i ∧ i < d.cut2 then frm.gene i c else to.gene i c)
  else if frm.xover = 3 then
    (if d.mask i c then frm.gene i c else to.gene i c)
  else
    (if Locus.mk i c ∈ reach frm ((exons frm).getD d.pick frm.best) then frm.gene i c
     else to.gene i c)

/-- `crossover(const i_mep &lhs, const i_mep &rhs)` -/
def crossover (lhs rhs : Ind) (d : XDraw) : Ind :=
  let frm := if d.b then rhs else lhs
  let to := if d.b then lhs else rhs
  { to with gene := xoverGene frm to d, xover := frm.xover, age := max to.age frm.age }

/-- `i_mep::get_block(l)` -/
def getBlock (x : Ind) (l : Locus) : Ind := { x with best := l }

/-- `i_mep::replace(l, g)` -/
def replace (x : Ind) (l : Locus) (g : Gene) : Ind := setGene x l.idx l.cat g

/-- `i_mep::destroy_block(index, sset)` -/
def destroyBlock (ss : SymSet) (x : Ind) (idx : Nat) (d : Nat → GDraw) : Ind :=
  { x with gene := fun i c =>
      if i = idx ∧ c < x.cols then geneOfTerminal (ss.rouletteT c (d c)) (d c) else x.gene i c }

/-- `individual::set_older_age` -/
def setOlderAge (x : Ind) (a : Nat) : Ind := if x.age < a then { x with age := a } else x

/-! ### cse()

  `std::map<gene, locus, gene_cmp>` with a strict weak order is a finite map whose keys are
  compared by (symbol, parameter if parametric, arguments); the model keeps an association
  list with the same lookup / try_emplace behaviour. -/

abbrev CseTable := List (Gene × Locus)

def cseFind (t : CseTable) (g : Gene) : Option Locus := (t.find? (fun e => e.1 == g)).map (·.2)

def cseCell (i c : Nat) (s : Ind × CseTable) : Ind × CseTable :=
  let g := s.1.gene i c
  let args' := List.zipWith
      (fun a ac => match cseFind s.2 (s.1.gene a ac) with
                   | none => a
                   | some l => l.idx % PACK) g.args g.sym.argCats
  let g' : Gene := { g with args := args' }
  (setGene s.1 i c g', if (cseFind s.2 g').isSome then s.2 else s.2 ++ [(g', Locus.mk i c)])

def cseRow (cols : Nat) (s : Ind × CseTable) (i : Nat) : Ind × CseTable :=
  (List.range cols).foldl (fun s c => cseCell i c s) s

/-- `i_mep::cse()` -/
def cse (x : Ind) : Ind := ((List.range x.rows).reverse.foldl (cseRow x.cols) (x, [])).1

/-! ## Step relations (decided by the driver on observed executions) -/

def SameShape (pre post : Ind) : Prop := post.rows = pre.rows ∧ post.cols = pre.cols

/-- what construction and mutation may put at (i, c): standard section – any symbol of the
    category with arguments in (i, rows); patch section – a terminal -/
def FreshGeneOK (ss : SymSet) (rows cols pl i c : Nat) (g : Gene) : Prop :=
  GeneWF ss rows cols i c g ∧ (rows - pl ≤ i → g.sym.terminal = true)

instance (ss rows cols pl i c g) : Decidable (FreshGeneOK ss rows cols pl i c g) := by
  unfold FreshGeneOK; infer_instance

def RandomStep (ss : SymSet) (env : MepEnv) (post : Ind) : Prop :=
  post.rows = env.codeLength ∧ post.cols = ss.cats ∧ post.best = ⟨0, 0⟩ ∧ post.age = 0 ∧
  post.xover < 4 ∧
  ∀ i, i < env.codeLength → ∀ c, c < ss.cats →
    FreshGeneOK ss env.codeLength ss.cats env.patchLength i c (post.gene i c)

instance (ss env post) : Decidable (RandomStep ss env post) := by
  unfold RandomStep; infer_instance

/-- mutation under the environment `env`: everything but some genes is unchanged; a changed gene
    is a fresh gene for its locus IN THE OPERAND's geometry (`pre.rows`, `pre.cols`), the patch
    section being the last `env.patchLength` rows of the operand; `env.codeLength` plays no part -/
def MutStep (ss : SymSet) (env : MepEnv) (pre post : Ind) : Prop :=
  SameShape pre post ∧ post.best = pre.best ∧ post.age = pre.age ∧ post.xover = pre.xover ∧
  ∀ i, i < pre.rows → ∀ c, c < pre.cols →
    post.gene i c = pre.gene i c ∨
      FreshGeneOK ss pre.rows pre.cols env.patchLength i c (post.gene i c)

instance (ss env pre post) : Decidable (MutStep ss env pre post) := by
  unfold MutStep SameShape; infer_instance

def changedLoci (pre post : Ind) : List Locus :=
  (List.range pre.rows).flatMap (fun i =>
    ((List.range pre.cols).filter (fun c => post.gene i c != pre.gene i c)).map (Locus.mk i))

/-- the stronger relation the driver decides for mutation: moreover only active loci of the
    result changed ("mutation affects only exons") and the returned count is their number -/
def MutStepStrong (ss : SymSet) (env : MepEnv) (pre post : Ind) (n : Nat) : Prop :=
  MutStep ss env pre post ∧ (∀ l ∈ changedLoci pre post, l ∈ exons post) ∧
  (changedLoci pre post).length = n

instance (ss env pre post n) : Decidable (MutStepStrong ss env pre post n) := by
  unfold MutStepStrong; infer_instance

/-- executable form of `MutStepStrong` (the exons of `post` are computed once) -/
def mutStepStrongB (ss : SymSet) (env : MepEnv) (pre post : Ind) (n : Nat) : Bool :=
  let ch := changedLoci pre post
  let ex := exons post
  decide (MutStep ss env pre post) && ch.all (fun l => ex.contains l) && decide (ch.length = n)

def OnePoint (frm to post : Ind) : Prop :=
  ∃ cut, cut < frm.rows ∧ (if 2 < frm.rows then 1 ≤ cut ∧ cut < frm.rows - 1 else cut = 1) ∧
    ∀ i, i < frm.rows → ∀ c, c < frm.cols →
      post.gene i c = if cut ≤ i then frm.gene i c else to.gene i c

def TwoPoints (frm to post : Ind) : Prop :=
  ∃ cut1, cut1 < frm.rows - 1 ∧ ∃ cut2, cut2 < frm.rows ∧ cut1 < cut2 ∧
    ∀ i, i < frm.rows → ∀ c, c < frm.cols →
      post.gene i c = if cut1 ≤ i ∧ i < cut2 then frm.gene i c else to.gene i c

def Uniform (frm to post : Ind) : Prop :=
  ∀ i, i < frm.rows → ∀ c, c < frm.cols →
    post.gene i c = frm.gene i c ∨ post.gene i c = to.gene i c

def TreeX (frm to post : Ind) : Prop :=
  ∃ start ∈ exons frm,
    ∀ i, i < frm.rows → ∀ c, c < frm.cols →
      post.gene i c = if Locus.mk i c ∈ reach frm start then frm.gene i c else to.gene i c

/-- executable form of `TreeX` (the copied set is computed once per candidate start) -/
def treeXB (frm to post : Ind) : Bool :=
  (exons frm).any (fun start =>
    let r := reach frm start
    (List.range frm.rows).all (fun i => (List.range frm.cols).all (fun c =>
      post.gene i c == if r.contains (Locus.mk i c) then frm.gene i c else to.gene i c)))

instance (frm to post) : Decidable (OnePoint frm to post) := by unfold OnePoint; infer_instance
instance (frm to post) : Decidable (TwoPoints frm to post) := by unfold TwoPoints; infer_instance
instance (frm to post) : Decidable (Uniform frm to post) := by unfold Uniform; infer_instance
instance (frm to post) : Decidable (TreeX frm to post) := by unfold TreeX; infer_instance

def Flavour (k : Nat) (frm to post : Ind) : Prop :=
  if k = 0 then OnePoint frm to post
  else if k = 1 then TwoPoints frm to post
  else if k = 3 then Uniform frm to post
  else TreeX frm to post

instance (k frm to post) : Decidable (Flavour k frm to post) := by
  unfold Flavour; infer_instance

/-- crossover with `frm`/`to` already chosen -/
def CrossDir (frm to post : Ind) : Prop :=
  post.rows = to.rows ∧ post.cols = to.cols ∧ post.best = to.best ∧
  post.xover = frm.xover ∧ post.age = max to.age frm.age ∧ Flavour frm.xover frm to post

instance (frm to post) : Decidable (CrossDir frm to post) := by unfold CrossDir; infer_instance

def CrossStep (lhs rhs post : Ind) : Prop := CrossDir rhs lhs post ∨ CrossDir lhs rhs post

instance (lhs rhs post) : Decidable (CrossStep lhs rhs post) := by unfold CrossStep; infer_instance

def flavourB (k : Nat) (frm to post : Ind) : Bool :=
  if k = 0 then decide (OnePoint frm to post)
  else if k = 1 then decide (TwoPoints frm to post)
  else if k = 3 then decide (Uniform frm to post)
  else treeXB frm to post

def crossDirB (frm to post : Ind) : Bool :=
  decide (post.rows = to.rows) && decide (post.cols = to.cols) && decide (post.best = to.best) &&
  decide (post.xover = frm.xover) && decide (post.age = max to.age frm.age) &&
  flavourB frm.xover frm to post

/-- executable form of `CrossStep` -/
def crossStepB (lhs rhs post : Ind) : Bool := crossDirB rhs lhs post || crossDirB lhs rhs post

def Inside (x : Ind) (l : Locus) : Prop := l.idx < x.rows ∧ l.cat < x.cols

instance (x l) : Decidable (Inside x l) := by unfold Inside; infer_instance

def SameGenes (pre post : Ind) : Prop :=
  ∀ i, i < pre.rows → ∀ c, c < pre.cols → post.gene i c = pre.gene i c

instance (pre post) : Decidable (SameGenes pre post) := by unfold SameGenes; infer_instance

def GetBlockStep (pre : Ind) (l : Locus) (post : Ind) : Prop :=
  SameShape pre post ∧ post.best = l ∧ post.age = pre.age ∧ post.xover = pre.xover ∧
  SameGenes pre post

instance (pre l post) : Decidable (GetBlockStep pre l post) := by
  unfold GetBlockStep SameShape; infer_instance

/-- `individual::inc_age()` (called by the evolution loop, not a genetic operator: it only makes
    the age clause of crossover observable) -/
def incAge (x : Ind) : Ind := { x with age := x.age + 1 }

def IncAgeStep (pre post : Ind) : Prop :=
  SameShape pre post ∧ post.best = pre.best ∧ post.age = pre.age + 1 ∧ post.xover = pre.xover ∧
  SameGenes pre post

instance (pre post) : Decidable (IncAgeStep pre post) := by
  unfold IncAgeStep SameShape; infer_instance

/-- "a compatible gene": a gene that may sit at that locus -/
def Compatible (ss : SymSet) (x : Ind) (l : Locus) (g : Gene) : Prop :=
  Inside x l ∧ GeneWF ss x.rows x.cols l.idx l.cat g

instance (ss x l g) : Decidable (Compatible ss x l g) := by unfold Compatible; infer_instance

def ReplaceStep (pre : Ind) (l : Locus) (g : Gene) (post : Ind) : Prop :=
  SameShape pre post ∧ post.best = pre.best ∧ post.age = pre.age ∧ post.xover = pre.xover ∧
  ∀ i, i < pre.rows → ∀ c, c < pre.cols →
    post.gene i c = if i = l.idx ∧ c = l.cat then g else pre.gene i c

instance (pre l g post) : Decidable (ReplaceStep pre l g post) := by
  unfold ReplaceStep SameShape; infer_instance

def DestroyStep (ss : SymSet) (pre : Ind) (idx : Nat) (post : Ind) : Prop :=
  SameShape pre post ∧ post.best = pre.best ∧ post.age = pre.age ∧ post.xover = pre.xover ∧
  ∀ i, i < pre.rows → ∀ c, c < pre.cols →
    if i = idx then GeneWF ss pre.rows pre.cols i c (post.gene i c) ∧
                    (post.gene i c).sym.terminal = true
    else post.gene i c = pre.gene i c

instance (ss pre idx post) : Decidable (DestroyStep ss pre idx post) := by
  unfold DestroyStep SameShape; infer_instance

/-- cse: symbols and parameters stay; every argument index stays or is redirected to a
    strictly later row whose (rewritten) gene in the argument's column equals the
    (rewritten) gene the argument designated before -/
def CseStep (pre post : Ind) : Prop :=
  SameShape pre post ∧ post.best = pre.best ∧ post.age = pre.age ∧ post.xover = pre.xover ∧
  ∀ i, i < pre.rows → ∀ c, c < pre.cols →
    (post.gene i c).sym = (pre.gene i c).sym ∧ (post.gene i c).par = (pre.gene i c).par ∧
    (post.gene i c).args.length = (pre.gene i c).args.length ∧
    ∀ k, k < (pre.gene i c).args.length →
      i < (post.gene i c).args.getD k 0 ∧ (post.gene i c).args.getD k 0 < pre.rows ∧
      post.gene ((post.gene i c).args.getD k 0) ((pre.gene i c).sym.argCats.getD k 0)
        = post.gene ((pre.gene i c).args.getD k 0) ((pre.gene i c).sym.argCats.getD k 0)

instance (pre post) : Decidable (CseStep pre post) := by
  unfold CseStep SameShape; infer_instance

/-! ## Teams (`team<i_mep>`) -/

abbrev Team := List Ind

def TeamWF (ss : SymSet) (t : Team) : Prop := ∀ x ∈ t, WF ss x

/-- `team(const problem &)`: `env.team.individuals` members, each `i_mep(problem)` -/
def teamRandom (ss : SymSet) (env : MepEnv) (xo : Nat → Nat) (d : Nat → Nat → Nat → GDraw) : Team :=
  (List.range env.teamSize).map (fun k => randomInd ss env (xo k) (d k))

/-- `team::mutation(pgm, prb)`: every member OF THE TEAM (`t.length` = `individuals()`, not
    `env.teamSize`) is mutated under `env` -/
def teamMutation (ss : SymSet) (env : MepEnv) (eqv : Gene → Gene → Bool)
    (bern : Nat → Nat → Nat → Bool) (d : Nat → Nat → Nat → GDraw) (t : Team) : Team × Nat :=
  let r := (List.range t.length).map
    (fun k => mutation ss env eqv (bern k) (d k) (t.getD k default_ind))
  (r.map (·.1), (r.map (·.2)).sum)
where default_ind : Ind := ⟨0, 0, fun _ _ => default, ⟨0, 0⟩, 0, 0⟩

def teamCrossover (lhs rhs : Team) (d : Nat → XDraw) : Team :=
  (List.range lhs.length).map (fun k =>
    crossover (lhs.getD k teamMutation.default_ind) (rhs.getD k teamMutation.default_ind) (d k))

/-- `team<T>::inc_age()`: every member ages -/
def teamIncAge (t : Team) : Team :=
  (List.range t.length).map (fun k => incAge (t.getD k teamMutation.default_ind))

def TeamRandomStep (ss : SymSet) (env : MepEnv) (post : Team) : Prop :=
  post.length = env.teamSize ∧ ∀ x ∈ post, RandomStep ss env x

def TeamMutStep (ss : SymSet) (env : MepEnv) (pre post : Team) : Prop :=
  post.length = pre.length ∧
  ∀ k, k < pre.length →
    MutStep ss env (pre.getD k teamMutation.default_ind) (post.getD k teamMutation.default_ind)

def TeamCrossStep (lhs rhs post : Team) : Prop :=
  post.length = lhs.length ∧
  ∀ k, k < lhs.length →
    CrossStep (lhs.getD k teamMutation.default_ind) (rhs.getD k teamMutation.default_ind)
      (post.getD k teamMutation.default_ind)

def TeamIncAgeStep (pre post : Team) : Prop :=
  post.length = pre.length ∧
  ∀ k, k < pre.length →
    IncAgeStep (pre.getD k teamMutation.default_ind) (post.getD k teamMutation.default_ind)

/-- the same individual as far as it can be observed (shape, entry point, age, flavour, genes) -/
def SameInd (pre post : Ind) : Prop :=
  SameShape pre post ∧ post.best = pre.best ∧ post.age = pre.age ∧ post.xover = pre.xover ∧
  SameGenes pre post

/-- `team(std::vector<T>)`: the members are the given individuals, in order -/
def TeamOfMembersStep (pre post : Team) : Prop :=
  post.length = pre.length ∧
  ∀ k, k < pre.length →
    SameInd (pre.getD k teamMutation.default_ind) (post.getD k teamMutation.default_ind)

instance (pre post) : Decidable (TeamIncAgeStep pre post) := by
  unfold TeamIncAgeStep; infer_instance
instance (pre post : Ind) : Decidable (SameInd pre post) := by
  unfold SameInd SameShape; infer_instance
instance (pre post) : Decidable (TeamOfMembersStep pre post) := by
  unfold TeamOfMembersStep; infer_instance

instance (ss env post) : Decidable (TeamRandomStep ss env post) := by
  unfold TeamRandomStep; infer_instance
instance (ss env pre post) : Decidable (TeamMutStep ss env pre post) := by
  unfold TeamMutStep; infer_instance
instance (lhs rhs post) : Decidable (TeamCrossStep lhs rhs post) := by
  unfold TeamCrossStep; infer_instance

/-! ## Provenance and histories (the vocabulary of the closure theorems) -/

/-- every gene of `post` is the gene `frm` or `to` has at the same locus -/
def Pointwise (frm to post : Ind) : Prop :=
  ∀ i, i < frm.rows → ∀ c, c < frm.cols →
    post.gene i c = frm.gene i c ∨ post.gene i c = to.gene i c


/-- corresponding members of two teams have the same size (what `crossover(lhs[k], rhs[k])` expects) -/
def SameSizes (lhs rhs : Team) : Prop :=
  ∀ k, k < lhs.length →
    (rhs.getD k teamMutation.default_ind).rows = (lhs.getD k teamMutation.default_ind).rows

/-- individuals reachable from randomly created ones by any sequence of the public genetic
    operations (each operation as the step relation the driver decides on real executions).
    Every step has ITS OWN environment: an individual is created under a valid one and may then be
    mutated under ANY other (code length and patch length raised or lowered in between, valid or
    not); individuals of different sizes coexist; `crossover` requires parents of the same size
    (its `Expects`). -/
inductive Reachable (ss : SymSet) : Ind → Prop
  | random {env : MepEnv} {post : Ind} : env.Valid → RandomStep ss env post → Reachable ss post
  | mutation {env : MepEnv} {pre post : Ind} :
      Reachable ss pre → MutStep ss env pre post → Reachable ss post
  | crossover {lhs rhs post : Ind} :
      Reachable ss lhs → Reachable ss rhs → rhs.rows = lhs.rows → CrossStep lhs rhs post →
      Reachable ss post
  | getBlock {pre post : Ind} {l : Locus} :
      Reachable ss pre → Inside pre l → GetBlockStep pre l post → Reachable ss post
  | destroyBlock {pre post : Ind} {idx : Nat} :
      Reachable ss pre → DestroyStep ss pre idx post → Reachable ss post
  | replace {pre post : Ind} {l : Locus} {g : Gene} :
      Reachable ss pre → Compatible ss pre l g → ReplaceStep pre l g post → Reachable ss post
  | cse {pre post : Ind} : Reachable ss pre → CseStep pre post → Reachable ss post
  | incAge {pre post : Ind} : Reachable ss pre → IncAgeStep pre post → Reachable ss post


/-- teams reachable from randomly created ones (members of a team may have different sizes:
    `team(std::vector<T>)` takes any individuals) -/
inductive TReachable (ss : SymSet) : Team → Prop
  | random {env : MepEnv} {post : Team} : env.Valid → TeamRandomStep ss env post → TReachable ss post
  | ofMembers {t : Team} : (∀ x ∈ t, Reachable ss x) → TReachable ss t
  | mutation {env : MepEnv} {pre post : Team} :
      TReachable ss pre → TeamMutStep ss env pre post → TReachable ss post
  | crossover {lhs rhs post : Team} :
      TReachable ss lhs → TReachable ss rhs → rhs.length = lhs.length → SameSizes lhs rhs →
      TeamCrossStep lhs rhs post → TReachable ss post
  | incAge {pre post : Team} :
      TReachable ss pre → TeamIncAgeStep pre post → TReachable ss post


/-- individuals produced by any finite sequence of the model operators, every draw being an
    arbitrary value allowed by the contract of the random primitive that produces it, every
    operator call with an environment of its own (arbitrary for `mutation`) -/
inductive ReachableF (ss : SymSet) : Ind → Prop
  | random {env : MepEnv} {xo : Nat} {d : Nat → Nat → GDraw} : env.Valid → xo < 4 →
      (∀ i, i < env.codeLength → ∀ c, c < ss.cats →
        DrawOK ss env.codeLength env.patchLength i c (d i c)) →
      ReachableF ss (randomInd ss env xo d)
  | mutation {x : Ind} {env : MepEnv} {eqv : Gene → Gene → Bool} {bern : Nat → Nat → Bool}
      {d : Nat → Nat → GDraw} : ReachableF ss x →
      (∀ i, i < x.rows → ∀ c, c < x.cols → DrawOK ss x.rows env.patchLength i c (d i c)) →
      ReachableF ss (mutation ss env eqv bern d x).1
  | crossover {x y : Ind} {d : XDraw} : ReachableF ss x → ReachableF ss y → y.rows = x.rows →
      XDrawOK (if d.b then y else x) d → ReachableF ss (crossover x y d)
  | getBlock {x : Ind} {l : Locus} : ReachableF ss x → Inside x l →
      ReachableF ss (getBlock x l)
  | destroyBlock {x : Ind} {idx : Nat} {d : Nat → GDraw} : ReachableF ss x →
      (∀ c, c < x.cols → TDrawOK ss c (d c)) → ReachableF ss (destroyBlock ss x idx d)
  | replace {x : Ind} {l : Locus} {g : Gene} : ReachableF ss x → Compatible ss x l g →
      ReachableF ss (replace x l g)
  | cse {x : Ind} : ReachableF ss x → ReachableF ss (cse x)
  | incAge {x : Ind} : ReachableF ss x → ReachableF ss (incAge x)


/-- teams produced by any finite sequence of the model team operators -/
inductive TReachableF (ss : SymSet) : Team → Prop
  | random {env : MepEnv} {xo : Nat → Nat} {d : Nat → Nat → Nat → GDraw} : env.Valid →
      (∀ k, k < env.teamSize → xo k < 4 ∧
        ∀ i, i < env.codeLength → ∀ c, c < ss.cats →
          DrawOK ss env.codeLength env.patchLength i c (d k i c)) →
      TReachableF ss (teamRandom ss env xo d)
  | ofMembers {t : Team} : (∀ x ∈ t, ReachableF ss x) → TReachableF ss t
  | mutation {t : Team} {env : MepEnv} {eqv : Gene → Gene → Bool} {bern : Nat → Nat → Nat → Bool}
      {d : Nat → Nat → Nat → GDraw} : TReachableF ss t →
      (∀ k, k < t.length → ∀ i, i < (t.getD k teamMutation.default_ind).rows →
        ∀ c, c < (t.getD k teamMutation.default_ind).cols →
          DrawOK ss (t.getD k teamMutation.default_ind).rows env.patchLength i c (d k i c)) →
      TReachableF ss (teamMutation ss env eqv bern d t).1
  | crossover {lhs rhs : Team} {d : Nat → XDraw} : TReachableF ss lhs →
      TReachableF ss rhs → rhs.length = lhs.length → SameSizes lhs rhs →
      (∀ k, k < lhs.length →
        XDrawOK (if (d k).b then rhs.getD k teamMutation.default_ind
                 else lhs.getD k teamMutation.default_ind) (d k)) →
      TReachableF ss (teamCrossover lhs rhs d)
  | incAge {t : Team} : TReachableF ss t → TReachableF ss (teamIncAge t)


end Vita.C02
