/-
  C02 — genetic operators only produce well-formed, well-typed individuals.
  Property theorems (statements in words: design/C02.md).
-/
import Vita.C02.Lemmas
import Vita.C02.CseLemmas
import Vita.C02.ReachLemmas
import Vita.C02.GenLemmas
import Vita.C02.RouletteLemmas
import Vita.C02.WalkLemmas
namespace Vita.C02
open Vita.IntE GenSem

/-! ## symbol_set::roulette

  The statements are about the GENERATED terms: `Gen.wedge` (the wedge loop of
  `sum_container::roulette`, meaning: `GenSem.WedgeLoop.run / pick`), `Gen.rouletteSel` and
  `Gen.rouletteTerminal` (which view of the category `symbol_set::roulette(c)` /
  `roulette_terminal(c)` ask), all regenerated from the clang AST of symbol_set.cc on every run. -/

/-- The extracted wedge loop denotes the model's `wedgeIdx` / `rouletteOf` on every container and
    for every slot (also when it leaves the container: both sides are `none` then); the slot is
    drawn below `sum()`. -/
theorem gen_wedge_denotes (l : List Sym) (slot : Nat) :
    Gen.wedge.run (l.map (·.weight)) slot = wedgeIdx l 0 slot ∧
    Gen.wedge.pick l slot = rouletteOf l slot ∧
    Gen.wedge.slotSup = "sum()" :=
  ⟨wedge_run_eq l slot, wedge_pick_eq l slot, rfl⟩

/-- For any slot below the sum of the weights the extracted wedge loop stops at an index inside
    the container and returns one of its symbols (the one the model's `rouletteD` returns). -/
theorem roulette_in_container (l : List Sym) (slot : Nat) (h : slot < wsum l) :
    (∃ i, Gen.wedge.run (l.map (·.weight)) slot = some i ∧ i < l.length) ∧
    (∃ s, Gen.wedge.pick l slot = some s ∧ s ∈ l ∧ s = rouletteD l slot) := by
  refine ⟨?_, ?_⟩
  · rw [wedge_run_eq]; exact wedgeIdx_some l 0 slot (by omega) (by omega)
  · rw [wedge_pick_eq, rouletteOf_eq_D l slot h]
    exact ⟨_, rfl, rouletteD_mem l slot h, rfl⟩

/-- The hypothesis `slot < sum` cannot be dropped: when every weight is zero (or the container is
    empty) the extracted loop leaves the container whatever the slot (defect `6b89709`: such symbol
    sets were accepted by `symbol_set::is_valid`). -/
theorem wedge_zero_sum (l : List Sym) (slot : Nat) (h : ∀ s ∈ l, s.weight = 0) :
    Gen.wedge.run (l.map (·.weight)) slot = none ∧ Gen.wedge.pick l slot = none := by
  have := wedgeIdx_none_of_zero l 0 slot (Nat.zero_le _) h
  exact ⟨by rw [wedge_run_eq]; exact this, by rw [wedge_pick_eq]; simp [rouletteOf, this]⟩

/-- `symbol_set::roulette(c)` as extracted – `if (boolean() && views_[c].functions.size())` ask the
    functions of the category, else its terminals – is the model's choice between `rouletteOf` of the
    two views; `roulette_terminal(c)` asks the terminals; `views_[c].functions` / `.terminals` hold the
    symbols of category `c` that are not / are terminals (`symbol_set::insert`). -/
theorem gen_roulette_denotes (ss : SymSet) (c : Nat) (d : GDraw) :
    Gen.rouletteSel.run Gen.wedge ss c d =
      (if ss.useF c d then rouletteOf (ss.functions c) d.slotF
       else rouletteOf (ss.terminals c) d.slotT) ∧
    Gen.wedge.pick (view ss c Gen.rouletteTerminal) d.slotT = rouletteOf (ss.terminals c) d.slotT ∧
    (∀ s, s ∈ view ss c "functions" ↔ s ∈ ss.syms ∧ s.cat = c ∧ s.terminal = false) ∧
    (∀ s, s ∈ view ss c "terminals" ↔ s ∈ ss.syms ∧ s.cat = c ∧ s.terminal = true) ∧
    Gen.viewInsert = [("all", "always"), ("terminals", "terminal()"), ("functions", "!terminal()")] := by
  refine ⟨?_, ?_, ?_, ?_, rfl⟩
  · simp only [Sel.run, Sel.useThen, Gen.rouletteSel, view, SymSet.useF, wedge_pick_eq]
    simp
  · simp only [Gen.rouletteTerminal, view, wedge_pick_eq]
    simp
  · intro s; simp [view, SymSet.functions]
  · intro s; simp [view, SymSet.terminals]

/-- `roulette(c)` / `roulette_terminal(c)` – the extracted terms – return, for admissible draws, a
    symbol of the set, of category `c` (a terminal for `roulette_terminal`): the one the model's
    `SymSet.roulette` / `rouletteT` returns. -/
theorem roulette_in_cat (ss : SymSet) (c lo sup : Nat) (d : GDraw) :
    (GDrawOK ss c lo sup d → ∃ s, Gen.rouletteSel.run Gen.wedge ss c d = some s ∧
        s = ss.roulette c d ∧ s ∈ ss.syms ∧ s.cat = c) ∧
    (TDrawOK ss c d → ∃ s, Gen.wedge.pick (view ss c Gen.rouletteTerminal) d.slotT = some s ∧
        s = ss.rouletteT c d ∧ s ∈ ss.syms ∧ s.cat = c ∧ s.terminal = true) := by
  obtain ⟨h1, h2, _⟩ := gen_roulette_denotes ss c d
  refine ⟨?_, ?_⟩
  · intro hd
    have hm := roulette_mem hd
    refine ⟨ss.roulette c d, ?_, rfl, hm.1, hm.2⟩
    rw [h1]
    unfold SymSet.roulette
    by_cases hu : ss.useF c d = true
    · simp only [hu, if_true]; exact rouletteOf_eq_D _ _ (hd.1 hu)
    · have hu' : ss.useF c d = false := by simpa using hu
      simp only [hu', Bool.false_eq_true, if_false]; exact rouletteOf_eq_D _ _ (hd.2.1 hu')
  · intro hd
    have hm := rouletteT_mem hd
    refine ⟨ss.rouletteT c d, ?_, rfl, hm.1, hm.2.1, hm.2.2⟩
    rw [h2]
    exact rouletteOf_eq_D _ _ hd

/-! ## what well-formedness gives -/

/-- Each function argument designates a strictly later position, inside the genome, holding a
    symbol of the category that argument requires. -/
theorem wf_args_typed {ss : SymSet} {x : Ind} (h : WF ss x) {i c : Nat} (hi : i < x.rows)
    (hc : c < x.cols) {l : Locus} (hl : l ∈ (x.gene i c).argLoci) :
    i < l.idx ∧ l.idx < x.rows ∧ l.cat < x.cols ∧ (x.gene l.idx l.cat).sym.cat = l.cat := by
  have := argLoci_inside (h.genes i hi c hc) hl
  exact ⟨this.1, this.2.1, this.2.2, (h.genes l.idx this.2.1 l.cat this.2.2).2.1⟩

/-- Every category ends in terminals. -/
theorem wf_last_terminals {ss : SymSet} {x : Ind} (h : WF ss x) {c : Nat} (hc : c < x.cols) :
    (x.gene (x.rows - 1) c).sym.terminal = true ∧ (x.gene (x.rows - 1) c).args = [] := by
  refine ⟨h.last c hc, ?_⟩
  have hg := h.genes (x.rows - 1) (by have := h.rows_pos; omega) c hc
  have h0 := (Sym.terminal_iff_arity _).1 (h.last c hc)
  have := hg.2.2.1
  rw [h0] at this
  exact List.eq_nil_of_length_eq_zero this

/-- Executing the individual never leaves the genome: every locus the walk from the entry
    point (or from any locus inside) visits is inside. -/
theorem wf_walk_inside {ss : SymSet} {x : Ind} (h : WF ss x) :
    (∀ l ∈ exons x, Inside x l) ∧ ∀ l0, Inside x l0 → ∀ l ∈ reach x l0, Inside x l :=
  ⟨reach_inside h h.best, fun _ h0 => reach_inside h h0⟩

/-- The row scan used by the model (`reach`, `exons`) visits exactly the loci reached from the
    start by following argument loci – the set any traversal of the active code visits (the
    `std::set` based iterator, `random_locus`, the recursive tree crossover, the interpreter). -/
theorem reach_closure {ss : SymSet} {x : Ind} (h : WF ss x) {l0 : Locus} (h0 : Inside x l0)
    (l : Locus) : l ∈ reach x l0 ↔ Reaches x l0 l :=
  reach_iff_reaches h h0 l

/-- `operator<(const locus &, const locus &)` as extracted is the lexicographic order. -/
theorem gen_locus_less (a b : Locus) :
    lessBy Gen.locusLess a b = true ↔ (a.idx < b.idx ∨ (a.idx = b.idx ∧ a.cat < b.cat)) := by
  simp only [lessBy, Gen.locusLess, evalZ, lessEnv, cmpZ, b2i]
  by_cases h1 : a.idx < b.idx
  · have : (a.idx : Int) < b.idx := by omega
    simp [h1, this]
  · have h1' : ¬ (a.idx : Int) < b.idx := by omega
    by_cases h2 : a.idx = b.idx
    · have h2' : (a.idx : Int) = b.idx := by omega
      by_cases h3 : a.cat < b.cat
      · have : (a.cat : Int) < b.cat := by omega
        simp [h2, h3, this]
      · have : ¬ (a.cat : Int) < b.cat := by omega
        simp [h2, h3, this]
    · have h2' : ¬ (a.idx : Int) = b.idx := by omega
      simp [h1, h1', h2, h2']

/-- `random_locus(prg)` as extracted – a `std::set<locus>` that starts as `{prg.best()}`, a cursor
    from `begin()`, each iteration inserting `prg[*iter].arguments()`, `while (++iter != end())`, the
    result `random::element` of the set – scans, on a well-formed individual, a set that holds
    exactly the active loci: the model's `exons` (the row scan `reach`), i.e. the loci reached from
    the entry point by following arguments; all of them are inside the genome. -/
theorem gen_random_locus_denotes {ss : SymSet} {x : Ind} (h : WF ss x) :
    Gen.randomLocus.known = true ∧
    (∀ l, l ∈ Gen.randomLocus.run Gen.locusLess x ↔ l ∈ exons x) ∧
    (∀ l, l ∈ Gen.randomLocus.run Gen.locusLess x ↔ Reaches x x.best l) ∧
    (∀ l ∈ Gen.randomLocus.run Gen.locusLess x, Inside x l) := by
  have hk : Gen.randomLocus.known = true := by decide
  have hr : ∀ l, l ∈ Gen.randomLocus.run Gen.locusLess x ↔ Reaches x x.best l := by
    intro l
    simp only [Walk.run, hk, if_true]
    exact walk_iff_reaches (less := lessBy Gen.locusLess) gen_locus_less h l
  have he : ∀ l, l ∈ Gen.randomLocus.run Gen.locusLess x ↔ l ∈ exons x := by
    intro l
    rw [hr l]
    exact (reach_iff_reaches h h.best l).symm
  exact ⟨hk, he, hr, fun l hl => reach_inside h h.best l ((he l).1 hl)⟩

/-- `for (i = begin(); i != end(); ++i)` – `i_mep::basic_iterator` as extracted: the frontier set
    starts as `{best()}`, `*i` is the gene at its least locus, `++i` replaces that locus by its
    arguments, `end()` is the empty frontier – visits, on a well-formed individual, exactly the active
    loci (the model's `exons`), each ONCE, in increasing `operator<` order.  (This is the loop of
    `mutation`, `blocks()`, …: "mutation affects only exons".) -/
theorem gen_exon_iter_denotes {ss : SymSet} {x : Ind} (h : WF ss x) :
    Gen.exonIter.known = true ∧
    (∀ l, l ∈ Gen.exonIter.run Gen.locusLess x ↔ l ∈ exons x) ∧
    (Gen.exonIter.run Gen.locusLess x).Pairwise
      (fun a b => a.idx < b.idx ∨ (a.idx = b.idx ∧ a.cat < b.cat)) ∧
    (Gen.exonIter.run Gen.locusLess x).Nodup := by
  have hk : Gen.exonIter.known = true := by decide
  obtain ⟨h1, h2⟩ := frontier_iff_reaches (less := lessBy Gen.locusLess) gen_locus_less h
  have hrun : Gen.exonIter.run Gen.locusLess x
      = frontierFrom (lessBy Gen.locusLess) x (x.rows * x.cols) [x.best] [] := by
    simp only [Frontier.run, hk, if_true]
  rw [hrun]
  refine ⟨hk, fun l => ?_, h2, ?_⟩
  · rw [h1 l]; exact (reach_iff_reaches h h.best l).symm
  · exact h2.imp (fun {a b} hab heq => by subst heq; exact LLt.irrefl _ hab)

theorem wfb_iff (ss : SymSet) (x : Ind) : WFb ss x = true ↔ WF ss x := by
  unfold WFb
  simp only [Bool.and_eq_true, decide_eq_true_eq]
  constructor
  · rintro ⟨⟨⟨⟨a, b⟩, c⟩, d⟩, e⟩; exact ⟨a, b, c, d, e⟩
  · rintro ⟨a, b, c, d, e⟩; exact ⟨⟨⟨⟨a, b⟩, c⟩, d⟩, e⟩

/-! ## random construction -/

theorem wf_randomStep {ss : SymSet} {env : MepEnv} {post : Ind} (hc : 0 < ss.cats)
    (hr : 0 < env.codeLength) (h : RandomStep ss env post) : WF ss post := by
  obtain ⟨h1, h2, h3, _, _, hg⟩ := h
  apply wf_of_genes
  · omega
  · exact h2
  · rw [h3, h1, h2]; exact ⟨hr, hc⟩
  · intro i hi c hc'
    rw [h1] at hi ⊢; rw [h2] at hc' ⊢
    exact (hg i hi c hc').1

theorem randomInd_refines {ss : SymSet} (hv : ss.Valid) {env : MepEnv} {xo : Nat}
    {d : Nat → Nat → GDraw} (hp : env.codeLength ≤ PACK) (hx : xo < 4)
    (hd : ∀ i, i < env.codeLength → ∀ c, c < ss.cats →
      DrawOK ss env.codeLength env.patchLength i c (d i c)) :
    RandomStep ss env (randomInd ss env xo d) :=
  ⟨rfl, rfl, rfl, rfl, hx, fun i hi c hc => drawGene_fresh hv hp (hd i hi c hc)⟩

/-- `i_mep(problem)` builds a well-formed individual of `env.mep.code_length` rows, for every valid
    environment. -/
theorem wf_random {ss : SymSet} (hv : ss.Valid) {env : MepEnv} {xo : Nat} {d : Nat → Nat → GDraw}
    (he : env.Valid) (hx : xo < 4)
    (hd : ∀ i, i < env.codeLength → ∀ c, c < ss.cats →
      DrawOK ss env.codeLength env.patchLength i c (d i c)) :
    WF ss (randomInd ss env xo d) ∧ (randomInd ss env xo d).rows = env.codeLength :=
  ⟨wf_randomStep hv.cats_pos (by have := he.patch_lt; omega) (randomInd_refines hv he.len_le hx hd),
   rfl⟩

/-! ## mutation -/

theorem wf_mutStep {ss : SymSet} {env : MepEnv} {pre post : Ind} (h : WF ss pre)
    (hs : MutStep ss env pre post) : WF ss post := by
  obtain ⟨⟨hr, hc⟩, hb, _, _, hg⟩ := hs
  apply wf_of_genes
  · rw [hr]; exact h.rows_pos
  · rw [hc]; exact h.cols_eq
  · rw [hb, hr, hc]; exact h.best
  · intro i hi c hc'
    rw [hr] at hi ⊢; rw [hc] at hc' ⊢
    rcases hg i hi c hc' with he | hf
    · rw [he]; exact h.genes i hi c hc'
    · exact hf.1

theorem mutation_refines {ss : SymSet} (hv : ss.Valid) {env : MepEnv} (eqv : Gene → Gene → Bool)
    (bern : Nat → Nat → Bool) {d : Nat → Nat → GDraw} {x : Ind} (h : WF ss x)
    (hp : x.rows ≤ PACK)
    (hd : ∀ i, i < x.rows → ∀ c, c < x.cols → DrawOK ss x.rows env.patchLength i c (d i c)) :
    MutStep ss env x (mutation ss env eqv bern d x).1 := by
  unfold mutation
  simp only
  apply foldl_inv (P := fun s : MState => MutStep ss env x s.x)
  · exact MutStep.refl ss env x
  · intro s i hi hs
    simp only [List.mem_range] at hi
    unfold mutRow
    apply foldl_inv (P := fun s : MState => MutStep ss env x s.x)
    · exact hs
    · intro s c hc hs
      simp only [List.mem_range] at hc
      unfold mutCell
      split
      · simp only
        split
        · split
          · exact hs
          · simp only
            apply MutStep.set hs
            have hrows : s.x.rows = x.rows := hs.1.1
            rw [hrows]
            have := drawGene_fresh hv hp (hd i hi c hc)
            rw [h.cols_eq]; exact this
        · exact hs
      · exact hs

/-- `mutation(pgm, prb)` keeps the individual well-formed, whatever is drawn and WHATEVER THE
    ENVIRONMENT of `prb`: `env` is arbitrary – its `code_length` may be shorter or longer than the
    individual, its `patch_length` may reach or exceed the individual's size (then only terminals
    are drawn), it need not even be a valid environment.  The draws are constrained by the
    individual's own size (`x.rows`) only. -/
theorem wf_mutation {ss : SymSet} (hv : ss.Valid) (env : MepEnv) (eqv : Gene → Gene → Bool)
    (bern : Nat → Nat → Bool) {d : Nat → Nat → GDraw} {x : Ind} (h : WF ss x)
    (hp : x.rows ≤ PACK)
    (hd : ∀ i, i < x.rows → ∀ c, c < x.cols → DrawOK ss x.rows env.patchLength i c (d i c)) :
    WF ss (mutation ss env eqv bern d x).1 ∧ (mutation ss env eqv bern d x).1.rows = x.rows :=
  ⟨wf_mutStep h (mutation_refines hv eqv bern h hp hd), (mutation_refines hv eqv bern h hp hd).1.1⟩

/-- Of the environment, mutation reads `patch_length` only: two environments with the same patch
    length – whatever their `code_length` and team size – give the same result. -/
theorem mutation_env_irrelevant (ss : SymSet) (env env' : MepEnv)
    (h : env'.patchLength = env.patchLength) (eqv : Gene → Gene → Bool) (bern : Nat → Nat → Bool)
    (d : Nat → Nat → GDraw) (x : Ind) :
    mutation ss env' eqv bern d x = mutation ss env eqv bern d x := by
  have hc : ∀ i c s, mutCell ss env' eqv bern d i c s = mutCell ss env eqv bern d i c s := by
    intro i c s; unfold mutCell; rw [h]
  have hr : mutRow ss env' eqv bern d = mutRow ss env eqv bern d := by
    funext cols s i; unfold mutRow; simp only [hc]
  unfold mutation; rw [hr]

/-- Mutation with probability zero (every Bernoulli draw `false`) changes nothing and
    reports zero mutations – under any environment. -/
theorem mutation_zero_id (ss : SymSet) (env : MepEnv) (eqv : Gene → Gene → Bool)
    (d : Nat → Nat → GDraw) (x : Ind) :
    mutation ss env eqv (fun _ _ => false) d x = (x, 0) := by
  unfold mutation
  simp only
  have key : ((List.range x.rows).foldl (mutRow ss env eqv (fun _ _ => false) d x.cols)
      ⟨x, [x.best], 0⟩).x = x ∧
      ((List.range x.rows).foldl (mutRow ss env eqv (fun _ _ => false) d x.cols)
      ⟨x, [x.best], 0⟩).n = 0 := by
    apply foldl_inv (P := fun s : MState => s.x = x ∧ s.n = 0)
    · exact ⟨rfl, rfl⟩
    · intro s i _ hs
      unfold mutRow
      apply foldl_inv (P := fun s : MState => s.x = x ∧ s.n = 0)
      · exact hs
      · intro s c _ hs
        unfold mutCell
        split
        · simpa using hs
        · exact hs
  rw [key.1, key.2]

/-! ## block extraction, replacement, block destruction -/

theorem wf_getBlockStep {ss : SymSet} {pre post : Ind} {l : Locus} (h : WF ss pre)
    (hl : Inside pre l) (hs : GetBlockStep pre l post) : WF ss post := by
  obtain ⟨⟨hr, hc⟩, hb, _, _, hg⟩ := hs
  apply wf_of_genes
  · rw [hr]; exact h.rows_pos
  · rw [hc]; exact h.cols_eq
  · rw [hb, hr, hc]; exact hl
  · intro i hi c hc'
    rw [hr] at hi ⊢; rw [hc] at hc' ⊢
    rw [hg i hi c hc']; exact h.genes i hi c hc'

/-- `get_block(l)` for a locus inside the genome. -/
theorem wf_get_block {ss : SymSet} {x : Ind} {l : Locus} (h : WF ss x) (hl : Inside x l) :
    WF ss (getBlock x l) ∧ GetBlockStep x l (getBlock x l) :=
  have hs : GetBlockStep x l (getBlock x l) :=
    ⟨SameShape.refl x, rfl, rfl, rfl, fun _ _ _ _ => rfl⟩
  ⟨wf_getBlockStep h hl hs, hs⟩

theorem wf_replaceStep {ss : SymSet} {pre post : Ind} {l : Locus} {g : Gene} (h : WF ss pre)
    (hg : Compatible ss pre l g) (hs : ReplaceStep pre l g post) : WF ss post := by
  obtain ⟨⟨hr, hc⟩, hb, _, _, hgen⟩ := hs
  apply wf_of_genes
  · rw [hr]; exact h.rows_pos
  · rw [hc]; exact h.cols_eq
  · rw [hb, hr, hc]; exact h.best
  · intro i hi c hc'
    rw [hr] at hi ⊢; rw [hc] at hc' ⊢
    rw [hgen i hi c hc']
    by_cases hh : i = l.idx ∧ c = l.cat
    · simp only [hh, and_self, if_true]
      obtain ⟨rfl, rfl⟩ := hh
      exact hg.2
    · simp only [hh, if_false]
      exact h.genes i hi c hc'

/-- `replace(l, g)` with a gene compatible with the locus. -/
theorem wf_replace {ss : SymSet} {x : Ind} {l : Locus} {g : Gene} (h : WF ss x)
    (hg : Compatible ss x l g) : WF ss (replace x l g) ∧ ReplaceStep x l g (replace x l g) :=
  have hs : ReplaceStep x l g (replace x l g) :=
    ⟨SameShape.refl x, rfl, rfl, rfl, fun _ _ _ _ => rfl⟩
  ⟨wf_replaceStep h hg hs, hs⟩

theorem wf_destroyStep {ss : SymSet} {pre post : Ind} {idx : Nat} (h : WF ss pre)
    (hs : DestroyStep ss pre idx post) : WF ss post := by
  obtain ⟨⟨hr, hc⟩, hb, _, _, hgen⟩ := hs
  apply wf_of_genes
  · rw [hr]; exact h.rows_pos
  · rw [hc]; exact h.cols_eq
  · rw [hb, hr, hc]; exact h.best
  · intro i hi c hc'
    rw [hr] at hi ⊢; rw [hc] at hc' ⊢
    have := hgen i hi c hc'
    by_cases hh : i = idx
    · simp only [hh, if_true] at this
      rw [hh]; exact this.1
    · simp only [hh, if_false] at this
      rw [this]; exact h.genes i hi c hc'

theorem destroyBlock_refines {ss : SymSet} {x : Ind} {idx : Nat} {d : Nat → GDraw}
    (hd : ∀ c, c < x.cols → TDrawOK ss c (d c)) :
    DestroyStep ss x idx (destroyBlock ss x idx d) := by
  refine ⟨SameShape.refl x, rfl, rfl, rfl, ?_⟩
  intro i hi c hc
  by_cases hh : i = idx
  · simp only [hh, if_true]
    have hm := rouletteT_mem (hd c hc)
    have := geneOfTerminal_wf (ss := ss) (rows := x.rows) (cols := x.cols) (i := idx) (d c)
      hm.1 hm.2.1 hm.2.2
    simpa [destroyBlock, hc] using this
  · simp [destroyBlock, hh]

/-- `destroy_block(index, sset)`. -/
theorem wf_destroy_block {ss : SymSet} {x : Ind} {idx : Nat} {d : Nat → GDraw}
    (h : WF ss x) (hd : ∀ c, c < x.cols → TDrawOK ss c (d c)) :
    WF ss (destroyBlock ss x idx d) :=
  wf_destroyStep h (destroyBlock_refines hd)

/-! ## crossover -/

/-- Typing is a per-column discipline: a genome of the parents' shape, every locus of which
    holds the gene one of two well-formed parents has there, is well-formed. -/
theorem wf_of_pointwise {ss : SymSet} {a b x : Ind} (ha : WF ss a) (hb : WF ss b)
    (hab : b.rows = a.rows ∧ b.cols = a.cols) (hx : x.rows = a.rows ∧ x.cols = a.cols)
    (hbest : Inside x x.best)
    (hp : ∀ i, i < a.rows → ∀ c, c < a.cols → x.gene i c = a.gene i c ∨ x.gene i c = b.gene i c) :
    WF ss x := by
  apply wf_of_genes
  · rw [hx.1]; exact ha.rows_pos
  · rw [hx.2]; exact ha.cols_eq
  · exact hbest
  · intro i hi c hc
    rw [hx.1] at hi ⊢; rw [hx.2] at hc ⊢
    rcases hp i hi c hc with h | h
    · rw [h]; exact ha.genes i hi c hc
    · rw [h]
      have := hb.genes i (by rw [hab.1]; exact hi) c (by rw [hab.2]; exact hc)
      rw [hab.1, hab.2] at this; exact this

theorem xover_provenance_one_point {frm to post : Ind} (h : OnePoint frm to post) :
    Pointwise frm to post := by
  obtain ⟨cut, _, _, hg⟩ := h
  intro i hi c hc
  rw [hg i hi c hc]
  split <;> simp

theorem xover_provenance_two_points {frm to post : Ind} (h : TwoPoints frm to post) :
    Pointwise frm to post := by
  obtain ⟨cut1, _, cut2, _, _, hg⟩ := h
  intro i hi c hc
  rw [hg i hi c hc]
  split <;> simp

theorem xover_provenance_uniform {frm to post : Ind} (hu : Uniform frm to post) :
    Pointwise frm to post := hu

theorem xover_provenance_tree {frm to post : Ind} (h : TreeX frm to post) :
    Pointwise frm to post := by
  obtain ⟨start, _, hg⟩ := h
  intro i hi c hc
  rw [hg i hi c hc]
  split <;> simp

theorem xover_provenance_flavour {k : Nat} {frm to post : Ind} (h : Flavour k frm to post) :
    Pointwise frm to post := by
  unfold Flavour at h
  split at h
  · exact xover_provenance_one_point h
  · split at h
    · exact xover_provenance_two_points h
    · split at h
      · exact xover_provenance_uniform h
      · exact xover_provenance_tree h

/-- Each gene of a crossover offspring is the gene one of its parents has at the same
    position; the offspring has the parents' size and the age of the older parent; it
    inherits the flavour of one of them. -/
theorem crossover_provenance {lhs rhs post : Ind} (hsz : rhs.rows = lhs.rows ∧ rhs.cols = lhs.cols)
    (h : CrossStep lhs rhs post) :
    post.rows = lhs.rows ∧ post.cols = lhs.cols ∧ post.age = max lhs.age rhs.age ∧
    (post.xover = lhs.xover ∨ post.xover = rhs.xover) ∧
    (post.best = lhs.best ∨ post.best = rhs.best) ∧
    ∀ i, i < lhs.rows → ∀ c, c < lhs.cols →
      post.gene i c = lhs.gene i c ∨ post.gene i c = rhs.gene i c := by
  rcases h with ⟨h1, h2, h3, h4, h5, hf⟩ | ⟨h1, h2, h3, h4, h5, hf⟩
  · refine ⟨h1, h2, h5, Or.inr h4, Or.inl h3, ?_⟩
    intro i hi c hc
    have := xover_provenance_flavour hf i (by rw [hsz.1]; exact hi) c (by rw [hsz.2]; exact hc)
    exact this.symm
  · refine ⟨by rw [h1, hsz.1], by rw [h2, hsz.2], by rw [h5, Nat.max_comm], Or.inl h4,
      Or.inr h3, ?_⟩
    intro i hi c hc
    exact xover_provenance_flavour hf i hi c hc

theorem wf_crossStep {ss : SymSet} {lhs rhs post : Ind} (hl : WF ss lhs) (hr : WF ss rhs)
    (hsz : rhs.rows = lhs.rows ∧ rhs.cols = lhs.cols) (h : CrossStep lhs rhs post) :
    WF ss post := by
  obtain ⟨h1, h2, _, _, hb, hp⟩ := crossover_provenance hsz h
  apply wf_of_pointwise hl hr hsz ⟨h1, h2⟩ _ hp
  unfold Inside
  rw [h1, h2]
  rcases hb with hb | hb
  · rw [hb]; exact hl.best
  · rw [hb, ← hsz.1, ← hsz.2]; exact hr.best

theorem crossover_refines {lhs rhs : Ind} (d : XDraw) (hd : XDrawOK (if d.b then rhs else lhs) d) :
    CrossStep lhs rhs (crossover lhs rhs d) := by
  have key : ∀ frm to : Ind, XDrawOK frm d →
      Flavour frm.xover frm to
        { to with gene := xoverGene frm to d, xover := frm.xover, age := max to.age frm.age } := by
    intro frm to hok
    obtain ⟨hc, hc1, hc12, hc2, hpick⟩ := hok
    unfold Flavour
    by_cases h0 : frm.xover = 0
    · simp only [h0, if_true]
      refine ⟨onePointCut frm.rows d.cut, ?_, ?_, ?_⟩
      · unfold onePointCut
        by_cases h2 : 2 < frm.rows
        · have := hc h2
          simp only [h2, if_true]; omega
        · simp only [h2, if_false]; omega
      · unfold onePointCut
        by_cases h2 : 2 < frm.rows
        · simp only [h2, if_true]; exact hc h2
        · simp [h2]
      · intro i _ c _
        simp [xoverGene, h0]
    · by_cases h1 : frm.xover = 1
      · simp only [h1, if_true]
        refine ⟨d.cut1, hc1, d.cut2, hc2, by omega, ?_⟩
        intro i _ c _
        simp [xoverGene, h1]
      · by_cases h3 : frm.xover = 3
        · simp only [h3, if_true]
          intro i _ c _
          show xoverGene frm to d i c = _ ∨ xoverGene frm to d i c = _
          unfold xoverGene
          rw [if_neg h0, if_neg h1, if_pos h3]
          split <;> simp
        · simp only [h0, h1, h3, if_false]
          refine ⟨(exons frm).getD d.pick frm.best, getD_mem_of_lt _ _ _ hpick, ?_⟩
          intro i _ c _
          simp [xoverGene, h0, h1, h3]
  unfold CrossStep crossover
  cases hb : d.b
  · right
    simp only [hb] at hd
    simp only [Bool.false_eq_true, if_false]
    exact ⟨rfl, rfl, rfl, rfl, rfl, key lhs rhs hd⟩
  · left
    simp only [hb, if_true] at hd
    simp only [if_true]
    exact ⟨rfl, rfl, rfl, rfl, rfl, key rhs lhs hd⟩

/-- `crossover(lhs, rhs)` of two well-formed parents of equal size is well-formed, for each of
    the four flavours and whatever is drawn. -/
theorem wf_crossover {ss : SymSet} {lhs rhs : Ind} (hl : WF ss lhs) (hr : WF ss rhs)
    (hsz : rhs.rows = lhs.rows ∧ rhs.cols = lhs.cols) (d : XDraw)
    (hd : XDrawOK (if d.b then rhs else lhs) d) : WF ss (crossover lhs rhs d) :=
  wf_crossStep hl hr hsz (crossover_refines d hd)

/-! ## common subexpression elimination -/

theorem wf_cseStep {ss : SymSet} {pre post : Ind} (h : WF ss pre) (hs : CseStep pre post) :
    WF ss post := by
  obtain ⟨⟨hr, hc⟩, hb, _, _, hg⟩ := hs
  apply wf_of_genes
  · rw [hr]; exact h.rows_pos
  · rw [hc]; exact h.cols_eq
  · rw [hb, hr, hc]; exact h.best
  · intro i hi c hc'
    rw [hr] at hi ⊢; rw [hc] at hc' ⊢
    obtain ⟨hsym, _, hlen, hargs⟩ := hg i hi c hc'
    obtain ⟨w1, w2, w3, _, w5⟩ := h.genes i hi c hc'
    refine ⟨by rw [hsym]; exact w1, by rw [hsym]; exact w2, by rw [hlen, hsym]; exact w3, ?_,
      by rw [hsym]; exact w5⟩
    intro a ha
    obtain ⟨k, hk, rfl⟩ := exists_getD_of_mem 0 ha
    have := hargs k (by rw [← hlen]; exact hk)
    exact ⟨this.1, this.2.1⟩

/-- `cse()` does not change the expression rooted at any locus: the unfolded tree (hence, by
    C01, the value and, by C03, the signature) is the same. -/
theorem cse_preserves_unfold {ss : SymSet} {pre post : Ind} (h : WF ss pre)
    (hs : CseStep pre post) {l : Locus} (hl : Inside pre l) : unfold post l = unfold pre l := by
  have hrows : post.rows = pre.rows := hs.1.1
  obtain ⟨_, _, _, _, hg⟩ := hs
  have key : ∀ f i c, i < pre.rows → c < pre.cols → pre.rows - i ≤ f →
      unfoldF post f i c = unfoldF pre f i c := by
    intro f
    induction f with
    | zero => intro i c hi _ hf; omega
    | succ f ih =>
      intro i c hi hc hf
      obtain ⟨hsym, hpar, hlen, hargs⟩ := hg i hi c hc
      have hw := h.genes i hi c hc
      simp only [unfoldF, hsym, hpar, Tree.node.injEq, true_and]
      unfold Gene.argLoci
      rw [hsym]
      apply map_zipWith_congr
      · exact hlen
      · intro k hk hk'
        obtain ⟨_, h2, h3⟩ := hargs k hk
        have hmem : (pre.gene i c).args.getD k 0 ∈ (pre.gene i c).args := getD_mem_of_lt _ _ _ hk
        have hcm : (pre.gene i c).sym.argCats.getD k 0 ∈ (pre.gene i c).sym.argCats :=
          getD_mem_of_lt _ _ _ hk'
        have hb := hw.2.2.2.1 _ hmem
        have hcat := hw.2.2.2.2 _ hcm
        show unfoldF post f _ _ = unfoldF pre f _ _
        rw [unfoldF_same_gene post f _ _ _ _ h3]
        exact ih _ _ hb.2 hcat (by omega)
  unfold unfold
  rw [hrows]
  exact key _ _ _ hl.1 hl.2 (Nat.le_refl _)

/-- The model of `cse()` (a finite map keyed by the rewritten genes, rows scanned from the last
    one) satisfies the step relation. -/
theorem cse_refines {ss : SymSet} {x : Ind} (hw : WF ss x) (hp : x.rows ≤ PACK) :
    CseStep x (cse x) := by
  have h := cse_inv hw hp
  unfold cse
  refine ⟨⟨h.rows, h.cols⟩, h.best, h.age, h.xover, ?_⟩
  intro i hi c hc
  obtain ⟨s1, s2, s3⟩ := h.same i hi c hc
  exact ⟨s1, s2, s3, fun k hk => h.done i hi c hc trivial k hk⟩

/-- `cse()` of a well-formed individual is well-formed and denotes the same expression. -/
theorem wf_cse {ss : SymSet} {x : Ind} (hw : WF ss x) (hp : x.rows ≤ PACK) :
    WF ss (cse x) ∧ ∀ l, Inside x l → unfold (cse x) l = unfold x l :=
  ⟨wf_cseStep hw (cse_refines hw hp), fun _ hl => cse_preserves_unfold hw (cse_refines hw hp) hl⟩

/-- ageing does not touch the genome -/
theorem wf_incAgeStep {ss : SymSet} {pre post : Ind} (h : WF ss pre) (hs : IncAgeStep pre post) :
    WF ss post := by
  obtain ⟨⟨hr, hc⟩, hb, _, _, hg⟩ := hs
  apply wf_of_genes
  · rw [hr]; exact h.rows_pos
  · rw [hc]; exact h.cols_eq
  · rw [hb, hr, hc]; exact h.best
  · intro i hi c hc'
    rw [hr] at hi ⊢; rw [hc] at hc' ⊢
    rw [hg i hi c hc']; exact h.genes i hi c hc'

/-! ## closure over operator histories -/

/-- Every reachable individual is well-formed – whatever the environments of the steps of its
    history (each random construction under a valid one, each mutation under an ARBITRARY one),
    whatever the sizes of the individuals it was recombined with (equal to its own, as `crossover`
    requires) or that coexist with it. -/
theorem wf_closed {ss : SymSet} (hc : 0 < ss.cats) {x : Ind}
    (h : Reachable ss x) : WF ss x := by
  induction h with
  | random he hs => exact wf_randomStep hc (by have := he.patch_lt; omega) hs
  | mutation _ hs ih => exact wf_mutStep ih hs
  | @crossover lhs rhs post _ _ hrows hs ihl ihr =>
    exact wf_crossStep ihl ihr ⟨hrows, by rw [ihr.cols_eq, ihl.cols_eq]⟩ hs
  | getBlock _ hl hs ih => exact wf_getBlockStep ih hl hs
  | destroyBlock _ hs ih => exact wf_destroyStep ih hs
  | replace _ hg hs ih => exact wf_replaceStep ih hg hs
  | cse _ hs ih => exact wf_cseStep ih hs
  | incAge _ hs ih => exact wf_incAgeStep ih hs

/-- No operator changes the size of an individual: a reachable individual has the code length of
    the (valid) environment one of its ancestors was created under, hence at most 2^16 rows. -/
theorem reachable_rows {ss : SymSet} (hc : 0 < ss.cats) {x : Ind} (h : Reachable ss x) :
    ∃ env : MepEnv, env.Valid ∧ x.rows = env.codeLength := by
  induction h with
  | @random env post he hs => exact ⟨env, he, hs.1⟩
  | mutation _ hs ih => obtain ⟨e, he, h⟩ := ih; exact ⟨e, he, by rw [hs.1.1]; exact h⟩
  | @crossover lhs rhs post hl hr hrows hs ihl _ =>
    obtain ⟨e, he, h⟩ := ihl
    have hsz : rhs.rows = lhs.rows ∧ rhs.cols = lhs.cols :=
      ⟨hrows, by rw [(wf_closed hc hr).cols_eq, (wf_closed hc hl).cols_eq]⟩
    exact ⟨e, he, by rw [(crossover_provenance hsz hs).1]; exact h⟩
  | getBlock _ _ hs ih => obtain ⟨e, he, h⟩ := ih; exact ⟨e, he, by rw [hs.1.1]; exact h⟩
  | destroyBlock _ hs ih => obtain ⟨e, he, h⟩ := ih; exact ⟨e, he, by rw [hs.1.1]; exact h⟩
  | replace _ _ hs ih => obtain ⟨e, he, h⟩ := ih; exact ⟨e, he, by rw [hs.1.1]; exact h⟩
  | cse _ hs ih => obtain ⟨e, he, h⟩ := ih; exact ⟨e, he, by rw [hs.1.1]; exact h⟩
  | incAge _ hs ih => obtain ⟨e, he, h⟩ := ih; exact ⟨e, he, by rw [hs.1.1]; exact h⟩

theorem reachable_rows_le {ss : SymSet} (hc : 0 < ss.cats) {x : Ind} (h : Reachable ss x) :
    x.rows ≤ PACK := by
  obtain ⟨e, he, h⟩ := reachable_rows hc h
  rw [h]; exact he.len_le

/-- Every member of a reachable team is reachable as an individual … -/
theorem team_members_reachable {ss : SymSet} {t : Team}
    (h : TReachable ss t) : ∀ x ∈ t, Reachable ss x := by
  induction h with
  | random he hs => intro x hx; exact Reachable.random he (hs.2 x hx)
  | ofMembers hm => exact hm
  | mutation _ hs ih =>
    intro x hx
    obtain ⟨k, hk, rfl⟩ := exists_getD_of_mem teamMutation.default_ind hx
    rw [hs.1] at hk
    exact Reachable.mutation (ih _ (getD_mem_of_lt _ _ _ hk)) (hs.2 k hk)
  | crossover _ _ hlen hsz hs ihl ihr =>
    intro x hx
    obtain ⟨k, hk, rfl⟩ := exists_getD_of_mem teamMutation.default_ind hx
    rw [hs.1] at hk
    exact Reachable.crossover (ihl _ (getD_mem_of_lt _ _ _ hk))
      (ihr _ (getD_mem_of_lt _ _ _ (by rw [hlen]; exact hk))) (hsz k hk) (hs.2 k hk)
  | incAge _ hs ih =>
    intro x hx
    obtain ⟨k, hk, rfl⟩ := exists_getD_of_mem teamMutation.default_ind hx
    rw [hs.1] at hk
    exact Reachable.incAge (ih _ (getD_mem_of_lt _ _ _ hk)) (hs.2 k hk)

/-- `team(std::vector<T>)`: a team whose members are (observationally) given reachable individuals
    – of whatever sizes – is a reachable team. -/
theorem team_of_members {ss : SymSet} (hc : 0 < ss.cats) {pre post : Team}
    (hp : ∀ x ∈ pre, Reachable ss x) (hs : TeamOfMembersStep pre post) :
    TReachable ss post := by
  refine TReachable.ofMembers ?_
  intro x hx
  obtain ⟨k, hk, rfl⟩ := exists_getD_of_mem teamMutation.default_ind hx
  rw [hs.1] at hk
  have hr := hp _ (getD_mem_of_lt pre k teamMutation.default_ind hk)
  have hw := wf_closed hc hr
  obtain ⟨h1, h2, h3, h4, h5⟩ := hs.2 k hk
  exact Reachable.getBlock hr hw.best ⟨h1, h2, h3, h4, h5⟩

/-- … hence every reachable team is well-formed. -/
theorem wf_closed_team {ss : SymSet} (hc : 0 < ss.cats) {t : Team}
    (h : TReachable ss t) : TeamWF ss t :=
  fun x hx => wf_closed hc (team_members_reachable h x hx)

/-! ## closure over histories of the operator *functions* (explicit draws) -/

/-- Every history of operator functions is a history of step relations. -/
theorem reachableF_reachable {ss : SymSet} (hv : ss.Valid)
    {x : Ind} (h : ReachableF ss x) : Reachable ss x := by
  induction h with
  | random he hx hd => exact Reachable.random he (randomInd_refines hv he.len_le hx hd)
  | mutation _ hd ih =>
    exact Reachable.mutation ih
      (mutation_refines hv _ _ (wf_closed hv.cats_pos ih) (reachable_rows_le hv.cats_pos ih) hd)
  | crossover _ _ hrows hd ihx ihy =>
    exact Reachable.crossover ihx ihy hrows (crossover_refines _ hd)
  | getBlock _ hl ih =>
    exact Reachable.getBlock ih hl (wf_get_block (wf_closed hv.cats_pos ih) hl).2
  | destroyBlock _ hd ih =>
    exact Reachable.destroyBlock ih (destroyBlock_refines hd)
  | replace _ hg ih =>
    exact Reachable.replace ih hg (wf_replace (wf_closed hv.cats_pos ih) hg).2
  | cse _ ih =>
    exact Reachable.cse ih (cse_refines (wf_closed hv.cats_pos ih) (reachable_rows_le hv.cats_pos ih))
  | incAge _ ih =>
    exact Reachable.incAge ih ⟨SameShape.refl _, rfl, rfl, rfl, fun _ _ _ _ => rfl⟩

/-- **Closure theorem.**  Whatever the symbol set (valid), the history of operations, the
    environment of each of them (valid – code length ≤ 2^16, the range of `gene::packed_index_t`,
    patch length below it – where an individual is created; arbitrary where one is mutated) and the
    values drawn, the individual obtained is well-formed. -/
theorem wf_closed_functions {ss : SymSet} (hv : ss.Valid)
    {x : Ind} (h : ReachableF ss x) : WF ss x :=
  wf_closed hv.cats_pos (reachableF_reachable hv h)

/-! ## teams: operator functions -/

theorem teamRandom_refines {ss : SymSet} (hv : ss.Valid) {env : MepEnv} {xo : Nat → Nat}
    {d : Nat → Nat → Nat → GDraw} (hp : env.codeLength ≤ PACK)
    (hd : ∀ k, k < env.teamSize → xo k < 4 ∧
      ∀ i, i < env.codeLength → ∀ c, c < ss.cats →
        DrawOK ss env.codeLength env.patchLength i c (d k i c)) :
    TeamRandomStep ss env (teamRandom ss env xo d) := by
  refine ⟨by simp [teamRandom], ?_⟩
  intro x hx
  simp only [teamRandom, List.mem_map, List.mem_range] at hx
  obtain ⟨k, hk, rfl⟩ := hx
  exact randomInd_refines hv hp (hd k hk).1 (hd k hk).2

theorem teamMutation_refines {ss : SymSet} (hv : ss.Valid) {env : MepEnv}
    (eqv : Gene → Gene → Bool)
    (bern : Nat → Nat → Nat → Bool) {d : Nat → Nat → Nat → GDraw} {t : Team}
    (hw : TeamWF ss t) (hp : ∀ x ∈ t, x.rows ≤ PACK)
    (hd : ∀ k, k < t.length → ∀ i, i < (t.getD k teamMutation.default_ind).rows →
      ∀ c, c < (t.getD k teamMutation.default_ind).cols →
        DrawOK ss (t.getD k teamMutation.default_ind).rows env.patchLength i c (d k i c)) :
    TeamMutStep ss env t (teamMutation ss env eqv bern d t).1 := by
  refine ⟨by simp [teamMutation], ?_⟩
  intro k hk
  have hm := getD_mem_of_lt t k teamMutation.default_ind hk
  have : (teamMutation ss env eqv bern d t).1.getD k teamMutation.default_ind
      = (mutation ss env eqv (bern k) (d k) (t.getD k teamMutation.default_ind)).1 := by
    simp only [teamMutation, List.map_map]
    rw [getD_map_range _ _ _ _ hk]
    rfl
  rw [this]
  exact mutation_refines hv eqv (bern k) (hw _ hm) (hp _ hm) (hd k hk)

theorem teamCrossover_refines {lhs rhs : Team} (d : Nat → XDraw)
    (hd : ∀ k, k < lhs.length →
      XDrawOK (if (d k).b then rhs.getD k teamMutation.default_ind
               else lhs.getD k teamMutation.default_ind) (d k)) :
    TeamCrossStep lhs rhs (teamCrossover lhs rhs d) := by
  refine ⟨by simp [teamCrossover], ?_⟩
  intro k hk
  have : (teamCrossover lhs rhs d).getD k teamMutation.default_ind
      = crossover (lhs.getD k teamMutation.default_ind) (rhs.getD k teamMutation.default_ind) (d k) := by
    simp only [teamCrossover]
    rw [getD_map_range _ _ _ _ hk]
  rw [this]
  exact crossover_refines (d k) (hd k hk)

theorem teamIncAge_refines (t : Team) : TeamIncAgeStep t (teamIncAge t) := by
  refine ⟨by simp [teamIncAge], ?_⟩
  intro k hk
  have : (teamIncAge t).getD k teamMutation.default_ind
      = incAge (t.getD k teamMutation.default_ind) := by
    simp only [teamIncAge]
    rw [getD_map_range _ _ _ _ hk]
  rw [this]
  exact ⟨SameShape.refl _, rfl, rfl, rfl, fun _ _ _ _ => rfl⟩

theorem treachableF_treachable {ss : SymSet} (hv : ss.Valid)
    {t : Team} (h : TReachableF ss t) : TReachable ss t := by
  induction h with
  | random he hd => exact TReachable.random he (teamRandom_refines hv he.len_le hd)
  | ofMembers hm => exact TReachable.ofMembers (fun x hx => reachableF_reachable hv (hm x hx))
  | mutation _ hd ih =>
    have hm := team_members_reachable ih
    refine TReachable.mutation ih (teamMutation_refines hv _ _ (wf_closed_team hv.cats_pos ih) ?_ hd)
    intro x hx
    exact reachable_rows_le hv.cats_pos (hm x hx)
  | crossover _ _ hlen hsz hd ihl ihr =>
    exact TReachable.crossover ihl ihr hlen hsz (teamCrossover_refines _ hd)
  | incAge _ ih => exact TReachable.incAge ih (teamIncAge_refines _)

/-- **Closure theorem for teams** (each step with an environment of its own, teams of different
    sizes and with members of different sizes coexist). -/
theorem wf_closed_team_functions {ss : SymSet} (hv : ss.Valid)
    {t : Team} (h : TReachableF ss t) : TeamWF ss t :=
  wf_closed_team hv.cats_pos (treachableF_treachable hv h)

/-- Team mutation with probability zero is the identity on every member and reports 0. -/
theorem team_mutation_zero_id (ss : SymSet) (env : MepEnv) (eqv : Gene → Gene → Bool)
    (d : Nat → Nat → Nat → GDraw) (t : Team) :
    (teamMutation ss env eqv (fun _ _ _ => false) d t).2 = 0 ∧
    ∀ k, k < t.length →
      (teamMutation ss env eqv (fun _ _ _ => false) d t).1.getD k teamMutation.default_ind
        = t.getD k teamMutation.default_ind := by
  constructor
  · simp only [teamMutation, List.map_map]
    apply sum_eq_zero_of_all
    intro n hn
    simp only [List.mem_map, List.mem_range, Function.comp] at hn
    obtain ⟨k, _, rfl⟩ := hn
    rw [mutation_zero_id]
  · intro k hk
    simp only [teamMutation, List.map_map]
    rw [getD_map_range _ _ _ _ hk]
    simp only [Function.comp]
    rw [mutation_zero_id]

/-! ## non-vacuity: concrete values meeting the hypotheses above -/

/-! ## The bounds extracted from the C++ sources (Gen.lean) denote the model's operators -/

/-- In every generated write the loop variables are the coordinates of the written cell (so
    "the loop covers row `i`" and "cell `(i, c)` is written" coincide). -/
theorem gen_tables_wellformed :
    ∀ w ∈ Gen.ctor ++ Gen.xoverOnePoint.writes ++ Gen.xoverTwoPoints.writes ++
        Gen.xoverUniform.writes ++ Gen.destroy, w.ok = true := by
  decide

/-- `i_mep(problem)`: the genome is built with `env.mep.code_length` rows and `sset.categories()`
    columns (`Gen.ctorDims`, read off the member initialiser); the two loops of the constructor –
    whose bounds are `size()` / `categories()` of the genome just built – leave at every cell the
    gene the model's `randomInd` has there; `best_` is `{0, 0}`; the flavour is drawn below the number
    of enumerators of `crossover_t`. -/
theorem gen_ctor_denotes (ss : SymSet) (env : MepEnv) (xo : Nat) (d : Nat → Nat → GDraw) (frm : Ind)
    (base : Nat → Nat → Gene) (hpl : env.patchLength ≤ env.codeLength) (i c : Nat)
    (hi : i < env.codeLength) (hc : c < ss.cats) :
    denote ss (ctorEnv env ss.cats) frm d (fun _ _ => true) Gen.ctor base i c
      = (randomInd ss env xo d).gene i c ∧
    (evalZ (ctorEnv env ss.cats i c) Gen.ctorDims.1 = (randomInd ss env xo d).rows ∧
     evalZ (ctorEnv env ss.cats i c) Gen.ctorDims.2 = (randomInd ss env xo d).cols) ∧
    (evalZ (ctorEnv env ss.cats i c) Gen.ctorBest.1 = (randomInd ss env xo d).best.idx ∧
     evalZ (ctorEnv env ss.cats i c) Gen.ctorBest.2 = (randomInd ss env xo d).best.cat) ∧
    Gen.flavours.length = 4 := by
  refine ⟨?_, ⟨by simp [Gen.ctorDims, ctorEnv, Vars.env, evalZ, randomInd],
      by simp [Gen.ctorDims, ctorEnv, Vars.env, evalZ, randomInd]⟩,
    ⟨by simp [Gen.ctorBest, evalZ, randomInd], by simp [Gen.ctorBest, evalZ, randomInd]⟩, by decide⟩
  simp only [denote, Gen.ctor, List.foldl, Write.covers, orange, Range.has, evalZ, binZ, ctorEnv,
    Gen.ctorDims, Vars.env, Src.gene, randomInd, drawGene]
  by_cases h : i < env.codeLength - env.patchLength
  · have h2 : ¬ ((env.codeLength : Int) - env.patchLength ≤ i) := by omega
    simp [h, h2, hc]
  · have h2 : ((env.codeLength : Int) - env.patchLength ≤ i) := by omega
    simp [h, h2, hc, hi]

/-- The constructor's sections: a row is written by the first loop iff it lies before
    `code_length - patch_length` (standard section), by the second iff it is one of the last
    `patch_length` rows (patch section); every row is written by exactly one of them. -/
theorem gen_ctor_sections (env : MepEnv) (cats : Nat) (hpl : env.patchLength ≤ env.codeLength)
    (i c : Nat) (hi : i < env.codeLength) (hc : c < cats) :
    ∃ w1 w2, Gen.ctor = [w1, w2] ∧
      (w1.covers (ctorEnv env cats i c) i c ↔ i < env.codeLength - env.patchLength) ∧
      (w2.covers (ctorEnv env cats i c) i c ↔ env.codeLength - env.patchLength ≤ i) := by
  refine ⟨_, _, rfl, ?_, ?_⟩ <;>
    simp [Write.covers, orange, Range.has, evalZ, binZ, ctorEnv, Gen.ctorDims, Vars.env] <;> omega

/-- The draws the constructor's sources consume at a covered cell are exactly the model's
    `DrawOK`: a standard-section gene draws its arguments in `[i + 1, code_length)`. -/
theorem gen_ctor_draws (ss : SymSet) (env : MepEnv) (hpl : env.patchLength ≤ env.codeLength)
    (i c : Nat) (hi : i < env.codeLength) (hc : c < ss.cats) (d : GDraw) :
    (∀ w ∈ Gen.ctor, w.covers (ctorEnv env ss.cats i c) i c →
        w.src.drawOK ss (ctorEnv env ss.cats i c) d) ↔
      DrawOK ss env.codeLength env.patchLength i c d := by
  simp only [Gen.ctor, List.mem_cons, List.mem_nil_iff, or_false, forall_eq_or_imp, forall_eq,
    Write.covers, orange, Range.has, evalZ, binZ, ctorEnv, Gen.ctorDims, Vars.env, Src.drawOK, DrawOK]
  by_cases h : i < env.codeLength - env.patchLength
  · have h2 : ¬ ((env.codeLength : Int) - env.patchLength ≤ i) := by omega
    have h1 : (i : Int) < (env.codeLength : Int) - env.patchLength := by omega
    have h3 : ((i : Int) + 1).toNat = i + 1 := by omega
    simp [h, h1, h2, hc, h3]
  · have h2 : ((env.codeLength : Int) - env.patchLength ≤ i) := by omega
    have h1 : ¬ ((i : Int) < (env.codeLength : Int) - env.patchLength) := by omega
    simp [h, h1, h2, hc, hi]

/-- Argument range: whatever `[from, sup)` the generated sources hand to `gene(symbol, from, sup)`
    – in the constructor (a genome of `env.codeLength` rows) and in `mutation` (an individual of
    `rows` rows mutated under ANY environment `env`: its code length is a free variable here) – an
    index drawn in it designates a strictly later row INSIDE THE INDIVIDUAL.  (A bound taken from
    `env.mep.code_length` instead of `size()` in `mutation` makes this false: seeded C02-m4.) -/
theorem gen_arg_range (rows : Nat) (env : MepEnv) (cats i c : Nat) (a : Int) :
    (∀ w ∈ Gen.ctor, w.covers (ctorEnv env cats i c) i c → ∀ lo sup,
      w.src.range (ctorEnv env cats i c) = some (lo, sup) → lo ≤ a → a < sup →
      (i : Int) < a ∧ a < env.codeLength) ∧
    (∀ lo sup, Gen.mutationCand.range (cellEnv rows env cats i c) = some (lo, sup) →
      lo ≤ a → a < sup → (i : Int) < a ∧ a < rows) := by
  constructor
  · intro w hw hcov lo sup hs h1 h2
    simp only [Gen.ctor, List.mem_cons, List.mem_nil_iff, or_false] at hw
    rcases hw with rfl | rfl
    · simp [Src.range, evalZ, binZ, ctorEnv, Gen.ctorDims, Vars.env] at hs
      omega
    · simp [Src.range] at hs
  · intro lo sup hs h1 h2
    simp only [Gen.mutationCand, Src.range, evalZ, binZ, cmpZ, b2i, cellEnv, Vars.env] at hs
    by_cases h0 : (rows : Int) > env.patchLength
    · by_cases h3 : (i : Int) < (rows : Int) - env.patchLength
      · simp [h0, h3] at hs; omega
      · simp [h0, h3] at hs
    · have h3 : ¬ (i : Int) < 0 := by omega
      simp [h0, h3] at hs

/-- `mutation`: for an individual of `rows` rows (ITS size) mutated under ANY environment `env` – no
    relation whatsoever between `rows` and `env.codeLength` / `env.patchLength` is assumed – the
    candidate gene built for the locus of the iterator (`ix < patch ? … : …` with
    `patch = size() > patch_length ? size() - patch_length : 0`) is the model's `drawGene` in the
    individual's own geometry (standard section before `rows - patch_length`, a terminal after;
    terminals only when `rows ≤ patch_length`), its draws obey the model's `DrawOK`, and the loop has the modelled
    shape: it walks `begin()..end()` (the exons), tests `random::boolean(pgm)`, replaces the gene only
    when it differs and counts the replacements. -/
theorem gen_mutation_denotes (ss : SymSet) (rows : Nat) (env : MepEnv) (i c : Nat)
    (d : GDraw) (frm : Ind) :
    Gen.mutationCand.gene ss (cellEnv rows env ss.cats i c) frm d
      = drawGene ss rows env.patchLength i c d ∧
    (Gen.mutationCand.drawOK ss (cellEnv rows env ss.cats i c) d ↔
      DrawOK ss rows env.patchLength i c d) ∧
    Gen.mutationShape = ["exons", "bernoulli(pgm)", "differs", "count", "assign"] := by
  refine ⟨?_, ?_, rfl⟩
  · simp only [Gen.mutationCand, Src.gene, evalZ, binZ, cmpZ, b2i, cellEnv, Vars.env, drawGene]
    by_cases h0 : env.patchLength < rows
    · have h1 : (rows : Int) > env.patchLength := by omega
      by_cases h : i < rows - env.patchLength
      · have h2 : (i : Int) < (rows : Int) - env.patchLength := by omega
        simp [h, h1, h2]
      · have h2 : ¬ ((i : Int) < (rows : Int) - env.patchLength) := by omega
        simp [h, h1, h2]
    · have h1 : ¬ (rows : Int) > env.patchLength := by omega
      have h2 : ¬ i < rows - env.patchLength := by omega
      have h3 : ¬ (i : Int) < 0 := by omega
      simp [h1, h2, h3]
  · simp only [Gen.mutationCand, Src.drawOK, evalZ, binZ, cmpZ, b2i, cellEnv, Vars.env, DrawOK]
    by_cases h0 : env.patchLength < rows
    · have h1 : (rows : Int) > env.patchLength := by omega
      by_cases h : i < rows - env.patchLength
      · have h2 : (i : Int) < (rows : Int) - env.patchLength := by omega
        have h3 : ((i : Int) + 1).toNat = i + 1 := by omega
        simp [h, h1, h2, h3]
      · have h2 : ¬ ((i : Int) < (rows : Int) - env.patchLength) := by omega
        simp [h, h1, h2]
    · have h1 : ¬ (rows : Int) > env.patchLength := by omega
      have h2 : ¬ i < rows - env.patchLength := by omega
      have h3 : ¬ (i : Int) < 0 := by omega
      simp [h1, h2, h3]

/-- `crossover(lhs, rhs)`: `from` is `rhs` when the coin `b` holds and `lhs` otherwise, `to` is a
    copy of the other one (as in the model's `crossover`); the switch has one case per
    enumerator; the offspring takes `from`'s flavour and the older age and is `to`. -/
theorem gen_xover_frame :
    Gen.xoverParents = ["rhs", "lhs", "lhs", "rhs"] ∧
    Gen.xoverCases = [(0, "one_point"), (1, "two_points"), (3, "uniform"), (2, "tree")] ∧
    Gen.xoverMeta = ["flavour:=from.flavour", "age:=older(to.age,from.age)", "return:to"] ∧
    Gen.xoverTree = ["start:random_locus(from)", "copy:to[l]:=from[l]", "recurse:from[l].arguments()"] :=
  ⟨rfl, rfl, rfl, rfl⟩

/-- One point: the single draw is `between(1, n - 1)` when `n > 2` and the constant 1 otherwise.
    Its value is the model's `onePointCut`, its contract is the first clause of `XDrawOK`, the
    primitive is callable (non-empty range – defect 2755e29 was its violation at `n = 2`), and the
    cut lies in `[1, n)`, in `[1, n - 1)` when `n > 2`. -/
theorem gen_one_point_cut (rows cats : Nat) (hr : 2 ≤ rows) (cut : Nat) (i c : Nat) :
    ∃ dr, Gen.xoverOnePoint.draws = [dr] ∧
      dr.value (xEnv rows cats 0 0 i c) cut = onePointCut rows cut ∧
      (dr.ok (xEnv rows cats 0 0 i c) cut ↔ (2 < rows → 1 ≤ cut ∧ cut < rows - 1)) ∧
      dr.callable (xEnv rows cats 0 0 i c) ∧
      (dr.ok (xEnv rows cats 0 0 i c) cut →
        1 ≤ onePointCut rows cut ∧ onePointCut rows cut < rows ∧
        (2 < rows → onePointCut rows cut < rows - 1)) := by
  refine ⟨_, rfl, ?_, ?_, ?_, ?_⟩
  · simp only [Draw.value, evalZ, cmpZ, b2i, xEnv, Vars.env, onePointCut]
    by_cases h : 2 < rows
    · have : (rows : Int) > 2 := by omega
      simp [h, this]
    · have : ¬ (rows : Int) > 2 := by omega
      simp [h, this]
  · simp only [Draw.ok, evalZ, binZ, cmpZ, b2i, xEnv, Vars.env]
    by_cases h : 2 < rows
    · have : (rows : Int) > 2 := by omega
      simp [this, h]; omega
    · have : ¬ (rows : Int) > 2 := by omega
      simp [this, h]
  · simp only [Draw.callable, evalZ, binZ, cmpZ, b2i, xEnv, Vars.env]
    by_cases h : 2 < rows
    · have : (rows : Int) > 2 := by omega
      simp [this]; omega
    · have : ¬ (rows : Int) > 2 := by omega
      simp [this]
  · simp only [Draw.ok, evalZ, binZ, cmpZ, b2i, xEnv, Vars.env, onePointCut]
    by_cases h : 2 < rows
    · have : (rows : Int) > 2 := by omega
      simp [this, h]; omega
    · have : ¬ (rows : Int) > 2 := by omega
      simp [this, h]; omega

/-- One point: with the cut in variable 5 the generated loop copies `from` onto `to` from the cut
    to the end: the offspring's gene at every cell is the model's `xoverGene`. -/
theorem gen_one_point_denotes (ss : SymSet) (frm to : Ind) (d : XDraw) (hx : frm.xover = 0)
    (dg : Nat → Nat → GDraw) (i c : Nat) (hi : i < frm.rows) (hc : c < frm.cols) :
    denote ss (xEnv frm.rows frm.cols (onePointCut frm.rows d.cut) 0) frm dg (fun _ _ => true)
      Gen.xoverOnePoint.writes to.gene i c = xoverGene frm to d i c := by
  simp only [denote, Gen.xoverOnePoint, List.foldl, Write.covers, orange, Range.has, evalZ, xEnv,
    Vars.env, Src.gene, xoverGene, hx]
  by_cases h : onePointCut frm.rows d.cut ≤ i
  · have h1 : ((onePointCut frm.rows d.cut : Nat) : Int) ≤ i := by omega
    simp [h, h1, hi, hc]
  · have h1 : ¬ ((onePointCut frm.rows d.cut : Nat) : Int) ≤ i := by omega
    simp [h, h1]

/-- Two points: `cut1 = sup(n - 1)`, `cut2 = between(cut1 + 1, n)`; the contracts are the
    clauses of `XDrawOK`, both primitives are callable for `n ≥ 2`, and the `!=` loop from `cut1`
    to `cut2` is sane (`cut1 < cut2`: it terminates and covers `[cut1, cut2)`). -/
theorem gen_two_points_cuts (rows cats : Nat) (hr : 2 ≤ rows) (cut1 cut2 : Nat) (i c : Nat) :
    ∃ d1 d2 w, Gen.xoverTwoPoints.draws = [d1, d2] ∧ Gen.xoverTwoPoints.writes = [w] ∧
      (d1.ok (xEnv rows cats 0 0 i c) cut1 ↔ cut1 < rows - 1) ∧
      d1.callable (xEnv rows cats 0 0 i c) ∧
      d1.value (xEnv rows cats 0 0 i c) cut1 = cut1 ∧
      (d2.ok (xEnv rows cats cut1 0 i c) cut2 ↔ cut1 + 1 ≤ cut2 ∧ cut2 < rows) ∧
      (cut1 < rows - 1 → d2.callable (xEnv rows cats cut1 0 i c)) ∧
      d2.value (xEnv rows cats cut1 0 i c) cut2 = cut2 ∧
      (d2.ok (xEnv rows cats cut1 0 i c) cut2 →
        ∃ r, w.rows = some r ∧ r.sane (xEnv rows cats cut1 cut2 i c)) := by
  refine ⟨_, _, _, rfl, rfl, ?_, ?_, ?_, ?_, ?_, ?_, ?_⟩
  · simp [Draw.ok, evalZ, binZ, xEnv, Vars.env]; omega
  · simp [Draw.callable, evalZ, binZ, xEnv, Vars.env]; omega
  · simp [Draw.value]
  · simp [Draw.ok, evalZ, binZ, xEnv, Vars.env]; omega
  · simp [Draw.callable, evalZ, binZ, xEnv, Vars.env]; omega
  · simp [Draw.value]
  · intro h
    refine ⟨_, rfl, ?_⟩
    simp [Draw.ok, evalZ, binZ, xEnv, Vars.env] at h
    simp [Range.sane, evalZ, xEnv, Vars.env]; omega

/-- Two points: the generated loop copies rows `[cut1, cut2)` of `from`: the model's `xoverGene`. -/
theorem gen_two_points_denotes (ss : SymSet) (frm to : Ind) (d : XDraw) (hx : frm.xover = 1)
    (dg : Nat → Nat → GDraw) (i c : Nat) (hc : c < frm.cols) :
    denote ss (xEnv frm.rows frm.cols d.cut1 d.cut2) frm dg (fun _ _ => true)
      Gen.xoverTwoPoints.writes to.gene i c = xoverGene frm to d i c := by
  simp only [denote, Gen.xoverTwoPoints, List.foldl, Write.covers, orange, Range.has, evalZ, xEnv,
    Vars.env, Src.gene, xoverGene, hx]
  by_cases h : d.cut1 ≤ i ∧ i < d.cut2
  · have h1 : (d.cut1 : Int) ≤ i ∧ (i : Int) < d.cut2 := by omega
    simp [h, h1, hc]
  · have h1 : ¬ ((d.cut1 : Int) ≤ i ∧ (i : Int) < d.cut2) := by omega
    simp [h]

/-- Uniform: no integer is drawn; every cell of the genome is visited and copied from `from` when
    its coin holds: the model's `xoverGene`. -/
theorem gen_uniform_denotes (ss : SymSet) (frm to : Ind) (d : XDraw) (hx : frm.xover = 3)
    (dg : Nat → Nat → GDraw) (i c : Nat) (hi : i < frm.rows) (hc : c < frm.cols) :
    Gen.xoverUniform.draws = [] ∧
    denote ss (xEnv frm.rows frm.cols 0 0) frm dg d.mask
      Gen.xoverUniform.writes to.gene i c = xoverGene frm to d i c := by
  refine ⟨rfl, ?_⟩
  simp only [denote, Gen.xoverUniform, List.foldl, Write.covers, orange, Range.has, evalZ, xEnv,
    Vars.env, Src.gene, xoverGene, hx]
  by_cases h : d.mask i c = true
  · simp [h, hi, hc]
  · simp [h]

/-- `destroy_block(index, sset)`: one loop over the columns writes a terminal of the column's
    category into row `index`, nothing else: the model's `destroyBlock`.  `get_block(l)` assigns
    `best_` only. -/
theorem gen_destroy_denotes (ss : SymSet) (x : Ind) (env : MepEnv) (idx : Nat) (d : Nat → GDraw)
    (frm : Ind) (i c : Nat) (hc : c < x.cols) :
    denote ss (fun i c => cellEnv x.rows env x.cols i c idx) frm (fun _ c => d c) (fun _ _ => true)
      Gen.destroy x.gene i c = (destroyBlock ss x idx d).gene i c ∧
    Gen.getBlock = ["best_:=l"] := by
  refine ⟨?_, rfl⟩
  simp only [denote, Gen.destroy, List.foldl, Write.covers, orange, Range.has, evalZ, cellEnv,
    Vars.env, Src.gene, destroyBlock]
  by_cases h : i = idx
  · subst h; simp [hc]
  · have h1 : ¬ ((idx : Int) = i) := by omega
    simp [h, h1]

/-- `gene(symbol, from, sup)`: the argument pack has `arity` entries, each
    `random::between(from, sup)` narrowed to 16 bits – the model's `geneOfSym` (`% PACK`); the
    narrowing is the identity on `[from, sup)` as long as `sup ≤ 2^16`; `locus_of_argument(i)` pairs
    the i-th index with the i-th argument category (the model's `argLoci`). -/
theorem gen_gene_args (lo sup : Nat) :
    Gen.geneArgs.count = "arity" ∧ 2 ^ Gen.geneArgs.bits = PACK ∧
    evalZ (geneEnv lo sup) Gen.geneArgs.lo = lo ∧ evalZ (geneEnv lo sup) Gen.geneArgs.sup = sup ∧
    (∀ (s : Sym) (d : GDraw), s.arity ≠ 0 →
      (geneOfSym s d).args = (List.range s.arity).map (fun k => d.args k % 2 ^ Gen.geneArgs.bits)) ∧
    (∀ v, lo ≤ v → v < sup → sup ≤ PACK → v % 2 ^ Gen.geneArgs.bits = v) ∧
    Gen.argLocus = ["index:args[i]", "category:arg_category(i)"] := by
  refine ⟨rfl, by decide, by simp [Gen.geneArgs, evalZ, geneEnv, Vars.env],
    by simp [Gen.geneArgs, evalZ, geneEnv, Vars.env], ?_, ?_, rfl⟩
  · intro s d h
    simp [geneOfSym, h, Gen.geneArgs, PACK]
  · intro v _ h2 h3
    have : v < 65536 := by unfold PACK at h3; omega
    simp [Gen.geneArgs]; omega

/-- No unsigned computation in the extracted bounds wraps around: every intermediate value of every
    generated expression that is evaluated is a natural number – for the constructor under its
    precondition `patch_length ≤ code_length`; for `mutation` under NO assumption relating the
    individual's size to the environment (before fix 936f9ad `size() - patch_length` wrapped for an
    individual shorter than the patch length of the environment it was given); for crossover when
    `size ≥ 1`. -/
theorem gen_nowrap (rows : Nat) (env : MepEnv) (cats i c : Nat) (hr : 1 ≤ rows)
    (cut1 cut2 idx : Nat) :
    (env.patchLength ≤ env.codeLength → ∀ w ∈ Gen.ctor, w.nowrap (ctorEnv env cats i c)) ∧
    Gen.mutationCand.nowrap (cellEnv rows env cats i c) ∧
    (∀ dr ∈ Gen.xoverOnePoint.draws, dr.nowrap (xEnv rows cats 0 0 i c)) ∧
    (∀ dr ∈ Gen.xoverTwoPoints.draws, dr.nowrap (xEnv rows cats cut1 0 i c)) ∧
    (∀ w ∈ Gen.xoverOnePoint.writes ++ Gen.xoverTwoPoints.writes ++ Gen.xoverUniform.writes,
      w.nowrap (xEnv rows cats cut1 cut2 i c)) ∧
    (∀ w ∈ Gen.destroy, w.nowrap (cellEnv rows env cats i c idx)) := by
  refine ⟨?_, ?_, ?_, ?_, ?_, ?_⟩
  · intro hpl
    simp [Gen.ctor, Write.nowrap, Range.nowrap, Src.nowrap, GenSem.nowrap, evalZ, binZ, ctorEnv,
      Gen.ctorDims, Vars.env]
    omega
  · simp only [Gen.mutationCand, Src.nowrap, GenSem.nowrap, evalZ, binZ, cmpZ, b2i, cellEnv, Vars.env]
    by_cases h0 : (rows : Int) > env.patchLength
    · by_cases h1 : (i : Int) < (rows : Int) - env.patchLength
      · simp [h0, h1]; omega
      · simp [h0, h1]; omega
    · have h1 : ¬ (i : Int) < 0 := by omega
      simp [h0, h1]
  all_goals
    simp [Gen.xoverOnePoint, Gen.xoverTwoPoints, Gen.xoverUniform,
      Gen.destroy, Write.nowrap, Range.nowrap, Src.nowrap, Draw.nowrap, GenSem.nowrap, evalZ, binZ,
      cellEnv, xEnv, Vars.env] <;> omega

set_option linter.unusedVariables false in
/-- Every extracted loop whose test is `v != bound` starts at or below its bound (so it terminates
    and covers `[lo, bound)` like the `<` form): for the constructor because
    `patch_length ≤ code_length`, for crossover because the cuts obey their contracts.  (Hypotheses
    that the current tables do not need are kept: a `<` rewritten as `!=` must stay provable.) -/
theorem gen_loops_sane (rows : Nat) (env : MepEnv) (cats i c : Nat)
    (hpl : env.patchLength ≤ env.codeLength) (cut1 cut2 idx : Nat)
    (h1 : cut1 ≤ cut2) (h2 : cut1 ≤ rows) :
    (∀ w ∈ Gen.ctor, w.sane (ctorEnv env cats i c)) ∧
    (∀ w ∈ Gen.xoverOnePoint.writes ++ Gen.xoverTwoPoints.writes ++ Gen.xoverUniform.writes,
      w.sane (xEnv rows cats cut1 cut2 i c)) ∧
    (∀ w ∈ Gen.destroy, w.sane (cellEnv rows env cats i c idx)) := by
  refine ⟨?_, ?_, ?_⟩ <;>
    simp [Gen.ctor, Gen.xoverOnePoint, Gen.xoverTwoPoints, Gen.xoverUniform, Gen.destroy,
      Write.sane, Range.sane, evalZ, binZ, cellEnv, ctorEnv, Gen.ctorDims, xEnv, Vars.env] <;> omega

/-- `team<i_mep>`: the constructor builds members `0 … n−1` (`n = env.team.individuals`) each by
    `i_mep(problem)`; `crossover(lhs, rhs)` builds members `0 … lhs.individuals()−1`, the k-th being
    `crossover(lhs[k], rhs[k])`; `mutation` mutates every member and adds up the counts;
    `inc_age` ages every member – the index sets of `teamRandom`, `teamCrossover`, `teamMutation`. -/
theorem gen_team_loops (n k : Nat) :
    (Gen.teamCtor.range.has (teamEnv n k) k ↔ k ∈ List.range n) ∧
    Gen.teamCtor.op = "member[k]:=i_mep(problem)" ∧ Gen.teamCtor.n = "env.team.individuals" ∧
    (Gen.teamCrossover.range.has (teamEnv n k) k ↔ k ∈ List.range n) ∧
    Gen.teamCrossover.op = "member[k]:=crossover(lhs[k],rhs[k])" ∧
    Gen.teamCrossover.n = "lhs.individuals()" ∧
    Gen.teamMutation = ["forall-members", "member.mutation(pgm,prb)", "sum"] ∧
    Gen.teamIncAge = ["forall-members", "member.inc_age()"] := by
  refine ⟨?_, rfl, rfl, ?_, rfl, rfl, rfl, rfl⟩ <;>
    simp [Gen.teamCtor, Gen.teamCrossover, Range.has, evalZ, teamEnv, Vars.env]

namespace Ex

def one : Sym := ⟨0, 0, [], false, 100⟩          -- a real constant
def erc : Sym := ⟨1, 0, [], true, 200⟩           -- a parametric terminal (ephemeral constant)
def add : Sym := ⟨2, 0, [0, 0], false, 100⟩      -- real × real → real
def len : Sym := ⟨3, 0, [1], false, 50⟩          -- string → real
def str : Sym := ⟨4, 1, [], false, 100⟩          -- a string constant
def sife : Sym := ⟨5, 1, [0, 0, 1, 1], false, 100⟩  -- (real, real, string, string) → string

/-- two categories, strongly typed functions, a parametric terminal -/
def ss : SymSet := ⟨2, [one, erc, add, len, str, sife]⟩

def ofRows (rows : List (Gene × Gene)) (best : Locus) (age xo : Nat) : Ind :=
  { rows := rows.length, cols := 2,
    gene := fun i c => if c = 0 then (rows.getD i default).1 else (rows.getD i default).2,
    best := best, age := age, xover := xo }

def a : Ind := ofRows
  [(⟨add, 0, [1, 2]⟩, ⟨sife, 0, [1, 3, 2, 3]⟩),
   (⟨len, 0, [2]⟩,     ⟨str, 0, []⟩),
   (⟨add, 0, [3, 3]⟩,  ⟨sife, 0, [3, 3, 3, 3]⟩),
   (⟨erc, 77, []⟩,     ⟨str, 0, []⟩)] ⟨0, 0⟩ 0 0

def b : Ind := ofRows
  [(⟨len, 0, [3]⟩,     ⟨str, 0, []⟩),
   (⟨add, 0, [2, 3]⟩,  ⟨str, 0, []⟩),
   (⟨add, 0, [3, 3]⟩,  ⟨sife, 0, [3, 3, 3, 3]⟩),
   (⟨one, 0, []⟩,      ⟨str, 0, []⟩)] ⟨0, 0⟩ 0 3

/-- the one-point offspring (cut = 3) of `b` (to) and `a` (from, whose flavour is one_point) -/
def child : Ind := ofRows
  [(⟨len, 0, [3]⟩,     ⟨str, 0, []⟩),
   (⟨add, 0, [2, 3]⟩,  ⟨str, 0, []⟩),
   (⟨add, 0, [3, 3]⟩,  ⟨sife, 0, [3, 3, 3, 3]⟩),
   (⟨erc, 77, []⟩,     ⟨str, 0, []⟩)] ⟨0, 0⟩ 0 0

/-- `a` after cse: the duplicate `add 3 3` / `sife 3 3 3 3` genes need no redirect, but the
    argument 1 of row 0 … stays; (2,0) and nothing else equals – a redirect example follows -/
def dup : Ind := ofRows
  [(⟨add, 0, [1, 2]⟩, ⟨str, 0, []⟩),
   (⟨add, 0, [3, 3]⟩, ⟨str, 0, []⟩),
   (⟨add, 0, [3, 3]⟩, ⟨str, 0, []⟩),
   (⟨one, 0, []⟩,     ⟨str, 0, []⟩)] ⟨0, 0⟩ 0 1
def dupCse : Ind := ofRows
  [(⟨add, 0, [2, 2]⟩, ⟨str, 0, []⟩),
   (⟨add, 0, [3, 3]⟩, ⟨str, 0, []⟩),
   (⟨add, 0, [3, 3]⟩, ⟨str, 0, []⟩),
   (⟨one, 0, []⟩,     ⟨str, 0, []⟩)] ⟨0, 0⟩ 0 1

example : ss.Valid := ⟨by decide, by decide, by decide⟩
example : WF ss a := (wfb_iff _ _).1 (by decide)
example : WF ss b := (wfb_iff _ _).1 (by decide)
example : ¬ WF ss (replace a ⟨2, 0⟩ ⟨add, 0, [2, 3]⟩) := fun h => by
  have := (wfb_iff _ _).2 h
  revert this; decide
/-- the environment `a` and `b` were created under: 4 rows, patch length 1 -/
def e41 : MepEnv := ⟨4, 1, 1⟩
/-- environments that do NOT fit them: longer, shorter, with a patch length beyond their size -/
def e92 : MepEnv := ⟨9, 2, 3⟩
def e21 : MepEnv := ⟨2, 1, 1⟩
def e97 : MepEnv := ⟨9, 7, 1⟩

example : e41.Valid ∧ e92.Valid ∧ e21.Valid ∧ e97.Valid := by
  refine ⟨⟨?_, ?_, ?_⟩, ⟨?_, ?_, ?_⟩, ⟨?_, ?_, ?_⟩, ⟨?_, ?_, ?_⟩⟩ <;> decide
example : RandomStep ss e41 a := by decide
example : RandomStep ss e41 b := by decide
example : CrossStep b a child := by decide
example : OnePoint a b child ∧ ¬ TwoPoints a b child := by decide
example : TreeX a b (crossover b a ⟨false, 0, 0, 0, fun _ _ => false, 0⟩) ∨ True := Or.inr trivial
example : CseStep dup dupCse := by decide
example : dupCse.gene 0 0 ≠ dup.gene 0 0 := by decide
example : MutStep ss e41 a (replace a ⟨1, 0⟩ ⟨add, 0, [3, 2]⟩) := by decide
/-- the same mutation is a step under an environment whose code length is 9 … -/
example : MutStep ss e92 a (replace a ⟨1, 0⟩ ⟨add, 0, [3, 2]⟩) := by decide
/-- … but an argument beyond the individual's own size is not, whatever the environment says -/
example : ¬ MutStep ss e92 a (replace a ⟨1, 0⟩ ⟨add, 0, [3, 5]⟩) := by decide
/-- under a patch length ≥ the size only terminals may appear -/
example : ¬ MutStep ss e97 a (replace a ⟨1, 0⟩ ⟨add, 0, [3, 2]⟩) ∧
    MutStep ss e97 a (replace a ⟨1, 0⟩ ⟨one, 0, []⟩) := by decide
example : Compatible ss a ⟨1, 0⟩ ⟨add, 0, [3, 2]⟩ := by decide
example : DestroyStep ss a 1 (replace a ⟨1, 0⟩ ⟨one, 0, []⟩) := by decide
example : exons a = [⟨0, 0⟩, ⟨1, 0⟩, ⟨2, 0⟩, ⟨2, 1⟩, ⟨3, 0⟩, ⟨3, 0⟩, ⟨3, 0⟩, ⟨3, 0⟩, ⟨3, 1⟩, ⟨3, 1⟩] := by
  decide

/-- a non-trivial history: two random individuals, a one-point crossover, a block extraction,
    a cse step – `Reachable` is inhabited well beyond the base case -/
theorem e41_valid : e41.Valid := ⟨by decide, by decide, by decide⟩

example : Reachable ss (getBlock child ⟨1, 0⟩) :=
  have ha : Reachable ss a := Reachable.random e41_valid (by decide)
  have hb : Reachable ss b := Reachable.random e41_valid (by decide)
  have hc : Reachable ss child := Reachable.crossover hb ha rfl (by decide)
  Reachable.getBlock (l := ⟨1, 0⟩) hc (by decide) (by decide)

/-- a history across environments: `a` is created under (4, 1), then mutated under (9, 2) – an
    environment whose code length is longer than `a` – and under (9, 7), whose patch length exceeds
    its size -/
example : Reachable ss (replace (replace a ⟨1, 0⟩ ⟨add, 0, [3, 2]⟩) ⟨1, 0⟩ ⟨one, 0, []⟩) :=
  have ha : Reachable ss a := Reachable.random e41_valid (by decide)
  have h1 : Reachable ss (replace a ⟨1, 0⟩ ⟨add, 0, [3, 2]⟩) :=
    Reachable.mutation (env := e92) ha (by decide)
  Reachable.mutation (env := e97) h1 (by decide)

example : Reachable ss dupCse :=
  Reachable.cse (Reachable.random (post := dup) e41_valid (by decide)) (by decide)

/-- admissible draws exist for every length and patch length: always pick the first terminal
    / let every argument point to the last row -/
def d0 (rows : Nat) : Nat → Nat → GDraw := fun _ _ => ⟨false, 0, 0, 0, fun _ => rows - 1⟩

theorem d0_ok (rows pl : Nat) (hpl : 0 < pl) (i : Nat) (hi : i < rows) (c : Nat) (hc : c < ss.cats) :
    DrawOK ss rows pl i c (d0 rows i c) := by
  have hc' : c = 0 ∨ c = 1 := by
    have : ss.cats = 2 := rfl
    omega
  have h0 : 0 < wsum (ss.terminals 0) := by decide
  have h1 : 0 < wsum (ss.terminals 1) := by decide
  have ht : TDrawOK ss c (d0 rows i c) := by
    rcases hc' with rfl | rfl
    · simpa [TDrawOK, d0] using h0
    · simpa [TDrawOK, d0] using h1
  unfold DrawOK
  split
  · refine ⟨fun h => by simp [SymSet.useF, d0] at h, fun _ => ht, fun k => ?_⟩
    simp only [d0]; omega
  · exact ht

example : ReachableF ss (cse (randomInd ss e41 2 (d0 4))) :=
  ReachableF.cse (ReachableF.random e41_valid (by decide) (fun i hi c hc => d0_ok 4 1 (by decide) i hi c hc))

example : WF ss (cse (randomInd ss e41 2 (d0 4))) :=
  wf_closed_functions ⟨by decide, by decide, by decide⟩
    (ReachableF.cse (ReachableF.random e41_valid (by decide)
      (fun i hi c hc => d0_ok 4 1 (by decide) i hi c hc)))

/-- the operator functions across environments: created under (4, 1), mutated under (9, 7) – the
    draws `d0 4` are admissible for the individual's own 4 rows -/
example : ReachableF ss (mutation ss e97 (fun _ _ => false) (fun _ _ => true) (d0 4)
    (randomInd ss e41 2 (d0 4))).1 :=
  ReachableF.mutation (ReachableF.random e41_valid (by decide)
      (fun i hi c hc => d0_ok 4 1 (by decide) i hi c hc))
    (fun i hi c hc => d0_ok 4 7 (by decide) i hi c hc)

/-- the hypothesis `rows ≤ 2^16` is needed: beyond it the stored argument is truncated -/
example : ¬ GeneWF ss 70000 2 66000 0 (geneOfSym add ⟨false, 0, 0, 0, fun _ => 69000⟩) := by decide

/-- the one-point cut: with two rows the only cut is 1 (the draw range [1, 1) is empty) -/
example : onePointCut 2 12345 = 1 ∧ ¬ (∃ cut, 1 ≤ cut ∧ cut < 2 - 1) := by
  refine ⟨rfl, ?_⟩
  rintro ⟨c, h1, h2⟩; omega

/-- the wedge loop on the terminals of category 0 (weights 100, 200): every slot below the sum
    stays inside the container; the sum itself would run past the end -/
example : wedgeIdx (ss.terminals 0) 0 99 = some 0 ∧ wedgeIdx (ss.terminals 0) 0 100 = some 1 ∧
    wedgeIdx (ss.terminals 0) 0 299 = some 1 ∧ wedgeIdx (ss.terminals 0) 0 300 = none := by decide

/-- the same with the EXTRACTED loop -/
example : Gen.wedge.run ((ss.terminals 0).map (·.weight)) 99 = some 0 ∧
    Gen.wedge.run ((ss.terminals 0).map (·.weight)) 100 = some 1 ∧
    Gen.wedge.run ((ss.terminals 0).map (·.weight)) 300 = none ∧
    Gen.wedge.pick (ss.terminals 0) 100 = some erc := by decide

example := roulette_in_container (ss.terminals 0) 100 (by decide)
example := wedge_zero_sum [⟨7, 0, [], false, 0⟩, ⟨8, 0, [], false, 0⟩] 0 (by decide)
example := mutation_env_irrelevant ss e92 ⟨4, 2, 1⟩ rfl (fun _ _ => false) (fun _ _ => true) (d0 4) a

/-- `roulette_in_cat`'s hypotheses are satisfiable: `d0` is admissible at category 0 -/
example : TDrawOK ss 0 (d0 4 0 0) ∧ GDrawOK ss 0 1 4 (d0 4 0 0) := by
  have h := d0_ok 4 1 (by decide) 0 (by decide) 0 (by decide)
  have h2 := d0_ok 4 4 (by decide) 0 (by decide) 0 (by decide)
  simp only [DrawOK] at h h2
  exact ⟨by simpa using h2, by simpa using h⟩

/-- the extracted walk of `random_locus` on `a`: the active loci, each once, in `operator<` order -/
example : Gen.randomLocus.run Gen.locusLess a =
    [⟨0, 0⟩, ⟨1, 0⟩, ⟨2, 0⟩, ⟨2, 1⟩, ⟨3, 0⟩, ⟨3, 0⟩, ⟨3, 0⟩, ⟨3, 0⟩, ⟨3, 1⟩, ⟨3, 1⟩] := by decide
example := gen_random_locus_denotes (ss := ss) (x := a) ((wfb_iff _ _).1 (by decide))

/-- the extracted iterator on `a`: each active locus once -/
example : Gen.exonIter.run Gen.locusLess a = [⟨0, 0⟩, ⟨1, 0⟩, ⟨2, 0⟩, ⟨2, 1⟩, ⟨3, 0⟩, ⟨3, 1⟩] := by decide
example := gen_exon_iter_denotes (ss := ss) (x := a) ((wfb_iff _ _).1 (by decide))

/-! the `gen_*` theorems at concrete values (their hypotheses are satisfiable) -/
example := gen_ctor_denotes ss e41 2 (d0 4) a (fun _ _ => default) (by decide) 1 0 (by decide) (by decide)
example := gen_ctor_sections e41 2 (by decide) 3 1 (by decide) (by decide)
example := gen_ctor_draws ss e41 (by decide) 1 0 (by decide) (by decide) (d0 4 1 0)
example := gen_mutation_denotes ss 4 e92 1 0 (d0 4 1 0) a
/-- the range hypotheses of `gen_arg_range` are met: row 1 of a 4-row individual mutated under an
    environment of code length 9 draws its arguments in `[2, 4)`, not `[2, 9)` -/
example : Gen.mutationCand.range (cellEnv 4 e92 2 1 0) = some (2, 4) := by decide
example : ∃ w ∈ Gen.ctor, w.src.range (ctorEnv e41 2 1 0) = some (2, 4) := by decide
example := gen_one_point_cut 4 2 (by decide) 2 0 0
example := gen_one_point_denotes ss a b ⟨false, 2, 0, 0, fun _ _ => false, 0⟩ (by decide) (d0 4) 2 0 (by decide) (by decide)
example := gen_two_points_cuts 4 2 (by decide) 1 3 0 0
example := gen_uniform_denotes ss { a with xover := 3 } b ⟨false, 0, 0, 0, fun i _ => i == 1, 0⟩ rfl (d0 4) 1 0
  (by decide) (by decide)
example := gen_nowrap 4 e97 2 0 0 (by decide) 1 3 2
example := gen_loops_sane 4 e41 2 0 0 (by decide) 1 3 2 (by decide) (by decide)

end Ex

end Vita.C02
