/-
  C02 — the row scan `reach` computes exactly the loci reached by following arguments.
-/
import Vita.C02.CseLemmas
namespace Vita.C02

/-- `l` is reached from `l0` by following argument loci (what any traversal of the active code –
    the std::set based iterator, `random_locus`, the recursive tree crossover – visits) -/
inductive Reaches (x : Ind) (l0 : Locus) : Locus → Prop
  | refl : Reaches x l0 l0
  | step {m a : Locus} : Reaches x l0 m → a ∈ (x.gene m.idx m.cat).argLoci → Reaches x l0 a

/-- invariant of the row scan after the rows `< k` (and the columns `< c` of row `k`) -/
structure ReachInv (x : Ind) (l0 : Locus) (k c : Nat) (act : List Locus) : Prop where
  start : l0 ∈ act
  sound : ∀ l ∈ act, Reaches x l0 l
  closed : ∀ m ∈ act, (m.idx < k ∨ (m.idx = k ∧ m.cat < c)) → ∀ a ∈ (x.gene m.idx m.cat).argLoci, a ∈ act

theorem reachRow_inv {ss : SymSet} {x : Ind} (h : WF ss x) {l0 : Locus} {i : Nat} (hi : i < x.rows)
    {act : List Locus} (hin : ∀ l ∈ act, Inside x l)
    (hv : ReachInv x l0 i 0 act) : ReachInv x l0 (i + 1) 0 (reachRow x i act) ∧
      ∀ l ∈ reachRow x i act, Inside x l := by
  unfold reachRow
  have := foldl_range_inv
    (P := fun c act => ReachInv x l0 i c act ∧ ∀ l ∈ act, Inside x l)
    (f := fun act c => if Locus.mk i c ∈ act then act ++ (x.gene i c).argLoci else act)
    x.cols act ⟨hv, hin⟩
    (by
      intro c hc act ⟨hv, hin⟩
      by_cases hm : Locus.mk i c ∈ act
      · simp only [hm, if_true]
        refine ⟨⟨by simp [hv.start], ?_, ?_⟩, ?_⟩
        · intro l hl
          simp only [List.mem_append] at hl
          rcases hl with hl | hl
          · exact hv.sound l hl
          · exact Reaches.step (hv.sound _ hm) hl
        · intro m hmem hlt a ha
          simp only [List.mem_append] at hmem ⊢
          rcases hmem with hmem | hmem
          · by_cases hmc : m.idx = i ∧ m.cat = c
            · have : m = ⟨i, c⟩ := by cases m; simp_all
              subst this
              exact Or.inr ha
            · exact Or.inl (hv.closed m hmem (by omega) a ha)
          · -- freshly added loci live in later rows: the premise is false
            have := argLoci_inside (h.genes i hi c hc) hmem
            omega
        · intro l hl
          simp only [List.mem_append] at hl
          rcases hl with hl | hl
          · exact hin l hl
          · have := argLoci_inside (h.genes i hi c hc) hl
            exact ⟨this.2.1, this.2.2⟩
      · simp only [hm, if_false]
        refine ⟨⟨hv.start, hv.sound, ?_⟩, hin⟩
        intro m hmem hlt a ha
        have hne : ¬ (m.idx = i ∧ m.cat = c) := by
          intro hh
          apply hm
          have : m = ⟨i, c⟩ := by cases m; simp_all
          rw [← this]; exact hmem
        exact hv.closed m hmem (by omega) a ha)
  refine ⟨⟨this.1.start, this.1.sound, ?_⟩, this.2⟩
  intro m hmem hlt a ha
  have hmi := this.2 m hmem
  exact this.1.closed m hmem (by have := hmi.2; omega) a ha

theorem reach_inv {ss : SymSet} {x : Ind} (h : WF ss x) {l0 : Locus} (h0 : Inside x l0) :
    ReachInv x l0 x.rows 0 (reach x l0) ∧ ∀ l ∈ reach x l0, Inside x l := by
  unfold reach
  exact foldl_range_inv
    (P := fun k act => ReachInv x l0 k 0 act ∧ ∀ l ∈ act, Inside x l)
    (f := fun act i => reachRow x i act) x.rows [l0]
    ⟨⟨by simp, fun l hl => by simp at hl; subst hl; exact Reaches.refl,
      fun m hm hlt => by omega⟩, fun l hl => by simp at hl; subst hl; exact h0⟩
    (fun k hk act ⟨hv, hin⟩ => reachRow_inv h hk hin hv)

theorem reach_iff_reaches {ss : SymSet} {x : Ind} (h : WF ss x) {l0 : Locus} (h0 : Inside x l0)
    (l : Locus) : l ∈ reach x l0 ↔ Reaches x l0 l := by
  obtain ⟨hv, hin⟩ := reach_inv h h0
  constructor
  · exact hv.sound l
  · intro hr
    induction hr with
    | refl => exact hv.start
    | step _ ha ih => exact hv.closed _ ih (Or.inl (hin _ ih).1) _ ha

end Vita.C02
