/-
  C02 — the wedge loop of `sum_container::roulette` as extracted from the AST (Gen.wedge, meaning in
  GenSem.WedgeLoop) computes the model's `wedgeIdx` / `rouletteOf`; `symbol_set::roulette(c)` as
  extracted (Gen.rouletteSel) is the model's `SymSet.roulette`.
-/
import Vita.C02.Gen
import Vita.C02.Lemmas
namespace Vita.C02
open Vita.IntE GenSem

/-- one evaluation of the test of the generated loop (the only place where the generated table is
    unfolded): continue while `acc ≤ slot`, then FIRST advance the index and THEN add the weight found
    at the new index (reading past the end has no value); otherwise return the index -/
theorem wedge_iter_succ (ws : List Nat) (slot f : Nat) (s : WState) :
    Gen.wedge.iter ws slot (f + 1) s =
      if s.acc ≤ slot then
        (ws[s.idx + 1]?).bind (fun w => Gen.wedge.iter ws slot f ⟨s.idx + 1, s.acc + w⟩)
      else some s.idx := by
  simp only [WedgeLoop.iter, Gen.wedge, WE.eval, wstep, WState.set, cmpZ, Option.bind_some,
    Option.map_some]
  by_cases h : s.acc ≤ slot
  · have h' : (s.acc : Int) ≤ slot := by omega
    simp only [h, h', decide_true, if_true]
    cases ws[s.idx + 1]? with
    | none => rfl
    | some w => rfl
  · have h' : ¬ (s.acc : Int) ≤ slot := by omega
    simp [h, h']

theorem wedge_iter_eq (slot : Nat) : ∀ (suf pre : List Sym) (s : Sym) (acc fuel : Nat),
    suf.length + 1 ≤ fuel →
    Gen.wedge.iter ((pre ++ s :: suf).map (·.weight)) slot fuel ⟨pre.length, acc + s.weight⟩
      = (wedgeIdx (s :: suf) acc slot).map (· + pre.length) := by
  intro suf
  induction suf with
  | nil =>
    intro pre s acc fuel hf
    obtain ⟨f, rfl⟩ : ∃ f, fuel = f + 1 := ⟨fuel - 1, by simp at hf; omega⟩
    rw [wedge_iter_succ]
    by_cases h : acc + s.weight ≤ slot
    · simp [wedgeIdx, h]
    · simp [wedgeIdx, h]
  | cons t suf ih =>
    intro pre s acc fuel hf
    obtain ⟨f, rfl⟩ : ∃ f, fuel = f + 1 := ⟨fuel - 1, by simp at hf; omega⟩
    rw [wedge_iter_succ]
    by_cases h : acc + s.weight ≤ slot
    · have hget : ((pre ++ s :: t :: suf).map (·.weight))[pre.length + 1]? = some t.weight := by
        simp
      have hi := ih (pre ++ [s]) t (acc + s.weight) f (by simp at hf ⊢; omega)
      simp only [List.append_assoc, List.cons_append, List.nil_append,
        List.length_append, List.length_singleton] at hi
      simp only [h, if_true, hget, Option.bind_some]
      rw [hi]
      conv => rhs; rw [wedgeIdx]
      simp only [h, if_true, Option.map_map]
      congr 1
      funext k
      simp only [Function.comp]
      omega
    · conv => rhs; rw [wedgeIdx]
      simp [h]

/-- the generated loop on a container = the model's `wedgeIdx` -/
theorem wedge_run_eq (l : List Sym) (slot : Nat) :
    Gen.wedge.run (l.map (·.weight)) slot = wedgeIdx l 0 slot := by
  cases l with
  | nil => simp [WedgeLoop.run, Gen.wedge, WE.eval, wedgeIdx]
  | cons s suf =>
    have h := wedge_iter_eq slot suf [] s 0 (suf.length + 1 + 1) (by omega)
    simp only [List.nil_append, List.length_nil, Nat.zero_add, Nat.add_zero] at h
    simp only [WedgeLoop.run, Gen.wedge, WE.eval, Option.bind_some, List.map_cons,
      List.getElem?_cons_zero, List.length_cons, List.length_map]
    have h2 : (wedgeIdx (s :: suf) 0 slot).map (fun x => x) = wedgeIdx (s :: suf) 0 slot := by
      cases wedgeIdx (s :: suf) 0 slot <;> rfl
    rw [← h2, ← h]
    rfl

theorem wedge_pick_eq (l : List Sym) (slot : Nat) : Gen.wedge.pick l slot = rouletteOf l slot := by
  simp only [WedgeLoop.pick, rouletteOf, wedge_run_eq]

theorem rouletteOf_eq_D (l : List Sym) (slot : Nat) (h : slot < wsum l) :
    rouletteOf l slot = some (rouletteD l slot) := by
  obtain ⟨s, hs, _⟩ := rouletteOf_mem l slot h
  simp [rouletteD, hs]

end Vita.C02
