/-
  C02 — the exon walk of `random_locus` (a cursor over an ordered `std::set<locus>` that grows while
  it is scanned, GenSem.walkFrom) visits exactly the loci reached from the entry point.
-/
import Vita.C02.GenSem
import Vita.C02.ReachLemmas
namespace Vita.C02
open GenSem

/-- the lexicographic order of loci (`operator<(const locus &, const locus &)`) -/
def LLt (a b : Locus) : Prop := a.idx < b.idx ∨ (a.idx = b.idx ∧ a.cat < b.cat)

instance (a b : Locus) : Decidable (LLt a b) := by unfold LLt; infer_instance

theorem LLt.trichotomy (a b : Locus) : LLt a b ∨ a = b ∨ LLt b a := by
  cases a with | mk ai ac => cases b with | mk bi bc =>
  simp only [LLt, Locus.mk.injEq]; omega

theorem LLt.irrefl (a : Locus) : ¬ LLt a a := by unfold LLt; omega

theorem LLt.asymm {a b : Locus} (h : LLt a b) : ¬ LLt b a := by unfold LLt at *; omega

theorem LLt.trans {a b c : Locus} (h1 : LLt a b) (h2 : LLt b c) : LLt a c := by
  unfold LLt at *; omega

/-- position of a locus in row-major order -/
theorem key_lt {a b : Locus} {cols : Nat} (ha : a.cat < cols) (h : LLt a b) :
    a.idx * cols + a.cat < b.idx * cols + b.cat := by
  rcases h with h | ⟨h, hc⟩
  · have h1 : (a.idx + 1) * cols ≤ b.idx * cols := Nat.mul_le_mul_right cols h
    rw [Nat.add_mul, Nat.one_mul] at h1
    omega
  · rw [h]; omega

theorem key_bound {x : Ind} {l : Locus} (h : Inside x l) :
    l.idx * x.cols + l.cat < x.rows * x.cols := by
  have h1 : (l.idx + 1) * x.cols ≤ x.rows * x.cols := Nat.mul_le_mul_right x.cols h.1
  rw [Nat.add_mul, Nat.one_mul] at h1
  have := h.2
  omega

section
variable {less : Locus → Locus → Bool} (hless : ∀ a b, less a b = true ↔ LLt a b)
include hless

omit hless in
theorem minL_none {l : List Locus} : minL less l = none ↔ l = [] := by
  cases l with
  | nil => simp [minL]
  | cons a t =>
    simp only [minL]
    cases minL less t with
    | none => simp
    | some m => simp only []; split <;> simp

theorem minL_some {l : List Locus} {m : Locus} (h : minL less l = some m) :
    m ∈ l ∧ ∀ a ∈ l, ¬ LLt a m := by
  induction l generalizing m with
  | nil => simp [minL] at h
  | cons a t ih =>
    simp only [minL] at h
    cases hm : minL less t with
    | none =>
      rw [hm] at h
      simp only [Option.some.injEq] at h
      subst h
      have : t = [] := minL_none.1 hm
      subst this
      exact ⟨by simp, fun x hx => by simp at hx; subst hx; exact LLt.irrefl _⟩
    | some m' =>
      rw [hm] at h
      obtain ⟨hmem, hmin⟩ := ih hm
      by_cases hl : less m' a = true
      · simp only [hl, if_true, Option.some.injEq] at h
        subst h
        refine ⟨by simp [hmem], ?_⟩
        intro x hx
        simp only [List.mem_cons] at hx
        rcases hx with rfl | hx
        · exact LLt.asymm ((hless _ _).1 hl)
        · exact hmin x hx
      · simp only [hl, Bool.false_eq_true, if_false, Option.some.injEq] at h
        subst h
        refine ⟨by simp, ?_⟩
        intro x hx
        simp only [List.mem_cons] at hx
        rcases hx with rfl | hx
        · exact LLt.irrefl _
        · intro hxa
          have hnl : ¬ LLt m' a := fun hh => hl ((hless _ _).2 hh)
          rcases LLt.trichotomy m' a with h1 | h1 | h1
          · exact hnl h1
          · subst h1; exact hmin x hx hxa
          · exact hmin x hx (LLt.trans hxa h1)

theorem nextIn_none {S : List Locus} {cur : Locus} (h : nextIn less S cur = none) :
    ∀ l ∈ S, ¬ LLt cur l := by
  intro l hl hlt
  have := minL_none.1 h
  have hm : l ∈ S.filter (fun l => less cur l) := by
    simp only [List.mem_filter]; exact ⟨hl, (hless _ _).2 hlt⟩
  rw [this] at hm
  simp at hm

theorem nextIn_some {S : List Locus} {cur n : Locus} (h : nextIn less S cur = some n) :
    n ∈ S ∧ LLt cur n ∧ ∀ l ∈ S, LLt cur l → ¬ LLt l n := by
  obtain ⟨hmem, hmin⟩ := minL_some hless h
  simp only [List.mem_filter] at hmem
  refine ⟨hmem.1, (hless _ _).1 hmem.2, ?_⟩
  intro l hl hlt
  exact hmin l (by simp only [List.mem_filter]; exact ⟨hl, (hless _ _).2 hlt⟩)

/-- invariant of the walk: the set holds reachable loci only, contains the entry point and the
    cursor, and is closed under arguments BELOW the cursor -/
structure WalkInv (x : Ind) (S : List Locus) (cur : Locus) : Prop where
  start : x.best ∈ S
  cur_mem : cur ∈ S
  sound : ∀ l ∈ S, Reaches x x.best l
  inside : ∀ l ∈ S, Inside x l
  closed : ∀ m ∈ S, LLt m cur → ∀ a ∈ (x.gene m.idx m.cat).argLoci, a ∈ S

theorem walkFrom_closed {ss : SymSet} {x : Ind} (hw : WF ss x) :
    ∀ (f : Nat) (S : List Locus) (cur : Locus), WalkInv x S cur →
      x.rows * x.cols ≤ f + (cur.idx * x.cols + cur.cat) →
      x.best ∈ walkFrom less x f S cur ∧
      (∀ l ∈ walkFrom less x f S cur, Reaches x x.best l) ∧
      ∀ m ∈ walkFrom less x f S cur, ∀ a ∈ (x.gene m.idx m.cat).argLoci,
        a ∈ walkFrom less x f S cur := by
  intro f
  induction f with
  | zero =>
    intro S cur hv hf
    have := key_bound (hv.inside cur hv.cur_mem)
    omega
  | succ f ih =>
    intro S cur hv hf
    have hcin := hv.inside cur hv.cur_mem
    have hargs : ∀ a ∈ (x.gene cur.idx cur.cat).argLoci, LLt cur a ∧ Inside x a := by
      intro a ha
      have := argLoci_inside (hw.genes cur.idx hcin.1 cur.cat hcin.2) ha
      exact ⟨Or.inl this.1, this.2.1, this.2.2⟩
    -- the set after the insertion
    have hsound' : ∀ l ∈ S ++ (x.gene cur.idx cur.cat).argLoci, Reaches x x.best l := by
      intro l hl
      simp only [List.mem_append] at hl
      rcases hl with hl | hl
      · exact hv.sound l hl
      · exact Reaches.step (hv.sound cur hv.cur_mem) hl
    have hinside' : ∀ l ∈ S ++ (x.gene cur.idx cur.cat).argLoci, Inside x l := by
      intro l hl
      simp only [List.mem_append] at hl
      rcases hl with hl | hl
      · exact hv.inside l hl
      · exact (hargs l hl).2
    -- arguments of everything up to (and including) the cursor are in the new set
    have hclosed' : ∀ m ∈ S ++ (x.gene cur.idx cur.cat).argLoci, (LLt m cur ∨ m = cur) →
        ∀ a ∈ (x.gene m.idx m.cat).argLoci, a ∈ S ++ (x.gene cur.idx cur.cat).argLoci := by
      intro m hm hlt a ha
      simp only [List.mem_append] at hm ⊢
      rcases hlt with hlt | rfl
      · rcases hm with hm | hm
        · exact Or.inl (hv.closed m hm hlt a ha)
        · exact absurd hlt (LLt.asymm (hargs m hm).1)
      · exact Or.inr ha
    simp only [walkFrom]
    cases hn : nextIn less (S ++ (x.gene cur.idx cur.cat).argLoci) cur with
    | none =>
      simp only []
      refine ⟨by simp [hv.start], hsound', ?_⟩
      intro m hm a ha
      have hno := nextIn_none hless hn m hm
      rcases LLt.trichotomy m cur with h1 | h1 | h1
      · exact hclosed' m hm (Or.inl h1) a ha
      · exact hclosed' m hm (Or.inr h1) a ha
      · exact absurd h1 hno
    | some n =>
      simp only []
      obtain ⟨hnmem, hlt, hleast⟩ := nextIn_some hless hn
      apply ih
      · refine ⟨by simp [hv.start], hnmem, hsound', hinside', ?_⟩
        intro m hm hmn a ha
        rcases LLt.trichotomy m cur with h1 | h1 | h1
        · exact hclosed' m hm (Or.inl h1) a ha
        · exact hclosed' m hm (Or.inr h1) a ha
        · exact absurd hmn (hleast m hm h1)
      · have := key_lt hcin.2 hlt
        omega

/-- The set the walk ends with is exactly the set of loci reached from the entry point. -/
theorem walk_iff_reaches {ss : SymSet} {x : Ind} (hw : WF ss x) (l : Locus) :
    l ∈ walkFrom less x (x.rows * x.cols) [x.best] x.best ↔ Reaches x x.best l := by
  have hv : WalkInv x [x.best] x.best :=
    ⟨by simp, by simp, fun l hl => by simp at hl; subst hl; exact Reaches.refl,
     fun l hl => by simp at hl; subst hl; exact hw.best,
     fun m hm hlt => by simp at hm; subst hm; exact absurd hlt (LLt.irrefl _)⟩
  obtain ⟨h1, h2, h3⟩ := walkFrom_closed hless hw (x.rows * x.cols) [x.best] x.best hv (by omega)
  constructor
  · exact h2 l
  · intro hr
    induction hr with
    | refl => exact h1
    | step _ ha ih => exact h3 _ ih _ ha

/-- invariant of the iterator: visited loci and frontier hold reachable loci only, the entry point
    is among them, the arguments of every visited locus are visited or in the frontier, every
    visited locus precedes the whole frontier, the visited loci are in increasing order -/
structure FrontInv (x : Ind) (F acc : List Locus) : Prop where
  start : x.best ∈ acc ∨ x.best ∈ F
  sound : ∀ l, (l ∈ acc ∨ l ∈ F) → Reaches x x.best l
  inside : ∀ l ∈ F, Inside x l
  closed : ∀ m ∈ acc, ∀ a ∈ (x.gene m.idx m.cat).argLoci, a ∈ acc ∨ a ∈ F
  below : ∀ a ∈ acc, ∀ l ∈ F, LLt a l
  sorted : acc.Pairwise LLt

theorem frontierFrom_closed {ss : SymSet} {x : Ind} (hw : WF ss x) :
    ∀ (f : Nat) (F acc : List Locus) (k : Nat), FrontInv x F acc →
      (∀ l ∈ F, k ≤ l.idx * x.cols + l.cat) → x.rows * x.cols ≤ f + k →
      x.best ∈ frontierFrom less x f F acc ∧
      (∀ l ∈ frontierFrom less x f F acc, Reaches x x.best l) ∧
      (∀ m ∈ frontierFrom less x f F acc, ∀ a ∈ (x.gene m.idx m.cat).argLoci,
        a ∈ frontierFrom less x f F acc) ∧
      (frontierFrom less x f F acc).Pairwise LLt := by
  -- when the frontier is empty the visited loci are closed
  have done_ : ∀ (F acc : List Locus), FrontInv x F acc → (∀ l, l ∉ F) →
      x.best ∈ acc ∧ (∀ l ∈ acc, Reaches x x.best l) ∧
      (∀ m ∈ acc, ∀ a ∈ (x.gene m.idx m.cat).argLoci, a ∈ acc) ∧ acc.Pairwise LLt := by
    intro F acc hv hF
    refine ⟨?_, fun l hl => hv.sound l (Or.inl hl), ?_, hv.sorted⟩
    · rcases hv.start with h | h
      · exact h
      · exact absurd h (hF _)
    · intro m hm a ha
      rcases hv.closed m hm a ha with h | h
      · exact h
      · exact absurd h (hF _)
  intro f
  induction f with
  | zero =>
    intro F acc k hv hk hf
    simp only [frontierFrom]
    apply done_ F acc hv
    intro l hl
    have := key_bound (hv.inside l hl)
    have := hk l hl
    omega
  | succ f ih =>
    intro F acc k hv hk hf
    simp only [frontierFrom]
    cases hm : minL less F with
    | none =>
      simp only []
      apply done_ F acc hv
      intro l hl
      rw [minL_none.1 hm] at hl
      simp at hl
    | some m =>
      simp only []
      obtain ⟨hmem, hmin⟩ := minL_some hless hm
      have hmin' : ∀ l ∈ F, l ≠ m → LLt m l := by
        intro l hl hne
        rcases LLt.trichotomy m l with h | h | h
        · exact h
        · exact absurd h.symm hne
        · exact absurd h (hmin l hl)
      have hmi := hv.inside m hmem
      have hargs : ∀ a ∈ (x.gene m.idx m.cat).argLoci, LLt m a ∧ Inside x a := by
        intro a ha
        have := argLoci_inside (hw.genes m.idx hmi.1 m.cat hmi.2) ha
        exact ⟨Or.inl this.1, this.2.1, this.2.2⟩
      have hF' : ∀ l, l ∈ F.filter (fun l => l != m) ++ (x.gene m.idx m.cat).argLoci →
          (l ∈ F ∧ l ≠ m) ∨ l ∈ (x.gene m.idx m.cat).argLoci := by
        intro l hl
        simp only [List.mem_append, List.mem_filter, bne_iff_ne] at hl
        exact hl
      have hgt : ∀ l, l ∈ F.filter (fun l => l != m) ++ (x.gene m.idx m.cat).argLoci → LLt m l := by
        intro l hl
        rcases hF' l hl with ⟨h1, h2⟩ | h
        · exact hmin' l h1 h2
        · exact (hargs l h).1
      apply ih _ _ (m.idx * x.cols + m.cat + 1)
      · refine ⟨?_, ?_, ?_, ?_, ?_, ?_⟩
        · rcases hv.start with h | h
          · exact Or.inl (by simp [h])
          · by_cases hb : x.best = m
            · exact Or.inl (by simp [hb])
            · exact Or.inr (by simp only [List.mem_append, List.mem_filter, bne_iff_ne]
                               exact Or.inl ⟨h, hb⟩)
        · intro l hl
          rcases hl with hl | hl
          · simp only [List.mem_append, List.mem_singleton] at hl
            rcases hl with hl | rfl
            · exact hv.sound l (Or.inl hl)
            · exact hv.sound _ (Or.inr hmem)
          · rcases hF' l hl with ⟨h1, _⟩ | h
            · exact hv.sound l (Or.inr h1)
            · exact Reaches.step (hv.sound m (Or.inr hmem)) h
        · intro l hl
          rcases hF' l hl with ⟨h1, _⟩ | h
          · exact hv.inside l h1
          · exact (hargs l h).2
        · intro m' hm' a ha
          simp only [List.mem_append, List.mem_singleton] at hm'
          rcases hm' with hm' | rfl
          · rcases hv.closed m' hm' a ha with h | h
            · exact Or.inl (by simp [h])
            · by_cases hb : a = m
              · exact Or.inl (by simp [hb])
              · exact Or.inr (by simp only [List.mem_append, List.mem_filter, bne_iff_ne]
                                 exact Or.inl ⟨h, hb⟩)
          · exact Or.inr (by simp only [List.mem_append]; exact Or.inr ha)
        · intro a ha l hl
          simp only [List.mem_append, List.mem_singleton] at ha
          rcases ha with ha | rfl
          · exact LLt.trans (hv.below a ha m hmem) (hgt l hl)
          · exact hgt l hl
        · rw [List.pairwise_append]
          refine ⟨hv.sorted, by simp, ?_⟩
          intro a ha b hb
          simp only [List.mem_singleton] at hb
          subst hb
          exact hv.below a ha _ hmem
      · intro l hl
        have := key_lt hmi.2 (hgt l hl)
        omega
      · have := hk m hmem
        omega

/-- `for (i = begin(); i != end(); ++i)` visits exactly the loci reached from the entry point, each
    once, in increasing order. -/
theorem frontier_iff_reaches {ss : SymSet} {x : Ind} (hw : WF ss x) :
    (∀ l, l ∈ frontierFrom less x (x.rows * x.cols) [x.best] [] ↔ Reaches x x.best l) ∧
    (frontierFrom less x (x.rows * x.cols) [x.best] []).Pairwise LLt := by
  have hv : FrontInv x [x.best] [] :=
    ⟨Or.inr (by simp), fun l hl => by simp at hl; subst hl; exact Reaches.refl,
     fun l hl => by simp at hl; subst hl; exact hw.best,
     fun m hm => by simp at hm, fun a ha => by simp at ha, List.Pairwise.nil⟩
  obtain ⟨h1, h2, h3, h4⟩ := frontierFrom_closed hless hw (x.rows * x.cols) [x.best] [] 0 hv
    (fun _ _ => Nat.zero_le _) (by omega)
  refine ⟨fun l => ⟨h2 l, ?_⟩, h4⟩
  intro hr
  induction hr with
  | refl => exact h1
  | step _ ha ih => exact h3 _ ih _ ha

end

end Vita.C02
