/-
  C03 line-protocol driver.

    sym <opcode> <category> <parametric> <argcat>*     register a symbol                 -> ok
    mep <rows> <cols> <bi> <bc> <gene>*                 -> pk <hex> <wf> <same>
          hex  = packTree (unfold genome best)   (the stream the theorems talk about)
          wf   = 1 iff the decidable well-formedness check `wfB` holds
          same = 1 iff `i_mep::pack` AS TRANSLATED from the current sources (`GenPack.pack`, run by
                 `PackSyn.runPack`) gives the same stream
    ga <n> <u32>*  /  de <n> <u64>*                     -> pk <hex>
    team <k> ; mep … ; mep …                            -> pk <hex>/<hex>/…
    murmur <hex>                                        -> <d0> <d1>     (Vita.Murmur.hash128)
    murmursyn <hex>                                     -> <d0> <d1>     (hash128 AS TRANSLATED: `GenPack.murmur.run`)
    combinesyn <a0> <a1> <h0> <h1>                      -> <d0> <d1>     (hash_t::combine AS TRANSLATED)
    combine <d0> <d1> …                                 -> <d0> <d1>     (fold of hash_t::combine from 0)
  anything else                                         -> bad-op
  <gene> = <opcode>:<parameter bits>:<arg>,<arg>… (`-` = none)
-/
import Vita.Common.Murmur
import Vita.C03.Model
import Vita.C03.GenPack

open Vita.C03

structure DState where
  tab : Array SymInfo := #[]

def DState.symTab (s : DState) : SymTab := fun op => s.tab.getD op ⟨[], false⟩

def hexDigit (n : Nat) : Char := if n < 10 then Char.ofNat (48 + n) else Char.ofNat (87 + n)

def toHex (bs : List Nat) : String :=
  if bs.isEmpty then "-" else
  String.ofList (bs.foldr (fun b acc => hexDigit (b / 16 % 16) :: hexDigit (b % 16) :: acc) [])

def hexVal (c : Char) : Nat :=
  if c.toNat ≥ 97 then c.toNat - 87 else if c.toNat ≥ 65 then c.toNat - 55 else c.toNat - 48

def fromHex (s : String) : List Nat :=
  if s == "-" then [] else
  let rec go : List Char → List Nat
    | a :: b :: rest => (hexVal a * 16 + hexVal b) :: go rest
    | _ => []
  go s.toList

def parseGene (s : String) : Option Gene :=
  match s.splitOn ":" with
  | [o, p, a] => do
    let op ← o.toNat?
    let par ← p.toNat?
    let args ← if a == "-" then some [] else (a.splitOn ",").mapM String.toNat?
    some ⟨op, par, args⟩
  | _ => none

def parseMep (toks : List String) : Option (Genome × Locus) :=
  match toks with
  | r :: c :: bi :: bc :: genes => do
    let rows ← r.toNat?
    let cols ← c.toNat?
    let bi ← bi.toNat?
    let bc ← bc.toNat?
    let gs ← genes.mapM parseGene
    if gs.length ≠ rows * cols then none else
    let arr := gs.toArray
    some (⟨rows, cols, fun i k => arr.getD (i * cols + k) default⟩, (bi, bc))
  | _ => none

/-- decidable version of `WF` over the finite index range (plus the locus range) -/
def wfB (tab : SymTab) (g : Genome) (l : Locus) : Bool :=
  decide (l.1 < g.rows) && decide (l.2 < g.cols) &&
  (List.range g.rows).all fun i => (List.range g.cols).all fun c =>
    let ge := g.gene i c
    ge.args.length == tab.arity ge.op &&
    ge.args.all (fun a => decide (i < a) && decide (a < g.rows)) &&
    (tab ge.op).argCats.all (fun k => decide (k < g.cols)) &&
    decide (ge.op < 4294967296) && decide (ge.par < 2 ^ 64)

def mepStream (tab : SymTab) (toks : List String) : Option (String × Bool × Bool) := do
  let (g, l) ← parseMep toks
  if g.rows = 0 then some ("-", true, true) else
  let wf := wfB tab g l
  match unfold tab g l with
  | none => some ("?", wf, false)
  | some t =>
    let bs := packTree tab t
    some (toHex bs, wf, PackSyn.runPack GenPack.pack tab g l == some bs)

def splitOnTok (sep : String) (toks : List String) : List (List String) :=
  let rec go (cur : List String) (acc : List (List String)) : List String → List (List String)
    | [] => (cur.reverse :: acc).reverse
    | t :: ts => if t == sep then go [] (cur.reverse :: acc) ts else go (t :: cur) acc ts
  go [] [] toks

def b2s (b : Bool) : String := if b then "1" else "0"

def answer (st : DState) (line : String) : DState × String :=
  let toks := (line.trimAscii.toString.splitOn " ").filter (· ≠ "")
  match toks with
  | "sym" :: op :: _cat :: par :: cats =>
    match op.toNat?, cats.mapM String.toNat? with
    | some op, some cs =>
      let info : SymInfo := ⟨cs, par == "1"⟩
      let tab := if op < st.tab.size then st.tab else st.tab ++ Array.replicate (op + 1 - st.tab.size) ⟨[], false⟩
      ({ st with tab := tab.set! op info }, "ok")
    | _, _ => (st, "bad-op")
  | "mep" :: rest =>
    match mepStream st.symTab rest with
    | some (h, wf, same) => (st, s!"pk {h} {b2s wf} {b2s same}")
    | none => (st, "bad-op")
  | "ga" :: _ :: vs =>
    match vs.mapM String.toNat? with
    | some v => (st, s!"pk {toHex (packGa v)}")
    | none => (st, "bad-op")
  | "de" :: _ :: vs =>
    match vs.mapM String.toNat? with
    | some v => (st, s!"pk {toHex (packDe v)}")
    | none => (st, "bad-op")
  | "team" :: _ :: ";" :: rest =>
    let parts := splitOnTok ";" rest
    let rs := parts.map fun p =>
      match p with
      | "mep" :: r => mepStream st.symTab r
      | _ => none
    if rs.all Option.isSome then
      let hs := rs.filterMap id
      (st, "pk " ++ "/".intercalate (hs.map (·.1)) ++ " " ++ b2s (hs.all (·.2.1)) ++ " " ++ b2s (hs.all (·.2.2)))
    else (st, "bad-op")
  | ["murmur", h] =>
    let r := Vita.Murmur.hash128 ((fromHex h).map UInt8.ofNat)
    (st, s!"{r.d0.toNat} {r.d1.toNat}")
  | ["murmursyn", h] =>
    let r := GenPack.murmur.run ((fromHex h).map UInt8.ofNat) GenPack.murmurDefaultSeed.toUInt64
    (st, s!"{r.d0.toNat} {r.d1.toNat}")
  | ["combinesyn", a0, a1, h0, h1] =>
    match [a0, a1, h0, h1].mapM String.toNat? with
    | some [a0, a1, h0, h1] =>
      let r := USyn.runCombine GenPack.combine ⟨a0.toUInt64, a1.toUInt64⟩ ⟨h0.toUInt64, h1.toUInt64⟩
      (st, s!"{r.d0.toNat} {r.d1.toNat}")
    | _ => (st, "bad-op")
  | "combine" :: ws =>
    match ws.mapM String.toNat? with
    | some ns =>
      let rec go (acc : Vita.Murmur.Hash) : List Nat → Vita.Murmur.Hash
        | a :: b :: rest => go (acc.combine ⟨a.toUInt64, b.toUInt64⟩) rest
        | _ => acc
      let r := go Vita.Murmur.Hash.zero ns
      (st, s!"{r.d0.toNat} {r.d1.toNat}")
    | none => (st, "bad-op")
  | _ => (st, "bad-op")

partial def loop (h : IO.FS.Stream) (out : IO.FS.Stream) (st : DState) : IO Unit := do
  let line ← h.getLine
  if line.isEmpty then return ()
  let (st', a) := answer st line
  out.putStrLn a
  loop h out st'

def main : IO Unit := do
  loop (← IO.getStdin) (← IO.getStdout) {}
