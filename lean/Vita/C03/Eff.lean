/-
  C03 — "effect skeletons" of member functions with respect to the signature cache.

  `tools/translate_mutators.py` reduces the clang AST of every member function (and friend)
  of i_mep / i_ga / i_de / team / individual that touches the content (`genome_`, `best_`,
  `individuals_`) or `signature_` to a term of `Stm` (syntax only).  This file gives the
  skeletons a nondeterministic semantics (`Exec`), an abstract interpreter (`step`) and its
  soundness proof (`step_sound`): if `step body init = some _` then in EVERY execution

    * at every `return`, every object in scope satisfies the cache invariant
      (signature empty, or equal to the hash of the current content);
    * a mutable reference / iterator into the content is only handed out right after the
      cache has been cleared.

  The generated obligation (`Props.mutators_reset`) is `∀ m ∈ table, safe m = true`, closed
  by `decide`.
-/
namespace Vita.C03.Eff

/-- what a member function does to `signature_` -/
inductive ResetKind | none | clear | recompute
deriving DecidableEq, Repr, Inhabited

inductive Guard
  | nz (n : String)        -- `if (n)` on a local counter
  | other
deriving DecidableEq, Repr, Inhabited

inductive Stm
  | skip
  | write (x : String)                 -- content of object x modified (any way)
  | reset (x : String) (k : ResetKind) -- x.signature_.clear() / x.signature_ = x.hash()
  | sigOther (x : String)              -- any other modification of x.signature_
  | sigCall (x : String)               -- x.signature(): fills an empty cache
  | fresh (x : String)                 -- x constructed / received as a value respecting the invariant
  | copy (x y : String)                -- x := copy of y (content and cache)
  | incr (n : String)                  -- ++n (n becomes positive)
  | kill (n : String)                  -- any other assignment to counter n
  | countedWrite (x n : String)        -- n += k where k = number of changes just made to x (k = 0: none)
  | handout (x : String)               -- a mutable reference / iterator into x's content is returned
  | ret (xs : List String)             -- return: objects that must be consistent now
  | seq (a b : Stm)
  | ite (g : Guard) (t e : Stm)
  | loop (b : Stm)
deriving Repr, Inhabited

/-! ### concrete semantics -/

structure Obj where
  content : Nat
  sig : Option Nat          -- none = empty
deriving Inhabited

/-- the cache invariant for hash function `h` -/
def Obj.inv (h : Nat → Nat) (o : Obj) : Prop := o.sig = none ∨ o.sig = some (h o.content)

structure St where
  obj : String → Obj
  ctr : String → Nat

def St.setObj (σ : St) (x : String) (o : Obj) : St :=
  { σ with obj := fun y => if y = x then o else σ.obj y }
def St.setCtr (σ : St) (n : String) (v : Nat) : St :=
  { σ with ctr := fun m => if m = n then v else σ.ctr m }

inductive Res | ok (σ : St) | fail

/-- big-step, nondeterministic; `fail` = an assertion (`ret`, `handout`) was violated -/
inductive Exec (h : Nat → Nat) : Stm → St → Res → Prop
  | skip (σ) : Exec h .skip σ (.ok σ)
  | write (x σ c) : Exec h (.write x) σ (.ok (σ.setObj x { σ.obj x with content := c }))
  | resetNone (x σ) : Exec h (.reset x .none) σ (.ok σ)
  | resetClear (x σ) : Exec h (.reset x .clear) σ (.ok (σ.setObj x { σ.obj x with sig := none }))
  | resetRecompute (x σ) :
      Exec h (.reset x .recompute) σ (.ok (σ.setObj x { σ.obj x with sig := some (h (σ.obj x).content) }))
  | sigOther (x σ s) : Exec h (.sigOther x) σ (.ok (σ.setObj x { σ.obj x with sig := s }))
  | sigCallFill (x σ) : (σ.obj x).sig = none →
      Exec h (.sigCall x) σ (.ok (σ.setObj x { σ.obj x with sig := some (h (σ.obj x).content) }))
  | sigCallKeep (x σ) : Exec h (.sigCall x) σ (.ok σ)
  | fresh (x σ o) : o.inv h → Exec h (.fresh x) σ (.ok (σ.setObj x o))
  | copy (x y σ) : Exec h (.copy x y) σ (.ok (σ.setObj x (σ.obj y)))
  | incr (n σ k) : Exec h (.incr n) σ (.ok (σ.setCtr n (σ.ctr n + k + 1)))
  | kill (n σ v) : Exec h (.kill n) σ (.ok (σ.setCtr n v))
  | countedNone (x n σ) : Exec h (.countedWrite x n) σ (.ok σ)
  | countedSome (x n σ c k) :
      Exec h (.countedWrite x n) σ
        (.ok ((σ.setObj x { σ.obj x with content := c }).setCtr n (σ.ctr n + k + 1)))
  | handoutOk (x σ) : (σ.obj x).sig = none → Exec h (.handout x) σ (.ok σ)
  | handoutFail (x σ) : (σ.obj x).sig ≠ none → Exec h (.handout x) σ .fail
  | retOk (xs σ) : (∀ x ∈ xs, (σ.obj x).inv h) → Exec h (.ret xs) σ (.ok σ)
  | retFail (xs σ) : ¬ (∀ x ∈ xs, (σ.obj x).inv h) → Exec h (.ret xs) σ .fail
  | seqFail (a b σ) : Exec h a σ .fail → Exec h (.seq a b) σ .fail
  | seqOk (a b σ σ' r) : Exec h a σ (.ok σ') → Exec h b σ' r → Exec h (.seq a b) σ r
  | iteNzT (n t e σ r) : σ.ctr n ≠ 0 → Exec h t σ r → Exec h (.ite (.nz n) t e) σ r
  | iteNzE (n t e σ r) : σ.ctr n = 0 → Exec h e σ r → Exec h (.ite (.nz n) t e) σ r
  | iteT (t e σ r) : Exec h t σ r → Exec h (.ite .other t e) σ r
  | iteE (t e σ r) : Exec h e σ r → Exec h (.ite .other t e) σ r
  | loopDone (b σ) : Exec h (.loop b) σ (.ok σ)
  | loopFail (b σ) : Exec h b σ .fail → Exec h (.loop b) σ .fail
  | loopStep (b σ σ' r) : Exec h b σ (.ok σ') → Exec h (.loop b) σ' r → Exec h (.loop b) σ r

/-! ### abstract domain -/

inductive AV
  | cleared               -- signature_ is empty
  | ok                    -- cache invariant holds
  | guarded (n : String)  -- cache invariant holds if counter n is zero
  | dirty                 -- nothing known
deriving DecidableEq, Repr, Inhabited

structure AS where
  objs : List (String × AV)
  pos : List String        -- counters known to be non-zero
deriving Repr, Inhabited

def AS.get (a : AS) (x : String) : AV := (a.objs.lookup x).getD .dirty
def AS.set (a : AS) (x : String) (v : AV) : AS := { a with objs := (x, v) :: a.objs }
def AS.top : AS := ⟨[], []⟩

def leV : AV → AV → Bool
  | .cleared, _ => true
  | .ok, .ok => true
  | .ok, .guarded _ => true
  | .ok, .dirty => true
  | .guarded n, .guarded m => n == m
  | .guarded _, .dirty => true
  | .dirty, .dirty => true
  | _, _ => false

def joinV (u v : AV) : AV := if leV u v then v else if leV v u then u else .dirty

def AS.le (a b : AS) : Bool :=
  b.objs.all (fun kv => leV (a.get kv.1) (b.get kv.1)) && b.pos.all (fun n => a.pos.contains n)

def AS.join (a b : AS) : AS :=
  { objs := a.objs.map (fun kv => (kv.1, joinV (a.get kv.1) (b.get kv.1))),
    pos := a.pos.filter (fun n => b.pos.contains n) }

/-- value of an object after an uncontrolled change -/
def weak (a : AS) : AV := match a.pos with | n :: _ => .guarded n | [] => .dirty

def mapVals (f : AV → AV) (l : List (String × AV)) : List (String × AV) := l.map (fun kv => (kv.1, f kv.2))

def joinO : Option AS → Option AS → Option AS
  | some a, some b => some (a.join b)
  | _, _ => none

def iterN (f : AS → AS) : Nat → AS → AS
  | 0, a => a
  | k + 1, a => iterN f k (f a)

/-- abstract transfer function; `none` = an assertion may fail -/
def step : Stm → AS → Option AS
  | .skip, a => some a
  | .write x, a => some (a.set x (match a.get x with | .cleared => .cleared | _ => weak a))
  | .reset _ .none, a => some a
  | .reset x .clear, a => some (a.set x .cleared)
  | .reset x .recompute, a => some (a.set x .ok)
  | .sigOther x, a => some (a.set x (weak a))
  | .sigCall x, a => some (a.set x (match a.get x with | .cleared => .ok | v => v))
  | .fresh x, a => some (a.set x .ok)
  | .copy x y, a => some (a.set x (a.get y))
  | .incr n, a =>
    some { objs := mapVals (fun v => match v with | .dirty => .guarded n | v => v) a.objs, pos := n :: a.pos }
  | .kill n, a =>
    some { objs := mapVals (fun v => if v = .guarded n then .dirty else v) a.objs,
           pos := a.pos.filter (fun m => m != n) }
  | .countedWrite x n, a =>
    let w := a.set x (match a.get x with | .cleared => .cleared | _ => .dirty)
    let b : AS := { objs := mapVals (fun v => match v with | .dirty => .guarded n | v => v) w.objs, pos := n :: a.pos }
    some (a.join b)
  | .handout x, a => if a.get x = .cleared then some a else none
  | .ret xs, a => if xs.all (fun x => leV (a.get x) .ok) then some a else none
  | .seq s t, a => match step s a with | some b => step t b | none => none
  | .ite (.nz n) t e, a =>
    joinO (step t { a with pos := n :: a.pos })
          (step e { objs := mapVals (fun v => if v = .guarded n then .ok else v) a.objs,
                    pos := a.pos })
  | .ite .other t e, a => joinO (step t a) (step e a)
  | .loop b, a =>
    let f : AS → AS := fun i => match step b i with | some r => a.join (i.join r) | none => AS.top
    let c := iterN f 3 a
    match step b c with
    | some r => if a.le c && r.le c then some c else
        (match step b AS.top with | some _ => some AS.top | none => none)
    | none => none

/-- entry state of a member function: `this` (and nothing else) satisfies the invariant;
    a constructor starts from an empty signature -/
structure Method where
  cls : String
  name : String
  kind : String            -- "method" | "ctor" | "friend"
  access : String          -- "public" | "protected" | "private"
  body : Stm
deriving Repr, Inhabited

def Method.init (m : Method) : AS :=
  if m.kind = "ctor" then ⟨[("this", .cleared)], []⟩
  else if m.kind = "friend" then ⟨[], []⟩
  else ⟨[("this", .ok)], []⟩

def safe (m : Method) : Bool := (step m.body m.init).isSome

/-- does the skeleton modify the content of the object it is called on / hand it out? -/
def touches : Stm → Bool
  | .write _ | .countedWrite _ _ | .handout _ => true
  | .seq a b => touches a || touches b
  | .ite _ t e => touches t || touches e
  | .loop b => touches b
  | _ => false

end Vita.C03.Eff
