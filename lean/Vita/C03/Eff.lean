/-
  C03 — "effect skeletons" of member functions with respect to the signature cache.

  `tools/translate_mutators.py` reduces the clang AST of every member function (and friend)
  of i_mep / i_ga / i_de / team / individual that touches the content (`genome_`, `best_`,
  `individuals_`) or `signature_` to a term of `Stm` (syntax only).  This file gives the
  skeletons a nondeterministic semantics (`Exec`), an abstract interpreter (`step`) and its
  soundness proof (`step_sound`): if `step body init = some _` then in EVERY execution

    * at every `return`, every object in scope satisfies the cache invariant
      (signature empty, or equal to the hash of the current content);
    * a mutable reference / iterator into the content is only handed out right after the
      cache has been cleared.

  The generated obligation (`Props.mutators_reset`) is `∀ m ∈ table, safe m = true`, closed
  by `decide`.
-/
namespace Vita.C03.Eff

/-- what a member function does to `signature_` -/
inductive ResetKind | none | clear | recompute
deriving DecidableEq, Repr, Inhabited

inductive Guard
  | nz (n : String)        -- `if (n)` on a local counter
  | other
deriving DecidableEq, Repr, Inhabited

/-- value carried by a `return` (only boolean literals are tracked) -/
inductive RV | tt | ff | unk
deriving DecidableEq, Repr, Inhabited

inductive Stm
  | skip
  | write (x : String)                 -- content of object x modified (any way)
  | reset (x : String) (k : ResetKind) -- x.signature_.clear() / x.signature_ = x.hash()
  | sigOther (x : String)              -- any other modification of x.signature_
  | sigCall (x : String)               -- x.signature(): fills an empty cache
  | fresh (x : String)                 -- x received as a value respecting the invariant (copy of an argument, result)
  | construct (x : String)             -- x built by a (non-copy) constructor: its signature is empty
  | retc (xs : List String)            -- end of a constructor: the signature of xs must be EMPTY
  | copy (x y : String)                -- x := copy of y (content and cache)
  | incr (n : String)                  -- ++n (n becomes positive)
  | kill (n : String)                  -- any other assignment to counter n
  | countedWrite (x n : String)        -- n += k where k = number of changes just made to x (k = 0: none)
  | handout (x : String)               -- a mutable reference / iterator into x's content is returned
  | ret (xs : List String) (v : RV)    -- return v: objects that must be consistent now
  | call (b t e : Stm)                 -- inlined call of b; then t if it returned true, e if false
  | seq (a b : Stm)
  | ite (g : Guard) (t e : Stm)
  | loop (b : Stm)
deriving Repr, Inhabited

/-! ### concrete semantics -/

structure Obj where
  content : Nat
  sig : Option Nat          -- none = empty
deriving Inhabited

/-- the cache invariant for hash function `h` -/
def Obj.inv (h : Nat → Nat) (o : Obj) : Prop := o.sig = none ∨ o.sig = some (h o.content)

structure St where
  obj : String → Obj
  ctr : String → Nat

def St.setObj (σ : St) (x : String) (o : Obj) : St :=
  { σ with obj := fun y => if y = x then o else σ.obj y }
def St.setCtr (σ : St) (n : String) (v : Nat) : St :=
  { σ with ctr := fun m => if m = n then v else σ.ctr m }

inductive Res | ok (σ : St) | ret (σ : St) (v : RV) | fail

/-- big-step, nondeterministic; `fail` = an assertion (`ret`, `handout`) was violated -/
inductive Exec (h : Nat → Nat) : Stm → St → Res → Prop
  | skip (σ) : Exec h .skip σ (.ok σ)
  | write (x σ c) : Exec h (.write x) σ (.ok (σ.setObj x { σ.obj x with content := c }))
  | resetNone (x σ) : Exec h (.reset x .none) σ (.ok σ)
  | resetClear (x σ) : Exec h (.reset x .clear) σ (.ok (σ.setObj x { σ.obj x with sig := none }))
  | resetRecompute (x σ) :
      Exec h (.reset x .recompute) σ (.ok (σ.setObj x { σ.obj x with sig := some (h (σ.obj x).content) }))
  | sigOther (x σ s) : Exec h (.sigOther x) σ (.ok (σ.setObj x { σ.obj x with sig := s }))
  | sigCallFill (x σ) : (σ.obj x).sig = none →
      Exec h (.sigCall x) σ (.ok (σ.setObj x { σ.obj x with sig := some (h (σ.obj x).content) }))
  | sigCallKeep (x σ) : Exec h (.sigCall x) σ (.ok σ)
  | fresh (x σ o) : o.inv h → Exec h (.fresh x) σ (.ok (σ.setObj x o))
  | construct (x σ o) : o.sig = none → Exec h (.construct x) σ (.ok (σ.setObj x o))
  | retcOk (xs σ) : (∀ x ∈ xs, (σ.obj x).sig = none) → Exec h (.retc xs) σ (.ret σ .unk)
  | retcFail (xs σ) : ¬ (∀ x ∈ xs, (σ.obj x).sig = none) → Exec h (.retc xs) σ .fail
  | copy (x y σ) : Exec h (.copy x y) σ (.ok (σ.setObj x (σ.obj y)))
  | incr (n σ k) : Exec h (.incr n) σ (.ok (σ.setCtr n (σ.ctr n + k + 1)))
  | kill (n σ v) : Exec h (.kill n) σ (.ok (σ.setCtr n v))
  | countedNone (x n σ) : Exec h (.countedWrite x n) σ (.ok σ)
  | countedSome (x n σ c k) :
      Exec h (.countedWrite x n) σ
        (.ok ((σ.setObj x { σ.obj x with content := c }).setCtr n (σ.ctr n + k + 1)))
  | handoutOk (x σ) : (σ.obj x).sig = none → Exec h (.handout x) σ (.ok σ)
  | handoutFail (x σ) : (σ.obj x).sig ≠ none → Exec h (.handout x) σ .fail
  | retOk (xs v σ) : (∀ x ∈ xs, (σ.obj x).inv h) → Exec h (.ret xs v) σ (.ret σ v)
  | retFail (xs v σ) : ¬ (∀ x ∈ xs, (σ.obj x).inv h) → Exec h (.ret xs v) σ .fail
  | callFail (b t e σ) : Exec h b σ .fail → Exec h (.call b t e) σ .fail
  | callOkT (b t e σ σ' r) : Exec h b σ (.ok σ') → Exec h t σ' r → Exec h (.call b t e) σ r
  | callOkE (b t e σ σ' r) : Exec h b σ (.ok σ') → Exec h e σ' r → Exec h (.call b t e) σ r
  | callRetT (b t e σ σ' r) : Exec h b σ (.ret σ' .tt) → Exec h t σ' r → Exec h (.call b t e) σ r
  | callRetF (b t e σ σ' r) : Exec h b σ (.ret σ' .ff) → Exec h e σ' r → Exec h (.call b t e) σ r
  | callRetUT (b t e σ σ' r) : Exec h b σ (.ret σ' .unk) → Exec h t σ' r → Exec h (.call b t e) σ r
  | callRetUE (b t e σ σ' r) : Exec h b σ (.ret σ' .unk) → Exec h e σ' r → Exec h (.call b t e) σ r
  | seqFail (a b σ) : Exec h a σ .fail → Exec h (.seq a b) σ .fail
  | seqRet (a b σ σ' v) : Exec h a σ (.ret σ' v) → Exec h (.seq a b) σ (.ret σ' v)
  | seqOk (a b σ σ' r) : Exec h a σ (.ok σ') → Exec h b σ' r → Exec h (.seq a b) σ r
  | iteNzT (n t e σ r) : σ.ctr n ≠ 0 → Exec h t σ r → Exec h (.ite (.nz n) t e) σ r
  | iteNzE (n t e σ r) : σ.ctr n = 0 → Exec h e σ r → Exec h (.ite (.nz n) t e) σ r
  | iteT (t e σ r) : Exec h t σ r → Exec h (.ite .other t e) σ r
  | iteE (t e σ r) : Exec h e σ r → Exec h (.ite .other t e) σ r
  | loopDone (b σ) : Exec h (.loop b) σ (.ok σ)
  | loopFail (b σ) : Exec h b σ .fail → Exec h (.loop b) σ .fail
  | loopRet (b σ σ' v) : Exec h b σ (.ret σ' v) → Exec h (.loop b) σ (.ret σ' v)
  | loopStep (b σ σ' r) : Exec h b σ (.ok σ') → Exec h (.loop b) σ' r → Exec h (.loop b) σ r

/-! ### abstract domain -/

inductive AV
  | cleared               -- signature_ is empty
  | ok                    -- cache invariant holds
  | guarded (n : String)  -- cache invariant holds if counter n is zero
  | dirty                 -- nothing known
deriving DecidableEq, Repr, Inhabited

structure AS where
  objs : List (String × AV)
  pos : List String        -- counters known to be non-zero
deriving Repr, Inhabited

def AS.get (a : AS) (x : String) : AV := (a.objs.lookup x).getD .dirty
def AS.set (a : AS) (x : String) (v : AV) : AS := { a with objs := (x, v) :: a.objs }
def AS.top : AS := ⟨[], []⟩

def leV : AV → AV → Bool
  | .cleared, _ => true
  | .ok, .ok => true
  | .ok, .guarded _ => true
  | .ok, .dirty => true
  | .guarded n, .guarded m => n == m
  | .guarded _, .dirty => true
  | .dirty, .dirty => true
  | _, _ => false

def joinV (u v : AV) : AV := if leV u v then v else if leV v u then u else .dirty

def AS.le (a b : AS) : Bool :=
  b.objs.all (fun kv => leV (a.get kv.1) (b.get kv.1)) && b.pos.all (fun n => a.pos.contains n)

def AS.join (a b : AS) : AS :=
  { objs := a.objs.map (fun kv => (kv.1, joinV (a.get kv.1) (b.get kv.1))),
    pos := a.pos.filter (fun n => b.pos.contains n) }

/-- value of an object after an uncontrolled change -/
def weak (a : AS) : AV := match a.pos with | n :: _ => .guarded n | [] => .dirty

def mapVals (f : AV → AV) (l : List (String × AV)) : List (String × AV) := l.map (fun kv => (kv.1, f kv.2))

/-- join where `none` is "unreachable" -/
def joinB : Option AS → Option AS → Option AS
  | none, y => y
  | x, none => x
  | some a, some b => some (a.join b)

/-- abstract result: state on normal completion / on `return true` / `return false` / other return -/
structure AR where
  norm : Option AS
  rt : Option AS
  rf : Option AS
  ru : Option AS
deriving Repr, Inhabited

def AR.bot : AR := ⟨none, none, none, none⟩
def AR.of (a : AS) : AR := ⟨some a, none, none, none⟩
def AR.join (x y : AR) : AR := ⟨joinB x.norm y.norm, joinB x.rt y.rt, joinB x.rf y.rf, joinB x.ru y.ru⟩

def leO : Option AS → AS → Bool
  | none, _ => true
  | some a, c => a.le c

def iterN (f : AS → AS) : Nat → AS → AS
  | 0, a => a
  | k + 1, a => iterN f k (f a)

def mapDirty (n : String) (l : List (String × AV)) : List (String × AV) :=
  mapVals (fun v => match v with | .dirty => .guarded n | v => v) l

/-- continue from a possibly unreachable state -/
def contO (o : Option AS) (f : AS → Option AR) : Option AR :=
  match o with
  | none => some AR.bot
  | some s => f s

/-- abstract transfer function; `none` = an assertion may fail -/
def step : Stm → AS → Option AR
  | .skip, a => some (.of a)
  | .write x, a => some (.of (a.set x (match a.get x with | .cleared => .cleared | _ => weak a)))
  | .reset _ .none, a => some (.of a)
  | .reset x .clear, a => some (.of (a.set x .cleared))
  | .reset x .recompute, a => some (.of (a.set x .ok))
  | .sigOther x, a => some (.of (a.set x (weak a)))
  | .sigCall x, a => some (.of (a.set x (match a.get x with | .cleared => .ok | v => v)))
  | .fresh x, a => some (.of (a.set x .ok))
  | .construct x, a => some (.of (a.set x .cleared))
  | .retc xs, a => if xs.all (fun x => a.get x == .cleared) then some ⟨none, none, none, some a⟩ else none
  | .copy x y, a => some (.of (a.set x (a.get y)))
  | .incr n, a => some (.of { objs := mapDirty n a.objs, pos := n :: a.pos })
  | .kill n, a =>
    some (.of { objs := mapVals (fun v => if v = .guarded n then .dirty else v) a.objs,
                pos := a.pos.filter (fun m => m != n) })
  | .countedWrite x n, a =>
    let w := a.set x (match a.get x with | .cleared => .cleared | _ => .dirty)
    let b : AS := { objs := mapDirty n w.objs, pos := n :: a.pos }
    some (.of (a.join b))
  | .handout x, a => if a.get x = .cleared then some (.of a) else none
  | .ret xs v, a =>
    if xs.all (fun x => leV (a.get x) .ok) then
      some (match v with
            | .tt => ⟨none, some a, none, none⟩
            | .ff => ⟨none, none, some a, none⟩
            | .unk => ⟨none, none, none, some a⟩)
    else none
  | .call b t e, a =>
    match step b a with
    | none => none
    | some R =>
      match contO (joinB R.rt (joinB R.ru R.norm)) (step t),
            contO (joinB R.rf (joinB R.ru R.norm)) (step e) with
      | some R1, some R2 => some (R1.join R2)
      | _, _ => none
  | .seq s t, a =>
    match step s a with
    | none => none
    | some R =>
      match R.norm with
      | none => some R
      | some b =>
        match step t b with
        | none => none
        | some R2 => some ⟨R2.norm, joinB R.rt R2.rt, joinB R.rf R2.rf, joinB R.ru R2.ru⟩
  | .ite (.nz n) t e, a =>
    match step t { a with pos := n :: a.pos },
          step e { objs := mapVals (fun v => if v = .guarded n then .ok else v) a.objs, pos := a.pos } with
    | some R1, some R2 => some (R1.join R2)
    | _, _ => none
  | .ite .other t e, a =>
    match step t a, step e a with
    | some R1, some R2 => some (R1.join R2)
    | _, _ => none
  | .loop b, a =>
    let f : AS → AS := fun i =>
      match step b i with
      | some R => (match R.norm with | some r => a.join (i.join r) | none => a.join i)
      | none => AS.top
    let c := iterN f 3 a
    match step b c with
    | some R =>
      if a.le c && leO R.norm c then some ⟨some c, R.rt, R.rf, R.ru⟩ else
        (match step b AS.top with
         | some R' => some ⟨some AS.top, R'.rt, R'.rf, R'.ru⟩
         | none => none)
    | none => none

/-- entry state of a member function: `this` (and nothing else) satisfies the invariant;
    a constructor starts from an empty signature -/
structure Method where
  cls : String
  name : String
  kind : String            -- "method" | "ctor" | "friend"
  access : String          -- "public" | "protected" | "private"
  body : Stm
deriving Repr, Inhabited

def Method.init (m : Method) : AS :=
  if m.kind = "ctor" then ⟨[("this", .cleared)], []⟩
  else if m.kind = "friend" then ⟨[], []⟩
  else ⟨[("this", .ok)], []⟩

def safe (m : Method) : Bool := (step m.body m.init).isSome

/-- does the skeleton modify the content of the object it is called on / hand it out? -/
def touches : Stm → Bool
  | .write _ | .countedWrite _ _ | .handout _ => true
  | .seq a b => touches a || touches b
  | .call b t e => touches b || touches t || touches e
  | .ite _ t e => touches t || touches e
  | .loop b => touches b
  | _ => false

end Vita.C03.Eff
