/-
  C03 — soundness of the abstract interpreter `Eff.step` with respect to `Eff.Exec`.
-/
import Vita.C03.Eff

namespace Vita.C03.Eff

def satV (h : Nat → Nat) (v : AV) (o : Obj) (ctr : String → Nat) : Prop :=
  match v with
  | .cleared => o.sig = none
  | .ok => o.inv h
  | .guarded n => ctr n = 0 → o.inv h
  | .dirty => True

def Sat (h : Nat → Nat) (a : AS) (σ : St) : Prop :=
  (∀ x, satV h (a.get x) (σ.obj x) σ.ctr) ∧ (∀ n ∈ a.pos, σ.ctr n ≠ 0)

theorem inv_of_none {h : Nat → Nat} {o : Obj} (e : o.sig = none) : o.inv h := Or.inl e

theorem leV_sound {h u v o c} (l : leV u v = true) (s : satV h u o c) : satV h v o c := by
  cases u <;> cases v <;> simp [leV, satV] at * <;> try (first | exact s | exact inv_of_none s | exact fun _ => inv_of_none s | exact fun _ => s)
  · subst l; exact s

theorem leV_refl (v : AV) : leV v v = true := by cases v <;> simp [leV]

theorem joinV_sound_l {h u v o c} (s : satV h u o c) : satV h (joinV u v) o c := by
  unfold joinV
  split
  · next l => exact leV_sound l s
  · split
    · exact s
    · trivial

theorem joinV_sound_r {h u v o c} (s : satV h v o c) : satV h (joinV u v) o c := by
  unfold joinV
  split
  · exact s
  · split
    · next l => exact leV_sound l s
    · trivial

theorem get_set (a : AS) (x y : String) (v : AV) :
    (a.set x v).get y = if y = x then v else a.get y := by
  unfold AS.get AS.set
  simp only [List.lookup_cons]
  by_cases e : y = x
  · simp [e]
  · have : (y == x) = false := by simpa using e
    simp [this, e]

theorem lookup_mapVals (f : AV → AV) (l : List (String × AV)) (x : String) :
    (mapVals f l).lookup x = (l.lookup x).map f := by
  induction l with
  | nil => rfl
  | cons kv t ih =>
    obtain ⟨k, v⟩ := kv
    unfold mapVals at *
    simp only [List.map_cons, List.lookup_cons]
    cases (x == k) <;> simp [ih]

theorem get_mapVals (f : AV → AV) (a : AS) (p : List String) (x : String) :
    (AS.mk (mapVals f a.objs) p).get x = match a.objs.lookup x with | some v => f v | none => .dirty := by
  unfold AS.get
  simp only [lookup_mapVals]
  cases a.objs.lookup x <;> rfl

theorem lookup_join (a b : AS) (x : String) :
    (a.join b).objs.lookup x = (a.objs.lookup x).map (fun _ => joinV (a.get x) (b.get x)) := by
  unfold AS.join
  simp only
  generalize a.objs = l
  induction l with
  | nil => rfl
  | cons kv t ih =>
    obtain ⟨k, v⟩ := kv
    simp only [List.map_cons, List.lookup_cons]
    cases e : (x == k)
    · simp [ih]
    · have : x = k := by simpa using e
      simp [this]

theorem mem_of_lookup {l : List (String × AV)} {x : String} {v : AV}
    (e : l.lookup x = some v) : (x, v) ∈ l := by
  induction l with
  | nil => simp at e
  | cons kv t ih =>
    obtain ⟨k, w⟩ := kv
    simp only [List.lookup_cons] at e
    cases e2 : (x == k) <;> simp [e2] at e
    · exact List.mem_cons_of_mem _ (ih e)
    · have : x = k := by simpa using e2
      subst e; rw [this]; exact List.mem_cons_self ..

theorem le_sound {h} {a b : AS} {σ} (l : a.le b = true) (s : Sat h a σ) : Sat h b σ := by
  unfold AS.le at l
  simp only [Bool.and_eq_true, List.all_eq_true] at l
  refine ⟨fun x => ?_, fun n hn => ?_⟩
  · cases e : b.objs.lookup x with
    | none => simp [AS.get, e, satV]
    | some v =>
      have hm : (x, v) ∈ b.objs := mem_of_lookup e
      exact leV_sound (l.1 (x, v) hm) (s.1 x)
  · have := l.2 n hn
    exact s.2 n (by simpa using this)

theorem join_sound_l {h} {a b : AS} {σ} (s : Sat h a σ) : Sat h (a.join b) σ := by
  refine ⟨fun x => ?_, fun n hn => ?_⟩
  · unfold AS.get
    rw [lookup_join]
    cases a.objs.lookup x with
    | none => simp [satV]
    | some v => simp only [Option.map_some, Option.getD_some]; exact joinV_sound_l (s.1 x)
  · unfold AS.join at hn
    simp only [List.mem_filter] at hn
    exact s.2 n hn.1

theorem join_sound_r {h} {a b : AS} {σ} (s : Sat h b σ) : Sat h (a.join b) σ := by
  refine ⟨fun x => ?_, fun n hn => ?_⟩
  · unfold AS.get
    rw [lookup_join]
    cases a.objs.lookup x with
    | none => simp [satV]
    | some v => simp only [Option.map_some, Option.getD_some]; exact joinV_sound_r (s.1 x)
  · unfold AS.join at hn
    simp only [List.mem_filter] at hn
    exact s.2 n (by simpa using hn.2)

theorem weak_sound {h a σ} (s : Sat h a σ) (o : Obj) : satV h (weak a) o σ.ctr := by
  unfold weak
  cases e : a.pos with
  | nil => trivial
  | cons n t =>
    have := s.2 n (by simp [e])
    simp only [satV]
    intro z; exact absurd z this

theorem sat_top (h σ) : Sat h AS.top σ := ⟨fun _ => by simp [AS.top, AS.get, satV], fun _ hn => by simp [AS.top] at hn⟩

/-- setting one object, counters untouched -/
theorem sat_setObj {h a σ x v o} (s : Sat h a σ) (hv : satV h v o σ.ctr) :
    Sat h (a.set x v) (σ.setObj x o) := by
  refine ⟨fun y => ?_, fun n hn => s.2 n hn⟩
  rw [get_set]
  unfold St.setObj
  by_cases e : y = x
  · simp [e]; exact hv
  · simp [e]; exact s.1 y

theorem satV_ctr_congr {h v o c c'} (e : ∀ n, c n = 0 ↔ c' n = 0) (s : satV h v o c) : satV h v o c' := by
  cases v <;> simp only [satV] at * <;> try exact s
  intro z; exact s ((e _).2 z)

/-- after `n` became positive: everything unknown may be called `guarded n` -/
theorem sat_incr {h a σ n k} (s : Sat h a σ) :
    Sat h ⟨mapVals (fun v => match v with | .dirty => .guarded n | v => v) a.objs, n :: a.pos⟩
      (σ.setCtr n (σ.ctr n + k + 1)) := by
  refine ⟨fun x => ?_, fun m hm => ?_⟩
  · rw [get_mapVals]
    have sx := s.1 x
    unfold AS.get at sx
    cases e : a.objs.lookup x with
    | none => trivial
    | some v =>
      simp only [e, Option.getD_some] at sx
      cases v with
      | dirty => simp only [satV, St.setCtr]; simp
      | cleared => exact sx
      | ok => exact sx
      | guarded m =>
        simp only [satV, St.setCtr] at *
        by_cases em : m = n
        · simp [em]
        · simp [em]; exact sx
  · simp only [St.setCtr]
    simp only [List.mem_cons] at hm
    by_cases em : m = n
    · simp [em]
    · simp [em]
      rcases hm with hm | hm
      · exact absurd hm em
      · exact s.2 m hm

theorem step_sound (h : Nat → Nat) :
    ∀ (s : Stm) (a a' : AS), step s a = some a' →
      ∀ σ r, Sat h a σ → Exec h s σ r → ∃ σ', r = .ok σ' ∧ Sat h a' σ' := by
  intro s
  induction s with
  | skip =>
    intro a a' hs σ r sa ex
    cases ex; simp only [step, Option.some.injEq] at hs; subst hs; exact ⟨_, rfl, sa⟩
  | write x =>
    intro a a' hs σ r sa ex
    cases ex with
    | write _ _ c =>
      simp only [step, Option.some.injEq] at hs; subst hs
      refine ⟨_, rfl, sat_setObj sa ?_⟩
      have sx := sa.1 x
      cases e : a.get x with
      | cleared => simp only [e, satV] at *; exact sx
      | ok => exact weak_sound sa _
      | guarded _ => exact weak_sound sa _
      | dirty => exact weak_sound sa _
  | reset x k =>
    intro a a' hs σ r sa ex
    cases ex with
    | resetNone => simp only [step, Option.some.injEq] at hs; subst hs; exact ⟨_, rfl, sa⟩
    | resetClear =>
      simp only [step, Option.some.injEq] at hs; subst hs
      exact ⟨_, rfl, sat_setObj sa (by simp [satV])⟩
    | resetRecompute =>
      simp only [step, Option.some.injEq] at hs; subst hs
      exact ⟨_, rfl, sat_setObj sa (by simp [satV, Obj.inv])⟩
  | sigOther x =>
    intro a a' hs σ r sa ex
    cases ex
    simp only [step, Option.some.injEq] at hs; subst hs
    exact ⟨_, rfl, sat_setObj sa (weak_sound sa _)⟩
  | sigCall x =>
    intro a a' hs σ r sa ex
    simp only [step, Option.some.injEq] at hs; subst hs
    have sx := sa.1 x
    cases ex with
    | sigCallFill _ _ hn =>
      refine ⟨_, rfl, sat_setObj sa ?_⟩
      cases e : a.get x <;> simp [satV, Obj.inv]
    | sigCallKeep =>
      refine ⟨σ, rfl, ?_⟩
      have : σ = σ.setObj x (σ.obj x) := by
        cases σ; simp only [St.setObj, St.mk.injEq, and_true]; funext y; by_cases e : y = x <;> simp [e]
      rw [this]
      refine sat_setObj sa ?_
      cases e : a.get x with
      | cleared => simp only [e, satV] at *; exact inv_of_none sx
      | ok => simp only [e] at sx; exact sx
      | guarded n => simp only [e] at sx; exact sx
      | dirty => trivial
  | fresh x =>
    intro a a' hs σ r sa ex
    cases ex with
    | fresh _ _ o ho =>
      simp only [step, Option.some.injEq] at hs; subst hs
      exact ⟨_, rfl, sat_setObj sa ho⟩
  | copy x y =>
    intro a a' hs σ r sa ex
    cases ex
    simp only [step, Option.some.injEq] at hs; subst hs
    exact ⟨_, rfl, sat_setObj sa (sa.1 y)⟩
  | incr n =>
    intro a a' hs σ r sa ex
    cases ex with
    | incr _ _ k =>
      simp only [step, Option.some.injEq] at hs; subst hs
      exact ⟨_, rfl, sat_incr sa⟩
  | kill n =>
    intro a a' hs σ r sa ex
    cases ex with
    | kill _ _ v =>
      simp only [step, Option.some.injEq] at hs; subst hs
      refine ⟨_, rfl, fun x => ?_, fun m hm => ?_⟩
      · rw [get_mapVals]
        have sx := sa.1 x
        unfold AS.get at sx
        cases e : a.objs.lookup x with
        | none => trivial
        | some w =>
          simp only [e, Option.getD_some] at sx
          simp only
          split
          · trivial
          · next hne =>
            cases w with
            | guarded m =>
              have : m ≠ n := fun e => hne (by rw [e])
              simp only [satV, St.setCtr, this, if_false] at *; exact sx
            | cleared => exact sx
            | ok => exact sx
            | dirty => trivial
      · simp only [List.mem_filter, bne_iff_ne, ne_eq] at hm
        simp only [St.setCtr, hm.2, if_false]
        exact sa.2 m hm.1
  | countedWrite x n =>
    intro a a' hs σ r sa ex
    simp only [step, Option.some.injEq] at hs; subst hs
    cases ex with
    | countedNone => exact ⟨_, rfl, join_sound_l sa⟩
    | countedSome _ _ _ c k =>
      refine ⟨_, rfl, join_sound_r ?_⟩
      have s1 : Sat h (a.set x (match a.get x with | .cleared => .cleared | _ => .dirty))
          (σ.setObj x { σ.obj x with content := c }) := by
        refine sat_setObj sa ?_
        have sx := sa.1 x
        cases e2 : a.get x <;> simp only [e2, satV] at * <;> first | trivial | exact sx
      exact sat_incr (n := n) (k := k) s1
  | handout x =>
    intro a a' hs σ r sa ex
    simp only [step] at hs
    split at hs
    · next hc =>
      simp only [Option.some.injEq] at hs; subst hs
      have sx := sa.1 x
      simp only [hc, satV] at sx
      cases ex with
      | handoutOk => exact ⟨_, rfl, sa⟩
      | handoutFail _ _ hne => exact absurd sx hne
    · simp at hs
  | ret xs =>
    intro a a' hs σ r sa ex
    simp only [step] at hs
    split at hs
    · next hc =>
      simp only [Option.some.injEq] at hs; subst hs
      cases ex with
      | retOk => exact ⟨_, rfl, sa⟩
      | retFail _ _ hne =>
        exfalso; apply hne
        intro x hx
        simp only [List.all_eq_true] at hc
        exact leV_sound (v := .ok) (hc x hx) (sa.1 x)
    · simp at hs
  | seq s t ihs iht =>
    intro a a' hs σ r sa ex
    simp only [step] at hs
    cases e : step s a with
    | none => simp [e] at hs
    | some b =>
      simp only [e] at hs
      cases ex with
      | seqFail _ _ _ ef =>
        obtain ⟨_, h1, _⟩ := ihs a b e σ _ sa ef
        cases h1
      | seqOk _ _ _ σ' _ e1 e2 =>
        obtain ⟨σ2, h1, s1⟩ := ihs a b e σ _ sa e1
        cases h1
        exact iht b a' hs _ r s1 e2
  | ite g t e iht ihe =>
    intro a a' hs σ r sa ex
    cases g with
    | other =>
      simp only [step] at hs
      cases e1 : step t a with
      | none => simp [e1, joinO] at hs
      | some b1 =>
        cases e2 : step e a with
        | none => simp [e1, e2, joinO] at hs
        | some b2 =>
          simp only [e1, e2, joinO, Option.some.injEq] at hs; subst hs
          cases ex with
          | iteT _ _ _ _ et =>
            obtain ⟨σ', h1, s1⟩ := iht a b1 e1 σ r sa et
            exact ⟨σ', h1, join_sound_l s1⟩
          | iteE _ _ _ _ ee =>
            obtain ⟨σ', h1, s1⟩ := ihe a b2 e2 σ r sa ee
            exact ⟨σ', h1, join_sound_r s1⟩
    | nz n =>
      simp only [step] at hs
      cases e1 : step t { a with pos := n :: a.pos } with
      | none => simp [e1, joinO] at hs
      | some b1 =>
        cases e2 : step e ⟨mapVals (fun v => if v = .guarded n then .ok else v) a.objs, a.pos⟩ with
        | none => simp [e1, e2, joinO] at hs
        | some b2 =>
          simp only [e1, e2, joinO, Option.some.injEq] at hs; subst hs
          cases ex with
          | iteNzT _ _ _ _ _ hn et =>
            have st : Sat h { a with pos := n :: a.pos } σ := by
              refine ⟨sa.1, fun m hm => ?_⟩
              simp only [List.mem_cons] at hm
              rcases hm with hm | hm
              · subst hm; exact hn
              · exact sa.2 m hm
            obtain ⟨σ', h1, s1⟩ := iht _ b1 e1 σ r st et
            exact ⟨σ', h1, join_sound_l s1⟩
          | iteNzE _ _ _ _ _ hz ee =>
            have se : Sat h ⟨mapVals (fun v => if v = .guarded n then .ok else v) a.objs, a.pos⟩ σ := by
              refine ⟨fun x => ?_, sa.2⟩
              rw [get_mapVals]
              have sx := sa.1 x
              unfold AS.get at sx
              cases e3 : a.objs.lookup x with
              | none => trivial
              | some w =>
                simp only [e3, Option.getD_some] at sx
                simp only
                split
                · next hw => subst hw; simp only [satV] at *; exact sx hz
                · exact sx
            obtain ⟨σ', h1, s1⟩ := ihe _ b2 e2 σ r se ee
            exact ⟨σ', h1, join_sound_r s1⟩
  | loop b ih =>
    intro a a' hs σ r sa ex
    simp only [step] at hs
    -- whichever candidate was returned, it is a post-fixpoint containing `a`
    have key : ∃ rb, step b a' = some rb ∧ rb.le a' = true ∧ Sat h a' σ := by
      generalize hc : iterN (fun i => match step b i with | some r => a.join (i.join r) | none => AS.top) 3 a = c at hs
      cases e : step b c with
      | none => simp [e] at hs
      | some rc =>
        simp only [e] at hs
        split at hs
        · next hle =>
          simp only [Option.some.injEq] at hs; subst hs
          simp only [Bool.and_eq_true] at hle
          exact ⟨rc, e, hle.2, le_sound hle.1 sa⟩
        · cases e2 : step b AS.top with
          | none => simp [e2] at hs
          | some rt =>
            simp only [e2, Option.some.injEq] at hs; subst hs
            refine ⟨rt, e2, ?_, sat_top h σ⟩
            simp [AS.le, AS.top]
    obtain ⟨rb, hb, hle, sinv⟩ := key
    clear hs sa
    generalize hl : Stm.loop b = s at ex
    induction ex with
    | loopDone => exact ⟨_, rfl, sinv⟩
    | loopFail _ _ ef =>
      cases hl
      obtain ⟨_, h1, _⟩ := ih a' rb hb _ _ sinv ef
      cases h1
    | loopStep _ _ σ' _ e1 _ _ ih2 =>
      cases hl
      obtain ⟨σ2, h1, s1⟩ := ih a' rb hb _ _ sinv e1
      cases h1
      exact ih2 (le_sound hle s1) rfl
    | _ => cases hl

/-- What `safe m` buys: from any state in which the object the function is called on respects
    the cache invariant (empty cache for a constructor), NO execution of the skeleton violates
    an assertion — at each `return` every listed object has an empty or up-to-date signature,
    and mutable access is only handed out with the cache cleared. -/
theorem safe_sound (h : Nat → Nat) (m : Method) (hs : safe m = true) (σ : St)
    (hinit : Sat h m.init σ) : ¬ Exec h m.body σ .fail := by
  intro ex
  unfold safe at hs
  cases e : step m.body m.init with
  | none => simp [e] at hs
  | some a' =>
    obtain ⟨_, h1, _⟩ := step_sound h m.body m.init a' e σ _ hinit ex
    cases h1

end Vita.C03.Eff
