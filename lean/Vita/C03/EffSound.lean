/-
  C03 — soundness of the abstract interpreter `Eff.step` with respect to `Eff.Exec`.
-/
import Vita.C03.Eff

namespace Vita.C03.Eff

def satV (h : Nat → Nat) (v : AV) (o : Obj) (ctr : String → Nat) : Prop :=
  match v with
  | .cleared => o.sig = none
  | .ok => o.inv h
  | .guarded n => ctr n = 0 → o.inv h
  | .dirty => True

def Sat (h : Nat → Nat) (a : AS) (σ : St) : Prop :=
  (∀ x, satV h (a.get x) (σ.obj x) σ.ctr) ∧ (∀ n ∈ a.pos, σ.ctr n ≠ 0)

theorem inv_of_none {h : Nat → Nat} {o : Obj} (e : o.sig = none) : o.inv h := Or.inl e

theorem leV_sound {h u v o c} (l : leV u v = true) (s : satV h u o c) : satV h v o c := by
  cases u <;> cases v <;> simp [leV, satV] at * <;> try (first | exact s | exact inv_of_none s | exact fun _ => inv_of_none s | exact fun _ => s)
  · subst l; exact s

theorem leV_refl (v : AV) : leV v v = true := by cases v <;> simp [leV]

theorem joinV_sound_l {h u v o c} (s : satV h u o c) : satV h (joinV u v) o c := by
  unfold joinV
  split
  · next l => exact leV_sound l s
  · split
    · exact s
    · trivial

theorem joinV_sound_r {h u v o c} (s : satV h v o c) : satV h (joinV u v) o c := by
  unfold joinV
  split
  · exact s
  · split
    · next l => exact leV_sound l s
    · trivial

theorem get_set (a : AS) (x y : String) (v : AV) :
    (a.set x v).get y = if y = x then v else a.get y := by
  unfold AS.get AS.set
  simp only [List.lookup_cons]
  by_cases e : y = x
  · simp [e]
  · have : (y == x) = false := by simpa using e
    simp [this, e]

theorem lookup_mapVals (f : AV → AV) (l : List (String × AV)) (x : String) :
    (mapVals f l).lookup x = (l.lookup x).map f := by
  induction l with
  | nil => rfl
  | cons kv t ih =>
    obtain ⟨k, v⟩ := kv
    unfold mapVals at *
    simp only [List.map_cons, List.lookup_cons]
    cases (x == k) <;> simp [ih]

theorem get_mapVals (f : AV → AV) (a : AS) (p : List String) (x : String) :
    (AS.mk (mapVals f a.objs) p).get x = match a.objs.lookup x with | some v => f v | none => .dirty := by
  unfold AS.get
  simp only [lookup_mapVals]
  cases a.objs.lookup x <;> rfl

theorem lookup_join (a b : AS) (x : String) :
    (a.join b).objs.lookup x = (a.objs.lookup x).map (fun _ => joinV (a.get x) (b.get x)) := by
  unfold AS.join
  simp only
  generalize a.objs = l
  induction l with
  | nil => rfl
  | cons kv t ih =>
    obtain ⟨k, v⟩ := kv
    simp only [List.map_cons, List.lookup_cons]
    cases e : (x == k)
    · simp [ih]
    · have : x = k := by simpa using e
      simp [this]

theorem mem_of_lookup {l : List (String × AV)} {x : String} {v : AV}
    (e : l.lookup x = some v) : (x, v) ∈ l := by
  induction l with
  | nil => simp at e
  | cons kv t ih =>
    obtain ⟨k, w⟩ := kv
    simp only [List.lookup_cons] at e
    cases e2 : (x == k) <;> simp [e2] at e
    · exact List.mem_cons_of_mem _ (ih e)
    · have : x = k := by simpa using e2
      subst e; rw [this]; exact List.mem_cons_self ..

theorem le_sound {h} {a b : AS} {σ} (l : a.le b = true) (s : Sat h a σ) : Sat h b σ := by
  unfold AS.le at l
  simp only [Bool.and_eq_true, List.all_eq_true] at l
  refine ⟨fun x => ?_, fun n hn => ?_⟩
  · cases e : b.objs.lookup x with
    | none => simp [AS.get, e, satV]
    | some v =>
      have hm : (x, v) ∈ b.objs := mem_of_lookup e
      exact leV_sound (l.1 (x, v) hm) (s.1 x)
  · have := l.2 n hn
    exact s.2 n (by simpa using this)

theorem join_sound_l {h} {a b : AS} {σ} (s : Sat h a σ) : Sat h (a.join b) σ := by
  refine ⟨fun x => ?_, fun n hn => ?_⟩
  · unfold AS.get
    rw [lookup_join]
    cases a.objs.lookup x with
    | none => simp [satV]
    | some v => simp only [Option.map_some, Option.getD_some]; exact joinV_sound_l (s.1 x)
  · unfold AS.join at hn
    simp only [List.mem_filter] at hn
    exact s.2 n hn.1

theorem join_sound_r {h} {a b : AS} {σ} (s : Sat h b σ) : Sat h (a.join b) σ := by
  refine ⟨fun x => ?_, fun n hn => ?_⟩
  · unfold AS.get
    rw [lookup_join]
    cases a.objs.lookup x with
    | none => simp [satV]
    | some v => simp only [Option.map_some, Option.getD_some]; exact joinV_sound_r (s.1 x)
  · unfold AS.join at hn
    simp only [List.mem_filter] at hn
    exact s.2 n (by simpa using hn.2)

theorem weak_sound {h a σ} (s : Sat h a σ) (o : Obj) : satV h (weak a) o σ.ctr := by
  unfold weak
  cases e : a.pos with
  | nil => trivial
  | cons n t =>
    have := s.2 n (by simp [e])
    simp only [satV]
    intro z; exact absurd z this

theorem sat_top (h σ) : Sat h AS.top σ := ⟨fun _ => by simp [AS.top, AS.get, satV], fun _ hn => by simp [AS.top] at hn⟩

/-- setting one object, counters untouched -/
theorem sat_setObj {h a σ x v o} (s : Sat h a σ) (hv : satV h v o σ.ctr) :
    Sat h (a.set x v) (σ.setObj x o) := by
  refine ⟨fun y => ?_, fun n hn => s.2 n hn⟩
  rw [get_set]
  unfold St.setObj
  by_cases e : y = x
  · simp [e]; exact hv
  · simp [e]; exact s.1 y

theorem satV_ctr_congr {h v o c c'} (e : ∀ n, c n = 0 ↔ c' n = 0) (s : satV h v o c) : satV h v o c' := by
  cases v <;> simp only [satV] at * <;> try exact s
  intro z; exact s ((e _).2 z)

/-- after `n` became positive: everything unknown may be called `guarded n` -/
theorem sat_incr {h a σ n k} (s : Sat h a σ) :
    Sat h ⟨mapVals (fun v => match v with | .dirty => .guarded n | v => v) a.objs, n :: a.pos⟩
      (σ.setCtr n (σ.ctr n + k + 1)) := by
  refine ⟨fun x => ?_, fun m hm => ?_⟩
  · rw [get_mapVals]
    have sx := s.1 x
    unfold AS.get at sx
    cases e : a.objs.lookup x with
    | none => trivial
    | some v =>
      simp only [e, Option.getD_some] at sx
      cases v with
      | dirty => simp only [satV, St.setCtr]; simp
      | cleared => exact sx
      | ok => exact sx
      | guarded m =>
        simp only [satV, St.setCtr] at *
        by_cases em : m = n
        · simp [em]
        · simp [em]; exact sx
  · simp only [St.setCtr]
    simp only [List.mem_cons] at hm
    by_cases em : m = n
    · simp [em]
    · simp [em]
      rcases hm with hm | hm
      · exact absurd hm em
      · exact s.2 m hm

def SatO (h : Nat → Nat) (o : Option AS) (σ : St) : Prop := ∃ a, o = some a ∧ Sat h a σ

/-- what the abstract result promises about a concrete outcome -/
def Good (h : Nat → Nat) (R : AR) : Res → Prop
  | .ok σ => SatO h R.norm σ
  | .ret σ .tt => SatO h R.rt σ
  | .ret σ .ff => SatO h R.rf σ
  | .ret σ .unk => SatO h R.ru σ
  | .fail => False

theorem joinB_sound_l {h} {x y : Option AS} {σ} (s : SatO h x σ) : SatO h (joinB x y) σ := by
  obtain ⟨a, rfl, sa⟩ := s
  cases y with
  | none => exact ⟨a, rfl, sa⟩
  | some b => exact ⟨_, rfl, join_sound_l sa⟩

theorem joinB_sound_r {h} {x y : Option AS} {σ} (s : SatO h y σ) : SatO h (joinB x y) σ := by
  obtain ⟨b, rfl, sb⟩ := s
  cases x with
  | none => exact ⟨b, rfl, sb⟩
  | some a => exact ⟨_, rfl, join_sound_r sb⟩

theorem good_join_l {h} {R1 R2 : AR} {r} (g : Good h R1 r) : Good h (R1.join R2) r := by
  cases r with
  | ok σ => exact joinB_sound_l g
  | ret σ v => cases v <;> exact joinB_sound_l g
  | fail => exact g

theorem good_join_r {h} {R1 R2 : AR} {r} (g : Good h R2 r) : Good h (R1.join R2) r := by
  cases r with
  | ok σ => exact joinB_sound_r g
  | ret σ v => cases v <;> exact joinB_sound_r g
  | fail => exact g

theorem good_of {h} {a : AS} {σ} (s : Sat h a σ) : Good h (.of a) (.ok σ) := ⟨a, rfl, s⟩

theorem good_bot_false {h r} (g : Good h AR.bot r) : False := by
  cases r with
  | ok σ => obtain ⟨_, e, _⟩ := g; cases e
  | ret σ v => cases v <;> (obtain ⟨_, e, _⟩ := g; cases e)
  | fail => exact g

theorem leO_sound {h} {o : Option AS} {c : AS} {σ} (l : leO o c = true) (s : SatO h o σ) : Sat h c σ := by
  obtain ⟨a, rfl, sa⟩ := s
  exact le_sound l sa

/-- continuation of an inlined call: from a state satisfying `o`, running `t` is covered by
    the abstract result computed for `t` -/
theorem cont_sound {h} {t : Stm} {o : Option AS} {Rt : AR} {σ r}
    (ih : ∀ (a : AS) (R : AR), step t a = some R → ∀ σ r, Sat h a σ → Exec h t σ r → Good h R r)
    (hs : contO o (step t) = some Rt)
    (so : SatO h o σ) (ex : Exec h t σ r) : Good h Rt r := by
  obtain ⟨a, rfl, sa⟩ := so
  exact ih a Rt hs σ r sa ex

theorem step_sound (h : Nat → Nat) :
    ∀ (s : Stm) (a : AS) (R : AR), step s a = some R →
      ∀ σ r, Sat h a σ → Exec h s σ r → Good h R r := by
  intro s
  induction s with
  | skip =>
    intro a R hs σ r sa ex
    cases ex; simp only [step, Option.some.injEq] at hs; subst hs; exact good_of sa
  | write x =>
    intro a R hs σ r sa ex
    cases ex with
    | write _ _ c =>
      simp only [step, Option.some.injEq] at hs; subst hs
      refine good_of (sat_setObj sa ?_)
      have sx := sa.1 x
      cases e : a.get x with
      | cleared => simp only [e, satV] at *; exact sx
      | ok => exact weak_sound sa _
      | guarded _ => exact weak_sound sa _
      | dirty => exact weak_sound sa _
  | reset x k =>
    intro a R hs σ r sa ex
    cases ex with
    | resetNone => simp only [step, Option.some.injEq] at hs; subst hs; exact good_of sa
    | resetClear =>
      simp only [step, Option.some.injEq] at hs; subst hs
      exact good_of (sat_setObj sa (by simp [satV]))
    | resetRecompute =>
      simp only [step, Option.some.injEq] at hs; subst hs
      exact good_of (sat_setObj sa (by simp [satV, Obj.inv]))
  | sigOther x =>
    intro a R hs σ r sa ex
    cases ex
    simp only [step, Option.some.injEq] at hs; subst hs
    exact good_of (sat_setObj sa (weak_sound sa _))
  | sigCall x =>
    intro a R hs σ r sa ex
    simp only [step, Option.some.injEq] at hs; subst hs
    have sx := sa.1 x
    cases ex with
    | sigCallFill _ _ hn =>
      refine good_of (sat_setObj sa ?_)
      cases e : a.get x <;> simp [satV, Obj.inv]
    | sigCallKeep =>
      have : σ = σ.setObj x (σ.obj x) := by
        cases σ; simp only [St.setObj, St.mk.injEq, and_true]; funext y; by_cases e : y = x <;> simp [e]
      rw [this]
      refine good_of (sat_setObj sa ?_)
      cases e : a.get x with
      | cleared => simp only [e, satV] at *; exact inv_of_none sx
      | ok => simp only [e] at sx; exact sx
      | guarded n => simp only [e] at sx; exact sx
      | dirty => trivial
  | fresh x =>
    intro a R hs σ r sa ex
    cases ex with
    | fresh _ _ o ho =>
      simp only [step, Option.some.injEq] at hs; subst hs
      exact good_of (sat_setObj sa ho)
  | construct x =>
    intro a R hs σ r sa ex
    cases ex with
    | construct _ _ o ho =>
      simp only [step, Option.some.injEq] at hs; subst hs
      exact good_of (sat_setObj sa ho)
  | retc xs =>
    intro a R hs σ r sa ex
    simp only [step] at hs
    split at hs
    · next hc =>
      simp only [Option.some.injEq] at hs; subst hs
      cases ex with
      | retcOk => exact ⟨a, rfl, sa⟩
      | retcFail _ _ hne =>
        exfalso; apply hne
        intro x hx
        simp only [List.all_eq_true, beq_iff_eq] at hc
        have sx := sa.1 x
        simp only [hc x hx, satV] at sx
        exact sx
    · simp at hs
  | copy x y =>
    intro a R hs σ r sa ex
    cases ex
    simp only [step, Option.some.injEq] at hs; subst hs
    exact good_of (sat_setObj sa (sa.1 y))
  | incr n =>
    intro a R hs σ r sa ex
    cases ex with
    | incr _ _ k =>
      simp only [step, Option.some.injEq] at hs; subst hs
      exact good_of (sat_incr sa)
  | kill n =>
    intro a R hs σ r sa ex
    cases ex with
    | kill _ _ v =>
      simp only [step, Option.some.injEq] at hs; subst hs
      refine good_of ⟨fun x => ?_, fun m hm => ?_⟩
      · rw [get_mapVals]
        have sx := sa.1 x
        unfold AS.get at sx
        cases e : a.objs.lookup x with
        | none => trivial
        | some w =>
          simp only [e, Option.getD_some] at sx
          simp only
          split
          · trivial
          · next hne =>
            cases w with
            | guarded m =>
              have : m ≠ n := fun e => hne (by rw [e])
              simp only [satV, St.setCtr, this, if_false] at *; exact sx
            | cleared => exact sx
            | ok => exact sx
            | dirty => trivial
      · simp only [List.mem_filter, bne_iff_ne, ne_eq] at hm
        simp only [St.setCtr, hm.2, if_false]
        exact sa.2 m hm.1
  | countedWrite x n =>
    intro a R hs σ r sa ex
    simp only [step, Option.some.injEq] at hs; subst hs
    cases ex with
    | countedNone => exact good_of (join_sound_l sa)
    | countedSome _ _ _ c k =>
      refine good_of (join_sound_r ?_)
      have s1 : Sat h (a.set x (match a.get x with | .cleared => .cleared | _ => .dirty))
          (σ.setObj x { σ.obj x with content := c }) := by
        refine sat_setObj sa ?_
        have sx := sa.1 x
        cases e2 : a.get x <;> simp only [e2, satV] at * <;> first | trivial | exact sx
      exact sat_incr (n := n) (k := k) s1
  | handout x =>
    intro a R hs σ r sa ex
    simp only [step] at hs
    split at hs
    · next hc =>
      simp only [Option.some.injEq] at hs; subst hs
      have sx := sa.1 x
      simp only [hc, satV] at sx
      cases ex with
      | handoutOk => exact good_of sa
      | handoutFail _ _ hne => exact absurd sx hne
    · simp at hs
  | ret xs v =>
    intro a R hs σ r sa ex
    simp only [step] at hs
    split at hs
    · next hc =>
      simp only [Option.some.injEq] at hs; subst hs
      cases ex with
      | retOk => cases v <;> exact ⟨a, rfl, sa⟩
      | retFail _ _ _ hne =>
        exfalso; apply hne
        intro x hx
        simp only [List.all_eq_true] at hc
        exact leV_sound (v := .ok) (hc x hx) (sa.1 x)
    · simp at hs
  | call b t e ihb iht ihe =>
    intro a R hs σ r sa ex
    simp only [step] at hs
    cases eb : step b a with
    | none => simp [eb] at hs
    | some Rb =>
      simp only [eb] at hs
      cases et : contO (joinB Rb.rt (joinB Rb.ru Rb.norm)) (step t) with
      | none => simp [et] at hs
      | some R1 =>
        cases ee : contO (joinB Rb.rf (joinB Rb.ru Rb.norm)) (step e) with
        | none => simp [et, ee] at hs
        | some R2 =>
          simp only [et, ee, Option.some.injEq] at hs; subst hs
          cases ex with
          | callFail _ _ _ _ ef => exact (ihb a Rb eb σ _ sa ef).elim
          | callOkT _ _ _ _ σ' _ e1 e2 =>
            have g := ihb a Rb eb σ _ sa e1
            exact good_join_l (cont_sound iht et (joinB_sound_r (joinB_sound_r g)) e2)
          | callOkE _ _ _ _ σ' _ e1 e2 =>
            have g := ihb a Rb eb σ _ sa e1
            exact good_join_r (cont_sound ihe ee (joinB_sound_r (joinB_sound_r g)) e2)
          | callRetT _ _ _ _ σ' _ e1 e2 =>
            have g := ihb a Rb eb σ _ sa e1
            exact good_join_l (cont_sound iht et (joinB_sound_l g) e2)
          | callRetF _ _ _ _ σ' _ e1 e2 =>
            have g := ihb a Rb eb σ _ sa e1
            exact good_join_r (cont_sound ihe ee (joinB_sound_l g) e2)
          | callRetUT _ _ _ _ σ' _ e1 e2 =>
            have g := ihb a Rb eb σ _ sa e1
            exact good_join_l (cont_sound iht et (joinB_sound_r (joinB_sound_l g)) e2)
          | callRetUE _ _ _ _ σ' _ e1 e2 =>
            have g := ihb a Rb eb σ _ sa e1
            exact good_join_r (cont_sound ihe ee (joinB_sound_r (joinB_sound_l g)) e2)
  | seq s t ihs iht =>
    intro a R hs σ r sa ex
    simp only [step] at hs
    cases e : step s a with
    | none => simp [e] at hs
    | some R1 =>
      simp only [e] at hs
      cases ex with
      | seqFail _ _ _ ef => exact (ihs a R1 e σ _ sa ef).elim
      | seqRet _ _ _ σ' v e1 =>
        have g := ihs a R1 e σ _ sa e1
        cases en : R1.norm with
        | none => simp only [en, Option.some.injEq] at hs; subst hs; exact g
        | some b =>
          simp only [en] at hs
          cases e2 : step t b with
          | none => simp [e2] at hs
          | some R2 =>
            simp only [e2, Option.some.injEq] at hs; subst hs
            cases v <;> exact joinB_sound_l g
      | seqOk _ _ _ σ' _ e1 e2 =>
        have g := ihs a R1 e σ _ sa e1
        obtain ⟨b, hb, sb⟩ := g
        simp only [hb] at hs
        cases e3 : step t b with
        | none => simp [e3] at hs
        | some R2 =>
          simp only [e3, Option.some.injEq] at hs; subst hs
          have g2 := iht b R2 e3 σ' r sb e2
          cases r with
          | ok σ2 => exact g2
          | ret σ2 v => cases v <;> exact joinB_sound_r g2
          | fail => exact g2
  | ite g t e iht ihe =>
    intro a R hs σ r sa ex
    cases g with
    | other =>
      simp only [step] at hs
      cases e1 : step t a with
      | none => simp [e1] at hs
      | some R1 =>
        cases e2 : step e a with
        | none => simp [e1, e2] at hs
        | some R2 =>
          simp only [e1, e2, Option.some.injEq] at hs; subst hs
          cases ex with
          | iteT _ _ _ _ et => exact good_join_l (iht a R1 e1 σ r sa et)
          | iteE _ _ _ _ ee => exact good_join_r (ihe a R2 e2 σ r sa ee)
    | nz n =>
      simp only [step] at hs
      cases e1 : step t { a with pos := n :: a.pos } with
      | none => simp [e1] at hs
      | some R1 =>
        cases e2 : step e ⟨mapVals (fun v => if v = .guarded n then .ok else v) a.objs, a.pos⟩ with
        | none => simp [e1, e2] at hs
        | some R2 =>
          simp only [e1, e2, Option.some.injEq] at hs; subst hs
          cases ex with
          | iteNzT _ _ _ _ _ hn et =>
            have st : Sat h { a with pos := n :: a.pos } σ := by
              refine ⟨sa.1, fun m hm => ?_⟩
              simp only [List.mem_cons] at hm
              rcases hm with hm | hm
              · subst hm; exact hn
              · exact sa.2 m hm
            exact good_join_l (iht _ R1 e1 σ r st et)
          | iteNzE _ _ _ _ _ hz ee =>
            have se : Sat h ⟨mapVals (fun v => if v = .guarded n then .ok else v) a.objs, a.pos⟩ σ := by
              refine ⟨fun x => ?_, sa.2⟩
              rw [get_mapVals]
              have sx := sa.1 x
              unfold AS.get at sx
              cases e3 : a.objs.lookup x with
              | none => trivial
              | some w =>
                simp only [e3, Option.getD_some] at sx
                simp only
                split
                · next hw => subst hw; simp only [satV] at *; exact sx hz
                · exact sx
            exact good_join_r (ihe _ R2 e2 σ r se ee)
  | loop b ih =>
    intro a R hs σ r sa ex
    simp only [step] at hs
    -- whichever candidate was returned, it is a post-fixpoint containing `a`
    have key : ∃ c Rb, step b c = some Rb ∧ leO Rb.norm c = true ∧ Sat h c σ ∧
        R = ⟨some c, Rb.rt, Rb.rf, Rb.ru⟩ := by
      generalize hc : iterN (fun i => match step b i with
        | some R => (match R.norm with | some r => a.join (i.join r) | none => a.join i)
        | none => AS.top) 3 a = c at hs
      cases e : step b c with
      | none => simp [e] at hs
      | some Rc =>
        simp only [e] at hs
        split at hs
        · next hle =>
          simp only [Option.some.injEq] at hs
          simp only [Bool.and_eq_true] at hle
          exact ⟨c, Rc, e, hle.2, le_sound hle.1 sa, hs.symm⟩
        · cases e2 : step b AS.top with
          | none => simp [e2] at hs
          | some Rt =>
            simp only [e2, Option.some.injEq] at hs
            refine ⟨AS.top, Rt, e2, ?_, sat_top h σ, hs.symm⟩
            cases Rt.norm <;> simp [leO, AS.le, AS.top]
    obtain ⟨c, Rb, hb, hle, sinv, hR⟩ := key
    subst hR
    clear hs sa
    generalize hl : Stm.loop b = s at ex
    induction ex with
    | loopDone => exact ⟨c, rfl, sinv⟩
    | loopFail _ _ ef =>
      cases hl
      exact (ih c Rb hb _ _ sinv ef).elim
    | loopRet _ _ σ' v e1 =>
      cases hl
      have g := ih c Rb hb _ _ sinv e1
      cases v <;> exact g
    | loopStep _ _ σ' _ e1 _ _ ih2 =>
      cases hl
      have g := ih c Rb hb _ _ sinv e1
      exact ih2 (leO_sound hle g) rfl
    | _ => cases hl

/-- What `safe m` buys: from any state in which the object the function is called on respects
    the cache invariant (empty cache for a constructor), NO execution of the skeleton violates
    an assertion — at each `return` every object in scope has an empty or up-to-date signature,
    and mutable access is only handed out with the cache cleared. -/
theorem safe_sound (h : Nat → Nat) (m : Method) (hs : safe m = true) (σ : St)
    (hinit : Sat h m.init σ) : ¬ Exec h m.body σ .fail := by
  intro ex
  unfold safe at hs
  cases e : step m.body m.init with
  | none => simp [e] at hs
  | some R => exact step_sound h m.body m.init R e σ _ hinit ex

end Vita.C03.Eff
