-- STUB (will be generated)
import Vita.C03.Eff
namespace Vita.C03.GenMutators
open Vita.C03.Eff
def resets : List (String × String × ResetKind) := [
  ("i_mep", "get_block", .clear), ("i_mep", "replace", .clear), ("i_mep", "destroy_block", .clear),
  ("i_mep", "mutation", .clear), ("i_mep", "crossover", .clear), ("i_mep", "cse", .none),
  ("i_mep", "begin", .none), ("individual", "load", .clear),
  ("i_ga", "operator[]", .clear), ("i_ga", "begin", .none), ("i_ga", "mutation", .recompute),
  ("i_ga", "crossover", .recompute),
  ("i_de", "operator[]", .clear), ("i_de", "begin", .none), ("i_de", "operator=", .none),
  ("i_de", "crossover", .clear), ("team", "mutation", .clear), ("team", "load", .clear)]
def resetOf (cls name : String) : ResetKind :=
  match resets.find? (fun e => e.1 == cls && e.2.1 == name) with
  | some e => e.2.2
  | none => .none
end Vita.C03.GenMutators
