/-
  C03 — helper lemmas: the packed stream is a prefix code; fuel independence of
  pack / unfold / eval on well-formed genomes.
-/
import Vita.C03.Model

namespace Vita.C03

theorem opBytes_inj {a b : Nat} (ha : a < 4294967296) (hb : b < 4294967296)
    (h : opBytes a = opBytes b) : a = b := by
  simp only [opBytes, List.cons.injEq, and_true] at h
  omega

theorem parBytes_inj {a b : Nat} (ha : a < 2 ^ 64) (hb : b < 2 ^ 64)
    (h : parBytes a = parBytes b) : a = b := by
  simp only [parBytes, List.cons.injEq, and_true] at h
  omega

theorem intBytes_inj {a b : Nat} (ha : a < 2 ^ 32) (hb : b < 2 ^ 32)
    (h : intBytes a = intBytes b) : a = b := by
  simp only [intBytes, List.cons.injEq, and_true] at h
  omega

theorem opBytes_length (a : Nat) : (opBytes a).length = 4 := rfl
theorem parBytes_length (a : Nat) : (parBytes a).length = 8 := rfl
theorem intBytes_length (a : Nat) : (intBytes a).length = 4 := rfl

/-- equal-length prefixes of equal lists are equal -/
theorem append_inj_len {α : Type} {a b r s : List α} (hl : a.length = b.length)
    (h : a ++ r = b ++ s) : a = b ∧ r = s := List.append_inj h hl

mutual
theorem packTree_prefix_inj (tab : SymTab) :
    ∀ (t1 t2 : Tree) (r1 r2 : Bytes), WFT tab t1 → WFT tab t2 →
      packTree tab t1 ++ r1 = packTree tab t2 ++ r2 → t1 = t2 ∧ r1 = r2
  | .node o1 p1 k1, .node o2 p2 k2, r1, r2, w1, w2, h => by
    simp only [WFT] at w1 w2
    obtain ⟨ho1, hp1, hk1, hz1, wk1⟩ := w1
    obtain ⟨ho2, hp2, hk2, hz2, wk2⟩ := w2
    simp only [packTree, List.append_assoc] at h
    have h1 := append_inj_len (by simp [opBytes_length]) h
    have ho : o1 = o2 := opBytes_inj ho1 ho2 h1.1
    subst ho
    have h2 := h1.2
    cases hpar : tab.isParam o1 with
    | true =>
      simp only [hpar, if_true] at h2
      have h3 := append_inj_len (by simp [parBytes_length]) h2
      have hp : p1 = p2 := parBytes_inj hp1 hp2 h3.1
      subst hp
      have := packTrees_prefix_inj tab k1 k2 r1 r2 wk1 wk2 (by rw [hk1, hk2]) h3.2
      exact ⟨by rw [this.1], this.2⟩
    | false =>
      simp only [hpar, Bool.false_eq_true, if_false, List.nil_append] at h2
      have hp : p1 = p2 := by rw [hz1 hpar, hz2 hpar]
      subst hp
      have := packTrees_prefix_inj tab k1 k2 r1 r2 wk1 wk2 (by rw [hk1, hk2]) h2
      exact ⟨by rw [this.1], this.2⟩
theorem packTrees_prefix_inj (tab : SymTab) :
    ∀ (k1 k2 : List Tree) (r1 r2 : Bytes), WFTs tab k1 → WFTs tab k2 → k1.length = k2.length →
      packTrees tab k1 ++ r1 = packTrees tab k2 ++ r2 → k1 = k2 ∧ r1 = r2
  | [], [], r1, r2, _, _, _, h => by simpa [packTrees] using h
  | [], _ :: _, _, _, _, _, hl, _ => by simp at hl
  | _ :: _, [], _, _, _, _, hl, _ => by simp at hl
  | a :: as, b :: bs, r1, r2, w1, w2, hl, h => by
    simp only [WFTs] at w1 w2
    simp only [packTrees, List.append_assoc] at h
    have h1 := packTree_prefix_inj tab a b _ _ w1.1 w2.1 h
    have h2 := packTrees_prefix_inj tab as bs r1 r2 w1.2 w2.2 (by simpa using hl) h1.2
    exact ⟨by rw [h1.1, h2.1], h2.2⟩
end

/-! ### genome side: enough fuel ⇒ defined, and pack = packTree ∘ unfold -/

theorem mem_argLoci {tab : SymTab} {ge : Gene} {l : Locus} (h : l ∈ argLoci tab ge) :
    l.1 ∈ ge.args ∧ l.2 ∈ (tab ge.op).argCats := by
  unfold argLoci at h
  exact ⟨(List.of_mem_zip h).1, (List.of_mem_zip h).2⟩

theorem argLoci_length {tab : SymTab} {ge : Gene} (h : ge.args.length = tab.arity ge.op) :
    (argLoci tab ge).length = tab.arity ge.op := by
  unfold argLoci
  simp [List.length_zip, h, SymTab.arity]

/-- joint specification of the three list helpers against a pointwise specification -/
theorem lists_spec {V : Type} (tab : SymTab) (sem : Nat → Nat → List V → V)
    (pk : Locus → Option Bytes) (uf : Locus → Option Tree) (ev : Locus → Option V) :
    ∀ (ls : List Locus),
      (∀ l ∈ ls, ∃ t, uf l = some t ∧ WFT tab t ∧ pk l = some (packTree tab t) ∧
                      ev l = some (evalTree sem t)) →
      ∃ ts, allWith uf ls = some ts ∧ WFTs tab ts ∧ ts.length = ls.length ∧
            catWith pk ls = some (packTrees tab ts) ∧
            allWith ev ls = some (evalTrees sem ts)
  | [], _ => ⟨[], by simp [allWith, catWith, WFTs, packTrees, evalTrees]⟩
  | l :: ls, h => by
    obtain ⟨t, h1, h2, h3, h4⟩ := h l (by simp)
    obtain ⟨ts, g1, g2, g3, g4, g5⟩ := lists_spec tab sem pk uf ev ls
      (fun l' hl' => h l' (by simp [hl']))
    refine ⟨t :: ts, ?_, ?_, ?_, ?_, ?_⟩
    · simp [allWith, h1, g1]
    · simp [WFTs, h2, g2]
    · simp [g3]
    · simp [catWith, h3, g4, packTrees]
    · simp [allWith, h4, g5, evalTrees]

/-- Main simulation lemma: on a well-formed genome, with at least `rows - index` fuel,
    unfold / pack / eval are all defined and agree through the tree. -/
theorem genome_tree_spec {V : Type} (tab : SymTab) (sem : Nat → Nat → List V → V) (g : Genome)
    (wf : WF tab g) :
    ∀ (f : Nat) (l : Locus), l.1 < g.rows → l.2 < g.cols → g.rows - l.1 ≤ f →
      ∃ t, unfoldF tab g f l = some t ∧ WFT tab t ∧
           packF tab g f l = some (packTree tab t) ∧
           evalF tab sem g f l = some (evalTree sem t)
  | 0, l, hi, _, hf => by omega
  | f + 1, l, hi, hc, hf => by
    obtain ⟨hlen, hargs, hcats, hop, hpar⟩ := wf l.1 l.2 hi hc
    have hkids : ∀ l' ∈ argLoci tab (g.at l),
        ∃ t, unfoldF tab g f l' = some t ∧ WFT tab t ∧
             packF tab g f l' = some (packTree tab t) ∧
             evalF tab sem g f l' = some (evalTree sem t) := by
      intro l' hl'
      have hm := mem_argLoci hl'
      have ha := hargs l'.1 hm.1
      have hk := hcats l'.2 hm.2
      exact genome_tree_spec tab sem g wf f l' ha.2 hk (by omega)
    obtain ⟨ts, g1, g2, g3, g4, g5⟩ := lists_spec tab sem _ _ _ _ hkids
    have hlen' : ts.length = tab.arity (g.at l).op := by
      rw [g3]; exact argLoci_length hlen
    refine ⟨.node (g.at l).op (if tab.isParam (g.at l).op then (g.at l).par else 0) ts, ?_, ?_, ?_, ?_⟩
    · simp [unfoldF, g1]
    · simp only [WFT]
      refine ⟨hop, ?_, hlen', ?_, g2⟩
      · split
        · exact hpar
        · exact Nat.two_pow_pos 64
      · intro h; simp [h]
    · by_cases har : tab.arity (g.at l).op = 0
      · have hts : ts = [] := List.eq_nil_of_length_eq_zero (by rw [hlen', har])
        have hemp : (tab (g.at l).op).argCats.isEmpty = true := by
          simpa [SymTab.arity, List.isEmpty_iff] using har
        simp only [packF, har, if_true, packTree, hts, packTrees, List.append_nil,
          SymTab.isParam, hemp, Bool.true_and]
        cases (tab (g.at l).op).parametric <;> simp
      · have hemp : (tab (g.at l).op).argCats.isEmpty = false := by
          cases hh : (tab (g.at l).op).argCats with
          | nil => exact absurd (by simp [SymTab.arity, hh]) har
          | cons _ _ => rfl
        simp only [packF, har, if_false, g4, packTree, SymTab.isParam, hemp, Bool.false_and,
          Bool.false_eq_true, List.append_nil]
    · simp [evalF, g5, evalTree]

theorem catWith_congr {p q : Locus → Option Bytes} :
    ∀ (ls : List Locus), (∀ l ∈ ls, p l = q l) → catWith p ls = catWith q ls
  | [], _ => rfl
  | l :: ls, h => by
    simp only [catWith, h l (by simp), catWith_congr ls (fun k hk => h k (by simp [hk]))]

/-! ### vectors -/

theorem packGa_inj : ∀ (xs ys : List Nat), (∀ x ∈ xs, x < 2 ^ 32) → (∀ y ∈ ys, y < 2 ^ 32) →
    packGa xs = packGa ys → xs = ys
  | [], [], _, _, _ => rfl
  | [], y :: ys, _, _, h => by simp [packGa, intBytes] at h
  | x :: xs, [], _, _, h => by simp [packGa, intBytes] at h
  | x :: xs, y :: ys, hx, hy, h => by
    simp only [packGa] at h
    have h1 := append_inj_len (by simp [intBytes_length]) h
    have := intBytes_inj (hx x (by simp)) (hy y (by simp)) h1.1
    have := packGa_inj xs ys (fun a ha => hx a (by simp [ha])) (fun a ha => hy a (by simp [ha])) h1.2
    simp [*]

theorem packDe_inj : ∀ (xs ys : List Nat), (∀ x ∈ xs, x < 2 ^ 64) → (∀ y ∈ ys, y < 2 ^ 64) →
    packDe xs = packDe ys → xs = ys
  | [], [], _, _, _ => rfl
  | [], y :: ys, _, _, h => by simp [packDe, parBytes] at h
  | x :: xs, [], _, _, h => by simp [packDe, parBytes] at h
  | x :: xs, y :: ys, hx, hy, h => by
    simp only [packDe] at h
    have h1 := append_inj_len (by simp [parBytes_length]) h
    have := parBytes_inj (hx x (by simp)) (hy y (by simp)) h1.1
    have := packDe_inj xs ys (fun a ha => hx a (by simp [ha])) (fun a ha => hy a (by simp [ha])) h1.2
    simp [*]

end Vita.C03
