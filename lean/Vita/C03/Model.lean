/-
  C03 — model of the signature machinery of vita.

  * `packF` : `i_mep::pack` as written (src/kernel/gp/mep/i_mep.cc): the opcode (`opcode_t` =
    `unsigned`, four little-endian bytes), then either the packed arguments, depth first, in
    argument order (function) or, for a parametric terminal, the eight raw bytes of
    `par`; nothing else (no indices, no introns).
  * `unfoldF` : the active expression tree rooted at a locus.
  * `packTree` : the same byte stream computed from a tree.
  * `evalF` / `evalTree` : value of the program at a locus / of a tree, for an
    arbitrary semantics of the symbols.
  * `packGa`, `packDe` : the byte image of `std::vector<int>` / `std::vector<double>`
    hashed by `i_ga::hash` / `i_de::hash`.

  Bytes are natural numbers < 256; a `double` is its 64-bit pattern (a `Nat` < 2^64).
  All functions are total and computable (fuel = number of rows left below a locus).
-/
namespace Vita.C03

abbrev Bytes := List Nat

/-- What `pack` reads from a symbol: `arity() = argCats.length`,
    `function::arg_category(i) = argCats[i]`, `terminal::parametric()`. -/
structure SymInfo where
  argCats : List Nat
  parametric : Bool
deriving Repr, DecidableEq, Inhabited

/-- opcode ↦ symbol description (`symbol::opcode()` is unique per symbol). -/
abbrev SymTab := Nat → SymInfo

def SymTab.arity (tab : SymTab) (op : Nat) : Nat := (tab op).argCats.length

/-- `arity() == 0 && terminal::cast(sym)->parametric()` -/
def SymTab.isParam (tab : SymTab) (op : Nat) : Bool :=
  (tab op).argCats.isEmpty && (tab op).parametric

/-- `basic_gene`: symbol (by opcode), parameter (bit pattern), argument row indices. -/
structure Gene where
  op : Nat
  par : Nat
  args : List Nat
deriving Repr, DecidableEq, Inhabited

abbrev Locus := Nat × Nat      -- (index, category)

/-- `matrix<gene> genome_` -/
structure Genome where
  rows : Nat
  cols : Nat
  gene : Nat → Nat → Gene

def Genome.at (g : Genome) (l : Locus) : Gene := g.gene l.1 l.2

/-- `gene::arguments()`: the i-th argument lives at `(args[i], arg_category(i))`. -/
def argLoci (tab : SymTab) (ge : Gene) : List Locus :=
  List.zip ge.args (tab ge.op).argCats

/-- The part of `i_mep::is_valid()` that `pack` relies on. -/
def WF (tab : SymTab) (g : Genome) : Prop :=
  ∀ i c, i < g.rows → c < g.cols →
    (g.gene i c).args.length = tab.arity (g.gene i c).op ∧
    (∀ a ∈ (g.gene i c).args, i < a ∧ a < g.rows) ∧
    (∀ k ∈ (tab (g.gene i c).op).argCats, k < g.cols) ∧
    (g.gene i c).op < 4294967296 ∧
    (g.gene i c).par < 2 ^ 64

/-! ### byte images -/

/-- the four raw bytes of `opcode_t opcode` (little endian) -/
def opBytes (op : Nat) : Bytes :=
  [op % 256, op / 256 % 256, op / 65536 % 256, op / 16777216 % 256]

/-- the eight raw bytes of a `double` (little endian) -/
def parBytes (p : Nat) : Bytes :=
  [p % 256, p / 256 % 256, p / 65536 % 256, p / 16777216 % 256,
   p / 4294967296 % 256, p / 1099511627776 % 256, p / 281474976710656 % 256,
   p / 72057594037927936 % 256]

/-- the four raw bytes of an `int` given as its 32-bit pattern -/
def intBytes (p : Nat) : Bytes :=
  [p % 256, p / 256 % 256, p / 65536 % 256, p / 16777216 % 256]

/-! ### trees -/

inductive Tree where
  | node (op : Nat) (par : Nat) (kids : List Tree)
deriving Repr, Inhabited

mutual
def Tree.decEq : (a b : Tree) → Decidable (a = b)
  | .node o1 p1 k1, .node o2 p2 k2 =>
    if ho : o1 = o2 then
      if hp : p1 = p2 then
        match Tree.decEqs k1 k2 with
        | isTrue hk => isTrue (by rw [ho, hp, hk])
        | isFalse hk => isFalse (by intro h; injection h with _ _ h3; exact hk h3)
      else isFalse (by intro h; injection h with _ h2 _; exact hp h2)
    else isFalse (by intro h; injection h with h1 _ _; exact ho h1)
def Tree.decEqs : (a b : List Tree) → Decidable (a = b)
  | [], [] => isTrue rfl
  | [], _ :: _ => isFalse (by simp)
  | _ :: _, [] => isFalse (by simp)
  | a :: as, b :: bs =>
    match Tree.decEq a b, Tree.decEqs as bs with
    | isTrue h1, isTrue h2 => isTrue (by rw [h1, h2])
    | isFalse h1, _ => isFalse (by intro h; injection h with h3 _; exact h1 h3)
    | _, isFalse h2 => isFalse (by intro h; injection h with _ h4; exact h2 h4)
end
instance : DecidableEq Tree := Tree.decEq

mutual
/-- byte stream of a tree: opcode, parameter iff parametric terminal, children in order -/
def packTree (tab : SymTab) : Tree → Bytes
  | .node op par kids =>
    opBytes op ++ (if tab.isParam op then parBytes par else []) ++ packTrees tab kids
def packTrees (tab : SymTab) : List Tree → Bytes
  | [] => []
  | t :: ts => packTree tab t ++ packTrees tab ts
end

mutual
/-- a tree over `tab`: arities respected, parameter only where the symbol has one -/
def WFT (tab : SymTab) : Tree → Prop
  | .node op par kids =>
    op < 4294967296 ∧ par < 2 ^ 64 ∧ kids.length = tab.arity op ∧
    (tab.isParam op = false → par = 0) ∧ WFTs tab kids
def WFTs (tab : SymTab) : List Tree → Prop
  | [] => True
  | t :: ts => WFT tab t ∧ WFTs tab ts
end

mutual
def evalTree {V : Type} (sem : Nat → Nat → List V → V) : Tree → V
  | .node op par kids => sem op par (evalTrees sem kids)
def evalTrees {V : Type} (sem : Nat → Nat → List V → V) : List Tree → List V
  | [] => []
  | t :: ts => evalTree sem t :: evalTrees sem ts
end

/-! ### the genome side -/

/-- sequence a partial function over a list, concatenating the results -/
def catWith (p : Locus → Option Bytes) : List Locus → Option Bytes
  | [] => some []
  | l :: ls =>
    match p l, catWith p ls with
    | some a, some b => some (a ++ b)
    | _, _ => none

def allWith {α : Type} (p : Locus → Option α) : List Locus → Option (List α)
  | [] => some []
  | l :: ls =>
    match p l, allWith p ls with
    | some a, some b => some (a :: b)
    | _, _ => none

/-- `i_mep::pack(l, &p)` with an explicit recursion budget (`none` = budget exhausted,
    which `WF` excludes for a budget of `rows - l.index`). -/
def packF (tab : SymTab) (g : Genome) : Nat → Locus → Option Bytes
  | 0, _ => none
  | f + 1, l =>
    let ge := g.at l
    if tab.arity ge.op = 0 then
      some (opBytes ge.op ++ (if (tab ge.op).parametric then parBytes ge.par else []))
    else
      match catWith (packF tab g f) (argLoci tab ge) with
      | some b => some (opBytes ge.op ++ b)
      | none => none

/-- the active tree rooted at a locus; `par` is kept only for parametric terminals
    (functions carry an uninitialised `par` in the C++ object). -/
def unfoldF (tab : SymTab) (g : Genome) : Nat → Locus → Option Tree
  | 0, _ => none
  | f + 1, l =>
    let ge := g.at l
    match allWith (unfoldF tab g f) (argLoci tab ge) with
    | some ks => some (.node ge.op (if tab.isParam ge.op then ge.par else 0) ks)
    | none => none

/-- value computed at a locus: the symbol applied to the values of its arguments -/
def evalF {V : Type} (tab : SymTab) (sem : Nat → Nat → List V → V) (g : Genome) :
    Nat → Locus → Option V
  | 0, _ => none
  | f + 1, l =>
    let ge := g.at l
    match allWith (evalF tab sem g f) (argLoci tab ge) with
    | some vs => some (sem ge.op (if tab.isParam ge.op then ge.par else 0) vs)
    | none => none

def pack (tab : SymTab) (g : Genome) (l : Locus) : Option Bytes := packF tab g (g.rows - l.1) l
def unfold (tab : SymTab) (g : Genome) (l : Locus) : Option Tree := unfoldF tab g (g.rows - l.1) l
def eval {V : Type} (tab : SymTab) (sem : Nat → Nat → List V → V) (g : Genome) (l : Locus) :
    Option V := evalF tab sem g (g.rows - l.1) l

/-! ### integer / real vectors -/

/-- byte image of `std::vector<int>` (elements as 32-bit patterns) -/
def packGa : List Nat → Bytes
  | [] => []
  | x :: xs => intBytes x ++ packGa xs

/-- byte image of `std::vector<double>` (elements as 64-bit patterns) -/
def packDe : List Nat → Bytes
  | [] => []
  | x :: xs => parBytes x ++ packDe xs

end Vita.C03
