/-
  C03 — bit-level lemmas: the little-endian word `Vita.Murmur.le64` (built with `|||`) is the
  xor of its shifted bytes (the tail `switch` of `hash128` builds it with `^=`): the shifted bytes
  occupy disjoint bit ranges.
-/
import Vita.Common.Murmur

namespace Vita.C03.MurmurBits
open Vita.Murmur

theorem u64_or_eq_xor (x y : UInt64) (h : x &&& y = 0) : x ||| y = x ^^^ y := by
  apply UInt64.eq_of_toBitVec_eq
  have h' : x.toBitVec &&& y.toBitVec = 0 := by
    have := congrArg UInt64.toBitVec h
    simpa using this
  simp only [UInt64.toBitVec_or, UInt64.toBitVec_xor]
  ext i hi
  have hb := congrArg (fun z => z.getLsbD i) h'
  simp only [BitVec.getLsbD_and] at hb
  simp only [BitVec.getElem_or, BitVec.getElem_xor]
  rw [← BitVec.getLsbD_eq_getElem hi, ← BitVec.getLsbD_eq_getElem hi]
  cases hx : x.toBitVec.getLsbD i <;> cases hy : y.toBitVec.getLsbD i <;> simp_all

def bit (x : UInt64) (i : Nat) : Bool := x.toBitVec.getLsbD i

theorem bit_shl_byte (b : UInt8) (s i : Nat) (hs : s < 64) :
    bit (b.toUInt64 <<< s.toUInt64) i = (decide (i < 64) && decide (s ≤ i) && decide (i - s < 8) && b.toBitVec.getLsbD (i - s)) := by
  unfold bit
  simp only [UInt64.toBitVec_shiftLeft]
  simp
  rw [Nat.mod_eq_of_lt hs]
  by_cases h8 : i - s < 8
  · have h64 : i - s < 64 := by omega
    by_cases hlt : i < s <;> simp [h8, h64, hlt, Nat.not_lt.mp, Nat.not_le.mpr] <;> omega
  · have : b.toBitVec.getLsbD (i - s) = false := BitVec.getLsbD_of_ge _ _ (by omega)
    simp [this]


/-- the bits of `le64' n bs` live in `[8n, 64)` -/
theorem le64'_low (bs : List UInt8) : ∀ (n i : Nat), i < 8 * n → bit (le64.le64' n bs) i = false := by
  induction bs with
  | nil => intro n i _; simp [le64.le64', bit]
  | cons b bs ih =>
    intro n i hi
    unfold le64.le64'
    split
    · simp [bit]
    · rename_i hn
      have hs : 8 * n < 64 := by omega
      have h1 := bit_shl_byte b (8 * n) i hs
      have h2 := ih (n + 1) i (by omega)
      unfold bit at h1 h2 ⊢
      simp only [UInt64.toBitVec_or, BitVec.getLsbD_or, h1, h2, Bool.or_false]
      have : ¬ (8 * n ≤ i) := by omega
      simp [this]

/-- the word as the tail `switch` builds it: highest byte first, `k ^= byte << 8n` -/
def xle' : Nat → List UInt8 → UInt64
  | _, [] => 0
  | n, b :: bs => if n ≥ 8 then 0 else xle' (n + 1) bs ^^^ (b.toUInt64 <<< (8 * n).toUInt64)

theorem le64'_eq_xle' (bs : List UInt8) : ∀ n, le64.le64' n bs = xle' n bs := by
  induction bs with
  | nil => intro n; rfl
  | cons b bs ih =>
    intro n
    unfold le64.le64' xle'
    split
    · rfl
    · rename_i hn
      rw [← ih (n + 1), UInt64.xor_comm]
      apply u64_or_eq_xor
      apply UInt64.eq_of_toBitVec_eq
      ext i hi
      have hs : 8 * n < 64 := by omega
      have h1 := bit_shl_byte b (8 * n) i hs
      unfold bit at h1
      simp only [UInt64.toBitVec_and, BitVec.getElem_and]
      rw [← BitVec.getLsbD_eq_getElem hi, ← BitVec.getLsbD_eq_getElem hi, h1]
      by_cases hlo : i < 8 * (n + 1)
      · have := le64'_low bs (n + 1) i hlo
        unfold bit at this
        simp [this]
      · have : ¬ (i - 8 * n < 8) := by omega
        simp [this]

theorem le64_eq_xle' (bs : List UInt8) : le64 bs = xle' 0 bs := by
  cases bs with
  | nil => rfl
  | cons b bs =>
    rw [← le64'_eq_xle']
    show b.toUInt64 ||| le64.le64' 1 bs =
      (if 0 ≥ 8 then (0 : UInt64) else (b.toUInt64 <<< (8 * 0 : Nat).toUInt64) ||| le64.le64' (0 + 1) bs)
    simp

end Vita.C03.MurmurBits
