/-
  C03 — `murmurhash3::hash128` as translated (`USyn.murmurAsModelled`) computes
  `Vita.Murmur.hash128`: helper lemmas (block loop, tail switch, finalisation).
-/
import Vita.C03.MurmurModel
import Vita.C03.MurmurBits

namespace Vita.C03.USyn
open Vita.Murmur Vita.C03.MurmurBits

set_option maxHeartbeats 1000000 in
theorem tail_case0 (c : Ctx) (hr : c.rotl = rotl) (e : Env)
    (h1 : (9782798678568883157 : Nat).toUInt64 = c1) (h2 : (5545529020109919103 : Nat).toUInt64 = c2)
    (hb : ∀ j, c.bytes.getD (c.tailOff + j) 0 = ([] : List UInt8).getD j 0) :
    let e' := execSwitch c 0 murmurAsModelled.cases (execStms c murmurAsModelled.tailInit e)
    (⟨e'.h0, e'.h1⟩ : Hash) = tailStep ⟨e.h0, e.h1⟩ [] := by
  simp only [murmurAsModelled, List.length, execSwitch, execStms, UExpr.eval, Env.set, Env.get, hr, hb, h1, h2,
    List.map, List.foldl, tailStep, le64_eq_xle', mixK1, mixK2]
  simp

set_option maxHeartbeats 1000000 in
theorem tail_case1 (c : Ctx) (hr : c.rotl = rotl) (e : Env)
    (h1 : (9782798678568883157 : Nat).toUInt64 = c1) (h2 : (5545529020109919103 : Nat).toUInt64 = c2)
    (t0 : UInt8)
    (hb : ∀ j, c.bytes.getD (c.tailOff + j) 0 = ([t0] : List UInt8).getD j 0) :
    let e' := execSwitch c 1 murmurAsModelled.cases (execStms c murmurAsModelled.tailInit e)
    (⟨e'.h0, e'.h1⟩ : Hash) = tailStep ⟨e.h0, e.h1⟩ [t0] := by
  simp only [murmurAsModelled, List.length, execSwitch, execStms, UExpr.eval, Env.set, Env.get, hr, hb, h1, h2,
    List.map, List.foldl, tailStep, le64_eq_xle', mixK1, mixK2]
  simp [xle']

set_option maxHeartbeats 1000000 in
theorem tail_case2 (c : Ctx) (hr : c.rotl = rotl) (e : Env)
    (h1 : (9782798678568883157 : Nat).toUInt64 = c1) (h2 : (5545529020109919103 : Nat).toUInt64 = c2)
    (t0 t1 : UInt8)
    (hb : ∀ j, c.bytes.getD (c.tailOff + j) 0 = ([t0, t1] : List UInt8).getD j 0) :
    let e' := execSwitch c 2 murmurAsModelled.cases (execStms c murmurAsModelled.tailInit e)
    (⟨e'.h0, e'.h1⟩ : Hash) = tailStep ⟨e.h0, e.h1⟩ [t0, t1] := by
  simp only [murmurAsModelled, List.length, execSwitch, execStms, UExpr.eval, Env.set, Env.get, hr, hb, h1, h2,
    List.map, List.foldl, tailStep, le64_eq_xle', mixK1, mixK2]
  simp [xle']

set_option maxHeartbeats 1000000 in
theorem tail_case3 (c : Ctx) (hr : c.rotl = rotl) (e : Env)
    (h1 : (9782798678568883157 : Nat).toUInt64 = c1) (h2 : (5545529020109919103 : Nat).toUInt64 = c2)
    (t0 t1 t2 : UInt8)
    (hb : ∀ j, c.bytes.getD (c.tailOff + j) 0 = ([t0, t1, t2] : List UInt8).getD j 0) :
    let e' := execSwitch c 3 murmurAsModelled.cases (execStms c murmurAsModelled.tailInit e)
    (⟨e'.h0, e'.h1⟩ : Hash) = tailStep ⟨e.h0, e.h1⟩ [t0, t1, t2] := by
  simp only [murmurAsModelled, List.length, execSwitch, execStms, UExpr.eval, Env.set, Env.get, hr, hb, h1, h2,
    List.map, List.foldl, tailStep, le64_eq_xle', mixK1, mixK2]
  simp [xle']

set_option maxHeartbeats 1000000 in
theorem tail_case4 (c : Ctx) (hr : c.rotl = rotl) (e : Env)
    (h1 : (9782798678568883157 : Nat).toUInt64 = c1) (h2 : (5545529020109919103 : Nat).toUInt64 = c2)
    (t0 t1 t2 t3 : UInt8)
    (hb : ∀ j, c.bytes.getD (c.tailOff + j) 0 = ([t0, t1, t2, t3] : List UInt8).getD j 0) :
    let e' := execSwitch c 4 murmurAsModelled.cases (execStms c murmurAsModelled.tailInit e)
    (⟨e'.h0, e'.h1⟩ : Hash) = tailStep ⟨e.h0, e.h1⟩ [t0, t1, t2, t3] := by
  simp only [murmurAsModelled, List.length, execSwitch, execStms, UExpr.eval, Env.set, Env.get, hr, hb, h1, h2,
    List.map, List.foldl, tailStep, le64_eq_xle', mixK1, mixK2]
  simp [xle']

set_option maxHeartbeats 1000000 in
theorem tail_case5 (c : Ctx) (hr : c.rotl = rotl) (e : Env)
    (h1 : (9782798678568883157 : Nat).toUInt64 = c1) (h2 : (5545529020109919103 : Nat).toUInt64 = c2)
    (t0 t1 t2 t3 t4 : UInt8)
    (hb : ∀ j, c.bytes.getD (c.tailOff + j) 0 = ([t0, t1, t2, t3, t4] : List UInt8).getD j 0) :
    let e' := execSwitch c 5 murmurAsModelled.cases (execStms c murmurAsModelled.tailInit e)
    (⟨e'.h0, e'.h1⟩ : Hash) = tailStep ⟨e.h0, e.h1⟩ [t0, t1, t2, t3, t4] := by
  simp only [murmurAsModelled, List.length, execSwitch, execStms, UExpr.eval, Env.set, Env.get, hr, hb, h1, h2,
    List.map, List.foldl, tailStep, le64_eq_xle', mixK1, mixK2]
  simp [xle']

set_option maxHeartbeats 1000000 in
theorem tail_case6 (c : Ctx) (hr : c.rotl = rotl) (e : Env)
    (h1 : (9782798678568883157 : Nat).toUInt64 = c1) (h2 : (5545529020109919103 : Nat).toUInt64 = c2)
    (t0 t1 t2 t3 t4 t5 : UInt8)
    (hb : ∀ j, c.bytes.getD (c.tailOff + j) 0 = ([t0, t1, t2, t3, t4, t5] : List UInt8).getD j 0) :
    let e' := execSwitch c 6 murmurAsModelled.cases (execStms c murmurAsModelled.tailInit e)
    (⟨e'.h0, e'.h1⟩ : Hash) = tailStep ⟨e.h0, e.h1⟩ [t0, t1, t2, t3, t4, t5] := by
  simp only [murmurAsModelled, List.length, execSwitch, execStms, UExpr.eval, Env.set, Env.get, hr, hb, h1, h2,
    List.map, List.foldl, tailStep, le64_eq_xle', mixK1, mixK2]
  simp [xle']

set_option maxHeartbeats 1000000 in
theorem tail_case7 (c : Ctx) (hr : c.rotl = rotl) (e : Env)
    (h1 : (9782798678568883157 : Nat).toUInt64 = c1) (h2 : (5545529020109919103 : Nat).toUInt64 = c2)
    (t0 t1 t2 t3 t4 t5 t6 : UInt8)
    (hb : ∀ j, c.bytes.getD (c.tailOff + j) 0 = ([t0, t1, t2, t3, t4, t5, t6] : List UInt8).getD j 0) :
    let e' := execSwitch c 7 murmurAsModelled.cases (execStms c murmurAsModelled.tailInit e)
    (⟨e'.h0, e'.h1⟩ : Hash) = tailStep ⟨e.h0, e.h1⟩ [t0, t1, t2, t3, t4, t5, t6] := by
  simp only [murmurAsModelled, List.length, execSwitch, execStms, UExpr.eval, Env.set, Env.get, hr, hb, h1, h2,
    List.map, List.foldl, tailStep, le64_eq_xle', mixK1, mixK2]
  simp [xle']

set_option maxHeartbeats 1000000 in
theorem tail_case8 (c : Ctx) (hr : c.rotl = rotl) (e : Env)
    (h1 : (9782798678568883157 : Nat).toUInt64 = c1) (h2 : (5545529020109919103 : Nat).toUInt64 = c2)
    (t0 t1 t2 t3 t4 t5 t6 t7 : UInt8)
    (hb : ∀ j, c.bytes.getD (c.tailOff + j) 0 = ([t0, t1, t2, t3, t4, t5, t6, t7] : List UInt8).getD j 0) :
    let e' := execSwitch c 8 murmurAsModelled.cases (execStms c murmurAsModelled.tailInit e)
    (⟨e'.h0, e'.h1⟩ : Hash) = tailStep ⟨e.h0, e.h1⟩ [t0, t1, t2, t3, t4, t5, t6, t7] := by
  simp only [murmurAsModelled, List.length, execSwitch, execStms, UExpr.eval, Env.set, Env.get, hr, hb, h1, h2,
    List.map, List.foldl, tailStep, le64_eq_xle', mixK1, mixK2]
  simp [xle']

set_option maxHeartbeats 1000000 in
theorem tail_case9 (c : Ctx) (hr : c.rotl = rotl) (e : Env)
    (h1 : (9782798678568883157 : Nat).toUInt64 = c1) (h2 : (5545529020109919103 : Nat).toUInt64 = c2)
    (t0 t1 t2 t3 t4 t5 t6 t7 t8 : UInt8)
    (hb : ∀ j, c.bytes.getD (c.tailOff + j) 0 = ([t0, t1, t2, t3, t4, t5, t6, t7, t8] : List UInt8).getD j 0) :
    let e' := execSwitch c 9 murmurAsModelled.cases (execStms c murmurAsModelled.tailInit e)
    (⟨e'.h0, e'.h1⟩ : Hash) = tailStep ⟨e.h0, e.h1⟩ [t0, t1, t2, t3, t4, t5, t6, t7, t8] := by
  simp only [murmurAsModelled, List.length, execSwitch, execStms, UExpr.eval, Env.set, Env.get, hr, hb, h1, h2,
    List.map, List.foldl, tailStep, le64_eq_xle', mixK1, mixK2]
  simp [xle']

set_option maxHeartbeats 1000000 in
theorem tail_case10 (c : Ctx) (hr : c.rotl = rotl) (e : Env)
    (h1 : (9782798678568883157 : Nat).toUInt64 = c1) (h2 : (5545529020109919103 : Nat).toUInt64 = c2)
    (t0 t1 t2 t3 t4 t5 t6 t7 t8 t9 : UInt8)
    (hb : ∀ j, c.bytes.getD (c.tailOff + j) 0 = ([t0, t1, t2, t3, t4, t5, t6, t7, t8, t9] : List UInt8).getD j 0) :
    let e' := execSwitch c 10 murmurAsModelled.cases (execStms c murmurAsModelled.tailInit e)
    (⟨e'.h0, e'.h1⟩ : Hash) = tailStep ⟨e.h0, e.h1⟩ [t0, t1, t2, t3, t4, t5, t6, t7, t8, t9] := by
  simp only [murmurAsModelled, List.length, execSwitch, execStms, UExpr.eval, Env.set, Env.get, hr, hb, h1, h2,
    List.map, List.foldl, tailStep, le64_eq_xle', mixK1, mixK2]
  simp [xle']

set_option maxHeartbeats 1000000 in
theorem tail_case11 (c : Ctx) (hr : c.rotl = rotl) (e : Env)
    (h1 : (9782798678568883157 : Nat).toUInt64 = c1) (h2 : (5545529020109919103 : Nat).toUInt64 = c2)
    (t0 t1 t2 t3 t4 t5 t6 t7 t8 t9 t10 : UInt8)
    (hb : ∀ j, c.bytes.getD (c.tailOff + j) 0 = ([t0, t1, t2, t3, t4, t5, t6, t7, t8, t9, t10] : List UInt8).getD j 0) :
    let e' := execSwitch c 11 murmurAsModelled.cases (execStms c murmurAsModelled.tailInit e)
    (⟨e'.h0, e'.h1⟩ : Hash) = tailStep ⟨e.h0, e.h1⟩ [t0, t1, t2, t3, t4, t5, t6, t7, t8, t9, t10] := by
  simp only [murmurAsModelled, List.length, execSwitch, execStms, UExpr.eval, Env.set, Env.get, hr, hb, h1, h2,
    List.map, List.foldl, tailStep, le64_eq_xle', mixK1, mixK2]
  simp [xle']

set_option maxHeartbeats 1000000 in
theorem tail_case12 (c : Ctx) (hr : c.rotl = rotl) (e : Env)
    (h1 : (9782798678568883157 : Nat).toUInt64 = c1) (h2 : (5545529020109919103 : Nat).toUInt64 = c2)
    (t0 t1 t2 t3 t4 t5 t6 t7 t8 t9 t10 t11 : UInt8)
    (hb : ∀ j, c.bytes.getD (c.tailOff + j) 0 = ([t0, t1, t2, t3, t4, t5, t6, t7, t8, t9, t10, t11] : List UInt8).getD j 0) :
    let e' := execSwitch c 12 murmurAsModelled.cases (execStms c murmurAsModelled.tailInit e)
    (⟨e'.h0, e'.h1⟩ : Hash) = tailStep ⟨e.h0, e.h1⟩ [t0, t1, t2, t3, t4, t5, t6, t7, t8, t9, t10, t11] := by
  simp only [murmurAsModelled, List.length, execSwitch, execStms, UExpr.eval, Env.set, Env.get, hr, hb, h1, h2,
    List.map, List.foldl, tailStep, le64_eq_xle', mixK1, mixK2]
  simp [xle']

set_option maxHeartbeats 1000000 in
theorem tail_case13 (c : Ctx) (hr : c.rotl = rotl) (e : Env)
    (h1 : (9782798678568883157 : Nat).toUInt64 = c1) (h2 : (5545529020109919103 : Nat).toUInt64 = c2)
    (t0 t1 t2 t3 t4 t5 t6 t7 t8 t9 t10 t11 t12 : UInt8)
    (hb : ∀ j, c.bytes.getD (c.tailOff + j) 0 = ([t0, t1, t2, t3, t4, t5, t6, t7, t8, t9, t10, t11, t12] : List UInt8).getD j 0) :
    let e' := execSwitch c 13 murmurAsModelled.cases (execStms c murmurAsModelled.tailInit e)
    (⟨e'.h0, e'.h1⟩ : Hash) = tailStep ⟨e.h0, e.h1⟩ [t0, t1, t2, t3, t4, t5, t6, t7, t8, t9, t10, t11, t12] := by
  simp only [murmurAsModelled, List.length, execSwitch, execStms, UExpr.eval, Env.set, Env.get, hr, hb, h1, h2,
    List.map, List.foldl, tailStep, le64_eq_xle', mixK1, mixK2]
  simp [xle']

set_option maxHeartbeats 1000000 in
theorem tail_case14 (c : Ctx) (hr : c.rotl = rotl) (e : Env)
    (h1 : (9782798678568883157 : Nat).toUInt64 = c1) (h2 : (5545529020109919103 : Nat).toUInt64 = c2)
    (t0 t1 t2 t3 t4 t5 t6 t7 t8 t9 t10 t11 t12 t13 : UInt8)
    (hb : ∀ j, c.bytes.getD (c.tailOff + j) 0 = ([t0, t1, t2, t3, t4, t5, t6, t7, t8, t9, t10, t11, t12, t13] : List UInt8).getD j 0) :
    let e' := execSwitch c 14 murmurAsModelled.cases (execStms c murmurAsModelled.tailInit e)
    (⟨e'.h0, e'.h1⟩ : Hash) = tailStep ⟨e.h0, e.h1⟩ [t0, t1, t2, t3, t4, t5, t6, t7, t8, t9, t10, t11, t12, t13] := by
  simp only [murmurAsModelled, List.length, execSwitch, execStms, UExpr.eval, Env.set, Env.get, hr, hb, h1, h2,
    List.map, List.foldl, tailStep, le64_eq_xle', mixK1, mixK2]
  simp [xle']

set_option maxHeartbeats 1000000 in
theorem tail_case15 (c : Ctx) (hr : c.rotl = rotl) (e : Env)
    (h1 : (9782798678568883157 : Nat).toUInt64 = c1) (h2 : (5545529020109919103 : Nat).toUInt64 = c2)
    (t0 t1 t2 t3 t4 t5 t6 t7 t8 t9 t10 t11 t12 t13 t14 : UInt8)
    (hb : ∀ j, c.bytes.getD (c.tailOff + j) 0 = ([t0, t1, t2, t3, t4, t5, t6, t7, t8, t9, t10, t11, t12, t13, t14] : List UInt8).getD j 0) :
    let e' := execSwitch c 15 murmurAsModelled.cases (execStms c murmurAsModelled.tailInit e)
    (⟨e'.h0, e'.h1⟩ : Hash) = tailStep ⟨e.h0, e.h1⟩ [t0, t1, t2, t3, t4, t5, t6, t7, t8, t9, t10, t11, t12, t13, t14] := by
  simp only [murmurAsModelled, List.length, execSwitch, execStms, UExpr.eval, Env.set, Env.get, hr, hb, h1, h2,
    List.map, List.foldl, tailStep, le64_eq_xle', mixK1, mixK2]
  simp [xle']

/-- the tail `switch` of `hash128` (fall-through from `case len & 15`) computes `Murmur.tailStep` -/
theorem tail_eq (c : Ctx) (hr : c.rotl = rotl) (e : Env) (tail : List UInt8) (hv : tail.length < 16)
    (hb : ∀ j, c.bytes.getD (c.tailOff + j) 0 = tail.getD j 0) :
    let e' := execSwitch c tail.length murmurAsModelled.cases (execStms c murmurAsModelled.tailInit e)
    (⟨e'.h0, e'.h1⟩ : Hash) = tailStep ⟨e.h0, e.h1⟩ tail := by
  have h1 : (9782798678568883157 : Nat).toUInt64 = c1 := by decide
  have h2 : (5545529020109919103 : Nat).toUInt64 = c2 := by decide
  rcases tail with _ | ⟨t0, tail⟩
  · exact tail_case0 c hr e h1 h2  hb
  rcases tail with _ | ⟨t1, tail⟩
  · exact tail_case1 c hr e h1 h2 t0 hb
  rcases tail with _ | ⟨t2, tail⟩
  · exact tail_case2 c hr e h1 h2 t0 t1 hb
  rcases tail with _ | ⟨t3, tail⟩
  · exact tail_case3 c hr e h1 h2 t0 t1 t2 hb
  rcases tail with _ | ⟨t4, tail⟩
  · exact tail_case4 c hr e h1 h2 t0 t1 t2 t3 hb
  rcases tail with _ | ⟨t5, tail⟩
  · exact tail_case5 c hr e h1 h2 t0 t1 t2 t3 t4 hb
  rcases tail with _ | ⟨t6, tail⟩
  · exact tail_case6 c hr e h1 h2 t0 t1 t2 t3 t4 t5 hb
  rcases tail with _ | ⟨t7, tail⟩
  · exact tail_case7 c hr e h1 h2 t0 t1 t2 t3 t4 t5 t6 hb
  rcases tail with _ | ⟨t8, tail⟩
  · exact tail_case8 c hr e h1 h2 t0 t1 t2 t3 t4 t5 t6 t7 hb
  rcases tail with _ | ⟨t9, tail⟩
  · exact tail_case9 c hr e h1 h2 t0 t1 t2 t3 t4 t5 t6 t7 t8 hb
  rcases tail with _ | ⟨t10, tail⟩
  · exact tail_case10 c hr e h1 h2 t0 t1 t2 t3 t4 t5 t6 t7 t8 t9 hb
  rcases tail with _ | ⟨t11, tail⟩
  · exact tail_case11 c hr e h1 h2 t0 t1 t2 t3 t4 t5 t6 t7 t8 t9 t10 hb
  rcases tail with _ | ⟨t12, tail⟩
  · exact tail_case12 c hr e h1 h2 t0 t1 t2 t3 t4 t5 t6 t7 t8 t9 t10 t11 hb
  rcases tail with _ | ⟨t13, tail⟩
  · exact tail_case13 c hr e h1 h2 t0 t1 t2 t3 t4 t5 t6 t7 t8 t9 t10 t11 t12 hb
  rcases tail with _ | ⟨t14, tail⟩
  · exact tail_case14 c hr e h1 h2 t0 t1 t2 t3 t4 t5 t6 t7 t8 t9 t10 t11 t12 t13 hb
  rcases tail with _ | ⟨t15, tail⟩
  · exact tail_case15 c hr e h1 h2 t0 t1 t2 t3 t4 t5 t6 t7 t8 t9 t10 t11 t12 t13 t14 hb
  simp at hv; omega

theorem rotlF_eq : murmurAsModelled.rotlF = rotl := funext fun _ => funext fun _ => rfl
theorem fmixF_eq : murmurAsModelled.fmixF = fmix := funext fun _ => rfl

def hOf (e : Env) : Hash := ⟨e.h0, e.h1⟩

/-- one iteration of the block loop is `Murmur.bodyStep` on the two little-endian words of block `i` -/
theorem block_eq (c : Ctx) (hr : c.rotl = rotl) (e : Env) :
    hOf (execStms c murmurAsModelled.loopBody e) =
      bodyStep (hOf e) (le64 ((c.bytes.drop (c.blockBytes * (c.i * 2 + 0))).take c.blockBytes))
        (le64 ((c.bytes.drop (c.blockBytes * (c.i * 2 + 1))).take c.blockBytes)) := by
  have h1 : (9782798678568883157 : Nat).toUInt64 = c1 := by decide
  have h2 : (5545529020109919103 : Nat).toUInt64 = c2 := by decide
  have l31 : Nat.toUInt64 31 = 31 := rfl
  have l27 : Nat.toUInt64 27 = 27 := rfl
  have l33 : Nat.toUInt64 33 = 33 := rfl
  have l5 : Nat.toUInt64 5 = 5 := rfl
  have la : Nat.toUInt64 1390208809 = 1390208809 := rfl
  have lb : Nat.toUInt64 944331445 = 944331445 := rfl
  simp only [hOf, murmurAsModelled, execStms, UExpr.eval, Env.set, Env.get, hr, h1, h2]
  simp only [bodyStep, mixK1, mixK2, l31, l27, l33, l5, la, lb]

/-- the finalisation is `Murmur.finish` -/
theorem final_eq (c : Ctx) (hf : c.fmix = fmix) (e : Env) :
    hOf (execStms c murmurAsModelled.final e) = finish (hOf e) c.bytes.length := by
  simp only [hOf, murmurAsModelled, execStms, UExpr.eval, Env.set, Env.get, hf]
  rfl

/-- the block loop is `Murmur.body` -/
theorem loop_eq (bytes : List UInt8) (seed : UInt64) :
    ∀ (nb fuel i : Nat) (e : Env), nb ≤ fuel → (bytes.length - 16 * i) / 16 = nb →
      body fuel (hOf e) (bytes.drop (16 * i)) =
        (hOf (murmurAsModelled.loop (murmurAsModelled.ctx bytes seed) nb i e), bytes.drop (16 * (i + nb))) := by
  intro nb
  induction nb with
  | zero =>
    intro fuel i e _ h0
    have hl : (bytes.drop (16 * i)).length < 16 := by
      rw [List.length_drop]; omega
    cases fuel with
    | zero => simp [body, MurmurSyn.loop]
    | succ f => rw [body, if_pos hl]; simp [MurmurSyn.loop]
  | succ nb ih =>
    intro fuel i e hf hn
    obtain ⟨f, rfl⟩ : ∃ f, fuel = f + 1 := ⟨fuel - 1, by omega⟩
    have hl : ¬ (bytes.drop (16 * i)).length < 16 := by
      rw [List.length_drop]; omega
    rw [body, if_neg hl, MurmurSyn.loop]
    have hb := block_eq { murmurAsModelled.ctx bytes seed with i := i } (by simp [MurmurSyn.ctx, rotlF_eq]) e
    simp only [MurmurSyn.ctx, show murmurAsModelled.getBlockBytes = 8 from rfl] at hb
    have e1 : List.take 8 (List.drop (16 * i) bytes) = List.take 8 (List.drop (8 * (i * 2 + 0)) bytes) := by
      congr 2; omega
    have e2 : List.take 8 (List.drop 8 (List.drop (16 * i) bytes)) = List.take 8 (List.drop (8 * (i * 2 + 1)) bytes) := by
      rw [List.drop_drop]; congr 2; omega
    have e3 : List.drop 16 (List.drop (16 * i) bytes) = List.drop (16 * (i + 1)) bytes := by
      rw [List.drop_drop]; congr 1
    rw [e1, e2, e3, ← hb]
    have := ih f (i + 1)
      (execStms { murmurAsModelled.ctx bytes seed with i := i } murmurAsModelled.loopBody e) (by omega) (by omega)
    have h2 : 16 * (i + 1 + nb) = 16 * (i + (nb + 1)) := by omega
    rw [h2] at this
    exact this

theorem and15 (n : Nat) : n &&& 15 = n % 16 := Nat.and_two_pow_sub_one_eq_mod n 4

/-- `murmurhash3::hash128` as translated computes the model `Vita.Murmur.hash128`, for every
    message and every seed -/
theorem run_eq (bytes : List UInt8) (seed : UInt64) :
    murmurAsModelled.run bytes seed = hash128 bytes seed := by
  have hloop := loop_eq bytes seed (bytes.length / 16) bytes.length 0
    (execStms (murmurAsModelled.ctx bytes seed) murmurAsModelled.init {})
    (Nat.div_le_self _ _) (by simp)
  simp only [Nat.mul_zero, List.drop_zero, Nat.zero_add] at hloop
  have hinit : hOf (execStms (murmurAsModelled.ctx bytes seed) murmurAsModelled.init {}) = ⟨seed, seed⟩ := rfl
  rw [hinit] at hloop
  unfold hash128
  rw [hloop]
  simp only [MurmurSyn.run, show murmurAsModelled.blockLen = 16 from rfl,
    show murmurAsModelled.switchMask = 15 from rfl, and15]
  have hlen : (bytes.drop (16 * (bytes.length / 16))).length = bytes.length % 16 := by
    rw [List.length_drop]; omega
  have ht := tail_eq (murmurAsModelled.ctx bytes seed) (by simp [MurmurSyn.ctx, rotlF_eq])
    (murmurAsModelled.loop (murmurAsModelled.ctx bytes seed) (bytes.length / 16) 0
      (execStms (murmurAsModelled.ctx bytes seed) murmurAsModelled.init {}))
    (bytes.drop (16 * (bytes.length / 16))) (by rw [hlen]; exact Nat.mod_lt _ (by decide))
    (by
      intro j
      simp only [MurmurSyn.ctx, show murmurAsModelled.blockLen = 16 from rfl,
        show murmurAsModelled.tailMul = 16 from rfl]
      simp only [List.getD_eq_getElem?_getD, List.getElem?_drop]
      congr 2; omega)
  rw [hlen] at ht
  have hfin := final_eq (murmurAsModelled.ctx bytes seed) (by simp [MurmurSyn.ctx, fmixF_eq])
    (execSwitch (murmurAsModelled.ctx bytes seed) (bytes.length % 16) murmurAsModelled.cases
      (execStms (murmurAsModelled.ctx bytes seed) murmurAsModelled.tailInit
        (murmurAsModelled.loop (murmurAsModelled.ctx bytes seed) (bytes.length / 16) 0
          (execStms (murmurAsModelled.ctx bytes seed) murmurAsModelled.init {}))))
  simp only [hOf] at ht hfin
  simp only [hOf]
  rw [← ht]
  exact hfin

/-! ### which bytes are read -/

theorem loopBody_reads (i : Nat) :
    stmsReads 8 i 0 murmurAsModelled.loopBody = List.range' (16 * i) 16 := by
  simp [stmsReads, murmurAsModelled, UExpr.reads, List.range, List.range.loop, List.range']
  omega

theorem switch_reads (off v : Nat) (hv : v < 16) :
    switchReads 8 off v murmurAsModelled.cases = ((List.range v).map (off + ·)).reverse := by
  have : v = 0 ∨ v = 1 ∨ v = 2 ∨ v = 3 ∨ v = 4 ∨ v = 5 ∨ v = 6 ∨ v = 7 ∨ v = 8 ∨ v = 9 ∨ v = 10 ∨
      v = 11 ∨ v = 12 ∨ v = 13 ∨ v = 14 ∨ v = 15 := by omega
  rcases this with h | h | h | h | h | h | h | h | h | h | h | h | h | h | h | h <;> subst h <;> rfl

theorem loop_reads : ∀ (nb i : Nat),
    loopReads 8 murmurAsModelled.loopBody nb i = List.range' (16 * i) (16 * nb)
  | 0, i => by simp [loopReads]
  | nb + 1, i => by
    rw [loopReads, loopBody_reads, loop_reads nb (i + 1)]
    rw [show 16 * (nb + 1) = 16 + 16 * nb by omega, ← List.range'_append_1]
    congr 2

theorem reads_perm (n : Nat) : (murmurAsModelled.reads n).Perm (List.range n) := by
  have hs := switch_reads (n / 16 * 16) (n % 16) (Nat.mod_lt _ (by decide))
  have hl := loop_reads (n / 16) 0
  simp only [MurmurSyn.reads]
  rw [show murmurAsModelled.getBlockBytes = 8 from rfl, show murmurAsModelled.blockLen = 16 from rfl,
      show murmurAsModelled.tailMul = 16 from rfl, show murmurAsModelled.switchMask = 15 from rfl,
      and15, hs, hl]
  have e : List.range n = List.range' (16 * 0) (16 * (n / 16)) ++ (List.range (n % 16)).map (n / 16 * 16 + ·) := by
    rw [List.range_eq_range', show (List.range (n % 16)).map (n / 16 * 16 + ·) = List.range' (n / 16 * 16) (n % 16) by
          rw [List.range_eq_range', List.map_add_range', Nat.add_zero]]
    rw [show n / 16 * 16 = 16 * 0 + 1 * (16 * (n / 16)) by omega, List.range'_append]
    congr 1; omega
  rw [e]
  exact List.Perm.append_left _ (List.reverse_perm _)

/-! ### the finalisation is a bijection -/

theorem xs33_invol (k : UInt64) : (k ^^^ (k >>> 33)) ^^^ ((k ^^^ (k >>> 33)) >>> 33) = k := by
  apply UInt64.eq_of_toBitVec_eq
  ext i hi
  simp only [UInt64.toBitVec_xor, UInt64.toBitVec_shiftRight, BitVec.getElem_xor]
  simp
  have : k.toBitVec.getLsbD (33 + (33 + i)) = false := BitVec.getLsbD_of_ge _ _ (by omega)
  simp [this]

theorem xs33_inj (a b : UInt64) (h : a ^^^ (a >>> 33) = b ^^^ (b >>> 33)) : a = b := by
  rw [← xs33_invol a, ← xs33_invol b, h]

theorem mulc_inj (c ci : UInt64) (hc : c * ci = 1) (a b : UInt64) (h : a * c = b * c) : a = b := by
  have := congrArg (· * ci) h
  simp only [UInt64.mul_assoc, hc, UInt64.mul_one] at this
  exact this

theorem fmix_inj (a b : UInt64) (h : fmix a = fmix b) : a = b := by
  unfold fmix at h
  simp only at h
  have h1 := xs33_inj _ _ h
  have h2 := mulc_inj 0xc4ceb9fe1a85ec53 0x9cb4b2f8129337db (by decide) _ _ h1
  have h3 := xs33_inj _ _ h2
  have h4 := mulc_inj 0xff51afd7ed558ccd 0x4f74430c22a54005 (by decide) _ _ h3
  exact xs33_inj _ _ h4

theorem addmix_inj (A B A' B' : UInt64) (h0 : A + B = A' + B') (h1 : B + (A + B) = B' + (A' + B')) :
    A = A' ∧ B = B' := by grind

/-- the finalisation is injective in the pre-finalisation state (for one length) … -/
theorem finish_inj_state (h1 h2 : Hash) (len : Nat) (h : finish h1 len = finish h2 len) : h1 = h2 := by
  obtain ⟨a0, a1⟩ := h1
  obtain ⟨b0, b1⟩ := h2
  simp only [finish, Hash.mk.injEq] at h
  obtain ⟨hA, hB⟩ := addmix_inj _ _ _ _ h.1 h.2
  obtain ⟨h0, h1⟩ := addmix_inj _ _ _ _ (fmix_inj _ _ hA) (fmix_inj _ _ hB)
  simp only [Hash.mk.injEq]
  exact ⟨by simpa using h0, by simpa using h1⟩

/-- … and in the length (for one state): the length is xor-ed into both words first -/
theorem finish_inj_len (h : Hash) (l1 l2 : Nat) (e : finish h l1 = finish h l2) :
    l1.toUInt64 = l2.toUInt64 := by
  obtain ⟨a0, a1⟩ := h
  simp only [finish, Hash.mk.injEq] at e
  obtain ⟨hA, hB⟩ := addmix_inj _ _ _ _ e.1 e.2
  obtain ⟨h0, _⟩ := addmix_inj _ _ _ _ (fmix_inj _ _ hA) (fmix_inj _ _ hB)
  simpa using h0

end Vita.C03.USyn
