/-
  C03 — `murmurhash3::hash128` (src/kernel/cache_hash.h) as the model `Vita.Common.Murmur` reads
  it, in the syntax of `USyn`.  The term translated from the current sources (`GenPack.murmur`)
  must be this one (`Props.gen_murmur_as_modelled`, by `decide`); the theorems about MurmurHash3
  are proved for this term.
-/
import Vita.C03.USyn

namespace Vita.C03.USyn

def murmurAsModelled : MurmurSyn where
  blockLen := 16
  init :=
    [⟨.h0, .seed⟩,
     ⟨.h1, .seed⟩]
  loopBody :=
    [⟨.k1, (.block 2 0)⟩,
     ⟨.k2, (.block 2 1)⟩,
     ⟨.k1, (.mul (.reg .k1) (.lit 9782798678568883157))⟩,
     ⟨.k1, (.rotl (.reg .k1) (.lit 31))⟩,
     ⟨.k1, (.mul (.reg .k1) (.lit 5545529020109919103))⟩,
     ⟨.h0, (.xor (.reg .h0) (.reg .k1))⟩,
     ⟨.h0, (.rotl (.reg .h0) (.lit 27))⟩,
     ⟨.h0, (.add (.reg .h0) (.reg .h1))⟩,
     ⟨.h0, (.add (.mul (.reg .h0) (.lit 5)) (.lit 1390208809))⟩,
     ⟨.k2, (.mul (.reg .k2) (.lit 5545529020109919103))⟩,
     ⟨.k2, (.rotl (.reg .k2) (.lit 33))⟩,
     ⟨.k2, (.mul (.reg .k2) (.lit 9782798678568883157))⟩,
     ⟨.h1, (.xor (.reg .h1) (.reg .k2))⟩,
     ⟨.h1, (.rotl (.reg .h1) (.lit 31))⟩,
     ⟨.h1, (.add (.reg .h1) (.reg .h0))⟩,
     ⟨.h1, (.add (.mul (.reg .h1) (.lit 5)) (.lit 944331445))⟩]
  tailMul := 16
  tailInit :=
    [⟨.k1, (.lit 0)⟩,
     ⟨.k2, (.lit 0)⟩]
  switchMask := 15
  cases :=
    [(15, [⟨.k2, (.xor (.reg .k2) (.shl (.tailByte 14) (.lit 48)))⟩]),
     (14, [⟨.k2, (.xor (.reg .k2) (.shl (.tailByte 13) (.lit 40)))⟩]),
     (13, [⟨.k2, (.xor (.reg .k2) (.shl (.tailByte 12) (.lit 32)))⟩]),
     (12, [⟨.k2, (.xor (.reg .k2) (.shl (.tailByte 11) (.lit 24)))⟩]),
     (11, [⟨.k2, (.xor (.reg .k2) (.shl (.tailByte 10) (.lit 16)))⟩]),
     (10, [⟨.k2, (.xor (.reg .k2) (.shl (.tailByte 9) (.lit 8)))⟩]),
     (9, [⟨.k2, (.xor (.reg .k2) (.shl (.tailByte 8) (.lit 0)))⟩, ⟨.k2, (.mul (.reg .k2) (.lit 5545529020109919103))⟩, ⟨.k2, (.rotl (.reg .k2) (.lit 33))⟩, ⟨.k2, (.mul (.reg .k2) (.lit 9782798678568883157))⟩, ⟨.h1, (.xor (.reg .h1) (.reg .k2))⟩]),
     (8, [⟨.k1, (.xor (.reg .k1) (.shl (.tailByte 7) (.lit 56)))⟩]),
     (7, [⟨.k1, (.xor (.reg .k1) (.shl (.tailByte 6) (.lit 48)))⟩]),
     (6, [⟨.k1, (.xor (.reg .k1) (.shl (.tailByte 5) (.lit 40)))⟩]),
     (5, [⟨.k1, (.xor (.reg .k1) (.shl (.tailByte 4) (.lit 32)))⟩]),
     (4, [⟨.k1, (.xor (.reg .k1) (.shl (.tailByte 3) (.lit 24)))⟩]),
     (3, [⟨.k1, (.xor (.reg .k1) (.shl (.tailByte 2) (.lit 16)))⟩]),
     (2, [⟨.k1, (.xor (.reg .k1) (.shl (.tailByte 1) (.lit 8)))⟩]),
     (1, [⟨.k1, (.xor (.reg .k1) (.shl (.tailByte 0) (.lit 0)))⟩, ⟨.k1, (.mul (.reg .k1) (.lit 9782798678568883157))⟩, ⟨.k1, (.rotl (.reg .k1) (.lit 31))⟩, ⟨.k1, (.mul (.reg .k1) (.lit 5545529020109919103))⟩, ⟨.h0, (.xor (.reg .h0) (.reg .k1))⟩])]
  final :=
    [⟨.h0, (.xor (.reg .h0) .len)⟩,
     ⟨.h1, (.xor (.reg .h1) .len)⟩,
     ⟨.h0, (.add (.reg .h0) (.reg .h1))⟩,
     ⟨.h1, (.add (.reg .h1) (.reg .h0))⟩,
     ⟨.h0, (.fmix (.reg .h0))⟩,
     ⟨.h1, (.fmix (.reg .h1))⟩,
     ⟨.h0, (.add (.reg .h0) (.reg .h1))⟩,
     ⟨.h1, (.add (.reg .h1) (.reg .h0))⟩]
  getBlockBytes := 8
  rotlBody := (.or (.shl (.arg 0) (.arg 1)) (.shr (.arg 0) (.sub (.lit 64) (.arg 1))))
  fmixBody :=
    [⟨.k, (.xor (.reg .k) (.shr (.reg .k) (.lit 33)))⟩,
     ⟨.k, (.mul (.reg .k) (.lit 18397679294719823053))⟩,
     ⟨.k, (.xor (.reg .k) (.shr (.reg .k) (.lit 33)))⟩,
     ⟨.k, (.mul (.reg .k) (.lit 14181476777654086739))⟩,
     ⟨.k, (.xor (.reg .k) (.shr (.reg .k) (.lit 33)))⟩]


end Vita.C03.USyn
