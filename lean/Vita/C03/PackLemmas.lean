/-
  C03 — the translated code (`PackSyn`, `USyn`) against the model (`Model`, `Sig`,
  `Vita.Common.Murmur`): helper lemmas.
-/
import Vita.C03.PackSyn
import Vita.C03.USyn
import Vita.C03.Lemmas

namespace Vita.C03.PackSyn
open Vita.C03

theorem leBytes4_eq_opBytes (op : Nat) : leBytes op 4 = opBytes op := by
  simp only [leBytes, opBytes, Nat.div_div_eq_div_mul]

theorem leBytes8_eq_parBytes (p : Nat) : leBytes p 8 = parBytes p := by
  simp only [leBytes, parBytes, Nat.div_div_eq_div_mul]

theorem leBytes4_eq_intBytes (p : Nat) : leBytes p 4 = intBytes p := by
  simp only [leBytes, intBytes, Nat.div_div_eq_div_mul]

theorem leBytes_length (x n : Nat) : (leBytes x n).length = n := by
  induction n generalizing x with
  | zero => rfl
  | succ n ih => simp [leBytes, ih]

/-- the program text `packAsModelled` means `Model.packF` (any genome, any budget) -/
theorem runPackF_asModelled (tab : SymTab) (g : Genome) :
    ∀ (f : Nat) (l : Locus), runPackF packAsModelled tab g f l = packF tab g f l
  | 0, _ => rfl
  | f + 1, l => by
    have ih : runPackF packAsModelled tab g f = packF tab g f := funext (runPackF_asModelled tab g f)
    have h8 : ((leBytes (g.at l).par 8).drop 0).take (8 - 0) = parBytes (g.at l).par := by
      rw [leBytes8_eq_parBytes]; rfl
    have h2 : ((leBytes (g.at l).op 4).drop 0).take (4 - 0) = opBytes (g.at l).op := by
      rw [leBytes4_eq_opBytes]; rfl
    show exec tab (g.at l) (runPackF packAsModelled tab g f) packAsModelled = _
    rw [ih]
    simp only [packAsModelled, exec, PVal.eval, packF]
    simp only [h2, h8, show (4 : Nat) ≤ 4 from Nat.le_refl _, show (8 : Nat) ≤ 8 from Nat.le_refl _, if_true]
    by_cases ha : tab.arity (g.at l).op = 0
    · simp only [ha, ne_eq, not_true_eq_false, if_false, if_true]
      cases (tab (g.at l).op).parametric <;> simp
    · simp only [ha, ne_eq, not_false_eq_true, if_true, if_false]
      cases catWith (packF tab g f) (argLoci tab (g.at l)) <;> rfl

theorem runPack_asModelled (tab : SymTab) (g : Genome) (l : Locus) :
    runPack packAsModelled tab g l = pack tab g l := runPackF_asModelled tab g _ l

/-- `i_mep::hash` as modelled: whatever the scratch buffer contained, the hash of exactly the
    packed active code -/
theorem mepHash_asModelled {H : Type} (Hf : Bytes → H) (st : BufStorage) (pb b0 : Bytes) :
    ({ mepHashAsModelled with storage := st } : MepHashSyn).run Hf pb b0 = some (Hf pb) := by
  simp [MepHashSyn.run, mepHashAsModelled, runOps]

theorem vecBytes4_eq_packGa : ∀ v, vecBytes 4 v = packGa v
  | [] => rfl
  | x :: xs => by simp [vecBytes, packGa, leBytes4_eq_intBytes, vecBytes4_eq_packGa xs]

theorem vecBytes8_eq_packDe : ∀ v, vecBytes 8 v = packDe v
  | [] => rfl
  | x :: xs => by simp [vecBytes, packDe, leBytes8_eq_parBytes, vecBytes8_eq_packDe xs]

theorem vecBytes_length (w : Nat) : ∀ v, (vecBytes w v).length = v.length * w
  | [] => by simp [vecBytes]
  | x :: xs => by simp [vecBytes, leBytes_length, vecBytes_length w xs, Nat.add_mul, Nat.add_comm]

theorem gaHash_asModelled {H : Type} (Hf : Bytes → H) (v : List Nat) :
    gaHashAsModelled.run Hf v = some (Hf (packGa v)) := by
  have hl := vecBytes_length 4 v
  simp only [VecHashSyn.run, gaHashAsModelled, hl, Nat.le_refl, and_self, if_true]
  rw [← hl, List.take_length, vecBytes4_eq_packGa]

theorem deHash_asModelled {H : Type} (Hf : Bytes → H) (v : List Nat) :
    deHashAsModelled.run Hf v = some (Hf (packDe v)) := by
  have hl := vecBytes_length 8 v
  simp only [VecHashSyn.run, deHashAsModelled, hl, Nat.le_refl, and_self, if_true]
  rw [← hl, List.take_length, vecBytes8_eq_packDe]

theorem teamHash_asModelled {H : Type} [HashLike H] (sigs : List H) :
    teamHashAsModelled.run sigs = some (sigs.foldl HashLike.combine HashLike.empty) := by
  simp [TeamHashSyn.run, teamHashAsModelled]

end Vita.C03.PackSyn

namespace Vita.C03
open Vita.Murmur

/-- 37 is odd: multiplication by it is invertible modulo 2^64 -/
theorem mul37_inj (a b : UInt64) (h : a * 37 = b * 37) : a = b := by
  have e : (37 : UInt64) * 0x14c1bacf914c1bad = 1 := by decide
  have := congrArg (· * (0x14c1bacf914c1bad : UInt64)) h
  simp only [UInt64.mul_assoc, e, UInt64.mul_one] at this
  exact this

theorem swap37_iff (a x y : UInt64) :
    (a * 37 + x) * 37 + y = (a * 37 + y) * 37 + x ↔ 36 * x = 36 * y := by grind

theorem foldl_combine_inj_acc : ∀ (s : List Hash) (a b : Hash),
    s.foldl Hash.combine a = s.foldl Hash.combine b → a = b
  | [], _, _, h => h
  | x :: s, a, b, h => by
    have h1 := foldl_combine_inj_acc s _ _ h
    cases a; cases b
    simp only [Hash.combine, Hash.mk.injEq] at h1
    simp only [Hash.mk.injEq]
    exact ⟨mul37_inj _ _ (by grind), mul37_inj _ _ (by grind)⟩

end Vita.C03
