/-
  C03 — syntax (target of tools/translate_pack.py) and meaning of the functions that turn an
  individual into the hashed byte stream:

    i_mep::pack                 `PStm`            (opcode bytes, recursion over the arguments,
                                                   parameter bytes of parametric terminals)
    i_mep::hash                 `MepHashSyn`      (scratch buffer, clear, pack(best()), hash128)
    team<T>::hash               `TeamHashSyn`     (fold of hash_t::combine over member signatures)
    i_ga::hash / i_de::hash     `VecHashSyn`      (raw bytes of the genome vector)
    hash_t::combine             `List UStm`       (see `Vita.C03.USyn`)

  The translator is syntax only; everything semantic is here (hand written) and the theorems
  about the generated terms are in Props.lean.
-/
import Vita.C03.Model
import Vita.C03.Sig

namespace Vita.C03.PackSyn
open Vita.C03

/-! ### i_mep::pack -/

/-- a value read from the gene `g` -/
inductive PVal where
  | opcode                       -- g.sym->opcode()          (opcode_t = unsigned, 4 bytes)
  | par                          -- g.par                    (double, 8 bytes, as its bit pattern)
  | castU (bits : Nat) (v : PVal)   -- static_cast to an unsigned integer type of `bits` bits
  | castF32 (v : PVal)           -- conversion to float: a rounding, not a reinterpretation
  | castOther (v : PVal)         -- any other conversion
deriving DecidableEq, Repr

inductive PStm where
  | skip
  | seq (a b : PStm)
  /-- `s = reinterpret_cast<const std::byte *>(&x); for (i = lo; i < hi; ++i) p->push_back(s[i]);`
      where `x` holds the value `v` -/
  | pushBytes (v : PVal) (lo hi : Nat)
  | ifArity (t e : PStm)         -- if (g.sym->arity()) t else e
  | ifParam (t e : PStm)         -- if (terminal::cast(g.sym)->parametric()) t else e
  | forArgs                      -- for (const auto &al : g.arguments()) pack(al, p);
deriving DecidableEq, Repr

/-- `n` little-endian bytes of `x` -/
def leBytes (x : Nat) : Nat → Bytes
  | 0 => []
  | n + 1 => x % 256 :: leBytes (x / 256) n

/-- value and object size in bytes (`none`: not a reinterpretation of the stored value) -/
def PVal.eval (ge : Gene) : PVal → Option (Nat × Nat)
  | .opcode => some (ge.op, 4)
  | .par => some (ge.par, 8)
  | .castU bits v => (v.eval ge).map fun xw => (xw.1 % 2 ^ bits, bits / 8)
  | .castF32 _ => none
  | .castOther _ => none

/-- one activation of `pack` on gene `ge`; `self` is the recursive call -/
def exec (tab : SymTab) (ge : Gene) (self : Locus → Option Bytes) : PStm → Option Bytes
  | .skip => some []
  | .seq a b =>
    match exec tab ge self a, exec tab ge self b with
    | some x, some y => some (x ++ y)
    | _, _ => none
  | .pushBytes v lo hi =>
    match v.eval ge with
    | some (x, w) => if hi ≤ w then some (((leBytes x w).drop lo).take (hi - lo)) else none
    | none => none
  | .ifArity t e => if tab.arity ge.op ≠ 0 then exec tab ge self t else exec tab ge self e
  | .ifParam t e => if (tab ge.op).parametric then exec tab ge self t else exec tab ge self e
  | .forArgs => catWith self (argLoci tab ge)

/-- `pack(l, &p)` for a program text `prog`, recursion budget as in `Model.packF` -/
def runPackF (prog : PStm) (tab : SymTab) (g : Genome) : Nat → Locus → Option Bytes
  | 0, _ => none
  | f + 1, l => exec tab (g.at l) (runPackF prog tab g f) prog

def runPack (prog : PStm) (tab : SymTab) (g : Genome) (l : Locus) : Option Bytes :=
  runPackF prog tab g (g.rows - l.1) l

/-- `i_mep::pack` as the model (`Model.packF`) reads it -/
def packAsModelled : PStm :=
  .seq (.pushBytes .opcode 0 4)
       (.ifArity .forArgs (.ifParam (.pushBytes .par 0 8) .skip))

/-! ### where opcodes come from -/

/-- `symbol::symbol` initialises `opcode_` from a static counter of an unsigned type -/
structure CounterSyn where
  init : Nat             -- opcode_t symbol::opc_count_(init)
  postIncrement : Bool   -- opc_count_++ (true) / ++opc_count_ (false)
  bits : Nat             -- width of opcode_t
deriving DecidableEq, Repr

/-- the opcode of the `k`-th symbol constructed in the process (k = 0, 1, …): the counter is
    process-wide (every constructed symbol counts, also those of other / destroyed symbol sets)
    and wraps around silently -/
def CounterSyn.opcodeOf (c : CounterSyn) (k : Nat) : Nat :=
  (c.init + k + (if c.postIncrement then 0 else 1)) % 2 ^ c.bits

def counterAsModelled : CounterSyn := ⟨0, true, 32⟩

/-! ### i_mep::hash -/

inductive BufStorage where
  | automatic | threadLocal | static
deriving DecidableEq, Repr

inductive HOp where
  | clear          -- packed.clear();
  | packBest       -- pack(best(), &packed);
deriving DecidableEq, Repr

structure MepHashSyn where
  storage : BufStorage         -- storage class of the scratch buffer
  ops : List HOp               -- statements before the return, in order
  lenFactor : Nat              -- len = packed.size() * sizeof(packed[0])
  hashesBuffer : Bool          -- return hash128(packed.data(), len)
deriving DecidableEq, Repr

def runOps (packBest : Bytes) : List HOp → Bytes → Bytes
  | [], b => b
  | .clear :: r, _ => runOps packBest r []
  | .packBest :: r, b => runOps packBest r (b ++ packBest)

/-- `b0` = what the previous call on this thread left in a non-automatic buffer -/
def MepHashSyn.run {H : Type} (s : MepHashSyn) (Hf : Bytes → H) (packBest : Bytes) (b0 : Bytes) :
    Option H :=
  let buf := runOps packBest s.ops (if s.storage = .automatic then [] else b0)
  if s.hashesBuffer ∧ buf.length * s.lenFactor ≤ buf.length then
    some (Hf (buf.take (buf.length * s.lenFactor)))
  else none

def mepHashAsModelled : MepHashSyn := ⟨.threadLocal, [.clear, .packBest], 1, true⟩

/-! ### team<T>::hash -/

inductive TeamStep where
  | accCombineSig      -- ret.combine(i.signature())
  | other
deriving DecidableEq, Repr

structure TeamHashSyn where
  initZero : Bool          -- hash_t ret;   (both words 0)
  forward : Bool           -- std::for_each(begin(), end(), …)
  step : TeamStep
  returnsAcc : Bool
deriving DecidableEq, Repr

def teamHashAsModelled : TeamHashSyn := ⟨true, true, .accCombineSig, true⟩

/-- the value returned for a team whose members report the signatures `sigs` (in member order) -/
def TeamHashSyn.run {H : Type} [HashLike H] (s : TeamHashSyn) (sigs : List H) : Option H :=
  if s.initZero ∧ s.returnsAcc ∧ s.step = .accCombineSig then
    some ((if s.forward then sigs else sigs.reverse).foldl HashLike.combine HashLike.empty)
  else none

/-! ### i_ga::hash / i_de::hash -/

structure VecHashSyn where
  elemBytes : Nat          -- sizeof(genome_[0])
  lenFactor : Nat          -- len = genome_.size() * lenFactor
  dataIsGenome : Bool      -- hash128(genome_.data(), len)
deriving DecidableEq, Repr

def vecBytes (w : Nat) : List Nat → Bytes
  | [] => []
  | x :: xs => leBytes x w ++ vecBytes w xs

def VecHashSyn.run {H : Type} (s : VecHashSyn) (Hf : Bytes → H) (v : List Nat) : Option H :=
  if s.dataIsGenome ∧ v.length * s.lenFactor ≤ (vecBytes s.elemBytes v).length then
    some (Hf ((vecBytes s.elemBytes v).take (v.length * s.lenFactor)))
  else none

def gaHashAsModelled : VecHashSyn := ⟨4, 4, true⟩
def deHashAsModelled : VecHashSyn := ⟨8, 8, true⟩

end Vita.C03.PackSyn
