/-
  C03 — a signature identifies the active program and is never stale.

  Part A (identity).  The byte stream hashed by `i_mep::hash` is a function of the active
  expression tree only (`pack_layout_indep`, `pack_ignores_inactive`), and an injective one
  (`pack_injective`): equal streams ⇔ equal trees (`pack_eq_iff_tree_eq`).  Hence, for ANY
  hash function, equal trees give equal signatures (`sig_eq_of_tree_eq`); conversely, where
  the hash function does not collide on the two streams, equal signatures give equal trees
  and equal outputs under every semantics of the symbols (`tree_eq_of_sig_eq`,
  `run_eq_of_sig_eq`).  Same for integer / real vectors and teams.

  Part B (freshness).  `SigInv` (cache empty or equal to the hash of the current content)
  is established by every constructor and preserved by every public mutating operation of
  i_mep, i_ga, i_de, team, each modelled with the treatment of `signature_` extracted from
  the current sources; so `signature()` always returns the hash of the current content
  (`*_signature_fresh`).
-/
import Vita.C03.Lemmas
import Vita.C03.Sig
import Vita.C03.EffSound
import Vita.C03.SigPath
import Vita.C03.GenSigPath
import Vita.C03.PackLemmas
import Vita.C03.MurmurLemmas
import Vita.C03.GenPack
import Vita.Common.Murmur

namespace Vita.C03
open HashLike

/-! ## Part A — what the signature identifies -/

/-- `pack` never looks at anything but the active tree: on a well-formed genome the stream
    packed from locus `l` is the stream of the unfolded tree (defined, and well formed). -/
theorem pack_layout_indep (tab : SymTab) (g : Genome) (wf : WF tab g) (l : Locus)
    (hi : l.1 < g.rows) (hc : l.2 < g.cols) :
    ∃ t, unfold tab g l = some t ∧ WFT tab t ∧ pack tab g l = some (packTree tab t) := by
  obtain ⟨t, h1, h2, h3, _⟩ :=
    genome_tree_spec (V := Unit) tab (fun _ _ _ => ()) g wf (g.rows - l.1) l hi hc (Nat.le_refl _)
  exact ⟨t, h1, h2, h3⟩

/-- The stream is a prefix code: opcode determines arity and whether a parameter follows. -/
theorem pack_injective (tab : SymTab) (t1 t2 : Tree) (w1 : WFT tab t1) (w2 : WFT tab t2)
    (h : packTree tab t1 = packTree tab t2) : t1 = t2 := by
  have := packTree_prefix_inj tab t1 t2 [] [] w1 w2 (by simpa using h)
  exact this.1

/-- equal byte streams ⇔ equal active trees (two individuals, any layouts, any sizes) -/
theorem pack_eq_iff_tree_eq (tab : SymTab) (g1 g2 : Genome) (wf1 : WF tab g1) (wf2 : WF tab g2)
    (l1 l2 : Locus) (h1 : l1.1 < g1.rows ∧ l1.2 < g1.cols) (h2 : l2.1 < g2.rows ∧ l2.2 < g2.cols) :
    pack tab g1 l1 = pack tab g2 l2 ↔ unfold tab g1 l1 = unfold tab g2 l2 := by
  obtain ⟨t1, u1, w1, p1⟩ := pack_layout_indep tab g1 wf1 l1 h1.1 h1.2
  obtain ⟨t2, u2, w2, p2⟩ := pack_layout_indep tab g2 wf2 l2 h2.1 h2.2
  rw [u1, u2, p1, p2]
  constructor
  · intro h
    have : packTree tab t1 = packTree tab t2 := by simpa using h
    rw [pack_injective tab t1 t2 w1 w2 this]
  · intro h
    have : t1 = t2 := by simpa using h
    rw [this]

/-- loci reachable from `l` through argument references: the active code -/
inductive Active (tab : SymTab) (g : Genome) : Locus → Locus → Prop
  | root (l) : Active tab g l l
  | arg {l m k} : Active tab g l m → k ∈ argLoci tab (g.at m) → Active tab g l k

/-- Changing genes outside the active tree never changes the packed stream (no
    well-formedness needed, any recursion budget). -/
theorem packF_ignores_inactive (tab : SymTab) (g g' : Genome) :
    ∀ (f : Nat) (l : Locus), (∀ m, Active tab g l m → g'.at m = g.at m) →
      packF tab g' f l = packF tab g f l
  | 0, _, _ => rfl
  | f + 1, l, h => by
    have hl : g'.at l = g.at l := h l (.root l)
    have hk : ∀ k ∈ argLoci tab (g.at l), packF tab g' f k = packF tab g f k := by
      intro k hk
      apply packF_ignores_inactive tab g g' f k
      intro m hm
      apply h m
      -- prepend the step l → k to the path k →* m
      clear h hl
      induction hm with
      | root => exact .arg (.root l) hk
      | arg _ hmem ih => exact .arg ih hmem
    simp only [packF, hl, catWith_congr _ hk]

theorem pack_ignores_inactive (tab : SymTab) (g g' : Genome) (l : Locus) (hr : g'.rows = g.rows)
    (h : ∀ m, Active tab g l m → g'.at m = g.at m) : pack tab g' l = pack tab g l := by
  unfold pack
  rw [hr]
  exact packF_ignores_inactive tab g g' _ l h

/-- in particular: overwriting one inactive gene (an intron) -/
theorem pack_set_intron (tab : SymTab) (g : Genome) (l k : Locus) (ge : Gene)
    (hk : ¬ Active tab g l k) : pack tab (g.set k ge) l = pack tab g l := by
  apply pack_ignores_inactive tab g (g.set k ge) l rfl
  intro m hm
  have : m ≠ k := fun e => hk (e ▸ hm)
  unfold Genome.at Genome.set
  have h2 : ¬ (m.1 = k.1 ∧ m.2 = k.2) := fun ⟨a, b⟩ => this (Prod.ext a b)
  simp [h2]

set_option linter.unusedSectionVars false
section identity
variable {H : Type} [HashLike H] (Hf : Bytes → H) (tab : SymTab)

/-- ANY hash function: same active tree ⇒ same hash, whatever the layout / introns / size. -/
theorem hash_eq_of_tree_eq (c1 c2 : MepC) (wf1 : WF tab c1.g) (wf2 : WF tab c2.g)
    (h1 : c1.best.1 < c1.g.rows ∧ c1.best.2 < c1.g.cols)
    (h2 : c2.best.1 < c2.g.rows ∧ c2.best.2 < c2.g.cols)
    (ht : unfold tab c1.g c1.best = unfold tab c2.g c2.best) :
    mepHash Hf tab c1 = mepHash Hf tab c2 := by
  unfold mepHash
  rw [(pack_eq_iff_tree_eq tab c1.g c2.g wf1 wf2 c1.best c2.best h1 h2).2 ht]

/-- … and therefore the same reported signature, provided neither cache is stale. -/
theorem sig_eq_of_tree_eq (s1 s2 : Mep H) (wf1 : WF tab s1.content.g) (wf2 : WF tab s2.content.g)
    (h1 : s1.content.best.1 < s1.content.g.rows ∧ s1.content.best.2 < s1.content.g.cols)
    (h2 : s2.content.best.1 < s2.content.g.rows ∧ s2.content.best.2 < s2.content.g.cols)
    (i1 : SigInv (mepHash Hf tab) s1) (i2 : SigInv (mepHash Hf tab) s2)
    (ht : unfold tab s1.content.g s1.content.best = unfold tab s2.content.g s2.content.best) :
    signatureVal (mepHash Hf tab) s1 = signatureVal (mepHash Hf tab) s2 := by
  have e := hash_eq_of_tree_eq Hf tab s1.content s2.content wf1 wf2 h1 h2 ht
  have f1 : signatureVal (mepHash Hf tab) s1 = mepHash Hf tab s1.content := by
    unfold signatureVal; rcases i1 with h | h <;> simp [h]
  have f2 : signatureVal (mepHash Hf tab) s2 = mepHash Hf tab s2.content := by
    unfold signatureVal; rcases i2 with h | h <;> simp [h]
  rw [f1, f2, e]

/-- Collision freedom is a hypothesis (it is false for a 128-bit hash over all inputs): if `Hf`
    does not collide on the two packed streams, equal hashes ⇒ equal active trees. -/
theorem tree_eq_of_hash_eq (c1 c2 : MepC) (wf1 : WF tab c1.g) (wf2 : WF tab c2.g)
    (h1 : c1.best.1 < c1.g.rows ∧ c1.best.2 < c1.g.cols)
    (h2 : c2.best.1 < c2.g.rows ∧ c2.best.2 < c2.g.cols)
    (nocoll : ∀ b1 b2, pack tab c1.g c1.best = some b1 → pack tab c2.g c2.best = some b2 →
                Hf b1 = Hf b2 → b1 = b2)
    (hs : mepHash Hf tab c1 = mepHash Hf tab c2) :
    unfold tab c1.g c1.best = unfold tab c2.g c2.best := by
  obtain ⟨t1, _, _, p1⟩ := pack_layout_indep tab c1.g wf1 c1.best h1.1 h1.2
  obtain ⟨t2, _, _, p2⟩ := pack_layout_indep tab c2.g wf2 c2.best h2.1 h2.2
  apply (pack_eq_iff_tree_eq tab c1.g c2.g wf1 wf2 c1.best c2.best h1 h2).1
  unfold mepHash at hs
  rw [p1, p2] at hs ⊢
  simp only [Option.getD_some] at hs
  rw [nocoll _ _ p1 p2 hs]

/-- equal signatures ⇒ equal outputs: for every semantics `sem` of the symbols (which includes
    the input example: variables are symbols), the two programs compute the same value. -/
theorem run_eq_of_hash_eq {V : Type} (sem : Nat → Nat → List V → V) (c1 c2 : MepC)
    (wf1 : WF tab c1.g) (wf2 : WF tab c2.g)
    (h1 : c1.best.1 < c1.g.rows ∧ c1.best.2 < c1.g.cols)
    (h2 : c2.best.1 < c2.g.rows ∧ c2.best.2 < c2.g.cols)
    (nocoll : ∀ b1 b2, pack tab c1.g c1.best = some b1 → pack tab c2.g c2.best = some b2 →
                Hf b1 = Hf b2 → b1 = b2)
    (hs : mepHash Hf tab c1 = mepHash Hf tab c2) :
    eval tab sem c1.g c1.best = eval tab sem c2.g c2.best := by
  have ht := tree_eq_of_hash_eq Hf tab c1 c2 wf1 wf2 h1 h2 nocoll hs
  obtain ⟨t1, u1, _, _, e1⟩ :=
    genome_tree_spec tab sem c1.g wf1 (c1.g.rows - c1.best.1) c1.best h1.1 h1.2 (Nat.le_refl _)
  obtain ⟨t2, u2, _, _, e2⟩ :=
    genome_tree_spec tab sem c2.g wf2 (c2.g.rows - c2.best.1) c2.best h2.1 h2.2 (Nat.le_refl _)
  unfold unfold at ht
  rw [u1, u2] at ht
  have : t1 = t2 := by simpa using ht
  unfold eval
  rw [e1, e2, this]

/-- the value of a program is the value of its active tree (so it cannot depend on layout) -/
theorem eval_eq_evalTree {V : Type} (sem : Nat → Nat → List V → V) (g : Genome) (wf : WF tab g)
    (l : Locus) (hi : l.1 < g.rows) (hc : l.2 < g.cols) :
    ∃ t, unfold tab g l = some t ∧ eval tab sem g l = some (evalTree sem t) := by
  obtain ⟨t, u, _, _, e⟩ := genome_tree_spec tab sem g wf (g.rows - l.1) l hi hc (Nat.le_refl _)
  exact ⟨t, u, e⟩

/-- integer vectors: the hashed bytes determine the vector (elements are 32-bit patterns) -/
theorem ga_hash_eq_iff (v w : List Nat) (hv : ∀ x ∈ v, x < 2 ^ 32) (hw : ∀ x ∈ w, x < 2 ^ 32)
    (nocoll : Hf (packGa v) = Hf (packGa w) → packGa v = packGa w) :
    gaHash Hf v = gaHash Hf w ↔ v = w := by
  constructor
  · intro h; exact packGa_inj v w hv hw (nocoll h)
  · intro h; rw [h]

/-- real vectors (elements are 64-bit patterns: `-0.0` and `+0.0` are different vectors) -/
theorem de_hash_eq_iff (v w : List Nat) (hv : ∀ x ∈ v, x < 2 ^ 64) (hw : ∀ x ∈ w, x < 2 ^ 64)
    (nocoll : Hf (packDe v) = Hf (packDe w) → packDe v = packDe w) :
    deHash Hf v = deHash Hf w ↔ v = w := by
  constructor
  · intro h; exact packDe_inj v w hv hw (nocoll h)
  · intro h; rw [h]

end identity

/-! ## Part A′ — the same statements about the code as TRANSLATED from the clang AST

`GenPack` is regenerated from the current sources on every run (tools/translate_pack.py):
`i_mep::pack`, `i_mep::hash`, `i_ga::hash`, `i_de::hash`, `team::hash`, `hash_t::combine`.  The
terms must be the ones the model was written from (`*_as_modelled`, by `decide`); the meaning
of those terms (`PackSyn.runPack`, `MepHashSyn.run`, …) is proved equal to the model, so the
theorems of Part A hold for the generated terms. -/

section translated
open PackSyn USyn

theorem gen_pack_as_modelled : GenPack.pack = packAsModelled := by decide
/-- (the storage class of the scratch buffer is free here — automatic or `thread_local` —; a
    `static` one is rejected by `sigpath_no_shared_state`) -/
theorem gen_mepHash_as_modelled :
    GenPack.mepHash = { mepHashAsModelled with storage := GenPack.mepHash.storage } := by decide
theorem gen_gaHash_as_modelled : GenPack.gaHash = gaHashAsModelled := by decide
theorem gen_deHash_as_modelled : GenPack.deHash = deHashAsModelled := by decide
theorem gen_teamHash_as_modelled : GenPack.teamHash = teamHashAsModelled := by decide
theorem gen_combine_as_modelled : GenPack.combine = combineAsModelled := by decide

/-- the translated `i_mep::pack` computes `Model.pack` on every genome -/
theorem gen_pack_eq_model (tab : SymTab) (g : Genome) (l : Locus) :
    runPack GenPack.pack tab g l = pack tab g l := by
  rw [gen_pack_as_modelled]; exact runPack_asModelled tab g l

/-- layout independence, for the translated code -/
theorem gen_pack_layout_indep (tab : SymTab) (g : Genome) (wf : WF tab g) (l : Locus)
    (hi : l.1 < g.rows) (hc : l.2 < g.cols) :
    ∃ t, unfold tab g l = some t ∧ WFT tab t ∧
      runPack GenPack.pack tab g l = some (packTree tab t) := by
  rw [gen_pack_eq_model]; exact pack_layout_indep tab g wf l hi hc

/-- equal streams ⇔ equal active trees, for the translated code (all four opcode bytes, all eight
    parameter bytes: this is where "single precision" or "skip the high byte" would fail) -/
theorem gen_pack_injective (tab : SymTab) (g1 g2 : Genome) (wf1 : WF tab g1) (wf2 : WF tab g2)
    (l1 l2 : Locus) (h1 : l1.1 < g1.rows ∧ l1.2 < g1.cols) (h2 : l2.1 < g2.rows ∧ l2.2 < g2.cols) :
    runPack GenPack.pack tab g1 l1 = runPack GenPack.pack tab g2 l2 ↔
      unfold tab g1 l1 = unfold tab g2 l2 := by
  rw [gen_pack_eq_model, gen_pack_eq_model]
  exact pack_eq_iff_tree_eq tab g1 g2 wf1 wf2 l1 l2 h1 h2

/-- the translated `i_mep::hash` returns the hash of exactly the stream packed from `best()`,
    whatever an earlier call left in the scratch buffer -/
theorem gen_mep_hash {H : Type} [HashLike H] (Hf : Bytes → H) (tab : SymTab) (c : MepC) (b0 : Bytes) :
    GenPack.mepHash.run Hf ((runPack GenPack.pack tab c.g c.best).getD []) b0 =
      some (mepHash Hf tab c) := by
  rw [gen_mepHash_as_modelled, gen_pack_eq_model, mepHash_asModelled]; rfl

/-- the translated `i_ga::hash` / `i_de::hash` hash the raw bytes of every element -/
theorem gen_ga_hash {H : Type} [HashLike H] (Hf : Bytes → H) (v : List Nat) :
    GenPack.gaHash.run Hf v = some (gaHash Hf v) := by
  rw [gen_gaHash_as_modelled, gaHash_asModelled]; rfl

theorem gen_de_hash {H : Type} [HashLike H] (Hf : Bytes → H) (v : List Nat) :
    GenPack.deHash.run Hf v = some (deHash Hf v) := by
  rw [gen_deHash_as_modelled, deHash_asModelled]; rfl

/-- the translated `team::hash` is the left fold of `combine` over the members' signatures, in
    member order, from the empty hash -/
theorem gen_team_hash {C H : Type} [HashLike H] (hashOf : C → H) (ms : List (Cached C H)) :
    GenPack.teamHash.run (ms.map (signatureVal hashOf)) = some (teamHash hashOf ms) := by
  rw [gen_teamHash_as_modelled, teamHash_asModelled]
  simp [teamHash, List.foldl_map]

/-- the translated `hash_t::combine` is `data[k] = data[k] * 37 + h.data[k]` -/
theorem gen_combine_eq (a h : Vita.Murmur.Hash) :
    runCombine GenPack.combine a h = a.combine h := by
  rw [gen_combine_as_modelled]; rfl

/-! `hash_t::combine` and the order of the members of a team -/

/-- changing the LAST member combined changes the result -/
theorem combine_inj_right (a x y : Vita.Murmur.Hash) (h : a.combine x = a.combine y) : x = y := by
  cases x; cases y
  simp only [Vita.Murmur.Hash.combine, Vita.Murmur.Hash.mk.injEq] at h
  simp only [Vita.Murmur.Hash.mk.injEq]
  exact ⟨by grind, by grind⟩

/-- … and so does changing what was accumulated before (37 is odd) -/
theorem combine_inj_left (a b x : Vita.Murmur.Hash) (h : a.combine x = b.combine x) : a = b :=
  foldl_combine_inj_acc [x] a b h

/-- two teams that differ in exactly one member (whose signatures differ) never collide through
    `combine`: the fold is injective in every single position -/
theorem team_hash_one_member (p s : List Vita.Murmur.Hash) (x y a : Vita.Murmur.Hash)
    (h : (p ++ x :: s).foldl Vita.Murmur.Hash.combine a = (p ++ y :: s).foldl Vita.Murmur.Hash.combine a) :
    x = y := by
  simp only [List.foldl_append, List.foldl_cons] at h
  exact combine_inj_right _ _ _ (foldl_combine_inj_acc s _ _ h)

/-- the order of the members matters: exchanging two adjacent members with signatures `x`, `y`
    keeps the team hash only if `36·x = 36·y` in both words, i.e. `x ≡ y (mod 2^62)` — a
    commutative `combine` (x + y, x xor y) would make this an unconditional equality -/
theorem team_hash_swap_iff (s : List Vita.Murmur.Hash) (x y a : Vita.Murmur.Hash) :
    (x :: y :: s).foldl Vita.Murmur.Hash.combine a = (y :: x :: s).foldl Vita.Murmur.Hash.combine a ↔
      36 * x.d0 = 36 * y.d0 ∧ 36 * x.d1 = 36 * y.d1 := by
  simp only [List.foldl_cons]
  constructor
  · intro h
    have := foldl_combine_inj_acc s _ _ h
    simp only [Vita.Murmur.Hash.combine, Vita.Murmur.Hash.mk.injEq] at this
    exact ⟨(swap37_iff _ _ _).1 this.1, (swap37_iff _ _ _).1 this.2⟩
  · intro h
    have e : (a.combine x).combine y = (a.combine y).combine x := by
      simp only [Vita.Murmur.Hash.combine, Vita.Murmur.Hash.mk.injEq]
      exact ⟨(swap37_iff _ _ _).2 h.1, (swap37_iff _ _ _).2 h.2⟩
    rw [e]

example : ([⟨1, 0⟩, ⟨2, 0⟩] : List Vita.Murmur.Hash).foldl Vita.Murmur.Hash.combine ⟨0, 0⟩ ≠
    ([⟨2, 0⟩, ⟨1, 0⟩] : List Vita.Murmur.Hash).foldl Vita.Murmur.Hash.combine ⟨0, 0⟩ := by decide

/-! Where opcodes come from (`symbol::symbol`: `opcode_(opc_count_++)`, one process-wide counter)
    and the premise "`op < 2^32`, different symbols have different hashed opcode bytes" -/

theorem gen_counter_as_modelled : GenPack.opcodeCounter = counterAsModelled := by decide

/-- the first 2^32 symbols constructed in a process get pairwise different opcodes, all below 2^32
    (the bound `WF` / `WFT` ask for) -/
theorem opcodes_distinct (i j : Nat) (hi : i < 2 ^ 32) (hj : j < 2 ^ 32)
    (h : GenPack.opcodeCounter.opcodeOf i = GenPack.opcodeCounter.opcodeOf j) : i = j := by
  rw [gen_counter_as_modelled] at h
  simp only [CounterSyn.opcodeOf, counterAsModelled, if_true] at h
  omega

theorem opcodes_bounded (k : Nat) : GenPack.opcodeCounter.opcodeOf k < 4294967296 := by
  rw [gen_counter_as_modelled]
  simp only [CounterSyn.opcodeOf, counterAsModelled]
  omega

/-- … and `pack` hashes different bytes for them (all four bytes of the opcode are pushed) -/
theorem opcode_bytes_distinct (tab : SymTab) (self : Locus → Option Bytes) (g1 g2 : Gene) (i j : Nat)
    (hi : i < 2 ^ 32) (hj : j < 2 ^ 32) (hij : i ≠ j)
    (h1 : g1.op = GenPack.opcodeCounter.opcodeOf i) (h2 : g2.op = GenPack.opcodeCounter.opcodeOf j) :
    exec tab g1 self (.pushBytes .opcode 0 4) ≠ exec tab g2 self (.pushBytes .opcode 0 4) := by
  intro h
  simp only [exec, PVal.eval, Nat.le_refl, if_true, List.drop_zero, Nat.sub_zero, Option.some.injEq] at h
  rw [show ∀ x, List.take 4 (leBytes x 4) = leBytes x 4 from fun x =>
        List.take_of_length_le (by rw [leBytes_length]; exact Nat.le_refl _),
      leBytes4_eq_opBytes, leBytes4_eq_opBytes] at h
  have := opBytes_inj (h1 ▸ opcodes_bounded i) (h2 ▸ opcodes_bounded j) h
  exact hij (opcodes_distinct i j hi hj (h1 ▸ h2 ▸ this))

/-- beyond: the counter is NOT guarded, after 2^32 constructions it silently wraps (4.3·10^9
    symbols: out of reach) … -/
theorem opcodes_wrap : GenPack.opcodeCounter.opcodeOf (2 ^ 32) = GenPack.opcodeCounter.opcodeOf 0 := by
  rw [gen_counter_as_modelled]; decide

/-- … whereas a `pack` that keeps only 16 bits of the opcode (as vita did: finding
    C03-opcode-truncation) already confuses the 1st and the 65537th symbol of a process -/
example : (PVal.castU 16 .opcode).eval ⟨GenPack.opcodeCounter.opcodeOf 65536, 0, []⟩ =
    (PVal.castU 16 .opcode).eval ⟨GenPack.opcodeCounter.opcodeOf 0, 0, []⟩ := by decide

end translated

/-! non-vacuity: a concrete symbol table and two layouts of `ADD(X, 2.5)` with different introns -/
section example_
def exTab : SymTab := fun op =>
  if op = 1 then ⟨[0, 0], false⟩          -- ADD
  else if op = 2 then ⟨[], true⟩           -- REAL (parametric)
  else ⟨[], false⟩                         -- X, …
def exG1 : Genome := ⟨3, 1, fun i _ =>
  if i = 0 then ⟨1, 77, [1, 2]⟩ else if i = 1 then ⟨3, 0, []⟩ else ⟨2, 4612811918334230528, []⟩⟩
def exG2 : Genome := ⟨4, 1, fun i _ =>
  if i = 0 then ⟨3, 0, []⟩ else if i = 1 then ⟨1, 5, [2, 3]⟩ else if i = 2 then ⟨3, 9, []⟩
  else ⟨2, 4612811918334230528, []⟩⟩
example : pack exTab exG1 (0, 0) = pack exTab exG2 (1, 0) := by decide
example : unfold exTab exG1 (0, 0) = unfold exTab exG2 (1, 0) := by decide
example : pack exTab exG1 (0, 0) =
    some [1, 0, 0, 0, 3, 0, 0, 0, 2, 0, 0, 0, 0, 0, 0, 0, 0, 0, 4, 64] := by decide
example : pack exTab exG1 (0, 0) ≠ pack exTab exG1 (1, 0) := by decide
end example_


/-! ## Part B — the cached signature is never stale -/

open Eff

section generic
variable {C H : Type} [HashLike H] (hashOf : C → H)

/-- under the invariant, `signature()` returns the hash of the CURRENT content -/
theorem signature_fresh (s : Cached C H) (i : SigInv hashOf s) :
    signatureVal hashOf s = hashOf s.content := by
  unfold signatureVal; rcases i with h | h <;> simp [h]

theorem sig_inv_signature (s : Cached C H) (i : SigInv hashOf s) :
    SigInv hashOf (signatureOp hashOf s) := by
  unfold signatureOp SigInv
  right
  exact signature_fresh hashOf s i

/-- a content change followed by `clear()` or by `signature_ = hash()` re-establishes the
    invariant, whatever the new content -/
theorem sig_inv_update (k : ResetKind) (hk : k ≠ .none) (c : C) (s : Cached C H) :
    SigInv hashOf (update hashOf k c s) := by
  unfold update applyReset SigInv
  cases k with
  | none => exact absurd rfl hk
  | clear => left; exact isEmpty_empty
  | recompute => right; rfl

/-- every constructor starts with an empty signature -/
theorem sig_inv_init (c : C) : SigInv hashOf (⟨c, empty⟩ : Cached C H) := Or.inl isEmpty_empty

end generic

/-! ### generated obligations (regenerated from the clang AST on every run) -/

set_option maxRecDepth 100000 in
/-- Every public member function / friend of i_mep, i_ga, i_de, team, individual that touches the
    content or the cache passes the analysis: by `Eff.safe_sound`, in every execution of its effect
    skeleton each object in scope has an empty or up-to-date signature at every `return`, a
    constructor leaves the signature empty, and mutable references / iterators into the content
    are only handed out with the cache cleared. -/
theorem mutators_reset : ∀ m ∈ GenMutators.table, Eff.safe m = true := by decide

theorem mutators_sound (h : Nat → Nat) (m : Eff.Method) (hm : m ∈ GenMutators.table) (σ : Eff.St)
    (hinit : Eff.Sat h m.init σ) : ¬ Eff.Exec h m.body σ .fail :=
  Eff.safe_sound h m (mutators_reset m hm) σ hinit

/-- how the operations modelled below treat `signature_`, as extracted from the sources -/
theorem resets_as_modelled :
    (GenMutators.resetOf "i_mep" "get_block" ≠ .none) ∧ (GenMutators.resetOf "i_mep" "replace" ≠ .none) ∧
    (GenMutators.resetOf "i_mep" "destroy_block" ≠ .none) ∧ (GenMutators.resetOf "i_mep" "mutation" ≠ .none) ∧
    (GenMutators.resetOf "i_mep" "crossover" ≠ .none) ∧ (GenMutators.resetOf "i_mep" "cse" ≠ .none) ∧
    (GenMutators.resetOf "i_mep" "begin" ≠ .none) ∧ (GenMutators.resetOf "individual" "load" ≠ .none) ∧
    (GenMutators.resetOf "i_ga" "operator[]" ≠ .none) ∧ (GenMutators.resetOf "i_ga" "begin" ≠ .none) ∧
    (GenMutators.resetOf "i_ga" "mutation" ≠ .none) ∧ (GenMutators.resetOf "i_ga" "crossover" ≠ .none) ∧
    (GenMutators.resetOf "i_de" "operator[]" ≠ .none) ∧ (GenMutators.resetOf "i_de" "begin" ≠ .none) ∧
    (GenMutators.resetOf "i_de" "operator=" ≠ .none) ∧ (GenMutators.resetOf "i_de" "crossover" ≠ .none) ∧
    (GenMutators.resetOf "team" "mutation" ≠ .none) ∧ (GenMutators.resetOf "team" "load" ≠ .none) := by
  decide

/-! ### i_mep -/

section mep
variable {H : Type} [HashLike H] (Hf : Bytes → H) (tab : SymTab)

/-- every public mutating operation of `i_mep` preserves the invariant -/
theorem mep_sig_inv_step (op : MepOp) (s : Mep H) (i : SigInv (mepHash Hf tab) s) :
    SigInv (mepHash Hf tab) (op.apply Hf tab s) := by
  have R := resets_as_modelled
  cases op with
  | signature => exact sig_inv_signature _ s i
  | getBlock l =>
    simp only [MepOp.apply]; split
    · exact sig_inv_update _ _ R.1 _ _
    · exact i
  | replace l ge => exact sig_inv_update _ _ R.2.1 _ _
  | destroyBlock ws => exact sig_inv_update _ _ R.2.2.1 _ _
  | mutation ws =>
    simp only [MepOp.apply]; split
    · exact sig_inv_update _ _ R.2.2.2.1 _ _
    · exact i
  | crossover ws => exact sig_inv_update _ _ R.2.2.2.2.1 _ _
  | cse ws => exact sig_inv_update _ _ R.2.2.2.2.2.1 _ _
  | iterWrite ws => exact sig_inv_update _ _ R.2.2.2.2.2.2.1 _ _
  | load r =>
    cases r with
    | none => exact i
    | some c => exact sig_inv_update _ _ R.2.2.2.2.2.2.2.1 _ _

theorem sig_inv_getBlock (l : Locus) (s : Mep H) (i : SigInv (mepHash Hf tab) s) :
    SigInv (mepHash Hf tab) ((MepOp.getBlock l).apply Hf tab s) := mep_sig_inv_step Hf tab _ s i
theorem sig_inv_replace (l : Locus) (ge : Gene) (s : Mep H) (i : SigInv (mepHash Hf tab) s) :
    SigInv (mepHash Hf tab) ((MepOp.replace l ge).apply Hf tab s) := mep_sig_inv_step Hf tab _ s i
theorem sig_inv_mutation (ws : List (Locus × Gene)) (s : Mep H) (i : SigInv (mepHash Hf tab) s) :
    SigInv (mepHash Hf tab) ((MepOp.mutation ws).apply Hf tab s) := mep_sig_inv_step Hf tab _ s i
theorem sig_inv_crossover (ws : List (Locus × Gene)) (s : Mep H) (i : SigInv (mepHash Hf tab) s) :
    SigInv (mepHash Hf tab) ((MepOp.crossover ws).apply Hf tab s) := mep_sig_inv_step Hf tab _ s i
theorem sig_inv_cse (ws : List (Locus × Gene)) (s : Mep H) (i : SigInv (mepHash Hf tab) s) :
    SigInv (mepHash Hf tab) ((MepOp.cse ws).apply Hf tab s) := mep_sig_inv_step Hf tab _ s i
theorem sig_inv_load (r : Option MepC) (s : Mep H) (i : SigInv (mepHash Hf tab) s) :
    SigInv (mepHash Hf tab) ((MepOp.load r).apply Hf tab s) := mep_sig_inv_step Hf tab _ s i

/-- any history of public operations from a freshly constructed individual -/
theorem mep_sig_inv_reachable (c : MepC) (ops : List MepOp) :
    SigInv (mepHash Hf tab) (ops.foldl (fun s op => op.apply Hf tab s) (⟨c, empty⟩ : Mep H)) := by
  suffices h : ∀ (s : Mep H), SigInv (mepHash Hf tab) s →
      SigInv (mepHash Hf tab) (ops.foldl (fun s op => op.apply Hf tab s) s) from h _ (sig_inv_init _ c)
  induction ops with
  | nil => intro s i; exact i
  | cons op t ih => intro s i; exact ih _ (mep_sig_inv_step Hf tab op s i)

/-- … hence the signature reported after any history is the hash of the current active program -/
theorem mep_signature_never_stale (c : MepC) (ops : List MepOp) :
    let s := ops.foldl (fun s op => op.apply Hf tab s) (⟨c, empty⟩ : Mep H)
    signatureVal (mepHash Hf tab) s = mepHash Hf tab s.content :=
  signature_fresh _ _ (mep_sig_inv_reachable Hf tab c ops)

end mep

/-! ### i_ga / i_de -/

section vec
variable {H : Type} [HashLike H] (Hf : Bytes → H)

theorem ga_sig_inv_step (op : GaOp) (s : Vec H) (i : SigInv (gaHash Hf) s) :
    SigInv (gaHash Hf) (op.apply Hf s) := by
  have R := resets_as_modelled
  cases op with
  | signature => exact sig_inv_signature _ s i
  | setElem j v => exact sig_inv_update _ _ R.2.2.2.2.2.2.2.2.1 _ _
  | iterWrite v => exact sig_inv_update _ _ R.2.2.2.2.2.2.2.2.2.1 _ _
  | mutation v n =>
    simp only [GaOp.apply]; split
    · exact sig_inv_update _ _ R.2.2.2.2.2.2.2.2.2.2.1 _ _
    · exact i
  | crossover v => exact sig_inv_update _ _ R.2.2.2.2.2.2.2.2.2.2.2.1 _ _
  | load r =>
    cases r with
    | none => exact i
    | some c => exact sig_inv_update _ _ R.2.2.2.2.2.2.2.1 _ _

theorem de_sig_inv_step (op : DeOp) (s : Vec H) (i : SigInv (deHash Hf) s) :
    SigInv (deHash Hf) (op.apply Hf s) := by
  have R := resets_as_modelled
  cases op with
  | signature => exact sig_inv_signature _ s i
  | setElem j v => exact sig_inv_update _ _ R.2.2.2.2.2.2.2.2.2.2.2.2.1 _ _
  | iterWrite v => exact sig_inv_update _ _ R.2.2.2.2.2.2.2.2.2.2.2.2.2.1 _ _
  | assignVec v => exact sig_inv_update _ _ R.2.2.2.2.2.2.2.2.2.2.2.2.2.2.1 _ _
  | crossover v => exact sig_inv_update _ _ R.2.2.2.2.2.2.2.2.2.2.2.2.2.2.2.1 _ _
  | load r =>
    cases r with
    | none => exact i
    | some c => exact sig_inv_update _ _ R.2.2.2.2.2.2.2.1 _ _

/-- assignment from a vector (the entry point that used to keep the old signature) -/
theorem sig_inv_assignVec (v : List Nat) (s : Vec H) (i : SigInv (deHash Hf) s) :
    SigInv (deHash Hf) ((DeOp.assignVec v).apply Hf s) := de_sig_inv_step Hf _ s i

theorem ga_sig_inv_reachable (v : List Nat) (ops : List GaOp) :
    SigInv (gaHash Hf) (ops.foldl (fun s op => op.apply Hf s) (⟨v, empty⟩ : Vec H)) := by
  suffices h : ∀ (s : Vec H), SigInv (gaHash Hf) s →
      SigInv (gaHash Hf) (ops.foldl (fun s op => op.apply Hf s) s) from h _ (sig_inv_init _ v)
  induction ops with
  | nil => intro s i; exact i
  | cons op t ih => intro s i; exact ih _ (ga_sig_inv_step Hf op s i)

theorem de_sig_inv_reachable (v : List Nat) (ops : List DeOp) :
    SigInv (deHash Hf) (ops.foldl (fun s op => op.apply Hf s) (⟨v, empty⟩ : Vec H)) := by
  suffices h : ∀ (s : Vec H), SigInv (deHash Hf) s →
      SigInv (deHash Hf) (ops.foldl (fun s op => op.apply Hf s) s) from h _ (sig_inv_init _ v)
  induction ops with
  | nil => intro s i; exact i
  | cons op t ih => intro s i; exact ih _ (de_sig_inv_step Hf op s i)

end vec

/-! ### team -/

section team
variable {C H : Type} [HashLike H] (hashOf : C → H)

/-- the members a team operation installs (they come out of their own, already verified,
    operations, so they respect the invariant) -/
def TeamOp.members : TeamOp C H → List (Cached C H)
  | .mutation ms _ => ms
  | .crossover ms => ms
  | .load (some ms) => ms
  | _ => []

theorem team_inv_step (op : TeamOp C H) (t : Team C H) (i : TeamInv hashOf t)
    (hm : ∀ m ∈ op.members, SigInv hashOf m) : TeamInv hashOf (op.apply hashOf t) := by
  have R := resets_as_modelled
  cases op with
  | signature =>
    simp only [TeamOp.apply]; split
    · refine ⟨?_, Or.inr ?_⟩
      · intro m hmem
        simp only [List.mem_map] at hmem
        obtain ⟨m0, h0, rfl⟩ := hmem
        exact sig_inv_signature _ m0 (i.1 m0 h0)
      · simp only; exact (teamHash_map_signatureOp hashOf t.content).symm
    · exact i
  | mutation ms n =>
    simp only [TeamOp.apply]; split
    · exact ⟨hm, sig_inv_update _ _ R.2.2.2.2.2.2.2.2.2.2.2.2.2.2.2.2.1 _ _⟩
    · exact i
  | crossover ms => exact ⟨hm, Or.inl isEmpty_empty⟩
  | load r =>
    cases r with
    | none => exact i
    | some ms => exact ⟨hm, sig_inv_update _ _ R.2.2.2.2.2.2.2.2.2.2.2.2.2.2.2.2.2 _ _⟩

/-- a team reports the combination of the from-scratch hashes of its members, in order -/
theorem team_signature_fresh (t : Team C H) (i : TeamInv hashOf t) :
    signatureVal (teamHash hashOf) t =
      t.content.foldl (fun acc m => combine acc (hashOf m.content)) empty := by
  rw [signature_fresh _ _ i.2]
  unfold teamHash
  have : ∀ (l : List (Cached C H)) (acc : H), (∀ m ∈ l, SigInv hashOf m) →
      l.foldl (fun acc m => combine acc (signatureVal hashOf m)) acc =
      l.foldl (fun acc m => combine acc (hashOf m.content)) acc := by
    intro l
    induction l with
    | nil => intro _ _; rfl
    | cons m t ih =>
      intro acc hl
      simp only [List.foldl_cons]
      rw [signature_fresh hashOf m (hl m (by simp))]
      exact ih _ (fun m' h' => hl m' (by simp [h']))
  exact this _ _ i.1

theorem team_inv_reachable (ms : List (Cached C H)) (h0 : ∀ m ∈ ms, SigInv hashOf m)
    (ops : List (TeamOp C H)) (hops : ∀ op ∈ ops, ∀ m ∈ op.members, SigInv hashOf m) :
    TeamInv hashOf (ops.foldl (fun t op => op.apply hashOf t) (⟨ms, empty⟩ : Team C H)) := by
  suffices h : ∀ (t : Team C H), TeamInv hashOf t →
      TeamInv hashOf (ops.foldl (fun t op => op.apply hashOf t) t) from h _ ⟨h0, Or.inl isEmpty_empty⟩
  induction ops with
  | nil => intro t i; exact i
  | cons op rest ih =>
    intro t i
    exact ih (fun o ho => hops o (by simp [ho])) _
      (team_inv_step hashOf op t i (hops op (by simp)))

end team

/-! non-vacuity: the MurmurHash3 instance and a concrete history -/
section example2
instance : HashLike Vita.Murmur.Hash where
  empty := Vita.Murmur.Hash.zero
  isEmpty := Vita.Murmur.Hash.isEmpty
  isEmpty_empty := by decide
  combine := Vita.Murmur.Hash.combine

def murmurBytes (b : Bytes) : Vita.Murmur.Hash := Vita.Murmur.hash128 (b.map UInt8.ofNat)

example : SigInv (deHash murmurBytes)
    ([DeOp.signature, DeOp.assignVec [1, 2], DeOp.setElem 0 7, DeOp.signature].foldl
      (fun s op => op.apply murmurBytes s) (⟨[3, 4], HashLike.empty⟩ : Vec Vita.Murmur.Hash)) :=
  de_sig_inv_reachable murmurBytes _ _
end example2

/-! ## Part D — MurmurHash3 x64 128 as translated from src/kernel/cache_hash.h

`GenPack.murmur` holds `hash128` (block loop, fall-through tail `switch`, finalisation), `fmix`,
`rotl64` and `get_block` as statements over five registers, regenerated on every run. -/

section murmur
open USyn

/-- (the default value of the seed, `GenPack.murmurDefaultSeed`, is not part of the term: the
    theorems below hold for every seed) -/
theorem gen_murmur_as_modelled : GenPack.murmur = murmurAsModelled := by decide

/-- the translated `hash128` computes the model `Vita.Murmur.hash128` (the one the other
    properties execute) on EVERY message and seed: block loop = `body`, tail switch = `tailStep`
    (the shifted bytes xor-ed by the switch occupy disjoint bits: xor = or), finalisation =
    `finish` -/
theorem murmur_translated_eq_model (bytes : List UInt8) (seed : UInt64) :
    GenPack.murmur.run bytes seed = Vita.Murmur.hash128 bytes seed := by
  rw [gen_murmur_as_modelled]; exact run_eq bytes seed

/-- For every length `n`, the block loop and the tail switch together read every byte of the
    message exactly once (no byte skipped, none read twice): the list of indices read, in
    execution order, is a permutation of `0 … n-1`. -/
theorem murmur_reads_every_byte_once (n : Nat) : (GenPack.murmur.reads n).Perm (List.range n) := by
  rw [gen_murmur_as_modelled]; exact reads_perm n

/-- `fmix` is injective (xor-shifts by 33 are involutions, the multipliers are odd) -/
theorem fmix_injective (a b : UInt64) (h : Vita.Murmur.fmix a = Vita.Murmur.fmix b) : a = b :=
  fmix_inj a b h

/-- the finalisation loses nothing: different pre-finalisation states (same length) give
    different hashes -/
theorem finish_injective_state (h1 h2 : Vita.Murmur.Hash) (len : Nat)
    (h : Vita.Murmur.finish h1 len = Vita.Murmur.finish h2 len) : h1 = h2 :=
  finish_inj_state h1 h2 len h

/-- different lengths feed different values: from one pre-finalisation state (e.g. messages that
    differ only in trailing zero bytes of the last block) two lengths below 2^64 never give the
    same hash -/
theorem finish_injective_len (h : Vita.Murmur.Hash) (l1 l2 : Nat) (b1 : l1 < 2 ^ 64) (b2 : l2 < 2 ^ 64)
    (e : Vita.Murmur.finish h l1 = Vita.Murmur.finish h l2) : l1 = l2 := by
  have := finish_inj_len h l1 l2 e
  have h1 := congrArg UInt64.toNat this
  simp only [Nat.toUInt64_eq, UInt64.toNat_ofNat'] at h1
  omega

example : GenPack.murmur.run [104, 101, 108, 108, 111] 1973 = ⟨14265882799767548616, 12174794982621535140⟩ := by
  decide

end murmur

/-! ## Part C — concurrent signature computations do not interfere

Signatures are computed by evaluator / evolution code that may run on several threads.  The model
(`Vita.C03.SigPath`): threads are sequences of steps on a memory; a step is `Confined F R` when it
writes only inside `F` and what it writes depends only on `F ∪ R`. -/

section sigpath
open SigPath

/-- Two threads with disjoint write footprints that only share a region nobody writes: in every
    interleaving, thread A's footprint (and the read-only region) ends up exactly as when A runs
    alone — from any two memories that agree on `F_A ∪ R`. -/
theorem interleave_agree {Loc Val : Type} (FA FB R : Loc → Prop)
    (disj : ∀ l, FA l → ¬ FB l) (roB : ∀ l, R l → ¬ FB l)
    {A B S : List (Step Loc Val)} (h : Interleave A B S) :
    (∀ s ∈ A, Confined FA R s) → (∀ s ∈ B, Confined FB R s) →
    ∀ m m' : Mem Loc Val, (∀ l, FA l ∨ R l → m l = m' l) →
      ∀ l, FA l ∨ R l → run S m l = run A m' l := by
  induction h with
  | nil => intro _ _ m m' hag l hl; exact hag l hl
  | @left a A B S _ ih =>
    intro hA hB m m' hag l hl
    show run S (a m) l = run A (a m') l
    refine ih (fun s hs => hA s (List.mem_cons_of_mem _ hs)) hB (a m) (a m') ?_ l hl
    intro k hk
    have ca := hA a (List.mem_cons_self ..)
    by_cases hf : FA k
    · exact ca.dep m m' hag k hf
    · rw [ca.frame m k hf, ca.frame m' k hf]; exact hag k hk
  | @right b A B S _ ih =>
    intro hA hB m m' hag l hl
    show run S (b m) l = run A m' l
    refine ih hA (fun s hs => hB s (List.mem_cons_of_mem _ hs)) (b m) m' ?_ l hl
    intro k hk
    have cb := hB b (List.mem_cons_self ..)
    have hnb : ¬ FB k := by
      rcases hk with h1 | h1
      · exact disj k h1
      · exact roB k h1
    rw [cb.frame m k hnb]; exact hag k hk

/-- … in particular from the same initial memory -/
theorem interleave_private {Loc Val : Type} (FA FB R : Loc → Prop)
    (disj : ∀ l, FA l → ¬ FB l) (roB : ∀ l, R l → ¬ FB l)
    (A B S : List (Step Loc Val)) (h : Interleave A B S)
    (hA : ∀ s ∈ A, Confined FA R s) (hB : ∀ s ∈ B, Confined FB R s) (m : Mem Loc Val) :
    ∀ l, FA l → run S m l = run A m l :=
  fun l hl => interleave_agree FA FB R disj roB h hA hB m m (fun _ _ => rfl) l (Or.inl hl)

theorem interleave_symm {α : Type} {A B S : List α} (h : Interleave A B S) : Interleave B A S := by
  induction h with
  | nil => exact .nil
  | left _ ih => exact .right ih
  | right _ ih => exact .left ih

/-- stack, `thread_local` variables and the members of the individual being hashed are private
    to a (thread, individual) pair: different threads working on different individuals have
    disjoint footprints -/
theorem footprints_disjoint (t1 o1 t2 o2 : Nat) (ht : t1 ≠ t2) (ho : o1 ≠ o2) :
    ∀ l, footprint t1 o1 l → ¬ footprint t2 o2 l := by
  intro l h1 h2
  cases l <;> simp only [footprint] at h1 h2
  · exact ht (h1.symm.trans h2)
  · exact ht (h1.symm.trans h2)
  · exact ho (h1.symm.trans h2)

/-- Two threads computing signatures of different individuals, all of whose steps stay inside
    locals / parameters / `thread_local` storage / members of their own individual and read
    otherwise only immutable data: whatever the scheduler does, each thread ends with exactly
    what it computes when it runs alone. -/
theorem signature_threads_independent {Val : Type} (t1 o1 t2 o2 : Nat) (ht : t1 ≠ t2) (ho : o1 ≠ o2)
    (A B S : List (Step Place Val)) (h : Interleave A B S)
    (hA : ∀ s ∈ A, Confined (footprint t1 o1) readOnly s)
    (hB : ∀ s ∈ B, Confined (footprint t2 o2) readOnly s) (m : Mem Place Val) :
    (∀ l, footprint t1 o1 l → run S m l = run A m l) ∧
    (∀ l, footprint t2 o2 l → run S m l = run B m l) := by
  have ro : ∀ (t o : Nat) (l : Place), readOnly l → ¬ footprint t o l := by
    intro t o l hr hf
    cases l <;> simp only [readOnly, footprint] at hr hf
  exact ⟨interleave_private _ _ readOnly (footprints_disjoint t1 o1 t2 o2 ht ho) (ro t2 o2)
           A B S h hA hB m,
         interleave_private _ _ readOnly (footprints_disjoint t2 o2 t1 o1 (Ne.symm ht) (Ne.symm ho))
           (ro t1 o1) B A S (interleave_symm h) hB hA m⟩

/-- non-vacuity: "append a byte taken from my individual to my thread_local buffer" is confined -/
example : Confined (footprint 1 10) readOnly
    (fun (m : Mem Place Nat) l => if l = .tls 1 0 then m (.tls 1 0) + m (.member 10 3) + m (.immutable 7) else m l) := by
  constructor
  · intro m l hl
    by_cases e : l = .tls 1 0
    · subst e; exact absurd rfl hl
    · simp [e]
  · intro m m' hag l _
    by_cases e : l = .tls 1 0
    · simp only [e, if_true]
      rw [hag (.tls 1 0) (Or.inl rfl), hag (.member 10 3) (Or.inl rfl), hag (.immutable 7) (Or.inr trivial)]
    · simp only [e, if_false]
      exact hag l (Or.inl ‹_›)

/-- … whereas a step through a process-wide variable is not (this is the `static` scratch buffer) -/
example : ¬ Confined (footprint 1 10) readOnly
    (fun (m : Mem Place Nat) l => if l = .shared 0 then m (.member 10 3) else m l) := by
  intro c
  have := c.frame (fun _ => 0) (.shared 0) (by simp [footprint])
  have h2 := c.frame (fun l => if l = .member 10 3 then 1 else 0) (.shared 0) (by simp [footprint])
  simp at h2

/-! ### generated obligations: what the functions reachable from `signature()` touch
    (`GenSigPath`, regenerated from the clang AST on every run) -/

/-- every variable with static storage duration mentioned on the signature path is `thread_local`,
    const, or on the justified list -/
theorem sigpath_no_shared_state : ∀ u ∈ GenSigPath.globals, u.ok = true := by decide

/-- every callee outside namespace vita is on the list of re-entrant library functions -/
theorem sigpath_externals_reentrant : ∀ e ∈ GenSigPath.externals, e ∈ reentrantExternals := by decide

/-- the only member a const function of the path writes is the cache itself -/
theorem sigpath_writes_cache_only : ∀ w ∈ GenSigPath.thisWrites, w.2 = "signature_" := by decide

/-- no non-const member function is called on an object that is not local / parameter / `*this` -/
theorem sigpath_no_foreign_mutation : GenSigPath.foreignCalls = [] := by decide

end sigpath

end Vita.C03
