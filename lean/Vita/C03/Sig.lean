/-
  C03 — the lazily cached signature and every public operation that changes an
  individual or a team, modelled as written with respect to `signature_`.

  The hash function is a parameter (`Hf : Bytes → H`): nothing here depends on
  MurmurHash3.  `H` only needs the "all zero means empty" convention of `hash_t` and
  `hash_t::combine`.

  How an operation treats `signature_` (clear / recompute / leave) is *not* written here
  by hand: it is read from the table generated from the clang AST of the current sources
  (`Vita.C03.GenMutators.resetOf`), so that e.g. dropping `signature_.clear()` from
  `i_mep::replace` changes the model and `sig_inv_replace` stops checking.
-/
import Vita.C03.Model
import Vita.C03.Eff
import Vita.C03.GenMutators

namespace Vita.C03

/-- what the theorems need of `hash_t` -/
class HashLike (H : Type) where
  empty : H
  isEmpty : H → Bool
  isEmpty_empty : isEmpty empty = true
  combine : H → H → H

open HashLike

/-- an object with a content and a cached signature (`mutable hash_t signature_`) -/
structure Cached (C H : Type) where
  content : C
  sig : H

section generic
variable {C H : Type} [HashLike H] (hashOf : C → H)

/-- "empty means recompute", otherwise the cache must be the hash of the current content -/
def SigInv (s : Cached C H) : Prop := isEmpty s.sig = true ∨ s.sig = hashOf s.content

/-- value returned by `T::signature()` -/
def signatureVal (s : Cached C H) : H := if isEmpty s.sig then hashOf s.content else s.sig

/-- `T::signature()` also stores what it returns (`signature_` is `mutable`) -/
def signatureOp (s : Cached C H) : Cached C H := { s with sig := signatureVal hashOf s }

/-- how a member function treats `signature_` after having changed the content
    (`Eff.ResetKind`, extracted from the sources) -/
def applyReset (k : Eff.ResetKind) (c : C) (old : H) : H :=
  match k with
  | .clear => empty
  | .recompute => hashOf c
  | .none => old

/-- a content change followed by the method's treatment of `signature_` -/
def update (k : Eff.ResetKind) (c : C) (s : Cached C H) : Cached C H :=
  ⟨c, applyReset hashOf k c s.sig⟩

end generic

/-! ### i_mep -/

structure MepC where
  g : Genome
  best : Locus

def Genome.set (g : Genome) (l : Locus) (ge : Gene) : Genome :=
  { g with gene := fun i c => if i = l.1 ∧ c = l.2 then ge else g.gene i c }

/-- a sequence of gene assignments `genome_(l) = g` -/
def MepC.writes (c : MepC) : List (Locus × Gene) → MepC
  | [] => c
  | (l, ge) :: ws => MepC.writes { c with g := c.g.set l ge } ws

section mep
variable {H : Type} [HashLike H] (Hf : Bytes → H) (tab : SymTab)

/-- `i_mep::hash()`: hash of the packed active code starting at `best_` -/
def mepHash (c : MepC) : H := Hf ((pack tab c.g c.best).getD [])

abbrev Mep (H : Type) := Cached MepC H

open GenMutators in
/-- public mutating entry points of `i_mep` (random draws / arguments are explicit) -/
inductive MepOp where
  | signature                                   -- signature() (fills the cache)
  | getBlock (l : Locus)                        -- get_block(l)
  | replace (l : Locus) (ge : Gene)             -- replace(l, g) / replace(g)
  | destroyBlock (ws : List (Locus × Gene))     -- destroy_block: one terminal per category at a row
  | mutation (ws : List (Locus × Gene))         -- mutation: the gene assignments performed (n = |ws|)
  | crossover (ws : List (Locus × Gene))        -- crossover(lhs, rhs): genes copied into the copy of a parent
  | cse (ws : List (Locus × Gene))              -- cse(): rewritten genes
  | iterWrite (ws : List (Locus × Gene))        -- writes through the iterator returned by begin()
  | load (r : Option MepC)                      -- load(): `some` = stream parsed, `none` = failure

open GenMutators in
def MepOp.apply : MepOp → Mep H → Mep H
  | .signature, s => signatureOp (mepHash Hf tab) s
  | .getBlock l, s =>
    if s.content.best ≠ l then update (mepHash Hf tab) (resetOf "i_mep" "get_block") { s.content with best := l } s
    else s
  | .replace l ge, s => update (mepHash Hf tab) (resetOf "i_mep" "replace") { s.content with g := s.content.g.set l ge } s
  | .destroyBlock ws, s => update (mepHash Hf tab) (resetOf "i_mep" "destroy_block") (s.content.writes ws) s
  | .mutation ws, s =>
    -- `if (n) signature_.clear();` with n = number of assignments performed
    if ws.length ≠ 0 then update (mepHash Hf tab) (resetOf "i_mep" "mutation") (s.content.writes ws) s
    else s
  | .crossover ws, s => update (mepHash Hf tab) (resetOf "i_mep" "crossover") (s.content.writes ws) s
  | .cse ws, s => update (mepHash Hf tab) (resetOf "i_mep" "cse") (s.content.writes ws) s
  | .iterWrite ws, s => update (mepHash Hf tab) (resetOf "i_mep" "begin") (s.content.writes ws) s
  | .load (some c), s => update (mepHash Hf tab) (resetOf "individual" "load") c s
  | .load none, s => s

end mep

/-! ### i_ga / i_de: the content is the vector of element bit patterns -/

section vec
variable {H : Type} [HashLike H] (Hf : Bytes → H)

def gaHash (v : List Nat) : H := Hf (packGa v)
def deHash (v : List Nat) : H := Hf (packDe v)

abbrev Vec (H : Type) := Cached (List Nat) H

inductive GaOp where
  | signature
  | setElem (i v : Nat)                 -- x[i] = v  (non-const operator[])
  | iterWrite (v : List Nat)            -- writes through begin()/end() (non-const)
  | mutation (v : List Nat) (n : Nat)   -- mutation: new genome, n = number of changed genes
  | crossover (v : List Nat)            -- crossover(lhs, rhs): new genome in the copy of rhs
  | load (r : Option (List Nat))

open GenMutators in
def GaOp.apply : GaOp → Vec H → Vec H
  | .signature, s => signatureOp (gaHash Hf) s
  | .setElem i v, s => update (gaHash Hf) (resetOf "i_ga" "operator[]") (s.content.set i v) s
  | .iterWrite v, s => update (gaHash Hf) (resetOf "i_ga" "begin") v s
  | .mutation v n, s =>
    -- genes are only assigned where they differ, n counts the assignments
    if n ≠ 0 then update (gaHash Hf) (resetOf "i_ga" "mutation") v s else s
  | .crossover v, s => update (gaHash Hf) (resetOf "i_ga" "crossover") v s
  | .load (some v), s => update (gaHash Hf) (resetOf "individual" "load") v s
  | .load none, s => s

inductive DeOp where
  | signature
  | setElem (i v : Nat)
  | iterWrite (v : List Nat)
  | assignVec (v : List Nat)            -- operator=(const std::vector<double> &)
  | crossover (v : List Nat)            -- crossover(p, f, a, b, c)
  | load (r : Option (List Nat))

open GenMutators in
def DeOp.apply : DeOp → Vec H → Vec H
  | .signature, s => signatureOp (deHash Hf) s
  | .setElem i v, s => update (deHash Hf) (resetOf "i_de" "operator[]") (s.content.set i v) s
  | .iterWrite v, s => update (deHash Hf) (resetOf "i_de" "begin") v s
  | .assignVec v, s => update (deHash Hf) (resetOf "i_de" "operator=") v s
  | .crossover v, s => update (deHash Hf) (resetOf "i_de" "crossover") v s
  | .load (some v), s => update (deHash Hf) (resetOf "individual" "load") v s
  | .load none, s => s

end vec

/-! ### team<T>: members are cached objects themselves -/

section team
variable {C H : Type} [HashLike H] (hashOf : C → H)

/-- `team::hash()`: `ret.combine(i.signature())` over the members, in order, from an
    empty `hash_t` -/
def teamHash (ms : List (Cached C H)) : H :=
  ms.foldl (fun acc m => combine acc (signatureVal hashOf m)) empty

abbrev Team (C H : Type) := Cached (List (Cached C H)) H

/-- both levels of the invariant -/
def TeamInv (t : Team C H) : Prop :=
  (∀ m ∈ t.content, SigInv hashOf m) ∧ SigInv (teamHash hashOf) t

inductive TeamOp (C H : Type) where
  | signature
  | mutation (ms : List (Cached C H)) (n : Nat)  -- members after their own mutation, n = total changes
  | crossover (ms : List (Cached C H))           -- crossover(lhs, rhs): a new team of member offspring
  | load (r : Option (List (Cached C H)))

open GenMutators in
def TeamOp.apply : TeamOp C H → Team C H → Team C H
  | .signature, t =>
    -- hash() calls signature() on every member (which caches there too)
    if isEmpty t.sig then ⟨t.content.map (signatureOp hashOf), teamHash hashOf t.content⟩ else t
  | .mutation ms n, t =>
    if n ≠ 0 then update (teamHash hashOf) (resetOf "team" "mutation") ms t else t
  | .crossover ms, _ => ⟨ms, empty⟩   -- `team<T> ret(sup)`: a fresh object, signature_ empty
  | .load (some ms), t => update (teamHash hashOf) (resetOf "team" "load") ms t
  | .load none, t => t

/-! helper lemmas about `teamHash` -/
theorem signatureVal_signatureOp (m : Cached C H) :
    signatureVal hashOf (signatureOp hashOf m) = signatureVal hashOf m := by
  unfold signatureOp signatureVal
  by_cases e : isEmpty m.sig = true
  · simp only [e, if_true]
    by_cases e2 : isEmpty (hashOf m.content) = true <;> simp [e2]
  · simp [e]

theorem teamHash_map_signatureOp (ms : List (Cached C H)) :
    teamHash hashOf (ms.map (signatureOp hashOf)) = teamHash hashOf ms := by
  unfold teamHash
  generalize (empty : H) = acc
  induction ms generalizing acc with
  | nil => rfl
  | cons m t ih => simp only [List.map_cons, List.foldl_cons, signatureVal_signatureOp]; exact ih _

end team

end Vita.C03
