/-
  C03 — signatures are computed by code that may run on several threads (evaluators, the
  thread-shared fitness cache).  Two threads that compute the signature of DIFFERENT
  individuals must not communicate: each must obtain what it obtains when it runs alone.

  * `GlobalUse`, `Storage`: the vocabulary of the table `GenSigPath` that
    tools/translate_sigpath.py extracts from the clang AST (every variable with static storage
    duration mentioned by a function reachable from `signature()`).
  * the model behind the obligation: a memory of locations, threads as sequences of steps, a
    step *confined* to a footprint `F` (writes only `F`) that depends only on `F` and on a
    read-only region `R`.  `interleave_private` (Props): if the footprints of two threads are
    disjoint and nobody writes `R`, every interleaving leaves in `F_A` exactly what thread A
    computes alone.  Locals, parameters, members of the thread's own individual and
    `thread_local` variables form such private footprints (`footprints_disjoint`); a non-const
    `static` / namespace-scope variable does not (it is one location for all threads), which is
    why each one must be listed and justified.
-/
namespace Vita.C03.SigPath

inductive Storage where
  | staticLocal      -- function-local `static` / `thread_local`
  | staticMember     -- static data member
  | namespaceScope   -- variable at namespace scope
  | unknown          -- the declaration is not in the AST dump
deriving DecidableEq, Repr

structure GlobalUse where
  fn : String
  var : String
  storage : Storage
  tls : Bool
  isConst : Bool
deriving DecidableEq, Repr

/-- Uses of variables with static storage duration that are neither `thread_local` nor const and
    are accepted nevertheless; each entry needs a reason.

    * `basic_gene::arguments` / `i`: not a global at all.  It is the init-capture `i = 0u` of the
      lambda handed to `std::generate` (a member of the closure object, i.e. a local); clang-14's
      JSON dump has no declaration node for init-captures, so the translator cannot see where it
      lives and reports storage `unknown`. -/
def justifiedGlobals : List GlobalUse :=
  [⟨"basic_gene::arguments", "i", .unknown, false, false⟩]

/-- a listed global is harmless for concurrent signature computations -/
def GlobalUse.ok (u : GlobalUse) : Bool := u.tls || u.isConst || justifiedGlobals.contains u

/-- Callees outside namespace vita that the signature path may use: re-entrant library code that
    touches only its arguments (containers are locals / `thread_local` / members of `*this`). -/
def reentrantExternals : List String :=
  ["__builtin_memcpy", "memcpy", "fill_n", "for_each", "generate", "move", "operator[]",
   "operator new", "operator new/delete",
   "std::vector::(constructor)", "std::vector::begin", "std::vector::end", "std::vector::clear",
   "std::vector::data", "std::vector::push_back", "std::vector::size"]

/-! ### the model: memories, confined steps, interleavings -/

section model
variable {Loc Val : Type}

abbrev Mem (Loc Val : Type) := Loc → Val
abbrev Step (Loc Val : Type) := Mem Loc Val → Mem Loc Val

/-- `s` writes only inside `F` and what it writes depends only on `F ∪ R` -/
structure Confined (F R : Loc → Prop) (s : Step Loc Val) : Prop where
  frame : ∀ m l, ¬ F l → s m l = m l
  dep : ∀ m m', (∀ l, F l ∨ R l → m l = m' l) → ∀ l, F l → s m l = s m' l

def run (steps : List (Step Loc Val)) (m : Mem Loc Val) : Mem Loc Val :=
  steps.foldl (fun m s => s m) m

/-- `Interleave A B S`: `S` is a shuffle of `A` and `B` (program order kept in each) -/
inductive Interleave {α : Type} : List α → List α → List α → Prop
  | nil : Interleave [] [] []
  | left {a A B S} : Interleave A B S → Interleave (a :: A) B (a :: S)
  | right {b A B S} : Interleave A B S → Interleave A (b :: B) (b :: S)

end model

/-! ### the locations a signature computation works with -/

/-- thread `t`'s stack / `thread_local` variables, the members of object `o`, shared immutable
    data (symbols), and process-wide mutable variables -/
inductive Place where
  | stack (thread : Nat) (slot : Nat)
  | tls (thread : Nat) (var : Nat)
  | member (obj : Nat) (field : Nat)
  | immutable (addr : Nat)
  | shared (var : Nat)
deriving DecidableEq, Repr

/-- what thread `t` hashing individual `o` may write: its stack, its `thread_local`s, `o` -/
def footprint (t o : Nat) : Place → Prop
  | .stack t' _ => t' = t
  | .tls t' _ => t' = t
  | .member o' _ => o' = o
  | .immutable _ => False
  | .shared _ => False

/-- what everybody may read and nobody writes -/
def readOnly : Place → Prop
  | .immutable _ => True
  | _ => False

end Vita.C03.SigPath
