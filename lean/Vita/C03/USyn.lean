/-
  C03 — syntax and meaning of the 64-bit integer code of src/kernel/cache_hash.h
  (`hash_t::combine`, `murmurhash3::hash128`, `fmix`, `rotl64`, `get_block`), target of
  tools/translate_pack.py.  Straight-line assignments over a handful of registers, the body of
  the block loop, the fall-through `switch` of the tail, the finalisation.

  Arithmetic is that of `std::uint64_t` = Lean's `UInt64` (wrap-around).  The meaning of
  `get_block` (a `memcpy` of 8 bytes into a `std::uint64_t`) is the little-endian word
  `Vita.Murmur.le64` — x86-64 / AArch64-LE, the platforms vita is built on.
-/
import Vita.Common.Murmur

namespace Vita.C03.USyn
open Vita.Murmur

/-- `h0`,`h1` = `h.data[0]`, `h.data[1]` (for `combine`: `this->data`); `k1`,`k2` the block
    words; `k` the parameter of `fmix`; `a0`,`a1` = the argument's `data` in `combine` -/
inductive Reg where
  | h0 | h1 | k1 | k2 | k | a0 | a1
deriving DecidableEq, Repr

inductive UExpr where
  | reg (r : Reg)
  | lit (n : Nat)
  | len                              -- parameter `len`
  | seed                             -- parameter `seed`
  | arg (i : Nat)                    -- i-th parameter of a helper (`rotl64`)
  | mul (a b : UExpr)
  | add (a b : UExpr)
  | sub (a b : UExpr)
  | xor (a b : UExpr)
  | or (a b : UExpr)
  | shl (a b : UExpr)
  | shr (a b : UExpr)
  | rotl (a b : UExpr)               -- ROTL64(a, b) = rotl64(a, b)
  | fmix (a : UExpr)                 -- murmurhash3::fmix(a)
  | block (two plus : Nat)           -- get_block(blocks, i * two + plus)
  | tailByte (j : Nat)               -- std::uint64_t(tail[j])
deriving DecidableEq, Repr

structure UStm where
  dst : Reg
  e : UExpr
deriving DecidableEq, Repr

structure Env where
  h0 : UInt64 := 0
  h1 : UInt64 := 0
  k1 : UInt64 := 0
  k2 : UInt64 := 0
  k : UInt64 := 0
  a0 : UInt64 := 0
  a1 : UInt64 := 0
deriving Repr

def Env.get (e : Env) : Reg → UInt64
  | .h0 => e.h0 | .h1 => e.h1 | .k1 => e.k1 | .k2 => e.k2 | .k => e.k | .a0 => e.a0 | .a1 => e.a1

def Env.set (e : Env) (r : Reg) (v : UInt64) : Env :=
  match r with
  | .h0 => { e with h0 := v } | .h1 => { e with h1 := v } | .k1 => { e with k1 := v }
  | .k2 => { e with k2 := v } | .k => { e with k := v } | .a0 => { e with a0 := v }
  | .a1 => { e with a1 := v }

/-- what an expression may refer to besides the registers -/
structure Ctx where
  bytes : List UInt8 := []           -- the message
  seed : UInt64 := 0
  i : Nat := 0                       -- index of the block loop
  tailOff : Nat := 0                 -- offset of `tail` in the message
  blockBytes : Nat := 8              -- bytes copied by get_block
  args : List UInt64 := []
  rotl : UInt64 → UInt64 → UInt64 := fun _ _ => 0
  fmix : UInt64 → UInt64 := fun _ => 0

def UExpr.eval (c : Ctx) (e : Env) : UExpr → UInt64
  | .reg r => e.get r
  | .lit n => n.toUInt64
  | .len => c.bytes.length.toUInt64
  | .seed => c.seed
  | .arg i => c.args.getD i 0
  | .mul a b => a.eval c e * b.eval c e
  | .add a b => a.eval c e + b.eval c e
  | .sub a b => a.eval c e - b.eval c e
  | .xor a b => a.eval c e ^^^ b.eval c e
  | .or a b => a.eval c e ||| b.eval c e
  | .shl a b => a.eval c e <<< b.eval c e
  | .shr a b => a.eval c e >>> b.eval c e
  | .rotl a b => c.rotl (a.eval c e) (b.eval c e)
  | .fmix a => c.fmix (a.eval c e)
  | .block two plus => le64 ((c.bytes.drop (c.blockBytes * (c.i * two + plus))).take c.blockBytes)
  | .tailByte j => (c.bytes.getD (c.tailOff + j) 0).toUInt64

def execStms (c : Ctx) : List UStm → Env → Env
  | [], e => e
  | s :: r, e => execStms c r (e.set s.dst (s.e.eval c e))

/-- `switch (v)` whose cases (in source order) all fall through to the end: everything from the
    first case whose label is `v` on; nothing when no label matches (there is no `default`) -/
def execSwitch (c : Ctx) (v : Nat) : List (Nat × List UStm) → Env → Env
  | [], e => e
  | (l, ss) :: r, e =>
    if l = v then (ss :: r.map (·.2)).foldl (fun e ss => execStms c ss e) e
    else execSwitch c v r e

/-- everything the translator extracts from cache_hash.h -/
structure MurmurSyn where
  blockLen : Nat                       -- n_blocks = len / blockLen
  init : List UStm                     -- hash_t h(seed, seed)
  loopBody : List UStm
  tailMul : Nat                        -- tail = data + n_blocks * tailMul
  tailInit : List UStm                 -- k1(0), k2(0)
  switchMask : Nat                     -- switch (len & switchMask)
  cases : List (Nat × List UStm)
  final : List UStm
  getBlockBytes : Nat                  -- get_block: memcpy(&tmp, p + i, getBlockBytes)
  rotlBody : UExpr                     -- rotl64(x, r) over `arg 0`, `arg 1`
  fmixBody : List UStm                 -- fmix(k) over register `k`, returns `k`
deriving DecidableEq, Repr

def MurmurSyn.rotlF (s : MurmurSyn) (x r : UInt64) : UInt64 :=
  s.rotlBody.eval { args := [x, r] } {}

def MurmurSyn.fmixF (s : MurmurSyn) (x : UInt64) : UInt64 :=
  (execStms { rotl := s.rotlF } s.fmixBody { k := x }).k

def MurmurSyn.ctx (s : MurmurSyn) (bytes : List UInt8) (seed : UInt64) : Ctx :=
  { bytes := bytes, seed := seed, blockBytes := s.getBlockBytes,
    tailOff := bytes.length / s.blockLen * s.tailMul, rotl := s.rotlF, fmix := s.fmixF }

/-- `for (i = 0; i < n; ++i) loopBody` -/
def MurmurSyn.loop (s : MurmurSyn) (c : Ctx) : Nat → Nat → Env → Env
  | 0, _, e => e
  | n + 1, i, e => s.loop c n (i + 1) (execStms { c with i := i } s.loopBody e)

/-- `murmurhash3::hash128(data, len, seed)` as written -/
def MurmurSyn.run (s : MurmurSyn) (bytes : List UInt8) (seed : UInt64) : Hash :=
  let c := s.ctx bytes seed
  let e := execStms c s.init {}
  let e := s.loop c (bytes.length / s.blockLen) 0 e
  let e := execStms c s.tailInit e
  let e := execSwitch c (bytes.length &&& s.switchMask) s.cases e
  let e := execStms c s.final e
  ⟨e.h0, e.h1⟩

/-- `hash_t::combine(h)`: `this->data` in h0/h1, `h.data` in a0/a1 -/
def runCombine (prog : List UStm) (a h : Hash) : Hash :=
  let e := execStms {} prog { h0 := a.d0, h1 := a.d1, a0 := h.d0, a1 := h.d1 }
  ⟨e.h0, e.h1⟩

/-! ### the code as the model (`Vita.Common.Murmur`) reads it -/

def combineAsModelled : List UStm :=
  [⟨.h0, .add (.mul (.reg .h0) (.lit 37)) (.reg .a0)⟩,
   ⟨.h1, .add (.mul (.reg .h1) (.lit 37)) (.reg .a1)⟩]

/-! ### which bytes of the message are read -/

/-- indices of the bytes an expression reads (loop index `i`, tail offset `off`) -/
def UExpr.reads (bb i off : Nat) : UExpr → List Nat
  | .block two plus => (List.range bb).map (fun j => bb * (i * two + plus) + j)
  | .tailByte j => [off + j]
  | .mul a b | .add a b | .sub a b | .xor a b | .or a b | .shl a b | .shr a b | .rotl a b =>
    a.reads bb i off ++ b.reads bb i off
  | .fmix a => a.reads bb i off
  | _ => []

def stmsReads (bb i off : Nat) (ss : List UStm) : List Nat :=
  ss.flatMap (fun s => s.e.reads bb i off)

def switchReads (bb off v : Nat) : List (Nat × List UStm) → List Nat
  | [] => []
  | (l, ss) :: r =>
    if l = v then (ss :: r.map (·.2)).flatMap (stmsReads bb 0 off) else switchReads bb off v r

def loopReads (bb : Nat) (body : List UStm) : Nat → Nat → List Nat
  | 0, _ => []
  | n + 1, i => stmsReads bb i 0 body ++ loopReads bb body n (i + 1)

/-- every index read by `hash128` on a message of `n` bytes, in execution order -/
def MurmurSyn.reads (s : MurmurSyn) (n : Nat) : List Nat :=
  loopReads s.getBlockBytes s.loopBody (n / s.blockLen) 0 ++
  switchReads s.getBlockBytes (n / s.blockLen * s.tailMul) (n &&& s.switchMask) s.cases

end Vita.C03.USyn
