/-
  C04 line-protocol driver.  Executes the MODEL (Vita.C04.Model) on the operation lines the
  C++ harness executed on the real vita::cache / vita::evaluator_proxy.

  The slot a key is sent to is a parameter of the model: `new`/`pnew` carry, for every key of the
  pool, the slot class the harness OBSERVED on the real table (two keys are in one class iff a
  store under one evicts the other), so re-indexing the table in the C++ code does not touch the tie.

    new <n> (<d0> <d1> <class>)*n                      -> new
    ins <i> <len> <w>*len | find <i> | clr | clrk <i>  -> ok | f <len> <w>*len | ok | ok
    reload                                             -> reload 1|0     (save, load into a fresh table)
    jump <seal>                                        -> ok             (load of a header-only stream)
    pnew <n> (<d0> <d1> <class>)*n <m> (<keyidx> <fitclass>)*m          -> pnew
    peval <id> | pdata <d> | pclr | preload            -> p <len> <w>*len calls=<k> | ok | ok | reload 1|0
    pevalv <id>                                        -> v <d>   (the data version the answer was computed on)
    cs <site> <arg> <gap> <k>                          -> ok      (validation-strategy step, see `Site`; k = data after it)
-/
import Vita.C04.Model
open Vita.C04

structure St where
  pool : Array Key := #[]
  c : Cache := Cache.init (fun _ => 0) []
  ps : PState Nat := ⟨Cache.init (fun _ => 0) [], 0, 0⟩
  sigIdx : Array Nat := #[]
  fcls : Array Nat := #[]

/-- the fitness the harness's evaluator returns for fitness class `cls` on data version `d` -/
def fitOf (cls d : Nat) : Fit :=
  let len := (cls * 7 + d * 3) % 5
  (List.range len).map fun j => UInt64.ofNat (0x4000000000000000 + ((cls * 1000 + d) * 8 + j) * 1048576)

def showFit (tag : String) (f : Fit) : String :=
  f.foldl (fun s w => s ++ " " ++ toString w.toNat) (tag ++ " " ++ toString f.length)

def parsePool : Nat → List Nat → Option (List (Key × Nat) × List Nat)
  | 0, rest => some ([], rest)
  | n + 1, a :: b :: c :: rest =>
    match parsePool n rest with
    | some (ps, r) => some ((⟨UInt64.ofNat a, UInt64.ofNat b⟩, c) :: ps, r)
    | none => none
  | _, _ => none

def parsePairs : Nat → List Nat → Option (List (Nat × Nat) × List Nat)
  | 0, rest => some ([], rest)
  | n + 1, a :: b :: rest =>
    match parsePairs n rest with
    | some (ps, r) => some ((a, b) :: ps, r)
    | none => none
  | _, _ => none

def mkCache (ps : List (Key × Nat)) : Cache :=
  let idx : Key → Nat := fun k => match ps.find? (fun p => p.1 == k) with
    | some p => p.2
    | none => 1000000
  Cache.init idx (ps.map (·.2)).eraseDups

def step (st : St) (line : String) : St × String :=
  let toks := (line.trimAscii.toString.splitOn " ").filter (· ≠ "")
  match toks with
  | [] => (st, "bad-op")
  | cmd :: args =>
    match args.mapM String.toNat? with
    | none => (st, "bad-op")
    | some xs =>
      if xs.any (· ≥ 18446744073709551616) then (st, "bad-op") else
      let key? (i : Nat) : Option Key := st.pool[i]?
      match cmd, xs with
      | "new", n :: rest =>
        match parsePool n rest with
        | some (ps, []) => ({ st with pool := (ps.map (·.1)).toArray, c := mkCache ps }, "new")
        | _ => (st, "bad-op")
      | "ins", i :: len :: ws =>
        match key? i with
        | some k => if ws.length = len then ({ st with c := st.c.insert k (ws.map UInt64.ofNat) }, "ok") else (st, "bad-op")
        | none => (st, "bad-op")
      | "find", [i] =>
        match key? i with
        | some k => (st, showFit "f" (st.c.lookup k))
        | none => (st, "bad-op")
      | "clr", [] => ({ st with c := st.c.clear }, "ok")
      | "clrk", [i] =>
        match key? i with
        | some k => ({ st with c := st.c.clearKey k }, "ok")
        | none => (st, "bad-op")
      | "reload", [] =>
        let r := (Cache.init st.c.idx st.c.dom).load st.c.save
        ({ st with c := r.2 }, if r.1 then "reload 1" else "reload 0")
      | "jump", [x] =>
        if x < 4294967296 then
          let r := st.c.load ⟨UInt32.ofNat x, 0, []⟩
          ({ st with c := r.2 }, if r.1 then "ok" else "fail")
        else (st, "bad-op")
      | "pnew", n :: rest =>
        match parsePool n rest with
        | some (ps, m :: rest2) =>
          match parsePairs m rest2 with
          | some (inds, []) =>
            if inds.all (fun p => p.1 < ps.length) then
              ({ st with pool := (ps.map (·.1)).toArray, ps := ⟨mkCache ps, 0, 0⟩,
                         sigIdx := (inds.map (·.1)).toArray, fcls := (inds.map (·.2)).toArray }, "pnew")
            else (st, "bad-op")
          | _ => (st, "bad-op")
        | _ => (st, "bad-op")
      | "peval", [id] =>
        if id < st.sigIdx.size then
          let sig : Nat → Key := fun i => st.pool.getD (st.sigIdx.getD i 0) Key.zero
          let ev : Nat → Nat → Fit := fun d i => fitOf (st.fcls.getD i 0) d
          let r := proxyEval sig ev st.ps id
          ({ st with ps := r.2 }, showFit "p" r.1 ++ " calls=" ++ toString r.2.calls)
        else (st, "bad-op")
      | "pevalv", [id] =>
        -- version mode: the fitness is the data version it was computed on (call-site scenarios)
        if id < st.sigIdx.size then
          let sig : Nat → Key := fun i => st.pool.getD (st.sigIdx.getD i 0) Key.zero
          let ev : Nat → Nat → Fit := fun d _ => [UInt64.ofNat (d + 1)]
          let r := proxyEval sig ev st.ps id
          match r.1 with
          | [w] => ({ st with ps := r.2 }, "v " ++ toString (w.toNat - 1))
          | _ => ({ st with ps := r.2 }, "v none")
        else (st, "bad-op")
      | "cs", [site, arg, gap, k] =>
        -- a validation-strategy step as modelled in `Site`; k = the data version observed afterwards
        let s? : Option Site := match site with
          | 0 => some (.dssInit arg) | 1 => some (.dssShake gap arg) | 2 => some (.dssClose arg)
          | 3 => some (.holdoutInit arg) | 4 => some (.holdoutShake arg) | 5 => some (.holdoutClose arg)
          | _ => none
        match s? with
        | none => (st, "bad-op")
        | some s =>
          if !s.changes && k != st.ps.data then (st, "REJECT data-changed-where-the-model-says-it-does-not")
          else
            let sig : Nat → Key := fun i => st.pool.getD (st.sigIdx.getD i 0) Key.zero
            let ev : Nat → Nat → Fit := fun d _ => [UInt64.ofNat (d + 1)]
            let ps' := ((CEv.site s k : CEv Nat Nat).expand).foldl (fun p e => (pstep sig ev p e).2) st.ps
            ({ st with ps := ps' }, "ok")
      | "pdata", [d] => ({ st with ps := { st.ps with data := d } }, "ok")
      | "pclr", [] => ({ st with ps := { st.ps with cache := st.ps.cache.clear } }, "ok")
      | "preload", [] =>
        let r := (Cache.init st.ps.cache.idx st.ps.cache.dom).load st.ps.cache.save
        ({ st with ps := { st.ps with cache := r.2 } }, if r.1 then "reload 1" else "reload 0")
      | _, _ => (st, "bad-op")

partial def loop (h : IO.FS.Stream) (out : IO.FS.Stream) (st : St) : IO Unit := do
  let line ← h.getLine
  if line.isEmpty then return ()
  let (st', ans) := step st line
  out.putStrLn ans
  loop h out st'

def main : IO Unit := do
  loop (← IO.getStdin) (← IO.getStdout) {}
