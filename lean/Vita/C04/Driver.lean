/-
  C04 line-protocol driver.  Executes the MODEL (Vita.C04.Model) on the operation lines the
  C++ harness executed on the real vita::cache / vita::evaluator_proxy.

  The slot a key is sent to is a parameter of the model: `new`/`pnew` carry, for every key of the
  pool, the slot class the harness OBSERVED on the real table (two keys are in one class iff a
  store under one evicts the other), so re-indexing the table in the C++ code does not touch the tie.

  Beside the model, the driver runs the GENERATED terms (Gen.lean through the semantics of Lang.lean,
  with the generated index function instead of the observed slot classes): when that answer differs
  from the model's, ` | gen <answer>` is appended (Props.lean proves it cannot on the unchanged tree;
  on a changed tree it shows whether the translation still follows the code).

    new <bits> <n> (<d0> <d1> <class>)*n               -> new
    ins <i> <len> <w>*len | find <i> | clr | clrk <i>  -> ok | f <len> <w>*len | ok | ok
    reload                                             -> reload 1|0     (save, load into a fresh table)
    dump                                               -> dump <tokens>   (what save writes: `s` seal, `n` count, `k` key, `f` fitness)
    loadcut <p>                                        -> loadcut 1|0 <tokens>  (save, keep p % of the tokens, load into a fresh table)
    jump <seal>                                        -> ok             (load of a header-only stream)
    pnew <bits> <n> (<d0> <d1> <class>)*n <m> (<keyidx> <fitclass>)*m   -> pnew
    peval <id> | pdata <d> | pclr | preload            -> p <len> <w>*len calls=<k> | ok | ok | reload 1|0
    pevalv <id>                                        -> v <d>   (the data version the answer was computed on)
    cs <site> <arg> <gap> <k>                          -> ok      (validation-strategy step, see `Site`; k = data after it)
-/
import Vita.C04.Model
import Vita.C04.GenSem
open Vita.C04
open Vita.C04.Lang (CState PSt)

structure St where
  pool : Array Key := #[]
  c : Cache := Cache.init (fun _ => 0) []
  ps : PState Nat := ⟨Cache.init (fun _ => 0) [], 0, 0⟩
  sigIdx : Array Nat := #[]
  fcls : Array Nat := #[]
  g : Option CState := none                 -- the cache through the generated terms (none: no meaning)
  gp : Option (PSt CState Nat) := none      -- the proxy through the generated terms

/-- the fitness the harness's evaluator returns for fitness class `cls` on data version `d` -/
def fitOf (cls d : Nat) : Fit :=
  let len := (cls * 7 + d * 3) % 5
  (List.range len).map fun j => UInt64.ofNat (0x4000000000000000 + ((cls * 1000 + d) * 8 + j) * 1048576)

def showFit (tag : String) (f : Fit) : String :=
  f.foldl (fun s w => s ++ " " ++ toString w.toNat) (tag ++ " " ++ toString f.length)

def parsePool : Nat → List Nat → Option (List (Key × Nat) × List Nat)
  | 0, rest => some ([], rest)
  | n + 1, a :: b :: c :: rest =>
    match parsePool n rest with
    | some (ps, r) => some ((⟨UInt64.ofNat a, UInt64.ofNat b⟩, c) :: ps, r)
    | none => none
  | _, _ => none

def parsePairs : Nat → List Nat → Option (List (Nat × Nat) × List Nat)
  | 0, rest => some ([], rest)
  | n + 1, a :: b :: rest =>
    match parsePairs n rest with
    | some (ps, r) => some ((a, b) :: ps, r)
    | none => none
  | _, _ => none

def mkCache (ps : List (Key × Nat)) : Cache :=
  let idx : Key → Nat := fun k => match ps.find? (fun p => p.1 == k) with
    | some p => p.2
    | none => 1000000
  -- the classes are numbered in the order in which save() walks their slots: `dom` ascending
  Cache.init idx ((ps.map (·.2)).eraseDups.mergeSort (· ≤ ·))

open Vita.C04.IO in
def showToks (ts : List Tok) : String :=
  ts.foldl (fun s t => s ++ " " ++ match t with
    | .u32 x => "s " ++ toString x.toNat
    | .size n => "n " ++ toString n.toNat
    | .key k => "k " ++ toString k.d0.toNat ++ " " ++ toString k.d1.toNat
    | .fit f => showFit "f" f) ""

/-- save + load into a fresh table through the GENERATED bodies of cache::save / cache::load; `m`: keep
    only the first p per cent of the tokens -/
def greloadGen (g : CState) (p : Option Nat) : Option (Bool × CState × Nat) :=
  (gsave g).bind fun s =>
    let toks := match p with
      | some p => s.2.2.take (if p ≥ 100 then s.2.2.length else s.2.2.length * p / 100)
      | none => s.2.2
    (gload ⟨g.mask, fun _ => Vita.C04.Slot.fresh, 1⟩ toks).map fun r => (r.1, r.2, s.2.2.length)

/-- append the generated terms' answer when it differs from the model's -/
def withGen (model : String) (gen : Option String) : String :=
  match gen with
  | some g => if g == model then model else model ++ " | gen " ++ g
  | none => model ++ " | gen no-meaning"

def gInit (bits : Nat) : Option CState := (gctor bits).map (·.1)

def step (st : St) (line : String) : St × String :=
  let toks := (line.trimAscii.toString.splitOn " ").filter (· ≠ "")
  match toks with
  | [] => (st, "bad-op")
  | cmd :: args =>
    match args.mapM String.toNat? with
    | none => (st, "bad-op")
    | some xs =>
      if xs.any (· ≥ 18446744073709551616) then (st, "bad-op") else
      let key? (i : Nat) : Option Key := st.pool[i]?
      match cmd, xs with
      | "new", bits :: n :: rest =>
        match parsePool n rest with
        | some (ps, []) => ({ st with pool := (ps.map (·.1)).toArray, c := mkCache ps, g := gInit bits }, "new")
        | _ => (st, "bad-op")
      | "ins", i :: len :: ws =>
        match key? i with
        | some k =>
          if ws.length = len then
            ({ st with c := st.c.insert k (ws.map UInt64.ofNat), g := st.g.bind fun g => ginsert g k (ws.map UInt64.ofNat) }, "ok")
          else (st, "bad-op")
        | none => (st, "bad-op")
      | "find", [i] =>
        match key? i with
        | some k => (st, withGen (showFit "f" (st.c.lookup k)) ((st.g.bind fun g => gfind g k).map (showFit "f")))
        | none => (st, "bad-op")
      | "clr", [] => ({ st with c := st.c.clear, g := st.g.bind gclear }, "ok")
      | "clrk", [i] =>
        match key? i with
        | some k => ({ st with c := st.c.clearKey k, g := st.g.bind fun g => gclearKey g k }, "ok")
        | none => (st, "bad-op")
      | "reload", [] =>
        let r := (Cache.init st.c.idx st.c.dom).load st.c.save
        let gr := st.g.bind fun g => greloadGen g none
        ({ st with c := r.2, g := gr.map (·.2.1) },
         withGen (if r.1 then "reload 1" else "reload 0") (gr.map fun x => if x.1 then "reload 1" else "reload 0"))
      | "dump", [] =>
        (st, withGen ("dump" ++ showToks (Vita.C04.IO.saveT st.c))
          ((st.g.bind gsave).map fun s => (if s.1 then "dump" else "dump save-failed") ++ showToks s.2.2))
      | "loadcut", [p] =>
        let toks := Vita.C04.IO.saveT st.c
        let m := if p ≥ 100 then toks.length else toks.length * p / 100      -- p = per cent of the tokens kept
        let r := Vita.C04.IO.loadT (Cache.init st.c.idx st.c.dom) (toks.take m)
        let gr := st.g.bind fun g => greloadGen g (some p)
        let sh (b : Bool) (n : Nat) := "loadcut " ++ (if b then "1 " else "0 ") ++ toString n
        ({ st with c := r.2, g := gr.map (·.2.1) }, withGen (sh r.1 toks.length) (gr.map fun x => sh x.1 x.2.2))
      | "jump", [x] =>
        if x < 4294967296 then
          let r := st.c.load ⟨UInt32.ofNat x, 0, []⟩
          ({ st with c := r.2, g := st.g.map fun g => { g with sl := UInt32.ofNat x } }, if r.1 then "ok" else "fail")
        else (st, "bad-op")
      | "pnew", bits :: n :: rest =>
        match parsePool n rest with
        | some (ps, m :: rest2) =>
          match parsePairs m rest2 with
          | some (inds, []) =>
            if inds.all (fun p => p.1 < ps.length) then
              ({ st with pool := (ps.map (·.1)).toArray, ps := ⟨mkCache ps, 0, 0⟩,
                         sigIdx := (inds.map (·.1)).toArray, fcls := (inds.map (·.2)).toArray,
                         gp := (gInit bits).map fun g => ⟨g, 0, 0⟩ }, "pnew")
            else (st, "bad-op")
          | _ => (st, "bad-op")
        | _ => (st, "bad-op")
      | "peval", [id] =>
        if id < st.sigIdx.size then
          let sig : Nat → Key := fun i => st.pool.getD (st.sigIdx.getD i 0) Key.zero
          let ev : Nat → Nat → Fit := fun d i => fitOf (st.fcls.getD i 0) d
          let r := proxyEval sig ev st.ps id
          let gr := st.gp.bind fun gp => gproxyEval sig ev gp id
          ({ st with ps := r.2, gp := gr.map (·.2) },
           withGen (showFit "p" r.1 ++ " calls=" ++ toString r.2.calls)
             (gr.map fun x => showFit "p" x.1 ++ " calls=" ++ toString x.2.calls))
        else (st, "bad-op")
      | "pevalv", [id] =>
        -- version mode: the fitness is the data version it was computed on (call-site scenarios)
        if id < st.sigIdx.size then
          let sig : Nat → Key := fun i => st.pool.getD (st.sigIdx.getD i 0) Key.zero
          let ev : Nat → Nat → Fit := fun d _ => [UInt64.ofNat (d + 1)]
          let r := proxyEval sig ev st.ps id
          let gr := st.gp.bind fun gp => gproxyEval sig ev gp id
          let showV (f : Fit) : String := match f with
            | [w] => "v " ++ toString (w.toNat - 1)
            | _ => "v none"
          ({ st with ps := r.2, gp := gr.map (·.2) }, withGen (showV r.1) (gr.map fun x => showV x.1))
        else (st, "bad-op")
      | "cs", [site, arg, gap, k] =>
        -- a validation-strategy step as modelled in `Site`; k = the data version observed afterwards
        let s? : Option Site := match site with
          | 0 => some (.dssInit arg) | 1 => some (.dssShake gap arg) | 2 => some (.dssClose arg)
          | 3 => some (.holdoutInit arg) | 4 => some (.holdoutShake arg) | 5 => some (.holdoutClose arg)
          | _ => none
        match s? with
        | none => (st, "bad-op")
        | some s =>
          if !s.changes && k != st.ps.data then (st, "REJECT data-changed-where-the-model-says-it-does-not")
          else
            let sig : Nat → Key := fun i => st.pool.getD (st.sigIdx.getD i 0) Key.zero
            let ev : Nat → Nat → Fit := fun d _ => [UInt64.ofNat (d + 1)]
            let evs := (CEv.site s k : CEv Nat Nat).expand
            let ps' := evs.foldl (fun p e => (pstep sig ev p e).2) st.ps
            let gp' := evs.foldl (fun p e => p.bind fun p => (gpstep sig ev p e).map (·.2)) st.gp
            ({ st with ps := ps', gp := gp' }, "ok")
      | "pdata", [d] => ({ st with ps := { st.ps with data := d }, gp := st.gp.map fun p => { p with data := d } }, "ok")
      | "pclr", [] =>
        ({ st with ps := { st.ps with cache := st.ps.cache.clear }, gp := st.gp.bind gproxyClear }, "ok")
      | "preload", [] =>
        let r := (Cache.init st.ps.cache.idx st.ps.cache.dom).load st.ps.cache.save
        let gr := st.gp.bind fun p => (greloadGen p.cache none).map fun x => (x.1, { p with cache := x.2.1 })
        ({ st with ps := { st.ps with cache := r.2 }, gp := gr.map (·.2) },
         withGen (if r.1 then "reload 1" else "reload 0") (gr.map fun x => if x.1 then "reload 1" else "reload 0"))
      | _, _ => (st, "bad-op")

partial def loop (h : IO.FS.Stream) (out : IO.FS.Stream) (st : St) : IO Unit := do
  let line ← h.getLine
  if line.isEmpty then return ()
  let (st', ans) := step st line
  out.putStrLn ans
  loop h out st'

def main : IO Unit := do
  loop (← IO.getStdin) (← IO.getStdout) {}
