/-
  C04 — the cache and the proxy as the GENERATED terms (Gen.lean) define them, through the semantics
  of Lang.lean.  Only definitions and bookkeeping lemmas here; that these functions ARE the model
  (Model.lean) is proved in Props.lean, term by term.

  `greload` is the model's save + load-into-fresh on the same slots; `gsave` / `gload` are the translated
  bodies of cache::save / cache::load (`gen_reload_is_model`: they compute `greload`).
-/
import Vita.C04.Gen
import Vita.C04.Lemmas
import Vita.C04.IOLemmas
namespace Vita.C04
open Lang

/-- hash_t::operator== as generated -/
def gkeq : Key → Key → Bool := runKeyEq Gen.keyEq
/-- cache::index as generated (given k_mask) -/
def gidx : UInt64 → Key → UInt64 := runIndex Gen.index gkeq
/-- the callees of the cache members -/
def gcs : Callees := ⟨gidx, gkeq⟩

/-- the slots of a table with mask `m`: 0 … m -/
def gdom (m : UInt64) : List Nat := List.range (m.toNat + 1)

/-- the model state a generated-layer state stands for -/
def toCache (st : CState) : Cache := ⟨fun k => (gidx st.mask k).toNat, gdom st.mask, st.table, st.sl⟩
/-- … and back (the mask is not part of the model's state: its `idx` is a parameter) -/
def ofCache (m : UInt64) (c : Cache) : CState := ⟨m, c.table, c.sl⟩

/-- the state a constructor call `cache(bits)` is proved to leave (`gen_ctor`): mask 2^bits - 1, every
    slot value-initialised, seal 1 -/
def gInitState (bits : Nat) : CState := ⟨(1 <<< UInt64.ofNat bits) - 1, fun _ => Slot.fresh, 1⟩

def gctor (bits : Nat) : Option (CState × Nat) := runCtor Gen.ctorMask Gen.ctorTable Gen.ctorSeal bits
def gfind (st : CState) (k : Key) : Option Fit := runFind gcs Gen.find st k
def ginsert (st : CState) (k : Key) (v : Fit) : Option CState := runInsert gcs Gen.insert st k v
def gclear (st : CState) : Option CState := runVoid gcs Gen.clear st
def gclearKey (st : CState) (k : Key) : Option CState := runKeyVoid gcs Gen.clearKey st k
def greload (st : CState) : CState := ofCache st.mask (toCache st).reload
/-- cache::save as generated: (result, state afterwards, tokens written) -/
def gsave (st : CState) : Option (Bool × CState × List IO.Tok) := IO.runSave gcs (gdom st.mask) Gen.save st
/-- cache::load as generated: (result, state afterwards) -/
def gload (st : CState) (inp : List IO.Tok) : Option (Bool × CState) := IO.runLoad gcs (gdom st.mask) Gen.load st inp

def gstep (st : CState) : Op → Option CState
  | .insert k v => ginsert st k v
  | .clear => gclear st
  | .clearKey k => gclearKey st k
  | .reload => some (greload st)

/-- a history through the generated members (`none`: some term had no meaning) -/
def grun (st : CState) : List Op → Option CState
  | [] => some st
  | op :: ops => (gstep st op).bind fun st' => grun st' ops

/-! ### bookkeeping -/

theorem step_idx_dom (c : Cache) (op : Op) : (c.step op).idx = c.idx ∧ (c.step op).dom = c.dom := by
  cases op
  · exact ⟨rfl, rfl⟩
  · simp only [Cache.step, Cache.clear]; split <;> exact ⟨rfl, rfl⟩
  · exact ⟨rfl, rfl⟩
  · simp only [Cache.step, reload_eq]; exact ⟨trivial, trivial⟩

theorem run_idx_dom (c : Cache) (ops : List Op) : (c.run ops).idx = c.idx ∧ (c.run ops).dom = c.dom := by
  induction ops generalizing c with
  | nil => exact ⟨rfl, rfl⟩
  | cons op ops ih =>
    have h1 := ih (c.step op)
    have h2 := step_idx_dom c op
    simp only [Cache.run, List.foldl_cons] at h1 ⊢
    exact ⟨h1.1.trans h2.1, h1.2.trans h2.2⟩

theorem toCache_ofCache (st : CState) (c : Cache) (hi : c.idx = (toCache st).idx) (hd : c.dom = (toCache st).dom) :
    toCache (ofCache st.mask c) = c := by
  cases c
  simp only [toCache, ofCache] at hi hd ⊢
  subst hi; subst hd; rfl

theorem ofCache_mask (m : UInt64) (c : Cache) : (ofCache m c).mask = m := rfl

theorem toCache_run (st : CState) (ops : List Op) :
    toCache (ofCache st.mask ((toCache st).run ops)) = (toCache st).run ops :=
  toCache_ofCache st _ (run_idx_dom _ ops).1 (run_idx_dom _ ops).2

theorem shl_sub_add : ∀ b : Fin 64,
    ((1 <<< UInt64.ofNat b.val : UInt64) - 1).toNat + 1 = (1 <<< UInt64.ofNat b.val : UInt64).toNat := by
  decide

theorem toCache_gInit (bits : Nat) :
    toCache (gInitState bits) =
      Cache.init (fun k => (gidx (gInitState bits).mask k).toNat) (gdom (gInitState bits).mask) := rfl

/-! ### the proxy through the generated terms -/

section proxy
variable {Ind Data : Type} (sig : Ind → Key) (ev : Data → Ind → Fit)

def gworld : PWorld CState Data Ind := ⟨gfind, ginsert, gclear, sig, ev⟩

def toP (s : PSt CState Data) : PState Data := ⟨toCache s.cache, s.data, s.calls⟩
def ofP (m : UInt64) (s : PState Data) : PSt CState Data := ⟨ofCache m s.cache, s.data, s.calls⟩

def gproxyEval (s : PSt CState Data) (i : Ind) : Option (Fit × PSt CState Data) :=
  runProxyCall (gworld sig ev) Gen.proxyCall s i

def gproxyClear (s : PSt CState Data) : Option (PSt CState Data) :=
  runProxyClear gclear Gen.proxyClear s

def gpstep (s : PSt CState Data) : Ev Ind Data → Option (Option Fit × PSt CState Data)
  | .eval i => (gproxyEval sig ev s i).map fun r => (some r.1, r.2)
  | .setData d => some (none, { s with data := d })
  | .clear => (gproxyClear s).map fun s' => (none, s')
  | .reload => some (none, { s with cache := greload s.cache })

/-- the answers of the generated proxy along a history (`none`: some term had no meaning) -/
def gRunP (s : PSt CState Data) : List (Ev Ind Data) → Option (List Fit)
  | [] => some []
  | e :: es =>
    match gpstep sig ev s e with
    | none => none
    | some (some f, s') => (gRunP s' es).map (f :: ·)
    | some (none, s') => gRunP s' es

theorem toP_ofP (s : PSt CState Data) (p : PState Data) (hi : p.cache.idx = (toCache s.cache).idx)
    (hd : p.cache.dom = (toCache s.cache).dom) : toP (ofP s.cache.mask p) = p := by
  cases p
  simp only [toP, ofP] at hi hd ⊢
  rw [toCache_ofCache s.cache _ hi hd]

theorem proxyEval_idx_dom (s : PState Data) (i : Ind) :
    (proxyEval sig ev s i).2.cache.idx = s.cache.idx ∧ (proxyEval sig ev s i).2.cache.dom = s.cache.dom := by
  simp only [proxyEval]; split <;> exact ⟨rfl, rfl⟩

end proxy

end Vita.C04
