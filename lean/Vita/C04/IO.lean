/-
  C04 — cache::save / cache::load as GENERATED terms (session 4).

  Until now `save` / `load` were hand-modelled (`Cache.save`, `Cache.load` of Model.lean).  This file adds

  * the token-level model `saveT` / `loadT`: what `save` writes and `load` reads is a sequence of
    kind-tagged tokens (seal, count, key, fitness).  The bytes of each token are C11's subject
    (`formats_agree`, the byte-level tie); here a token is what one `<<` / `>>` / `hash_t::save` /
    `fitness_t::load` … transfers.  A read that finds the input exhausted, or a token of another kind,
    fails (the stream goes bad): `load` returns `false` at that point, with the slots written so far
    left in place — exactly as the code does;
  * the statement language `IStmt` into which tools/translate_cache.py translates the two bodies
    (pure statements are those of Lang.lean), and its semantics, written once.

  Abstraction (trusted): a token of the wrong kind makes the read fail.  On real text a `>>` may parse a
  prefix of what another `<<` wrote; streams that are not (prefixes of) outputs of `save` are outside
  this model (C10/C12 cover hostile input).
-/
import Vita.C04.Lang
namespace Vita.C04.IO
open Vita.C04 Vita.C04.Lang

inductive Tok where
  | u32 (x : UInt32)        -- `out << seal_`
  | size (n : UInt64)       -- `out << num`
  | key (k : Key)           -- hash_t::save
  | fit (f : Fit)           -- fitness_t::save
deriving Repr, DecidableEq

/-! ### the token-level model -/

/-- the tokens of a `Saved` -/
def entryToks : List (Key × Fit) → List Tok
  | [] => []
  | (k, v) :: es => .key k :: .fit v :: entryToks es

def toksOf (s : Saved) : List Tok := .u32 s.sl :: .size (UInt64.ofNat s.n) :: entryToks s.entries

/-- cache::save at token level -/
def saveT (c : Cache) : List Tok := toksOf c.save

/-- the loop of cache::load on tokens: `n` entries, each a key token then a fitness token; anything
    else is a failed read, which leaves the slots written so far in place -/
def loadGoT (idx : Key → Nat) (sl : UInt32) : Nat → List Tok → (Nat → Slot) → Bool × (Nat → Slot)
  | 0, _, t => (true, t)
  | n + 1, .key k :: .fit v :: inp, t => loadGoT idx sl n inp (setSlot t (idx k) ⟨k, v, sl⟩)
  | _ + 1, _, t => (false, t)

/-- cache::load at token level -/
def loadT (c : Cache) : List Tok → Bool × Cache
  | .u32 sl :: .size n :: inp =>
    match loadGoT c.idx sl n.toNat inp c.table with
    | (true, t) => (true, { c with table := t, sl := sl })
    | (false, t) => (false, { c with table := t })
  | _ => (false, c)

/-! ### the statement language of the two bodies -/

/-- what a scalar `>>` reads -/
inductive Kind where
  | u32 | size
deriving Repr, DecidableEq

inductive IStmt where
  | pure (s : Stmt)                                     -- statements without I/O (Lang.lean)
  | seq (a b : IStmt)
  | ite (c : Expr) (t e : IStmt)
  | readOr (x : Nat) (k : Kind) (fail : Expr)           -- `if (!(in >> x)) return fail;`
  | loadFieldOr (x : Nat) (f : Field) (fail : Expr)     -- `if (!x.f.load(in)) return fail;`
  | write (e : Expr)                                    -- `out << e` (separators are not tokens)
  | saveField (e : Expr) (f : Field)                    -- `e.f.save(out);`
  | incr (x : Nat)                                      -- `++x;`, x a std::size_t local
  | forCount (n : Nat) (body : IStmt)                   -- `for (T i(0); i < n; ++i) body` (body does not mention i)
  | forSlots (x : Nat) (body : IStmt)                   -- `for (const auto &x : table_) body`, in slot order
  | retGood                                             -- `return out.good();` (the stream is good: C12 has the rest)
deriving Repr

structure IOSt where
  st : CState
  env : Env
  inp : List Tok
  out : List Tok            -- oldest first

inductive IOut where
  | run (s : IOSt)
  | ret (s : IOSt) (v : Val)
  | bad

/-- `n` rounds of a loop body; a `return` inside ends the function -/
def iter (f : IOSt → IOut) : Nat → IOSt → IOut
  | 0, s => .run s
  | n + 1, s =>
    match f s with
    | .run s' => iter f n s'
    | r => r

/-- a round per slot, in the order of `dom`, with `x` bound to (a snapshot of) the slot -/
def overSlots (f : IOSt → IOut) (x : Nat) : List Nat → IOSt → IOut
  | [], s => .run s
  | j :: js, s =>
    match f { s with env := s.env.set x (.slot (s.st.table j)) } with
    | .run s' => overSlots f x js s'
    | r => r

def liftOut (s : IOSt) : Out → IOut
  | .run st env => .run { s with st := st, env := env }
  | .ret st v => .ret { s with st := st } v
  | .bad => .bad

def failWith (cs : Callees) (s : IOSt) (fail : Expr) : IOut :=
  match eval cs s.st s.env fail with
  | .bad => .bad
  | v => .ret s v

def readTok (s : IOSt) (x : Nat) : Kind → Option IOSt
  | .u32 => match s.inp with
    | .u32 v :: rest => some { s with env := s.env.set x (.u32 v), inp := rest }
    | _ => none
  | .size => match s.inp with
    | .size n :: rest => some { s with env := s.env.set x (.u64 n), inp := rest }
    | _ => none

def loadField (s : IOSt) (x : Nat) (sl : Slot) : Field → Option IOSt
  | .hash => match s.inp with
    | .key k :: rest => some { s with env := s.env.set x (.slot { sl with hash := k }), inp := rest }
    | _ => none
  | .fitness => match s.inp with
    | .fit v :: rest => some { s with env := s.env.set x (.slot { sl with fit := v }), inp := rest }
    | _ => none
  | .seal => none

def iexec (cs : Callees) (dom : List Nat) : IStmt → IOSt → IOut
  | .pure b, s => liftOut s (exec cs b s.st s.env)
  | .seq a b, s =>
    match iexec cs dom a s with
    | .run s' => iexec cs dom b s'
    | r => r
  | .ite c t e, s =>
    match eval cs s.st s.env c with
    | .bool true => iexec cs dom t s
    | .bool false => iexec cs dom e s
    | _ => .bad
  | .readOr x k fail, s =>
    match readTok s x k with
    | some s' => .run s'
    | none => failWith cs s fail
  | .loadFieldOr x f fail, s =>
    match s.env x, f with
    | .slot _, .seal => .bad
    | .slot sl, f =>
      match loadField s x sl f with
      | some s' => .run s'
      | none => failWith cs s fail
    | _, _ => .bad
  | .write e, s =>
    match eval cs s.st s.env e with
    | .u32 v => .run { s with out := s.out ++ [.u32 v] }
    | .u64 n => .run { s with out := s.out ++ [.size n] }
    | _ => .bad
  | .saveField e f, s =>
    match eval cs s.st s.env e, f with
    | .slot sl, .hash => .run { s with out := s.out ++ [.key sl.hash] }
    | .slot sl, .fitness => .run { s with out := s.out ++ [.fit sl.fit] }
    | _, _ => .bad
  | .incr x, s =>
    match s.env x with
    | .u64 n => .run { s with env := s.env.set x (.u64 (n + 1)) }
    | _ => .bad
  | .forCount n body, s =>
    match s.env n with
    | .u64 k => iter (fun s' => iexec cs dom body s') k.toNat s
    | _ => .bad
  | .forSlots x body, s => overSlots (fun s' => iexec cs dom body s') x dom s
  | .retGood, s => .ret s (.bool true)

/-- `bool save(std::ostream &out) const`: (result, state afterwards, tokens written) -/
def runSave (cs : Callees) (dom : List Nat) (body : IStmt) (st : CState) : Option (Bool × CState × List Tok) :=
  match iexec cs dom body ⟨st, Env.empty, [], []⟩ with
  | .ret s (.bool b) => some (b, s.st, s.out)
  | _ => none

/-- `bool load(std::istream &in)`: (result, state afterwards) -/
def runLoad (cs : Callees) (dom : List Nat) (body : IStmt) (st : CState) (inp : List Tok) : Option (Bool × CState) :=
  match iexec cs dom body ⟨st, Env.empty, inp, []⟩ with
  | .ret s (.bool b) => some (b, s.st)
  | _ => none

end Vita.C04.IO
