/-
  C04 — lemmas about the token-level model of save / load and about the two loop combinators of IO.lean.
  Nothing here mentions a generated term: the loop lemmas take the loop body as a FUNCTION with a
  relational specification (what it does to the table / the counter / the output), so that the
  statements about the generated bodies in Props.lean are independent of how the body is spelled.
-/
import Vita.C04.IO
import Vita.C04.Lemmas
namespace Vita.C04.IO
open Vita.C04 Vita.C04.Lang

/-! ### the token-level model against the `Saved` model -/

theorem loadGoT_entryToks (idx : Key → Nat) (sl : UInt32) (n : Nat) (es : List (Key × Fit)) (t : Nat → Slot) :
    loadGoT idx sl n (entryToks es) t = loadGo idx sl n es t := by
  induction n generalizing es t with
  | zero => cases es <;> rfl
  | succ n ih =>
    cases es with
    | nil => rfl
    | cons e es => obtain ⟨k, v⟩ := e; simp only [entryToks, loadGoT, loadGo]; exact ih es _

/-- reading the tokens of a `Saved` is loading the `Saved` (the count fits a std::size_t) -/
theorem loadT_toksOf (c : Cache) (s : Saved) (h : s.n < 2 ^ 64) : loadT c (toksOf s) = c.load s := by
  have e : (UInt64.ofNat s.n).toNat = s.n := by
    simp only [UInt64.toNat_ofNat']; exact Nat.mod_eq_of_lt h
  simp only [toksOf, loadT, e, loadGoT_entryToks, Cache.load]
  rcases loadGo c.idx s.sl s.n s.entries c.table with ⟨b, t⟩
  cases b <;> rfl

theorem loadGoT_hit (idx : Key → Nat) (sl : UInt32) (n : Nat) (k : Key) (v : Fit) (inp : List Tok) (t : Nat → Slot) :
    loadGoT idx sl (n + 1) (.key k :: .fit v :: inp) t = loadGoT idx sl n inp (setSlot t (idx k) ⟨k, v, sl⟩) := rfl

theorem loadGoT_miss (idx : Key → Nat) (sl : UInt32) (n : Nat) (inp : List Tok) (t : Nat → Slot)
    (h : ∀ k v rest, inp ≠ .key k :: .fit v :: rest) : loadGoT idx sl (n + 1) inp t = (false, t) := by
  rcases inp with _ | ⟨a, tl⟩
  · rfl
  · cases a with
    | key k =>
      rcases tl with _ | ⟨b, tl⟩
      · rfl
      · cases b with
        | fit v => exact absurd rfl (h k v tl)
        | _ => rfl
    | _ => rfl

/-- a stream cut anywhere before its end never loads successfully -/
theorem loadGoT_length (idx : Key → Nat) (sl : UInt32) (n : Nat) (inp : List Tok) (t : Nat → Slot)
    (h : (loadGoT idx sl n inp t).1 = true) : 2 * n ≤ inp.length := by
  induction n generalizing inp t with
  | zero => omega
  | succ n ih =>
    by_cases hh : ∃ k v rest, inp = .key k :: .fit v :: rest
    · obtain ⟨k, v, rest, rfl⟩ := hh
      rw [loadGoT_hit] at h
      have := ih _ _ h
      simp only [List.length_cons]; omega
    · rw [loadGoT_miss idx sl n inp t (fun k v rest e => hh ⟨k, v, rest, e⟩)] at h
      cases h

theorem entryToks_length (es : List (Key × Fit)) : (entryToks es).length = 2 * es.length := by
  induction es with
  | nil => rfl
  | cons e es ih => obtain ⟨k, v⟩ := e; simp only [entryToks, List.length_cons, ih]; omega

theorem entryToks_append (a b : List (Key × Fit)) : entryToks (a ++ b) = entryToks a ++ entryToks b := by
  induction a with
  | nil => rfl
  | cons e a ih => obtain ⟨k, v⟩ := e; simp only [List.cons_append, entryToks, ih]

/-! ### the counting loop of cache::load -/

/-- what one round of the loop of cache::load must do, whatever its text: with the seal read before in
    local `vs` and the mask `m` of the table, a key token followed by a fitness token stores the slot and goes on; anything else
    returns `false` with the table as it is. -/
structure LoadStep (m : UInt64) (idx : Key → Nat) (sl : UInt32) (vs : Nat) (f : IOSt → IOut) : Prop where
  hit : ∀ (s : IOSt) k v rest, s.st.mask = m → s.env vs = .u32 sl → s.inp = .key k :: .fit v :: rest →
    ∃ env', env' vs = .u32 sl ∧
      f s = .run ⟨{ s.st with table := setSlot s.st.table (idx k) ⟨k, v, sl⟩ }, env', rest, s.out⟩
  miss : ∀ (s : IOSt), s.env vs = .u32 sl → (∀ k v rest, s.inp ≠ .key k :: .fit v :: rest) →
    ∃ s', s'.st = s.st ∧ f s = .ret s' (.bool false)

theorem iter_loadStep {m : UInt64} {idx : Key → Nat} {sl : UInt32} {vs : Nat} {f : IOSt → IOut} (hf : LoadStep m idx sl vs f)
    (n : Nat) (s : IOSt) (hm : s.st.mask = m) (hs : s.env vs = .u32 sl) :
    (∃ s', iter f n s = .run s' ∧ s'.env vs = .u32 sl ∧ s'.st.mask = s.st.mask ∧ s'.st.sl = s.st.sl ∧
        loadGoT idx sl n s.inp s.st.table = (true, s'.st.table)) ∨
    (∃ s', iter f n s = .ret s' (.bool false) ∧ s'.st.mask = s.st.mask ∧ s'.st.sl = s.st.sl ∧
        loadGoT idx sl n s.inp s.st.table = (false, s'.st.table)) := by
  induction n generalizing s with
  | zero => exact .inl ⟨s, rfl, hs, rfl, rfl, rfl⟩
  | succ n ih =>
    by_cases hh : ∃ k v rest, s.inp = .key k :: .fit v :: rest
    · obtain ⟨k, v, rest, hi⟩ := hh
      obtain ⟨env', he, hr⟩ := hf.hit s k v rest hm hs hi
      simp only [iter, hr, hi, loadGoT_hit]
      exact ih _ hm he
    · have hm : ∀ k v rest, s.inp ≠ .key k :: .fit v :: rest := fun k v rest e => hh ⟨k, v, rest, e⟩
      obtain ⟨s', hst, hr⟩ := hf.miss s hs hm
      simp only [iter, hr, loadGoT_miss idx sl n s.inp s.st.table hm]
      exact .inr ⟨s', rfl, by rw [hst], by rw [hst], by rw [hst]⟩

/-! ### the two loops over the table of cache::save -/

/-- one round of the counting loop: local `vn` goes up by one exactly for the slots `p` accepts; nothing
    else that matters changes -/
def CountStep (st0 : CState) (p : Slot → Bool) (vn x : Nat) (f : IOSt → IOut) : Prop :=
  ∀ (s : IOSt) (j : Nat) (n : UInt64), s.st = st0 → s.env vn = .u64 n →
    ∃ env', env' vn = .u64 (if p (s.st.table j) then n + 1 else n) ∧
      f { s with env := s.env.set x (.slot (s.st.table j)) } = .run { s with env := env' }

theorem overSlots_count {st0 : CState} {p : Slot → Bool} {vn x : Nat} {f : IOSt → IOut} (hf : CountStep st0 p vn x f)
    (dom : List Nat) (s : IOSt) (n : UInt64) (h0 : s.st = st0) (hs : s.env vn = .u64 n) :
    ∃ env', env' vn = .u64 (n + UInt64.ofNat ((dom.map s.st.table).filter p).length) ∧
      overSlots f x dom s = .run { s with env := env' } := by
  induction dom generalizing s n with
  | nil => exact ⟨s.env, by simpa using hs, rfl⟩
  | cons j js ih =>
    obtain ⟨env', he, hr⟩ := hf s j n h0 hs
    obtain ⟨env'', he', hr'⟩ := ih { s with env := env' } _ h0 he
    refine ⟨env'', ?_, ?_⟩
    · rw [he']
      simp only [List.map_cons, List.filter_cons]
      by_cases hp : p (s.st.table j) = true
      · simp only [hp, if_true, List.length_cons]
        congr 1
        rw [show ((js.map s.st.table).filter p).length + 1 = 1 + ((js.map s.st.table).filter p).length from Nat.add_comm _ _]
        rw [UInt64.ofNat_add]
        rw [show UInt64.ofNat 1 = 1 from rfl, UInt64.add_assoc]
      · simp only [hp]; rfl
    · simp only [overSlots, hr]; exact hr'

/-- one round of the writing loop: the key and the fitness of the slots `p` accepts are appended to the
    output, in this order; nothing else that matters changes -/
def WriteStep (st0 : CState) (p : Slot → Bool) (x : Nat) (f : IOSt → IOut) : Prop :=
  ∀ (s : IOSt) (j : Nat), s.st = st0 →
    ∃ env', f { s with env := s.env.set x (.slot (s.st.table j)) } =
      .run { s with env := env', out := s.out ++ (if p (s.st.table j) then [.key (s.st.table j).hash, .fit (s.st.table j).fit] else []) }

theorem overSlots_write {st0 : CState} {p : Slot → Bool} {x : Nat} {f : IOSt → IOut} (hf : WriteStep st0 p x f)
    (dom : List Nat) (s : IOSt) (h0 : s.st = st0) :
    ∃ env', overSlots f x dom s =
      .run { s with env := env', out := s.out ++ entryToks (((dom.map s.st.table).filter p).map fun sl => (sl.hash, sl.fit)) } := by
  induction dom generalizing s with
  | nil => exact ⟨s.env, by simp [overSlots, entryToks]⟩
  | cons j js ih =>
    obtain ⟨env', hr⟩ := hf s j h0
    obtain ⟨env'', hr'⟩ := ih { s with env := env', out := s.out ++ (if p (s.st.table j) then [.key (s.st.table j).hash, .fit (s.st.table j).fit] else []) } h0
    refine ⟨env'', ?_⟩
    simp only [overSlots, hr]
    rw [hr']
    simp only [List.map_cons, List.filter_cons]
    by_cases hp : p (s.st.table j) = true
    · simp [hp, entryToks, List.append_assoc]
    · simp [hp]

/-! ### equation lemmas of `iexec`, one per constructor (all `rfl`); the loops keep their body as the
    partially applied `iexec cs dom body`, which no lemma below rewrites -/
section eqs
variable (cs : Callees) (dom : List Nat)
theorem iexec_pure (b : Stmt) (s : IOSt) : iexec cs dom (.pure b) s = liftOut s (exec cs b s.st s.env) := rfl
theorem iexec_seq (a b : IStmt) (s : IOSt) :
    iexec cs dom (.seq a b) s = (match iexec cs dom a s with | .run s' => iexec cs dom b s' | r => r) := rfl
theorem iexec_ite (c : Expr) (t e : IStmt) (s : IOSt) :
    iexec cs dom (.ite c t e) s = (match eval cs s.st s.env c with
      | .bool true => iexec cs dom t s | .bool false => iexec cs dom e s | _ => .bad) := rfl
theorem iexec_readOr (x : Nat) (k : Kind) (fail : Expr) (s : IOSt) :
    iexec cs dom (.readOr x k fail) s = (match readTok s x k with | some s' => .run s' | none => failWith cs s fail) := rfl
theorem iexec_write (e : Expr) (s : IOSt) :
    iexec cs dom (.write e) s = (match eval cs s.st s.env e with
      | .u32 v => .run { s with out := s.out ++ [.u32 v] }
      | .u64 n => .run { s with out := s.out ++ [.size n] }
      | _ => .bad) := rfl
theorem iexec_incr (x : Nat) (s : IOSt) :
    iexec cs dom (.incr x) s = (match s.env x with
      | .u64 n => .run { s with env := s.env.set x (.u64 (n + 1)) } | _ => .bad) := rfl
theorem iexec_forCount (n : Nat) (body : IStmt) (s : IOSt) :
    iexec cs dom (.forCount n body) s = (match s.env n with
      | .u64 k => iter (iexec cs dom body) k.toNat s | _ => .bad) := rfl
theorem iexec_forSlots (x : Nat) (body : IStmt) (s : IOSt) :
    iexec cs dom (.forSlots x body) s = overSlots (iexec cs dom body) x dom s := rfl
theorem iexec_retGood (s : IOSt) : iexec cs dom .retGood s = .ret s (.bool true) := rfl
end eqs

end Vita.C04.IO
