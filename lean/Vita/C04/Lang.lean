/-
  C04 — the small statement / expression language into which tools/translate_cache.py translates
  the bodies of

    hash_t::operator==            (an `Expr` over two keys)
    cache::index                  (a `Stmt`, parameter 0 = h)
    cache::cache(bits)            (three `Expr`s: the mem-initialisers of k_mask, table_, seal_)
    cache::find / insert / clear() / clear(const hash_t &)     (`Stmt`s)
    evaluator_proxy::operator() / clear                        (`PStmt`s, the proxy layer)

  and its semantics, written ONCE here.  Nothing in this file knows the shape of the code: the terms
  live in Gen.lean (generated on every check from the clang AST), the statements "the semantics of the
  generated term is the model's function" in Props.lean.

  Cache layer.  The state is exactly the data members of vita::cache (`k_mask`, `table_`, `seal_`);
  locals and parameters are numbered (the generator lists the names in a comment).  `table_` is a total
  function on slot numbers, as in Model.lean.  Two callees are parameters of the semantics, and are
  instantiated with the semantics of their own generated bodies: `idx` (cache::index) and `keq`
  (hash_t::operator==).

  What the translator may map to what (it refuses everything else):
    `std::unique_lock/shared_lock lock(mutex_)`  ↦ `.lock excl`     (no meaning here: C15)
    `VITA_SCHED_POINT(n)`                        ↦ nothing           (verification hook, no-op)
    `const T &x(e)` in a const member, `T x(e)`, `T x;`, `static const T x{}`  ↦ `.declare x e`
    (`slot s;` leaves `s.seal` indeterminate in C++; here it is the value-initialised slot)
    `++m == c` as an if-condition                ↦ `.assign (.mem m) (.add (.mem m) (.u32 1))` then the test
    `for (auto &s : table_) body`                ↦ `.forSlots s body` (body may only write `s`)
-/
import Vita.C04.Model
namespace Vita.C04.Lang
open Vita.C04

/-- members of cache::slot -/
inductive Field where
  | hash | fitness | seal
deriving DecidableEq, Repr

/-- scalar data members of vita::cache -/
inductive Mem where
  | seal_ | k_mask
deriving DecidableEq, Repr

inductive Val where
  | bool (b : Bool)
  | u32 (x : UInt32)        -- `unsigned` (the seal)
  | u64 (x : UInt64)        -- std::uint64_t / std::size_t
  | key (k : Key)           -- hash_t
  | fit (f : Fit)           -- fitness_t
  | slot (s : Slot)         -- cache::slot
  | unit                    -- `return;`
  | bad                     -- ill-typed term: no meaning
deriving Repr

inductive Expr where
  | u32 (n : Nat)                         -- integer literal used at type `unsigned`
  | u64 (n : Nat)                         -- integer literal used at a 64-bit type
  | bool (b : Bool)                       -- true / false
  | var (x : Nat)                         -- parameter / local
  | mem (m : Mem)                         -- this->m
  | slotAt (i : Expr)                     -- table_[i]
  | index (k : Expr)                      -- this->index(k)
  | field (e : Expr) (f : Field)          -- e.hash / e.fitness / e.seal
  | word (e : Expr) (i : Nat)             -- e.data[i]
  | eq (a b : Expr)                       -- builtin == (seals, 64-bit words, bools)
  | keyEq (a b : Expr)                    -- hash_t::operator==
  | and (a b : Expr)                      -- &&
  | or (a b : Expr)                       -- ||
  | not (a : Expr)                        -- !
  | band (a b : Expr)                     -- & on 64-bit words
  | add (a b : Expr)                      -- + on `unsigned` (wraps)
  | sub (a b : Expr)                      -- - on 64-bit words (wraps)
  | shl (a b : Expr)                      -- << on 64-bit words
  | emptyKey                              -- hash_t()
  | emptyFit                              -- fitness_t{} / fitness_t()
  | freshSlot                             -- slot()  (value-initialised)
  | nonEmpty (e : Expr)                   -- e.size() used as a condition (fitness_t)
deriving Repr

inductive LVal where
  | var (x : Nat)                         -- x = …
  | varField (x : Nat) (f : Field)        -- x.f = …       (x a local slot)
  | mem (m : Mem)                         -- m = …
  | slotAt (i : Expr)                     -- table_[i] = …
  | slotField (i : Expr) (f : Field)      -- table_[i].f = …
deriving Repr

inductive Stmt where
  | skip
  | lock (exclusive : Bool)
  | declare (x : Nat) (e : Expr)
  | assign (l : LVal) (e : Expr)
  | ite (c : Expr) (t e : Stmt)
  | seq (a b : Stmt)
  | ret (e : Expr)
  | retVoid
  | forSlots (x : Nat) (body : Stmt)
deriving Repr

/-- the data members of vita::cache -/
structure CState where
  mask : UInt64
  table : Nat → Slot
  sl : UInt32

abbrev Env := Nat → Val

def Env.empty : Env := fun _ => .bad
def Env.set (env : Env) (x : Nat) (v : Val) : Env := fun y => if y = x then v else env y

/-- the two callees -/
structure Callees where
  idx : UInt64 → Key → UInt64       -- cache::index, given k_mask
  keq : Key → Key → Bool            -- hash_t::operator==

def slotGet (s : Slot) : Field → Val
  | .hash => .key s.hash
  | .fitness => .fit s.fit
  | .seal => .u32 s.sl

def slotPut (s : Slot) : Field → Val → Option Slot
  | .hash, .key k => some { s with hash := k }
  | .fitness, .fit f => some { s with fit := f }
  | .seal, .u32 x => some { s with sl := x }
  | _, _ => none

def eval (cs : Callees) (st : CState) (env : Env) : Expr → Val
  | .u32 n => .u32 (UInt32.ofNat n)
  | .u64 n => .u64 (UInt64.ofNat n)
  | .bool b => .bool b
  | .var x => env x
  | .mem .seal_ => .u32 st.sl
  | .mem .k_mask => .u64 st.mask
  | .slotAt i =>
    match eval cs st env i with
    | .u64 n => .slot (st.table n.toNat)
    | _ => .bad
  | .index k =>
    match eval cs st env k with
    | .key k => .u64 (cs.idx st.mask k)
    | _ => .bad
  | .field e f =>
    match eval cs st env e with
    | .slot s => slotGet s f
    | _ => .bad
  | .word e i =>
    match eval cs st env e, i with
    | .key k, 0 => .u64 k.d0
    | .key k, 1 => .u64 k.d1
    | _, _ => .bad
  | .eq a b =>
    match eval cs st env a, eval cs st env b with
    | .u32 x, .u32 y => .bool (decide (x = y))
    | .u64 x, .u64 y => .bool (decide (x = y))
    | .bool x, .bool y => .bool (decide (x = y))
    | _, _ => .bad
  | .keyEq a b =>
    match eval cs st env a, eval cs st env b with
    | .key x, .key y => .bool (cs.keq x y)
    | _, _ => .bad
  | .and a b =>
    match eval cs st env a, eval cs st env b with
    | .bool x, .bool y => .bool (x && y)
    | _, _ => .bad
  | .or a b =>
    match eval cs st env a, eval cs st env b with
    | .bool x, .bool y => .bool (x || y)
    | _, _ => .bad
  | .not a =>
    match eval cs st env a with
    | .bool x => .bool (!x)
    | .u64 x => .bool (decide (x = 0))  -- `!data[0]`
    | _ => .bad
  | .band a b =>
    match eval cs st env a, eval cs st env b with
    | .u64 x, .u64 y => .u64 (x &&& y)
    | _, _ => .bad
  | .add a b =>
    match eval cs st env a, eval cs st env b with
    | .u32 x, .u32 y => .u32 (x + y)
    | _, _ => .bad
  | .sub a b =>
    match eval cs st env a, eval cs st env b with
    | .u64 x, .u64 y => .u64 (x - y)
    | _, _ => .bad
  | .shl a b =>
    match eval cs st env a, eval cs st env b with
    | .u64 x, .u64 y => if y.toNat < 64 then .u64 (x <<< y) else .bad
    | .u64 x, .u32 y => if y.toNat < 64 then .u64 (x <<< UInt64.ofNat y.toNat) else .bad   -- `1ull << bits`
    | _, _ => .bad
  | .emptyKey => .key Key.zero
  | .emptyFit => .fit []
  | .freshSlot => .slot Slot.fresh
  | .nonEmpty e =>
    match eval cs st env e with
    | .fit f => .bool (!f.isEmpty)
    | _ => .bad

inductive Out where
  | run (st : CState) (env : Env)         -- fell through
  | ret (st : CState) (v : Val)           -- `return v`
  | bad

def assignTo (cs : Callees) (st : CState) (env : Env) (l : LVal) (v : Val) : Out :=
  match l, v with
  | .var x, v => .run st (env.set x v)
  | .varField x f, v =>
    match env x with
    | .slot s => match slotPut s f v with
      | some s' => .run st (env.set x (.slot s'))
      | none => .bad
    | _ => .bad
  | .mem .seal_, .u32 x => .run { st with sl := x } env
  | .mem _, _ => .bad                       -- k_mask is const
  | .slotAt i, .slot s =>
    match eval cs st env i with
    | .u64 n => .run { st with table := setSlot st.table n.toNat s } env
    | _ => .bad
  | .slotAt _, _ => .bad
  | .slotField i f, v =>
    match eval cs st env i with
    | .u64 n => match slotPut (st.table n.toNat) f v with
      | some s' => .run { st with table := setSlot st.table n.toNat s' } env
      | none => .bad
    | _ => .bad

/-- what one round of a `for (auto &x : table_)` body makes of a slot: the body runs with `x` bound
    to the slot; it may only write `x` (the translator refuses anything else), so only the final
    value of `x` matters. -/
def slotAfter (r : Out) (x : Nat) (old : Slot) : Slot :=
  match r with
  | .run _ env => match env x with
    | .slot s => s
    | _ => old
  | _ => old

def exec (cs : Callees) : Stmt → CState → Env → Out
  | .skip, st, env => .run st env
  | .lock _, st, env => .run st env
  | .declare x e, st, env =>
    match eval cs st env e with
    | .bad => .bad
    | v => .run st (env.set x v)
  | .assign l e, st, env =>
    match eval cs st env e with
    | .bad => .bad
    | v => assignTo cs st env l v
  | .ite c t e, st, env =>
    match eval cs st env c with
    | .bool true => exec cs t st env
    | .bool false => exec cs e st env
    | _ => .bad
  | .seq a b, st, env =>
    match exec cs a st env with
    | .run st' env' => exec cs b st' env'
    | r => r
  | .ret e, st, env =>
    match eval cs st env e with
    | .bad => .bad
    | v => .ret st v
  | .retVoid, st, _ => .ret st .unit
  | .forSlots x body, st, env =>
    .run { st with table := fun i => slotAfter (exec cs body st (env.set x (.slot (st.table i)))) x (st.table i) } env

/-! ### running a member function -/

/-- a body that returns a 64-bit word (cache::index), given k_mask and the key -/
def runIndex (body : Stmt) (keq : Key → Key → Bool) (mask : UInt64) (k : Key) : UInt64 :=
  match exec ⟨fun _ _ => 0, keq⟩ body ⟨mask, fun _ => Slot.fresh, 0⟩ (Env.empty.set 0 (.key k)) with
  | .ret _ (.u64 w) => w
  | _ => 0

/-- an expression over two keys (hash_t::operator==): 0 = *this, 1 = the argument -/
def runKeyEq (body : Expr) (a b : Key) : Bool :=
  match eval ⟨fun _ _ => 0, fun _ _ => false⟩ ⟨0, fun _ => Slot.fresh, 0⟩ ((Env.empty.set 0 (.key a)).set 1 (.key b)) body with
  | .bool r => r
  | _ => false

/-- a member function `fitness_t f(const hash_t &)` (cache::find): `none` = the term has no meaning -/
def runFind (cs : Callees) (body : Stmt) (st : CState) (k : Key) : Option Fit :=
  match exec cs body st (Env.empty.set 0 (.key k)) with
  | .ret _ (.fit f) => some f
  | _ => none

/-- a member function `void f(const hash_t &, const fitness_t &)` (cache::insert) -/
def runInsert (cs : Callees) (body : Stmt) (st : CState) (k : Key) (v : Fit) : Option CState :=
  match exec cs body st ((Env.empty.set 0 (.key k)).set 1 (.fit v)) with
  | .run st' _ => some st'
  | .ret st' .unit => some st'
  | _ => none

/-- a member function `void f()` (cache::clear) -/
def runVoid (cs : Callees) (body : Stmt) (st : CState) : Option CState :=
  match exec cs body st Env.empty with
  | .run st' _ => some st'
  | .ret st' .unit => some st'
  | _ => none

/-- a member function `void f(const hash_t &)` (cache::clear(key)) -/
def runKeyVoid (cs : Callees) (body : Stmt) (st : CState) (k : Key) : Option CState :=
  match exec cs body st (Env.empty.set 0 (.key k)) with
  | .run st' _ => some st'
  | .ret st' .unit => some st'
  | _ => none

/-- the constructor `cache(bits)`: the three mem-initialisers, evaluated with parameter 0 = bits -/
def runCtor (mask tableSize seal0 : Expr) (bits : Nat) : Option (CState × Nat) :=
  let env : Env := Env.empty.set 0 (.u32 (UInt32.ofNat bits))
  let st0 : CState := ⟨0, fun _ => Slot.fresh, 0⟩
  let cs : Callees := ⟨fun _ _ => 0, fun _ _ => false⟩
  match eval cs st0 env mask, eval cs st0 env tableSize, eval cs st0 env seal0 with
  | .u64 m, .u64 n, .u32 s => some (⟨m, fun _ => Slot.fresh, s⟩, n.toNat)
  | _, _, _ => none

/-! ### the proxy layer: evaluator_proxy<T,E>::operator()(const T &prg) and clear()

  Locals are fitness_t variables; the only parameter is `prg`.  The callees are the members
  `cache_` (find / insert / clear, given by the cache layer) and `eva_` (the wrapped evaluator). -/

inductive PKey where
  | sigOfPrg                               -- prg.signature()
  | empty                                  -- hash_t()
deriving Repr, DecidableEq

inductive PExpr where
  | var (x : Nat)
  | cacheFind (k : PKey)                   -- cache_.find(k)
  | evaCall                                -- eva_(prg)
deriving Repr

inductive PStmt where
  | skip
  | declare (x : Nat) (e : PExpr)
  | assign (x : Nat) (e : PExpr)
  | cacheInsert (k : PKey) (x : Nat)       -- cache_.insert(k, x)
  | cacheClear                             -- cache_.clear()
  | ifNonEmpty (x : Nat) (t e : PStmt)     -- if (x.size()) t else e
  | seq (a b : PStmt)
  | ret (x : Nat)
deriving Repr

/-- what the proxy layer needs from the cache layer and the evaluator -/
structure PWorld (C Data Ind : Type) where
  find : C → Key → Option Fit
  insert : C → Key → Fit → Option C
  clear : C → Option C
  sig : Ind → Key
  ev : Data → Ind → Fit

structure PSt (C Data : Type) where
  cache : C
  data : Data
  calls : Nat

inductive POut (C Data : Type) where
  | run (s : PSt C Data) (env : Nat → Fit)
  | ret (s : PSt C Data) (f : Fit)
  | bad

section proxy
variable {C Data Ind : Type} (w : PWorld C Data Ind)

def PKey.eval (i : Ind) : PKey → Key
  | .sigOfPrg => w.sig i
  | .empty => Key.zero

def pevalE (s : PSt C Data) (env : Nat → Fit) (i : Ind) : PExpr → Option (Fit × PSt C Data)
  | .var x => some (env x, s)
  | .cacheFind k => (w.find s.cache (k.eval w i)).map fun f => (f, s)
  | .evaCall => some (w.ev s.data i, { s with calls := s.calls + 1 })

def pexec (i : Ind) : PStmt → PSt C Data → (Nat → Fit) → POut C Data
  | .skip, s, env => .run s env
  | .declare x e, s, env | .assign x e, s, env =>
    match pevalE w s env i e with
    | some (f, s') => .run s' (fun y => if y = x then f else env y)
    | none => .bad
  | .cacheInsert k x, s, env =>
    match w.insert s.cache (k.eval w i) (env x) with
    | some c' => .run { s with cache := c' } env
    | none => .bad
  | .cacheClear, s, env =>
    match w.clear s.cache with
    | some c' => .run { s with cache := c' } env
    | none => .bad
  | .ifNonEmpty x t e, s, env => if (env x).isEmpty then pexec i e s env else pexec i t s env
  | .seq a b, s, env =>
    match pexec i a s env with
    | .run s' env' => pexec i b s' env'
    | r => r
  | .ret x, s, env => .ret s (env x)

/-- `fitness_t operator()(const T &prg)` -/
def runProxyCall (body : PStmt) (s : PSt C Data) (i : Ind) : Option (Fit × PSt C Data) :=
  match pexec w i body s (fun _ => []) with
  | .ret s' f => some (f, s')
  | _ => none

end proxy

/-- `void clear()` of the proxy (no `prg`) -/
def runProxyClear {C Data : Type} (clear : C → Option C) (body : PStmt) (s : PSt C Data) : Option (PSt C Data) :=
  let w : PWorld C Data Unit := ⟨fun _ _ => none, fun _ _ _ => none, clear, fun _ => Key.zero, fun _ _ => []⟩
  match pexec w () body s (fun _ => []) with
  | .run s' _ => some s'
  | _ => none

end Vita.C04.Lang
