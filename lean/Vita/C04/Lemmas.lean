/-
  C04 — helper lemmas: seal arithmetic, one lemma per cache operation, the sanity invariant.
-/
import Vita.C04.Model
namespace Vita.C04

/-! ### seal arithmetic (UInt32, wrapping) -/

theorem succ_toNat_of_ne_zero (x : UInt32) (h : x + 1 ≠ 0) : (x + 1).toNat = x.toNat + 1 := by
  have h1 : (x + 1).toNat = (x.toNat + 1) % 4294967296 := by
    simp [UInt32.toNat_add]
  have h2 := x.toNat_lt
  by_cases hx : x.toNat + 1 = 4294967296
  · exfalso; apply h
    apply UInt32.toNat_inj.mp
    rw [h1, hx]; rfl
  · omega

theorem toNat_one : (1 : UInt32).toNat = 1 := rfl
theorem toNat_zero : (0 : UInt32).toNat = 0 := rfl

/-! ### keys -/

theorem Key.zero_empty : Key.zero.empty = true := rfl

theorem Key.ne_zero_of_not_empty {k : Key} (h : k.empty = false) : k ≠ Key.zero := by
  intro e; subst e; simp [Key.zero_empty] at h

/-! ### sanity invariant of a cache state -/

/-- no slot carries a seal from the future; the current seal is at least 1; a live slot with a
    non-empty key sits where its key is indexed -/
structure Sane (c : Cache) : Prop where
  le : ∀ i, (c.table i).sl.toNat ≤ c.sl.toNat
  pos : 1 ≤ c.sl.toNat
  place : ∀ i, (c.table i).sl = c.sl → (c.table i).hash.empty = false → c.idx (c.table i).hash = i

theorem sane_init (idx dom) : Sane (Cache.init idx dom) := by
  constructor
  · intro i; simp [Cache.init, Slot.fresh]
  · simp [Cache.init]
  · intro i h; simp [Cache.init, Slot.fresh] at h

@[simp] theorem setSlot_same (t i s) : setSlot t i s i = s := by simp [setSlot]
theorem setSlot_other (t i s j) (h : j ≠ i) : setSlot t i s j = t j := by simp [setSlot, h]

theorem sane_insert {c : Cache} (hc : Sane c) (k v) : Sane (c.insert k v) := by
  constructor
  · intro i
    by_cases hi : i = c.idx k
    · subst hi; simp [Cache.insert]
    · simp [Cache.insert, setSlot_other _ _ _ _ hi]; exact hc.le i
  · exact hc.pos
  · intro i
    by_cases hi : i = c.idx k
    · subst hi; simp [Cache.insert]
    · simp only [Cache.insert, setSlot_other _ _ _ _ hi]; exact hc.place i

theorem sane_clearKey {c : Cache} (hc : Sane c) (k) : Sane (c.clearKey k) := by
  constructor
  · intro i
    by_cases hi : i = c.idx k
    · subst hi; simp [Cache.clearKey]; exact hc.le _
    · simp [Cache.clearKey, setSlot_other _ _ _ _ hi]; exact hc.le i
  · exact hc.pos
  · intro i
    by_cases hi : i = c.idx k
    · subst hi; simp [Cache.clearKey, Key.zero_empty]
    · simp only [Cache.clearKey, setSlot_other _ _ _ _ hi]; exact hc.place i

theorem sane_clear {c : Cache} (hc : Sane c) : Sane c.clear := by
  unfold Cache.clear
  split
  · constructor
    · intro i; simp [Slot.fresh]
    · simp
    · intro i h; simp [Slot.fresh] at h
  · rename_i h
    have hs := succ_toNat_of_ne_zero c.sl h
    constructor
    · intro i; have := hc.le i; simp only; omega
    · simp only; omega
    · intro i h2
      have := hc.le i
      simp only at h2
      rw [h2] at this; omega

/-! ### find after each operation -/

theorem find_insert_self (c : Cache) (k v) : (c.insert k v).find k = some v := by
  simp [Cache.find, Cache.insert]

theorem find_insert_other (c : Cache) (k v k' w) (hk : k' ≠ k)
    (h : (c.insert k v).find k' = some w) : c.find k' = some w := by
  by_cases hi : c.idx k' = c.idx k
  · simp [Cache.find, Cache.insert, hi, hk] at h
  · simpa [Cache.find, Cache.insert, setSlot_other _ _ _ _ hi] using h

theorem find_clear {c : Cache} (hc : Sane c) (k : Key) : c.clear.find k = none := by
  unfold Cache.clear
  split
  · simp [Cache.find, Slot.fresh]
  · rename_i h
    have hs := succ_toNat_of_ne_zero c.sl h
    have := hc.le (c.idx k)
    simp only [Cache.find]
    rw [if_neg]
    intro ⟨h1, _⟩
    rw [← h1] at this; omega

theorem find_clearKey_self (c : Cache) (k : Key) (hk : k.empty = false) : (c.clearKey k).find k = none := by
  have := Key.ne_zero_of_not_empty hk
  simp [Cache.find, Cache.clearKey, this]

theorem find_clearKey_other (c : Cache) (k k' : Key) (w) (hk' : k'.empty = false)
    (h : (c.clearKey k).find k' = some w) : c.find k' = some w := by
  have hz := Key.ne_zero_of_not_empty hk'
  by_cases hi : c.idx k' = c.idx k
  · simp [Cache.find, Cache.clearKey, hi, hz] at h
  · simpa [Cache.find, Cache.clearKey, setSlot_other _ _ _ _ hi] using h

/-! ### save then load into a fresh table -/

/-- what `loadGo` does when the stream holds exactly the announced number of entries -/
def loadAll (idx : Key → Nat) (sl : UInt32) (es : List (Key × Fit)) (t : Nat → Slot) : Nat → Slot :=
  es.foldl (fun t e => setSlot t (idx e.1) ⟨e.1, e.2, sl⟩) t

theorem loadGo_all (idx sl) (es : List (Key × Fit)) (t) :
    loadGo idx sl es.length es t = (true, loadAll idx sl es t) := by
  induction es generalizing t with
  | nil => simp [loadGo, loadAll]
  | cons e es ih =>
    obtain ⟨k, v⟩ := e
    simp only [List.length_cons, loadGo, ih, loadAll, List.foldl_cons]

theorem loadAll_cases (idx sl) (es : List (Key × Fit)) (t) (j : Nat) :
    loadAll idx sl es t j = t j ∨ ∃ e ∈ es, idx e.1 = j ∧ loadAll idx sl es t j = ⟨e.1, e.2, sl⟩ := by
  induction es generalizing t with
  | nil => left; rfl
  | cons e es ih =>
    simp only [loadAll, List.foldl_cons]
    rcases ih (setSlot t (idx e.1) ⟨e.1, e.2, sl⟩) with h | ⟨e', he', h1, h2⟩
    · by_cases hj : j = idx e.1
      · right; refine ⟨e, by simp, hj.symm, ?_⟩
        simp only [loadAll] at h; rw [h, hj]; simp
      · left; simp only [loadAll] at h; rw [h, setSlot_other _ _ _ _ hj]
    · right; exact ⟨e', by simp [he'], h1, h2⟩

theorem loadAll_mem (idx sl) (es : List (Key × Fit)) (t) (hn : (es.map (fun e => idx e.1)).Nodup)
    (e : Key × Fit) (he : e ∈ es) : loadAll idx sl es t (idx e.1) = ⟨e.1, e.2, sl⟩ := by
  induction es generalizing t with
  | nil => simp at he
  | cons e0 es ih =>
    simp only [List.map_cons, List.nodup_cons] at hn
    simp only [loadAll, List.foldl_cons]
    rcases List.mem_cons.mp he with rfl | he'
    · rcases loadAll_cases idx sl es (setSlot t (idx e.1) ⟨e.1, e.2, sl⟩) (idx e.1) with h | ⟨e', he', h1, _⟩
      · simp only [loadAll] at h; rw [h]; simp
      · exfalso; apply hn.1
        exact List.mem_map.mpr ⟨e', he', h1⟩
    · exact ih _ hn.2 he'

def Cache.entries (c : Cache) : List (Key × Fit) :=
  ((c.dom.map c.table).filter c.savable).map (fun s => (s.hash, s.fit))

theorem mem_entries {c : Cache} {e : Key × Fit} :
    e ∈ c.entries ↔ ∃ i ∈ c.dom, c.savable (c.table i) = true ∧ e = ((c.table i).hash, (c.table i).fit) := by
  simp only [Cache.entries, List.mem_map, List.mem_filter]
  constructor
  · rintro ⟨s, ⟨⟨i, hi, rfl⟩, hs⟩, rfl⟩; exact ⟨i, hi, hs, rfl⟩
  · rintro ⟨i, hi, hs, rfl⟩; exact ⟨c.table i, ⟨⟨i, hi, rfl⟩, hs⟩, rfl⟩

theorem savable_iff (c : Cache) (s : Slot) :
    c.savable s = true ↔ s.sl = c.sl ∧ s.hash.empty = false ∧ s.fit ≠ [] := by
  simp [Cache.savable, and_assoc]

theorem reload_eq (c : Cache) :
    c.reload = { c with table := loadAll c.idx c.sl c.entries (fun _ => Slot.fresh) } := by
  simp only [Cache.reload, Cache.load, Cache.save, Cache.init]
  have := loadGo_all c.idx c.sl c.entries (fun _ => Slot.fresh)
  simp only [Cache.entries] at this
  simp only [this, Cache.entries]

theorem sane_reload {c : Cache} (hc : Sane c) : Sane c.reload := by
  rw [reload_eq]
  constructor
  · intro i
    rcases loadAll_cases c.idx c.sl c.entries (fun _ => Slot.fresh) i with h | ⟨e, _, _, h⟩
    · show (loadAll c.idx c.sl c.entries (fun _ => Slot.fresh) i).sl.toNat ≤ c.sl.toNat
      rw [h]; simp [Slot.fresh]
    · show (loadAll c.idx c.sl c.entries (fun _ => Slot.fresh) i).sl.toNat ≤ c.sl.toNat
      rw [h]; exact Nat.le_refl _
  · exact hc.pos
  · intro i
    rcases loadAll_cases c.idx c.sl c.entries (fun _ => Slot.fresh) i with h | ⟨e, _, h1, h⟩
    · show _ → (loadAll c.idx c.sl c.entries (fun _ => Slot.fresh) i).hash.empty = false → _
      rw [h]; intro _ h2; simp [Slot.fresh, Key.zero_empty] at h2
    · show _ → _ → c.idx (loadAll c.idx c.sl c.entries (fun _ => Slot.fresh) i).hash = i
      rw [h]; intro _ _; exact h1

/-- soundness of the round trip: whatever is found afterwards was found before -/
theorem find_reload {c : Cache} (hc : Sane c) (k : Key) (hk : k.empty = false) (w : Fit)
    (h : c.reload.find k = some w) : c.find k = some w := by
  rw [reload_eq] at h
  simp only [Cache.find] at h
  rcases loadAll_cases c.idx c.sl c.entries (fun _ => Slot.fresh) (c.idx k) with h0 | ⟨e, he, _, h0⟩
  · rw [h0] at h
    have := Key.ne_zero_of_not_empty hk
    simp [Slot.fresh, this] at h
  · rw [h0] at h
    simp only [true_and] at h
    split at h
    · rename_i hke
      obtain ⟨i, _, hs, rfl⟩ := mem_entries.mp he
      have ⟨h1, h2, _⟩ := (savable_iff c _).mp hs
      have hp := hc.place i h1 h2
      simp only at hke h
      simp only [Cache.find]
      rw [hke, hp, if_pos ⟨h1.symm, rfl⟩]; exact h
    · cases h

/-- completeness of the round trip: a hit with a non-empty value is still a hit -/
theorem find_reload_complete {c : Cache} (hc : Sane c) (hn : c.dom.Nodup) (k : Key)
    (hd : c.idx k ∈ c.dom) (hk : k.empty = false) (w : Fit) (hw : w ≠ [])
    (h : c.find k = some w) : c.reload.find k = some w := by
  simp only [Cache.find] at h
  split at h
  · rename_i hh
    obtain ⟨h1, h2⟩ := hh
    have hsav : c.savable (c.table (c.idx k)) = true := by
      rw [savable_iff]; refine ⟨h1.symm, by rw [← h2]; exact hk, ?_⟩
      simp only [Option.some.injEq] at h; rw [h]; exact hw
    have hmem : ((c.table (c.idx k)).hash, (c.table (c.idx k)).fit) ∈ c.entries :=
      mem_entries.mpr ⟨_, hd, hsav, rfl⟩
    have hnod : (c.entries.map (fun e => c.idx e.1)).Nodup := by
      have : c.entries.map (fun e => c.idx e.1) = c.dom.filter (fun i => c.savable (c.table i)) := by
        simp only [Cache.entries, List.map_map, List.filter_map]
        rw [List.map_congr_left (g := id)]
        · simp [Function.comp_def]
        · intro i hi
          simp only [List.mem_filter, Function.comp] at hi
          have ⟨a, b, _⟩ := (savable_iff c _).mp hi.2
          simp only [Function.comp, id]
          exact hc.place i a b
      rw [this]; exact hn.filter _
    have := loadAll_mem c.idx c.sl c.entries (fun _ => Slot.fresh) hnod _ hmem
    simp only at this
    rw [reload_eq]
    simp only [Cache.find]
    rw [← h2] at this
    rw [this]
    simpa using h
  · cases h

/-! ### the history invariant -/

/-- the invariant: the state is sane and every hit agrees with the specification -/
def CInv (c : Cache) (hist : List Op) : Prop :=
  Sane c ∧ ∀ k : Key, k.empty = false → ∀ v, c.find k = some v → lastStore k hist = some v

theorem cinv_init (idx dom) : CInv (Cache.init idx dom) [] := by
  refine ⟨sane_init idx dom, ?_⟩
  intro k _ v h
  simp [Cache.find, Cache.init, Slot.fresh] at h

theorem cinv_step {c : Cache} {hist : List Op} (h : CInv c hist) (op : Op) : CInv (c.step op) (op :: hist) := by
  obtain ⟨hs, hf⟩ := h
  cases op with
  | insert k v =>
    refine ⟨sane_insert hs k v, ?_⟩
    intro k' hk' w hw
    simp only [Cache.step] at hw
    by_cases e : k' = k
    · subst e; rw [find_insert_self] at hw; simpa [lastStore] using hw
    · have := find_insert_other c k v k' w e hw
      simp only [lastStore, if_neg (Ne.symm e)]; exact hf k' hk' w this
  | clear =>
    refine ⟨sane_clear hs, ?_⟩
    intro k' _ w hw
    simp only [Cache.step, find_clear hs] at hw; cases hw
  | clearKey k =>
    refine ⟨sane_clearKey hs k, ?_⟩
    intro k' hk' w hw
    simp only [Cache.step] at hw
    by_cases e : k' = k
    · subst e; rw [find_clearKey_self c k' hk'] at hw; cases hw
    · have := find_clearKey_other c k k' w hk' hw
      simp only [lastStore, if_neg (Ne.symm e)]; exact hf k' hk' w this
  | reload =>
    refine ⟨sane_reload hs, ?_⟩
    intro k' hk' w hw
    simp only [Cache.step] at hw
    simp only [lastStore]; exact hf k' hk' w (find_reload hs k' hk' w hw)

theorem cinv_run {c : Cache} {hist : List Op} (h : CInv c hist) (ops : List Op) :
    CInv (c.run ops) (ops.reverse ++ hist) := by
  induction ops generalizing c hist with
  | nil => simpa [Cache.run] using h
  | cons op ops ih =>
    have := ih (cinv_step h op)
    simpa [Cache.run, List.reverse_cons, List.append_assoc] using this

theorem lastStore_mem {k : Key} {v : Fit} {hist : List Op} (h : lastStore k hist = some v) :
    Op.insert k v ∈ hist := by
  induction hist with
  | nil => simp [lastStore] at h
  | cons op hist ih =>
    cases op with
    | insert k' w =>
      simp only [lastStore] at h
      split at h
      · rename_i e; subst e; simp only [Option.some.injEq] at h; subst h; simp
      · exact List.mem_cons_of_mem _ (ih h)
    | clear => simp [lastStore] at h
    | clearKey k' =>
      simp only [lastStore] at h
      split at h
      · cases h
      · exact List.mem_cons_of_mem _ (ih h)
    | reload => exact List.mem_cons_of_mem _ (ih (by simpa [lastStore] using h))

/-! ### the seal wrap, before the fix -/

def Cache.stepOld (c : Cache) : Op → Cache
  | .clear => c.clearOld
  | op => c.step op

def Cache.runOld (c : Cache) (ops : List Op) : Cache := ops.foldl Cache.stepOld c

theorem runOld_clears (c : Cache) (n : Nat) :
    c.runOld (List.replicate n Op.clear) = { c with sl := c.sl + UInt32.ofNat n } := by
  induction n generalizing c with
  | zero => simp [Cache.runOld]
  | succ n ih =>
    simp only [List.replicate_succ, Cache.runOld, List.foldl_cons, Cache.stepOld] at ih ⊢
    rw [ih]
    simp only [Cache.clearOld]
    congr 1
    rw [UInt32.add_assoc]; congr 1
    apply UInt32.toNat_inj.mp
    simp [UInt32.toNat_add, UInt32.toNat_ofNat']
    omega

theorem lastStore_clears (k : Key) (n : Nat) (hist : List Op) :
    lastStore k (List.replicate (n + 1) Op.clear ++ hist) = none := by
  simp [List.replicate_succ, lastStore]

theorem ofNat_two_pow (N : Nat) (hN : N = 4294967296) (x : UInt32) : x + UInt32.ofNat N = x := by
  apply UInt32.toNat_inj.mp
  rw [UInt32.toNat_add, UInt32.toNat_ofNat', hN]
  have := x.toNat_lt
  omega

/-! ### the proxy -/

section proxy
variable {Ind Data : Type} (sig : Ind → Key) (ev : Data → Ind → Fit)

/-- invariant of the proxy: every non-empty cached value is the fitness, on the data the
    evaluations of this epoch ran on, of an individual evaluated in this epoch -/
def PInv (s : PState Data) (last : Option Data) (seen : List Ind) : Prop :=
  Sane s.cache ∧ ∀ k : Key, k.empty = false → ∀ v, s.cache.find k = some v → v ≠ [] →
    ∃ j ∈ seen, sig j = k ∧ ∃ dl, last = some dl ∧ v = ev dl j

theorem proxy_transparent_from (s : PState Data) (last : Option Data) (seen : List Ind)
    (es : List (Ev Ind Data)) (hinv : PInv sig ev s last seen)
    (hd : Disciplined sig ev s.data last seen es) :
    runP sig ev s es = runDirect ev s.data es := by
  induction es generalizing s last seen with
  | nil => rfl
  | cons e es ih =>
    obtain ⟨hs, hf⟩ := hinv
    cases e with
    | eval i =>
      obtain ⟨hlast, hki, hsig, hrest⟩ := hd
      simp only [runP, pstep, runDirect]
      have hmiss : ∀ (hl : s.cache.lookup (sig i) = []),
          runP sig ev s (Ev.eval i :: es) = runDirect ev s.data (Ev.eval i :: es) := by
        intro hl
        simp only [runP, pstep, runDirect, proxyEval, hl, List.isEmpty_nil, if_true]
        congr 1
        apply ih _ (some s.data) (i :: seen)
        · refine ⟨sane_insert hs _ _, ?_⟩
          intro k hk v hv hne
          by_cases e : k = sig i
          · subst e
            rw [find_insert_self] at hv
            simp only [Option.some.injEq] at hv
            exact ⟨i, by simp, rfl, s.data, rfl, hv.symm⟩
          · have := find_insert_other _ _ _ _ _ e hv
            obtain ⟨j, hj, hjk, dl, hdl, hvv⟩ := hf k hk v this hne
            refine ⟨j, List.mem_cons_of_mem _ hj, hjk, dl, ?_, hvv⟩
            rcases hlast with h | h
            · rw [h] at hdl; cases hdl
            · rw [← hdl, h]
        · exact hrest
      cases hfind : s.cache.find (sig i) with
      | none => exact hmiss (by simp [Cache.lookup, hfind])
      | some v =>
        by_cases hv : v = []
        · exact hmiss (by simp [Cache.lookup, hfind, hv])
        · have hl : s.cache.lookup (sig i) = v := by simp [Cache.lookup, hfind]
          have hne : v.isEmpty = false := by cases v <;> simp_all
          simp only [proxyEval, hl, hne]
          obtain ⟨j, hj, hjk, dl, hdl, hvv⟩ := hf (sig i) hki v hfind hv
          have hdd : dl = s.data := by
            rcases hlast with h | h
            · rw [h] at hdl; cases hdl
            · rw [h] at hdl; cases hdl; rfl
          subst hdd
          simp only [Bool.false_eq_true, if_false]
          congr 1
          · rw [hvv]; exact hsig j hj hjk
          · apply ih s (some s.data) (i :: seen)
            · refine ⟨hs, ?_⟩
              intro k hk w hw hwne
              obtain ⟨j', hj', hjk', dl', hdl', hvv'⟩ := hf k hk w hw hwne
              exact ⟨j', List.mem_cons_of_mem _ hj', hjk', dl', by rw [← hdl', hdl], hvv'⟩
            · exact hrest
    | setData d =>
      simp only [runP, pstep, runDirect]
      exact ih _ last seen ⟨hs, hf⟩ hd
    | clear =>
      simp only [runP, pstep, runDirect]
      apply ih _ none []
      · refine ⟨sane_clear hs, ?_⟩
        intro k _ v hv
        simp only [find_clear hs] at hv; cases hv
      · exact hd
    | reload =>
      simp only [runP, pstep, runDirect]
      apply ih _ last seen
      · refine ⟨sane_reload hs, ?_⟩
        intro k hk v hv hne
        exact hf k hk v (find_reload hs k hk v hv) hne
      · exact hd

end proxy

/-! ### call sites -/

section callsites
variable {Ind Data : Type} (sig : Ind → Key) (ev : Data → Ind → Fit)

theorem expandAll_cons (e : CEv Ind Data) (es : List (CEv Ind Data)) :
    expandAll (e :: es) = e.expand ++ expandAll es := by
  simp [expandAll]

/-- the call-site obligation implies the usage discipline of the proxy -/
theorem callsites_disciplined (hne : ∀ i, (sig i).empty = false)
    (hf : ∀ d i j, sig i = sig j → ev d i = ev d j)
    (es : List (CEv Ind Data)) (fresh : Bool) (d : Data) (last : Option Data) (seen : List Ind)
    (hs : CSafe fresh es) (h1 : fresh = true → last = none) (h2 : last = none ∨ last = some d) :
    Disciplined sig ev d last seen (expandAll es) := by
  induction es generalizing fresh d last seen with
  | nil => simp [expandAll, Disciplined]
  | cons e es ih =>
    rw [expandAll_cons]
    cases e with
    | site s d' =>
      obtain ⟨hc, hrest⟩ := hs
      cases hch : s.changes <;> cases hcl : s.clears <;> simp only [CEv.expand, hch, hcl, if_true, if_false,
        List.nil_append, List.cons_append, Disciplined, Bool.false_eq_true]
      · exact ih fresh d last seen (by simpa [hcl] using hrest) h1 h2
      · exact ih true d none [] (by simpa [hcl] using hrest) (fun _ => rfl) (Or.inl rfl)
      · have hfresh : fresh = true := by
          rcases hc hch with h | h
          · rw [hcl] at h; cases h
          · exact h
        exact ih fresh d' last seen (by simpa [hcl] using hrest) h1 (Or.inl (h1 hfresh))
      · exact ih true d' none [] (by simpa [hcl] using hrest) (fun _ => rfl) (Or.inl rfl)
    | eval i =>
      simp only [CEv.expand, List.cons_append, List.nil_append, Disciplined]
      refine ⟨h2, hne i, fun j _ hj => hf d j i hj, ?_⟩
      exact ih false d (some d) (i :: seen) hs (fun h => by cases h) (Or.inr rfl)
    | clear =>
      simp only [CEv.expand, List.cons_append, List.nil_append, Disciplined]
      exact ih true d none [] hs (fun _ => rfl) (Or.inl rfl)
    | reload =>
      simp only [CEv.expand, List.cons_append, List.nil_append, Disciplined]
      exact ih fresh d last seen hs h1 h2

end callsites

end Vita.C04
