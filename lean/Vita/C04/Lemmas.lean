/-
  C04 — helper lemmas: seal arithmetic, one lemma per cache operation, the sanity invariant.
-/
import Vita.C04.Model
namespace Vita.C04

/-! ### seal arithmetic (UInt32, wrapping) -/

theorem succ_toNat_of_ne_zero (x : UInt32) (h : x + 1 ≠ 0) : (x + 1).toNat = x.toNat + 1 := by
  have h1 : (x + 1).toNat = (x.toNat + 1) % 4294967296 := by
    simp [UInt32.toNat_add]
  have h2 := x.toNat_lt
  by_cases hx : x.toNat + 1 = 4294967296
  · exfalso; apply h
    apply UInt32.toNat_inj.mp
    rw [h1, hx]; rfl
  · omega

theorem toNat_one : (1 : UInt32).toNat = 1 := rfl
theorem toNat_zero : (0 : UInt32).toNat = 0 := rfl

/-! ### keys -/

theorem Key.zero_empty : Key.zero.empty = true := rfl

theorem Key.ne_zero_of_not_empty {k : Key} (h : k.empty = false) : k ≠ Key.zero := by
  intro e; subst e; simp [Key.zero_empty] at h

/-! ### sanity invariant of a cache state -/

/-- no slot carries a seal from the future; the current seal is at least 1; a live slot with a
    non-empty key sits where its key is indexed -/
structure Sane (c : Cache) : Prop where
  le : ∀ i, (c.table i).sl.toNat ≤ c.sl.toNat
  pos : 1 ≤ c.sl.toNat
  place : ∀ i, (c.table i).sl = c.sl → (c.table i).hash.empty = false → c.idx (c.table i).hash = i

theorem sane_init (idx dom) : Sane (Cache.init idx dom) := by
  constructor
  · intro i; simp [Cache.init, Slot.fresh]
  · simp [Cache.init]
  · intro i h; simp [Cache.init, Slot.fresh] at h

@[simp] theorem setSlot_same (t i s) : setSlot t i s i = s := by simp [setSlot]
theorem setSlot_other (t i s j) (h : j ≠ i) : setSlot t i s j = t j := by simp [setSlot, h]

theorem sane_insert {c : Cache} (hc : Sane c) (k v) : Sane (c.insert k v) := by
  constructor
  · intro i
    by_cases hi : i = c.idx k
    · subst hi; simp [Cache.insert]
    · simp [Cache.insert, setSlot_other _ _ _ _ hi]; exact hc.le i
  · exact hc.pos
  · intro i
    by_cases hi : i = c.idx k
    · subst hi; simp [Cache.insert]
    · simp only [Cache.insert, setSlot_other _ _ _ _ hi]; exact hc.place i

theorem sane_clearKey {c : Cache} (hc : Sane c) (k) : Sane (c.clearKey k) := by
  constructor
  · intro i
    by_cases hi : i = c.idx k
    · subst hi; simp [Cache.clearKey]; exact hc.le _
    · simp [Cache.clearKey, setSlot_other _ _ _ _ hi]; exact hc.le i
  · exact hc.pos
  · intro i
    by_cases hi : i = c.idx k
    · subst hi; simp [Cache.clearKey, Key.zero_empty]
    · simp only [Cache.clearKey, setSlot_other _ _ _ _ hi]; exact hc.place i

theorem sane_clear {c : Cache} (hc : Sane c) : Sane c.clear := by
  unfold Cache.clear
  split
  · constructor
    · intro i; simp [Slot.fresh]
    · simp
    · intro i h; simp [Slot.fresh] at h
  · rename_i h
    have hs := succ_toNat_of_ne_zero c.sl h
    constructor
    · intro i; have := hc.le i; simp only; omega
    · simp only; omega
    · intro i h2
      have := hc.le i
      simp only at h2
      rw [h2] at this; omega

/-! ### find after each operation -/

theorem find_insert_self (c : Cache) (k v) : (c.insert k v).find k = some v := by
  simp [Cache.find, Cache.insert]

theorem find_insert_other (c : Cache) (k v k' w) (hk : k' ≠ k)
    (h : (c.insert k v).find k' = some w) : c.find k' = some w := by
  by_cases hi : c.idx k' = c.idx k
  · simp [Cache.find, Cache.insert, hi, hk] at h
  · simpa [Cache.find, Cache.insert, setSlot_other _ _ _ _ hi] using h

theorem find_clear {c : Cache} (hc : Sane c) (k : Key) : c.clear.find k = none := by
  unfold Cache.clear
  split
  · simp [Cache.find, Slot.fresh]
  · rename_i h
    have hs := succ_toNat_of_ne_zero c.sl h
    have := hc.le (c.idx k)
    simp only [Cache.find]
    rw [if_neg]
    intro ⟨h1, _⟩
    rw [← h1] at this; omega

theorem find_clearKey_self (c : Cache) (k : Key) (hk : k.empty = false) : (c.clearKey k).find k = none := by
  have := Key.ne_zero_of_not_empty hk
  simp [Cache.find, Cache.clearKey, this]

theorem find_clearKey_other (c : Cache) (k k' : Key) (w) (hk' : k'.empty = false)
    (h : (c.clearKey k).find k' = some w) : c.find k' = some w := by
  have hz := Key.ne_zero_of_not_empty hk'
  by_cases hi : c.idx k' = c.idx k
  · simp [Cache.find, Cache.clearKey, hi, hz] at h
  · simpa [Cache.find, Cache.clearKey, setSlot_other _ _ _ _ hi] using h

/-! ### save then load into a fresh table -/

/-- what `loadGo` does when the stream holds exactly the announced number of entries -/
def loadAll (idx : Key → Nat) (sl : UInt32) (es : List (Key × Fit)) (t : Nat → Slot) : Nat → Slot :=
  es.foldl (fun t e => setSlot t (idx e.1) ⟨e.1, e.2, sl⟩) t

theorem loadGo_all (idx sl) (es : List (Key × Fit)) (t) :
    loadGo idx sl es.length es t = (true, loadAll idx sl es t) := by
  induction es generalizing t with
  | nil => simp [loadGo, loadAll]
  | cons e es ih =>
    obtain ⟨k, v⟩ := e
    simp only [List.length_cons, loadGo, ih, loadAll, List.foldl_cons]

theorem loadAll_cases (idx sl) (es : List (Key × Fit)) (t) (j : Nat) :
    loadAll idx sl es t j = t j ∨ ∃ e ∈ es, idx e.1 = j ∧ loadAll idx sl es t j = ⟨e.1, e.2, sl⟩ := by
  induction es generalizing t with
  | nil => left; rfl
  | cons e es ih =>
    simp only [loadAll, List.foldl_cons]
    rcases ih (setSlot t (idx e.1) ⟨e.1, e.2, sl⟩) with h | ⟨e', he', h1, h2⟩
    · by_cases hj : j = idx e.1
      · right; refine ⟨e, by simp, hj.symm, ?_⟩
        simp only [loadAll] at h; rw [h, hj]; simp
      · left; simp only [loadAll] at h; rw [h, setSlot_other _ _ _ _ hj]
    · right; exact ⟨e', by simp [he'], h1, h2⟩

theorem loadAll_mem (idx sl) (es : List (Key × Fit)) (t) (hn : (es.map (fun e => idx e.1)).Nodup)
    (e : Key × Fit) (he : e ∈ es) : loadAll idx sl es t (idx e.1) = ⟨e.1, e.2, sl⟩ := by
  induction es generalizing t with
  | nil => simp at he
  | cons e0 es ih =>
    simp only [List.map_cons, List.nodup_cons] at hn
    simp only [loadAll, List.foldl_cons]
    rcases List.mem_cons.mp he with rfl | he'
    · rcases loadAll_cases idx sl es (setSlot t (idx e.1) ⟨e.1, e.2, sl⟩) (idx e.1) with h | ⟨e', he', h1, _⟩
      · simp only [loadAll] at h; rw [h]; simp
      · exfalso; apply hn.1
        exact List.mem_map.mpr ⟨e', he', h1⟩
    · exact ih _ hn.2 he'

def Cache.entries (c : Cache) : List (Key × Fit) :=
  ((c.dom.map c.table).filter c.savable).map (fun s => (s.hash, s.fit))

theorem mem_entries {c : Cache} {e : Key × Fit} :
    e ∈ c.entries ↔ ∃ i ∈ c.dom, c.savable (c.table i) = true ∧ e = ((c.table i).hash, (c.table i).fit) := by
  simp only [Cache.entries, List.mem_map, List.mem_filter]
  constructor
  · rintro ⟨s, ⟨⟨i, hi, rfl⟩, hs⟩, rfl⟩; exact ⟨i, hi, hs, rfl⟩
  · rintro ⟨i, hi, hs, rfl⟩; exact ⟨c.table i, ⟨⟨i, hi, rfl⟩, hs⟩, rfl⟩

theorem savable_iff (c : Cache) (s : Slot) :
    c.savable s = true ↔ s.sl = c.sl ∧ s.hash.empty = false ∧ s.fit ≠ [] := by
  simp [Cache.savable, and_assoc]

theorem reload_eq (c : Cache) :
    c.reload = { c with table := loadAll c.idx c.sl c.entries (fun _ => Slot.fresh) } := by
  simp only [Cache.reload, Cache.load, Cache.save, Cache.init]
  have := loadGo_all c.idx c.sl c.entries (fun _ => Slot.fresh)
  simp only [Cache.entries] at this
  simp only [this, Cache.entries]

theorem sane_reload {c : Cache} (hc : Sane c) : Sane c.reload := by
  rw [reload_eq]
  constructor
  · intro i
    rcases loadAll_cases c.idx c.sl c.entries (fun _ => Slot.fresh) i with h | ⟨e, _, _, h⟩
    · show (loadAll c.idx c.sl c.entries (fun _ => Slot.fresh) i).sl.toNat ≤ c.sl.toNat
      rw [h]; simp [Slot.fresh]
    · show (loadAll c.idx c.sl c.entries (fun _ => Slot.fresh) i).sl.toNat ≤ c.sl.toNat
      rw [h]; exact Nat.le_refl _
  · exact hc.pos
  · intro i
    rcases loadAll_cases c.idx c.sl c.entries (fun _ => Slot.fresh) i with h | ⟨e, _, h1, h⟩
    · show _ → (loadAll c.idx c.sl c.entries (fun _ => Slot.fresh) i).hash.empty = false → _
      rw [h]; intro _ h2; simp [Slot.fresh, Key.zero_empty] at h2
    · show _ → _ → c.idx (loadAll c.idx c.sl c.entries (fun _ => Slot.fresh) i).hash = i
      rw [h]; intro _ _; exact h1

/-- soundness of the round trip: whatever is found afterwards was found before -/
theorem find_reload {c : Cache} (hc : Sane c) (k : Key) (hk : k.empty = false) (w : Fit)
    (h : c.reload.find k = some w) : c.find k = some w := by
  rw [reload_eq] at h
  simp only [Cache.find] at h
  rcases loadAll_cases c.idx c.sl c.entries (fun _ => Slot.fresh) (c.idx k) with h0 | ⟨e, he, _, h0⟩
  · rw [h0] at h
    have := Key.ne_zero_of_not_empty hk
    simp [Slot.fresh, this] at h
  · rw [h0] at h
    simp only [true_and] at h
    split at h
    · rename_i hke
      obtain ⟨i, _, hs, rfl⟩ := mem_entries.mp he
      have ⟨h1, h2, _⟩ := (savable_iff c _).mp hs
      have hp := hc.place i h1 h2
      simp only at hke h
      simp only [Cache.find]
      rw [hke, hp, if_pos ⟨h1.symm, rfl⟩]; exact h
    · cases h

/-- completeness of the round trip: a hit with a non-empty value is still a hit -/
theorem find_reload_complete {c : Cache} (hc : Sane c) (hn : c.dom.Nodup) (k : Key)
    (hd : c.idx k ∈ c.dom) (hk : k.empty = false) (w : Fit) (hw : w ≠ [])
    (h : c.find k = some w) : c.reload.find k = some w := by
  simp only [Cache.find] at h
  split at h
  · rename_i hh
    obtain ⟨h1, h2⟩ := hh
    have hsav : c.savable (c.table (c.idx k)) = true := by
      rw [savable_iff]; refine ⟨h1.symm, by rw [← h2]; exact hk, ?_⟩
      simp only [Option.some.injEq] at h; rw [h]; exact hw
    have hmem : ((c.table (c.idx k)).hash, (c.table (c.idx k)).fit) ∈ c.entries :=
      mem_entries.mpr ⟨_, hd, hsav, rfl⟩
    have hnod : (c.entries.map (fun e => c.idx e.1)).Nodup := by
      have : c.entries.map (fun e => c.idx e.1) = c.dom.filter (fun i => c.savable (c.table i)) := by
        simp only [Cache.entries, List.map_map, List.filter_map]
        rw [List.map_congr_left (g := id)]
        · simp [Function.comp_def]
        · intro i hi
          simp only [List.mem_filter, Function.comp] at hi
          have ⟨a, b, _⟩ := (savable_iff c _).mp hi.2
          simp only [Function.comp, id]
          exact hc.place i a b
      rw [this]; exact hn.filter _
    have := loadAll_mem c.idx c.sl c.entries (fun _ => Slot.fresh) hnod _ hmem
    simp only at this
    rw [reload_eq]
    simp only [Cache.find]
    rw [← h2] at this
    rw [this]
    simpa using h
  · cases h

end Vita.C04
