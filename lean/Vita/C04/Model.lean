/-
  C04 — model of vita::cache (src/kernel/cache.{h,cc}) and of
  evaluator_proxy::operator() (src/kernel/evaluator_proxy.tcc).

  * `Key`   = hash_t (two 64-bit words; all-zero means "empty").
  * `Fit`   = fitness_t as the list of the 64-bit patterns of its components
              (length 0 = the empty fitness, which `find` also returns for a miss).
  * `Slot`  = cache::slot {hash, fitness, seal}.
  * `Cache` = table_ (a total function on slot numbers), seal_ (a UInt32 that wraps,
              as `unsigned` does), and two PARAMETERS the theorems never look into:
              `idx` – the slot a key is sent to (C++: `h.data[0] & k_mask`) – and
              `dom` – the list of slot numbers `save` walks over (C++: 0 … 2^bits-1).
  Every function below transcribes one member function; see design/C04.md.
-/
namespace Vita.C04

structure Key where
  d0 : UInt64
  d1 : UInt64
deriving DecidableEq, Repr

/-- hash_t::empty() -/
def Key.empty (k : Key) : Bool := k.d0 == 0 && k.d1 == 0

/-- hash_t() -/
def Key.zero : Key := ⟨0, 0⟩

abbrev Fit := List UInt64

structure Slot where
  hash : Key
  fit : Fit
  sl : UInt32
deriving DecidableEq, Repr

/-- a value-initialised slot (`table_(1ull << bits)` and `slot()`) -/
def Slot.fresh : Slot := ⟨Key.zero, [], 0⟩

structure Cache where
  idx : Key → Nat
  dom : List Nat
  table : Nat → Slot
  sl : UInt32

/-- cache::cache(bits): every slot value-initialised, seal_ = 1 -/
def Cache.init (idx : Key → Nat) (dom : List Nat) : Cache := ⟨idx, dom, fun _ => Slot.fresh, 1⟩

def setSlot (t : Nat → Slot) (i : Nat) (s : Slot) : Nat → Slot := fun j => if j = i then s else t j

/-- cache::find — `some f` is a hit (seal and full 128-bit key match), `none` a miss -/
def Cache.find (c : Cache) (k : Key) : Option Fit :=
  if c.sl = (c.table (c.idx k)).sl ∧ k = (c.table (c.idx k)).hash then some (c.table (c.idx k)).fit else none

/-- what the caller of cache::find sees: the empty fitness stands for a miss -/
def Cache.lookup (c : Cache) (k : Key) : Fit := (c.find k).getD []

/-- cache::insert -/
def Cache.insert (c : Cache) (k : Key) (v : Fit) : Cache :=
  { c with table := setSlot c.table (c.idx k) ⟨k, v, c.sl⟩ }

/-- cache::clear() as it is after `fix: cache::clear wipes the table when the seal wraps around` -/
def Cache.clear (c : Cache) : Cache :=
  if c.sl + 1 = 0 then { c with table := fun _ => Slot.fresh, sl := 1 } else { c with sl := c.sl + 1 }

/-- cache::clear() as it was before that fix (`++seal_;` only) -/
def Cache.clearOld (c : Cache) : Cache := { c with sl := c.sl + 1 }

/-- cache::clear(const hash_t &) -/
def Cache.clearKey (c : Cache) (k : Key) : Cache :=
  { c with table := setSlot c.table (c.idx k) { c.table (c.idx k) with hash := Key.zero } }

/-! ### save / load (token level: seal, count, entries) -/

structure Saved where
  sl : UInt32
  n : Nat
  entries : List (Key × Fit)
deriving Repr

/-- the condition under which cache::save counts and writes a slot -/
def Cache.savable (c : Cache) (s : Slot) : Bool := s.sl == c.sl && !s.hash.empty && !s.fit.isEmpty

def Cache.save (c : Cache) : Saved :=
  let es := ((c.dom.map c.table).filter c.savable).map (fun s => (s.hash, s.fit))
  ⟨c.sl, es.length, es⟩

/-- the loop of cache::load: `n` entries are read; running out of input is a failure
    that leaves the slots written so far in place -/
def loadGo (idx : Key → Nat) (sl : UInt32) : Nat → List (Key × Fit) → (Nat → Slot) → Bool × (Nat → Slot)
  | 0, _, t => (true, t)
  | _ + 1, [], t => (false, t)
  | n + 1, (k, v) :: es, t => loadGo idx sl n es (setSlot t (idx k) ⟨k, v, sl⟩)

/-- cache::load -/
def Cache.load (c : Cache) (s : Saved) : Bool × Cache :=
  match loadGo c.idx s.sl s.n s.entries c.table with
  | (true, t) => (true, { c with table := t, sl := s.sl })
  | (false, t) => (false, { c with table := t })

/-- save, then load into a fresh table of the same size (the result replaces the cache) -/
def Cache.reload (c : Cache) : Cache := ((Cache.init c.idx c.dom).load c.save).2

/-! ### histories and the abstract specification -/

inductive Op where
  | insert (k : Key) (v : Fit)
  | clear
  | clearKey (k : Key)
  | reload
deriving Repr

def Cache.step (c : Cache) : Op → Cache
  | .insert k v => c.insert k v
  | .clear => c.clear
  | .clearKey k => c.clearKey k
  | .reload => c.reload

/-- run a history (oldest operation first) -/
def Cache.run (c : Cache) (ops : List Op) : Cache := ops.foldl Cache.step c

/-- The specification: scan the history NEWEST FIRST.  The first store under `k` met is the
    answer; a clear() or a clear(k) met first means "nothing"; save+load is transparent. -/
def lastStore (k : Key) : List Op → Option Fit
  | [] => none
  | .insert k' v :: h => if k' = k then some v else lastStore k h
  | .clear :: _ => none
  | .clearKey k' :: h => if k' = k then none else lastStore k h
  | .reload :: h => lastStore k h

def nclears : List Op → Nat
  | [] => 0
  | .clear :: h => nclears h + 1
  | _ :: h => nclears h

/-! ### evaluator_proxy -/

/-- state of an evaluator_proxy together with what it depends on: the cache, the training
    data the wrapped evaluator currently sees, and how often the wrapped evaluator ran -/
structure PState (Data : Type) where
  cache : Cache
  data : Data
  calls : Nat

inductive Ev (Ind Data : Type) where
  | eval (i : Ind)          -- proxy(ind)
  | setData (d : Data)      -- the training set changes (dss::shake, evolution's shake branch)
  | clear                   -- evaluator_proxy::clear()
  | reload                  -- evaluator_proxy::save, then load into a fresh proxy

section proxy
variable {Ind Data : Type} (sig : Ind → Key) (ev : Data → Ind → Fit)

/-- evaluator_proxy::operator() (NDEBUG): look the signature up; a non-empty answer is returned
    as is; otherwise evaluate, store, return -/
def proxyEval (s : PState Data) (i : Ind) : Fit × PState Data :=
  let f := s.cache.lookup (sig i)
  if f.isEmpty then
    let f' := ev s.data i
    (f', { s with cache := s.cache.insert (sig i) f', calls := s.calls + 1 })
  else (f, s)

def pstep (s : PState Data) : Ev Ind Data → Option Fit × PState Data
  | .eval i => let r := proxyEval sig ev s i; (some r.1, r.2)
  | .setData d => (none, { s with data := d })
  | .clear => (none, { s with cache := s.cache.clear })
  | .reload => (none, { s with cache := s.cache.reload })

/-- outputs of the proxy along a history (one per `eval` event) -/
def runP (s : PState Data) : List (Ev Ind Data) → List Fit
  | [] => []
  | e :: es =>
    match pstep sig ev s e with
    | (some f, s') => f :: runP s' es
    | (none, s') => runP s' es

/-- what the wrapped evaluator would answer if called directly at each `eval` event -/
def runDirect (d : Data) : List (Ev Ind Data) → List Fit
  | [] => []
  | .eval i :: es => ev d i :: runDirect d es
  | .setData d' :: es => runDirect d' es
  | _ :: es => runDirect d es

/-- The usage discipline of the property.  `last` is the data version seen by the most recent
    evaluation since the last clear (none if there was none), `seen` the individuals evaluated
    since the last clear.  At every evaluation: the data are those of the previous evaluation or
    a clear() came in between; the signature is not the empty one; and individuals sharing the
    signature have the same fitness (signatures identify programs, C03). -/
def Disciplined (d : Data) (last : Option Data) (seen : List Ind) : List (Ev Ind Data) → Prop
  | [] => True
  | .eval i :: es =>
      (last = none ∨ last = some d) ∧ (sig i).empty = false ∧
      (∀ j ∈ seen, sig j = sig i → ev d j = ev d i) ∧ Disciplined d (some d) (i :: seen) es
  | .setData d' :: es => Disciplined d' last seen es
  | .clear :: es => Disciplined d none [] es
  | .reload :: es => Disciplined d last seen es

end proxy

/-! ### the call sites that change the training data (hand-written table, used by the call-site
      harness to predict WHICH step changes / clears; the skeletons extracted from the AST and the
      theorems about them are in Sites.lean / Gen.lean / Props.lean)

  src/kernel/gp/src/dss.cc              dss::init / shake / close
  src/kernel/gp/src/holdout_validation.cc   holdout_validation::init  (shake/close: base class, nothing)
  src/kernel/search.tcc                 search::run: `vs_->init(r); evolution.run(r, shake); vs_->close(r)`
  src/kernel/evolution.tcc              `if (shake(gen)) best.fitness = eva_(best)`  (an evaluation)

  What is recorded of each site is only: does it replace the training set, and does it call
  `clear()` on the cached evaluators afterwards.  (Which examples are selected is C16's business.) -/

inductive Site where
  | dssInit (run : Nat)
  | dssShake (gap gen : Nat)        -- env.dss = gap
  | dssClose (run : Nat)
  | holdoutInit (run : Nat)
  | holdoutShake (gen : Nat)
  | holdoutClose (run : Nat)
deriving Repr, DecidableEq

/-- does the step replace the training set? -/
def Site.changes : Site → Bool
  | .dssInit _ => true
  | .dssShake gap gen => !(gen == 0 || gen % gap != 0)
  | .dssClose _ => true
  | .holdoutInit run => run == 0
  | .holdoutShake _ => false
  | .holdoutClose _ => false

/-- does the step end with `clear_evaluators()`? -/
def Site.clears : Site → Bool
  | .dssInit _ => true
  | .dssShake gap gen => !(gen == 0 || gen % gap != 0)
  | .dssClose _ => true
  | .holdoutInit run => run == 0     -- since `fix: holdout_validation::init clears the cached training evaluator`
  | .holdoutShake _ => false
  | .holdoutClose _ => false

/-- events at call-site level: a validation-strategy step (with the data it leaves behind), an
    evaluation through the proxy, an explicit clear, a save/load round trip -/
inductive CEv (Ind Data : Type) where
  | site (s : Site) (d : Data)
  | eval (i : Ind)
  | clear
  | reload

def CEv.expand {Ind Data : Type} : CEv Ind Data → List (Ev Ind Data)
  | .site s d => (if s.changes then [.setData d] else []) ++ (if s.clears then [.clear] else [])
  | .eval i => [.eval i]
  | .clear => [.clear]
  | .reload => [.reload]

def expandAll {Ind Data : Type} (es : List (CEv Ind Data)) : List (Ev Ind Data) := es.flatMap CEv.expand

/-- The call-site obligation: every step that replaces the training set either clears the cached
    evaluators or happens while the cache is still empty (`fresh`: nothing evaluated or loaded since
    the last clear). -/
def CSafe {Ind Data : Type} (fresh : Bool) : List (CEv Ind Data) → Prop
  | [] => True
  | .site s _ :: es => (s.changes = true → s.clears = true ∨ fresh = true) ∧ CSafe (s.clears || fresh) es
  | .eval _ :: es => CSafe false es
  | .clear :: es => CSafe true es
  | .reload :: es => CSafe fresh es

end Vita.C04
