/-
  C04 — the fitness cache is transparent.  Property theorems (statements in words: design/C04.md).

  Table level (for EVERY index function `idx`, slot list `dom`, history `ops` and non-empty key):
    find_sound            a hit returns the value of the newest store under exactly that key
                          since the last clear()/clear(key)  (`lastStore`)
    find_never_foreign    … hence a value that was stored under that very key
    find_none_after_clear … hence nothing right after a clear()
    find_after_insert     a lookup right after a store of the same key returns the stored value
    load_save_fresh       save + load into a fresh table answers every lookup alike
  Proxy level:
    proxy_transparent     under the usage discipline the proxy answers what the wrapped evaluator
                          would answer now, at every evaluation of every history
  About the code before `fix: cache::clear wipes the table when the seal wraps around`:
    seal_wrap_counterexample_prefix   2^32 clears make a pre-clear value visible again
-/
import Vita.C04.Lemmas
namespace Vita.C04

/-- **find_sound** — every history, every table size / index function, every non-empty key:
    a lookup that returns a value returns the one most recently stored under exactly that key
    since the last clear. -/
theorem find_sound (idx : Key → Nat) (dom : List Nat) (ops : List Op) (k : Key) (hk : k.empty = false)
    (v : Fit) (h : ((Cache.init idx dom).run ops).find k = some v) :
    lastStore k ops.reverse = some v := by
  have := (cinv_run (cinv_init idx dom) ops).2 k hk v h
  simpa using this

/-- never a value of another signature: what is found under `k` was stored under `k` -/
theorem find_never_foreign (idx dom) (ops : List Op) (k : Key) (hk : k.empty = false) (v : Fit)
    (h : ((Cache.init idx dom).run ops).find k = some v) : Op.insert k v ∈ ops := by
  have := lastStore_mem (find_sound idx dom ops k hk v h)
  simpa using this

/-- never a pre-clear value: right after a clear() (and any number of save/load round trips and
    stores under other keys) every lookup misses -/
theorem find_none_after_clear (idx dom) (ops : List Op) (k : Key) (hk : k.empty = false) :
    ((Cache.init idx dom).run (ops ++ [Op.clear])).find k = none := by
  cases hf : ((Cache.init idx dom).run (ops ++ [Op.clear])).find k with
  | none => rfl
  | some v =>
    have := find_sound idx dom _ k hk v hf
    simp [lastStore] at this

/-- **find_after_insert** — in any state whatsoever -/
theorem find_after_insert (c : Cache) (k : Key) (v : Fit) : (c.insert k v).find k = some v :=
  find_insert_self c k v

theorem lookup_after_insert (c : Cache) (k : Key) (v : Fit) : (c.insert k v).lookup k = v := by
  simp [Cache.lookup, find_after_insert]

/-- **load_save_fresh** — after any history, saving and loading into a fresh table of the same size
    (`dom` lists each slot once and every key is indexed into it) answers every lookup alike. -/
theorem load_save_fresh (idx : Key → Nat) (dom : List Nat) (hn : dom.Nodup) (hd : ∀ k, idx k ∈ dom)
    (ops : List Op) (k : Key) (hk : k.empty = false) :
    ((Cache.init idx dom).run ops).reload.lookup k = ((Cache.init idx dom).run ops).lookup k := by
  have hs : Sane ((Cache.init idx dom).run ops) := (cinv_run (cinv_init idx dom) ops).1
  have hidx : ∀ (c : Cache) (ops : List Op), (c.run ops).idx = c.idx ∧ (c.run ops).dom = c.dom := by
    intro c ops
    induction ops generalizing c with
    | nil => exact ⟨rfl, rfl⟩
    | cons op ops ih =>
      have h1 := ih (c.step op)
      have h2 : (c.step op).idx = c.idx ∧ (c.step op).dom = c.dom := by
        cases op
        · exact ⟨rfl, rfl⟩
        · simp only [Cache.step, Cache.clear]; split <;> exact ⟨rfl, rfl⟩
        · exact ⟨rfl, rfl⟩
        · simp only [Cache.step, reload_eq]; exact ⟨trivial, trivial⟩
      simp only [Cache.run, List.foldl_cons] at h1 ⊢
      exact ⟨h1.1.trans h2.1, h1.2.trans h2.2⟩
  have ⟨hi, hdm⟩ := hidx (Cache.init idx dom) ops
  generalize (Cache.init idx dom).run ops = c at *
  simp only [Cache.init] at hi hdm
  cases hf : c.find k with
  | none =>
    cases hr : c.reload.find k with
    | none => simp [Cache.lookup, hf, hr]
    | some w => have := find_reload hs k hk w hr; rw [hf] at this; cases this
  | some v =>
    by_cases hv : v = []
    · subst hv
      cases hr : c.reload.find k with
      | none => simp [Cache.lookup, hf, hr]
      | some w => have := find_reload hs k hk w hr; rw [hf] at this; simp [Cache.lookup, hf, hr, ← this]
    · have := find_reload_complete hs (hdm ▸ hn) k (by rw [hi, hdm]; exact hd k) hk v hv hf
      simp [Cache.lookup, hf, this]

/-! ### the seal wrap, before the fix -/

/-- **seal_wrap_counterexample_prefix** — with `++seal_` alone (the code before the fix) the
    statement of `find_sound` is false: store, 2^32 clears, and the lookup returns the pre-clear
    value although `lastStore` says "nothing". -/
theorem seal_wrap_counterexample_prefix :
    ¬ ∀ (idx : Key → Nat) (dom : List Nat) (ops : List Op) (k : Key), k.empty = false → ∀ v,
        ((Cache.init idx dom).runOld ops).find k = some v → lastStore k ops.reverse = some v := by
  intro h
  obtain ⟨N, hN⟩ : ∃ N : Nat, N = 4294967296 := ⟨_, rfl⟩
  obtain ⟨m, hm⟩ : ∃ m : Nat, N = m + 1 := ⟨4294967295, by omega⟩
  have h1 := h (fun _ => 0) [0] (Op.insert ⟨1, 0⟩ [7] :: List.replicate N Op.clear) ⟨1, 0⟩ rfl [7]
  have hrun : ((Cache.init (fun _ => 0) [0]).runOld (Op.insert ⟨1, 0⟩ [7] :: List.replicate N Op.clear)).find ⟨1, 0⟩
      = some [7] := by
    have h3 := runOld_clears ((Cache.init (fun _ => 0) [0]).stepOld (Op.insert ⟨1, 0⟩ [7])) N
    simp only [Cache.runOld, List.foldl_cons] at h3 ⊢
    rw [h3, ofNat_two_pow N hN]
    simp [Cache.find, Cache.stepOld, Cache.step, Cache.insert, Cache.init]
  have h2 := h1 hrun
  rw [List.reverse_cons, List.reverse_replicate, hm, lastStore_clears] at h2
  cases h2

/-- below the wrap the code before the fix and the code after it do the same -/
theorem runOld_eq_run (c : Cache) (ops : List Op) (h : c.sl.toNat + nclears ops < 4294967296) :
    c.runOld ops = c.run ops := by
  induction ops generalizing c with
  | nil => rfl
  | cons op ops ih =>
    simp only [Cache.runOld, Cache.run, List.foldl_cons] at ih ⊢
    cases op with
    | insert k v => exact ih (c.insert k v) (by simpa [nclears, Cache.insert] using h)
    | clearKey k => exact ih (c.clearKey k) (by simpa [nclears, Cache.clearKey] using h)
    | reload =>
      refine ih c.reload ?_
      rw [reload_eq]; simpa [nclears] using h
    | clear =>
      simp only [nclears] at h
      have hne : c.sl + 1 ≠ 0 := by
        intro e
        have := congrArg UInt32.toNat e
        simp [UInt32.toNat_add] at this
        omega
      have hcl : c.clear = c.clearOld := by simp [Cache.clear, Cache.clearOld, hne]
      simp only [Cache.stepOld, Cache.step, hcl]
      refine ih c.clearOld ?_
      have := succ_toNat_of_ne_zero c.sl hne
      simp only [Cache.clearOld]; omega

/-- **find_sound_prefix_partial** — what does hold for the code before the fix: the statement of
    `find_sound` for every history with fewer than 2^32 - 1 `clear()`s -/
theorem find_sound_prefix_partial (idx : Key → Nat) (dom : List Nat) (ops : List Op) (hc : nclears ops < 4294967295)
    (k : Key) (hk : k.empty = false) (v : Fit) (h : ((Cache.init idx dom).runOld ops).find k = some v) :
    lastStore k ops.reverse = some v := by
  rw [runOld_eq_run _ _ (by simp only [Cache.init, toNat_one]; omega)] at h
  exact find_sound idx dom ops k hk v h

/-- with the fix the same history misses (an instance of `find_sound`) -/
theorem seal_wrap_fixed (idx dom) (k : Key) (hk : k.empty = false) (v : Fit) (N : Nat) (_hN : N = 4294967296) :
    ((Cache.init idx dom).run (Op.insert k v :: List.replicate N Op.clear)).find k = none := by
  obtain ⟨m, hm⟩ : ∃ m : Nat, N = m + 1 := ⟨4294967295, by omega⟩
  cases hf : ((Cache.init idx dom).run (Op.insert k v :: List.replicate N Op.clear)).find k with
  | none => rfl
  | some w =>
    have := find_sound idx dom _ k hk w hf
    rw [List.reverse_cons, List.reverse_replicate, hm, lastStore_clears] at this
    cases this

/-- the harness reaches seals near 2^32 by loading a header-only stream; below the wrap this is
    the same state as that many clear() calls -/
theorem jump_is_clears (c : Cache) (n : Nat) (h : c.sl.toNat + n < 4294967296) :
    c.load ⟨c.sl + UInt32.ofNat n, 0, []⟩ = (true, c.run (List.replicate n Op.clear)) := by
  induction n generalizing c with
  | zero => simp [Cache.load, loadGo, Cache.run]
  | succ n ih =>
    have hne : c.sl + 1 ≠ 0 := by
      intro e
      have := congrArg UInt32.toNat e
      simp [UInt32.toNat_add] at this
      omega
    have hcl : c.clear = { c with sl := c.sl + 1 } := by simp [Cache.clear, hne]
    have := ih c.clear (by rw [hcl]; simp only; rw [succ_toNat_of_ne_zero c.sl hne]; omega)
    simp only [List.replicate_succ, Cache.run, List.foldl_cons, Cache.step] at this ⊢
    rw [← this, hcl]
    simp only [Cache.load, loadGo]
    congr 2
    rw [UInt32.add_assoc]; congr 1
    apply UInt32.toNat_inj.mp
    simp [UInt32.toNat_add, UInt32.toNat_ofNat']
    omega

/-! ### the proxy -/

section proxy
variable {Ind Data : Type} (sig : Ind → Key) (ev : Data → Ind → Fit)

/-- **proxy_transparent** — a fresh proxy over any table, any wrapped evaluator `ev` (a function of
    the current data and the individual), any history of evaluations, data changes, clears and
    save/load round trips that follows the discipline: every answer of the proxy is the answer the
    wrapped evaluator would give at that moment. -/
theorem proxy_transparent (idx : Key → Nat) (dom : List Nat) (d0 : Data) (es : List (Ev Ind Data))
    (hd : Disciplined sig ev d0 none [] es) :
    runP sig ev ⟨Cache.init idx dom, d0, 0⟩ es = runDirect ev d0 es := by
  apply proxy_transparent_from sig ev _ none [] es _ hd
  refine ⟨sane_init idx dom, ?_⟩
  intro k _ v h
  simp [Cache.find, Cache.init, Slot.fresh] at h

end proxy

/-! ### non-vacuity: the hypotheses are met by concrete, non-trivial instances -/

/-- a 4-slot table indexed by the low two bits of `d0` -/
def exIdx : Key → Nat := fun k => k.d0.toNat % 4

def exOps : List Op :=
  [.insert ⟨5, 1⟩ [10], .insert ⟨9, 1⟩ [11, 12], .clear, .insert ⟨5, 1⟩ [13], .insert ⟨6, 2⟩ [],
   .reload, .clearKey ⟨6, 2⟩]

/-- hypothesis of `find_sound` (a hit) on a history with a collision, a clear, a round trip -/
example : ((Cache.init exIdx [0, 1, 2, 3]).run exOps).find ⟨5, 1⟩ = some [13] := by decide
example : lastStore ⟨5, 1⟩ exOps.reverse = some [13] := by decide
/-- eviction is forgetting: ⟨9,1⟩ shares slot 1 with ⟨5,1⟩ -/
example : ((Cache.init exIdx [0, 1, 2, 3]).run [.insert ⟨5, 1⟩ [10], .insert ⟨9, 1⟩ [11]]).find ⟨5, 1⟩ = none := by
  decide
/-- hypotheses of `load_save_fresh` -/
example : [0, 1, 2, 3].Nodup ∧ ∀ k, exIdx k ∈ [0, 1, 2, 3] := by
  refine ⟨by decide, fun k => ?_⟩
  have : k.d0.toNat % 4 < 4 := Nat.mod_lt _ (by decide)
  simp only [exIdx, List.mem_cons, List.mem_nil_iff, or_false]; omega

/-- proxy: two individuals share a signature and a fitness, the data change and a clear follows -/
def exSig : Nat → Key := fun i => ⟨UInt64.ofNat (i % 2 + 1), 7⟩
def exEv : Nat → Nat → Fit := fun d i => if i % 2 = 1 ∧ d = 1 then [] else [UInt64.ofNat (10 * d + i % 2)]
def exEvents : List (Ev Nat Nat) :=
  [.eval 0, .eval 1, .eval 2, .eval 0, .setData 1, .clear, .eval 1, .eval 1, .reload, .eval 2, .setData 0, .setData 1, .eval 0]

example : Disciplined exSig exEv 0 none [] exEvents := by
  simp [Disciplined, exEvents, exSig, exEv, Key.empty]
example : runP exSig exEv ⟨Cache.init exIdx [0, 1, 2, 3], 0, 0⟩ exEvents = [[0], [1], [0], [0], [], [], [10], [10]] := by
  decide
/-- and a history that breaks the discipline (data change without clear) is answered wrongly:
    the hypothesis of `proxy_transparent` is needed -/
example : runP exSig exEv ⟨Cache.init exIdx [0, 1, 2, 3], 0, 0⟩ [.eval 0, .setData 1, .eval 0] = [[0], [0]]
    ∧ runDirect exEv 0 ([.eval 0, .setData 1, .eval 0] : List (Ev Nat Nat)) = [[0], [10]] := by decide

/-! ### the call sites that change the training data -/

/-- every DSS step that replaces the training set ends with `clear_evaluators()` (as modelled from
    dss.cc: init, shake at a multiple of the gap, close) -/
theorem dss_sites_clear (run gap gen : Nat) :
    (Site.dssInit run).changes = (Site.dssInit run).clears ∧
    (Site.dssShake gap gen).changes = (Site.dssShake gap gen).clears ∧
    (Site.dssClose run).changes = (Site.dssClose run).clears := ⟨rfl, rfl, rfl⟩

/-- **proxy_transparent_callsites** — the call-site obligation stated explicitly: for every history
    of validation-strategy steps, evaluations, clears and save/load round trips in which each step
    that replaces the training set is followed by a clear of the cached evaluator (or happens while
    the cache is still empty) – `CSafe` – and signatures are faithful, every answer of the proxy is
    the wrapped evaluator's answer at that moment.  Histories made of DSS steps satisfy `CSafe` by
    `dss_sites_clear`; `holdout_validation::init(0)` does not clear and is safe only on an empty cache. -/
theorem proxy_transparent_callsites {Ind Data : Type} (sig : Ind → Key) (ev : Data → Ind → Fit)
    (hne : ∀ i, (sig i).empty = false) (hf : ∀ d i j, sig i = sig j → ev d i = ev d j)
    (idx : Key → Nat) (dom : List Nat) (d0 : Data) (es : List (CEv Ind Data)) (hs : CSafe true es) :
    runP sig ev ⟨Cache.init idx dom, d0, 0⟩ (expandAll es) = runDirect ev d0 (expandAll es) :=
  proxy_transparent sig ev idx dom d0 _
    (callsites_disciplined sig ev hne hf es true d0 none [] hs (fun _ => rfl) (Or.inl rfl))

/-- a history of DSS steps with evaluations in between meets the obligation -/
example : CSafe true ([.eval 0, .site (.dssInit 0) 1, .eval 0, .eval 1, .site (.dssShake 2 1) 1, .eval 0,
    .site (.dssShake 2 2) 2, .eval 1, .reload, .site (.dssClose 0) 3, .site (.dssInit 1) 4, .eval 0] : List (CEv Nat Nat)) := by
  simp [CSafe, Site.changes, Site.clears]

/-- hold-out: `init(0)` on an empty cache is fine … -/
example : CSafe true ([.site (.holdoutInit 0) 1, .eval 0, .site (.holdoutInit 1) 1, .eval 0] : List (CEv Nat Nat)) := by
  simp [CSafe, Site.changes, Site.clears]

/-- **holdout_init0_stale** — … but with a non-empty cache (values evaluated, or reloaded, before the
    first run) `holdout_validation::init(0)` breaks the obligation and the proxy answers with the
    fitness on the OLD training set -/
theorem holdout_init0_stale :
    ¬ CSafe true ([.eval 0, .reload, .site (.holdoutInit 0) 1, .eval 0] : List (CEv Nat Nat)) ∧
    runP exSig exEv ⟨Cache.init exIdx [0, 1, 2, 3], 0, 0⟩
        (expandAll [.eval 0, .reload, .site (.holdoutInit 0) 1, .eval 0]) = [[0], [0]] ∧
    runDirect exEv 0 (expandAll ([.eval 0, .reload, .site (.holdoutInit 0) 1, .eval 0] : List (CEv Nat Nat)))
        = [[0], [10]] := by
  refine ⟨by simp [CSafe, Site.changes, Site.clears], by decide, by decide⟩

end Vita.C04
