/-
  C04 — the fitness cache is transparent.  Property theorems (statements in words: design/C04.md).

  Table level (for EVERY index function `idx`, slot list `dom`, history `ops` and non-empty key):
    find_sound            a hit returns the value of the newest store under exactly that key
                          since the last clear()/clear(key)  (`lastStore`)
    find_never_foreign    … hence a value that was stored under that very key
    find_none_after_clear … hence nothing right after a clear()
    find_after_insert     a lookup right after a store of the same key returns the stored value
    load_save_fresh       save + load into a fresh table answers every lookup alike
  Proxy level:
    proxy_transparent     under the usage discipline the proxy answers what the wrapped evaluator
                          would answer now, at every evaluation of every history
  About the code before `fix: cache::clear wipes the table when the seal wraps around`:
    seal_wrap_counterexample_prefix   2^32 clears make a pre-clear value visible again
-/
import Vita.C04.Lemmas
namespace Vita.C04

/-- the invariant: the state is sane and every hit agrees with the specification -/
def CInv (c : Cache) (hist : List Op) : Prop :=
  Sane c ∧ ∀ k : Key, k.empty = false → ∀ v, c.find k = some v → lastStore k hist = some v

theorem cinv_init (idx dom) : CInv (Cache.init idx dom) [] := by
  refine ⟨sane_init idx dom, ?_⟩
  intro k _ v h
  simp [Cache.find, Cache.init, Slot.fresh] at h

theorem cinv_step {c : Cache} {hist : List Op} (h : CInv c hist) (op : Op) : CInv (c.step op) (op :: hist) := by
  obtain ⟨hs, hf⟩ := h
  cases op with
  | insert k v =>
    refine ⟨sane_insert hs k v, ?_⟩
    intro k' hk' w hw
    simp only [Cache.step] at hw
    by_cases e : k' = k
    · subst e; rw [find_insert_self] at hw; simpa [lastStore] using hw
    · have := find_insert_other c k v k' w e hw
      simp only [lastStore, if_neg (Ne.symm e)]; exact hf k' hk' w this
  | clear =>
    refine ⟨sane_clear hs, ?_⟩
    intro k' _ w hw
    simp only [Cache.step, find_clear hs] at hw; cases hw
  | clearKey k =>
    refine ⟨sane_clearKey hs k, ?_⟩
    intro k' hk' w hw
    simp only [Cache.step] at hw
    by_cases e : k' = k
    · subst e; rw [find_clearKey_self c k' hk'] at hw; cases hw
    · have := find_clearKey_other c k k' w hk' hw
      simp only [lastStore, if_neg (Ne.symm e)]; exact hf k' hk' w this
  | reload =>
    refine ⟨sane_reload hs, ?_⟩
    intro k' hk' w hw
    simp only [Cache.step] at hw
    simp only [lastStore]; exact hf k' hk' w (find_reload hs k' hk' w hw)

theorem cinv_run {c : Cache} {hist : List Op} (h : CInv c hist) (ops : List Op) :
    CInv (c.run ops) (ops.reverse ++ hist) := by
  induction ops generalizing c hist with
  | nil => simpa [Cache.run] using h
  | cons op ops ih =>
    have := ih (cinv_step h op)
    simpa [Cache.run, List.reverse_cons, List.append_assoc] using this

/-- **find_sound** — every history, every table size / index function, every non-empty key:
    a lookup that returns a value returns the one most recently stored under exactly that key
    since the last clear. -/
theorem find_sound (idx : Key → Nat) (dom : List Nat) (ops : List Op) (k : Key) (hk : k.empty = false)
    (v : Fit) (h : ((Cache.init idx dom).run ops).find k = some v) :
    lastStore k ops.reverse = some v := by
  have := (cinv_run (cinv_init idx dom) ops).2 k hk v h
  simpa using this

theorem lastStore_mem {k : Key} {v : Fit} {hist : List Op} (h : lastStore k hist = some v) :
    Op.insert k v ∈ hist := by
  induction hist with
  | nil => simp [lastStore] at h
  | cons op hist ih =>
    cases op with
    | insert k' w =>
      simp only [lastStore] at h
      split at h
      · rename_i e; subst e; simp only [Option.some.injEq] at h; subst h; simp
      · exact List.mem_cons_of_mem _ (ih h)
    | clear => simp [lastStore] at h
    | clearKey k' =>
      simp only [lastStore] at h
      split at h
      · cases h
      · exact List.mem_cons_of_mem _ (ih h)
    | reload => exact List.mem_cons_of_mem _ (ih (by simpa [lastStore] using h))

/-- never a value of another signature: what is found under `k` was stored under `k` -/
theorem find_never_foreign (idx dom) (ops : List Op) (k : Key) (hk : k.empty = false) (v : Fit)
    (h : ((Cache.init idx dom).run ops).find k = some v) : Op.insert k v ∈ ops := by
  have := lastStore_mem (find_sound idx dom ops k hk v h)
  simpa using this

/-- never a pre-clear value: right after a clear() (and any number of save/load round trips and
    stores under other keys) every lookup misses -/
theorem find_none_after_clear (idx dom) (ops : List Op) (k : Key) (hk : k.empty = false) :
    ((Cache.init idx dom).run (ops ++ [Op.clear])).find k = none := by
  cases hf : ((Cache.init idx dom).run (ops ++ [Op.clear])).find k with
  | none => rfl
  | some v =>
    have := find_sound idx dom _ k hk v hf
    simp [lastStore] at this

/-- **find_after_insert** — in any state whatsoever -/
theorem find_after_insert (c : Cache) (k : Key) (v : Fit) : (c.insert k v).find k = some v :=
  find_insert_self c k v

theorem lookup_after_insert (c : Cache) (k : Key) (v : Fit) : (c.insert k v).lookup k = v := by
  simp [Cache.lookup, find_after_insert]

/-- **load_save_fresh** — after any history, saving and loading into a fresh table of the same size
    (`dom` lists each slot once and every key is indexed into it) answers every lookup alike. -/
theorem load_save_fresh (idx : Key → Nat) (dom : List Nat) (hn : dom.Nodup) (hd : ∀ k, idx k ∈ dom)
    (ops : List Op) (k : Key) (hk : k.empty = false) :
    ((Cache.init idx dom).run ops).reload.lookup k = ((Cache.init idx dom).run ops).lookup k := by
  have hs : Sane ((Cache.init idx dom).run ops) := (cinv_run (cinv_init idx dom) ops).1
  have hidx : ∀ (c : Cache) (ops : List Op), (c.run ops).idx = c.idx ∧ (c.run ops).dom = c.dom := by
    intro c ops
    induction ops generalizing c with
    | nil => exact ⟨rfl, rfl⟩
    | cons op ops ih =>
      have h1 := ih (c.step op)
      have h2 : (c.step op).idx = c.idx ∧ (c.step op).dom = c.dom := by
        cases op
        · exact ⟨rfl, rfl⟩
        · simp only [Cache.step, Cache.clear]; split <;> exact ⟨rfl, rfl⟩
        · exact ⟨rfl, rfl⟩
        · simp only [Cache.step, reload_eq]; exact ⟨trivial, trivial⟩
      simp only [Cache.run, List.foldl_cons] at h1 ⊢
      exact ⟨h1.1.trans h2.1, h1.2.trans h2.2⟩
  have ⟨hi, hdm⟩ := hidx (Cache.init idx dom) ops
  generalize (Cache.init idx dom).run ops = c at *
  simp only [Cache.init] at hi hdm
  cases hf : c.find k with
  | none =>
    cases hr : c.reload.find k with
    | none => simp [Cache.lookup, hf, hr]
    | some w => have := find_reload hs k hk w hr; rw [hf] at this; cases this
  | some v =>
    by_cases hv : v = []
    · subst hv
      cases hr : c.reload.find k with
      | none => simp [Cache.lookup, hf, hr]
      | some w => have := find_reload hs k hk w hr; rw [hf] at this; simp [Cache.lookup, hf, hr, ← this]
    · have := find_reload_complete hs (hdm ▸ hn) k (by rw [hi, hdm]; exact hd k) hk v hv hf
      simp [Cache.lookup, hf, this]

/-! ### the seal wrap, before the fix -/

def Cache.stepOld (c : Cache) : Op → Cache
  | .clear => c.clearOld
  | op => c.step op

def Cache.runOld (c : Cache) (ops : List Op) : Cache := ops.foldl Cache.stepOld c

theorem runOld_clears (c : Cache) (n : Nat) :
    c.runOld (List.replicate n Op.clear) = { c with sl := c.sl + UInt32.ofNat n } := by
  induction n generalizing c with
  | zero => simp [Cache.runOld]
  | succ n ih =>
    simp only [List.replicate_succ, Cache.runOld, List.foldl_cons, Cache.stepOld] at ih ⊢
    rw [ih]
    simp only [Cache.clearOld]
    congr 1
    rw [UInt32.add_assoc]; congr 1
    apply UInt32.toNat_inj.mp
    simp [UInt32.toNat_add, UInt32.toNat_ofNat']
    omega

theorem lastStore_clears (k : Key) (n : Nat) (hist : List Op) :
    lastStore k (List.replicate (n + 1) Op.clear ++ hist) = none := by
  simp [List.replicate_succ, lastStore]

theorem ofNat_two_pow (N : Nat) (hN : N = 4294967296) (x : UInt32) : x + UInt32.ofNat N = x := by
  apply UInt32.toNat_inj.mp
  rw [UInt32.toNat_add, UInt32.toNat_ofNat', hN]
  have := x.toNat_lt
  omega

/-- **seal_wrap_counterexample_prefix** — with `++seal_` alone (the code before the fix) the
    statement of `find_sound` is false: store, 2^32 clears, and the lookup returns the pre-clear
    value although `lastStore` says "nothing". -/
theorem seal_wrap_counterexample_prefix :
    ¬ ∀ (idx : Key → Nat) (dom : List Nat) (ops : List Op) (k : Key), k.empty = false → ∀ v,
        ((Cache.init idx dom).runOld ops).find k = some v → lastStore k ops.reverse = some v := by
  intro h
  obtain ⟨N, hN⟩ : ∃ N : Nat, N = 4294967296 := ⟨_, rfl⟩
  obtain ⟨m, hm⟩ : ∃ m : Nat, N = m + 1 := ⟨4294967295, by omega⟩
  have h1 := h (fun _ => 0) [0] (Op.insert ⟨1, 0⟩ [7] :: List.replicate N Op.clear) ⟨1, 0⟩ rfl [7]
  have hrun : ((Cache.init (fun _ => 0) [0]).runOld (Op.insert ⟨1, 0⟩ [7] :: List.replicate N Op.clear)).find ⟨1, 0⟩
      = some [7] := by
    have h3 := runOld_clears ((Cache.init (fun _ => 0) [0]).stepOld (Op.insert ⟨1, 0⟩ [7])) N
    simp only [Cache.runOld, List.foldl_cons] at h3 ⊢
    rw [h3, ofNat_two_pow N hN]
    simp [Cache.find, Cache.stepOld, Cache.step, Cache.insert, Cache.init]
  have h2 := h1 hrun
  rw [List.reverse_cons, List.reverse_replicate, hm, lastStore_clears] at h2
  cases h2

/-- with the fix the same history misses (an instance of `find_sound`) -/
theorem seal_wrap_fixed (idx dom) (k : Key) (hk : k.empty = false) (v : Fit) (N : Nat) (_hN : N = 4294967296) :
    ((Cache.init idx dom).run (Op.insert k v :: List.replicate N Op.clear)).find k = none := by
  obtain ⟨m, hm⟩ : ∃ m : Nat, N = m + 1 := ⟨4294967295, by omega⟩
  cases hf : ((Cache.init idx dom).run (Op.insert k v :: List.replicate N Op.clear)).find k with
  | none => rfl
  | some w =>
    have := find_sound idx dom _ k hk w hf
    rw [List.reverse_cons, List.reverse_replicate, hm, lastStore_clears] at this
    cases this

/-- the harness reaches seals near 2^32 by loading a header-only stream; below the wrap this is
    the same state as that many clear() calls -/
theorem jump_is_clears (c : Cache) (n : Nat) (h : c.sl.toNat + n < 4294967296) :
    c.load ⟨c.sl + UInt32.ofNat n, 0, []⟩ = (true, c.run (List.replicate n Op.clear)) := by
  induction n generalizing c with
  | zero => simp [Cache.load, loadGo, Cache.run]
  | succ n ih =>
    have hne : c.sl + 1 ≠ 0 := by
      intro e
      have := congrArg UInt32.toNat e
      simp [UInt32.toNat_add] at this
      omega
    have hcl : c.clear = { c with sl := c.sl + 1 } := by simp [Cache.clear, hne]
    have := ih c.clear (by rw [hcl]; simp only; rw [succ_toNat_of_ne_zero c.sl hne]; omega)
    simp only [List.replicate_succ, Cache.run, List.foldl_cons, Cache.step] at this ⊢
    rw [← this, hcl]
    simp only [Cache.load, loadGo]
    congr 2
    rw [UInt32.add_assoc]; congr 1
    apply UInt32.toNat_inj.mp
    simp [UInt32.toNat_add, UInt32.toNat_ofNat']
    omega

/-! ### the proxy -/

section proxy
variable {Ind Data : Type} (sig : Ind → Key) (ev : Data → Ind → Fit)

/-- invariant of the proxy: every non-empty cached value is the fitness, on the data the
    evaluations of this epoch ran on, of an individual evaluated in this epoch -/
def PInv (s : PState Data) (last : Option Data) (seen : List Ind) : Prop :=
  Sane s.cache ∧ ∀ k : Key, k.empty = false → ∀ v, s.cache.find k = some v → v ≠ [] →
    ∃ j ∈ seen, sig j = k ∧ ∃ dl, last = some dl ∧ v = ev dl j

theorem proxy_transparent_from (s : PState Data) (last : Option Data) (seen : List Ind)
    (es : List (Ev Ind Data)) (hinv : PInv sig ev s last seen)
    (hd : Disciplined sig ev s.data last seen es) :
    runP sig ev s es = runDirect ev s.data es := by
  induction es generalizing s last seen with
  | nil => rfl
  | cons e es ih =>
    obtain ⟨hs, hf⟩ := hinv
    cases e with
    | eval i =>
      obtain ⟨hlast, hki, hsig, hrest⟩ := hd
      simp only [runP, pstep, runDirect]
      have hmiss : ∀ (hl : s.cache.lookup (sig i) = []),
          runP sig ev s (Ev.eval i :: es) = runDirect ev s.data (Ev.eval i :: es) := by
        intro hl
        simp only [runP, pstep, runDirect, proxyEval, hl, List.isEmpty_nil, if_true]
        congr 1
        apply ih _ (some s.data) (i :: seen)
        · refine ⟨sane_insert hs _ _, ?_⟩
          intro k hk v hv hne
          by_cases e : k = sig i
          · subst e
            rw [find_insert_self] at hv
            simp only [Option.some.injEq] at hv
            exact ⟨i, by simp, rfl, s.data, rfl, hv.symm⟩
          · have := find_insert_other _ _ _ _ _ e hv
            obtain ⟨j, hj, hjk, dl, hdl, hvv⟩ := hf k hk v this hne
            refine ⟨j, List.mem_cons_of_mem _ hj, hjk, dl, ?_, hvv⟩
            rcases hlast with h | h
            · rw [h] at hdl; cases hdl
            · rw [← hdl, h]
        · exact hrest
      cases hfind : s.cache.find (sig i) with
      | none => exact hmiss (by simp [Cache.lookup, hfind])
      | some v =>
        by_cases hv : v = []
        · exact hmiss (by simp [Cache.lookup, hfind, hv])
        · have hl : s.cache.lookup (sig i) = v := by simp [Cache.lookup, hfind]
          have hne : v.isEmpty = false := by cases v <;> simp_all
          simp only [proxyEval, hl, hne]
          obtain ⟨j, hj, hjk, dl, hdl, hvv⟩ := hf (sig i) hki v hfind hv
          have hdd : dl = s.data := by
            rcases hlast with h | h
            · rw [h] at hdl; cases hdl
            · rw [h] at hdl; cases hdl; rfl
          subst hdd
          simp only [Bool.false_eq_true, if_false]
          congr 1
          · rw [hvv]; exact hsig j hj hjk
          · apply ih s (some s.data) (i :: seen)
            · refine ⟨hs, ?_⟩
              intro k hk w hw hwne
              obtain ⟨j', hj', hjk', dl', hdl', hvv'⟩ := hf k hk w hw hwne
              exact ⟨j', List.mem_cons_of_mem _ hj', hjk', dl', by rw [← hdl', hdl], hvv'⟩
            · exact hrest
    | setData d =>
      simp only [runP, pstep, runDirect]
      exact ih _ last seen ⟨hs, hf⟩ hd
    | clear =>
      simp only [runP, pstep, runDirect]
      apply ih _ none []
      · refine ⟨sane_clear hs, ?_⟩
        intro k _ v hv
        simp only [find_clear hs] at hv; cases hv
      · exact hd
    | reload =>
      simp only [runP, pstep, runDirect]
      apply ih _ last seen
      · refine ⟨sane_reload hs, ?_⟩
        intro k hk v hv hne
        exact hf k hk v (find_reload hs k hk v hv) hne
      · exact hd

/-- **proxy_transparent** — a fresh proxy over any table, any wrapped evaluator `ev` (a function of
    the current data and the individual), any history of evaluations, data changes, clears and
    save/load round trips that follows the discipline: every answer of the proxy is the answer the
    wrapped evaluator would give at that moment. -/
theorem proxy_transparent (idx : Key → Nat) (dom : List Nat) (d0 : Data) (es : List (Ev Ind Data))
    (hd : Disciplined sig ev d0 none [] es) :
    runP sig ev ⟨Cache.init idx dom, d0, 0⟩ es = runDirect ev d0 es := by
  apply proxy_transparent_from sig ev _ none [] es _ hd
  refine ⟨sane_init idx dom, ?_⟩
  intro k _ v h
  simp [Cache.find, Cache.init, Slot.fresh] at h

end proxy

end Vita.C04
