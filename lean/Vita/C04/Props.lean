/-
  C04 — the fitness cache is transparent.  Property theorems (statements in words: design/C04.md).

  Table level (for EVERY index function `idx`, slot list `dom`, history `ops` and non-empty key):
    find_sound            a hit returns the value of the newest store under exactly that key
                          since the last clear()/clear(key)  (`lastStore`)
    find_never_foreign    … hence a value that was stored under that very key
    find_none_after_clear … hence nothing right after a clear()
    find_after_insert     a lookup right after a store of the same key returns the stored value
    load_save_fresh       save + load into a fresh table answers every lookup alike
  Proxy level:
    proxy_transparent     under the usage discipline the proxy answers what the wrapped evaluator
                          would answer now, at every evaluation of every history
  About the code before `fix: cache::clear wipes the table when the seal wraps around`:
    seal_wrap_counterexample_prefix   2^32 clears make a pre-clear value visible again
  About the GENERATED terms (Gen.lean, written by tools/translate_cache.py from the clang AST on every
  check; semantics: Lang.lean / Sites.lean):
    gen_keyEq_is_eq, gen_index_in_table, gen_ctor, gen_find_is_model, gen_insert_is_model,
    gen_clear_is_model, gen_clearKey_is_model, gen_proxy_call_is_model, gen_proxy_clear_is_model
                          the meaning of each generated body is the model's function
    find_sound_gen, find_after_insert_gen, find_none_after_clear_gen, load_save_fresh_gen,
    proxy_transparent_gen the property theorems, stated about the generated terms
    strategies_clear_after_change, search_run_checked, search_run_never_stale, search_run_transparent
                          every validation strategy clears the training evaluator after changing the
                          training set; hence every evaluation search::run makes through the proxy
                          equals direct evaluation
-/
import Vita.C04.Lemmas
import Vita.C04.GenSem
namespace Vita.C04

/-- **find_sound** — every history, every table size / index function, every non-empty key:
    a lookup that returns a value returns the one most recently stored under exactly that key
    since the last clear. -/
theorem find_sound (idx : Key → Nat) (dom : List Nat) (ops : List Op) (k : Key) (hk : k.empty = false)
    (v : Fit) (h : ((Cache.init idx dom).run ops).find k = some v) :
    lastStore k ops.reverse = some v := by
  have := (cinv_run (cinv_init idx dom) ops).2 k hk v h
  simpa using this

/-- never a value of another signature: what is found under `k` was stored under `k` -/
theorem find_never_foreign (idx dom) (ops : List Op) (k : Key) (hk : k.empty = false) (v : Fit)
    (h : ((Cache.init idx dom).run ops).find k = some v) : Op.insert k v ∈ ops := by
  have := lastStore_mem (find_sound idx dom ops k hk v h)
  simpa using this

/-- never a pre-clear value: right after a clear() (and any number of save/load round trips and
    stores under other keys) every lookup misses -/
theorem find_none_after_clear (idx dom) (ops : List Op) (k : Key) (hk : k.empty = false) :
    ((Cache.init idx dom).run (ops ++ [Op.clear])).find k = none := by
  cases hf : ((Cache.init idx dom).run (ops ++ [Op.clear])).find k with
  | none => rfl
  | some v =>
    have := find_sound idx dom _ k hk v hf
    simp [lastStore] at this

/-- **find_after_insert** — in any state whatsoever -/
theorem find_after_insert (c : Cache) (k : Key) (v : Fit) : (c.insert k v).find k = some v :=
  find_insert_self c k v

theorem lookup_after_insert (c : Cache) (k : Key) (v : Fit) : (c.insert k v).lookup k = v := by
  simp [Cache.lookup, find_after_insert]

/-- **load_save_fresh** — after any history, saving and loading into a fresh table of the same size
    (`dom` lists each slot once and every key is indexed into it) answers every lookup alike. -/
theorem load_save_fresh (idx : Key → Nat) (dom : List Nat) (hn : dom.Nodup) (hd : ∀ k, idx k ∈ dom)
    (ops : List Op) (k : Key) (hk : k.empty = false) :
    ((Cache.init idx dom).run ops).reload.lookup k = ((Cache.init idx dom).run ops).lookup k := by
  have hs : Sane ((Cache.init idx dom).run ops) := (cinv_run (cinv_init idx dom) ops).1
  have hidx : ∀ (c : Cache) (ops : List Op), (c.run ops).idx = c.idx ∧ (c.run ops).dom = c.dom := by
    intro c ops
    induction ops generalizing c with
    | nil => exact ⟨rfl, rfl⟩
    | cons op ops ih =>
      have h1 := ih (c.step op)
      have h2 : (c.step op).idx = c.idx ∧ (c.step op).dom = c.dom := by
        cases op
        · exact ⟨rfl, rfl⟩
        · simp only [Cache.step, Cache.clear]; split <;> exact ⟨rfl, rfl⟩
        · exact ⟨rfl, rfl⟩
        · simp only [Cache.step, reload_eq]; exact ⟨trivial, trivial⟩
      simp only [Cache.run, List.foldl_cons] at h1 ⊢
      exact ⟨h1.1.trans h2.1, h1.2.trans h2.2⟩
  have ⟨hi, hdm⟩ := hidx (Cache.init idx dom) ops
  generalize (Cache.init idx dom).run ops = c at *
  simp only [Cache.init] at hi hdm
  cases hf : c.find k with
  | none =>
    cases hr : c.reload.find k with
    | none => simp [Cache.lookup, hf, hr]
    | some w => have := find_reload hs k hk w hr; rw [hf] at this; cases this
  | some v =>
    by_cases hv : v = []
    · subst hv
      cases hr : c.reload.find k with
      | none => simp [Cache.lookup, hf, hr]
      | some w => have := find_reload hs k hk w hr; rw [hf] at this; simp [Cache.lookup, hf, hr, ← this]
    · have := find_reload_complete hs (hdm ▸ hn) k (by rw [hi, hdm]; exact hd k) hk v hv hf
      simp [Cache.lookup, hf, this]

/-! ### the seal wrap, before the fix -/

/-- **seal_wrap_counterexample_prefix** — with `++seal_` alone (the code before the fix) the
    statement of `find_sound` is false: store, 2^32 clears, and the lookup returns the pre-clear
    value although `lastStore` says "nothing". -/
theorem seal_wrap_counterexample_prefix :
    ¬ ∀ (idx : Key → Nat) (dom : List Nat) (ops : List Op) (k : Key), k.empty = false → ∀ v,
        ((Cache.init idx dom).runOld ops).find k = some v → lastStore k ops.reverse = some v := by
  intro h
  obtain ⟨N, hN⟩ : ∃ N : Nat, N = 4294967296 := ⟨_, rfl⟩
  obtain ⟨m, hm⟩ : ∃ m : Nat, N = m + 1 := ⟨4294967295, by omega⟩
  have h1 := h (fun _ => 0) [0] (Op.insert ⟨1, 0⟩ [7] :: List.replicate N Op.clear) ⟨1, 0⟩ rfl [7]
  have hrun : ((Cache.init (fun _ => 0) [0]).runOld (Op.insert ⟨1, 0⟩ [7] :: List.replicate N Op.clear)).find ⟨1, 0⟩
      = some [7] := by
    have h3 := runOld_clears ((Cache.init (fun _ => 0) [0]).stepOld (Op.insert ⟨1, 0⟩ [7])) N
    simp only [Cache.runOld, List.foldl_cons] at h3 ⊢
    rw [h3, ofNat_two_pow N hN]
    simp [Cache.find, Cache.stepOld, Cache.step, Cache.insert, Cache.init]
  have h2 := h1 hrun
  rw [List.reverse_cons, List.reverse_replicate, hm, lastStore_clears] at h2
  cases h2

/-- below the wrap the code before the fix and the code after it do the same -/
theorem runOld_eq_run (c : Cache) (ops : List Op) (h : c.sl.toNat + nclears ops < 4294967296) :
    c.runOld ops = c.run ops := by
  induction ops generalizing c with
  | nil => rfl
  | cons op ops ih =>
    simp only [Cache.runOld, Cache.run, List.foldl_cons] at ih ⊢
    cases op with
    | insert k v => exact ih (c.insert k v) (by simpa [nclears, Cache.insert] using h)
    | clearKey k => exact ih (c.clearKey k) (by simpa [nclears, Cache.clearKey] using h)
    | reload =>
      refine ih c.reload ?_
      rw [reload_eq]; simpa [nclears] using h
    | clear =>
      simp only [nclears] at h
      have hne : c.sl + 1 ≠ 0 := by
        intro e
        have := congrArg UInt32.toNat e
        simp [UInt32.toNat_add] at this
        omega
      have hcl : c.clear = c.clearOld := by simp [Cache.clear, Cache.clearOld, hne]
      simp only [Cache.stepOld, Cache.step, hcl]
      refine ih c.clearOld ?_
      have := succ_toNat_of_ne_zero c.sl hne
      simp only [Cache.clearOld]; omega

/-- **find_sound_prefix_partial** — what does hold for the code before the fix: the statement of
    `find_sound` for every history with fewer than 2^32 - 1 `clear()`s -/
theorem find_sound_prefix_partial (idx : Key → Nat) (dom : List Nat) (ops : List Op) (hc : nclears ops < 4294967295)
    (k : Key) (hk : k.empty = false) (v : Fit) (h : ((Cache.init idx dom).runOld ops).find k = some v) :
    lastStore k ops.reverse = some v := by
  rw [runOld_eq_run _ _ (by simp only [Cache.init, toNat_one]; omega)] at h
  exact find_sound idx dom ops k hk v h

/-- with the fix the same history misses (an instance of `find_sound`) -/
theorem seal_wrap_fixed (idx dom) (k : Key) (hk : k.empty = false) (v : Fit) (N : Nat) (_hN : N = 4294967296) :
    ((Cache.init idx dom).run (Op.insert k v :: List.replicate N Op.clear)).find k = none := by
  obtain ⟨m, hm⟩ : ∃ m : Nat, N = m + 1 := ⟨4294967295, by omega⟩
  cases hf : ((Cache.init idx dom).run (Op.insert k v :: List.replicate N Op.clear)).find k with
  | none => rfl
  | some w =>
    have := find_sound idx dom _ k hk w hf
    rw [List.reverse_cons, List.reverse_replicate, hm, lastStore_clears] at this
    cases this

/-- the harness reaches seals near 2^32 by loading a header-only stream; below the wrap this is
    the same state as that many clear() calls -/
theorem jump_is_clears (c : Cache) (n : Nat) (h : c.sl.toNat + n < 4294967296) :
    c.load ⟨c.sl + UInt32.ofNat n, 0, []⟩ = (true, c.run (List.replicate n Op.clear)) := by
  induction n generalizing c with
  | zero => simp [Cache.load, loadGo, Cache.run]
  | succ n ih =>
    have hne : c.sl + 1 ≠ 0 := by
      intro e
      have := congrArg UInt32.toNat e
      simp [UInt32.toNat_add] at this
      omega
    have hcl : c.clear = { c with sl := c.sl + 1 } := by simp [Cache.clear, hne]
    have := ih c.clear (by rw [hcl]; simp only; rw [succ_toNat_of_ne_zero c.sl hne]; omega)
    simp only [List.replicate_succ, Cache.run, List.foldl_cons, Cache.step] at this ⊢
    rw [← this, hcl]
    simp only [Cache.load, loadGo]
    congr 2
    rw [UInt32.add_assoc]; congr 1
    apply UInt32.toNat_inj.mp
    simp [UInt32.toNat_add, UInt32.toNat_ofNat']
    omega

/-! ### the proxy -/

section proxy
variable {Ind Data : Type} (sig : Ind → Key) (ev : Data → Ind → Fit)

/-- **proxy_transparent** — a fresh proxy over any table, any wrapped evaluator `ev` (a function of
    the current data and the individual), any history of evaluations, data changes, clears and
    save/load round trips that follows the discipline: every answer of the proxy is the answer the
    wrapped evaluator would give at that moment. -/
theorem proxy_transparent (idx : Key → Nat) (dom : List Nat) (d0 : Data) (es : List (Ev Ind Data))
    (hd : Disciplined sig ev d0 none [] es) :
    runP sig ev ⟨Cache.init idx dom, d0, 0⟩ es = runDirect ev d0 es := by
  apply proxy_transparent_from sig ev _ none [] es _ hd
  refine ⟨sane_init idx dom, ?_⟩
  intro k _ v h
  simp [Cache.find, Cache.init, Slot.fresh] at h

end proxy

/-! ### non-vacuity: the hypotheses are met by concrete, non-trivial instances -/

/-- a 4-slot table indexed by the low two bits of `d0` -/
def exIdx : Key → Nat := fun k => k.d0.toNat % 4

def exOps : List Op :=
  [.insert ⟨5, 1⟩ [10], .insert ⟨9, 1⟩ [11, 12], .clear, .insert ⟨5, 1⟩ [13], .insert ⟨6, 2⟩ [],
   .reload, .clearKey ⟨6, 2⟩]

/-- hypothesis of `find_sound` (a hit) on a history with a collision, a clear, a round trip -/
example : ((Cache.init exIdx [0, 1, 2, 3]).run exOps).find ⟨5, 1⟩ = some [13] := by decide
example : lastStore ⟨5, 1⟩ exOps.reverse = some [13] := by decide
/-- eviction is forgetting: ⟨9,1⟩ shares slot 1 with ⟨5,1⟩ -/
example : ((Cache.init exIdx [0, 1, 2, 3]).run [.insert ⟨5, 1⟩ [10], .insert ⟨9, 1⟩ [11]]).find ⟨5, 1⟩ = none := by
  decide
/-- hypotheses of `load_save_fresh` -/
example : [0, 1, 2, 3].Nodup ∧ ∀ k, exIdx k ∈ [0, 1, 2, 3] := by
  refine ⟨by decide, fun k => ?_⟩
  have : k.d0.toNat % 4 < 4 := Nat.mod_lt _ (by decide)
  simp only [exIdx, List.mem_cons, List.mem_nil_iff, or_false]; omega

/-- proxy: two individuals share a signature and a fitness, the data change and a clear follows -/
def exSig : Nat → Key := fun i => ⟨UInt64.ofNat (i % 2 + 1), 7⟩
def exEv : Nat → Nat → Fit := fun d i => if i % 2 = 1 ∧ d = 1 then [] else [UInt64.ofNat (10 * d + i % 2)]
def exEvents : List (Ev Nat Nat) :=
  [.eval 0, .eval 1, .eval 2, .eval 0, .setData 1, .clear, .eval 1, .eval 1, .reload, .eval 2, .setData 0, .setData 1, .eval 0]

example : Disciplined exSig exEv 0 none [] exEvents := by
  simp [Disciplined, exEvents, exSig, exEv, Key.empty]
example : runP exSig exEv ⟨Cache.init exIdx [0, 1, 2, 3], 0, 0⟩ exEvents = [[0], [1], [0], [0], [], [], [10], [10]] := by
  decide
/-- and a history that breaks the discipline (data change without clear) is answered wrongly:
    the hypothesis of `proxy_transparent` is needed -/
example : runP exSig exEv ⟨Cache.init exIdx [0, 1, 2, 3], 0, 0⟩ [.eval 0, .setData 1, .eval 0] = [[0], [0]]
    ∧ runDirect exEv 0 ([.eval 0, .setData 1, .eval 0] : List (Ev Nat Nat)) = [[0], [10]] := by decide

/-! ### the call sites that change the training data -/

/-- every DSS step that replaces the training set ends with `clear_evaluators()` (as modelled from
    dss.cc: init, shake at a multiple of the gap, close) -/
theorem dss_sites_clear (run gap gen : Nat) :
    (Site.dssInit run).changes = (Site.dssInit run).clears ∧
    (Site.dssShake gap gen).changes = (Site.dssShake gap gen).clears ∧
    (Site.dssClose run).changes = (Site.dssClose run).clears := ⟨rfl, rfl, rfl⟩

/-- **proxy_transparent_callsites** — the call-site obligation stated explicitly: for every history
    of validation-strategy steps, evaluations, clears and save/load round trips in which each step
    that replaces the training set is followed by a clear of the cached evaluator (or happens while
    the cache is still empty) – `CSafe` – and signatures are faithful, every answer of the proxy is
    the wrapped evaluator's answer at that moment.  Histories made of DSS steps satisfy `CSafe` by
    `dss_sites_clear`; `holdout_validation::init(0)` does not clear and is safe only on an empty cache. -/
theorem proxy_transparent_callsites {Ind Data : Type} (sig : Ind → Key) (ev : Data → Ind → Fit)
    (hne : ∀ i, (sig i).empty = false) (hf : ∀ d i j, sig i = sig j → ev d i = ev d j)
    (idx : Key → Nat) (dom : List Nat) (d0 : Data) (es : List (CEv Ind Data)) (hs : CSafe true es) :
    runP sig ev ⟨Cache.init idx dom, d0, 0⟩ (expandAll es) = runDirect ev d0 (expandAll es) :=
  proxy_transparent sig ev idx dom d0 _
    (callsites_disciplined sig ev hne hf es true d0 none [] hs (fun _ => rfl) (Or.inl rfl))

/-- a history of DSS steps with evaluations in between meets the obligation -/
example : CSafe true ([.eval 0, .site (.dssInit 0) 1, .eval 0, .eval 1, .site (.dssShake 2 1) 1, .eval 0,
    .site (.dssShake 2 2) 2, .eval 1, .reload, .site (.dssClose 0) 3, .site (.dssInit 1) 4, .eval 0] : List (CEv Nat Nat)) := by
  simp [CSafe, Site.changes, Site.clears]

/-- every step of the table that replaces the training set clears the cached evaluator (hold-out:
    since `fix: holdout_validation::init clears the cached training evaluator`) -/
theorem sites_all_clear (s : Site) : s.changes = s.clears := by
  cases s <;> rfl

/-- hence the call-site obligation holds for EVERY history of validation-strategy steps, evaluations,
    clears and round trips -/
theorem csafe_always {Ind Data : Type} (es : List (CEv Ind Data)) (fresh : Bool) : CSafe fresh es := by
  induction es generalizing fresh with
  | nil => trivial
  | cons e es ih =>
    cases e with
    | site s d => exact ⟨fun h => Or.inl (by rw [← sites_all_clear]; exact h), ih _⟩
    | eval i => exact ih _
    | clear => exact ih _
    | reload => exact ih _

/-- **proxy_transparent_callsites_all** — unconditional: no hypothesis on the history is left -/
theorem proxy_transparent_callsites_all {Ind Data : Type} (sig : Ind → Key) (ev : Data → Ind → Fit)
    (hne : ∀ i, (sig i).empty = false) (hf : ∀ d i j, sig i = sig j → ev d i = ev d j)
    (idx : Key → Nat) (dom : List Nat) (d0 : Data) (es : List (CEv Ind Data)) :
    runP sig ev ⟨Cache.init idx dom, d0, 0⟩ (expandAll es) = runDirect ev d0 (expandAll es) :=
  proxy_transparent_callsites sig ev hne hf idx dom d0 es (csafe_always es true)

/-- the history that was stale before the fix (values evaluated, or reloaded, before the first run;
    then `holdout_validation::init(0)`) is answered correctly -/
example : runP exSig exEv ⟨Cache.init exIdx [0, 1, 2, 3], 0, 0⟩
      (expandAll [.eval 0, .reload, .site (.holdoutInit 0) 1, .eval 0]) = [[0], [10]] ∧
    runDirect exEv 0 (expandAll ([.eval 0, .reload, .site (.holdoutInit 0) 1, .eval 0] : List (CEv Nat Nat)))
      = [[0], [10]] := by decide

/-! ## the generated terms

  Each `gen_…_is_model` says: the semantics (Lang.lean) of the term the translator extracted from the
  C++ body is the model's function.  The proofs only unfold the semantics and split on the tests, so
  they survive a re-ordering of independent statements or of the operands of `==` / `&&`; any change
  of what the body computes makes them fail. -/

open Lang Sites
set_option linter.unusedSimpArgs false

/-- hash_t::operator== compares both words -/
theorem gen_keyEq_is_eq (a b : Key) : gkeq a b = decide (a = b) := by
  cases a; cases b
  simp [gkeq, runKeyEq, Gen.keyEq, eval, Env.set, Env.empty]
  try grind

/-- cache::index stays inside the table (slots 0 … k_mask) -/
theorem gen_index_in_table (m : UInt64) (k : Key) : (gidx m k).toNat ∈ gdom m := by
  have h : (gidx m k).toNat ≤ m.toNat := by
    simp [gidx, runIndex, Gen.index, exec, eval, Env.set, Env.empty, UInt64.toNat_and]
    exact Nat.and_le_right
  simp only [gdom, List.mem_range]; omega

/-- cache::cache(bits), bits < 64: mask 2^bits - 1, a table of mask + 1 fresh slots, seal 1 -/
theorem gen_ctor (bits : Nat) (hb : bits < 64) :
    gctor bits = some (gInitState bits, (gInitState bits).mask.toNat + 1) := by
  have h1 : (UInt32.ofNat bits).toNat = bits := by
    simp only [UInt32.toNat_ofNat']; exact Nat.mod_eq_of_lt (by omega)
  have h2 := shl_sub_add ⟨bits, hb⟩
  simp only [gctor, runCtor, Gen.ctorMask, Gen.ctorTable, Gen.ctorSeal, eval, Env.set, Env.empty, h1, hb, if_true,
    show UInt64.ofNat 1 = 1 from rfl, show UInt32.ofNat 1 = 1 from rfl, gInitState]
  rw [show (1 <<< UInt64.ofNat bits : UInt64).toNat = _ from h2.symm]

/-- cache::find: what the caller sees is the model's lookup -/
theorem gen_find_is_model (st : CState) (k : Key) : gfind st k = some ((toCache st).lookup k) := by
  simp [gfind, runFind, Gen.find, exec, eval, Env.set, Env.empty, gcs, toCache, Cache.lookup, Cache.find, slotGet,
    gen_keyEq_is_eq]
  try grind

theorem gen_insert_is_model (st : CState) (k : Key) (v : Fit) :
    ginsert st k v = some (ofCache st.mask ((toCache st).insert k v)) := by
  simp [ginsert, runInsert, Gen.insert, exec, eval, assignTo, Env.set, Env.empty, gcs, toCache, ofCache, Cache.insert,
    slotGet, slotPut, Slot.fresh]

theorem gen_clearKey_is_model (st : CState) (k : Key) :
    gclearKey st k = some (ofCache st.mask ((toCache st).clearKey k)) := by
  simp [gclearKey, runKeyVoid, Gen.clearKey, exec, eval, assignTo, Env.set, Env.empty, gcs, toCache, ofCache,
    Cache.clearKey, slotGet, slotPut, Slot.fresh]

/-- cache::clear(), with the seal-wrap handling -/
theorem gen_clear_is_model (st : CState) : gclear st = some (ofCache st.mask (toCache st).clear) := by
  simp [gclear, runVoid, Gen.clear, exec, eval, assignTo, Env.set, Env.empty, gcs, toCache, ofCache, Cache.clear,
    slotGet, slotPut, Slot.fresh, slotAfter]
  by_cases h : st.sl + 1 = 0 <;> simp [h]

theorem gstep_is_model (st : CState) (op : Op) : gstep st op = some (ofCache st.mask ((toCache st).step op)) := by
  cases op <;> simp [gstep, Cache.step, gen_insert_is_model, gen_clear_is_model, gen_clearKey_is_model, greload]

/-- a whole history through the generated members is the model's history (and never loses its meaning) -/
theorem grun_is_model (st : CState) (ops : List Op) : grun st ops = some (ofCache st.mask ((toCache st).run ops)) := by
  induction ops generalizing st with
  | nil => simp [grun, Cache.run, ofCache, toCache]
  | cons op ops ih =>
    have h := step_idx_dom (toCache st) op
    simp only [grun, gstep_is_model, Option.bind_some, ih, ofCache_mask, Cache.run, List.foldl_cons]
    rw [toCache_ofCache st _ h.1 h.2]

/-- **find_sound_gen** — find_sound about the generated constructor / insert / clear / clear(key) /
    find (save+load as modelled): after any history a lookup returns the empty fitness or the value
    most recently stored under exactly that key since the last clear. -/
theorem find_sound_gen (bits : Nat) (ops : List Op) (k : Key) (hk : k.empty = false) :
    ∃ st, grun (gInitState bits) ops = some st ∧ ∃ v, gfind st k = some v ∧
      (v = [] ∨ lastStore k ops.reverse = some v) := by
  refine ⟨_, grun_is_model _ ops, _, gen_find_is_model _ k, ?_⟩
  rw [toCache_run, toCache_gInit]
  simp only [Cache.lookup]
  cases hf : ((Cache.init _ _).run ops).find k with
  | none => left; rfl
  | some v => right; exact find_sound _ _ ops k hk v hf

/-- **find_after_insert_gen** — in any state, generated insert then generated find returns the value -/
theorem find_after_insert_gen (st : CState) (k : Key) (v : Fit) :
    ∃ st', ginsert st k v = some st' ∧ gfind st' k = some v := by
  refine ⟨_, gen_insert_is_model st k v, ?_⟩
  rw [gen_find_is_model, toCache_ofCache st ((toCache st).insert k v) rfl rfl, lookup_after_insert]

theorem find_none_after_clear_gen (bits : Nat) (ops : List Op) (k : Key) (hk : k.empty = false) :
    ∃ st, grun (gInitState bits) (ops ++ [Op.clear]) = some st ∧ gfind st k = some [] := by
  refine ⟨_, grun_is_model _ _, ?_⟩
  rw [gen_find_is_model, toCache_run, toCache_gInit]
  simp only [Cache.lookup, find_none_after_clear _ _ ops k hk, Option.getD_none]

/-- **load_save_fresh_gen** — with the generated index and constructor the hypotheses of
    `load_save_fresh` are met: the round trip answers every lookup alike -/
theorem load_save_fresh_gen (bits : Nat) (ops : List Op) (k : Key) (hk : k.empty = false) :
    ∃ st, grun (gInitState bits) ops = some st ∧ gfind (greload st) k = gfind st k := by
  refine ⟨_, grun_is_model _ ops, ?_⟩
  have hn : (gdom (gInitState bits).mask).Nodup := List.nodup_range
  have h := load_save_fresh _ _ hn (fun k => gen_index_in_table _ k) ops k hk
  rw [gen_find_is_model, gen_find_is_model, greload, ofCache_mask, toCache_run, toCache_gInit,
    toCache_ofCache (gInitState bits) _ (by rw [reload_eq]; exact (run_idx_dom _ ops).1)
      (by rw [reload_eq]; exact (run_idx_dom _ ops).2), h]

section genproxy
variable {Ind Data : Type} (sig : Ind → Key) (ev : Data → Ind → Fit)

/-- evaluator_proxy::operator() -/
theorem gen_proxy_call_is_model (s : PSt CState Data) (i : Ind) :
    gproxyEval sig ev s i =
      some ((proxyEval sig ev (toP s) i).1, ofP s.cache.mask (proxyEval sig ev (toP s) i).2) := by
  simp only [gproxyEval, runProxyCall, Gen.proxyCall, pexec, pevalE, gworld, PKey.eval, gen_find_is_model,
    gen_insert_is_model, Option.map_some, proxyEval, toP, ofP]
  by_cases h : ((toCache s.cache).lookup (sig i)).isEmpty = true
  · simp [h, ofCache]
  · simp [h, ofCache]
    cases s with
    | mk c d n => cases c; rfl

/-- evaluator_proxy::clear() -/
theorem gen_proxy_clear_is_model (s : PSt CState Data) :
    gproxyClear s = some (ofP s.cache.mask { toP s with cache := (toP s).cache.clear }) := by
  simp [gproxyClear, runProxyClear, Gen.proxyClear, pexec, gen_clear_is_model, toP, ofP]

/-- the generated proxy, run along any history, answers exactly as the model's proxy -/
theorem gRunP_is_model (s : PSt CState Data) (es : List (Ev Ind Data)) :
    gRunP sig ev s es = some (runP sig ev (toP s) es) := by
  induction es generalizing s with
  | nil => rfl
  | cons e es ih =>
    cases e with
    | eval i =>
      have h := proxyEval_idx_dom sig ev (toP s) i
      simp only [gRunP, gpstep, gen_proxy_call_is_model, Option.map_some, ih, runP, pstep]
      rw [toP_ofP s _ h.1 h.2]
    | setData d =>
      simp only [gRunP, gpstep, ih, runP, pstep]; rfl
    | clear =>
      have h := step_idx_dom (toP s).cache Op.clear
      simp only [gRunP, gpstep, gen_proxy_clear_is_model, Option.map_some, ih, runP, pstep]
      rw [toP_ofP s _ h.1 h.2]
    | reload =>
      have h := step_idx_dom (toP s).cache Op.reload
      simp only [gRunP, gpstep, ih, runP, pstep]
      have : toP { s with cache := greload s.cache } = { toP s with cache := (toP s).cache.reload } := by
        simp only [toP, greload]
        rw [toCache_ofCache s.cache (toCache s.cache).reload h.1 h.2]
      rw [this]

/-- **proxy_transparent_gen** — proxy_transparent about the generated operator() / clear() over the
    generated cache members: under the usage discipline every answer is direct evaluation's. -/
theorem proxy_transparent_gen (bits : Nat) (d0 : Data) (es : List (Ev Ind Data))
    (hd : Disciplined sig ev d0 none [] es) :
    gRunP sig ev ⟨gInitState bits, d0, 0⟩ es = some (runDirect ev d0 es) := by
  rw [gRunP_is_model]
  exact congrArg some (proxy_transparent sig ev _ _ d0 es hd)

end genproxy

/-- the non-vacuity instance of `proxy_transparent`, through the generated terms -/
example : gRunP exSig exEv ⟨gInitState 2, 0, 0⟩ exEvents = some [[0], [1], [0], [0], [], [], [10], [10]] := by
  rw [proxy_transparent_gen exSig exEv 2 0 exEvents (by simp [Disciplined, exEvents, exSig, exEv, Key.empty])]
  decide

/-! ## the call sites, from the generated skeletons -/

/-- **strategies_clear_after_change** — each step (init / shake / close) of each class derived from
    validation_strategy keeps an up-to-date cache up to date on every path: entered with an empty
    cache it leaves it empty, entered with current values it never leaves stale ones — a change of
    the training set is followed by clear() on the training evaluator before the step returns, or
    preceded by one with no evaluation in between. -/
theorem strategies_clear_after_change :
    ∀ st ∈ Gen.strategies, stepKeepsCurrent st .init = true ∧ stepKeepsCurrent st .shake = true ∧
      stepKeepsCurrent st .close = true := by decide

/-- **search_run_checked** — the checker accepts search::run (as src_search runs it) with each strategy -/
theorem search_run_checked : ∀ st ∈ Gen.strategies, safeUnder Gen.searchRun st = true := by decide

/-- **search_run_never_stale** — no execution of search::run, with any of the strategies, evaluates
    through the training evaluator while it may hold values computed on a previous training set. -/
theorem search_run_never_stale (st : String × Eff × Eff × Eff) (hst : st ∈ Gen.strategies)
    (t : List Atom) (ht : Trace (stepOf st) Gen.searchRun t) : (runA .fresh t).isSome = true := by
  have h := search_run_checked st hst
  simp only [safeUnder] at h
  cases hp : post (sumOf st) Gen.searchRun .fresh with
  | none => simp [hp] at h
  | some r =>
    obtain ⟨r0, e0, _⟩ := post_sound (sum := sumOf st) (fun m s r h => sumOf_sound st m s r h) ht .fresh r hp .fresh
      (le_refl _)
    simp [e0]

/-- **search_run_transparent** — every answer the (generated) proxy gives during any execution of
    search::run with any strategy, whatever data the changes install and whichever individuals are
    evaluated, is the wrapped evaluator's answer at that moment (signatures faithful and non-empty). -/
theorem search_run_transparent {Ind Data : Type} (sig : Ind → Key) (ev : Data → Ind → Fit)
    (hne : ∀ i, (sig i).empty = false) (hf : ∀ d i j, sig i = sig j → ev d i = ev d j)
    (st : String × Eff × Eff × Eff) (hst : st ∈ Gen.strategies)
    (t : List Atom) (ht : Trace (stepOf st) Gen.searchRun t)
    (es : List (Ev Ind Data)) (hr : Realizes t es) (bits : Nat) (d0 : Data) :
    gRunP sig ev ⟨gInitState bits, d0, 0⟩ es = some (runDirect ev d0 es) :=
  proxy_transparent_gen sig ev bits d0 es
    (disciplined_of_runA sig ev hne hf hr .fresh d0 none [] (search_run_never_stale st hst t ht) rfl)

/-- non-vacuity: search::run has executions with changes, clears, loads and evaluations (for every
    strategy the witness trace of `pick` is a trace; for dss it is long and mixed), and every atom
    sequence is realised by some proxy history -/
example : ∀ st ∈ Gen.strategies, Trace (stepOf st) Gen.searchRun (pick (stepOf st) Gen.searchRun) := by
  intro st hst
  refine pick_trace _ ?_ _
  have : ∀ st ∈ Gen.strategies, (stepOf st .init).flat = true ∧ (stepOf st .shake).flat = true ∧
      (stepOf st .close).flat = true := by decide
  intro m; cases m
  · exact (this st hst).1
  · exact (this st hst).2.1
  · exact (this st hst).2.2
example : ∃ st ∈ Gen.strategies, st.1 = "dss" ∧
    let t := pick (stepOf st) Gen.searchRun
    Atom.change ∈ t ∧ Atom.clear ∈ t ∧ Atom.eval ∈ t ∧ Atom.load ∈ t ∧ 20 ≤ t.length := by decide
example (t : List Atom) : ∃ es : List (Ev Nat Nat), Realizes t es := realizes_exists 0 0 t

/-! ### Frame facts (session 4): one operation touches ONE slot

These are the local (single-step) facts behind `find_sound`: they hold for EVERY cache value, reachable or
not, every index function and every table size.  A change that makes `insert` / `clear(k)` write a second
slot, keep a stale seal, or that makes `find` accept a partial key match breaks the tie `gen_*_is_model`
first and these statements say which visible behaviour is then no longer guaranteed. -/

/-- an insertion that goes to another slot never changes what `find k` answers -/
theorem find_insert_frame (c : Cache) (k k' : Key) (v : Fit) (h : c.idx k' ≠ c.idx k) :
    (c.insert k' v).find k = c.find k := by
  have h' : ¬ c.idx k = c.idx k' := fun e => h e.symm
  simp [Cache.find, Cache.insert, setSlot, h']

/-- `clear(k')` of a key that lives in another slot never changes what `find k` answers -/
theorem find_clearKey_frame (c : Cache) (k k' : Key) (h : c.idx k' ≠ c.idx k) :
    (c.clearKey k').find k = c.find k := by
  have h' : ¬ c.idx k = c.idx k' := fun e => h e.symm
  simp [Cache.find, Cache.clearKey, setSlot, h']

/-- a colliding insertion (same slot, different 128-bit key) EVICTS: afterwards `find k` is a miss,
    never the foreign value -/
theorem find_insert_collision_evicts (c : Cache) (k k' : Key) (v : Fit) (hs : c.idx k' = c.idx k)
    (hne : k' ≠ k) : (c.insert k' v).find k = none := by
  have hne' : ¬ k = k' := fun e => hne e.symm
  simp [Cache.find, Cache.insert, setSlot, hs, hne']

/-- `clear(k)` of a non-empty key makes `find k` a miss at once, in every cache -/
theorem find_clearKey_self_miss (c : Cache) (k : Key) (hk : k.empty = false) : (c.clearKey k).find k = none := by
  have hz : ¬ k = Key.zero := by
    intro e; subst e; simp [Key.empty, Key.zero] at hk
  simp [Cache.find, Cache.clearKey, setSlot, hz]

/-- `clear(k')` never creates a hit: whatever `find k` answers after it, it answered before -/
theorem find_clearKey_le (c : Cache) (k k' : Key) (hk : k.empty = false) (v : Fit)
    (h : (c.clearKey k').find k = some v) : c.find k = some v := by
  by_cases hi : c.idx k' = c.idx k
  · have hz : ¬ k = Key.zero := by
      intro e; subst e; simp [Key.empty, Key.zero] at hk
    simp [Cache.find, Cache.clearKey, setSlot, hi, hz] at h
  · rw [find_clearKey_frame c k k' hi] at h; exact h

/-- storing the same pair twice is storing it once -/
theorem insert_idem (c : Cache) (k : Key) (v : Fit) : (c.insert k v).insert k v = c.insert k v := by
  simp only [Cache.insert]
  congr 1
  funext j
  simp only [setSlot]
  split <;> rfl

/-- the last store into a slot wins: a second insertion under the same key overwrites the first -/
theorem insert_overwrite (c : Cache) (k : Key) (v w : Fit) : (c.insert k v).insert k w = c.insert k w := by
  simp only [Cache.insert]
  congr 1
  funext j
  simp only [setSlot]
  split <;> rfl

/-- insertions into different slots commute (the table is a function of the SET of last stores) -/
theorem insert_comm (c : Cache) (k k' : Key) (v w : Fit) (h : c.idx k ≠ c.idx k') :
    ((c.insert k v).insert k' w).table = ((c.insert k' w).insert k v).table := by
  funext j
  simp only [Cache.insert, setSlot]
  by_cases h1 : j = c.idx k <;> by_cases h2 : j = c.idx k' <;> simp [h1, h2]
  · exact absurd (h1.symm.trans h2) h
  · intro e; exact absurd e h
  · intro e; exact absurd e.symm h

/-- the same frame facts for the code GENERATED from cache.cc: the extracted `find` after the extracted
    `insert` of a key that is sent to another slot answers what it answered before -/
theorem find_insert_frame_gen (st : CState) (k k' : Key) (v : Fit)
    (h : (toCache st).idx k' ≠ (toCache st).idx k) :
    (ginsert st k' v).bind (fun st' => gfind st' k) = gfind st k := by
  rw [gen_insert_is_model, Option.bind_some, gen_find_is_model, gen_find_is_model]
  have e : toCache (ofCache st.mask ((toCache st).insert k' v)) = (toCache st).insert k' v := by
    exact toCache_ofCache st _ rfl rfl
  rw [e]
  simp only [Cache.lookup, find_insert_frame (toCache st) k k' v h]

/-- non-vacuity: a 4-slot cache with two keys in different slots and two colliding keys -/
example : let c := Cache.init (fun k => k.d0.toNat % 4) [0, 1, 2, 3]
    ((c.insert ⟨1, 0⟩ [7]).insert ⟨2, 0⟩ [8]).find ⟨1, 0⟩ = some [7] ∧
    ((c.insert ⟨1, 0⟩ [7]).insert ⟨5, 0⟩ [9]).find ⟨1, 0⟩ = none ∧
    ((c.insert ⟨1, 0⟩ [7]).clearKey ⟨1, 0⟩).find ⟨1, 0⟩ = none := by decide

/-! ### cache::save / cache::load as GENERATED terms (session 4)

`Gen.save` / `Gen.load` are the bodies of `cache::save(std::ostream &) const` and
`cache::load(std::istream &)` as tools/translate_cache.py extracts them (statement language and semantics:
IO.lean; `hash_t::empty()` inlined from its own body).  The theorems say that their semantics is the
token-level model `saveT` / `loadT`, which `loadT_toksOf` ties to the `Saved`-level model the history
theorems above are about — so `greload`, until now the hand model's save + load, is what the extracted
code does.  The loop bodies are handled through relational step specifications (`LoadStep`, `CountStep`,
`WriteStep` of IOLemmas.lean): the scripts never quote the body text. -/

open Vita.C04.IO in
/-- cache::save never changes the cache, succeeds, and writes exactly the tokens of the model's `save`:
    the seal, the number of savable slots, then key and fitness of each savable slot in slot order.
    (A count header that disagrees with the entries, a slot of an older seal / with an empty key / an
    empty fitness written out, or a different order all break this.) -/
theorem gen_save_is_model (st : CState) : gsave st = some (true, st, saveT (toCache st)) := by
  simp only [gsave, runSave, Gen.save, iexec_seq, iexec_pure, iexec_write, iexec_forSlots, iexec_retGood, exec,
    liftOut, eval]
  generalize hF1 : iexec gcs (gdom st.mask) _ = F1
  generalize hF2 : iexec gcs (gdom st.mask) _ = F2
  have hc : CountStep st (toCache st).savable 1 2 F1 := by
    subst hF1
    intro s j n h0 hn
    rcases s with ⟨st', env, inp, out⟩
    simp only at h0 hn; subst h0
    have hs : (st'.sl = (st'.table j).sl) ↔ ((st'.table j).sl = st'.sl) := eq_comm
    by_cases h1 : (st'.table j).sl = st'.sl <;> by_cases h2 : (st'.table j).hash.d0 = 0 <;>
      by_cases h3 : (st'.table j).hash.d1 = 0 <;> cases h4 : (st'.table j).fit <;>
      simp [iexec, eval, exec, liftOut, Env.set, hn, slotGet, Cache.savable, Key.empty, toCache, hs, h1, h2, h3, h4]
  have hw : WriteStep st (toCache st).savable 3 F2 := by
    subst hF2
    intro s j h0
    rcases s with ⟨st', env, inp, out⟩
    simp only at h0; subst h0
    have hs : (st'.sl = (st'.table j).sl) ↔ ((st'.table j).sl = st'.sl) := eq_comm
    by_cases h1 : (st'.table j).sl = st'.sl <;> by_cases h2 : (st'.table j).hash.d0 = 0 <;>
      by_cases h3 : (st'.table j).hash.d1 = 0 <;> cases h4 : (st'.table j).fit <;>
      simp [iexec, eval, exec, liftOut, Env.set, slotGet, Cache.savable, Key.empty, toCache, hs, h1, h2, h3, h4]
  obtain ⟨env1, he1, hr1⟩ := overSlots_count hc (gdom st.mask)
    ⟨st, Env.empty.set 1 (Val.u64 (UInt64.ofNat 0)), [], [] ++ [Tok.u32 st.sl]⟩ (UInt64.ofNat 0) rfl (by simp [Env.set])
  simp only at hr1 he1
  simp only [hr1, he1]
  obtain ⟨env2, hr2⟩ := overSlots_write hw (gdom st.mask)
    ⟨st, env1, [], [] ++ [Tok.u32 st.sl] ++ [Tok.size (UInt64.ofNat 0 +
      UInt64.ofNat (((gdom st.mask).map st.table).filter (toCache st).savable).length)]⟩ rfl
  simp only at hr2
  simp only [hr2]
  simp [saveT, toksOf, Cache.save, toCache]

open Vita.C04.IO in
theorem gen_load_header_ok (st : CState) (sl : UInt32) (n : UInt64) (rest : List Tok) :
    gload st (.u32 sl :: .size n :: rest) = some ((loadT (toCache st) (.u32 sl :: .size n :: rest)).1,
      ofCache st.mask (loadT (toCache st) (.u32 sl :: .size n :: rest)).2) := by
  simp only [gload, runLoad, Gen.load, iexec_seq, iexec_pure, iexec_readOr, iexec_forCount, exec, liftOut, readTok]
  have e2 : (Env.empty.set 1 (Val.u32 sl)).set 2 (Val.u64 n) 2 = .u64 n := by simp [Env.set]
  simp only [e2]
  generalize hF : iexec gcs (gdom st.mask) _ = F
  have hstep : LoadStep st.mask (toCache st).idx sl 1 F := by
    subst hF; constructor
    · intro s k v rest' hm h1 hi
      rcases s with ⟨st', env, inp, out⟩
      simp only at hm h1 hi
      subst hi
      simp [iexec, exec, eval, assignTo, liftOut, loadField, Env.set, h1, slotPut, slotGet, Slot.fresh, gcs, toCache, hm]
    · intro s h1 hmiss
      rcases s with ⟨st', env, inp, out⟩
      simp only at h1 hmiss
      rcases inp with _ | ⟨a, tl⟩
      · simp [iexec, exec, eval, assignTo, liftOut, loadField, failWith, Env.set, h1, slotPut, slotGet, Slot.fresh]
      · cases a with
        | key k =>
          rcases tl with _ | ⟨b, tl⟩
          · simp [iexec, exec, eval, assignTo, liftOut, loadField, failWith, Env.set, h1, slotPut, slotGet, Slot.fresh]
          · cases b with
            | fit v => exact absurd rfl (hmiss k v tl)
            | _ => simp [iexec, exec, eval, assignTo, liftOut, loadField, failWith, Env.set, h1, slotPut, slotGet, Slot.fresh]
        | _ => simp [iexec, exec, eval, assignTo, liftOut, loadField, failWith, Env.set, h1, slotPut, slotGet, Slot.fresh]
  rcases iter_loadStep hstep n.toNat ⟨st, (Env.empty.set 1 (Val.u32 sl)).set 2 (Val.u64 n), rest, []⟩ rfl
      (by simp [Env.set]) with ⟨s', h1, h2, h3, h4, h5⟩ | ⟨s', h1, h3, h4, h5⟩
  · simp only [h1]
    simp only [toCache] at h5 h3 h4
    simp [eval, h2, assignTo, loadT, toCache, h5, ofCache, h3]
  · simp only [h1]
    simp only [toCache] at h5 h3 h4
    simp [loadT, toCache, h5, ofCache, h3, h4]
    rcases s' with ⟨⟨m', t', sl'⟩, _, _, _⟩
    simp only at h3 h4
    subst h3; subst h4; rfl

open Vita.C04.IO in
/-- cache::load on ANY token stream is the model's `loadT`: a missing / ill-kinded seal or count returns
    `false` with the cache untouched; otherwise `n` (key, fitness) pairs are stored under the seal read,
    a failed read returns `false` and leaves the slots written so far in place (and the old seal), and
    only a complete read installs the new seal. -/
theorem gen_load_is_model (st : CState) (inp : List Tok) :
    gload st inp = some ((loadT (toCache st) inp).1, ofCache st.mask (loadT (toCache st) inp).2) := by
  have hid : ofCache st.mask (toCache st) = st := rfl
  rcases inp with _ | ⟨a, tl⟩
  · simp [gload, runLoad, Gen.load, iexec, exec, liftOut, readTok, failWith, eval, loadT, hid]
  · cases a with
    | u32 sl =>
      rcases tl with _ | ⟨b, tl⟩
      · simp [gload, runLoad, Gen.load, iexec, exec, liftOut, readTok, failWith, eval, loadT, hid]
      · cases b with
        | size n => exact gen_load_header_ok st sl n tl
        | _ => simp [gload, runLoad, Gen.load, iexec, exec, liftOut, readTok, failWith, eval, loadT, hid]
    | _ => simp [gload, runLoad, Gen.load, iexec, exec, liftOut, readTok, failWith, eval, loadT, hid]

open Vita.C04.IO in
/-- **gen_reload_is_model** — what the extracted `save` writes, read by the extracted `load` into a
    freshly constructed cache of the same size, succeeds and gives exactly the `reload` of the model:
    the `.reload` step of every history theorem above (`find_sound_gen`, `load_save_fresh_gen`,
    `proxy_transparent_gen`) is now a statement about the code of save / load as well.
    (The table has fewer than 2^64 slots: true of every cache `cache(bits)` can construct.) -/
theorem gen_reload_is_model (st : CState) (h : st.mask.toNat + 1 < 2 ^ 64) :
    ((gsave st).bind fun r => gload ⟨st.mask, fun _ => Slot.fresh, 1⟩ r.2.2) = some (true, greload st) := by
  rw [gen_save_is_model, Option.bind_some, gen_load_is_model]
  have hn : (toCache st).save.n < 2 ^ 64 := by
    have : (toCache st).save.n ≤ (gdom st.mask).length := by
      simp only [Cache.save, toCache, List.length_map]
      exact Nat.le_trans (List.length_filter_le _ _) (by simp)
    simp only [gdom, List.length_range] at this
    omega
  have e : toCache ⟨st.mask, fun _ => Slot.fresh, 1⟩ = Cache.init (toCache st).idx (toCache st).dom := rfl
  simp only [saveT, e, loadT_toksOf _ _ hn, greload, Cache.reload]
  have hl := loadGo_all (toCache st).idx (toCache st).sl (toCache st).entries (fun _ => Slot.fresh)
  simp only [Cache.entries, List.length_map] at hl
  simp [Cache.load, Cache.save, Cache.init, hl, ofCache]

open Vita.C04.IO in
/-- a file cut anywhere before its end is never accepted: `load` of a proper prefix of what `save` wrote
    returns `false` (into any cache) -/
theorem gen_load_truncated_fails (st st' : CState) (h : st.mask.toNat + 1 < 2 ^ 64) (m : Nat)
    (hm : m < (saveT (toCache st)).length) :
    (gload st' ((saveT (toCache st)).take m)).map Prod.fst = some false := by
  rw [gen_load_is_model, Option.map_some]
  congr 1
  have hn : (toCache st).save.n < 2 ^ 64 := by
    have : (toCache st).save.n ≤ (gdom st.mask).length := by
      simp only [Cache.save, toCache, List.length_map]
      exact Nat.le_trans (List.length_filter_le _ _) (by simp)
    simp only [gdom, List.length_range] at this
    omega
  have hlen : (saveT (toCache st)).length = 2 + 2 * (toCache st).save.n := by
    simp only [saveT, toksOf, List.length_cons, entryToks_length, Cache.save, List.length_map]; omega
  have e : (UInt64.ofNat (toCache st).save.n).toNat = (toCache st).save.n := by
    simp only [UInt64.toNat_ofNat']; exact Nat.mod_eq_of_lt hn
  match m, hm with
  | 0, _ => rfl
  | 1, _ => rfl
  | m + 2, hm =>
    simp only [saveT, toksOf, List.take_succ_cons, loadT, e]
    cases hg : loadGoT (toCache st').idx (toCache st).save.sl (toCache st).save.n
        ((entryToks (toCache st).save.entries).take m) (toCache st').table with
    | mk b t =>
      cases b with
      | false => rfl
      | true =>
        have := loadGoT_length _ _ _ _ _ (by rw [hg])
        simp only [List.length_take, entryToks_length] at this
        omega

/-- non-vacuity: a 4-slot cache holding two entries of the current seal, one slot of an older seal and
    one with an empty fitness saves seal, count 2 and the two entries; the same tokens load back -/
example :
    let st : CState := ⟨3, fun i => if i = 0 then ⟨⟨4, 9⟩, [7], 2⟩ else if i = 1 then ⟨⟨5, 1⟩, [8], 1⟩
      else if i = 2 then ⟨⟨6, 2⟩, [], 2⟩ else if i = 3 then ⟨⟨7, 3⟩, [1, 2], 2⟩ else Slot.fresh, 2⟩
    (gsave st).map (fun r => r.2.2) = some [.u32 2, .size 2, .key ⟨4, 9⟩, .fit [7], .key ⟨7, 3⟩, .fit [1, 2]] := by
  intro st
  rw [gen_save_is_model]
  decide

/-! ### KNOWN FINDING `C04-failed-load-resurfaces-after-clear`, as theorems about the model AND the extracted code

The history theorems above (`find_sound` & co.) quantify over histories whose loads are COMPLETE
(`save` then `load` into a fresh table).  Outside that hypothesis the property fails, of the model and of the
code alike: a rejected `load` has already stored the entries it could read, under the seal of the FILE, and leaves
`seal_` alone; the next `clear()` may bring `seal_` to that seal, and a lookup then returns a value that was
stored before the clear.  Replay on the real cache: corpus/C04/failed-load-then-clear.ops. -/

open Vita.C04.IO in
/-- the witness, for every cache, key and value: a stream that announces two entries and holds one is rejected,
    and after the following `clear()` the entry it did hold answers the lookup -/
theorem failed_load_then_clear_stale (c : Cache) (k : Key) (v : Fit) (h : c.sl + 1 ≠ 0) :
    (loadT c [.u32 (c.sl + 1), .size 2, .key k, .fit v]).1 = false ∧
    (loadT c [.u32 (c.sl + 1), .size 2, .key k, .fit v]).2.clear.find k = some v := by
  have e : (2 : UInt64).toNat = 1 + 1 := rfl
  simp [loadT, e, loadGoT, Cache.clear, h, Cache.find, setSlot]

open Vita.C04.IO in
/-- the same about the EXTRACTED bodies of cache::load, cache::clear and cache::find -/
theorem gen_failed_load_then_clear_stale (st : CState) (k : Key) (v : Fit) (h : st.sl + 1 ≠ 0) :
    ∃ st1 st2, gload st [.u32 (st.sl + 1), .size 2, .key k, .fit v] = some (false, st1) ∧
      gclear st1 = some st2 ∧ gfind st2 k = some v := by
  have e : (2 : UInt64).toNat = 1 + 1 := rfl
  let st1 := ofCache st.mask (loadT (toCache st) [.u32 (st.sl + 1), .size 2, .key k, .fit v]).2
  refine ⟨st1, ofCache st1.mask (toCache st1).clear, ?_, gen_clear_is_model st1, ?_⟩
  · rw [gen_load_is_model]
    simp [st1, loadT, e, loadGoT, toCache]
  · rw [gen_find_is_model]
    simp [st1, loadT, e, loadGoT, toCache, ofCache, Cache.clear, h, Cache.lookup, Cache.find, setSlot]

end Vita.C04
