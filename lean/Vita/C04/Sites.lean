/-
  C04 — call sites: the effect skeletons tools/translate_cache.py extracts from the validation
  strategies (init / shake / close of every class derived from validation_strategy) and from
  search<T,ES>::run (as src_search runs it, evolution<T,ES>::run inlined), their traces, and a checker
  `post` with a soundness theorem, proved ONCE here.  Props.lean runs the checker on the generated
  skeletons (by `decide`) and concludes, through `Realizes` and `proxy_transparent`, that every
  evaluation made by search::run through the caching proxy equals direct evaluation.

  Atoms (what the translator emits them for is listed in tools/translate_cache.py):
    change   the training set is modified
    clear    clear() on the training evaluator
    eval     the training evaluator is called
    load     load() on the training evaluator
-/
import Vita.C04.Model
namespace Vita.C04.Sites
open Vita.C04

inductive Atom where
  | change | clear | eval | load
deriving DecidableEq, Repr

/-- the three steps of a validation strategy -/
inductive VsM where
  | init | shake | close
deriving DecidableEq, Repr

inductive Eff where
  | skip
  | atom (a : Atom)
  | callVs (m : VsM)            -- vs_->init / shake / close
  | seq (a b : Eff)
  | branch (a b : Eff)          -- either
  | loop (b : Eff)              -- any number of times
deriving Repr

/-- the atom sequences a skeleton can produce, `vs` giving the skeletons of the strategy's steps -/
inductive Trace (vs : VsM → Eff) : Eff → List Atom → Prop where
  | skip : Trace vs .skip []
  | atom (a : Atom) : Trace vs (.atom a) [a]
  | call {m : VsM} {t : List Atom} : Trace vs (vs m) t → Trace vs (.callVs m) t
  | seq {a b : Eff} {t1 t2 : List Atom} : Trace vs a t1 → Trace vs b t2 → Trace vs (.seq a b) (t1 ++ t2)
  | left {a b : Eff} {t : List Atom} : Trace vs a t → Trace vs (.branch a b) t
  | right {a b : Eff} {t : List Atom} : Trace vs b t → Trace vs (.branch a b) t
  | loopNil {b : Eff} : Trace vs (.loop b) []
  | loopCons {b : Eff} {t1 t2 : List Atom} : Trace vs b t1 → Trace vs (.loop b) t2 → Trace vs (.loop b) (t1 ++ t2)

/-! ### the discipline on atom sequences

  State of the training evaluator's cache with respect to the training set:
    fresh     nothing cached (since construction or the last clear())
    current   what is cached was computed on the present training set
    stale     the training set changed while something was cached, and no clear() since
  A change while the cache is `fresh` is harmless.  An evaluation while `stale` is the failure the
  property forbids. -/

inductive CS where
  | fresh | current | stale
deriving DecidableEq, Repr

def CS.rank : CS → Nat
  | .fresh => 0
  | .current => 1
  | .stale => 2

/-- `a ⊑ b`: the checker over-approximates upwards -/
def le (a b : CS) : Prop := a.rank ≤ b.rank

def CS.max (a b : CS) : CS := if a.rank ≤ b.rank then b else a

def stepA (s : CS) : Atom → Option CS
  | .change => some (match s with | .fresh => .fresh | _ => .stale)
  | .clear => some .fresh
  | .eval => match s with
    | .stale => none
    | _ => some .current
  | .load => some (match s with | .fresh => .current | s => s)

def runA (s : CS) : List Atom → Option CS
  | [] => some s
  | a :: t => (stepA s a).bind fun s' => runA s' t

theorem runA_append (s : CS) (t1 t2 : List Atom) :
    runA s (t1 ++ t2) = (runA s t1).bind fun s' => runA s' t2 := by
  induction t1 generalizing s with
  | nil => simp [runA]
  | cons a t ih =>
    simp only [List.cons_append, runA]
    cases stepA s a with
    | none => rfl
    | some s' => simpa using ih s'

/-! ### the checker: the highest state that may be reached; `none` = an evaluation may meet stale values -/

/-- least post-fixpoint of `f` above `s` on the three-element chain (fuel 3 is enough) -/
def iter (f : CS → Option CS) : Nat → CS → Option CS
  | 0, _ => none
  | n + 1, s =>
    match f s with
    | none => none
    | some s1 => if s1.rank ≤ s.rank then some s else iter f n s1

def post (sum : VsM → CS → Option CS) : Eff → CS → Option CS
  | .skip, s => some s
  | .atom a, s => stepA s a
  | .callVs m, s => sum m s
  | .seq a b, s => (post sum a s).bind (post sum b)
  | .branch a b, s =>
    match post sum a s, post sum b s with
    | some x, some y => some (x.max y)
    | _, _ => none
  | .loop b, s => iter (post sum b) 3 s

theorem le_refl (a : CS) : le a a := Nat.le_refl _
theorem le_trans {a b c : CS} (h1 : le a b) (h2 : le b c) : le a c := Nat.le_trans h1 h2
theorem le_max_left (a b : CS) : le a (a.max b) := by
  simp only [le, CS.max]; split <;> omega
theorem le_max_right (a b : CS) : le b (a.max b) := by
  simp only [le, CS.max]; split <;> omega

/-- what a sound summary of a callee says -/
def SoundFor (vs : VsM → Eff) (e : Eff) (s : CS) (r : CS) : Prop :=
  ∀ t, Trace vs e t → ∀ s0, le s0 s → ∃ r0, runA s0 t = some r0 ∧ le r0 r

theorem stepA_mono (a : Atom) (s r s0 : CS) (h : stepA s a = some r) (hs : le s0 s) :
    ∃ r0, stepA s0 a = some r0 ∧ le r0 r := by
  cases a <;> cases s <;> cases s0 <;> simp [stepA, le, CS.rank] at h hs ⊢ <;> subst h <;> simp

/-- the result of `iter` is a post-fixpoint above the entry state -/
theorem iter_spec (f : CS → Option CS) (n : Nat) (s r : CS) (h : iter f n s = some r) :
    le s r ∧ ∃ r', f r = some r' ∧ le r' r := by
  induction n generalizing s with
  | zero => simp [iter] at h
  | succ n ih =>
    simp only [iter] at h
    cases h1 : f s with
    | none => simp [h1] at h
    | some s1 =>
      simp only [h1] at h
      by_cases hc : s1.rank ≤ s.rank
      · simp only [hc, if_true, Option.some.injEq] at h
        subst h
        exact ⟨le_refl _, s1, h1, hc⟩
      · simp only [hc, if_false] at h
        obtain ⟨h2, h3⟩ := ih s1 h
        exact ⟨by simp only [le] at h2 ⊢; omega, h3⟩

theorem iter_fix (f : CS → Option CS) (n : Nat) (r r' : CS) (h : f r = some r') (hr : le r' r) :
    iter f (n + 1) r = some r := by
  simp only [iter, h]
  simp only [le] at hr
  simp [hr]

theorem post_loop {sum : VsM → CS → Option CS} {b : Eff} {s r : CS} (h : post sum (.loop b) s = some r) :
    le s r ∧ (∃ r', post sum b r = some r' ∧ le r' r) ∧ post sum (.loop b) r = some r := by
  simp only [post] at h
  obtain ⟨h1, r', h2, h3⟩ := iter_spec _ _ _ _ h
  exact ⟨h1, ⟨r', h2, h3⟩, by simp only [post]; exact iter_fix _ 2 r r' h2 h3⟩

/-- **post_sound** — if the checker accepts a skeleton from (abstract) state `s` with result `r`, then
    every trace of the skeleton, run from any state below `s`, never evaluates while stale and ends
    below `r`.  `sum` must be sound for the strategy steps. -/
theorem post_sound {vs : VsM → Eff} {sum : VsM → CS → Option CS}
    (hsum : ∀ m s r, sum m s = some r → SoundFor vs (vs m) s r)
    {e : Eff} {t : List Atom} (ht : Trace vs e t) :
    ∀ s r, post sum e s = some r → ∀ s0, le s0 s → ∃ r0, runA s0 t = some r0 ∧ le r0 r := by
  induction ht with
  | skip =>
    intro s r h s0 hs
    simp only [post, Option.some.injEq] at h
    exact ⟨s0, rfl, h ▸ hs⟩
  | atom a =>
    intro s r h s0 hs
    simp only [post] at h
    obtain ⟨r0, h1, h2⟩ := stepA_mono a s r s0 h hs
    exact ⟨r0, by simp [runA, h1], h2⟩
  | call htr _ =>
    intro s r h s0 hs
    simp only [post] at h
    exact hsum _ s r h _ htr s0 hs
  | @seq a b t1 t2 _ _ ih1 ih2 =>
    intro s r h s0 hs
    simp only [post] at h
    cases h1 : post sum a s with
    | none => simp [h1] at h
    | some x =>
      simp only [h1, Option.bind_some] at h
      obtain ⟨r1, e1, l1⟩ := ih1 s x h1 s0 hs
      obtain ⟨r2, e2, l2⟩ := ih2 x r h r1 l1
      exact ⟨r2, by simp [runA_append, e1, e2], l2⟩
  | left _ ih =>
    intro s r h s0 hs
    simp only [post] at h
    split at h
    · rename_i x y hx hy
      simp only [Option.some.injEq] at h
      obtain ⟨r0, e0, l0⟩ := ih s x hx s0 hs
      exact ⟨r0, e0, h ▸ le_trans l0 (le_max_left x y)⟩
    · cases h
  | right _ ih =>
    intro s r h s0 hs
    simp only [post] at h
    split at h
    · rename_i x y hx hy
      simp only [Option.some.injEq] at h
      obtain ⟨r0, e0, l0⟩ := ih s y hy s0 hs
      exact ⟨r0, e0, h ▸ le_trans l0 (le_max_right x y)⟩
    · cases h
  | loopNil =>
    intro s r h s0 hs
    exact ⟨s0, rfl, le_trans hs (post_loop h).1⟩
  | loopCons _ _ ih1 ih2 =>
    intro s r h s0 hs
    obtain ⟨hsr, ⟨r', hb, hr'⟩, hl⟩ := post_loop h
    obtain ⟨r1, e1, l1⟩ := ih1 r r' hb s0 (le_trans hs hsr)
    obtain ⟨r2, e2, l2⟩ := ih2 r r hl r1 (le_trans l1 hr')
    exact ⟨r2, by simp [runA_append, e1, e2], l2⟩

/-- a summary that accepts nothing (for skeletons that must not call the strategy themselves) -/
def noCalls : VsM → CS → Option CS := fun _ _ => none

theorem post_sound_flat {vs : VsM → Eff} {e : Eff} {s r : CS} (h : post noCalls e s = some r) :
    SoundFor vs e s r := by
  intro t ht s0 hs
  exact post_sound (sum := noCalls) (fun m s r h => by simp [noCalls] at h) ht s r h s0 hs

/-! ### from atom sequences to proxy events -/

section realize
variable {Ind Data : Type}

/-- the proxy-level histories an atom sequence stands for: each change may install any data, each
    evaluation may be of any individual -/
inductive Realizes : List Atom → List (Ev Ind Data) → Prop where
  | nil : Realizes [] []
  | change {t es} (d : Data) : Realizes t es → Realizes (.change :: t) (.setData d :: es)
  | clear {t es} : Realizes t es → Realizes (.clear :: t) (.clear :: es)
  | eval {t es} (i : Ind) : Realizes t es → Realizes (.eval :: t) (.eval i :: es)
  | load {t es} : Realizes t es → Realizes (.load :: t) (.reload :: es)

/-- what a state says about `last` (the data version the cached values of this epoch were computed on) -/
def Agrees (s : CS) (d : Data) (last : Option Data) : Prop :=
  match s with
  | .fresh => last = none
  | .current => last = none ∨ last = some d
  | .stale => True

/-- a trace that never evaluates while stale is, however realised, a disciplined history -/
theorem disciplined_of_runA (sig : Ind → Key) (ev : Data → Ind → Fit)
    (hne : ∀ i, (sig i).empty = false) (hf : ∀ d i j, sig i = sig j → ev d i = ev d j)
    {t : List Atom} {es : List (Ev Ind Data)} (hr : Realizes t es) :
    ∀ (s : CS) (d : Data) (last : Option Data) (seen : List Ind),
      (runA s t).isSome → Agrees s d last → Disciplined sig ev d last seen es := by
  induction hr with
  | nil => intro s d last seen _ _; trivial
  | change d' _ ih =>
    intro s d last seen h hinv
    simp only [runA, stepA, Option.bind_some] at h
    simp only [Disciplined]
    cases s with
    | fresh => exact ih .fresh d' last seen h hinv
    | current => exact ih .stale d' last seen h trivial
    | stale => exact ih .stale d' last seen h trivial
  | clear _ ih =>
    intro s d last seen h _
    simp only [runA, stepA, Option.bind_some] at h
    simp only [Disciplined]
    exact ih .fresh d none [] h rfl
  | eval i _ ih =>
    intro s d last seen h hinv
    cases s with
    | stale => simp [runA, stepA] at h
    | fresh =>
      simp only [runA, stepA, Option.bind_some] at h
      simp only [Disciplined]
      exact ⟨Or.inl hinv, hne i, fun j _ hj => hf d j i hj, ih .current d (some d) (i :: seen) h (Or.inr rfl)⟩
    | current =>
      simp only [runA, stepA, Option.bind_some] at h
      simp only [Disciplined]
      exact ⟨hinv, hne i, fun j _ hj => hf d j i hj, ih .current d (some d) (i :: seen) h (Or.inr rfl)⟩
  | load _ ih =>
    intro s d last seen h hinv
    simp only [runA, stepA, Option.bind_some] at h
    simp only [Disciplined]
    cases s with
    | fresh => exact ih .current d last seen h (Or.inl hinv)
    | current => exact ih .current d last seen h hinv
    | stale => exact ih .stale d last seen h trivial

end realize

/-! ### reading the generated table -/

/-- the skeleton of a step of a strategy entry `(name, init, shake, close)` -/
def stepOf (st : String × Eff × Eff × Eff) : VsM → Eff
  | .init => st.2.1
  | .shake => st.2.2.1
  | .close => st.2.2.2

/-- the summary of a strategy: its steps checked on their own (they must not call the strategy) -/
def sumOf (st : String × Eff × Eff × Eff) : VsM → CS → Option CS :=
  fun m s => post noCalls (stepOf st m) s

theorem sumOf_sound (st : String × Eff × Eff × Eff) (m : VsM) (s r : CS) (h : sumOf st m s = some r) :
    SoundFor (stepOf st) (stepOf st m) s r :=
  post_sound_flat h

/-- does a skeleton mention a given atom at all? -/
def Eff.mentions (a : Atom) : Eff → Bool
  | .skip => false
  | .atom b => a == b
  | .callVs _ => false
  | .seq x y | .branch x y => x.mentions a || y.mentions a
  | .loop x => x.mentions a

/-! ### a witness trace (non-vacuity of the statements about `Trace`) -/

def Eff.flat : Eff → Bool
  | .skip | .atom _ => true
  | .callVs _ => false
  | .seq x y | .branch x y => x.flat && y.flat
  | .loop x => x.flat

/-- one trace of a skeleton without strategy calls: the longer branch, every loop once -/
def pick0 : Eff → List Atom
  | .skip => []
  | .atom a => [a]
  | .callVs _ => []
  | .seq a b => pick0 a ++ pick0 b
  | .branch a b => if (pick0 b).length ≤ (pick0 a).length then pick0 a else pick0 b
  | .loop b => pick0 b

/-- … and of a driver skeleton, the strategy steps expanded -/
def pick (vs : VsM → Eff) : Eff → List Atom
  | .skip => []
  | .atom a => [a]
  | .callVs m => pick0 (vs m)
  | .seq a b => pick vs a ++ pick vs b
  | .branch a b => if (pick vs b).length ≤ (pick vs a).length then pick vs a else pick vs b
  | .loop b => pick vs b

theorem pick0_trace (vs : VsM → Eff) (e : Eff) (h : e.flat = true) : Trace vs e (pick0 e) := by
  induction e with
  | skip => exact .skip
  | atom a => exact .atom a
  | callVs m => simp [Eff.flat] at h
  | seq a b iha ihb =>
    simp only [Eff.flat, Bool.and_eq_true] at h
    exact .seq (iha h.1) (ihb h.2)
  | branch a b iha ihb =>
    simp only [Eff.flat, Bool.and_eq_true] at h
    simp only [pick0]
    split
    · exact .left (iha h.1)
    · exact .right (ihb h.2)
  | loop b ih =>
    simp only [Eff.flat] at h
    have := Trace.loopCons (ih h) (Trace.loopNil (vs := vs) (b := b))
    simpa [pick0] using this

theorem pick_trace (vs : VsM → Eff) (hflat : ∀ m, (vs m).flat = true) (e : Eff) : Trace vs e (pick vs e) := by
  induction e with
  | skip => exact .skip
  | atom a => exact .atom a
  | callVs m => exact .call (pick0_trace vs (vs m) (hflat m))
  | seq a b iha ihb => exact .seq iha ihb
  | branch a b iha ihb =>
    simp only [pick]
    split
    · exact .left iha
    · exact .right ihb
  | loop b ih =>
    have := Trace.loopCons ih (Trace.loopNil (vs := vs) (b := b))
    simpa [pick] using this

theorem realizes_exists {Ind Data : Type} (i : Ind) (d : Data) (t : List Atom) :
    ∃ es : List (Ev Ind Data), Realizes t es := by
  induction t with
  | nil => exact ⟨[], .nil⟩
  | cons a t ih =>
    obtain ⟨es, h⟩ := ih
    cases a
    · exact ⟨_, .change d h⟩
    · exact ⟨_, .clear h⟩
    · exact ⟨_, .eval i h⟩
    · exact ⟨_, .load h⟩

/-- the whole check of one strategy under a driver skeleton: from a fresh cache no evaluation can meet
    stale values (whatever state the run ends in) -/
def safeUnder (run : Eff) (st : String × Eff × Eff × Eff) : Bool :=
  (post (sumOf st) run .fresh).isSome

/-- a strategy step keeps an up-to-date cache up to date: entered `fresh` it ends `fresh`, entered
    `current` it does not end `stale` -/
def stepKeepsCurrent (st : String × Eff × Eff × Eff) (m : VsM) : Bool :=
  sumOf st m .fresh == some .fresh &&
    (sumOf st m .current == some .fresh || sumOf st m .current == some .current)

end Vita.C04.Sites
