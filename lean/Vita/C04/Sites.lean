/-
  C04 — call sites: the effect skeletons tools/translate_cache.py extracts from the validation
  strategies (init / shake / close of every class derived from validation_strategy) and from
  search<T,ES>::run (as src_search runs it, evolution<T,ES>::run inlined), their traces, and a checker
  `post` with a soundness theorem, proved ONCE here.  Props.lean runs the checker on the generated
  skeletons (by `decide`) and concludes, through `Realizes` and `proxy_transparent`, that every
  evaluation made by search::run through the caching proxy equals direct evaluation.

  Atoms (what the translator emits them for is listed in tools/translate_cache.py):
    change   the training set may be modified
    clear    clear() on the training evaluator
    eval     the training evaluator is called
    load     load() on the training evaluator
-/
import Vita.C04.Model
namespace Vita.C04.Sites
open Vita.C04

inductive Atom where
  | change | clear | eval | load
deriving DecidableEq, Repr

/-- the three steps of a validation strategy -/
inductive VsM where
  | init | shake | close
deriving DecidableEq, Repr

inductive Eff where
  | skip
  | atom (a : Atom)
  | callVs (m : VsM)            -- vs_->init / shake / close
  | seq (a b : Eff)
  | branch (a b : Eff)          -- either
  | loop (b : Eff)              -- any number of times
deriving Repr

/-- the atom sequences a skeleton can produce, `vs` giving the skeletons of the strategy's steps -/
inductive Trace (vs : VsM → Eff) : Eff → List Atom → Prop where
  | skip : Trace vs .skip []
  | atom (a : Atom) : Trace vs (.atom a) [a]
  | call {m : VsM} {t : List Atom} : Trace vs (vs m) t → Trace vs (.callVs m) t
  | seq {a b : Eff} {t1 t2 : List Atom} : Trace vs a t1 → Trace vs b t2 → Trace vs (.seq a b) (t1 ++ t2)
  | left {a b : Eff} {t : List Atom} : Trace vs a t → Trace vs (.branch a b) t
  | right {a b : Eff} {t : List Atom} : Trace vs b t → Trace vs (.branch a b) t
  | loopNil {b : Eff} : Trace vs (.loop b) []
  | loopCons {b : Eff} {t1 t2 : List Atom} : Trace vs b t1 → Trace vs (.loop b) t2 → Trace vs (.loop b) (t1 ++ t2)

/-! ### the discipline on atom sequences

  State: `stale` — the training set changed and the training evaluator has not been cleared since.
  (Conservative: a change counts even while the cache is still empty.)  An evaluation while stale is
  the failure the property forbids. -/

def stepA (s : Bool) : Atom → Option Bool
  | .change => some true
  | .clear => some false
  | .eval => if s then none else some false
  | .load => some s

def runA (s : Bool) : List Atom → Option Bool
  | [] => some s
  | a :: t => (stepA s a).bind fun s' => runA s' t

theorem runA_append (s : Bool) (t1 t2 : List Atom) :
    runA s (t1 ++ t2) = (runA s t1).bind fun s' => runA s' t2 := by
  induction t1 generalizing s with
  | nil => simp [runA]
  | cons a t ih =>
    simp only [List.cons_append, runA]
    cases stepA s a with
    | none => rfl
    | some s' => simpa using ih s'

/-! ### the checker: "may be stale" as an over-approximation (`false` ⊑ `true`), `none` = an evaluation
    may meet stale values -/

def post (sum : VsM → Bool → Option Bool) : Eff → Bool → Option Bool
  | .skip, s => some s
  | .atom a, s => stepA s a
  | .callVs m, s => sum m s
  | .seq a b, s => (post sum a s).bind (post sum b)
  | .branch a b, s =>
    match post sum a s, post sum b s with
    | some x, some y => some (x || y)
    | _, _ => none
  | .loop b, s =>
    match post sum b s with
    | none => none
    | some s1 =>
      if s1 = false ∨ s = true then some s
      else match post sum b true with
        | some _ => some true
        | none => none

/-- `a ⊑ b` on staleness -/
def le (a b : Bool) : Prop := a = true → b = true

theorem le_refl (a : Bool) : le a a := fun h => h
theorem le_true (a : Bool) : le a true := fun _ => rfl
theorem le_trans {a b c : Bool} (h1 : le a b) (h2 : le b c) : le a c := fun h => h2 (h1 h)

/-- what a sound summary of a callee says -/
def SoundFor (vs : VsM → Eff) (e : Eff) (s : Bool) (r : Bool) : Prop :=
  ∀ t, Trace vs e t → ∀ s0, le s0 s → ∃ r0, runA s0 t = some r0 ∧ le r0 r

theorem stepA_mono (a : Atom) (s r s0 : Bool) (h : stepA s a = some r) (hs : le s0 s) :
    ∃ r0, stepA s0 a = some r0 ∧ le r0 r := by
  cases a <;> simp only [stepA] at h ⊢
  · exact ⟨true, rfl, by cases h; exact le_refl _⟩
  · exact ⟨false, rfl, by cases h; exact le_refl _⟩
  · cases s with
    | true => simp at h
    | false =>
      have : s0 = false := by cases s0 with
        | false => rfl
        | true => exact absurd (hs rfl) (by simp)
      subst this
      exact ⟨false, by simp, by simp at h; subst h; exact le_refl _⟩
  · exact ⟨s0, rfl, by cases h; exact hs⟩

/-- facts about the result of the checker on a loop: it is a post-fixpoint above the entry state -/
theorem post_loop {sum : VsM → Bool → Option Bool} {b : Eff} {s r : Bool} (h : post sum (.loop b) s = some r) :
    le s r ∧ (∃ r', post sum b r = some r' ∧ le r' r) ∧ post sum (.loop b) r = some r := by
  simp only [post] at h
  cases h1 : post sum b s with
  | none => simp [h1] at h
  | some s1 =>
    simp only [h1] at h
    by_cases hc : s1 = false ∨ s = true
    · simp only [hc, if_true, Option.some.injEq] at h
      subst h
      refine ⟨le_refl _, ⟨s1, h1, ?_⟩, ?_⟩
      · rcases hc with h2 | h2
        · subst h2; intro h3; cases h3
        · subst h2; exact le_true _
      · simp only [post, h1, hc, if_true]
    · simp only [hc, if_false] at h
      cases h2 : post sum b true with
      | none => simp [h2] at h
      | some x =>
        simp only [h2, Option.some.injEq] at h
        subst h
        refine ⟨le_true _, ⟨x, h2, le_true _⟩, ?_⟩
        simp [post, h2]

/-- **post_sound** — if the checker accepts a skeleton from (abstract) staleness `s` with result `r`,
    then every trace of the skeleton, run from any state below `s`, never evaluates while stale and
    ends below `r`.  `sum` must be sound for the strategy steps. -/
theorem post_sound {vs : VsM → Eff} {sum : VsM → Bool → Option Bool}
    (hsum : ∀ m s r, sum m s = some r → SoundFor vs (vs m) s r)
    {e : Eff} {t : List Atom} (ht : Trace vs e t) :
    ∀ s r, post sum e s = some r → ∀ s0, le s0 s → ∃ r0, runA s0 t = some r0 ∧ le r0 r := by
  induction ht with
  | skip =>
    intro s r h s0 hs
    simp only [post, Option.some.injEq] at h
    exact ⟨s0, rfl, h ▸ hs⟩
  | atom a =>
    intro s r h s0 hs
    simp only [post] at h
    obtain ⟨r0, h1, h2⟩ := stepA_mono a s r s0 h hs
    exact ⟨r0, by simp [runA, h1], h2⟩
  | call htr _ =>
    intro s r h s0 hs
    simp only [post] at h
    exact hsum _ s r h _ htr s0 hs
  | @seq a b t1 t2 _ _ ih1 ih2 =>
    intro s r h s0 hs
    simp only [post] at h
    cases h1 : post sum a s with
    | none => simp [h1] at h
    | some x =>
      simp only [h1, Option.bind_some] at h
      obtain ⟨r1, e1, l1⟩ := ih1 s x h1 s0 hs
      obtain ⟨r2, e2, l2⟩ := ih2 x r h r1 l1
      exact ⟨r2, by simp [runA_append, e1, e2], l2⟩
  | left _ ih =>
    intro s r h s0 hs
    simp only [post] at h
    split at h
    · rename_i x y hx hy
      simp only [Option.some.injEq] at h
      obtain ⟨r0, e0, l0⟩ := ih s x hx s0 hs
      exact ⟨r0, e0, fun h3 => by rw [← h, l0 h3]; rfl⟩
    · cases h
  | right _ ih =>
    intro s r h s0 hs
    simp only [post] at h
    split at h
    · rename_i x y hx hy
      simp only [Option.some.injEq] at h
      obtain ⟨r0, e0, l0⟩ := ih s y hy s0 hs
      exact ⟨r0, e0, fun h3 => by rw [← h, l0 h3]; simp⟩
    · cases h
  | loopNil =>
    intro s r h s0 hs
    exact ⟨s0, rfl, le_trans hs (post_loop h).1⟩
  | loopCons _ _ ih1 ih2 =>
    intro s r h s0 hs
    obtain ⟨hsr, ⟨r', hb, hr'⟩, hl⟩ := post_loop h
    obtain ⟨r1, e1, l1⟩ := ih1 r r' hb s0 (le_trans hs hsr)
    obtain ⟨r2, e2, l2⟩ := ih2 r r hl r1 (le_trans l1 hr')
    exact ⟨r2, by simp [runA_append, e1, e2], l2⟩

/-- a summary that accepts nothing (for skeletons that must not call the strategy themselves) -/
def noCalls : VsM → Bool → Option Bool := fun _ _ => none

theorem post_sound_flat {vs : VsM → Eff} {e : Eff} {s r : Bool} (h : post noCalls e s = some r) :
    SoundFor vs e s r := by
  intro t ht s0 hs
  exact post_sound (sum := noCalls) (fun m s r h => by simp [noCalls] at h) ht s r h s0 hs

/-! ### from atom sequences to proxy events -/

section realize
variable {Ind Data : Type}

/-- the proxy-level histories an atom sequence stands for: each change may install any data, each
    evaluation may be of any individual -/
inductive Realizes : List Atom → List (Ev Ind Data) → Prop where
  | nil : Realizes [] []
  | change {t es} (d : Data) : Realizes t es → Realizes (.change :: t) (.setData d :: es)
  | clear {t es} : Realizes t es → Realizes (.clear :: t) (.clear :: es)
  | eval {t es} (i : Ind) : Realizes t es → Realizes (.eval :: t) (.eval i :: es)
  | load {t es} : Realizes t es → Realizes (.load :: t) (.reload :: es)

/-- a trace that never evaluates while stale is, however realised, a disciplined history -/
theorem disciplined_of_runA (sig : Ind → Key) (ev : Data → Ind → Fit)
    (hne : ∀ i, (sig i).empty = false) (hf : ∀ d i j, sig i = sig j → ev d i = ev d j)
    {t : List Atom} {es : List (Ev Ind Data)} (hr : Realizes t es) :
    ∀ (s : Bool) (d : Data) (last : Option Data) (seen : List Ind),
      (runA s t).isSome → (s = false → last = none ∨ last = some d) → Disciplined sig ev d last seen es := by
  induction hr with
  | nil => intro s d last seen _ _; trivial
  | change d' _ ih =>
    intro s d last seen h _
    simp only [runA, stepA, Option.bind_some] at h
    simp only [Disciplined]
    exact ih true d' last seen h (fun h => by cases h)
  | clear _ ih =>
    intro s d last seen h _
    simp only [runA, stepA, Option.bind_some] at h
    simp only [Disciplined]
    exact ih false d none [] h (fun _ => Or.inl rfl)
  | eval i _ ih =>
    intro s d last seen h hinv
    cases s with
    | true => simp [runA, stepA] at h
    | false =>
      simp only [runA, stepA, Bool.false_eq_true, if_false, Option.bind_some] at h
      simp only [Disciplined]
      exact ⟨hinv rfl, hne i, fun j _ hj => hf d j i hj, ih false d (some d) (i :: seen) h (fun _ => Or.inr rfl)⟩
  | load _ ih =>
    intro s d last seen h hinv
    simp only [runA, stepA, Option.bind_some] at h
    simp only [Disciplined]
    exact ih s d last seen h hinv

end realize

/-! ### reading the generated table -/

/-- the skeleton of a step of a strategy entry `(name, init, shake, close)` -/
def stepOf (st : String × Eff × Eff × Eff) : VsM → Eff
  | .init => st.2.1
  | .shake => st.2.2.1
  | .close => st.2.2.2

/-- the summary of a strategy: its steps checked on their own (they must not call the strategy) -/
def sumOf (st : String × Eff × Eff × Eff) : VsM → Bool → Option Bool :=
  fun m s => post noCalls (stepOf st m) s

theorem sumOf_sound (st : String × Eff × Eff × Eff) (m : VsM) (s r : Bool) (h : sumOf st m s = some r) :
    SoundFor (stepOf st) (stepOf st m) s r :=
  post_sound_flat h

/-- does a skeleton mention a given atom at all? -/
def Eff.mentions (a : Atom) : Eff → Bool
  | .skip => false
  | .atom b => a == b
  | .callVs _ => false
  | .seq x y | .branch x y => x.mentions a || y.mentions a
  | .loop x => x.mentions a

/-! ### a witness trace (non-vacuity of the statements about `Trace`) -/

def Eff.flat : Eff → Bool
  | .skip | .atom _ => true
  | .callVs _ => false
  | .seq x y | .branch x y => x.flat && y.flat
  | .loop x => x.flat

/-- one trace of a skeleton without strategy calls: the longer branch, every loop once -/
def pick0 : Eff → List Atom
  | .skip => []
  | .atom a => [a]
  | .callVs _ => []
  | .seq a b => pick0 a ++ pick0 b
  | .branch a b => if (pick0 b).length ≤ (pick0 a).length then pick0 a else pick0 b
  | .loop b => pick0 b

/-- … and of a driver skeleton, the strategy steps expanded -/
def pick (vs : VsM → Eff) : Eff → List Atom
  | .skip => []
  | .atom a => [a]
  | .callVs m => pick0 (vs m)
  | .seq a b => pick vs a ++ pick vs b
  | .branch a b => if (pick vs b).length ≤ (pick vs a).length then pick vs a else pick vs b
  | .loop b => pick vs b

theorem pick0_trace (vs : VsM → Eff) (e : Eff) (h : e.flat = true) : Trace vs e (pick0 e) := by
  induction e with
  | skip => exact .skip
  | atom a => exact .atom a
  | callVs m => simp [Eff.flat] at h
  | seq a b iha ihb =>
    simp only [Eff.flat, Bool.and_eq_true] at h
    exact .seq (iha h.1) (ihb h.2)
  | branch a b iha ihb =>
    simp only [Eff.flat, Bool.and_eq_true] at h
    simp only [pick0]
    split
    · exact .left (iha h.1)
    · exact .right (ihb h.2)
  | loop b ih =>
    simp only [Eff.flat] at h
    have := Trace.loopCons (ih h) (Trace.loopNil (vs := vs) (b := b))
    simpa [pick0] using this

theorem pick_trace (vs : VsM → Eff) (hflat : ∀ m, (vs m).flat = true) (e : Eff) : Trace vs e (pick vs e) := by
  induction e with
  | skip => exact .skip
  | atom a => exact .atom a
  | callVs m => exact .call (pick0_trace vs (vs m) (hflat m))
  | seq a b iha ihb => exact .seq iha ihb
  | branch a b iha ihb =>
    simp only [pick]
    split
    · exact .left iha
    · exact .right ihb
  | loop b ih =>
    have := Trace.loopCons ih (Trace.loopNil (vs := vs) (b := b))
    simpa [pick] using this

theorem realizes_exists {Ind Data : Type} (i : Ind) (d : Data) (t : List Atom) :
    ∃ es : List (Ev Ind Data), Realizes t es := by
  induction t with
  | nil => exact ⟨[], .nil⟩
  | cons a t ih =>
    obtain ⟨es, h⟩ := ih
    cases a
    · exact ⟨_, .change d h⟩
    · exact ⟨_, .clear h⟩
    · exact ⟨_, .eval i h⟩
    · exact ⟨_, .load h⟩

/-- the whole check of one strategy under a driver skeleton -/
def safeUnder (run : Eff) (st : String × Eff × Eff × Eff) : Bool :=
  post (sumOf st) run false == some false

end Vita.C04.Sites
