/-
  C05 — the classification evaluators END TO END: from the outputs of the program(s) on the
  training examples to the fitness and the difficulty counters.

  `dyn_slot_evaluator`, `gaussian_evaluator` and `binary_evaluator` build a classifier from the
  program and the very dataset they then score (src/kernel/gp/src/evaluator.tcc,
  lambda_f.tcc: `fill_matrix` / `slot` / `tag`, `fill_vector` / `tag`, `tag`;
  src/kernel/distribution.tcc: `add` / `update_variance` / `variance`;
  team_class_lambda_f::tag, winner-takes-all).  Model.lean takes the classifier's answers as
  inputs (`CEx`); here they are COMPUTED from `out : Option F` (what the interpreter yields for
  a member program on an example, `none` = no value), so that the fitness is a function of
  (program outputs, labels) – the documented rule.

  Number type generic (`NumC` = `Num` + the few extra operations); `std::exp` and the
  discretization of utility/discretization.h are fields, so every theorem holds for every such
  function; the driver plugs in libm's.
-/
import Vita.C05.Model

namespace Vita.C05
open Num

/-- `Num` plus what the classifiers need -/
class NumC (F : Type) extends Num F where
  /-- `static_cast<double>(std::size_t / unsigned)` -/
  ofNat : Nat → F
  /-- `0.5` (confidence of an empty slot) -/
  half : F
  /-- `std::exp` -/
  exp : F → F
  /-- `std::isnan` -/
  isNaN : F → Bool
  /-- `10000000.0`, the cut of `fill_vector` -/
  cut : F
  /-- `discretization(value, last_slot)` of utility/discretization.h -/
  disc : F → Nat → Nat

open NumC

namespace Cls
variable {F : Type}

/-- `has_value(res) ? lexical_cast<D_DOUBLE>(res) : 0.0` -/
def valOr0 [Num F] (out : Option F) : F :=
  match out with
  | some v => v
  | none => zero

/-! ### Slotted Dynamic Class Boundary Determination (`basic_dyn_slot_lambda_f`) -/

/-- `slot()` : the last slot when there is no value, else the discretization clamped to the table -/
def slot [NumC F] (out : Option F) (ns : Nat) : Nat :=
  let last := ns - 1
  match out with
  | none => last
  | some v =>
    let w := disc v last
    if w ≥ ns then last else w

/-- `++slot_matrix_(r, c)` -/
def incr (m : List (List Nat)) (r c : Nat) : List (List Nat) :=
  m.modify r (fun row => row.modify c (· + 1))

/-- `best = 0; for j in 1..cols: if (row[j] >= row[best]) best = j` -/
def bestClass (row : List Nat) : Nat :=
  (List.range row.length).foldl (fun b j => if 1 ≤ j ∧ row.getD j 0 ≥ row.getD b 0 then j else b) 0

def nextOr0 (unknown : Nat) : List Nat → Nat
  | y :: _ => if y ≠ unknown then y else 0
  | [] => 0

/-- value of an unknown slot: the (already repaired) left neighbour when known, else the right
    neighbour when known, else class 0 -/
def repairVal (unknown : Nat) (prev : Option Nat) (rest : List Nat) : Nat :=
  match prev with
  | some p => if p ≠ unknown then p else nextOr0 unknown rest
  | none => nextOr0 unknown rest

/-- third step of `fill_matrix` (one left-to-right pass) -/
def repair (unknown : Nat) : Option Nat → List Nat → List Nat
  | _, [] => []
  | prev, x :: rest =>
    if x ≠ unknown then x :: repair unknown (some x) rest
    else repairVal unknown prev rest :: repair unknown (some (repairVal unknown prev rest)) rest

structure DynSlot where
  /-- `slot_matrix_` : `classes * x_slot` rows of `classes` counters -/
  mat : List (List Nat)
  /-- `slot_class_` -/
  cls : List Nat
deriving Repr

/-- constructor + `fill_matrix(d, x_slot)`; `train` = (program output, label) per example -/
def fillMatrix [NumC F] (classes xslot : Nat) (train : List (Option F × Nat)) : DynSlot :=
  let ns := classes * xslot
  let mat0 := List.replicate ns (List.replicate classes 0)
  let mat := train.foldl (fun m e => incr m (slot e.1 ns) e.2) mat0
  let cls1 := mat.map (fun row => let b := bestClass row; if row.getD b 0 ≠ 0 then b else classes)
  ⟨mat, repair classes none cls1⟩

/-- `!total ? 0.5 : double(ok) / total` -/
def confOfRow [NumC F] (row : List Nat) (c : Nat) : F :=
  let total := row.sum
  if total = 0 then half else div (ofNat (row.getD c 0)) (ofNat total)

/-- `basic_dyn_slot_lambda_f::tag` -/
def dynTag [NumC F] (m : DynSlot) (out : Option F) : Nat × F :=
  let s := slot out m.mat.length
  let c := m.cls.getD s 0
  (c, confOfRow (m.mat.getD s []) c)

/-! ### Gaussian classifier (`basic_gaussian_lambda_f`, `distribution<double>`) -/

/-- what `mean()` / `variance()` read of a `distribution<double>` -/
structure Dist (F : Type) where
  count : Nat
  mean : F
  m2 : F
deriving Repr

/-- a default-constructed distribution -/
def Dist.empty [Num F] : Dist F := ⟨0, zero, zero⟩

/-- `distribution::add` (NaN ignored; the first value initialises `mean_`) + `update_variance`
    (Knuth / Welford) -/
def Dist.push [NumC F] (d : Dist F) (v : F) : Dist F :=
  if isNaN v then d
  else
    let mean0 := if d.count = 0 then v else d.mean
    let c := d.count + 1
    let delta := sub v mean0
    let mean' := add mean0 (div delta (ofNat c))
    let t := mul delta (sub v mean')
    ⟨c, mean', if c > 1 then add d.m2 t else t⟩

/-- `variance()` : `m2_ / double(count())` -/
def Dist.variance [NumC F] (d : Dist F) : F := div d.m2 (ofNat d.count)

/-- the value `fill_vector` feeds to the distribution of the example's class:
    `0.0` when the program has no value, cut to `±10000000.0` -/
def cutVal [NumC F] (out : Option F) : F :=
  let val := valOr0 out
  if lt (cut : F) val then cut
  else if lt val (neg (cut : F)) then neg cut
  else val

/-- constructor + `fill_vector(d)` -/
def fillVector [NumC F] (classes : Nat) (train : List (Option F × Nat)) : List (Dist F) :=
  train.foldl (fun ds e => ds.modify e.2 (fun d => d.push (cutVal e.1)))
    (List.replicate classes Dist.empty)

/-- the score of one class for the (unclamped) output `x` -/
def gaussP [NumC F] (x : F) (d : Dist F) : F :=
  let distance := abs (sub x d.mean)
  let variance := d.variance
  if issmall variance then (if issmall distance then one else zero)
  else exp (div (mul (neg distance) distance) variance)

/-- the selection loop of `tag`: `(probable_class, val_, sum_)` -/
def pickGo [Num F] : List F → Nat → Nat × F × F → Nat × F × F
  | [], _, s => s
  | p :: rest, i, (c, v, sum) =>
    if lt v p then pickGo rest (i + 1) (i, p, add sum p)
    else pickGo rest (i + 1) (c, v, add sum p)

def pick [Num F] (ps : List F) : Nat × F × F := pickGo ps 0 (0, zero, zero)

/-- `sum_ > 0.0 ? val_ / sum_ : 0.0` -/
def conf [Num F] (r : Nat × F × F) : F := if lt zero r.2.2 then div r.2.1 r.2.2 else zero

/-- `basic_gaussian_lambda_f::tag` -/
def gaussTag [NumC F] (ds : List (Dist F)) (out : Option F) : Nat × F :=
  let x := valOr0 out
  let r := pick (ds.map (gaussP x))
  (r.1, conf r)

/-! ### binary classifier -/

/-- `basic_binary_lambda_f::tag` : `{val > 0.0 ? 1u : 0u, std::fabs(val)}` -/
def binTag [Num F] (out : Option F) : Nat × F :=
  let v := valOr0 out
  (if lt zero v then 1 else 0, abs v)

/-! ### teams: `team_class_lambda_f<…, team_composition::wta>::tag` -/

/-- winner takes all: the first member with the strictly largest sureness -/
def wta [Num F] : List (Nat × F) → Nat × F
  | [] => (0, zero)
  | t :: rest => rest.foldl (fun best r => if lt best.2 r.2 then r else best) t

/-! ### the evaluators -/

/-- a classification example as the evaluator sees it: the output of every member program (one
    for an individual), the label, the difficulty counter -/
structure TEx (F : Type) where
  outs : List (Option F)
  label : Nat
  difficulty : Nat
deriving Repr

/-- training pairs of member `m` -/
def memberTrain (d : List (TEx F)) (m : Nat) : List (Option F × Nat) :=
  d.map (fun e => (e.outs.getD m none, e.label))

/-- the team's answer for an example given one tagging function per member -/
def teamTag [Num F] (taggers : List (Option F → Nat × F)) (e : TEx F) : Nat × F :=
  wta (taggers.zipIdx.map (fun tm => tm.1 (e.outs.getD tm.2 none)))

def toCEx (e : TEx F) (t : Nat × F) : CEx F := ⟨t.1, t.2, e.label, e.difficulty⟩

/-- the classifier `dyn_slot_evaluator::operator()` builds (one per member) -/
def dynTaggers [NumC F] (classes xslot members : Nat) (d : List (TEx F)) : List (Option F → Nat × F) :=
  (List.range members).map (fun m => dynTag (fillMatrix classes xslot (memberTrain d m)))

def gaussTaggers [NumC F] (classes members : Nat) (d : List (TEx F)) : List (Option F → Nat × F) :=
  (List.range members).map (fun m => gaussTag (fillVector classes (memberTrain d m)))

def binTaggers [Num F] (members : Nat) : List (Option F → Nat × F) :=
  (List.range members).map (fun _ => binTag)

/-- the answers of the classifier on the training set -/
def tagAll [Num F] (taggers : List (Option F → Nat × F)) (d : List (TEx F)) : List (CEx F) :=
  d.map (fun e => toCEx e (teamTag taggers e))

/-- `dyn_slot_evaluator::operator()` : fitness and the examples afterwards -/
def dynSlotEvaluator [NumC F] (classes xslot members : Nat) (d : List (TEx F)) : List F × List (CEx F) :=
  countEval (tagAll (dynTaggers classes xslot members d) d)

/-- `gaussian_evaluator::operator()` -/
def gaussianEvaluator [NumC F] (classes members : Nat) (d : List (TEx F)) : List F × List (CEx F) :=
  gaussEval (ofNat (classes - 1)) (tagAll (gaussTaggers classes members d) d)

/-- `binary_evaluator::operator()` -/
def binaryEvaluator [NumC F] (members : Nat) (d : List (TEx F)) : List F × List (CEx F) :=
  countEval (tagAll (binTaggers members) d)

end Cls

/-- exact rationals; `exp` and the discretization are parameters -/
@[reducible] def ratNumC (ex : Rat → Rat) (dsc : Rat → Nat → Nat) : NumC Rat :=
  { (inferInstance : Num Rat) with
    ofNat := fun n => (n : Rat), half := 1 / 2, exp := ex, isNaN := fun _ => false, cut := 10000000, disc := dsc }

end Vita.C05
