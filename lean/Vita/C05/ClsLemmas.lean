/-
  C05 — helper lemmas for the end-to-end classification evaluators, `test_evaluator` and the
  penalty component (exact arithmetic unless stated otherwise).
-/
import Vita.C05.Lemmas
import Vita.C05.Extra

namespace Vita.C05
open Num NumC

/-! ### `fill_vector` : one distribution per class, fed with the (cut) outputs of that class -/

namespace Cls
variable {F : Type}

/-- all the values of a list pushed into a distribution, in order -/
def pushAll [NumC F] (d : Dist F) (xs : List F) : Dist F := xs.foldl Dist.push d

/-- the values `fill_vector` feeds to the distribution of class `c` -/
def classVals [NumC F] (train : List (Option F × Nat)) (c : Nat) : List F :=
  (train.filter (fun e => e.2 == c)).map (fun e => cutVal e.1)

theorem foldl_modify_getElem? [NumC F] (train : List (Option F × Nat)) (c : Nat) :
    ∀ ds : List (Dist F),
      (train.foldl (fun ds e => ds.modify e.2 (fun d => d.push (cutVal e.1))) ds)[c]? =
        ds[c]?.map (fun d => pushAll d (classVals train c)) := by
  induction train with
  | nil => intro ds; simp [pushAll, classVals]
  | cons e rest ih =>
    intro ds
    simp only [List.foldl_cons]
    rw [ih]
    rw [List.getElem?_modify]
    by_cases h : e.2 = c
    · subst h
      cases hd : ds[e.2]? with
      | none => simp
      | some d =>
        simp only [Option.map_eq_map, Option.map_some, if_true]
        simp [classVals, pushAll, List.filter_cons]
    · have hb : (e.2 == c) = false := by simpa using h
      cases hd : ds[c]? with
      | none => simp
      | some d =>
        simp only [Option.map_eq_map, Option.map_some, if_neg h]
        simp [classVals, List.filter_cons, hb]

end Cls

/-! ### Welford's on-line update is the two-pass mean / variance (exact arithmetic) -/

section welford
variable (ex : Rat → Rat) (dsc : Rat → Nat → Nat)

def sumSq (xs : List Rat) : Rat := (xs.map (fun x => x * x)).sum

theorem push_rat (d : Cls.Dist Rat) (v : Rat) :
    @Cls.Dist.push Rat (ratNumC ex dsc) d v =
      ⟨d.count + 1,
       (if d.count = 0 then v else d.mean) + (v - (if d.count = 0 then v else d.mean)) / ((d.count + 1 : Nat) : Rat),
       if d.count + 1 > 1 then
         d.m2 + (v - (if d.count = 0 then v else d.mean)) *
           (v - ((if d.count = 0 then v else d.mean) + (v - (if d.count = 0 then v else d.mean)) / ((d.count + 1 : Nat) : Rat)))
       else (v - (if d.count = 0 then v else d.mean)) *
           (v - ((if d.count = 0 then v else d.mean) + (v - (if d.count = 0 then v else d.mean)) / ((d.count + 1 : Nat) : Rat)))⟩ := by
  rfl

/-- invariant: `count = #values`, `mean·count = Σ`, `m2 = Σx² − count·mean²` (vacuous while empty) -/
def WelfordInv (d : Cls.Dist Rat) (ys : List Rat) : Prop :=
  d.count = ys.length ∧ (0 < d.count → d.mean * (d.count : Rat) = ys.sum ∧
    d.m2 = sumSq ys - (d.count : Rat) * (d.mean * d.mean))

theorem sumSq_append (ys : List Rat) (v : Rat) : sumSq (ys ++ [v]) = sumSq ys + v * v := by
  simp [sumSq, List.sum_append]
  grind

theorem push_inv (d : Cls.Dist Rat) (ys : List Rat) (v : Rat) (h : WelfordInv d ys) :
    WelfordInv (@Cls.Dist.push Rat (ratNumC ex dsc) d v) (ys ++ [v]) := by
  rw [push_rat]
  obtain ⟨hc, hm⟩ := h
  refine ⟨by simp [hc], fun _ => ?_⟩
  simp only []
  by_cases h0 : d.count = 0
  · -- the first value
    have hy : ys = [] := by
      have : ys.length = 0 := by omega
      exact List.length_eq_zero_iff.mp this
    subst hy
    simp only [h0, if_true, Nat.zero_add, Nat.lt_irrefl, gt_iff_lt, if_false, List.nil_append, List.sum_cons,
      List.sum_nil, sumSq, List.map_cons, List.map_nil]
    have : (v - v : Rat) = 0 := by grind
    rw [this]
    have h1 : ((1 : Nat) : Rat) = 1 := by simp
    rw [h1]
    constructor <;> grind
  · have hpos : 0 < d.count := by omega
    obtain ⟨hmean, hm2⟩ := hm hpos
    have hgt : d.count + 1 > 1 := by omega
    simp only [h0, if_false, hgt, if_true]
    have hk : ((d.count + 1 : Nat) : Rat) = (d.count : Rat) + 1 := by simp
    rw [hk]
    have hkpos : (0 : Rat) < (d.count : Rat) + 1 := by
      have : (0:Rat) ≤ (d.count : Rat) := Rat.natCast_nonneg
      grind
    have hne : (d.count : Rat) + 1 ≠ 0 := by grind
    generalize hq : (v - d.mean) / ((d.count : Rat) + 1) = q
    have hqc : q * ((d.count : Rat) + 1) = v - d.mean := by
      rw [← hq, Rat.div_def, Rat.mul_assoc, Rat.inv_mul_cancel _ hne, Rat.mul_one]
    rw [List.sum_append, sumSq_append]
    simp only [List.sum_cons, List.sum_nil]
    generalize (d.count : Rat) = k at *
    constructor
    · grind
    · rw [hm2]
      grind

theorem pushAll_inv (xs : List Rat) : ∀ (d : Cls.Dist Rat) (ys : List Rat), WelfordInv d ys →
    WelfordInv (@Cls.pushAll Rat (ratNumC ex dsc) d xs) (ys ++ xs) := by
  induction xs with
  | nil => intro d ys h; simpa [Cls.pushAll] using h
  | cons x rest ih =>
    intro d ys h
    have := ih _ _ (push_inv ex dsc d ys x h)
    simpa [Cls.pushAll, List.append_assoc] using this

theorem sum_sq_dev (xs : List Rat) (m : Rat) :
    (xs.map (fun x => (x - m) * (x - m))).sum = sumSq xs - 2 * m * xs.sum + (xs.length : Rat) * (m * m) := by
  induction xs with
  | nil => simp [sumSq]; grind
  | cons x rest ih =>
    simp only [List.map_cons, List.sum_cons, ih, sumSq, List.length_cons]
    have : ((rest.length + 1 : Nat) : Rat) = (rest.length : Rat) + 1 := by simp
    rw [this]
    grind

end welford

/-! ### `test_evaluator` : the buffer of individuals seen so far -/

section testev
variable {α : Type} [DecidableEq α]

/-- the buffer after a call on `x` -/
def grow (buf : List α) (x : α) : List α := (bufferIndex buf x).2

theorem mem_grow (buf : List α) (x : α) : x ∈ grow buf x := by
  unfold grow bufferIndex; split <;> simp_all

theorem idxOf_grow_self (buf : List α) (x : α) : (grow buf x).idxOf x = (bufferIndex buf x).1 := by
  unfold grow bufferIndex
  split
  · rfl
  · rename_i h
    simp only [List.idxOf_append, h, if_false]
    simp

theorem idxOf_grow_of_mem (buf : List α) (x y : α) (hy : y ∈ buf) : (grow buf x).idxOf y = buf.idxOf y := by
  unfold grow bufferIndex
  split
  · rfl
  · simp only [List.idxOf_append, hy, if_true]

theorem mem_grow_of_mem (buf : List α) (x y : α) (hy : y ∈ buf) : y ∈ grow buf x := by
  unfold grow bufferIndex; split <;> simp_all

theorem nodup_grow (buf : List α) (x : α) (h : buf.Nodup) : (grow buf x).Nodup := by
  unfold grow bufferIndex
  split
  · exact h
  · rename_i hx
    rw [List.nodup_append]
    refine ⟨h, by simp, ?_⟩
    intro a ha b hb
    simp only [List.mem_singleton] at hb
    subst hb
    intro hab; subst hab; exact hx ha

/-- the buffer at the end of a history -/
def finalBuf (buf : List α) (xs : List α) : List α := xs.foldl grow buf

theorem idxOf_finalBuf (xs : List α) : ∀ (buf : List α) (y : α), y ∈ buf →
    (finalBuf buf xs).idxOf y = buf.idxOf y ∧ y ∈ finalBuf buf xs := by
  induction xs with
  | nil => intro buf y hy; exact ⟨rfl, hy⟩
  | cons x rest ih =>
    intro buf y hy
    have := ih (grow buf x) y (mem_grow_of_mem buf x y hy)
    simp only [finalBuf, List.foldl_cons] at *
    exact ⟨this.1.trans (idxOf_grow_of_mem buf x y hy), this.2⟩

theorem nodup_finalBuf (xs : List α) : ∀ buf : List α, buf.Nodup → (finalBuf buf xs).Nodup := by
  induction xs with
  | nil => intro buf h; exact h
  | cons x rest ih => intro buf h; exact ih _ (nodup_grow buf x h)

/-- the fitness `test_evaluator` gives to the individual at buffer position `n` -/
def testVal {F} [NumC F] (rnd : Nat → F) : TestKind → Nat → List F
  | .fixed, _ => [zero]
  | .distinct, n => [ofNat n]
  | .random, n => [rnd n]

theorem testEval_eq {F} [NumC F] (rnd : Nat → F) (k : TestKind) (buf : List α) (x : α) :
    (testEval rnd k buf x).1 = testVal rnd k ((grow buf x).idxOf x) ∧
    (k ≠ .fixed → (testEval rnd k buf x).2 = grow buf x) ∧ (k = .fixed → (testEval rnd k buf x).2 = buf) := by
  have h := idxOf_grow_self buf x
  unfold grow at h
  cases k <;> simp [testEval, testVal, grow, h]

/-- a `fixed` evaluator never touches its buffer; the others grow it -/
def histBuf (k : TestKind) (buf : List α) (xs : List α) : List α :=
  if k = .fixed then buf else finalBuf buf xs

/-- CHARACTERISATION: every call of a history returns the value attached to the position of its
    individual in the FINAL buffer (positions never change once assigned) -/
theorem testRun_getElem? {F} [NumC F] (rnd : Nat → F) (k : TestKind) (xs : List α) :
    ∀ (buf : List α) (i : Nat),
      (testRun rnd k buf xs)[i]? =
        xs[i]?.map (fun x => testVal rnd k ((if k = .fixed then grow buf x else finalBuf buf xs).idxOf x)) := by
  induction xs with
  | nil => intro buf i; simp [testRun]
  | cons x rest ih =>
    intro buf i
    have he := testEval_eq rnd k buf x
    cases i with
    | zero =>
      simp only [testRun, List.getElem?_cons_zero, Option.map_some, he.1]
      by_cases hk : k = .fixed
      · simp [hk]
      · simp only [hk, if_false]
        have := (idxOf_finalBuf rest (grow buf x) x (mem_grow buf x)).1
        simp only [finalBuf, List.foldl_cons] at *
        rw [this]
    | succ j =>
      simp only [testRun, List.getElem?_cons_succ]
      by_cases hk : k = .fixed
      · rw [he.2.2 hk, ih]
        simp [hk]
      · rw [he.2.1 hk, ih]
        simp only [hk, if_false, finalBuf, List.foldl_cons]

end testev

/-! ### histories on one evaluator object -/

theorem runHist_append {D R : Type} (call : D → R × D) (pre post : List (HistOp D)) : ∀ d : D,
    runHist call d (pre ++ post) =
      ((runHist call d pre).1 ++ (runHist call (runHist call d pre).2 post).1,
       (runHist call (runHist call d pre).2 post).2) := by
  induction pre with
  | nil => intro d; simp [runHist]
  | cons op rest ih =>
    intro d
    cases op with
    | mutate f => simp only [List.cons_append, runHist]; exact ih (f d)
    | call =>
      simp only [List.cons_append, runHist]
      rw [ih]

theorem runHist_length {D R : Type} (call : D → R × D) (ops : List (HistOp D)) : ∀ d : D,
    (runHist call d ops).1.length = nCalls ops := by
  induction ops with
  | nil => intro d; rfl
  | cons op rest ih =>
    intro d
    cases op with
    | mutate f => simp only [runHist, nCalls]; exact ih (f d)
    | call => simp only [runHist, nCalls, List.length_cons]; rw [ih]

end Vita.C05
