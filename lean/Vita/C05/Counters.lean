import Vita.C05.Classify

/-!
# C05 — the width of the counters the evaluators keep (round 3c, C05-m8)

The model counts in `Nat` (slot matrix, `distribution::count_`, `difficulty`) and accumulates in the abstract
number type `F` (binary64 in the driver).  The code counts in fixed-width machine types.  This file states what the
model ASSUMES about those types and what the assumption buys:

* `Counter`, `minCap`, `assumed`, `tableOk` — the obligation about the table `Vita.C05.GenCounters.table`
  (generated on every run from the clang AST by tools/translate_counters.py: declared element type of every
  data member, local and updated lvalue of the evaluators / classifiers): every row is at least as wide as the
  model assumes for its kind (`unsigned` ≥ 32 bits, signed ≥ 31 value bits, floating ≥ 53 significand bits) and the
  named data members at least their documented width (`difficulty`, `count_` : 64).
* `incW`, `countW` — a `w`-bit wrapping counter; `countW_eq_mod`.
* `incrW`, `fillMatrixW` — `fill_matrix` with `w`-bit wrapping counters; `fillMatrixW_eq` : on every training set
  of fewer than `2^w` examples it IS the model's `fillMatrix`.
-/

namespace Vita.C05.Counters
open Vita.C05 Vita.C05.Cls

inductive CKind | uns | sgn | flt
deriving DecidableEq, Repr

inductive Role | field | «local» | update
deriving DecidableEq, Repr

/-- one row of the generated table -/
structure Counter where
  /-- record (`field`) or `record::function` (`local`, `update`) -/
  owner : String
  name : String
  role : Role
  /-- the declared (desugared) arithmetic type; for a container its element type -/
  ctype : String
  kind : CKind
  /-- counts exactly up to `2^cap` (unsigned `w` bits: `w`; signed: `w - 1`; floating: significand bits) -/
  cap : Nat
deriving Repr

/-- what the model assumes of ANY counter / accumulator of a kind: an `unsigned` (32 bits) for counts, a `double`
    for sums -/
def minCap : CKind → Nat
  | .uns => 32
  | .sgn => 31
  | .flt => 53

/-- data members the model (and the documentation) name: record, member, kind, width -/
def assumed : List (String × String × CKind × Nat) :=
  [("example", "difficulty", .uns, 64),
   ("example", "age", .uns, 32),
   ("basic_dyn_slot_lambda_f", "slot_matrix_", .uns, 32),
   ("basic_dyn_slot_lambda_f", "dataset_size_", .uns, 64),
   ("distribution", "count_", .uns, 64),
   ("distribution", "mean_", .flt, 53),
   ("distribution", "m2_", .flt, 53)]

def rowOk (c : Counter) : Bool := decide (minCap c.kind ≤ c.cap)

def assumedOk (tbl : List Counter) (a : String × String × CKind × Nat) : Bool :=
  tbl.any (fun c => c.owner == a.1 && c.name == a.2.1 && decide (c.role = .field) && decide (c.kind = a.2.2.1)
                    && decide (a.2.2.2 ≤ c.cap))

/-- the obligation about the generated table -/
def tableOk (tbl : List Counter) : Bool := tbl.all rowOk && assumed.all (assumedOk tbl)

theorem rowOk_of_tableOk {tbl : List Counter} (h : tableOk tbl = true) {c : Counter} (hc : c ∈ tbl) :
    minCap c.kind ≤ c.cap := by
  unfold tableOk at h
  rw [Bool.and_eq_true] at h
  have := List.all_eq_true.mp h.1 c hc
  simpa [rowOk] using this

/-! ### a `w`-bit wrapping counter -/

/-- `++c` on a `w`-bit unsigned -/
def incW (w c : Nat) : Nat := (c + 1) % 2 ^ w

/-- a `w`-bit counter, started at 0, after `n` increments -/
def countW (w : Nat) : Nat → Nat
  | 0 => 0
  | n + 1 => incW w (countW w n)

theorem countW_eq_mod (w n : Nat) : countW w n = n % 2 ^ w := by
  induction n with
  | zero => simp [countW, Nat.zero_mod]
  | succ k ih => simp [countW, incW, ih, Nat.add_mod]

theorem incW_of_lt {w c : Nat} (h : c + 1 < 2 ^ w) : incW w c = c + 1 := Nat.mod_eq_of_lt h

/-! ### `fill_matrix` with `w`-bit counters -/

/-- `++slot_matrix_(r, c)` when the matrix elements are `w` bits wide -/
def incrW (w : Nat) (m : List (List Nat)) (r c : Nat) : List (List Nat) :=
  m.modify r (fun row => row.modify c (incW w))

/-- `fillMatrix` with `w`-bit counters (the rest is the same text) -/
def fillMatrixW {F : Type} [NumC F] (w classes xslot : Nat) (train : List (Option F × Nat)) : DynSlot :=
  let ns := classes * xslot
  let mat0 := List.replicate ns (List.replicate classes 0)
  let mat := train.foldl (fun m e => incrW w m (slot e.1 ns) e.2) mat0
  let cls1 := mat.map (fun row => let b := bestClass row; if row.getD b 0 ≠ 0 then b else classes)
  ⟨mat, repair classes none cls1⟩

/-- every counter of the matrix is at most `k` -/
def Bounded (k : Nat) (m : List (List Nat)) : Prop := ∀ row ∈ m, ∀ x ∈ row, x ≤ k

theorem modify_congr {α : Type} (l : List α) (i : Nat) (f g : α → α) (h : ∀ x ∈ l, f x = g x) :
    l.modify i f = l.modify i g := by
  induction l generalizing i with
  | nil => simp
  | cons a t ih =>
    cases i with
    | zero => simp [h a (by simp)]
    | succ j => simp; exact ih j (fun x hx => h x (by simp [hx]))

theorem mem_modify {α : Type} (l : List α) (i : Nat) (f : α → α) {y : α} (hy : y ∈ l.modify i f) :
    y ∈ l ∨ ∃ x ∈ l, y = f x := by
  induction l generalizing i with
  | nil => simp at hy
  | cons a t ih =>
    cases i with
    | zero =>
      simp at hy
      rcases hy with h | h
      · exact Or.inr ⟨a, by simp, h⟩
      · exact Or.inl (by simp [h])
    | succ j =>
      simp at hy
      rcases hy with h | h
      · exact Or.inl (by simp [h])
      · rcases ih j h with h' | ⟨x, hx, hxy⟩
        · exact Or.inl (by simp [h'])
        · exact Or.inr ⟨x, by simp [hx], hxy⟩

theorem incrW_eq_incr {w k : Nat} {m : List (List Nat)} (hb : Bounded k m) (hk : k + 1 < 2 ^ w) (r c : Nat) :
    incrW w m r c = incr m r c := by
  unfold incrW incr
  apply modify_congr
  intro row hrow
  apply modify_congr
  intro x hx
  exact incW_of_lt (Nat.lt_of_le_of_lt (Nat.succ_le_succ (hb row hrow x hx)) hk)

theorem bounded_incr {k : Nat} {m : List (List Nat)} (hb : Bounded k m) (r c : Nat) :
    Bounded (k + 1) (incr m r c) := by
  intro row hrow x hx
  unfold incr at hrow
  rcases mem_modify _ _ _ hrow with h | ⟨row0, h0, rfl⟩
  · exact Nat.le_succ_of_le (hb row h x hx)
  · rcases mem_modify _ _ _ hx with h | ⟨x0, hx0, rfl⟩
    · exact Nat.le_succ_of_le (hb row0 h0 x h)
    · exact Nat.succ_le_succ (hb row0 h0 x0 hx0)

theorem foldl_incrW_eq {α : Type} (w : Nat) (g : α → Nat × Nat) :
    ∀ (train : List α) (m : List (List Nat)) (k : Nat), Bounded k m → k + train.length < 2 ^ w →
      train.foldl (fun m e => incrW w m (g e).1 (g e).2) m = train.foldl (fun m e => incr m (g e).1 (g e).2) m := by
  intro train
  induction train with
  | nil => intros; rfl
  | cons e t ih =>
    intro m k hb hk
    simp only [List.foldl_cons, List.length_cons] at hk ⊢
    rw [incrW_eq_incr hb (by omega)]
    exact ih _ (k + 1) (bounded_incr hb _ _) (by omega)

theorem bounded_zero (ns classes : Nat) : Bounded 0 (List.replicate ns (List.replicate classes 0)) := by
  intro row hrow x hx
  rw [List.mem_replicate] at hrow
  rw [hrow.2, List.mem_replicate] at hx
  omega

/-- on fewer than `2^w` examples `w`-bit counters build the model's table -/
theorem fillMatrixW_eq {F : Type} [NumC F] (w classes xslot : Nat) (train : List (Option F × Nat))
    (h : train.length < 2 ^ w) : fillMatrixW w classes xslot train = fillMatrix classes xslot train := by
  unfold fillMatrixW fillMatrix
  have := foldl_incrW_eq w (fun e : Option F × Nat => (slot e.1 (classes * xslot), e.2)) train
    (List.replicate (classes * xslot) (List.replicate classes 0)) 0 (bounded_zero _ _) (by omega)
  simp only [] at this ⊢
  rw [this]

end Vita.C05.Counters
