/-
  C05 line-protocol driver: evaluates the model of Model.lean with hardware doubles.
  Doubles travel as decimal 64-bit patterns, `nan` stands for any NaN, `u` for "no value".

    soe <mae|rmae|mse|count> <step> <n> (<out|u> <target> <difficulty>)*n  -> fit <v> diff d1 … dn
    cnt <n> (<tag> <label> <difficulty>)*n                                   -> fit <v> diff d1 … dn
    gau <classes> <n> (<tag> <sureness> <label> <difficulty>)*n              -> fit <v> diff d1 … dn
    csoe <penalty> <kind> <step> <n> rows…  (constrained evaluator)             -> fitv 2 v1 v2 diff d1 … dn
    ga <value>                                                               -> fitv k v1 … vk
    con <penalty> <k> v1 … vk                                                -> fitv k+1 …
    small <value>                                                            -> 0 | 1
-/
import Vita.C05.Model
open Vita.C05

def parseF (s : String) : Option Float :=
  if s == "nan" then some (0.0 / 0.0) else (s.toNat?).map (fun n => Float.ofBits n.toUInt64)

def showF (f : Float) : String := if f.isNaN then "nan" else toString f.toBits.toNat

def kindOf : String → Option ErrKind
  | "mae" => some .mae | "rmae" => some .rmae | "mse" => some .mse | "count" => some .count
  | _ => none

def parseEx : Nat → List String → Option (List (Ex Float))
  | 0, [] => some []
  | 0, _ => none
  | n + 1, o :: t :: d :: rest => do
    let out ← if o == "u" then some none else (parseF o).map some
    let t ← parseF t
    let d ← d.toNat?
    let tl ← parseEx n rest
    pure (⟨out, t, d⟩ :: tl)
  | _, _ => none

def parseCnt : Nat → List String → Option (List (CEx Float))
  | 0, [] => some []
  | 0, _ => none
  | n + 1, g :: l :: d :: rest => do
    let g ← g.toNat?
    let l ← l.toNat?
    let d ← d.toNat?
    let tl ← parseCnt n rest
    pure (⟨g, 0.0, l, d⟩ :: tl)
  | _, _ => none

def parseGau : Nat → List String → Option (List (CEx Float))
  | 0, [] => some []
  | 0, _ => none
  | n + 1, g :: s :: l :: d :: rest => do
    let g ← g.toNat?
    let s ← parseF s
    let l ← l.toNat?
    let d ← d.toNat?
    let tl ← parseGau n rest
    pure (⟨g, s, l, d⟩ :: tl)
  | _, _ => none

def showFit (fit : List Float) (diff : List Nat) : String :=
  match fit with
  | [f] => "fit " ++ showF f ++ " diff" ++ String.join (diff.map (fun d => " " ++ toString d))
  | _ => "bad-fit"

def showFitV (fit : List Float) : String :=
  "fitv " ++ toString fit.length ++ String.join (fit.map (fun f => " " ++ showF f))

def answer (line : String) : String :=
  match line.trimAscii.toString.splitOn " " with
  | "soe" :: k :: step :: n :: rest =>
    match kindOf k, step.toNat?, n.toNat? with
    | some k, some step, some n =>
      if step == 0 then "bad-op" else
      match parseEx n rest with
      | some d => let r := sumOfErrors (errF k) step d; showFit r.1 (r.2.map (·.difficulty))
      | none => "bad-op"
    | _, _, _ => "bad-op"
  | "csoe" :: p :: k :: step :: n :: rest =>
    match parseF p, kindOf k, step.toNat?, n.toNat? with
    | some p, some k, some step, some n =>
      if step == 0 then "bad-op" else
      match parseEx n rest with
      | some d =>
        let r := sumOfErrors (errF k) step d
        showFitV (constrainedEval p r.1) ++ " diff" ++
          String.join (r.2.map (fun e => " " ++ toString e.difficulty))
      | none => "bad-op"
    | _, _, _, _ => "bad-op"
  | "cnt" :: n :: rest =>
    match n.toNat? with
    | some n =>
      match parseCnt n rest with
      | some d => let r := countEval d; showFit r.1 (r.2.map (·.difficulty))
      | none => "bad-op"
    | none => "bad-op"
  | "gau" :: c :: n :: rest =>
    match c.toNat?, n.toNat? with
    | some c, some n =>
      match parseGau n rest with
      | some d =>
        -- static_cast<double>(classes() - 1), classes() is a std::size_t
        let r := gaussEval (Float.ofNat (c - 1)) d; showFit r.1 (r.2.map (·.difficulty))
      | none => "bad-op"
    | _, _ => "bad-op"
  | ["ga", v] =>
    match parseF v with
    | some v => showFitV (gaEval v)
    | none => "bad-op"
  | "con" :: p :: k :: rest =>
    match parseF p, k.toNat?, rest.mapM parseF with
    | some p, some k, some vs => if vs.length == k then showFitV (constrainedEval p vs) else "bad-op"
    | _, _, _ => "bad-op"
  | ["small", v] =>
    match parseF v with
    | some v => if issmall v then "1" else "0"
    | none => "bad-op"
  | _ => "bad-op"

partial def loop (h : IO.FS.Stream) (out : IO.FS.Stream) : IO Unit := do
  let line ← h.getLine
  if line.isEmpty then return ()
  out.putStrLn (answer line)
  loop h out

def main : IO Unit := do
  loop (← IO.getStdin) (← IO.getStdout)
