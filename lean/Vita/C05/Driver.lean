/-
  C05 line-protocol driver: evaluates the model of Model.lean with hardware doubles.
  Doubles travel as decimal 64-bit patterns, `nan` stands for any NaN, `u` for "no value".

    soe <mae|rmae|mse|count> <step> <n> (<out|u> <target> <difficulty>)*n  -> fit <v> diff d1 … dn ;; <gen>
        the answer of the hand-written model, then (after ` ;; `) the answer obtained with the functors
        GENERATED from the clang AST (Gen.lean, `FloatOps Float`): `=` when it is the same text
    cnt <n> (<tag> <label> <difficulty>)*n                                   -> fit <v> diff d1 … dn
    gau <classes> <n> (<tag> <sureness> <label> <difficulty>)*n              -> fit <v> diff d1 … dn
    csoe <penalty> <kind> <step> <n> rows…  (constrained evaluator)             -> fitv 2 v1 v2 diff d1 … dn
    ga <value>                                                               -> fitv k v1 … vk
    con <penalty> <k> v1 … vk                                                -> fitv k+1 …
    small <value>                                                            -> 0 | 1
    dynx <classes> <xslot> <M> <n> (<label> <difficulty> <out|u>*M)*n          -> fit <v> tags (<label> <sureness>)*n diff d1 … dn
    gaux <classes> <M> <n> rows…     binx <M> <n> rows…                        (same answer shape)
        the END-TO-END classification evaluators: classifier built from the outputs of the M member
        programs (1 = an individual), winner-takes-all for a team
    tev <distinct|fixed|random> <k> <id>*k                                    -> seq <v>*k
    pen <d|fl|fn|i|l|u|ul|b> <value> <k> v1 … vk  (constrained evaluator, typed penalty) -> fitv k+1 …
    gac <ptype> <penalty> <objective value>       (constrained evaluator around ga_evaluator)   -> fitv …
    cpsoe <ptype> <penalty> <kind> <step> <n> rows…  (constrained evaluator, typed penalty)       -> fitv 2 v1 v2 diff …
-/
import Vita.C05.Extra
import Vita.C05.Gen
import Vita.Common.Rng
open Vita.C05

@[extern "fma"] opaque cFma : Float → Float → Float → Float

/-- `static_cast<double>(n)` for an unsigned 64-bit `n` (the C conversion: round to nearest) -/
def natToFloat (n : Nat) : Float := if n < 2 ^ 64 then n.toUInt64.toFloat else Float.ofNat n

/-- `discretization(x, Target(0), max)` of utility/discretization.h with
    `sigmoid_01(x) = std::fma(std::atan(x), 0.31830988618, 0.5)` -/
def discFloat (x : Float) (max : Nat) : Nat :=
  (Float.round (cFma (natToFloat (max - 0)) (cFma (Float.atan x) 0.31830988618 0.5) (natToFloat 0))).toUInt64.toNat

instance : NumC Float :=
  { (inferInstance : Num Float) with
    ofNat := natToFloat, half := 0.5, exp := Float.exp, isNaN := Float.isNaN, cut := 10000000.0,
    disc := discFloat }

/-- `static random::engine_t e; e.seed(dist); e()` as a double -/
def testRnd (dist : Nat) : Float := ((Vita.Rng.Xo.seed dist.toUInt64).next).1.toFloat

def parseF (s : String) : Option Float :=
  if s == "nan" then some (0.0 / 0.0) else (s.toNat?).map (fun n => Float.ofBits n.toUInt64)

def showF (f : Float) : String := if f.isNaN then "nan" else toString f.toBits.toNat

def kindOf : String → Option ErrKind
  | "mae" => some .mae | "rmae" => some .rmae | "mse" => some .mse | "count" => some .count
  | _ => none

def parseEx : Nat → List String → Option (List (Ex Float))
  | 0, [] => some []
  | 0, _ => none
  | n + 1, o :: t :: d :: rest => do
    let out ← if o == "u" then some none else (parseF o).map some
    let t ← parseF t
    let d ← d.toNat?
    let tl ← parseEx n rest
    pure (⟨out, t, d⟩ :: tl)
  | _, _ => none

def parseCnt : Nat → List String → Option (List (CEx Float))
  | 0, [] => some []
  | 0, _ => none
  | n + 1, g :: l :: d :: rest => do
    let g ← g.toNat?
    let l ← l.toNat?
    let d ← d.toNat?
    let tl ← parseCnt n rest
    pure (⟨g, 0.0, l, d⟩ :: tl)
  | _, _ => none

def parseGau : Nat → List String → Option (List (CEx Float))
  | 0, [] => some []
  | 0, _ => none
  | n + 1, g :: s :: l :: d :: rest => do
    let g ← g.toNat?
    let s ← parseF s
    let l ← l.toNat?
    let d ← d.toNat?
    let tl ← parseGau n rest
    pure (⟨g, s, l, d⟩ :: tl)
  | _, _ => none

def parseO (s : String) : Option (Option Float) :=
  if s == "u" then some none else (parseF s).map some

/-- rows `<label> <difficulty> <out>*M` -/
def parseTEx (m : Nat) : Nat → List String → Option (List (Cls.TEx Float))
  | 0, [] => some []
  | 0, _ => none
  | n + 1, l :: d :: rest => do
    let l ← l.toNat?
    let d ← d.toNat?
    if rest.length < m then none else
    let outs ← (rest.take m).mapM parseO
    let tl ← parseTEx m n (rest.drop m)
    pure (⟨outs, l, d⟩ :: tl)
  | _, _ => none

def showCls (r : List Float × List (CEx Float)) : String :=
  match r.1 with
  | [f] => "fit " ++ showF f ++ " tags" ++
      String.join (r.2.map (fun e => " " ++ toString e.tagLabel ++ " " ++ showF e.sureness)) ++
      " diff" ++ String.join (r.2.map (fun e => " " ++ toString e.difficulty))
  | _ => "bad-fit"

def parsePen (ty v : String) : Option (Pen Float) :=
  match ty with
  | "d" | "fn" => (parseF v).map .dbl
  | "fl" => (parseF v).map (fun x => .dbl x.toFloat32.toFloat)
  | "i" | "l" => v.toInt?.map .int
  | "u" => v.toNat?.map (.nat 32)
  | "ul" => v.toNat?.map (.nat 64)
  | "b" => v.toNat?.map (fun n => .bool (n != 0))
  | _ => none

def showFit (fit : List Float) (diff : List Nat) : String :=
  match fit with
  | [f] => "fit " ++ showF f ++ " diff" ++ String.join (diff.map (fun d => " " ++ toString d))
  | _ => "bad-fit"

def showFitV (fit : List Float) : String :=
  "fitv " ++ toString fit.length ++ String.join (fit.map (fun f => " " ++ showF f))

/-- `sum_of_errors_impl` with the GENERATED functor and the GENERATED `issmall` (difficulty test):
    the loop of Model.lean instantiated with them -/
def genLoop (k : ErrKind) (step : Nat) : List (Ex Float) → Float × List (Ex Float) := fun d =>
  let rec go : List (Ex Float) → Nat → Float × Float → Float × List (Ex Float)
    | [], _, s => (s.1, [])
    | e :: rest, 0, s =>
      if rest.length + 1 < step then (s.1, e :: rest)
      else
        let err := Gen.errF k e.out e.target
        let r := go rest (step - 1) (meanStep s err)
        (r.1, (if Gen.issmall err then e else { e with difficulty := e.difficulty + 1 }) :: r.2)
    | e :: rest, k' + 1, s =>
      let r := go rest k' s
      (r.1, e :: r.2)
  go d 0 (0.0, 0.0)

def genSoe (k : ErrKind) (step : Nat) (d : List (Ex Float)) : String :=
  let r := genLoop k step d
  "fit " ++ showF (-r.1) ++ " diff" ++ String.join (r.2.map (fun e => " " ++ toString e.difficulty))

def answer (line : String) : String :=
  match line.trimAscii.toString.splitOn " " with
  | "soe" :: k :: step :: n :: rest =>
    match kindOf k, step.toNat?, n.toNat? with
    | some k, some step, some n =>
      if step == 0 then "bad-op" else
      match parseEx n rest with
      | some d =>
        let r := sumOfErrors (errF k) step d
        let m := showFit r.1 (r.2.map (·.difficulty))
        let g := genSoe k step d
        m ++ " ;; " ++ (if g == m then "=" else g)
      | none => "bad-op"
    | _, _, _ => "bad-op"
  | "csoe" :: p :: k :: step :: n :: rest =>
    match parseF p, kindOf k, step.toNat?, n.toNat? with
    | some p, some k, some step, some n =>
      if step == 0 then "bad-op" else
      match parseEx n rest with
      | some d =>
        let r := sumOfErrors (errF k) step d
        let m := showFitV (constrainedEval p r.1) ++ " diff" ++
          String.join (r.2.map (fun e => " " ++ toString e.difficulty))
        let rg := genLoop k step d
        let g := showFitV (constrainedEval p [-rg.1]) ++ " diff" ++
          String.join (rg.2.map (fun e => " " ++ toString e.difficulty))
        m ++ " ;; " ++ (if g == m then "=" else g)
      | none => "bad-op"
    | _, _, _, _ => "bad-op"
  | "cnt" :: n :: rest =>
    match n.toNat? with
    | some n =>
      match parseCnt n rest with
      | some d => let r := countEval d; showFit r.1 (r.2.map (·.difficulty))
      | none => "bad-op"
    | none => "bad-op"
  | "gau" :: c :: n :: rest =>
    match c.toNat?, n.toNat? with
    | some c, some n =>
      match parseGau n rest with
      | some d =>
        -- static_cast<double>(classes() - 1), classes() is a std::size_t
        let r := gaussEval (Float.ofNat (c - 1)) d; showFit r.1 (r.2.map (·.difficulty))
      | none => "bad-op"
    | _, _ => "bad-op"
  | ["ga", v] =>
    match parseF v with
    | some v => showFitV (gaEval v)
    | none => "bad-op"
  | "con" :: p :: k :: rest =>
    match parseF p, k.toNat?, rest.mapM parseF with
    | some p, some k, some vs => if vs.length == k then showFitV (constrainedEval p vs) else "bad-op"
    | _, _, _ => "bad-op"
  | "dynx" :: c :: x :: m :: n :: rest =>
    match c.toNat?, x.toNat?, m.toNat?, n.toNat? with
    | some c, some x, some m, some n =>
      match parseTEx m n rest with
      | some d => showCls (Cls.dynSlotEvaluator c x m d)
      | none => "bad-op"
    | _, _, _, _ => "bad-op"
  | "gaux" :: c :: m :: n :: rest =>
    match c.toNat?, m.toNat?, n.toNat? with
    | some c, some m, some n =>
      match parseTEx m n rest with
      | some d => showCls (Cls.gaussianEvaluator c m d)
      | none => "bad-op"
    | _, _, _ => "bad-op"
  | "binx" :: m :: n :: rest =>
    match m.toNat?, n.toNat? with
    | some m, some n =>
      match parseTEx m n rest with
      | some d => showCls (Cls.binaryEvaluator m d)
      | none => "bad-op"
    | _, _ => "bad-op"
  | "tev" :: k :: n :: rest =>
    let kind : Option TestKind := match k with
      | "distinct" => some .distinct | "fixed" => some .fixed | "random" => some .random | _ => none
    match kind, n.toNat?, rest.mapM String.toNat? with
    | some kind, some n, some ids =>
      if ids.length != n then "bad-op" else
      "seq" ++ String.join ((testRun testRnd kind [] ids).map (fun f =>
        match f with
        | [v] => " " ++ showF v
        | _ => " size=" ++ toString f.length))
    | _, _, _ => "bad-op"
  | ["gac", ty, pv, v] =>
    match parsePen ty pv, parseF v with
    | some p, some v => showFitV (constrainedEvalP p (gaEval v))
    | _, _ => "bad-op"
  | "cpsoe" :: ty :: pv :: k :: step :: n :: rest =>
    match parsePen ty pv, kindOf k, step.toNat?, n.toNat? with
    | some p, some k, some step, some n =>
      if step == 0 then "bad-op" else
      match parseEx n rest with
      | some d =>
        let r := sumOfErrors (errF k) step d
        let m := showFitV (constrainedEvalP p r.1) ++ " diff" ++
          String.join (r.2.map (fun e => " " ++ toString e.difficulty))
        let rg := genLoop k step d
        let g := showFitV (constrainedEvalP p [-rg.1]) ++ " diff" ++
          String.join (rg.2.map (fun e => " " ++ toString e.difficulty))
        m ++ " ;; " ++ (if g == m then "=" else g)
      | none => "bad-op"
    | _, _, _, _ => "bad-op"
  | "pen" :: ty :: v :: k :: rest =>
    match parsePen ty v, k.toNat?, rest.mapM parseF with
    | some p, some k, some vs => if vs.length == k then showFitV (constrainedEvalP p vs) else "bad-op"
    | _, _, _ => "bad-op"
  | ["small", v] =>
    match parseF v with
    | some v =>
      let m := if issmall v then "1" else "0"
      let g := if Gen.issmall v then "1" else "0"
      m ++ " ;; " ++ (if g == m then "=" else g)
    | none => "bad-op"
  | _ => "bad-op"

partial def loop (h : IO.FS.Stream) (out : IO.FS.Stream) : IO Unit := do
  let line ← h.getLine
  if line.isEmpty then return ()
  out.putStrLn (answer line)
  loop h out

def main : IO Unit := do
  loop (← IO.getStdin) (← IO.getStdout)
