/-
  C05 — the remaining shipped evaluators: `evaluator<T>::fast` (default), `test_evaluator<T>`
  (src/kernel/evaluator.tcc), the penalty component of `constrained_evaluator` for every return
  type of the penalty function (src/kernel/constrained_evaluator.tcc), GA / DE evaluators behind a
  constrained evaluator.
-/
import Vita.C05.Classify

namespace Vita.C05
open Num NumC

/-! ### `evaluator<T>::fast` : "Default implementation calls the standard fitness function" –
    the classification, GA/DE and test evaluators do not override it -/

/-- `evaluator<T>::fast(i)` = `operator()(i)` -/
def defaultFast {α β} (op : α → β) : α → β := op

/-! ### `test_evaluator<T>` -/

inductive TestKind | distinct | fixed | random
deriving Repr, DecidableEq

/-- `std::find(buffer_.begin(), buffer_.end(), prg)`; appended when absent; the index -/
def bufferIndex {α} [DecidableEq α] (buf : List α) (x : α) : Nat × List α :=
  if x ∈ buf then (buf.idxOf x, buf) else (buf.length, buf ++ [x])

/-- `test_evaluator::operator()` ; `rnd dist` = `e.seed(dist); e()` converted to `double` -/
def testEval {α F} [DecidableEq α] [NumC F] (rnd : Nat → F) (k : TestKind) (buf : List α) (x : α) :
    List F × List α :=
  match k with
  | .fixed => ([zero], buf)
  | .distinct => let r := bufferIndex buf x; ([ofNat r.1], r.2)
  | .random => let r := bufferIndex buf x; ([rnd r.1], r.2)

/-- a history of calls on one evaluator object: the fitness values returned, in order -/
def testRun {α F} [DecidableEq α] [NumC F] (rnd : Nat → F) (k : TestKind) :
    List α → List α → List (List F)
  | _, [] => []
  | buf, x :: rest => let r := testEval rnd k buf x; r.1 :: testRun rnd k r.2 rest

/-! ### the penalty component of `constrained_evaluator`

  `combine(fitness_t{-static_cast<double>(penalty_(prg))}, eva_(prg))` : the penalty is converted
  to `double` FIRST, then negated (fix3-c05; the shipped code negated in the penalty's own type:
  `static_cast<double>(-penalty_(prg))`, see `legacyComponent`). -/

/-- what the penalty function returned, by return type -/
inductive Pen (F : Type) where
  /-- `double` (also through `penalty_func_t = std::function<double (const T &)>`), `float` (widened exactly) -/
  | dbl (x : F)
  /-- `int`, `long long` -/
  | int (n : Int)
  /-- `unsigned`, `std::size_t`; `bits` = width of the type -/
  | nat (bits : Nat) (n : Nat)
  /-- `bool` -/
  | bool (b : Bool)

/-- `static_cast<double>(integer)` (round to nearest is symmetric) -/
def ofIntF {F} [NumC F] (i : Int) : F := if i < 0 then neg (ofNat i.natAbs) else ofNat i.toNat

/-- `static_cast<double>(penalty_(prg))` -/
def Pen.toF {F} [NumC F] : Pen F → F
  | .dbl x => x
  | .int n => ofIntF n
  | .nat _ n => ofNat n
  | .bool b => if b then one else zero

/-- the first component of the constrained fitness -/
def penaltyComponent {F} [NumC F] (p : Pen F) : F := neg p.toF

/-- the shipped expression `static_cast<double>(-penalty_(prg))`: the negation of an unsigned
    penalty wraps around (`2^bits − n`), `bool` is promoted to `int` -/
def legacyComponent {F} [NumC F] : Pen F → F
  | .dbl x => neg x
  | .int n => ofIntF (-n)
  | .nat bits n => ofNat ((2 ^ bits - n % 2 ^ bits) % 2 ^ bits)
  | .bool b => ofIntF (if b then -1 else 0)

/-- `constrained_evaluator::operator()` / `fast()` around any base fitness -/
def constrainedEvalP {F} [NumC F] (p : Pen F) (base : List F) : List F := [penaltyComponent p] ++ base

end Vita.C05
