/-
  C05 — the remaining shipped evaluators: `evaluator<T>::fast` (default), `test_evaluator<T>`
  (src/kernel/evaluator.tcc), the penalty component of `constrained_evaluator` for every return
  type of the penalty function (src/kernel/constrained_evaluator.tcc), GA / DE evaluators behind a
  constrained evaluator.
-/
import Vita.C05.Classify

namespace Vita.C05
open Num NumC

/-! ### `evaluator<T>::fast` : "Default implementation calls the standard fitness function" –
    the classification, GA/DE and test evaluators do not override it -/

/-- `evaluator<T>::fast(i)` = `operator()(i)` -/
def defaultFast {α β} (op : α → β) : α → β := op

/-! ### `test_evaluator<T>` -/

inductive TestKind | distinct | fixed | random
deriving Repr, DecidableEq

/-- `std::find(buffer_.begin(), buffer_.end(), prg)`; appended when absent; the index -/
def bufferIndex {α} [DecidableEq α] (buf : List α) (x : α) : Nat × List α :=
  if x ∈ buf then (buf.idxOf x, buf) else (buf.length, buf ++ [x])

/-- `test_evaluator::operator()` ; `rnd dist` = `e.seed(dist); e()` converted to `double` -/
def testEval {α F} [DecidableEq α] [NumC F] (rnd : Nat → F) (k : TestKind) (buf : List α) (x : α) :
    List F × List α :=
  match k with
  | .fixed => ([zero], buf)
  | .distinct => let r := bufferIndex buf x; ([ofNat r.1], r.2)
  | .random => let r := bufferIndex buf x; ([rnd r.1], r.2)

/-- a history of calls on one evaluator object: the fitness values returned, in order -/
def testRun {α F} [DecidableEq α] [NumC F] (rnd : Nat → F) (k : TestKind) :
    List α → List α → List (List F)
  | _, [] => []
  | buf, x :: rest => let r := testEval rnd k buf x; r.1 :: testRun rnd k r.2 rest

/-! ### the penalty component of `constrained_evaluator`

  `combine(fitness_t{-static_cast<double>(penalty_(prg))}, eva_(prg))` : the penalty is converted
  to `double` FIRST, then negated (fix3-c05; the shipped code negated in the penalty's own type:
  `static_cast<double>(-penalty_(prg))`, see `legacyComponent`). -/

/-- what the penalty function returned, by return type -/
inductive Pen (F : Type) where
  /-- `double` (also through `penalty_func_t = std::function<double (const T &)>`), `float` (widened exactly) -/
  | dbl (x : F)
  /-- `int`, `long long` -/
  | int (n : Int)
  /-- `unsigned`, `std::size_t`; `bits` = width of the type -/
  | nat (bits : Nat) (n : Nat)
  /-- `bool` -/
  | bool (b : Bool)

/-- `static_cast<double>(integer)` (round to nearest is symmetric) -/
def ofIntF {F} [NumC F] (i : Int) : F := if i < 0 then neg (ofNat i.natAbs) else ofNat i.toNat

/-- `static_cast<double>(penalty_(prg))` -/
def Pen.toF {F} [NumC F] : Pen F → F
  | .dbl x => x
  | .int n => ofIntF n
  | .nat _ n => ofNat n
  | .bool b => if b then one else zero

/-- the first component of the constrained fitness -/
def penaltyComponent {F} [NumC F] (p : Pen F) : F := neg p.toF

/-- the shipped expression `static_cast<double>(-penalty_(prg))`: the negation of an unsigned
    penalty wraps around (`2^bits − n`), `bool` is promoted to `int` -/
def legacyComponent {F} [NumC F] : Pen F → F
  | .dbl x => neg x
  | .int n => ofIntF (-n)
  | .nat bits n => ofNat ((2 ^ bits - n % 2 ^ bits) % 2 ^ bits)
  | .bool b => ofIntF (if b then -1 else 0)

/-- `constrained_evaluator::operator()` / `fast()` around any base fitness -/
def constrainedEvalP {F} [NumC F] (p : Pen F) (base : List F) : List F := [penaltyComponent p] ++ base

/-! ### an evaluator OBJECT that outlives changes of its dataframe

  The shipped evaluators hold a POINTER to a mutable `dataframe` (DSS, holdout validation and
  `read_csv` on an existing frame change it under them) plus parameters fixed at construction
  (`x_slot`, the error functor, the penalty function).  In the model an evaluator object is its
  parameters only – `call : D → R × D` is a closure over them and takes the data AT CALL TIME
  (rows, number of classes of the class table, counters) – nothing is read at construction. -/

/-- what can happen between construction and destruction of an evaluator object -/
inductive HistOp (D : Type) where
  /-- the dataframe changes: rows appended / erased / reloaded, classes added to the class table, … -/
  | mutate (f : D → D)
  /-- `operator()` / `fast()` is called -/
  | call

/-- a history on one evaluator object: the results of its calls, in order, and the final data
    (a call also updates the difficulty counters: it returns the data afterwards) -/
def runHist {D R : Type} (call : D → R × D) : D → List (HistOp D) → List R × D
  | d, [] => ([], d)
  | d, .mutate f :: ops => runHist call (f d) ops
  | d, .call :: ops =>
    let r := call d
    let rest := runHist call r.2 ops
    (r.1 :: rest.1, rest.2)

/-- number of calls in a history -/
def nCalls {D : Type} : List (HistOp D) → Nat
  | [] => 0
  | .mutate _ :: ops => nCalls ops
  | .call :: ops => nCalls ops + 1

/-- a classification dataframe as an evaluator sees it at call time -/
structure ClsFrame (F : Type) where
  /-- `dat_->classes()` : size of the class table (may exceed the number of labels present in the rows) -/
  classes : Nat
  rows : List (Cls.TEx F)

/-- write the counters of an evaluation back into the rows -/
def ClsFrame.withCounters {F} (fr : ClsFrame F) (after : List (CEx F)) : ClsFrame F :=
  { fr with rows := (fr.rows.zip after).map (fun p => { p.1 with difficulty := p.2.difficulty }) }

/-- the shipped evaluators as closures over their construction parameters -/
def soeCall {F} [Num F] (k : ErrKind) (step : Nat) : List (Ex F) → List F × List (Ex F) :=
  fun d => sumOfErrors (errF k) step d
def dynCall {F} [NumC F] (xslot members : Nat) : ClsFrame F → List F × ClsFrame F :=
  fun fr => let r := Cls.dynSlotEvaluator fr.classes xslot members fr.rows; (r.1, fr.withCounters r.2)
def gaussCall {F} [NumC F] (members : Nat) : ClsFrame F → List F × ClsFrame F :=
  fun fr => let r := Cls.gaussianEvaluator fr.classes members fr.rows; (r.1, fr.withCounters r.2)
def binCall {F} [NumC F] (members : Nat) : ClsFrame F → List F × ClsFrame F :=
  fun fr => let r := Cls.binaryEvaluator members fr.rows; (r.1, fr.withCounters r.2)

end Vita.C05
