/-
  C05 — the Gaussian evaluator never returns NaN and never a positive value, for every number type
  obeying the IEEE-754 facts of `GaussLaws` (HYPOTHESES, a structure – never axioms), for every
  dataset, every program output (missing, astronomically large, beyond the ±1e7 cut of
  `fill_vector`), every class layout (a class with one example or with equal outputs: variance 0;
  a class without usable example: variance 0/0 = NaN; all class scores underflowing to 0).

  Shape of the argument (all steps below are lemmas of this file):
    Welford's term `δ·(v − mean')` is ≥ 0 or NaN      (`welford_term`, derived law, see design/C05.md)
    ⇒ `m2_` is sign-positive or NaN ⇒ `variance()` is sign-positive or NaN
    ⇒ the exponent `−d·d / variance` is ≤ 0 or NaN ⇒ every class score `p` is in [0,1] or NaN
    ⇒ the selection loop keeps `0 ≤ val_ ≤ 1` and (`sum_` NaN or `val_ ≤ sum_`)
    ⇒ the confidence `sum_ > 0 ? val_/sum_ : 0` is in [0,1], never NaN
    ⇒ every summand of the score is in [−1, 0] ⇒ the running sum is ≤ 0, never NaN.
-/
import Vita.C05.Laws
import Vita.C05.Extra

namespace Vita.C05
open Num NumC

/-- IEEE-754 facts used by the Gaussian evaluator, on top of `IEEELaws`. -/
structure GaussLaws (F : Type) [NumC F] where
  base : IEEELaws F
  /-- sign bit set and not NaN: −0, a negative finite value or −∞ -/
  sn : F → Prop
  zero_sp : base.sp (zero : F)
  one_sp : base.sp (one : F)
  zero_le_one : le (zero : F) one = true
  one_le_one : le (one : F) one = true
  zero_le_zero : le (zero : F) zero = true
  /-- a comparison that holds has no NaN operand -/
  lt_not_nan : ∀ x y : F, lt x y = true → ¬ base.nan x ∧ ¬ base.nan y
  /-- a count converts to a sign-positive value (`+0` for 0), `> 0` when the count is ≥ 1 -/
  ofNat_sp : ∀ n : Nat, base.sp (ofNat n : F)
  ofNat_pos : ∀ n : Nat, 1 ≤ n → lt (zero : F) (ofNat n) = true
  exp_nan : ∀ x : F, base.nan x → base.nan (exp x)
  /-- negation flips the sign bit -/
  neg_sp : ∀ x : F, base.sp x → sn (neg x)
  /-- (−)·(+) and (−)/(+) are sign-negative or NaN (0·∞, ∞/∞, 0/0) -/
  mul_sn_sp : ∀ x y : F, sn x → base.sp y → ¬ base.nan (mul x y) → sn (mul x y)
  div_sn_sp : ∀ x y : F, sn x → base.sp y → ¬ base.nan (div x y) → sn (div x y)
  sn_le_zero : ∀ x : F, sn x → le x zero = true
  /-- `x ≤ 0 → 0 ≤ exp x ≤ 1` (`exp(−∞) = 0`, underflow gives `+0`) -/
  exp_unit : ∀ x : F, le x zero = true → base.sp (exp x) ∧ le (exp x) one = true
  /-- `δ·(v − (m + δ/c))` with `δ = v − m` and a count `c ≥ 1` is ≥ 0 or NaN.
      DERIVED fact (not a primitive of IEEE-754): for `c ≥ 2`, `fl(δ/c) ≤ |δ|/2·(1+u) ≤ |v − m|`, so
      `m + δ/c` stays on `m`'s side of `v` and both factors have the sign of `v − m`; the code
      only reaches `c = 1` with `m = v`, where `δ = 0` (design/C05.md). -/
  welford_term : ∀ (v m : F) (c : Nat), 1 ≤ c →
      ¬ base.nan (mul (sub v m) (sub v (add m (div (sub v m) (ofNat c))))) →
      base.sp (mul (sub v m) (sub v (add m (div (sub v m) (ofNat c)))))
  /-- a sum of sign-positive values is at least each of them (rounding is monotone) -/
  add_ge_left : ∀ s p : F, base.sp s → base.sp p → ¬ base.nan (add s p) → le s (add s p) = true
  add_ge_right : ∀ s p : F, base.sp s → base.sp p → ¬ base.nan (add s p) → le p (add s p) = true
  le_trans : ∀ x y z : F, le x y = true → le y z = true → le x z = true
  /-- `0 ≤ v ≤ 1`, `v ≤ s`, `0 < s` : `v / s` is in [0,1] -/
  div_unit : ∀ v s : F, base.sp v → le v one = true → base.sp s → lt zero s = true → le v s = true →
      base.sp (div v s) ∧ le (div v s) one = true
  /-- `0 ≤ c ≤ 1` : `c − 1` is not NaN and ≤ 0 -/
  unit_sub_one : ∀ c : F, base.sp c → le c one = true → ¬ base.nan (sub c one) ∧ le (sub c one) zero = true
  /-- a value ≤ 0 divided by a sign-positive value > 0 is not NaN and ≤ 0 -/
  np_div_pos : ∀ x s : F, ¬ base.nan x → le x zero = true → base.sp s → lt zero s = true →
      ¬ base.nan (div x s) ∧ le (div x s) zero = true
  /-- sums of values ≤ 0 (−∞ included) are not NaN and ≤ 0 -/
  np_add : ∀ x y : F, ¬ base.nan x → le x zero = true → ¬ base.nan y → le y zero = true →
      ¬ base.nan (add x y) ∧ le (add x y) zero = true
  np_sub_one : ∀ x : F, ¬ base.nan x → le x zero = true → ¬ base.nan (sub x one) ∧ le (sub x one) zero = true
  /-- the cut `10000000.0` of `fill_vector`: `−cut ≤ cut`, both comparable with themselves -/
  cut_range : le (neg (cut : F)) cut = true ∧ le (cut : F) cut = true ∧ le (neg (cut : F)) (neg cut) = true
  /-- the two comparisons are complementary on non-NaN values -/
  not_lt_le : ∀ x y : F, ¬ base.nan x → ¬ base.nan y → lt x y = false → le y x = true

namespace Cls
variable {F : Type} [NumC F] (G : GaussLaws F)

/-- sign-positive or NaN -/
def SpN (x : F) : Prop := G.base.nan x ∨ G.base.sp x
/-- in [0,1] (hence not NaN) -/
def Unit01 (x : F) : Prop := G.base.sp x ∧ le x one = true
/-- in [0,1] or NaN -/
def UnitN (x : F) : Prop := G.base.nan x ∨ Unit01 G x
/-- not NaN and ≤ 0 -/
def NonPos (x : F) : Prop := ¬ G.base.nan x ∧ le x zero = true

theorem spn_of_not_nan {x : F} (h : SpN G x) (hn : ¬ G.base.nan x) : G.base.sp x := by
  rcases h with h | h
  · exact absurd h hn
  · exact h

theorem unit_zero : Unit01 G (zero : F) := ⟨G.zero_sp, G.zero_le_one⟩
theorem unit_one : Unit01 G (one : F) := ⟨G.one_sp, G.one_le_one⟩
theorem sp_not_nan {x : F} (h : G.base.sp x) : ¬ G.base.nan x :=
  (G.base.le_not_nan _ _ (G.base.sp_nn x h)).2
theorem unit_not_nan {x : F} (h : Unit01 G x) : ¬ G.base.nan x := sp_not_nan G h.1

/-! #### the cut of `fill_vector` -/

/-- whatever the program yields (nothing, ±1e308, …, anything but NaN), the value fed to a class
    distribution lies in [−1e7, 1e7] -/
theorem cutVal_bounded (o : Option F) (h : ¬ G.base.nan (valOr0 o)) :
    le (neg (cut : F)) (cutVal o) = true ∧ le (cutVal o) (cut : F) = true := by
  unfold cutVal
  simp only []
  have hc : ¬ G.base.nan (cut : F) := (G.base.le_not_nan _ _ G.cut_range.2.1).1
  have hnc : ¬ G.base.nan (neg (cut : F)) := (G.base.le_not_nan _ _ G.cut_range.2.2).1
  split
  · exact ⟨G.cut_range.1, G.cut_range.2.1⟩
  · rename_i h1
    split
    · exact ⟨G.cut_range.2.2, G.cut_range.1⟩
    · rename_i h2
      have h1' : lt (cut : F) (valOr0 o) = false := by simpa using h1
      have h2' : lt (valOr0 o) (neg (cut : F)) = false := by simpa using h2
      exact ⟨G.not_lt_le _ _ h hnc h2', G.not_lt_le _ _ hc h h1'⟩

/-! #### the distributions -/

/-- invariant of a class distribution: `m2_` is sign-positive or NaN -/
def DistOK (d : Dist F) : Prop := SpN G d.m2

theorem empty_ok : DistOK G (Dist.empty : Dist F) := Or.inr G.zero_sp

theorem push_ok (d : Dist F) (v : F) (h : DistOK G d) : DistOK G (d.push v) := by
  unfold DistOK Dist.push
  by_cases hnan : isNaN v = true
  · simp only [hnan, if_true]; exact h
  · simp only [hnan]
    have hc : 1 ≤ d.count + 1 := by omega
    have ht := G.welford_term v (if d.count = 0 then v else d.mean) (d.count + 1) hc
    generalize (mul (sub v (if d.count = 0 then v else d.mean))
          (sub v (add (if d.count = 0 then v else d.mean)
            (div (sub v (if d.count = 0 then v else d.mean)) (ofNat (d.count + 1)))))) = t at ht ⊢
    show SpN G (if d.count + 1 > 1 then add d.m2 t else t)
    by_cases hc1 : d.count + 1 > 1
    · rw [if_pos hc1]
      unfold SpN
      by_cases hs : G.base.nan (add d.m2 t)
      · exact Or.inl hs
      · right
        have hm : ¬ G.base.nan d.m2 := fun hn => hs (G.base.add_nan _ _ (Or.inl hn))
        have htn : ¬ G.base.nan t := fun hn => hs (G.base.add_nan _ _ (Or.inr hn))
        exact G.base.add_sp _ _ (spn_of_not_nan G h hm) (ht htn) hs
    · rw [if_neg hc1]
      unfold SpN
      by_cases hs : G.base.nan t
      · exact Or.inl hs
      · exact Or.inr (ht hs)

theorem modify_ok (ds : List (Dist F)) (i : Nat) (f : Dist F → Dist F)
    (hf : ∀ d, DistOK G d → DistOK G (f d)) (h : ∀ d ∈ ds, DistOK G d) :
    ∀ d ∈ ds.modify i f, DistOK G d := by
  induction ds generalizing i with
  | nil => intro d hd; simp at hd
  | cons a rest ih =>
    cases i with
    | zero =>
      intro d hd
      simp only [List.modify_zero_cons, List.mem_cons] at hd
      rcases hd with hd | hd
      · subst hd; exact hf a (h a (by simp))
      · exact h d (by simp [hd])
    | succ j =>
      intro d hd
      simp only [List.modify_succ_cons, List.mem_cons] at hd
      rcases hd with hd | hd
      · subst hd; exact h _ (by simp)
      · exact ih j (fun x hx => h x (by simp [hx])) d hd

theorem fillVector_ok (classes : Nat) (train : List (Option F × Nat)) :
    ∀ d ∈ fillVector classes train, DistOK G d := by
  unfold fillVector
  have h0 : ∀ d ∈ List.replicate classes (Dist.empty : Dist F), DistOK G d := by
    intro d hd
    rw [List.mem_replicate] at hd
    rw [hd.2]; exact empty_ok G
  generalize List.replicate classes (Dist.empty : Dist F) = ds0 at h0
  induction train generalizing ds0 with
  | nil => simpa using h0
  | cons e rest ih =>
    simp only [List.foldl_cons]
    exact ih _ (modify_ok G ds0 e.2 _ (fun d hd => push_ok G d _ hd) h0)

/-! #### the class scores -/

/-- `variance()` of an admissible distribution is sign-positive or NaN (`0/0` for an empty one) -/
theorem variance_spn (d : Dist F) (h : DistOK G d) : SpN G d.variance := by
  unfold Dist.variance SpN
  by_cases hq : G.base.nan (div d.m2 (ofNat d.count))
  · exact Or.inl hq
  · right
    have hm : ¬ G.base.nan d.m2 := fun hn => hq (G.base.div_nan _ _ (Or.inl hn))
    exact G.base.div_sp _ _ (spn_of_not_nan G h hm) (G.ofNat_sp d.count) hq

/-- every class score is in [0,1] or NaN – whatever the output `x` (huge, not cut) and whatever the
    distribution (variance 0, NaN, tiny: exponent −∞ … 0) -/
theorem gaussP_unitN (x : F) (d : Dist F) (h : DistOK G d) : UnitN G (gaussP x d) := by
  unfold gaussP
  simp only []
  split
  · split
    · exact Or.inr (unit_one G)
    · exact Or.inr (unit_zero G)
  · generalize hdist : abs (sub x d.mean) = dist
    by_cases he : G.base.nan (div (mul (neg dist) dist) d.variance)
    · exact Or.inl (G.exp_nan _ he)
    · right
      have hnum : ¬ G.base.nan (mul (neg dist) dist) := fun hn => he (G.base.div_nan _ _ (Or.inl hn))
      have hvar : ¬ G.base.nan d.variance := fun hn => he (G.base.div_nan _ _ (Or.inr hn))
      have hd : ¬ G.base.nan dist := fun hn => hnum (G.base.mul_nan _ _ (Or.inr hn))
      have hsp : G.base.sp dist := by rw [← hdist] at hd ⊢; exact G.base.abs_sp _ hd
      have hsn := G.mul_sn_sp _ _ (G.neg_sp _ hsp) hsp hnum
      have hv := spn_of_not_nan G (variance_spn G d h) hvar
      exact G.exp_unit _ (G.sn_le_zero _ (G.div_sn_sp _ _ hsn hv he))

/-! #### the selection loop and the confidence -/

/-- invariant of `(probable_class, val_, sum_)` -/
def PickInv (r : Nat × F × F) : Prop :=
  Unit01 G r.2.1 ∧ (G.base.nan r.2.2 ∨ (G.base.sp r.2.2 ∧ le r.2.1 r.2.2 = true))

theorem pickGo_inv (ps : List F) (hps : ∀ p ∈ ps, UnitN G p) :
    ∀ (i : Nat) (r : Nat × F × F), PickInv G r → PickInv G (pickGo ps i r) := by
  induction ps with
  | nil => intro i r h; simpa [pickGo] using h
  | cons p rest ih =>
    intro i r h
    obtain ⟨c, v, s⟩ := r
    have hp := hps p (by simp)
    have hrest : ∀ q ∈ rest, UnitN G q := fun q hq => hps q (by simp [hq])
    simp only [pickGo]
    obtain ⟨hv, hs⟩ := h
    simp only [] at hv hs
    split
    · rename_i hlt
      have hpn : ¬ G.base.nan p := (G.lt_not_nan _ _ hlt).2
      have hpu : Unit01 G p := by
        rcases hp with hp | hp
        · exact absurd hp hpn
        · exact hp
      apply ih hrest
      refine ⟨hpu, ?_⟩
      simp only []
      by_cases hn : G.base.nan (add s p)
      · exact Or.inl hn
      · right
        have hsn : ¬ G.base.nan s := fun h' => hn (G.base.add_nan _ _ (Or.inl h'))
        have hss : G.base.sp s := by
          rcases hs with hs | hs
          · exact absurd hs hsn
          · exact hs.1
        exact ⟨G.base.add_sp _ _ hss hpu.1 hn, G.add_ge_right _ _ hss hpu.1 hn⟩
    · apply ih hrest
      refine ⟨hv, ?_⟩
      simp only []
      by_cases hn : G.base.nan (add s p)
      · exact Or.inl hn
      · right
        have hsn : ¬ G.base.nan s := fun h' => hn (G.base.add_nan _ _ (Or.inl h'))
        have hpn : ¬ G.base.nan p := fun h' => hn (G.base.add_nan _ _ (Or.inr h'))
        have hpu : Unit01 G p := by
          rcases hp with hp | hp
          · exact absurd hp hpn
          · exact hp
        rcases hs with hs | hs
        · exact absurd hs hsn
        · exact ⟨G.base.add_sp _ _ hs.1 hpu.1 hn,
            G.le_trans _ _ _ hs.2 (G.add_ge_left _ _ hs.1 hpu.1 hn)⟩

theorem pick_inv (ps : List F) (hps : ∀ p ∈ ps, UnitN G p) : PickInv G (pick ps) := by
  unfold pick
  exact pickGo_inv G ps hps 0 _ ⟨unit_zero G, Or.inr ⟨G.zero_sp, G.zero_le_zero⟩⟩

/-- `sum_ > 0.0 ? val_ / sum_ : 0.0` is in [0,1] – never NaN, also when `sum_` is NaN or 0 -/
theorem conf_unit (r : Nat × F × F) (h : PickInv G r) : Unit01 G (conf r) := by
  unfold conf
  split
  · rename_i hlt
    have hsn : ¬ G.base.nan r.2.2 := (G.lt_not_nan _ _ hlt).2
    rcases h.2 with hs | hs
    · exact absurd hs hsn
    · exact G.div_unit _ _ h.1.1 h.1.2 hs.1 hlt hs.2
  · exact unit_zero G

/-- `basic_gaussian_lambda_f::tag` : the confidence is in [0,1] -/
theorem gaussTag_unit (ds : List (Dist F)) (hds : ∀ d ∈ ds, DistOK G d) (out : Option F) :
    Unit01 G (gaussTag ds out).2 := by
  unfold gaussTag
  simp only []
  apply conf_unit
  apply pick_inv
  intro p hp
  simp only [List.mem_map] at hp
  obtain ⟨d, hd, rfl⟩ := hp
  exact gaussP_unitN G _ d (hds d hd)

/-- winner takes all keeps the property of the members' confidences -/
theorem wta_unit (tags : List (Nat × F)) (h : ∀ t ∈ tags, Unit01 G t.2) : Unit01 G (wta tags).2 := by
  cases tags with
  | nil => exact unit_zero G
  | cons t rest =>
    simp only [wta]
    have h0 : Unit01 G t.2 := h t (by simp)
    have hr : ∀ x ∈ rest, Unit01 G x.2 := fun x hx => h x (by simp [hx])
    clear h
    induction rest generalizing t with
    | nil => simpa using h0
    | cons a rest ih =>
      simp only [List.foldl_cons]
      apply ih
      · split
        · exact hr a (by simp)
        · exact h0
      · exact fun x hx => hr x (by simp [hx])

theorem teamTag_unit (taggers : List (Option F → Nat × F)) (ht : ∀ tg ∈ taggers, ∀ o, Unit01 G (tg o).2)
    (e : TEx F) : Unit01 G (teamTag taggers e).2 := by
  unfold teamTag
  apply wta_unit
  intro t htm
  simp only [List.mem_map] at htm
  obtain ⟨tm, htm, rfl⟩ := htm
  exact ht tm.1 (List.mem_zipIdx htm |>.2.2 ▸ List.getElem_mem _) _

theorem gaussTaggers_unit (classes members : Nat) (d : List (TEx F)) :
    ∀ tg ∈ gaussTaggers classes members d, ∀ o, Unit01 G (tg o).2 := by
  intro tg htg o
  unfold gaussTaggers at htg
  simp only [List.mem_map] at htg
  obtain ⟨m, _, rfl⟩ := htg
  exact gaussTag_unit G _ (fillVector_ok G classes _) o

/-! #### the evaluator's sum -/

theorem gaussLoop_nonpos (scale : F) (hs : G.base.sp scale) (hpos : lt (zero : F) scale = true)
    (d : List (CEx F)) (hd : ∀ e ∈ d, Unit01 G e.sureness) :
    ∀ acc : F, NonPos G acc → NonPos G (gaussLoop scale d acc).1 := by
  induction d with
  | nil => intro acc h; simpa [gaussLoop] using h
  | cons e rest ih =>
    intro acc h
    have hrest : ∀ x ∈ rest, Unit01 G x.sureness := fun x hx => hd x (by simp [hx])
    simp only [gaussLoop]
    split
    · exact ih hrest _ (G.np_sub_one _ h.1 h.2)
    · have hu := hd e (by simp)
      have h1 := G.unit_sub_one _ hu.1 hu.2
      have h2 := G.np_div_pos _ _ h1.1 h1.2 hs hpos
      exact ih hrest _ (G.np_add _ _ h.1 h.2 h2.1 h2.2)

/-- the whole evaluator: every component is not NaN and ≤ 0 -/
theorem gaussianEvaluator_nonpos (classes members : Nat) (hc : 2 ≤ classes) (d : List (TEx F)) :
    ∀ f ∈ (gaussianEvaluator classes members d).1, NonPos G f := by
  intro f hf
  unfold gaussianEvaluator gaussEval at hf
  simp only [List.mem_singleton] at hf
  subst hf
  apply gaussLoop_nonpos G _ (G.ofNat_sp _) (G.ofNat_pos _ (by omega))
  · intro e he
    unfold tagAll at he
    simp only [List.mem_map] at he
    obtain ⟨x, _, rfl⟩ := he
    exact teamTag_unit G _ (gaussTaggers_unit G classes members d) x
  · exact ⟨G.base.fin_not_nan _ G.base.zero_fin, G.zero_le_zero⟩

end Cls

/-- the laws are consistent: exact arithmetic with any `exp` that maps `x ≤ 0` into [0,1] -/
def ratGaussLaws (ex : Rat → Rat) (dsc : Rat → Nat → Nat) (hex : ∀ x : Rat, x ≤ 0 → 0 ≤ ex x ∧ ex x ≤ 1) :
    @GaussLaws Rat (ratNumC ex dsc) :=
  letI := ratNumC ex dsc
  { base := ratLaws
    sn := fun x => x ≤ 0
    zero_sp := by show (0:Rat) ≤ 0; grind
    one_sp := by show (0:Rat) ≤ 1; grind
    zero_le_one := by show decide ((0:Rat) ≤ 1) = true; simp only [decide_eq_true_eq]; grind
    one_le_one := by simp
    zero_le_zero := by simp
    lt_not_nan := by intro x y _; exact ⟨id, id⟩
    ofNat_sp := by intro n; show (0:Rat) ≤ (n : Rat); exact Rat.natCast_nonneg
    ofNat_pos := by
      intro n hn
      show decide ((0:Rat) < (n : Rat)) = true
      simp only [decide_eq_true_eq]
      exact Rat.natCast_pos.mpr (by omega)
    exp_nan := by intro x h; exact h
    neg_sp := by intro x h; show -x ≤ 0; have : (0:Rat) ≤ x := h; grind
    mul_sn_sp := by
      intro x y hx hy _
      show x * y ≤ 0
      have hx' : x ≤ 0 := hx
      have hy' : (0:Rat) ≤ y := hy
      have := Rat.mul_nonneg (show (0:Rat) ≤ -x by grind) hy'
      grind
    div_sn_sp := by
      intro x y hx hy _
      show x / y ≤ 0
      have hx' : x ≤ 0 := hx
      have hy' : (0:Rat) ≤ y := hy
      have := div_nonneg' (-x) y (by grind) hy'
      have h2 : -x / y = -(x / y) := by rw [Rat.div_def, Rat.div_def]; grind
      grind
    sn_le_zero := by intro x h; have : x ≤ 0 := h; simpa using this
    exp_unit := by
      intro x h
      have hx : x ≤ 0 := by simpa using h
      have := hex x hx
      exact ⟨this.1, by show decide (ex x ≤ 1) = true; simp only [decide_eq_true_eq]; exact this.2⟩
    welford_term := by
      intro v m c hc _
      show (0:Rat) ≤ (v - m) * (v - (m + (v - m) / (c : Rat)))
      have hcpos : (0:Rat) < (c : Rat) := Rat.natCast_pos.mpr (by omega)
      have hc1 : (1:Rat) ≤ (c : Rat) := by
        have : ((1 : Nat) : Rat) ≤ (c : Rat) := Rat.natCast_le_natCast.mpr hc
        simpa using this
      have hne : (c : Rat) ≠ 0 := by grind
      have key : (v - m) * (v - (m + (v - m) / (c : Rat))) = ((v - m) * (v - m)) * (((c : Rat) - 1) / (c : Rat)) := by
        have h1 : (v - m) / (c : Rat) * (c : Rat) = v - m := by
          rw [Rat.div_def, Rat.mul_assoc, Rat.inv_mul_cancel _ hne, Rat.mul_one]
        have h2 : ((c : Rat) - 1) / (c : Rat) * (c : Rat) = (c : Rat) - 1 := by
          rw [Rat.div_def, Rat.mul_assoc, Rat.inv_mul_cancel _ hne, Rat.mul_one]
        grind
      rw [key]
      exact Rat.mul_nonneg (mul_self_nonneg _) (div_nonneg' _ _ (by grind) (by grind))
    add_ge_left := by
      intro s p _ hp _
      have hp' : (0:Rat) ≤ p := hp
      simp only [rat_le, rat_add, decide_eq_true_eq]; grind
    add_ge_right := by
      intro s p hs _ _
      have hs' : (0:Rat) ≤ s := hs
      simp only [rat_le, rat_add, decide_eq_true_eq]; grind
    le_trans := by
      intro x y z h1 h2
      simp only [rat_le, decide_eq_true_eq] at *
      exact Rat.le_trans h1 h2
    div_unit := by
      intro v s hv _ hs hpos hvs
      have hv' : (0:Rat) ≤ v := hv
      have hs' : (0:Rat) ≤ s := hs
      simp only [rat_lt, rat_le, rat_zero, rat_one, rat_div, decide_eq_true_eq] at *
      refine ⟨div_nonneg' v s hv' hs', ?_⟩
      have hne : s ≠ 0 := by grind
      have h1 : v / s * s = v := by rw [Rat.div_def, Rat.mul_assoc, Rat.inv_mul_cancel _ hne, Rat.mul_one]
      by_cases hgt : v / s ≤ 1
      · exact hgt
      · have hlt : 1 < v / s := by grind
        have := Rat.mul_lt_mul_of_pos_right hlt hpos
        grind
    unit_sub_one := by
      intro c _ h
      simp only [rat_le, rat_sub, rat_one, rat_zero, decide_eq_true_eq] at *
      exact ⟨id, by grind⟩
    np_div_pos := by
      intro x s _ hx hs _
      have hs' : (0:Rat) ≤ s := hs
      simp only [rat_le, rat_div, rat_zero, decide_eq_true_eq] at *
      refine ⟨id, ?_⟩
      have := div_nonneg' (-x) s (by grind) hs'
      have h2 : -x / s = -(x / s) := by rw [Rat.div_def, Rat.div_def]; grind
      grind
    np_add := by
      intro x y _ hx _ hy
      simp only [rat_le, rat_add, rat_zero, decide_eq_true_eq] at *
      exact ⟨id, by grind⟩
    np_sub_one := by
      intro x _ hx
      simp only [rat_le, rat_sub, rat_one, rat_zero, decide_eq_true_eq] at *
      exact ⟨id, by grind⟩
    cut_range := by
      have hcut : (cut : Rat) = 10000000 := rfl
      simp only [rat_le, rat_neg, hcut, decide_eq_true_eq]
      refine ⟨by grind, by grind, by grind⟩
    not_lt_le := by
      intro x y _ _ h
      simp only [rat_lt, rat_le, decide_eq_false_iff_not, decide_eq_true_eq] at *
      exact Rat.not_lt.mp h }

end Vita.C05
