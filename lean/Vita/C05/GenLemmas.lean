/-
  C05 — correspondence between the GENERATED error functors (Gen.lean, from the clang AST of
  evaluator.tcc) and the hand-written model (Model.lean): helper lemmas.
-/
import Vita.C05.Gen
import Vita.C05.Lemmas

namespace Vita.C05
open Vita Num

/-! ### the literals of the C++ text, read exactly -/

theorem dec_zero : (@FloatOps.ofBits Rat ratFloatOps 0x0000000000000000) = 0 := by decide +kernel
theorem dec_one : (@FloatOps.ofBits Rat ratFloatOps 0x3FF0000000000000) = 1 := by decide +kernel
theorem dec_two : (@FloatOps.ofBits Rat ratFloatOps 0x4000000000000000) = 2 := by decide +kernel
theorem dec_ten : (@FloatOps.ofBits Rat ratFloatOps 0x4024000000000000) = 10 := by decide +kernel
theorem dec_100 : (@FloatOps.ofBits Rat ratFloatOps 0x4059000000000000) = 100 := by decide +kernel
theorem dec_200 : (@FloatOps.ofBits Rat ratFloatOps 0x4069000000000000) = 200 := by decide +kernel
/-- `std::numeric_limits<double>::max()` -/
theorem dec_max : (@FloatOps.ofBits Rat ratFloatOps 0x7FEFFFFFFFFFFFFF) = 179769313486231570814527423731704356798070567525844996598917476803157260780028538760589558632766878171540458953514382464234321326889464182768467546703537516986049910576551282076245490090389328944075868508455133942304583236903222948165808559332123348274797826204144723168738177180919299881250404026184124858368 := by
  decide +kernel
/-- `10.0 * std::numeric_limits<double>::min()` -/
theorem dec_tol : (@FloatOps.ofBits Rat ratFloatOps 0x4024000000000000) * (@FloatOps.ofBits Rat ratFloatOps 0x0010000000000000) = (10 / 2 ^ 1022 : Rat) := by
  decide +kernel
/-- `2.0 * std::numeric_limits<double>::epsilon()` -/
theorem dec_eps2 : (@FloatOps.ofBits Rat ratFloatOps 0x4000000000000000) * (@FloatOps.ofBits Rat ratFloatOps 0x3CB0000000000000) = (1 / 2 ^ 51 : Rat) := by
  decide +kernel

/-- exact arithmetic read through the `FloatOps` embedding IS the model's `Num Rat` -/
theorem numOfFloatOps_rat : @numOfFloatOps Rat ratFloatOps = (inferInstance : Num Rat) := by
  unfold numOfFloatOps
  show Num.mk _ _ _ _ _ _ _ _ _ _ _ _ _ _ _ _ _ = Num.mk _ _ _ _ _ _ _ _ _ _ _ _ _ _ _ _ _
  congr 1
  · exact dec_zero
  · exact dec_one
  · show (@FloatOps.ofBits Rat ratFloatOps _) / (@FloatOps.ofBits Rat ratFloatOps _) = _; rw [dec_max, dec_100]
  · exact dec_200
  · exact dec_100
  · exact dec_two
  · exact dec_tol
  · exact dec_eps2

/-! ### generated = hand-written, for every `FloatOps` carrier -/

section
variable {F : Type} [FloatOps F]

theorem gen_issmall (v : F) : Gen.issmall v = @issmall F (numOfFloatOps F) v := rfl

theorem gen_mae (o : Option F) (t : F) : Gen.maeErr o t = @maeErr F (numOfFloatOps F) o t := by
  cases o <;> rfl

theorem gen_mse (o : Option F) (t : F) : Gen.mseErr o t = @mseErr F (numOfFloatOps F) o t := by
  cases o <;> rfl

theorem gen_count (o : Option F) (t : F) : Gen.countErr o t = @countErr F (numOfFloatOps F) o t := by
  cases o with
  | none => rfl
  | some a =>
    simp only [Gen.countErr, countErr, castD, Option.isSome_some, Bool.not_true, Bool.false_or, gen_issmall]
    cases @issmall F (numOfFloatOps F) (@Num.sub F (numOfFloatOps F) a t) <;> rfl

/-- the control skeleton of the rmae functor: C++ text (left) and model (right) -/
theorem rmae_shape {α : Type} (c0 c1 c2 c3 : Bool) (z e e2 k : α) :
    (if c0 = true then z else if (!c1 || !c2) = true then (if (!c3) = true then k else e2) else e) =
    (if c0 = true then z else if (c1 && c2) = true then e else (if c3 = true then e2 else k)) := by
  cases c0 <;> cases c1 <;> cases c2 <;> cases c3 <;> rfl

theorem gen_rmae (o : Option F) (t : F) : Gen.rmaeErr o t = @rmaeErr F (numOfFloatOps F) o t := by
  cases o with
  | none => rfl
  | some a =>
    simp only [Gen.rmaeErr, rmaeErr, castD, Option.isSome_some, if_true]
    exact rmae_shape _ _ _ _ _ _ _ _

end

theorem gen_errF {F : Type} [FloatOps F] (k : ErrKind) : (Gen.errF k : Option F → F → F) = @errF F (numOfFloatOps F) k := by
  funext o t
  cases k
  · exact gen_mae o t
  · exact gen_rmae o t
  · exact gen_mse o t
  · exact gen_count o t

/-- … and over the exact reading, they are the model's functors over `Rat` -/
theorem gen_errF_rat (k : ErrKind) : (@Gen.errF Rat ratFloatOps k) = (errF k : Option Rat → Rat → Rat) := by
  rw [@gen_errF Rat ratFloatOps, numOfFloatOps_rat]

theorem gen_issmall_rat (v : Rat) : @Gen.issmall Rat ratFloatOps v = issmall v := by
  rw [@gen_issmall Rat ratFloatOps, numOfFloatOps_rat]

end Vita.C05
