/-
  C05 — what the generated terms of Gen.lean (tools/translate_errf.py) refer to, and the bridge
  between the `FloatOps` embedding they are written in and the `Num` class of the hand-written
  model:

  * `castD`           `lexical_cast<D_DOUBLE>(value_t)` on a value that is a double or nothing
  * `numOfFloatOps`   every `FloatOps F` is a `Num F` (the constants of `Num` are the literals /
                      `std::numeric_limits` values of the C++ text, as bit patterns)
  * `ratFloatOps`     the EXACT reading of the generated terms: `Rat` with `ofBits` decoding a
                      finite binary64 pattern to the rational number it denotes
-/
import Vita.Common.FloatOps
import Vita.C05.Model

namespace Vita.C05
open Vita

/-- `lexical_cast<D_DOUBLE>(v)` (src/utility/utility.cc): the double inside, `0.0` for a
    valueless variant -/
def castD {F : Type} [FloatOps F] (o : Option F) : F :=
  match o with
  | some a => a
  | none => FloatOps.ofBits 0x0000000000000000

/-- the `Num` structure of a `FloatOps` carrier.  NOT an instance (the model's instances for
    `Rat` / `Float` stay the canonical ones); used explicitly by the correspondence theorems. -/
@[reducible] def numOfFloatOps (F : Type) [FloatOps F] : Num F where
  zero := FloatOps.ofBits 0x0000000000000000
  one := FloatOps.ofBits 0x3FF0000000000000
  add := FloatOps.add
  sub := FloatOps.sub
  mul := FloatOps.mul
  div := FloatOps.div
  neg := FloatOps.neg
  abs := FloatOps.fabs
  lt := FloatOps.lt
  le := FloatOps.le
  isFinite := FloatOps.isFinite
  -- std::numeric_limits<double>::max() / 100.0
  penalty := FloatOps.div (FloatOps.ofBits 0x7FEFFFFFFFFFFFFF) (FloatOps.ofBits 0x4059000000000000)
  c200 := FloatOps.ofBits 0x4069000000000000
  c100 := FloatOps.ofBits 0x4059000000000000
  two := FloatOps.ofBits 0x4000000000000000
  -- 10.0 * std::numeric_limits<double>::min()
  tol := FloatOps.mul (FloatOps.ofBits 0x4024000000000000) (FloatOps.ofBits 0x0010000000000000)
  -- 2.0 * std::numeric_limits<double>::epsilon()
  eps2 := FloatOps.mul (FloatOps.ofBits 0x4000000000000000) (FloatOps.ofBits 0x3CB0000000000000)

/-- the rational number a binary64 bit pattern denotes (0 for the patterns of ±∞ / NaN, which have
    no value) -/
def decodeBits (b : Nat) : Rat :=
  let sign : Rat := if b / 2 ^ 63 % 2 = 1 then -1 else 1
  let e : Nat := b / 2 ^ 52 % 2 ^ 11
  let m : Nat := b % 2 ^ 52
  if e = 2047 then 0
  else if e = 0 then sign * (m : Rat) / ((2 ^ 1074 : Nat) : Rat)
  else if e ≥ 1075 then sign * ((2 ^ 52 + m : Nat) : Rat) * ((2 ^ (e - 1075) : Nat) : Rat)
  else sign * ((2 ^ 52 + m : Nat) : Rat) / ((2 ^ (1075 - e) : Nat) : Rat)

/-- exact arithmetic as a `FloatOps` carrier: the four operations, `fabs`, the comparisons and the
    literals are exact; nothing is infinite; the remaining fields (`floor`, libm functions, bit
    access, integer conversions) are not used by the generated functors and are placeholders. -/
@[reducible] def ratFloatOps : FloatOps Rat where
  ofBits b := decodeBits b.toNat
  toBits _ := 0
  add := (· + ·)
  sub := (· - ·)
  mul := (· * ·)
  div := (· / ·)
  neg := (- ·)
  fabs := Rat.abs
  floor x := x
  sqrt x := x
  log x := x
  exp x := x
  sin x := x
  cos x := x
  fmod x _ := x
  fmin x _ := x
  fmax x _ := x
  isFinite _ := true
  lt a b := decide (a < b)
  le a b := decide (a ≤ b)
  eq a b := decide (a = b)
  ofNat n := (n : Rat)
  ofInt i := (i : Rat)
  toInt _ := 0

end Vita.C05
