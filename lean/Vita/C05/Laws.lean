/-
  C05 — the IEEE-754 facts used by the "never NaN, never positive" clause, as a structure of
  HYPOTHESES (`IEEELaws`), the lemmas that follow from them for the shipped error functors and
  the running mean, and a proof that exact rational arithmetic satisfies every law
  (consistency / non-vacuity).
-/
import Vita.C05.Lemmas
namespace Vita.C05
open Num

/-- `0 ≤ x` as the code tests it (false for NaN, true for +∞ and for both zeros) -/
def nn {F} [Num F] (x : F) : Prop := le (zero : F) x = true

/-- The IEEE-754 / binary64 facts the "never NaN, never positive" clause rests on.
    They are HYPOTHESES of the theorems that use them (a structure, not axioms).

    `fin`, `nan`, `cnt` are the meta-level classes "finite", "NaN", "a count 1, 2, 3, …
    produced by `++n` from 0.0" of the number type. -/
structure IEEELaws (F : Type) [Num F] where
  fin : F → Prop
  nan : F → Prop
  cnt : F → Prop
  /-- sign bit clear and not NaN: +0, a positive finite value or +∞ -/
  sp : F → Prop
  fin_not_nan : ∀ x, fin x → ¬ nan x
  /-- `std::isfinite` decides finiteness -/
  isFinite_iff : ∀ x, isFinite x = true ↔ fin x
  zero_fin : fin zero
  zero_nn : nn (zero : F)
  one_fin : fin one
  one_nn : nn (one : F)
  penalty_fin : fin penalty
  penalty_nn : nn (penalty : F)
  c200_fin : fin c200
  c200_nn : nn (c200 : F)
  c100_sp : sp c100
  c200_sp : sp c200
  two_sp : sp two
  /-- a sign-positive value compares ≥ 0 -/
  sp_nn : ∀ x, sp x → nn x
  /-- `fabs` clears the sign bit (its only other result is NaN) -/
  abs_sp : ∀ x, ¬ nan (abs x) → sp (abs x)
  /-- `fabs`, `*`, `+`, `/` propagate NaN operands -/
  abs_nan : ∀ x, nan x → nan (abs x)
  mul_nan : ∀ x y, nan x ∨ nan y → nan (mul x y)
  add_nan : ∀ x y, nan x ∨ nan y → nan (add x y)
  div_nan : ∀ x y, nan x ∨ nan y → nan (div x y)
  /-- a square is ≥ 0 or NaN -/
  mul_self_nn : ∀ x, ¬ nan (mul x x) → nn (mul x x)
  /-- products, sums and quotients of sign-positive values are sign-positive or NaN
      (0·∞, 0/0, ∞/∞) -/
  mul_sp : ∀ x y, sp x → sp y → ¬ nan (mul x y) → sp (mul x y)
  add_sp : ∀ x y, sp x → sp y → ¬ nan (add x y) → sp (add x y)
  div_sp : ∀ x y, sp x → sp y → ¬ nan (div x y) → sp (div x y)
  /-- a comparison that holds has no NaN operand -/
  le_not_nan : ∀ x y, le x y = true → ¬ nan x ∧ ¬ nan y
  /-- `0 ≤ x ≤ y`, `y` finite: `x` is finite -/
  fin_of_le : ∀ x y, nn x → fin y → le x y = true → fin x
  /-- `++n` from 0.0 -/
  cnt_one : cnt (add zero one)
  cnt_succ : ∀ n, cnt n → cnt (add n one)
  /-- first step of the running mean: `0 + (e − 0) / 1` (it is `e`) -/
  mean_first : ∀ e, fin e → nn e → fin (add zero (div (sub e zero) (add zero one))) ∧
      nn (add zero (div (sub e zero) (add zero one)))
  /-- later steps: for finite `a, e ≥ 0` and a count `n ≥ 1` the value
      `a + (e − a)/(n+1)` lies between `a` and `e`, hence is finite and ≥ 0
      (round-to-nearest is monotone and `(1+2⁻⁵³)² ≤ 2`; see design/C05.md) -/
  mean_next : ∀ a e n, fin a → nn a → fin e → nn e → cnt n →
      fin (add a (div (sub e a) (add n one))) ∧ nn (add a (div (sub e a) (add n one)))
  /-- negation of a finite value ≥ 0 is not NaN and ≤ 0 -/
  neg_nonpos : ∀ x, fin x → nn x → ¬ nan (neg x) ∧ le (neg x) zero = true

section laws
variable {F : Type} [Num F] (L : IEEELaws F)

/-- invariant of the running mean -/
def MeanInv (s : F × F) : Prop := s = (zero, zero) ∨ (L.fin s.1 ∧ nn s.1 ∧ L.cnt s.2)

theorem meanStep_inv (s : F × F) (e : F) (hs : MeanInv L s) (he : L.fin e ∧ nn e) :
    MeanInv L (meanStep s e) := by
  right
  rcases hs with h | ⟨h1, h2, h3⟩
  · subst h
    have := L.mean_first e he.1 he.2
    exact ⟨this.1, this.2, L.cnt_one⟩
  · have := L.mean_next s.1 e s.2 h1 h2 he.1 he.2 h3
    exact ⟨this.1, this.2, L.cnt_succ _ h3⟩

theorem runMean_inv (errs : List F) : ∀ s, MeanInv L s → (∀ e ∈ errs, L.fin e ∧ nn e) →
    MeanInv L (runMean s errs) := by
  induction errs with
  | nil => intro s hs _; exact hs
  | cons e rest ih =>
    intro s hs h
    simp only [runMean, List.foldl_cons]
    exact ih _ (meanStep_inv L s e hs (h e (by simp))) (fun x hx => h x (by simp [hx]))

theorem runMean_fin_nn (errs : List F) (h : ∀ e ∈ errs, L.fin e ∧ nn e) :
    L.fin (runMean (zero, zero) errs).1 ∧ nn (runMean (zero, zero) errs).1 := by
  rcases runMean_inv L errs (zero, zero) (Or.inl rfl) h with h1 | h1
  · rw [h1]; exact ⟨L.zero_fin, L.zero_nn⟩
  · exact ⟨h1.1, h1.2.1⟩

theorem maeErr_fin_nn (o : Option F) (t : F) : L.fin (maeErr o t) ∧ nn (maeErr o t) := by
  unfold maeErr
  cases o with
  | none => exact ⟨L.penalty_fin, L.penalty_nn⟩
  | some a =>
    simp only []
    split
    · rename_i h
      have hf := (L.isFinite_iff _).mp h
      exact ⟨hf, L.sp_nn _ (L.abs_sp _ (L.fin_not_nan _ hf))⟩
    · exact ⟨L.penalty_fin, L.penalty_nn⟩

theorem mseErr_fin_nn (o : Option F) (t : F) : L.fin (mseErr o t) ∧ nn (mseErr o t) := by
  unfold mseErr
  cases o with
  | none => exact ⟨L.penalty_fin, L.penalty_nn⟩
  | some a =>
    simp only []
    split
    · rename_i h
      have hf := (L.isFinite_iff _).mp h
      exact ⟨hf, L.mul_self_nn _ (L.fin_not_nan _ hf)⟩
    · exact ⟨L.penalty_fin, L.penalty_nn⟩

theorem rmaeErr_fin_nn (o : Option F) (t : F) : L.fin (rmaeErr o t) ∧ nn (rmaeErr o t) := by
  unfold rmaeErr
  cases o with
  | none => exact ⟨L.c200_fin, L.c200_nn⟩
  | some a =>
    simp only []
    split
    · exact ⟨L.zero_fin, L.zero_nn⟩
    · split
      · rename_i h
        simp only [Bool.and_eq_true] at h
        have hf := (L.isFinite_iff _).mp h.2
        refine ⟨hf, ?_⟩
        have hq := L.fin_not_nan _ hf
        have hnum : ¬ L.nan (mul c200 (abs (sub t a))) := fun hn => hq (L.div_nan _ _ (Or.inl hn))
        have hden : ¬ L.nan (add (abs a) (abs t)) := fun hn => hq (L.div_nan _ _ (Or.inr hn))
        have hd : ¬ L.nan (abs (sub t a)) := fun hn => hnum (L.mul_nan _ _ (Or.inr hn))
        have ha : ¬ L.nan (abs a) := fun hn => hden (L.add_nan _ _ (Or.inl hn))
        have ht : ¬ L.nan (abs t) := fun hn => hden (L.add_nan _ _ (Or.inr hn))
        exact L.sp_nn _ (L.div_sp _ _ (L.mul_sp _ _ L.c200_sp (L.abs_sp _ hd) hnum)
          (L.add_sp _ _ (L.abs_sp _ ha) (L.abs_sp _ ht) hden) hq)
      · split
        · rename_i h2
          have he := (L.le_not_nan _ _ h2).1
          have hq : ¬ L.nan (div (abs (sub t a)) (add (div (abs a) two) (div (abs t) two))) :=
            fun hn => he (L.mul_nan _ _ (Or.inr hn))
          have hd : ¬ L.nan (abs (sub t a)) := fun hn => hq (L.div_nan _ _ (Or.inl hn))
          have hs : ¬ L.nan (add (div (abs a) two) (div (abs t) two)) :=
            fun hn => hq (L.div_nan _ _ (Or.inr hn))
          have ha2 : ¬ L.nan (div (abs a) two) := fun hn => hs (L.add_nan _ _ (Or.inl hn))
          have ht2 : ¬ L.nan (div (abs t) two) := fun hn => hs (L.add_nan _ _ (Or.inr hn))
          have ha : ¬ L.nan (abs a) := fun hn => ha2 (L.div_nan _ _ (Or.inl hn))
          have ht : ¬ L.nan (abs t) := fun hn => ht2 (L.div_nan _ _ (Or.inl hn))
          have hsp := L.mul_sp _ _ L.c100_sp
            (L.div_sp _ _ (L.abs_sp _ hd)
              (L.add_sp _ _ (L.div_sp _ _ (L.abs_sp _ ha) L.two_sp ha2)
                (L.div_sp _ _ (L.abs_sp _ ht) L.two_sp ht2) hs) hq) he
          have hnn := L.sp_nn _ hsp
          exact ⟨L.fin_of_le _ _ hnn L.c200_fin h2, hnn⟩
        · exact ⟨L.c200_fin, L.c200_nn⟩

theorem countErr_fin_nn (o : Option F) (t : F) : L.fin (countErr o t) ∧ nn (countErr o t) := by
  unfold countErr
  cases o with
  | none => exact ⟨L.one_fin, L.one_nn⟩
  | some a => simp only []; split; exact ⟨L.zero_fin, L.zero_nn⟩; exact ⟨L.one_fin, L.one_nn⟩

end laws

/-- the laws are consistent: exact rational arithmetic satisfies all of them -/
def ratLaws : IEEELaws Rat where
  fin _ := True
  nan _ := False
  cnt n := 1 ≤ n
  sp x := 0 ≤ x
  fin_not_nan := by simp
  isFinite_iff := by simp
  zero_fin := trivial
  zero_nn := by simp [nn]
  one_fin := trivial
  one_nn := by simp [nn]; grind
  penalty_fin := trivial
  penalty_nn := by have := penalty_pos; simp [nn]; grind
  c200_fin := trivial
  c200_nn := by simp [nn]; grind
  c100_sp := by show (0:Rat) ≤ 100; grind
  c200_sp := by show (0:Rat) ≤ 200; grind
  two_sp := by show (0:Rat) ≤ 2; grind
  sp_nn := by intro x h; simpa [nn] using h
  abs_sp := by simp
  abs_nan := by simp
  mul_nan := by simp
  add_nan := by simp
  div_nan := by simp
  mul_self_nn := by intro x _; simpa [nn] using mul_self_nonneg x
  mul_sp := by intro x y hx hy _; exact Rat.mul_nonneg hx hy
  add_sp := by intro x y hx hy _; exact Rat.add_nonneg hx hy
  div_sp := by intro x y hx hy _; exact div_nonneg' x y hx hy
  le_not_nan := by simp
  fin_of_le := by simp
  cnt_one := by simp; grind
  cnt_succ := by intro n h; simp at *; grind
  mean_first := by intro e _ he; simp [nn] at *; grind
  mean_next := by
    intro a e n _ ha _ he hn
    simp [nn] at *
    have h1 : (0:Rat) < n + 1 := by grind
    have h2 : a + (e - a) / (n + 1) = (a * n + e) / (n + 1) := by grind
    rw [h2]
    apply div_nonneg'
    · exact Rat.add_nonneg (Rat.mul_nonneg ha (by grind)) he
    · grind
  neg_nonpos := by intro x _ hx; simp [nn] at *; grind
end Vita.C05
