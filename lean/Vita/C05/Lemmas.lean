/-
  C05 — helper lemmas for Props.lean (no property statements here).
-/
import Vita.C05.Model
namespace Vita.C05
open Num

/-! ### `Num Rat` unfolds to the field operations of `Rat` -/

@[simp] theorem rat_zero : (zero : Rat) = 0 := rfl
@[simp] theorem rat_one : (one : Rat) = 1 := rfl
@[simp] theorem rat_add (a b : Rat) : add a b = a + b := rfl
@[simp] theorem rat_sub (a b : Rat) : sub a b = a - b := rfl
@[simp] theorem rat_mul (a b : Rat) : mul a b = a * b := rfl
@[simp] theorem rat_div (a b : Rat) : div a b = a / b := rfl
@[simp] theorem rat_neg (a : Rat) : neg a = -a := rfl
@[simp] theorem rat_abs (a : Rat) : abs a = a.abs := rfl
@[simp] theorem rat_lt (a b : Rat) : lt a b = decide (a < b) := rfl
@[simp] theorem rat_le (a b : Rat) : le a b = decide (a ≤ b) := rfl
@[simp] theorem rat_fin (a : Rat) : isFinite a = true := rfl
@[simp] theorem rat_c200 : (c200 : Rat) = 200 := rfl
@[simp] theorem rat_tol : (tol : Rat) = 10 / 2 ^ 1022 := rfl
@[simp] theorem rat_eps2 : (eps2 : Rat) = 1 / 2 ^ 51 := rfl

theorem meanStep_rat (a n e : Rat) : meanStep (a, n) e = (a + (e - a) / (n + 1), n + 1) := rfl

theorem runMean_spec (errs : List Rat) : ∀ (a : Rat) (m : Nat), 0 < m + errs.length →
    runMean (a, (m : Rat)) errs
      = ((a * m + errs.sum) / ((m + errs.length : Nat) : Rat), ((m + errs.length : Nat) : Rat)) := by
  induction errs with
  | nil =>
    intro a m h
    simp only [runMean, List.foldl_nil, List.length_nil, Nat.add_zero, List.sum_nil] at *
    have : (m : Rat) ≠ 0 := by simp; omega
    grind
  | cons e rest ih =>
    intro a m _
    simp only [runMean, List.foldl_cons, meanStep_rat] at *
    have h1 : ((m : Rat) + 1) = ((m + 1 : Nat) : Rat) := by simp
    rw [h1, ih _ (m + 1) (by omega)]
    have h2 : ((m : Rat) + 1) ≠ 0 := by have := @Rat.natCast_nonneg m; grind
    have h3 : ((m + 1 + rest.length : Nat) : Rat) = ((m + (e :: rest).length : Nat) : Rat) := by
      simp [Nat.add_comm, Nat.add_left_comm]
    rw [h3]
    simp only [List.sum_cons]
    congr 1
    congr 1
    rw [← h1] at *
    grind

theorem penalty_pos : (0 : Rat) < (penalty : Rat) := by
  show (0:Rat) < 179769313486231570814527423731704356798070567525844996598917476803157260780028538760589558632766878171540458953514382464234321326889464182768467546703537516986049910576551282076245490090389328944075868508455133942304583236903222948165808559332123348274797826204144723168738177180919299881250404026184124858368 / 100
  grind
theorem penalty_ge_one : (1 : Rat) ≤ (penalty : Rat) := by
  show (1:Rat) ≤ 179769313486231570814527423731704356798070567525844996598917476803157260780028538760589558632766878171540458953514382464234321326889464182768467546703537516986049910576551282076245490090389328944075868508455133942304583236903222948165808559332123348274797826204144723168738177180919299881250404026184124858368 / 100
  grind
theorem tol_nonneg : (0 : Rat) ≤ 10 / 2 ^ 1022 := by grind
theorem eps2_pos : (0 : Rat) < 1 / 2 ^ 51 := by grind

theorem mul_self_nonneg (x : Rat) : 0 ≤ x * x := by
  rcases Rat.le_total (a := 0) (b := x) with h | h
  · exact Rat.mul_nonneg h h
  · have h1 : 0 ≤ -x := by grind
    have := Rat.mul_nonneg h1 h1
    grind

theorem mul_self_eq_zero (x : Rat) (h : x * x = 0) : x = 0 := by
  by_cases h1 : x < 0
  · have h2 : 0 < -x := by grind
    have := Rat.mul_pos h2 h2
    grind
  · by_cases h3 : 0 < x
    · have := Rat.mul_pos h3 h3
      grind
    · grind

theorem maeErr_nonneg (o : Option Rat) (t : Rat) : 0 ≤ maeErr o t := by
  unfold maeErr
  cases o with
  | none => exact Rat.le_of_lt penalty_pos
  | some a => simp

theorem mseErr_nonneg (o : Option Rat) (t : Rat) : 0 ≤ mseErr o t := by
  unfold mseErr
  cases o with
  | none => exact Rat.le_of_lt penalty_pos
  | some a => simp [mul_self_nonneg]

theorem div_nonneg' (a b : Rat) (ha : 0 ≤ a) (hb : 0 ≤ b) : 0 ≤ a / b := by
  rw [Rat.div_def]
  by_cases h : 0 < b
  · exact Rat.mul_nonneg ha (Rat.le_of_lt (Rat.inv_pos.mpr h))
  · have : b = 0 := by grind
    subst this; simp

theorem rmaeErr_nonneg (o : Option Rat) (t : Rat) : 0 ≤ rmaeErr o t := by
  unfold rmaeErr
  cases o with
  | none => simp; grind
  | some a =>
    simp only [rat_sub, rat_abs, rat_le, rat_tol, rat_zero, rat_fin, rat_div, rat_mul, rat_c200, rat_add, if_true]
    split
    · exact Rat.le_refl
    · apply div_nonneg'
      · exact Rat.mul_nonneg (by decide) Rat.abs_nonneg
      · exact Rat.add_nonneg Rat.abs_nonneg Rat.abs_nonneg

theorem countErr_nonneg (o : Option Rat) (t : Rat) : 0 ≤ countErr o t := by
  unfold countErr
  cases o with
  | none => simp; grind
  | some a => simp only []; split <;> simp <;> grind

theorem sum_nonneg (l : List Rat) (h : ∀ x ∈ l, 0 ≤ x) : 0 ≤ l.sum := by
  induction l with
  | nil => simp
  | cons x xs ih =>
    simp only [List.sum_cons]
    exact Rat.add_nonneg (h x (by simp)) (ih (fun y hy => h y (by simp [hy])))

theorem sum_eq_zero_iff (l : List Rat) (h : ∀ x ∈ l, 0 ≤ x) : l.sum = 0 ↔ ∀ x ∈ l, x = 0 := by
  induction l with
  | nil => simp
  | cons x xs ih =>
    have hx := h x (by simp)
    have hxs : ∀ y ∈ xs, 0 ≤ y := fun y hy => h y (by simp [hy])
    have hs := sum_nonneg xs hxs
    simp only [List.sum_cons, List.mem_cons, forall_eq_or_imp]
    rw [← ih hxs]
    constructor
    · intro h0; constructor <;> grind
    · intro ⟨a, b⟩; grind

theorem maeErr_zero_iff (o : Option Rat) (t : Rat) : maeErr o t = 0 ↔ o = some t := by
  unfold maeErr
  cases o with
  | none => have := penalty_pos; simp; grind
  | some a => simp; grind

theorem mseErr_zero_iff (o : Option Rat) (t : Rat) : mseErr o t = 0 ↔ o = some t := by
  unfold mseErr
  cases o with
  | none => have := penalty_pos; simp; grind
  | some a =>
    simp
    constructor
    · intro h; have := mul_self_eq_zero _ h; grind
    · intro h; subst h; grind

theorem rmaeErr_zero_iff (o : Option Rat) (t : Rat) :
    rmaeErr o t = 0 ↔ ∃ a, o = some a ∧ (t - a).abs ≤ 10 / 2 ^ 1022 := by
  unfold rmaeErr
  cases o with
  | none => simp
  | some a =>
    simp only [rat_sub, rat_abs, rat_le, rat_tol, rat_zero, rat_fin, rat_div, rat_mul, rat_c200, rat_add, if_true,
      Option.some.injEq, exists_eq_left', decide_eq_true_eq]
    split
    · rename_i h; simp [h]
    · rename_i h
      simp only [h, iff_false]
      have htol := tol_nonneg
      have hd : 0 < (t - a).abs := by grind
      have hne : t - a ≠ 0 := Rat.abs_pos_iff.mp hd
      have hs : 0 < a.abs + t.abs := by
        have h1 := @Rat.abs_nonneg a
        have h2 := @Rat.abs_nonneg t
        by_cases ha : a = 0
        · have : t ≠ 0 := by grind
          have := Rat.abs_pos_iff.mpr this
          grind
        · have := Rat.abs_pos_iff.mpr ha
          grind
      have h200 : (0:Rat) < 200 := by grind
      have hq : 0 < 200 * (t - a).abs / (a.abs + t.abs) := by
        rw [Rat.div_def]
        exact Rat.mul_pos (Rat.mul_pos h200 hd) (Rat.inv_pos.mpr hs)
      grind

theorem countErr_zero_iff (o : Option Rat) (t : Rat) :
    countErr o t = 0 ↔ ∃ a, o = some a ∧ (a - t).abs < 1 / 2 ^ 51 := by
  unfold countErr issmall
  cases o with
  | none => simp
  | some a =>
    simp only [rat_sub, rat_abs, rat_lt, rat_eps2, rat_zero, rat_one, Option.some.injEq, exists_eq_left',
      decide_eq_true_eq]
    split
    · rename_i h; simp [h]
    · rename_i h; simp [h]

/-! ### the loop of `sum_of_errors_impl` (any number type) -/

section generic
variable {F : Type} [Num F]

def errOf (errf : Option F → F → F) (e : Ex F) : F := errf e.out e.target

theorem loop_fst (errf : Option F → F → F) (step : Nat) (l : List (Ex F)) :
    ∀ (k : Nat) (s : F × F),
      (loop errf step l k s).1 = (runMean s ((visited step l k).map (errOf errf))).1 := by
  induction l with
  | nil => intro k s; simp [loop, visited, runMean]
  | cons e rest ih =>
    intro k s
    cases k with
    | zero =>
      simp only [loop, visited]
      split
      · simp [runMean]
      · simp only [List.map_cons, runMean, List.foldl_cons]
        exact ih _ _
    | succ k => simp only [loop, visited]; exact ih _ _

theorem visited_one {α} (l : List α) : visited 1 l 0 = l := by
  induction l with
  | nil => rfl
  | cons e rest ih => simp [visited, ih]

theorem loop_snd_one (errf : Option F → F → F) (l : List (Ex F)) :
    ∀ (s : F × F), (loop errf 1 l 0 s).2 = l.map (bump errf) := by
  induction l with
  | nil => intro s; simp [loop]
  | cons e rest ih => intro s; simp [loop, ih]

theorem visited_length {α} (step : Nat) (hs : 0 < step) (l : List α) :
    ∀ k, (visited step l k).length = (l.length - k) / step := by
  induction l with
  | nil => intro k; simp [visited]
  | cons e rest ih =>
    intro k
    cases k with
    | zero =>
      simp only [visited, List.length_cons, Nat.sub_zero]
      split
      · rename_i h; simp [Nat.div_eq_of_lt h]
      · rename_i h
        simp only [List.length_cons, ih]
        have h1 : rest.length + 1 = (rest.length - (step - 1)) + step := by omega
        rw [h1, Nat.add_div_right _ hs]
    | succ k =>
      simp only [visited, List.length_cons, ih]
      congr 1
      omega

theorem visited_getElem? {α} (step : Nat) (hs : 0 < step) (l : List α) :
    ∀ k j, (visited step l k)[j]? = if k + j * step + step ≤ l.length then l[k + j * step]? else none := by
  induction l with
  | nil => intro k j; simp [visited]
  | cons e rest ih =>
    intro k j
    cases k with
    | zero =>
      simp only [visited, List.length_cons]
      split
      · rename_i h
        have : ¬ (0 + j * step + step ≤ rest.length + 1) := by omega
        rw [if_neg this]; rfl
      · rename_i h
        cases j with
        | zero => simp; omega
        | succ j =>
          simp only [List.getElem?_cons_succ, ih]
          rw [Nat.succ_mul]
          generalize j * step = p
          have h2 : 0 + (p + step) = (step - 1 + p) + 1 := by omega
          rw [h2, List.getElem?_cons_succ]
          have : (step - 1 + p + step ≤ rest.length) ↔ (step - 1 + p + 1 + step ≤ rest.length + 1) := by omega
          simp only [this]
    | succ k =>
      simp only [visited, List.length_cons, ih]
      have h2 : k + 1 + j * step = (k + j * step) + 1 := by omega
      rw [h2, List.getElem?_cons_succ]
      have : (k + j * step + step ≤ rest.length) ↔ (k + j * step + 1 + step ≤ rest.length + 1) := by omega
      simp only [this]

theorem loop_snd_length (errf : Option F → F → F) (step : Nat) (l : List (Ex F)) :
    ∀ k s, (loop errf step l k s).2.length = l.length := by
  induction l with
  | nil => intro k s; simp [loop]
  | cons e rest ih =>
    intro k s
    cases k with
    | zero => simp only [loop]; split <;> simp [ih]
    | succ k => simp [loop, ih]

/-- position `i` is visited by the loop started with `k` elements still to skip -/
def VisitedAt (step len k i : Nat) : Prop := (∃ j, i = k + j * step) ∧ i + step ≤ len

theorem loop_snd_getElem? (errf : Option F → F → F) (step : Nat) (hs : 0 < step) (l : List (Ex F)) :
    ∀ k s i,
      (VisitedAt step l.length k i → (loop errf step l k s).2[i]? = l[i]?.map (bump errf)) ∧
      (¬ VisitedAt step l.length k i → (loop errf step l k s).2[i]? = l[i]?) := by
  induction l with
  | nil => intro k s i; simp [loop]
  | cons e rest ih =>
    intro k s i
    cases k with
    | zero =>
      simp only [loop]
      split
      · rename_i h
        constructor
        · intro ⟨_, h2⟩; simp only [List.length_cons] at h2; omega
        · intro _; rfl
      · rename_i h
        cases i with
        | zero =>
          constructor
          · intro _; simp
          · intro hn; exfalso; apply hn
            exact ⟨⟨0, by simp⟩, by simp only [List.length_cons]; omega⟩
        | succ i =>
          simp only [List.getElem?_cons_succ, List.length_cons]
          have key : VisitedAt step (rest.length + 1) 0 (i + 1) ↔ VisitedAt step rest.length (step - 1) i := by
            unfold VisitedAt
            constructor
            · intro ⟨⟨j, hj⟩, h2⟩
              refine ⟨?_, by omega⟩
              cases j with
              | zero => simp at hj
              | succ j => exact ⟨j, by rw [Nat.succ_mul] at hj; omega⟩
            · intro ⟨⟨j, hj⟩, h2⟩
              exact ⟨⟨j + 1, by rw [Nat.succ_mul]; omega⟩, by omega⟩
          rw [key]
          exact ih _ _ _
    | succ k =>
      simp only [loop]
      cases i with
      | zero =>
        constructor
        · intro ⟨⟨j, hj⟩, _⟩; omega
        · intro _; rfl
      | succ i =>
        simp only [List.getElem?_cons_succ, List.length_cons]
        have key : VisitedAt step (rest.length + 1) (k + 1) (i + 1) ↔ VisitedAt step rest.length k i := by
          unfold VisitedAt
          constructor
          · intro ⟨⟨j, hj⟩, h2⟩; exact ⟨⟨j, by omega⟩, by omega⟩
          · intro ⟨⟨j, hj⟩, h2⟩; exact ⟨⟨j, by omega⟩, by omega⟩
        rw [key]
        exact ih _ _ _

end generic

/-! ### classification loops -/

section generic
variable {F : Type} [Num F]

def CEx.bump (e : CEx F) : CEx F := if e.wrong then { e with difficulty := e.difficulty + 1 } else e

theorem countLoop_snd (d : List (CEx F)) : ∀ err : F, (countLoop d err).2 = d.map CEx.bump := by
  induction d with
  | nil => intro err; simp [countLoop]
  | cons e rest ih =>
    intro err
    simp only [countLoop, CEx.bump, List.map_cons]
    split <;> simp [ih]

theorem gaussLoop_snd (scale : F) (d : List (CEx F)) : ∀ acc : F, (gaussLoop scale d acc).2 = d.map CEx.bump := by
  induction d with
  | nil => intro err; simp [gaussLoop]
  | cons e rest ih =>
    intro err
    simp only [gaussLoop, CEx.bump, List.map_cons]
    split <;> simp [ih]
end generic

/-- number of misclassified examples -/
def nWrong {F} (d : List (CEx F)) : Nat := (d.filter CEx.wrong).length

theorem countLoop_fst (d : List (CEx Rat)) : ∀ err : Rat, (countLoop d err).1 = err + (nWrong d : Nat) := by
  induction d with
  | nil => intro err; simp [countLoop, nWrong]; grind
  | cons e rest ih =>
    intro err
    simp only [countLoop, nWrong, List.filter_cons]
    split
    · simp only [ih, List.length_cons, nWrong, rat_add, rat_one]
      simp; grind
    · simp only [ih, nWrong]

/-- per-example contribution to the Gaussian score -/
def gaussTerm (scale : Rat) (e : CEx Rat) : Rat := if e.wrong then -1 else (e.sureness - 1) / scale

theorem gaussLoop_fst (scale : Rat) (d : List (CEx Rat)) :
    ∀ acc : Rat, (gaussLoop scale d acc).1 = acc + (d.map (gaussTerm scale)).sum := by
  induction d with
  | nil => intro acc; simp [gaussLoop]; grind
  | cons e rest ih =>
    intro acc
    simp only [gaussLoop, List.map_cons, List.sum_cons, gaussTerm]
    split
    · simp only [ih, rat_sub, rat_one]; grind
    · simp only [ih, rat_sub, rat_one, rat_add, rat_div]; grind

end Vita.C05
