/-
  C05 — model of vita's fitness evaluators (src/kernel/gp/src/evaluator.tcc,
  src/kernel/ga/evaluator.tcc, src/kernel/constrained_evaluator.tcc, utility.h `issmall`).

  Everything is generic in the number type `F` (class `Num`): the theorems of
  Props.lean instantiate it with core `Rat` (exact arithmetic) or with an arbitrary `F`
  obeying the IEEE laws of `IEEELaws`; the driver instantiates it with the hardware
  `Float`, and its answers are compared bit for bit with the compiled evaluators.

  The program being evaluated is abstract: an example carries `out : Option F`, the value
  the program yields on that example (`none` = `!has_value(...)`).
-/
namespace Vita.C05

/-- The arithmetic the evaluators use (double in the C++ code). -/
class Num (F : Type) where
  zero : F
  one : F
  add : F → F → F
  sub : F → F → F
  mul : F → F → F
  div : F → F → F
  neg : F → F
  abs : F → F
  lt : F → F → Bool
  le : F → F → Bool
  /-- `std::isfinite` -/
  isFinite : F → Bool
  /-- `std::numeric_limits<double>::max() / 100.0` – penalty of mae / mse for an illegal value -/
  penalty : F
  /-- `200.0` – scale and penalty of rmae -/
  c200 : F
  /-- `100.0`, `2.0` – used by rmae's overflow-free recomputation -/
  c100 : F
  two : F
  /-- `10.0 * std::numeric_limits<double>::min()` – the "really close" window of rmae -/
  tol : F
  /-- `2.0 * std::numeric_limits<double>::epsilon()` – threshold of `issmall` -/
  eps2 : F

open Num

/-- `vita::issmall` : `std::abs(v) < 2.0 * epsilon` -/
def issmall {F} [Num F] (v : F) : Bool := lt (abs v) (eps2 : F)

/-! ### examples -/

/-- a regression example as the evaluator sees it -/
structure Ex (F : Type) where
  /-- value of the program on this example (`agent_(example)`), `none` = no value -/
  out : Option F
  /-- `label_as<D_DOUBLE>(example)` -/
  target : F
  /-- `example.difficulty` -/
  difficulty : Nat
deriving Repr

/-! ### the four error functors (`*_error_functor::operator()`) -/

/-- `mae_error_functor` : |out − target|; penalty for an illegal or non-finite value -/
def maeErr {F} [Num F] (out : Option F) (t : F) : F :=
  match out with
  | some a =>
    let e := abs (sub a t)
    if isFinite e then e else penalty
  | none => penalty

/-- `mse_error_functor` : (out − target)²; penalty for an illegal or non-finite value -/
def mseErr {F} [Num F] (out : Option F) (t : F) : F :=
  match out with
  | some a =>
    let d := sub a t
    let e := mul d d
    if isFinite e then e else penalty
  | none => penalty

/-- `rmae_error_functor` : 200·|t − a| / (|a| + |t|), `0` inside the window, `200` for an
    illegal value.  When an intermediate result overflows the quotient is recomputed from the
    halved operands, `100·(δ / (|a|/2 + |t|/2))`, and capped at 200 (`!(err <= 200.0)`, which
    also catches NaN / ∞ from an infinite δ). -/
def rmaeErr {F} [Num F] (out : Option F) (t : F) : F :=
  match out with
  | some a =>
    let delta := abs (sub t a)
    if le delta tol then zero
    else
      let s := add (abs a) (abs t)
      let e := div (mul c200 delta) s
      if isFinite s && isFinite e then e
      else
        let e2 := mul c100 (div delta (add (div (abs a) two) (div (abs t) two)))
        if le e2 c200 then e2 else c200
  | none => c200

/-- `count_error_functor` : 1 unless the value exists and `issmall(out − target)` -/
def countErr {F} [Num F] (out : Option F) (t : F) : F :=
  match out with
  | some a => if issmall (sub a t) then zero else one
  | none => one

/-- the four shipped error functors -/
inductive ErrKind | mae | rmae | mse | count
deriving Repr, DecidableEq

def errF {F} [Num F] : ErrKind → Option F → F → F
  | .mae => maeErr
  | .rmae => rmaeErr
  | .mse => mseErr
  | .count => countErr

/-! ### `sum_of_errors_impl` -/

/-- one step of the running mean: `average_error += (err - average_error) / ++n` -/
def meanStep {F} [Num F] (s : F × F) (err : F) : F × F :=
  let n' := add s.2 one
  (add s.1 (div (sub err s.1) n'), n')

/-- the running mean of a list of errors from state `(avg, n)` -/
def runMean {F} [Num F] (s : F × F) (errs : List F) : F × F := errs.foldl meanStep s

/-- the difficulty update of one visited example: `if (!issmall(err)) ++it->difficulty` -/
def bump {F} [Num F] (errf : Option F → F → F) (e : Ex F) : Ex F :=
  if issmall (errf e.out e.target) then e else { e with difficulty := e.difficulty + 1 }

/-- The loop of `sum_of_errors_impl(prg, step)`.

    `skip` counts the elements still to be passed over by `std::advance(it, step)`; an
    element is *visited* when `skip = 0` and at least `step` elements remain
    (`std::distance(it, end) >= step`), otherwise the loop is over.  Returns the final
    `average_error` and the dataset (with the updated difficulty counters). -/
def loop {F} [Num F] (errf : Option F → F → F) (step : Nat) :
    List (Ex F) → Nat → F × F → F × List (Ex F)
  | [], _, s => (s.1, [])
  | e :: rest, 0, s =>
    if rest.length + 1 < step then (s.1, e :: rest)
    else
      let r := loop errf step rest (step - 1) (meanStep s (errf e.out e.target))
      (r.1, bump errf e :: r.2)
  | e :: rest, k + 1, s =>
    let r := loop errf step rest k s
    (r.1, e :: r.2)

/-- `sum_of_errors_impl(prg, step)` : fitness `{-average_error}` and the dataset afterwards -/
def sumOfErrors {F} [Num F] (errf : Option F → F → F) (step : Nat) (d : List (Ex F)) :
    List F × List (Ex F) :=
  let r := loop errf step d 0 (zero, zero)
  ([neg r.1], r.2)

/-- `operator()` = `sum_of_errors_impl(prg, 1)` -/
def evalFull {F} [Num F] (errf : Option F → F → F) (d : List (Ex F)) := sumOfErrors errf 1 d
/-- `fast()` = `sum_of_errors_impl(prg, 5)` -/
def evalFast {F} [Num F] (errf : Option F → F → F) (d : List (Ex F)) := sumOfErrors errf 5 d

/-- the examples the loop visits (specification of the stride) -/
def visited {α} (step : Nat) : List α → Nat → List α
  | [], _ => []
  | e :: rest, 0 => if rest.length + 1 < step then [] else e :: visited step rest (step - 1)
  | _ :: rest, k + 1 => visited step rest k

/-! ### classification evaluators

  `tag` is the answer of the classifier built from the program and the training set
  (`lambda.tag(example)`): a class and a confidence.  The model of how that answer is
  computed is C08's; here it is a parameter. -/

structure CEx (F : Type) where
  /-- `lambda.tag(example).label` -/
  tagLabel : Nat
  /-- `lambda.tag(example).sureness` -/
  sureness : F
  /-- `label(example)` -/
  label : Nat
  difficulty : Nat
deriving Repr

def CEx.wrong {F} (e : CEx F) : Bool := e.tagLabel != e.label

/-- loop of `dyn_slot_evaluator::operator()` and `binary_evaluator::operator()`:
    `if (tag != label) { ++err; ++example.difficulty; }` ; result `{-err}` -/
def countLoop {F} [Num F] : List (CEx F) → F → F × List (CEx F)
  | [], err => (err, [])
  | e :: rest, err =>
    if e.wrong then
      let r := countLoop rest (add err one)
      (r.1, { e with difficulty := e.difficulty + 1 } :: r.2)
    else
      let r := countLoop rest err
      (r.1, e :: r.2)

def countEval {F} [Num F] (d : List (CEx F)) : List F × List (CEx F) :=
  let r := countLoop d zero
  ([neg r.1], r.2)

/-- loop of `gaussian_evaluator::operator()`; `scale = classes - 1` -/
def gaussLoop {F} [Num F] (scale : F) : List (CEx F) → F → F × List (CEx F)
  | [], d => (d, [])
  | e :: rest, d =>
    if e.wrong then
      let r := gaussLoop scale rest (sub d one)
      (r.1, { e with difficulty := e.difficulty + 1 } :: r.2)
    else
      let r := gaussLoop scale rest (add d (div (sub e.sureness one) scale))
      (r.1, e :: r.2)

def gaussEval {F} [Num F] (scale : F) (d : List (CEx F)) : List F × List (CEx F) :=
  let r := gaussLoop scale d zero
  ([r.1], r.2)

/-! ### GA and constrained evaluators -/

/-- `ga_evaluator::operator()` : `{f(ind)}` when finite, the empty fitness otherwise -/
def gaEval {F} [Num F] (fv : F) : List F := if isFinite fv then [fv] else []

/-- `constrained_evaluator::operator()` : `combine({-penalty(prg)}, eva(prg))` -/
def constrainedEval {F} [Num F] (pen : F) (base : List F) : List F := [neg pen] ++ base

/-! ### instances -/

/-- exact arithmetic; the constants are the exact values of the C++ constant expressions
    (`max() / 100.0`, `10.0 * min()`, `2.0 * epsilon()`) read over the rationals -/
instance : Num Rat where
  zero := 0
  one := 1
  add := (· + ·)
  sub := (· - ·)
  mul := (· * ·)
  div := (· / ·)
  neg := (- ·)
  abs := Rat.abs
  lt a b := decide (a < b)
  le a b := decide (a ≤ b)
  isFinite _ := true
  -- DBL_MAX / 100 in exact arithmetic (DBL_MAX = (2^53 − 1)·2^971)
  penalty := 179769313486231570814527423731704356798070567525844996598917476803157260780028538760589558632766878171540458953514382464234321326889464182768467546703537516986049910576551282076245490090389328944075868508455133942304583236903222948165808559332123348274797826204144723168738177180919299881250404026184124858368 / 100
  c200 := 200
  c100 := 100
  two := 2
  tol := 10 / 2 ^ 1022
  eps2 := 1 / 2 ^ 51

/-- hardware doubles (opaque to the kernel; used by the driver only) -/
instance : Num Float where
  zero := 0.0
  one := 1.0
  add := (· + ·)
  sub := (· - ·)
  mul := (· * ·)
  div := (· / ·)
  neg := (- ·)
  abs := Float.abs
  lt a b := decide (a < b)
  le a b := decide (a ≤ b)
  isFinite := Float.isFinite
  penalty := Float.ofBits 0x7FEFFFFFFFFFFFFF / 100.0
  c200 := 200.0
  c100 := 100.0
  two := 2.0
  tol := 10.0 * Float.ofBits 0x0010000000000000
  eps2 := 2.0 * Float.ofBits 0x3CB0000000000000

end Vita.C05
