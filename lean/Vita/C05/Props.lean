/-
  C05 — evaluators compute the documented standardized fitness.

  Property theorems only (helpers: Lemmas.lean, Laws.lean; model: Model.lean).
  `Rat` = exact arithmetic; `F` = any number type; `IEEELaws F` = IEEE facts as hypotheses.
-/
import Vita.C05.Lemmas
import Vita.C05.Laws
import Vita.C05.ClsLemmas
import Vita.C05.GaussLaws
import Vita.C05.GenLemmas
import Vita.C05.GenCounters

namespace Vita.C05
open Num NumC

/-! ## 1. the running mean recurrence is the mean -/

/-- `average_error += (err - average_error) / ++n` over a non-empty list of errors, started
    from `(0, 0)`, ends with `Σ err / n` – for every list, no size bound. -/
theorem runmean_eq_mean (errs : List Rat) (h : errs ≠ []) :
    (runMean ((0 : Rat), (0 : Rat)) errs).1 = errs.sum / (errs.length : Rat) := by
  have hl : 0 < 0 + errs.length := by
    cases errs with
    | nil => exact absurd rfl h
    | cons _ _ => simp
  have := runMean_spec errs 0 0 hl
  simp only [Rat.natCast_ofNat, Nat.zero_add] at this
  rw [this]
  simp only []
  grind

/-! ## 2. which examples are visited (stride of `sum_of_errors_impl(prg, step)`) -/

/-- The loop visits `⌊n / step⌋` examples: those at positions `0, step, 2·step, …` for which at
    least `step` elements remain. -/
theorem stride_visits {α} (step : Nat) (hs : 0 < step) (d : List α) :
    (visited step d 0).length = d.length / step ∧
    ∀ j, (visited step d 0)[j]? = if j * step + step ≤ d.length then d[j * step]? else none := by
  refine ⟨by simpa using visited_length step hs d 0, fun j => ?_⟩
  simpa using visited_getElem? step hs d 0 j

/-- `operator()` (step 1) visits every example, in order. -/
theorem full_visits_all {α} (d : List α) : visited 1 d 0 = d := visited_one d

/-! ## 3. the fitness is minus the mean of the documented per-example error -/

/-- For any error functor and any stride, the fitness has exactly one component: minus the mean
    of the functor over the visited examples. -/
theorem fitness_is_minus_mean (errf : Option Rat → Rat → Rat) (step : Nat) (d : List (Ex Rat))
    (h : visited step d 0 ≠ []) :
    (sumOfErrors errf step d).1 =
      [ - (((visited step d 0).map (errOf errf)).sum / ((visited step d 0).length : Rat)) ] := by
  unfold sumOfErrors
  simp only [loop_fst, rat_neg, rat_zero]
  have hne : (visited step d 0).map (errOf errf) ≠ [] := by simpa using h
  rw [runmean_eq_mean _ hne]
  simp

/-- `operator()` : minus the mean over ALL examples of a non-empty dataset. -/
theorem fitness_full (errf : Option Rat → Rat → Rat) (d : List (Ex Rat)) (h : d ≠ []) :
    (evalFull errf d).1 = [ - ((d.map (errOf errf)).sum / (d.length : Rat)) ] := by
  have := fitness_is_minus_mean errf 1 d (by rwa [visited_one])
  rwa [visited_one] at this

/-- the documented per-example errors (exact arithmetic: nothing overflows) -/
theorem documented_errors (a t : Rat) :
    errF .mae (some a) t = (a - t).abs ∧
    errF .mse (some a) t = (a - t) * (a - t) ∧
    errF .rmae (some a) t =
      (if (t - a).abs ≤ 10 / 2 ^ 1022 then 0 else 200 * (t - a).abs / (a.abs + t.abs)) ∧
    errF .count (some a) t = (if (a - t).abs < 1 / 2 ^ 51 then 0 else 1) ∧
    errF .mae none t = (penalty : Rat) ∧ errF .mse none t = (penalty : Rat) ∧
    errF .rmae none t = 200 ∧ errF .count none t = 1 := by
  refine ⟨by simp [errF, maeErr], by simp [errF, mseErr], ?_, ?_, rfl, rfl, rfl, rfl⟩
  · simp [errF, rmaeErr]
  · simp [errF, countErr, issmall]

/-! ## 4. never positive (exact arithmetic) -/

theorem err_nonneg (k : ErrKind) (o : Option Rat) (t : Rat) : 0 ≤ errF k o t := by
  cases k
  · exact maeErr_nonneg o t
  · exact rmaeErr_nonneg o t
  · exact mseErr_nonneg o t
  · exact countErr_nonneg o t

/-- Every component of the fitness of each shipped error-based evaluator is ≤ 0 – any dataset
    (also empty / shorter than the stride), any stride, any program outputs. -/
theorem fitness_nonpos (k : ErrKind) (step : Nat) (d : List (Ex Rat)) :
    ∀ f ∈ (sumOfErrors (errF k) step d).1, f ≤ 0 := by
  intro f hf
  unfold sumOfErrors at hf
  simp only [loop_fst, rat_neg, rat_zero, List.mem_singleton] at hf
  subst hf
  generalize hv : (visited step d 0).map (errOf (errF k)) = errs
  have hnn : ∀ x ∈ errs, 0 ≤ x := by
    intro x hx
    subst hv
    simp only [List.mem_map] at hx
    obtain ⟨e, _, rfl⟩ := hx
    exact err_nonneg k _ _
  by_cases he : errs = []
  · subst he; simp [runMean]
  · rw [runmean_eq_mean errs he]
    have h1 := sum_nonneg errs hnn
    have h2 : 0 ≤ errs.sum / (errs.length : Rat) := div_nonneg' _ _ h1 Rat.natCast_nonneg
    grind

/-! ## 5. zero exactly when every target is reproduced (documented tolerance) -/

/-- what "the program reproduces the target" means for each functor -/
def Matches : ErrKind → Option Rat → Rat → Prop
  | .mae, o, t => o = some t
  | .mse, o, t => o = some t
  | .rmae, o, t => ∃ a, o = some a ∧ (t - a).abs ≤ 10 / 2 ^ 1022      -- 10·DBL_MIN window
  | .count, o, t => ∃ a, o = some a ∧ (a - t).abs < 1 / 2 ^ 51        -- `issmall`: 2·DBL_EPSILON

theorem err_zero_iff (k : ErrKind) (o : Option Rat) (t : Rat) : errF k o t = 0 ↔ Matches k o t := by
  cases k
  · exact maeErr_zero_iff o t
  · exact rmaeErr_zero_iff o t
  · exact mseErr_zero_iff o t
  · exact countErr_zero_iff o t

/-- Any stride: the fitness is `(0)` iff every VISITED example is matched. -/
theorem zero_iff_all_match_stride (k : ErrKind) (step : Nat) (d : List (Ex Rat))
    (h : visited step d 0 ≠ []) :
    (sumOfErrors (errF k) step d).1 = [0] ↔ ∀ e ∈ visited step d 0, Matches k e.out e.target := by
  rw [fitness_is_minus_mean _ step d h]
  generalize hv : visited step d 0 = v at *
  have hlen : (0 : Rat) < (v.length : Rat) := by
    have : 0 < v.length := List.length_pos_iff.mpr h
    exact Rat.natCast_pos.mpr this
  have hnn : ∀ x ∈ v.map (errOf (errF k)), 0 ≤ x := by
    intro x hx
    simp only [List.mem_map] at hx
    obtain ⟨e, _, rfl⟩ := hx
    exact err_nonneg k _ _
  have hz := sum_eq_zero_iff _ hnn
  have hs : (- ((v.map (errOf (errF k))).sum / (v.length : Rat)) = 0) ↔ (v.map (errOf (errF k))).sum = 0 := by
    constructor
    · intro h0
      have : (v.map (errOf (errF k))).sum / (v.length : Rat) = 0 := by grind
      rw [Rat.div_def] at this
      have hinv : (0:Rat) < (v.length : Rat)⁻¹ := Rat.inv_pos.mpr hlen
      by_cases hsz : (v.map (errOf (errF k))).sum = 0
      · exact hsz
      · have h1 := sum_nonneg _ hnn
        have h2 : 0 < (v.map (errOf (errF k))).sum := by grind
        have := Rat.mul_pos h2 hinv
        grind
    · intro h0; rw [h0, Rat.div_def]; grind
  simp only [List.cons.injEq, and_true]
  rw [hs, hz]
  simp only [List.mem_map, forall_exists_index, and_imp, forall_apply_eq_imp_iff₂]
  constructor
  · intro hh e he; exact (err_zero_iff k _ _).mp (hh e he)
  · intro hh e he; exact (err_zero_iff k _ _).mpr (hh e he)

/-- `operator()` on a non-empty dataset: fitness `(0)` iff the program reproduces EVERY target
    (mae, mse: exactly; rmae: within 10·DBL_MIN; count: within `issmall`). -/
theorem zero_iff_all_match (k : ErrKind) (d : List (Ex Rat)) (h : d ≠ []) :
    (evalFull (errF k) d).1 = [0] ↔ ∀ e ∈ d, Matches k e.out e.target := by
  have := zero_iff_all_match_stride k 1 d (by rwa [visited_one])
  rwa [visited_one] at this

/-! ## 6. difficulty counters -/

/-- what `bump` does to one example: `out`, `target` untouched; `difficulty` + 1 exactly when the
    error is not `issmall` -/
theorem bump_spec {F} [Num F] (errf : Option F → F → F) (e : Ex F) :
    (bump errf e).out = e.out ∧ (bump errf e).target = e.target ∧
    (bump errf e).difficulty = e.difficulty + (if issmall (errf e.out e.target) then 0 else 1) := by
  unfold bump; split <;> simp

/-- One `operator()` call (any number type, any functor): the dataset afterwards is the dataset
    before with `difficulty'ᵢ = difficultyᵢ + [errᵢ not small]` and nothing else touched. -/
theorem difficulty_exact {F} [Num F] (errf : Option F → F → F) (d : List (Ex F)) :
    (evalFull errf d).2 = d.map (bump errf) := by
  unfold evalFull sumOfErrors
  exact loop_snd_one errf d _

/-- Any stride: same length; visited positions (`i = j·step`, `i + step ≤ n`) are bumped, every
    other example is untouched. -/
theorem difficulty_exact_stride {F} [Num F] (errf : Option F → F → F) (step : Nat) (hs : 0 < step)
    (d : List (Ex F)) (i : Nat) :
    (sumOfErrors errf step d).2.length = d.length ∧
    (VisitedAt step d.length 0 i → (sumOfErrors errf step d).2[i]? = d[i]?.map (bump errf)) ∧
    (¬ VisitedAt step d.length 0 i → (sumOfErrors errf step d).2[i]? = d[i]?) := by
  unfold sumOfErrors
  exact ⟨loop_snd_length errf step d 0 _, loop_snd_getElem? errf step hs d 0 _ i⟩

/-- "got wrong" in exact arithmetic: the counter of an example moves iff the program has no value
    there or its error is at least 2·DBL_EPSILON (for `count`: iff the example is a mismatch). -/
theorem wrong_iff (k : ErrKind) (o : Option Rat) (t : Rat) :
    issmall (errF k o t) = false ↔ (o = none ∨ 1 / 2 ^ 51 ≤ errF k o t) := by
  have hn := err_nonneg k o t
  have hp := penalty_pos
  have heps := eps2_pos
  unfold issmall
  simp only [rat_abs, rat_lt, rat_eps2, decide_eq_false_iff_not, Rat.not_lt, Rat.abs_of_nonneg hn]
  constructor
  · intro h; exact Or.inr h
  · intro h
    rcases h with h | h
    · subst h
      have h1 := penalty_ge_one
      cases k <;> simp [errF, maeErr, mseErr, rmaeErr, countErr] <;> grind
    · exact h

theorem count_wrong_iff (o : Option Rat) (t : Rat) :
    issmall (errF .count o t) = false ↔ ¬ Matches .count o t := by
  rw [← err_zero_iff]
  have heps := eps2_pos
  unfold issmall errF countErr
  cases o with
  | none => simp [Rat.abs]; grind
  | some a => simp only []; split <;> simp [Rat.abs] <;> grind

/-! ## 7. classification evaluators -/

/-- dyn_slot / binary evaluator: the fitness is minus the NUMBER of misclassified examples. -/
theorem count_is_minus_misclassified (d : List (CEx Rat)) :
    (countEval d).1 = [ - ((nWrong d : Nat) : Rat) ] := by
  unfold countEval
  simp only [countLoop_fst, rat_zero, rat_neg]
  grind

/-- … hence it is never positive and it is zero exactly when every tag equals its label. -/
theorem count_eval_zero_iff (d : List (CEx Rat)) :
    (∀ f ∈ (countEval d).1, f ≤ 0) ∧
    ((countEval d).1 = [0] ↔ ∀ e ∈ d, e.tagLabel = e.label) := by
  rw [count_is_minus_misclassified]
  have h0 : (0:Rat) ≤ ((nWrong d : Nat) : Rat) := Rat.natCast_nonneg
  refine ⟨by intro f hf; simp at hf; grind, ?_⟩
  simp only [List.cons.injEq, and_true]
  have : (-((nWrong d : Nat) : Rat) = 0) ↔ nWrong d = 0 := by
    constructor
    · intro h; have : ((nWrong d : Nat) : Rat) = 0 := by grind
      exact Rat.natCast_eq_zero_iff.mp this
    · intro h; rw [h]; simp
  rw [this]
  unfold nWrong
  simp [CEx.wrong]

/-- All three classification evaluators (any number type): `difficulty` + 1 for exactly the
    examples with `tag ≠ label`, nothing else touched. -/
theorem class_difficulty_exact {F} [Num F] (scale : F) (d : List (CEx F)) :
    (countEval d).2 = d.map CEx.bump ∧ (gaussEval scale d).2 = d.map CEx.bump ∧
    ∀ e : CEx F, (CEx.bump e).tagLabel = e.tagLabel ∧ (CEx.bump e).label = e.label ∧
      (CEx.bump e).sureness = e.sureness ∧
      (CEx.bump e).difficulty = e.difficulty + (if e.tagLabel ≠ e.label then 1 else 0) := by
  refine ⟨countLoop_snd d _, gaussLoop_snd scale d _, fun e => ?_⟩
  unfold CEx.bump CEx.wrong
  by_cases h : e.tagLabel = e.label <;> simp [h]

/-- gaussian evaluator: the documented score `Σ (match ? (sureness−1)/(classes−1) : −1)` -/
theorem gaussian_score (scale : Rat) (d : List (CEx Rat)) :
    (gaussEval scale d).1 = [ (d.map (gaussTerm scale)).sum ] := by
  unfold gaussEval
  simp only [gaussLoop_fst, rat_zero]
  grind

/-- … which is never positive when `classes ≥ 2` and every confidence is ≤ 1 (C08). -/
theorem gaussian_nonpos (scale : Rat) (hs : 0 < scale) (d : List (CEx Rat))
    (hc : ∀ e ∈ d, e.sureness ≤ 1) : ∀ f ∈ (gaussEval scale d).1, f ≤ 0 := by
  intro f hf
  rw [gaussian_score] at hf
  simp only [List.mem_singleton] at hf
  subst hf
  have : 0 ≤ (d.map (fun e => - gaussTerm scale e)).sum := by
    apply sum_nonneg
    intro x hx
    simp only [List.mem_map] at hx
    obtain ⟨e, he, rfl⟩ := hx
    unfold gaussTerm
    split
    · grind
    · have h1 := hc e he
      have h2 : 0 ≤ (1 - e.sureness) / scale := div_nonneg' _ _ (by grind) (Rat.le_of_lt hs)
      have h3 : -((e.sureness - 1) / scale) = (1 - e.sureness) / scale := by grind
      rw [h3]; exact h2
  have hneg : (d.map (fun e => - gaussTerm scale e)).sum = - (d.map (gaussTerm scale)).sum := by
    clear this hc
    induction d with
    | nil => simp
    | cons e rest ih => simp only [List.map_cons, List.sum_cons, ih]; grind
  grind

/-! ## 8. GA and constrained evaluators -/

/-- `ga_evaluator`: a non-finite objective value becomes the EMPTY fitness, a finite one the
    one-component fitness – so no component is ever non-finite. -/
theorem ga_nonfinite_empty {F} [Num F] (fv : F) :
    (isFinite fv = false → gaEval fv = []) ∧ (isFinite fv = true → gaEval fv = [fv]) ∧
    ∀ f ∈ gaEval fv, isFinite f = true := by
  unfold gaEval
  by_cases h : isFinite fv = true <;> simp [h]

/-- `constrained_evaluator`: the base fitness with `-penalty` prepended. -/
theorem constrained_prepends {F} [Num F] (pen : F) (base : List F) :
    constrainedEval pen base = neg pen :: base ∧
    (constrainedEval pen base).length = base.length + 1 ∧
    (constrainedEval pen base).tail = base := by
  simp [constrainedEval]

/-! ## 9. never NaN, never positive – any number type obeying the IEEE laws -/

/-- The recurrence itself: if every error is finite and ≥ 0 then the fitness `-mean` is not NaN
    and is ≤ 0. -/
theorem no_nan {F} [Num F] (L : IEEELaws F) (errs : List F)
    (h : ∀ e ∈ errs, L.fin e ∧ nn e) :
    ¬ L.nan (neg (runMean (zero, zero) errs).1) ∧
    le (neg (runMean (zero, zero) errs).1) (zero : F) = true := by
  have := runMean_fin_nn L errs h
  exact L.neg_nonpos _ this.1 this.2

/-- the premise holds for each shipped functor, for ALL outputs and targets -/
theorem err_fin_nonneg {F} [Num F] (L : IEEELaws F) (k : ErrKind) (o : Option F) (t : F) :
    L.fin (errF k o t) ∧ nn (errF k o t) := by
  cases k
  · exact maeErr_fin_nn L o t
  · exact rmaeErr_fin_nn L o t
  · exact mseErr_fin_nn L o t
  · exact countErr_fin_nn L o t

/-- Hence: each shipped error-based evaluator, any stride, any dataset, any program outputs
    (undefined, astronomically large, …): no fitness component is NaN, none is positive. -/
theorem no_nan_shipped {F} [Num F] (L : IEEELaws F) (k : ErrKind) (step : Nat) (d : List (Ex F)) :
    ∀ f ∈ (sumOfErrors (errF k) step d).1, ¬ L.nan f ∧ le f (zero : F) = true := by
  intro f hf
  unfold sumOfErrors at hf
  simp only [loop_fst, List.mem_singleton] at hf
  subst hf
  apply no_nan L
  intro e he
  simp only [List.mem_map] at he
  obtain ⟨x, _, rfl⟩ := he
  exact err_fin_nonneg L k _ _

/-! ## 10. classification evaluators END TO END: from the program's outputs to the fitness

  `Cls.dynSlotEvaluator`, `Cls.gaussianEvaluator`, `Cls.binaryEvaluator` build the classifier from
  the outputs of the member programs on the training examples (the documented rules of
  Classify.lean) and score the same examples.  `ex` = any `exp`, `dsc` = any discretization. -/

/-- the tagging pass keeps the examples: same number, same labels, same counters -/
theorem tagAll_keeps {F} [Num F] (tg : List (Option F → Nat × F)) (d : List (Cls.TEx F)) :
    (Cls.tagAll tg d).map (·.label) = d.map (·.label) ∧
    (Cls.tagAll tg d).map (·.difficulty) = d.map (·.difficulty) ∧
    (Cls.tagAll tg d).map (·.tagLabel) = d.map (fun e => (Cls.teamTag tg e).1) := by
  unfold Cls.tagAll Cls.toCEx
  simp [List.map_map, Function.comp_def]

/-- dyn_slot / binary, any number of member programs: the fitness is minus the number of training
    examples whose DOCUMENTED tag (slot table built from these very examples / sign of the output;
    winner takes all for a team) differs from the label. -/
theorem count_evaluators_end_to_end (ex : Rat → Rat) (dsc : Rat → Nat → Nat)
    (classes xslot members : Nat) (d : List (Cls.TEx Rat)) :
    letI := ratNumC ex dsc
    (Cls.dynSlotEvaluator classes xslot members d).1 =
      [ - ((nWrong (Cls.tagAll (Cls.dynTaggers classes xslot members d) d) : Nat) : Rat) ] ∧
    (Cls.binaryEvaluator members d).1 =
      [ - ((nWrong (Cls.tagAll (Cls.binTaggers members) d) : Nat) : Rat) ] := by
  letI := ratNumC ex dsc
  exact ⟨count_is_minus_misclassified _, count_is_minus_misclassified _⟩

/-- all three, any number type: afterwards `difficulty'ᵢ = difficultyᵢ + [documented tagᵢ ≠ labelᵢ]`,
    one entry per example, in order. -/
theorem class_evaluators_difficulty {F} [NumC F] (classes xslot members : Nat) (d : List (Cls.TEx F)) :
    (Cls.dynSlotEvaluator classes xslot members d).2.map (·.difficulty) =
      d.map (fun e => e.difficulty +
        (if (Cls.teamTag (Cls.dynTaggers classes xslot members d) e).1 ≠ e.label then 1 else 0)) ∧
    (Cls.gaussianEvaluator classes members d).2.map (·.difficulty) =
      d.map (fun e => e.difficulty +
        (if (Cls.teamTag (Cls.gaussTaggers classes members d) e).1 ≠ e.label then 1 else 0)) ∧
    (Cls.binaryEvaluator members d).2.map (·.difficulty) =
      d.map (fun e => e.difficulty +
        (if (Cls.teamTag (Cls.binTaggers members) e).1 ≠ e.label then 1 else 0)) := by
  have key : ∀ (tg : List (Option F → Nat × F)),
      ((Cls.tagAll tg d).map CEx.bump).map (·.difficulty) =
        d.map (fun e => e.difficulty + (if (Cls.teamTag tg e).1 ≠ e.label then 1 else 0)) := by
    intro tg
    unfold Cls.tagAll Cls.toCEx CEx.bump CEx.wrong
    simp only [List.map_map]
    apply List.map_congr_left
    intro e _
    simp only [Function.comp]
    by_cases h : (Cls.teamTag tg e).1 = e.label <;> simp [h]
  refine ⟨?_, ?_, ?_⟩
  · unfold Cls.dynSlotEvaluator; rw [(class_difficulty_exact (zero : F) _).1]; exact key _
  · unfold Cls.gaussianEvaluator; rw [(class_difficulty_exact _ _).2.1]; exact key _
  · unfold Cls.binaryEvaluator; rw [(class_difficulty_exact (zero : F) _).1]; exact key _

/-- the binary classifier: class 1 exactly when the program has a value and it is > 0 -/
theorem binary_tag_spec (o : Option Rat) :
    ((Cls.binTag o).1 = 1 ↔ ∃ v, o = some v ∧ 0 < v) ∧ ((Cls.binTag o).1 = 0 ∨ (Cls.binTag o).1 = 1) := by
  cases o with
  | none => simp [Cls.binTag, Cls.valOr0]
  | some v =>
    simp only [Cls.binTag, Cls.valOr0, rat_lt, rat_zero, Option.some.injEq, exists_eq_left']
    by_cases h : 0 < v <;> simp [h]

/-! ### the Gaussian classifier's statistics are the documented ones -/

/-- `fill_vector` feeds each output cut to ±10000000, a missing output as 0.0 -/
theorem gauss_cut (ex : Rat → Rat) (dsc : Rat → Nat → Nat) (o : Option Rat) :
    letI := ratNumC ex dsc
    (-10000000 ≤ Cls.cutVal o ∧ Cls.cutVal o ≤ 10000000) ∧
    (o = none → Cls.cutVal o = 0) ∧
    (∀ v, o = some v → -10000000 ≤ v → v ≤ 10000000 → Cls.cutVal o = v) ∧
    (∀ v, o = some v → 10000000 < v → Cls.cutVal o = 10000000) ∧
    (∀ v, o = some v → v < -10000000 → Cls.cutVal o = -10000000) := by
  letI := ratNumC ex dsc
  have hcut : (cut : Rat) = 10000000 := rfl
  cases o with
  | none =>
    simp only [Cls.cutVal, Cls.valOr0, rat_lt, rat_neg, rat_zero, hcut]
    have h1 : ¬ ((10000000 : Rat) < 0) := by grind
    have h2 : ¬ ((0 : Rat) < -10000000) := by grind
    simp only [h1, h2, decide_false, Bool.false_eq_true, if_false]
    refine ⟨⟨by grind, by grind⟩, by first | trivial | (intros; first | trivial | rfl), ?_, ?_, ?_⟩ <;> intro v hv <;> simp at hv
  | some w =>
    simp only [Cls.cutVal, Cls.valOr0, rat_lt, rat_neg, hcut, decide_eq_true_eq]
    by_cases h1 : (10000000 : Rat) < w
    · simp only [h1, if_true]
      refine ⟨⟨by grind, by grind⟩, by simp, ?_, by first | trivial | (intros; first | trivial | rfl), ?_⟩
      · intro v hv _ h3; simp only [Option.some.injEq] at hv; subst hv; grind
      · intro v hv h3; simp only [Option.some.injEq] at hv; subst hv; grind
    · by_cases h2 : w < -10000000
      · simp only [h1, h2, if_false, if_true]
        refine ⟨⟨by grind, by grind⟩, by simp, ?_, ?_, by first | trivial | (intros; first | trivial | rfl)⟩
        · intro v hv h3 _; simp only [Option.some.injEq] at hv; subst hv; grind
        · intro v hv h3; simp only [Option.some.injEq] at hv; subst hv; grind
      · simp only [h1, h2, if_false]
        refine ⟨⟨by grind, by grind⟩, by simp, ?_, ?_, ?_⟩
        · intro v hv _ _; simp only [Option.some.injEq] at hv; exact hv
        · intro v hv h3; simp only [Option.some.injEq] at hv; subst hv; exact absurd h3 h1
        · intro v hv h3; simp only [Option.some.injEq] at hv; subst hv; exact absurd h3 h2

/-- `fill_vector` : the distribution of class `c` has seen exactly the cut outputs of the training
    examples labelled `c`, in dataset order – ALL of them, also those without a value (as 0.0). -/
theorem gauss_fill_per_class {F} [NumC F] (classes : Nat) (train : List (Option F × Nat)) (c : Nat)
    (hc : c < classes) :
    (Cls.fillVector classes train)[c]? = some (Cls.pushAll Cls.Dist.empty (Cls.classVals train c)) := by
  unfold Cls.fillVector
  rw [Cls.foldl_modify_getElem?]
  simp [hc]

/-- Welford's on-line update computes the two-pass statistics: after pushing a non-empty list of
    values into an empty distribution, `count` is their number, `mean()` their arithmetic mean and
    `variance()` their population variance `Σ (x − mean)² / n`. -/
theorem welford_is_mean_variance (ex : Rat → Rat) (dsc : Rat → Nat → Nat) (xs : List Rat) (h : xs ≠ []) :
    letI := ratNumC ex dsc
    let d := Cls.pushAll Cls.Dist.empty xs
    d.count = xs.length ∧ d.mean = xs.sum / (xs.length : Rat) ∧
    d.variance = (xs.map (fun x => (x - d.mean) * (x - d.mean))).sum / (xs.length : Rat) := by
  letI := ratNumC ex dsc
  intro d
  have hinv := pushAll_inv ex dsc xs Cls.Dist.empty [] ⟨rfl, fun h0 => absurd h0 (by decide)⟩
  simp only [List.nil_append] at hinv
  obtain ⟨hc, hm⟩ := hinv
  have hlen : 0 < xs.length := List.length_pos_iff.mpr h
  have hpos : 0 < d.count := by show 0 < (Cls.pushAll Cls.Dist.empty xs).count; omega
  obtain ⟨hmean, hm2⟩ := hm hpos
  have hcR : ((Cls.pushAll Cls.Dist.empty xs).count : Rat) = (xs.length : Rat) := by rw [hc]
  have hne : (xs.length : Rat) ≠ 0 := by
    have : (0 : Rat) < (xs.length : Rat) := Rat.natCast_pos.mpr hlen
    grind
  have hmean' : d.mean = xs.sum / (xs.length : Rat) := by
    show (Cls.pushAll Cls.Dist.empty xs).mean = _
    rw [← hmean, hcR, Rat.div_def, Rat.mul_assoc, Rat.mul_inv_cancel _ hne, Rat.mul_one]
  refine ⟨hc, hmean', ?_⟩
  show Cls.Dist.variance (Cls.pushAll Cls.Dist.empty xs) = _
  unfold Cls.Dist.variance
  show (Cls.pushAll Cls.Dist.empty xs).m2 / (((Cls.pushAll Cls.Dist.empty xs).count : Nat) : Rat) = _
  rw [hm2, hcR, sum_sq_dev]
  congr 1
  have hs : xs.sum = (Cls.pushAll Cls.Dist.empty xs).mean * (xs.length : Rat) := by rw [← hmean, hcR]
  show _ = sumSq xs - 2 * (Cls.pushAll Cls.Dist.empty xs).mean * xs.sum +
    (xs.length : Rat) * ((Cls.pushAll Cls.Dist.empty xs).mean * (Cls.pushAll Cls.Dist.empty xs).mean)
  rw [hs]
  grind

/-- a class with ONE training example: mean = its (cut) output, variance 0 – the "borderline"
    branch of `tag` (score 1 within `issmall` of the mean, else 0) -/
theorem gauss_single_example_class (ex : Rat → Rat) (dsc : Rat → Nat → Nat) (x : Rat) :
    letI := ratNumC ex dsc
    (Cls.pushAll Cls.Dist.empty [x]).mean = x ∧ (Cls.pushAll Cls.Dist.empty [x]).variance = 0 ∧
    ∀ y : Rat, Cls.gaussP y (Cls.pushAll Cls.Dist.empty [x]) = if (y - x).abs < 1 / 2 ^ 51 then 1 else 0 := by
  letI := ratNumC ex dsc
  have h := welford_is_mean_variance ex dsc [x] (by simp)
  simp only [List.sum_cons, List.sum_nil, List.length_cons, List.length_nil, List.map_cons, List.map_nil] at h
  obtain ⟨_, hm, hv⟩ := h
  have h01 : ((0 + 1 : Nat) : Rat) = 1 := by simp
  have hm' : (Cls.pushAll Cls.Dist.empty [x]).mean = x := by rw [hm, h01]; grind
  have hv' : (Cls.pushAll Cls.Dist.empty [x]).variance = 0 := by rw [hv, hm', h01]; grind
  refine ⟨hm', hv', fun y => ?_⟩
  unfold Cls.gaussP
  simp only [hv', hm']
  have hs : issmall (0 : Rat) = true := by
    have := eps2_pos
    simp [issmall, Rat.abs]; grind
  have h0 : Rat.abs 0 < 1 / 2 ^ 51 := by
    have := eps2_pos
    simp [Rat.abs]; grind
  have habs : (y - x).abs.abs = (y - x).abs := Rat.abs_of_nonneg Rat.abs_nonneg
  simp only [issmall, rat_abs, rat_sub, rat_lt, rat_eps2, rat_one, rat_zero, decide_eq_true_eq, h0, if_true, habs]

/-- the documented Gaussian score, end to end (exact arithmetic) -/
theorem gaussian_end_to_end_score (ex : Rat → Rat) (dsc : Rat → Nat → Nat) (classes members : Nat)
    (d : List (Cls.TEx Rat)) :
    letI := ratNumC ex dsc
    (Cls.gaussianEvaluator classes members d).1 =
      [ ((Cls.tagAll (Cls.gaussTaggers classes members d) d).map
          (gaussTerm ((classes - 1 : Nat) : Rat))).sum ] := by
  letI := ratNumC ex dsc
  exact gaussian_score _ _

/-! ### never NaN, never positive: the Gaussian evaluator under the IEEE laws -/

/-- EVERY dataset (≥ 2 classes), every program output – missing, astronomically large, beyond the
    ±1e7 cut, NaN –, every class layout (single example, equal outputs: variance 0; no usable
    example: variance NaN; every score underflowing: sum 0), individuals and teams:
    each confidence is in [0,1] and the fitness is one component that is not NaN and ≤ 0. -/
theorem gaussian_no_nan {F} [NumC F] (G : GaussLaws F) (classes members : Nat) (hc : 2 ≤ classes)
    (d : List (Cls.TEx F)) :
    (∀ f ∈ (Cls.gaussianEvaluator classes members d).1, ¬ G.base.nan f ∧ le f (zero : F) = true) ∧
    (∀ e ∈ Cls.tagAll (Cls.gaussTaggers classes members d) d,
      ¬ G.base.nan e.sureness ∧ le (zero : F) e.sureness = true ∧ le e.sureness (one : F) = true) := by
  refine ⟨fun f hf => Cls.gaussianEvaluator_nonpos G classes members hc d f hf, ?_⟩
  intro e he
  unfold Cls.tagAll at he
  simp only [List.mem_map] at he
  obtain ⟨x, _, rfl⟩ := he
  have hu := Cls.teamTag_unit G _ (Cls.gaussTaggers_unit G classes members d) x
  exact ⟨Cls.unit_not_nan G hu, G.base.sp_nn _ hu.1, hu.2⟩

/-- the clamping of `fill_vector` under the same laws: whatever the program yields (nothing, ±1e308,
    anything but NaN – a NaN is ignored by `distribution::add`), the value fed to the class
    distribution lies in [−1e7, 1e7] -/
theorem gauss_cut_bounded {F} [NumC F] (G : GaussLaws F) (o : Option F) (h : ¬ G.base.nan (Cls.valOr0 o)) :
    le (neg (cut : F)) (Cls.cutVal o) = true ∧ le (Cls.cutVal o) (cut : F) = true :=
  Cls.cutVal_bounded G o h

/-- … instantiated with exact arithmetic (any `exp` with `0 ≤ exp x ≤ 1` for `x ≤ 0`): the
    end-to-end Gaussian fitness is ≤ 0 (this also shows that `GaussLaws` is satisfiable). -/
theorem gaussian_evaluator_nonpos (ex : Rat → Rat) (dsc : Rat → Nat → Nat)
    (hex : ∀ x : Rat, x ≤ 0 → 0 ≤ ex x ∧ ex x ≤ 1) (classes members : Nat) (hc : 2 ≤ classes)
    (d : List (Cls.TEx Rat)) :
    letI := ratNumC ex dsc
    ∀ f ∈ (Cls.gaussianEvaluator classes members d).1, f ≤ 0 := by
  letI := ratNumC ex dsc
  intro f hf
  have := (gaussian_no_nan (ratGaussLaws ex dsc hex) classes members hc d).1 f hf
  simpa using this.2

/-! ## 11. `fast()`, `test_evaluator`, penalties of every type, GA / DE behind a constraint -/

/-- `evaluator<T>::fast` (not overridden by the classification, GA/DE and test evaluators) IS the
    standard evaluation -/
theorem default_fast_is_operator {α β} (op : α → β) (x : α) : defaultFast op x = op x := rfl

/-- `test_evaluator` is TIME-INVARIANT: in any history of calls on one object (any starting buffer),
    two calls on the same individual return the same fitness. -/
theorem test_time_invariant {α : Type} {F} [DecidableEq α] [NumC F] (rnd : Nat → F) (k : TestKind)
    (buf xs : List α) (i j : Nat) (x : α) (hi : xs[i]? = some x) (hj : xs[j]? = some x) :
    (testRun rnd k buf xs)[i]? = (testRun rnd k buf xs)[j]? := by
  rw [testRun_getElem?, testRun_getElem?, hi, hj]

/-- `fixed`: the same fitness `(0)` for everybody -/
theorem test_fixed_zero {α : Type} {F} [DecidableEq α] [NumC F] (rnd : Nat → F) (buf xs : List α) (i : Nat)
    (hi : i < xs.length) : (testRun rnd .fixed buf xs)[i]? = some [zero] := by
  rw [testRun_getElem?]
  simp [List.getElem?_eq_getElem hi, testVal]

/-- `distinct`: different individuals get different fitnesses (exact arithmetic; the fitness is
    the position in the buffer of first sightings) -/
theorem test_distinct_injective {α : Type} [DecidableEq α] (ex : Rat → Rat) (dsc : Rat → Nat → Nat)
    (rnd : Nat → Rat) (xs : List α) (i j : Nat) (x y : α)
    (hi : xs[i]? = some x) (hj : xs[j]? = some y) (hxy : x ≠ y) :
    letI := ratNumC ex dsc
    (testRun rnd .distinct [] xs)[i]? ≠ (testRun rnd .distinct [] xs)[j]? := by
  letI := ratNumC ex dsc
  rw [testRun_getElem?, testRun_getElem?, hi, hj]
  simp only [Option.map_some, reduceCtorEq, if_false, testVal, ne_eq, Option.some.injEq, List.cons.injEq,
    and_true]
  have hnd := nodup_finalBuf xs ([] : List α) List.nodup_nil
  -- both individuals are in the final buffer
  have hmem : ∀ (k : Nat) (z : α), xs[k]? = some z → z ∈ finalBuf ([] : List α) xs := by
    intro k z hk
    have hsplit : ∀ (l : List α) (b : List α) (k : Nat), l[k]? = some z → z ∈ finalBuf b l := by
      intro l
      induction l with
      | nil => intro b k h; simp at h
      | cons a rest ih =>
        intro b k h
        cases k with
        | zero =>
          simp only [List.getElem?_cons_zero, Option.some.injEq] at h
          subst h
          exact (idxOf_finalBuf rest (grow b a) a (mem_grow b a)).2
        | succ k' =>
          simp only [List.getElem?_cons_succ] at h
          exact ih (grow b a) k' h
    exact hsplit xs [] k hk
  have hx := hmem i x hi
  have hy := hmem j y hj
  intro heq
  have hnat : (finalBuf ([] : List α) xs).idxOf x = (finalBuf ([] : List α) xs).idxOf y := by
    have : (((finalBuf ([] : List α) xs).idxOf x : Nat) : Rat) = (((finalBuf ([] : List α) xs).idxOf y : Nat) : Rat) := heq
    exact Rat.natCast_inj.mp this
  have h1 := List.getElem_idxOf (List.idxOf_lt_length_of_mem hx)
  have h2 := List.getElem_idxOf (List.idxOf_lt_length_of_mem hy)
  apply hxy
  rw [← h1, ← h2]
  simp only [hnat]

/-- `constrained_evaluator`, penalty function of ANY return type: the base fitness with one component
    prepended (also around a GA / DE evaluator whose objective is not finite: the result is the
    one-component fitness `(−penalty)`) -/
theorem constrained_typed_shape {F} [NumC F] (p : Pen F) (base : List F) (fv : F) :
    constrainedEvalP p base = penaltyComponent p :: base ∧
    (isFinite fv = false → constrainedEvalP p (gaEval fv) = [penaltyComponent p]) ∧
    (isFinite fv = true → constrainedEvalP p (gaEval fv) = [penaltyComponent p, fv]) := by
  refine ⟨rfl, ?_, ?_⟩ <;> intro h <;> simp [constrainedEvalP, gaEval, h]

/-- the prepended component is minus the penalty, hence ≤ 0 for every non-negative penalty of
    every integral / boolean / floating type (exact arithmetic) -/
theorem penalty_component_nonpos (ex : Rat → Rat) (dsc : Rat → Nat → Nat) :
    letI := ratNumC ex dsc
    (∀ bits n, penaltyComponent (Pen.nat bits n : Pen Rat) = -(n : Rat) ∧ penaltyComponent (Pen.nat bits n : Pen Rat) ≤ 0) ∧
    (∀ n : Int, 0 ≤ n → penaltyComponent (Pen.int n : Pen Rat) ≤ 0) ∧
    (∀ b, penaltyComponent (Pen.bool b : Pen Rat) ≤ 0) ∧
    (∀ x : Rat, 0 ≤ x → penaltyComponent (Pen.dbl x) ≤ 0) := by
  letI := ratNumC ex dsc
  refine ⟨fun bits n => ?_, fun n hn => ?_, fun b => ?_, fun x hx => ?_⟩
  · have h : (0 : Rat) ≤ (n : Rat) := Rat.natCast_nonneg
    refine ⟨rfl, ?_⟩
    show -(n : Rat) ≤ 0
    grind
  · have hlt : ¬ n < 0 := by omega
    show -(if n < 0 then -((n.natAbs : Nat) : Rat) else ((n.toNat : Nat) : Rat)) ≤ 0
    simp only [hlt, if_false]
    have h : (0 : Rat) ≤ (n.toNat : Rat) := Rat.natCast_nonneg
    grind
  · cases b
    · show -(0 : Rat) ≤ 0; grind
    · show -(1 : Rat) ≤ 0; grind
  · show -x ≤ 0; grind

/-- WITNESS of the defect repaired in vita (fix3-c05): the shipped expression
    `static_cast<double>(-penalty_(prg))` negates in the penalty's type – for an unsigned penalty
    `0 < n < 2^bits` the component was the POSITIVE number `2^bits − n`. -/
theorem legacy_unsigned_penalty_positive (ex : Rat → Rat) (dsc : Rat → Nat → Nat) (bits n : Nat)
    (h0 : 0 < n) (h1 : n < 2 ^ bits) :
    letI := ratNumC ex dsc
    legacyComponent (Pen.nat bits n : Pen Rat) = ((2 ^ bits - n : Nat) : Rat) ∧
    0 < legacyComponent (Pen.nat bits n : Pen Rat) := by
  letI := ratNumC ex dsc
  have hmod : (2 ^ bits - n % 2 ^ bits) % 2 ^ bits = 2 ^ bits - n := by
    rw [Nat.mod_eq_of_lt h1]
    exact Nat.mod_eq_of_lt (by omega)
  have heq : legacyComponent (Pen.nat bits n : Pen Rat) = ((2 ^ bits - n : Nat) : Rat) := by
    show (((2 ^ bits - n % 2 ^ bits) % 2 ^ bits : Nat) : Rat) = _
    rw [hmod]
  refine ⟨heq, ?_⟩
  rw [heq]
  exact Rat.natCast_pos.mpr (by omega)

/-- IEEE laws: a finite penalty ≥ 0 gives a component that is not NaN and ≤ 0 -/
theorem penalty_component_no_nan {F} [NumC F] (L : IEEELaws F) (p : Pen F)
    (h : L.fin p.toF ∧ nn p.toF) : ¬ L.nan (penaltyComponent p) ∧ le (penaltyComponent p) (zero : F) = true :=
  L.neg_nonpos _ h.1 h.2

/-! ## 12. the error functors AS THE CODE HAS THEM

  `Gen.maeErr … Gen.countErr`, `Gen.issmall` (Gen.lean) are generated on every run by
  tools/translate_errf.py from the clang AST of `*_error_functor<i_mep>::operator()`
  (evaluator.tcc) and `issmall` (utility.h) as terms over `FloatOps F`.  The theorems below are
  about THOSE terms: they stop checking when the text of the functors changes its meaning. -/

/-- the generated functors are the model's functors – for every carrier of the `FloatOps` embedding
    (`numOfFloatOps` reads the model's constants off the C++ literals) -/
theorem generated_functors_are_model {F : Type} [FloatOps F] (k : ErrKind) (o : Option F) (t : F) :
    Gen.errF k o t = @errF F (numOfFloatOps F) k o t ∧
    ∀ v : F, Gen.issmall v = @issmall F (numOfFloatOps F) v := by
  refine ⟨?_, fun v => gen_issmall v⟩
  rw [gen_errF]

/-- read exactly (`ratFloatOps`: a literal denotes the rational it encodes), the code's functors
    compute the documented per-example errors, illegal-value penalties and guards included -/
theorem generated_documented_errors (a t : Rat) :
    @Gen.errF Rat ratFloatOps .mae (some a) t = (a - t).abs ∧
    @Gen.errF Rat ratFloatOps .mse (some a) t = (a - t) * (a - t) ∧
    @Gen.errF Rat ratFloatOps .rmae (some a) t =
      (if (t - a).abs ≤ 10 / 2 ^ 1022 then 0 else 200 * (t - a).abs / (a.abs + t.abs)) ∧
    @Gen.errF Rat ratFloatOps .count (some a) t = (if (a - t).abs < 1 / 2 ^ 51 then 0 else 1) ∧
    @Gen.errF Rat ratFloatOps .mae none t = 179769313486231570814527423731704356798070567525844996598917476803157260780028538760589558632766878171540458953514382464234321326889464182768467546703537516986049910576551282076245490090389328944075868508455133942304583236903222948165808559332123348274797826204144723168738177180919299881250404026184124858368 / 100 ∧
    @Gen.errF Rat ratFloatOps .mse none t = @Gen.errF Rat ratFloatOps .mae none t ∧
    @Gen.errF Rat ratFloatOps .rmae none t = 200 ∧ @Gen.errF Rat ratFloatOps .count none t = 1 ∧
    (∀ v : Rat, @Gen.issmall Rat ratFloatOps v = decide (v.abs < 1 / 2 ^ 51)) := by
  simp only [gen_errF_rat, gen_issmall_rat]
  have h := documented_errors a t
  refine ⟨h.1, h.2.1, h.2.2.1, h.2.2.2.1, ?_, ?_, h.2.2.2.2.2.2.1, h.2.2.2.2.2.2.2, fun v => rfl⟩
  · rw [h.2.2.2.2.1]; rfl
  · rw [h.2.2.2.2.1, h.2.2.2.2.2.1]

/-- the evaluators built on the code's functors (exact reading): one component, minus the mean of
    the documented error over the visited examples; never positive; `(0)` iff every visited
    target is reproduced within the documented tolerance -/
theorem generated_fitness (k : ErrKind) (step : Nat) (d : List (Ex Rat)) :
    (visited step d 0 ≠ [] →
      (sumOfErrors (@Gen.errF Rat ratFloatOps k) step d).1 =
        [ - (((visited step d 0).map (errOf (errF k))).sum / ((visited step d 0).length : Rat)) ]) ∧
    (∀ f ∈ (sumOfErrors (@Gen.errF Rat ratFloatOps k) step d).1, f ≤ 0) ∧
    (visited step d 0 ≠ [] →
      ((sumOfErrors (@Gen.errF Rat ratFloatOps k) step d).1 = [0] ↔
        ∀ e ∈ visited step d 0, Matches k e.out e.target)) := by
  rw [gen_errF_rat]
  exact ⟨fitness_is_minus_mean _ step d, fitness_nonpos k step d, zero_iff_all_match_stride k step d⟩

/-- … and their difficulty update (any carrier): visited examples whose error, as the code computes
    it, is not `issmall` (as the code defines it) get `+1`, nothing else is touched -/
theorem generated_difficulty {F : Type} [FloatOps F] (k : ErrKind) (d : List (Ex F)) :
    (@evalFull F (numOfFloatOps F) (Gen.errF k) d).2 =
      d.map (fun e => if Gen.issmall (Gen.errF k e.out e.target) then e
                      else { e with difficulty := e.difficulty + 1 }) := by
  rw [@difficulty_exact F (numOfFloatOps F)]
  rfl

/-- never NaN, never positive: the evaluators built on the code's functors, any carrier obeying the
    IEEE laws, any stride, any dataset, any outputs -/
theorem generated_no_nan {F : Type} [FloatOps F] :
    letI : Num F := numOfFloatOps F
    ∀ (L : IEEELaws F) (k : ErrKind) (step : Nat) (d : List (Ex F)),
      ∀ f ∈ (sumOfErrors (Gen.errF k) step d).1, ¬ L.nan f ∧ le f (zero : F) = true := by
  intro L k step d
  rw [gen_errF]
  exact @no_nan_shipped F (numOfFloatOps F) L k step d

/-! ## 13. an evaluator object evaluates the data it holds AT CALL TIME

  `runHist call d ops` = a history on one evaluator object bound to one dataframe: the dataframe is
  changed (rows appended / erased / reloaded, classes added) and `operator()` / `fast()` is called,
  in any order.  `call` is the evaluator as a closure over its CONSTRUCTION PARAMETERS ONLY
  (`soeCall k step`, `dynCall xslot members`, `gaussCall members`, `binCall members`). -/

/-- EVERY call of EVERY history returns what the evaluator function gives on the data as they are
    just before that call (rows, class table, counters – including the counter updates of earlier
    calls): nothing seen at construction or at an earlier call is remembered. -/
theorem history_current_data {D R : Type} (call : D → R × D) (d : D) (pre post : List (HistOp D)) :
    (runHist call d (pre ++ HistOp.call :: post)).1[nCalls pre]? =
      some (call (runHist call d pre).2).1 := by
  rw [runHist_append]
  simp only [runHist]
  rw [List.getElem?_append_right (by rw [runHist_length]; exact Nat.le_refl _)]
  simp [runHist_length]

/-- … in particular what the dataframe held when the evaluator was constructed is irrelevant as
    soon as it has been (re)loaded: two objects built on different data behave the same. -/
theorem construction_data_irrelevant {D R : Type} (call : D → R × D) (atConstruction₁ atConstruction₂ now : D)
    (ops : List (HistOp D)) :
    runHist call atConstruction₁ (HistOp.mutate (fun _ => now) :: ops) =
      runHist call atConstruction₂ (HistOp.mutate (fun _ => now) :: ops) := rfl

/-- the Gaussian evaluator normalises with the number of classes of the class table AT CALL TIME:
    a call on the frame `fr` is the documented score with `fr.classes − 1` (exact arithmetic) -/
theorem gaussian_scale_is_current (ex : Rat → Rat) (dsc : Rat → Nat → Nat) (members : Nat)
    (fr : ClsFrame Rat) :
    letI := ratNumC ex dsc
    (gaussCall members fr).1 =
      [ ((Cls.tagAll (Cls.gaussTaggers fr.classes members fr.rows) fr.rows).map
          (gaussTerm ((fr.classes - 1 : Nat) : Rat))).sum ] := by
  letI := ratNumC ex dsc
  exact gaussian_end_to_end_score ex dsc fr.classes members fr.rows

/-! ## 14. the counters the evaluators keep are as wide as the model assumes (round 3c, C05-m8)

The model counts in `Nat`; the code in the machine types listed by `GenCounters.table` (generated from the clang AST
on every run).  `generated_counters_wide_enough` is the obligation about the code AS IT IS NOW: narrowing any counter
breaks it before a single dataset is sampled. -/

/-- every data member, local and updated lvalue of the evaluators / classifiers is at least an `unsigned` (32 bits),
    a 32-bit signed or a `double`, and `difficulty`, `count_`, `dataset_size_` are 64 bits, `slot_matrix_` / `age`
    32 bits, `mean_` / `m2_` doubles (kernel evaluation of the generated table) -/
theorem generated_counters_wide_enough : Counters.tableOk GenCounters.table = true := by decide

/-- a `w`-bit counter started at 0 holds `n mod 2^w` after `n` increments: exact below `2^w`, back to `j` after
    `2^w + j` -/
theorem wrapping_counter_is_mod (w n : Nat) : Counters.countW w n = n % 2 ^ w := Counters.countW_eq_mod w n

/-- hence every INTEGER counter of the generated table counts every dataset of fewer than `2^31` examples exactly
    (no wrap-around), whatever the evaluator does with it -/
theorem generated_counters_exact (c : Counters.Counter) (hc : c ∈ GenCounters.table) (n : Nat) (hn : n < 2 ^ 31) :
    Counters.countW c.cap n = n := by
  have h := Counters.rowOk_of_tableOk generated_counters_wide_enough hc
  have h31 : 31 ≤ c.cap := by
    cases hk : c.kind <;> simp [hk, Counters.minCap] at h <;> omega
  rw [Counters.countW_eq_mod]
  exact Nat.mod_eq_of_lt (Nat.lt_of_lt_of_le hn (Nat.pow_le_pow_right (by omega) h31))

/-- `fill_matrix` run with `w`-bit wrapping counters builds the model's (unbounded) slot table on every training
    set of fewer than `2^w` examples – any number type, any program outputs, any labels -/
theorem narrow_fill_matrix_exact {F : Type} [NumC F] (w classes xslot : Nat) (train : List (Option F × Nat))
    (h : train.length < 2 ^ w) : Counters.fillMatrixW w classes xslot train = Cls.fillMatrix classes xslot train :=
  Counters.fillMatrixW_eq w classes xslot train h

/-- … in particular with the width the code declares NOW for `slot_matrix_` (whatever row of the table describes it) -/
theorem generated_fill_matrix_exact {F : Type} [NumC F] (c : Counters.Counter) (hc : c ∈ GenCounters.table)
    (classes xslot : Nat) (train : List (Option F × Nat)) (h : train.length < 2 ^ 31) :
    Counters.fillMatrixW c.cap classes xslot train = Cls.fillMatrix classes xslot train := by
  have hr := Counters.rowOk_of_tableOk generated_counters_wide_enough hc
  have h31 : 31 ≤ c.cap := by
    cases hk : c.kind <;> simp [hk, Counters.minCap] at hr <;> omega
  exact Counters.fillMatrixW_eq _ _ _ _ (Nat.lt_of_lt_of_le h (Nat.pow_le_pow_right (by omega) h31))

/-- WITNESS of the family C05-m8 belongs to: with 16-bit counters a slot holding 65539 examples of class 0 and 10
    of class 1 goes to class 1 (the counter reads 3), the documented rule gives it to class 0 -/
theorem narrow_counter_flips_slot :
    Cls.bestClass [Counters.countW 16 65539, Counters.countW 16 10] = 1 ∧ Cls.bestClass [65539, 10] = 0 := by
  rw [Counters.countW_eq_mod, Counters.countW_eq_mod]
  decide


/-! ## non-vacuity -/

/-- the law structure is inhabited (exact arithmetic) -/
example : IEEELaws Rat := ratLaws

/-- a concrete dataset: program `X1`-style outputs 1, 2, undefined against targets 1, 4, 0 -/
def sample : List (Ex Rat) := [⟨some 1, 1, 0⟩, ⟨some 2, 4, 7⟩, ⟨none, 0, 0⟩]

example : (evalFull (errF .count) sample).1 = [-(2/3 : Rat)] := by
  rw [fitness_full _ _ (by simp [sample])]
  simp [sample, errOf, errF, countErr, issmall, Rat.abs]
  grind
example : ((evalFull (errF .count) sample).2.map (·.difficulty)) = [0, 8, 1] := by
  rw [difficulty_exact]
  simp [sample, bump, errF, countErr, issmall, Rat.abs]
  grind
example : Matches .mae (some 3) 3 := rfl
example : ¬ Matches .mae none 3 := by simp [Matches]
example : visited 5 [0,1,2,3,4,5,6,7,8,9,10,11] 0 = [0, 5] := by decide

/-- `GaussLaws` is inhabited (exact arithmetic, `exp x := 1` for instance) -/
example : @GaussLaws Rat (ratNumC (fun _ => 1) (fun _ _ => 0)) :=
  ratGaussLaws _ _ (fun _ _ => ⟨by grind, by grind⟩)

/-- three calls on individuals 7, 9, 7 of a `distinct` test evaluator: fitnesses 0, 1, 0 -/
example : @testRun Nat Rat _ (ratNumC (fun _ => 1) (fun _ _ => 0)) (fun _ => 0) .distinct [] [7, 9, 7] =
    [[0], [1], [0]] := by
  simp [testRun, testEval, bufferIndex]
  exact ⟨rfl, rfl, rfl⟩
/-- a history: evaluate, append a row, evaluate again – the second call sees three rows -/
example : (runHist (fun (d : List Nat) => (d.length, d)) [1, 2] [.call, .mutate (· ++ [7]), .call]).1 = [2, 3] := rfl

/-- hypotheses of `legacy_unsigned_penalty_positive` / `penalty_component_no_nan`: a penalty of `3u` -/
example : 0 < 3 ∧ 3 < 2 ^ 32 := by omega
example : @penaltyComponent Rat (ratNumC (fun _ => 1) (fun _ _ => 0)) (Pen.nat 32 3) = -3 := rfl
example : @legacyComponent Rat (ratNumC (fun _ => 1) (fun _ _ => 0)) (Pen.nat 32 3) = 4294967293 := by
  show (((2 ^ 32 - 3 % 2 ^ 32) % 2 ^ 32 : Nat) : Rat) = 4294967293
  decide +kernel
/-- the exact reading of the generated functors on a concrete example: |3 − 5| = 2, (3 − 5)² = 4 -/
example : @Gen.errF Rat ratFloatOps .mae (some 3) 5 = 2 ∧ @Gen.errF Rat ratFloatOps .mse (some 3) 5 = 4 := by
  have h := generated_documented_errors 3 5
  refine ⟨h.1.trans ?_, h.2.1.trans ?_⟩
  · simp [Rat.abs]; grind
  · grind

/-- `generated_counters_exact` / `generated_fill_matrix_exact`: the table has rows (the slot matrix among them) -/
example : GenCounters.table.any (fun c => c.owner == "basic_dyn_slot_lambda_f" && c.name == "slot_matrix_") = true := by
  decide
/-- `narrow_fill_matrix_exact`: 3 examples fit in a 2-bit counter; `tableOk` rejects a 16-bit slot matrix -/
example : [(some (1 : Rat), 0), (none, 1), (some 2, 0)].length < 2 ^ 2 := by decide
example : Counters.tableOk [⟨"basic_dyn_slot_lambda_f", "slot_matrix_", .field, "unsigned short", .uns, 16⟩] = false := by
  decide

end Vita.C05
