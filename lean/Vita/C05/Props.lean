/-
  C05 — evaluators compute the documented standardized fitness.

  Property theorems only (helpers: Lemmas.lean, Laws.lean; model: Model.lean).
  `Rat` = exact arithmetic; `F` = any number type; `IEEELaws F` = IEEE facts as hypotheses.
-/
import Vita.C05.Lemmas
import Vita.C05.Laws

namespace Vita.C05
open Num

/-! ## 1. the running mean recurrence is the mean -/

/-- `average_error += (err - average_error) / ++n` over a non-empty list of errors, started
    from `(0, 0)`, ends with `Σ err / n` – for every list, no size bound. -/
theorem runmean_eq_mean (errs : List Rat) (h : errs ≠ []) :
    (runMean ((0 : Rat), (0 : Rat)) errs).1 = errs.sum / (errs.length : Rat) := by
  have hl : 0 < 0 + errs.length := by
    cases errs with
    | nil => exact absurd rfl h
    | cons _ _ => simp
  have := runMean_spec errs 0 0 hl
  simp only [Rat.natCast_ofNat, Nat.zero_add] at this
  rw [this]
  simp only []
  grind

/-! ## 2. which examples are visited (stride of `sum_of_errors_impl(prg, step)`) -/

/-- The loop visits `⌊n / step⌋` examples: those at positions `0, step, 2·step, …` for which at
    least `step` elements remain. -/
theorem stride_visits {α} (step : Nat) (hs : 0 < step) (d : List α) :
    (visited step d 0).length = d.length / step ∧
    ∀ j, (visited step d 0)[j]? = if j * step + step ≤ d.length then d[j * step]? else none := by
  refine ⟨by simpa using visited_length step hs d 0, fun j => ?_⟩
  simpa using visited_getElem? step hs d 0 j

/-- `operator()` (step 1) visits every example, in order. -/
theorem full_visits_all {α} (d : List α) : visited 1 d 0 = d := visited_one d

/-! ## 3. the fitness is minus the mean of the documented per-example error -/

/-- For any error functor and any stride, the fitness has exactly one component: minus the mean
    of the functor over the visited examples. -/
theorem fitness_is_minus_mean (errf : Option Rat → Rat → Rat) (step : Nat) (d : List (Ex Rat))
    (h : visited step d 0 ≠ []) :
    (sumOfErrors errf step d).1 =
      [ - (((visited step d 0).map (errOf errf)).sum / ((visited step d 0).length : Rat)) ] := by
  unfold sumOfErrors
  simp only [loop_fst, rat_neg, rat_zero]
  have hne : (visited step d 0).map (errOf errf) ≠ [] := by simpa using h
  rw [runmean_eq_mean _ hne]
  simp

/-- `operator()` : minus the mean over ALL examples of a non-empty dataset. -/
theorem fitness_full (errf : Option Rat → Rat → Rat) (d : List (Ex Rat)) (h : d ≠ []) :
    (evalFull errf d).1 = [ - ((d.map (errOf errf)).sum / (d.length : Rat)) ] := by
  have := fitness_is_minus_mean errf 1 d (by rwa [visited_one])
  rwa [visited_one] at this

/-- the documented per-example errors (exact arithmetic: nothing overflows) -/
theorem documented_errors (a t : Rat) :
    errF .mae (some a) t = (a - t).abs ∧
    errF .mse (some a) t = (a - t) * (a - t) ∧
    errF .rmae (some a) t =
      (if (t - a).abs ≤ 10 / 2 ^ 1022 then 0 else 200 * (t - a).abs / (a.abs + t.abs)) ∧
    errF .count (some a) t = (if (a - t).abs < 1 / 2 ^ 51 then 0 else 1) ∧
    errF .mae none t = (penalty : Rat) ∧ errF .mse none t = (penalty : Rat) ∧
    errF .rmae none t = 200 ∧ errF .count none t = 1 := by
  refine ⟨by simp [errF, maeErr], by simp [errF, mseErr], ?_, ?_, rfl, rfl, rfl, rfl⟩
  · simp [errF, rmaeErr]
  · simp [errF, countErr, issmall]

/-! ## 4. never positive (exact arithmetic) -/

theorem err_nonneg (k : ErrKind) (o : Option Rat) (t : Rat) : 0 ≤ errF k o t := by
  cases k
  · exact maeErr_nonneg o t
  · exact rmaeErr_nonneg o t
  · exact mseErr_nonneg o t
  · exact countErr_nonneg o t

/-- Every component of the fitness of each shipped error-based evaluator is ≤ 0 – any dataset
    (also empty / shorter than the stride), any stride, any program outputs. -/
theorem fitness_nonpos (k : ErrKind) (step : Nat) (d : List (Ex Rat)) :
    ∀ f ∈ (sumOfErrors (errF k) step d).1, f ≤ 0 := by
  intro f hf
  unfold sumOfErrors at hf
  simp only [loop_fst, rat_neg, rat_zero, List.mem_singleton] at hf
  subst hf
  generalize hv : (visited step d 0).map (errOf (errF k)) = errs
  have hnn : ∀ x ∈ errs, 0 ≤ x := by
    intro x hx
    subst hv
    simp only [List.mem_map] at hx
    obtain ⟨e, _, rfl⟩ := hx
    exact err_nonneg k _ _
  by_cases he : errs = []
  · subst he; simp [runMean]
  · rw [runmean_eq_mean errs he]
    have h1 := sum_nonneg errs hnn
    have h2 : 0 ≤ errs.sum / (errs.length : Rat) := div_nonneg' _ _ h1 Rat.natCast_nonneg
    grind

/-! ## 5. zero exactly when every target is reproduced (documented tolerance) -/

/-- what "the program reproduces the target" means for each functor -/
def Matches : ErrKind → Option Rat → Rat → Prop
  | .mae, o, t => o = some t
  | .mse, o, t => o = some t
  | .rmae, o, t => ∃ a, o = some a ∧ (t - a).abs ≤ 10 / 2 ^ 1022      -- 10·DBL_MIN window
  | .count, o, t => ∃ a, o = some a ∧ (a - t).abs < 1 / 2 ^ 51        -- `issmall`: 2·DBL_EPSILON

theorem err_zero_iff (k : ErrKind) (o : Option Rat) (t : Rat) : errF k o t = 0 ↔ Matches k o t := by
  cases k
  · exact maeErr_zero_iff o t
  · exact rmaeErr_zero_iff o t
  · exact mseErr_zero_iff o t
  · exact countErr_zero_iff o t

/-- Any stride: the fitness is `(0)` iff every VISITED example is matched. -/
theorem zero_iff_all_match_stride (k : ErrKind) (step : Nat) (d : List (Ex Rat))
    (h : visited step d 0 ≠ []) :
    (sumOfErrors (errF k) step d).1 = [0] ↔ ∀ e ∈ visited step d 0, Matches k e.out e.target := by
  rw [fitness_is_minus_mean _ step d h]
  generalize hv : visited step d 0 = v at *
  have hlen : (0 : Rat) < (v.length : Rat) := by
    have : 0 < v.length := List.length_pos_iff.mpr h
    exact Rat.natCast_pos.mpr this
  have hnn : ∀ x ∈ v.map (errOf (errF k)), 0 ≤ x := by
    intro x hx
    simp only [List.mem_map] at hx
    obtain ⟨e, _, rfl⟩ := hx
    exact err_nonneg k _ _
  have hz := sum_eq_zero_iff _ hnn
  have hs : (- ((v.map (errOf (errF k))).sum / (v.length : Rat)) = 0) ↔ (v.map (errOf (errF k))).sum = 0 := by
    constructor
    · intro h0
      have : (v.map (errOf (errF k))).sum / (v.length : Rat) = 0 := by grind
      rw [Rat.div_def] at this
      have hinv : (0:Rat) < (v.length : Rat)⁻¹ := Rat.inv_pos.mpr hlen
      by_cases hsz : (v.map (errOf (errF k))).sum = 0
      · exact hsz
      · have h1 := sum_nonneg _ hnn
        have h2 : 0 < (v.map (errOf (errF k))).sum := by grind
        have := Rat.mul_pos h2 hinv
        grind
    · intro h0; rw [h0, Rat.div_def]; grind
  simp only [List.cons.injEq, and_true]
  rw [hs, hz]
  simp only [List.mem_map, forall_exists_index, and_imp, forall_apply_eq_imp_iff₂]
  constructor
  · intro hh e he; exact (err_zero_iff k _ _).mp (hh e he)
  · intro hh e he; exact (err_zero_iff k _ _).mpr (hh e he)

/-- `operator()` on a non-empty dataset: fitness `(0)` iff the program reproduces EVERY target
    (mae, mse: exactly; rmae: within 10·DBL_MIN; count: within `issmall`). -/
theorem zero_iff_all_match (k : ErrKind) (d : List (Ex Rat)) (h : d ≠ []) :
    (evalFull (errF k) d).1 = [0] ↔ ∀ e ∈ d, Matches k e.out e.target := by
  have := zero_iff_all_match_stride k 1 d (by rwa [visited_one])
  rwa [visited_one] at this

/-! ## 6. difficulty counters -/

/-- what `bump` does to one example: `out`, `target` untouched; `difficulty` + 1 exactly when the
    error is not `issmall` -/
theorem bump_spec {F} [Num F] (errf : Option F → F → F) (e : Ex F) :
    (bump errf e).out = e.out ∧ (bump errf e).target = e.target ∧
    (bump errf e).difficulty = e.difficulty + (if issmall (errf e.out e.target) then 0 else 1) := by
  unfold bump; split <;> simp

/-- One `operator()` call (any number type, any functor): the dataset afterwards is the dataset
    before with `difficulty'ᵢ = difficultyᵢ + [errᵢ not small]` and nothing else touched. -/
theorem difficulty_exact {F} [Num F] (errf : Option F → F → F) (d : List (Ex F)) :
    (evalFull errf d).2 = d.map (bump errf) := by
  unfold evalFull sumOfErrors
  exact loop_snd_one errf d _

/-- Any stride: same length; visited positions (`i = j·step`, `i + step ≤ n`) are bumped, every
    other example is untouched. -/
theorem difficulty_exact_stride {F} [Num F] (errf : Option F → F → F) (step : Nat) (hs : 0 < step)
    (d : List (Ex F)) (i : Nat) :
    (sumOfErrors errf step d).2.length = d.length ∧
    (VisitedAt step d.length 0 i → (sumOfErrors errf step d).2[i]? = d[i]?.map (bump errf)) ∧
    (¬ VisitedAt step d.length 0 i → (sumOfErrors errf step d).2[i]? = d[i]?) := by
  unfold sumOfErrors
  exact ⟨loop_snd_length errf step d 0 _, loop_snd_getElem? errf step hs d 0 _ i⟩

/-- "got wrong" in exact arithmetic: the counter of an example moves iff the program has no value
    there or its error is at least 2·DBL_EPSILON (for `count`: iff the example is a mismatch). -/
theorem wrong_iff (k : ErrKind) (o : Option Rat) (t : Rat) :
    issmall (errF k o t) = false ↔ (o = none ∨ 1 / 2 ^ 51 ≤ errF k o t) := by
  have hn := err_nonneg k o t
  have hp := penalty_pos
  have heps := eps2_pos
  unfold issmall
  simp only [rat_abs, rat_lt, rat_eps2, decide_eq_false_iff_not, Rat.not_lt, Rat.abs_of_nonneg hn]
  constructor
  · intro h; exact Or.inr h
  · intro h
    rcases h with h | h
    · subst h
      have h1 := penalty_ge_one
      cases k <;> simp [errF, maeErr, mseErr, rmaeErr, countErr] <;> grind
    · exact h

theorem count_wrong_iff (o : Option Rat) (t : Rat) :
    issmall (errF .count o t) = false ↔ ¬ Matches .count o t := by
  rw [← err_zero_iff]
  have heps := eps2_pos
  unfold issmall errF countErr
  cases o with
  | none => simp [Rat.abs]; grind
  | some a => simp only []; split <;> simp [Rat.abs] <;> grind

/-! ## 7. classification evaluators -/

/-- dyn_slot / binary evaluator: the fitness is minus the NUMBER of misclassified examples. -/
theorem count_is_minus_misclassified (d : List (CEx Rat)) :
    (countEval d).1 = [ - ((nWrong d : Nat) : Rat) ] := by
  unfold countEval
  simp only [countLoop_fst, rat_zero, rat_neg]
  grind

/-- … hence it is never positive and it is zero exactly when every tag equals its label. -/
theorem count_eval_zero_iff (d : List (CEx Rat)) :
    (∀ f ∈ (countEval d).1, f ≤ 0) ∧
    ((countEval d).1 = [0] ↔ ∀ e ∈ d, e.tagLabel = e.label) := by
  rw [count_is_minus_misclassified]
  have h0 : (0:Rat) ≤ ((nWrong d : Nat) : Rat) := Rat.natCast_nonneg
  refine ⟨by intro f hf; simp at hf; grind, ?_⟩
  simp only [List.cons.injEq, and_true]
  have : (-((nWrong d : Nat) : Rat) = 0) ↔ nWrong d = 0 := by
    constructor
    · intro h; have : ((nWrong d : Nat) : Rat) = 0 := by grind
      exact Rat.natCast_eq_zero_iff.mp this
    · intro h; rw [h]; simp
  rw [this]
  unfold nWrong
  simp [CEx.wrong]

/-- All three classification evaluators (any number type): `difficulty` + 1 for exactly the
    examples with `tag ≠ label`, nothing else touched. -/
theorem class_difficulty_exact {F} [Num F] (scale : F) (d : List (CEx F)) :
    (countEval d).2 = d.map CEx.bump ∧ (gaussEval scale d).2 = d.map CEx.bump ∧
    ∀ e : CEx F, (CEx.bump e).tagLabel = e.tagLabel ∧ (CEx.bump e).label = e.label ∧
      (CEx.bump e).sureness = e.sureness ∧
      (CEx.bump e).difficulty = e.difficulty + (if e.tagLabel ≠ e.label then 1 else 0) := by
  refine ⟨countLoop_snd d _, gaussLoop_snd scale d _, fun e => ?_⟩
  unfold CEx.bump CEx.wrong
  by_cases h : e.tagLabel = e.label <;> simp [h]

/-- gaussian evaluator: the documented score `Σ (match ? (sureness−1)/(classes−1) : −1)` -/
theorem gaussian_score (scale : Rat) (d : List (CEx Rat)) :
    (gaussEval scale d).1 = [ (d.map (gaussTerm scale)).sum ] := by
  unfold gaussEval
  simp only [gaussLoop_fst, rat_zero]
  grind

/-- … which is never positive when `classes ≥ 2` and every confidence is ≤ 1 (C08). -/
theorem gaussian_nonpos (scale : Rat) (hs : 0 < scale) (d : List (CEx Rat))
    (hc : ∀ e ∈ d, e.sureness ≤ 1) : ∀ f ∈ (gaussEval scale d).1, f ≤ 0 := by
  intro f hf
  rw [gaussian_score] at hf
  simp only [List.mem_singleton] at hf
  subst hf
  have : 0 ≤ (d.map (fun e => - gaussTerm scale e)).sum := by
    apply sum_nonneg
    intro x hx
    simp only [List.mem_map] at hx
    obtain ⟨e, he, rfl⟩ := hx
    unfold gaussTerm
    split
    · grind
    · have h1 := hc e he
      have h2 : 0 ≤ (1 - e.sureness) / scale := div_nonneg' _ _ (by grind) (Rat.le_of_lt hs)
      have h3 : -((e.sureness - 1) / scale) = (1 - e.sureness) / scale := by grind
      rw [h3]; exact h2
  have hneg : (d.map (fun e => - gaussTerm scale e)).sum = - (d.map (gaussTerm scale)).sum := by
    clear this hc
    induction d with
    | nil => simp
    | cons e rest ih => simp only [List.map_cons, List.sum_cons, ih]; grind
  grind

/-! ## 8. GA and constrained evaluators -/

/-- `ga_evaluator`: a non-finite objective value becomes the EMPTY fitness, a finite one the
    one-component fitness – so no component is ever non-finite. -/
theorem ga_nonfinite_empty {F} [Num F] (fv : F) :
    (isFinite fv = false → gaEval fv = []) ∧ (isFinite fv = true → gaEval fv = [fv]) ∧
    ∀ f ∈ gaEval fv, isFinite f = true := by
  unfold gaEval
  by_cases h : isFinite fv = true <;> simp [h]

/-- `constrained_evaluator`: the base fitness with `-penalty` prepended. -/
theorem constrained_prepends {F} [Num F] (pen : F) (base : List F) :
    constrainedEval pen base = neg pen :: base ∧
    (constrainedEval pen base).length = base.length + 1 ∧
    (constrainedEval pen base).tail = base := by
  simp [constrainedEval]

/-! ## 9. never NaN, never positive – any number type obeying the IEEE laws -/

/-- The recurrence itself: if every error is finite and ≥ 0 then the fitness `-mean` is not NaN
    and is ≤ 0. -/
theorem no_nan {F} [Num F] (L : IEEELaws F) (errs : List F)
    (h : ∀ e ∈ errs, L.fin e ∧ nn e) :
    ¬ L.nan (neg (runMean (zero, zero) errs).1) ∧
    le (neg (runMean (zero, zero) errs).1) (zero : F) = true := by
  have := runMean_fin_nn L errs h
  exact L.neg_nonpos _ this.1 this.2

/-- the premise holds for each shipped functor, for ALL outputs and targets -/
theorem err_fin_nonneg {F} [Num F] (L : IEEELaws F) (k : ErrKind) (o : Option F) (t : F) :
    L.fin (errF k o t) ∧ nn (errF k o t) := by
  cases k
  · exact maeErr_fin_nn L o t
  · exact rmaeErr_fin_nn L o t
  · exact mseErr_fin_nn L o t
  · exact countErr_fin_nn L o t

/-- Hence: each shipped error-based evaluator, any stride, any dataset, any program outputs
    (undefined, astronomically large, …): no fitness component is NaN, none is positive. -/
theorem no_nan_shipped {F} [Num F] (L : IEEELaws F) (k : ErrKind) (step : Nat) (d : List (Ex F)) :
    ∀ f ∈ (sumOfErrors (errF k) step d).1, ¬ L.nan f ∧ le f (zero : F) = true := by
  intro f hf
  unfold sumOfErrors at hf
  simp only [loop_fst, List.mem_singleton] at hf
  subst hf
  apply no_nan L
  intro e he
  simp only [List.mem_map] at he
  obtain ⟨x, _, rfl⟩ := he
  exact err_fin_nonneg L k _ _

/-! ## non-vacuity -/

/-- the law structure is inhabited (exact arithmetic) -/
example : IEEELaws Rat := ratLaws

/-- a concrete dataset: program `X1`-style outputs 1, 2, undefined against targets 1, 4, 0 -/
def sample : List (Ex Rat) := [⟨some 1, 1, 0⟩, ⟨some 2, 4, 7⟩, ⟨none, 0, 0⟩]

example : (evalFull (errF .count) sample).1 = [-(2/3 : Rat)] := by
  rw [fitness_full _ _ (by simp [sample])]
  simp [sample, errOf, errF, countErr, issmall, Rat.abs]
  grind
example : ((evalFull (errF .count) sample).2.map (·.difficulty)) = [0, 8, 1] := by
  rw [difficulty_exact]
  simp [sample, bump, errF, countErr, issmall, Rat.abs]
  grind
example : Matches .mae (some 3) 3 := rfl
example : ¬ Matches .mae none 3 := by simp [Matches]
example : visited 5 [0,1,2,3,4,5,6,7,8,9,10,11] 0 = [0, 5] := by decide

end Vita.C05
