/-
  C06 — executable deciders for the step relations (used by the compiled driver on the
  observations of real executions) and their soundness: whenever a decider answers `true`
  the corresponding relation of Select/Replace/Run holds, so the theorems of Props.lean
  apply to every real execution the driver accepted.
-/
import Vita.C06.Evo
namespace Vita.C06
open FitOrd

section
variable {α F : Type} [FitOrd F]

/-! ### LayerInv -/

def layerInvB (p : Pop α) : Bool :=
  p.layers.length == p.allowed.length &&
  (List.range p.layers.length).all fun l => decide (p.layerSize l ≤ p.allowedAt l)

theorem layerInvB_iff (p : Pop α) : layerInvB p = true ↔ LayerInv p := by
  unfold layerInvB LayerInv
  simp only [Bool.and_eq_true, beq_iff_eq, List.all_eq_true, List.mem_range, decide_eq_true_eq]
  constructor
  · rintro ⟨h1, h2⟩
    refine ⟨h1, fun l => ?_⟩
    by_cases hl : l < p.layers.length
    · exact h2 l hl
    · simp [Pop.layerSize, Pop.layer, List.getElem?_eq_none (Nat.le_of_not_lt hl)]
  · rintro ⟨h1, h2⟩
    exact ⟨h1, fun l _ => h2 l⟩

/-! ### selection -/

/-- what `selection::tournament<T>::run` promises: `rounds` coordinates of one layer, all
    existing members, all inside the mating zone of one target, in non-increasing fitness order -/
def TournamentOK (fit : Coord → F) (p : Pop α) (mz rounds : Nat) (ret : List Coord) : Prop :=
  ret.length = rounds ∧
  (∃ layer target, target < p.layerSize layer ∧
     ∀ r ∈ ret, r.1 = layer ∧ r.2 < p.layerSize layer ∧ InZone target mz (p.layerSize layer) r.2) ∧
  ret.Pairwise fun a b => le (fit b) (fit a) = true

def descB (fit : Coord → F) : List Coord → Bool
  | [] => true
  | a :: rest => rest.all (fun b => le (fit b) (fit a)) && descB fit rest

theorem descB_iff (fit : Coord → F) (l : List Coord) :
    descB fit l = true ↔ l.Pairwise fun a b => le (fit b) (fit a) = true := by
  induction l with
  | nil => simp [descB]
  | cons a rest ih => simp [descB, List.pairwise_cons, ih, List.all_eq_true]

def tournamentOKB (fit : Coord → F) (p : Pop α) (mz rounds : Nat) (ret : List Coord) : Bool :=
  ret.length == rounds &&
  (match ret with
   | [] => decide (0 < p.layerSize 0)
   | c :: _ =>
     let n := p.layerSize c.1
     (List.range n).any fun t => ret.all fun r => r.1 == c.1 && decide (r.2 < n) && inZoneB t mz n r.2) &&
  descB fit ret

theorem tournamentOKB_sound (fit : Coord → F) (p : Pop α) (mz rounds : Nat) (ret : List Coord)
    (h : tournamentOKB fit p mz rounds ret = true) : TournamentOK fit p mz rounds ret := by
  unfold tournamentOKB at h
  simp only [Bool.and_eq_true, beq_iff_eq] at h
  obtain ⟨⟨h1, h2⟩, h3⟩ := h
  refine ⟨h1, ?_, (descB_iff fit ret).mp h3⟩
  cases ret with
  | nil =>
    simp only [decide_eq_true_eq] at h2
    exact ⟨0, 0, h2, fun r hr => by simp at hr⟩
  | cons c rest =>
    simp only [List.any_eq_true, List.mem_range, List.all_eq_true, Bool.and_eq_true, beq_iff_eq,
      decide_eq_true_eq] at h2
    obtain ⟨t, ht, hall⟩ := h2
    exact ⟨c.1, t, ht, fun r hr => ⟨(hall r hr).1.1, (hall r hr).1.2, (inZoneB_iff _ _ _ _).mp (hall r hr).2⟩⟩

/-- `alps::parameters::max_age` / `allowed_age` (alps.cc) -/
def alpsMaxAge (ageGap l : Nat) : Nat :=
  match l with
  | 0 => ageGap
  | 1 => ageGap + ageGap
  | l => l * l * ageGap

def alpsAllowedAge (ageGap layers l : Nat) : Nat :=
  if l + 1 = layers then 4294967295 else alpsMaxAge ageGap l

/-- what `selection::alps<T>::run` promises: two existing members, each in the chosen layer or
    the one below, the first not worse than the second in (not aged, fitness) order -/
def AlpsSelOK (key : Coord → Bool × F) (p : Pop α) (ret : List Coord) : Prop :=
  ∃ c0 c1, ret = [c0, c1] ∧
  (∃ layer, layer < p.nLayers ∧
     ∀ r ∈ ret, (r.1 = layer ∨ r.1 + 1 = layer) ∧ r.2 < p.layerSize r.1) ∧
  afLt (key c0) (key c1) = false

def alpsSelOKB (key : Coord → Bool × F) (p : Pop α) (ret : List Coord) : Bool :=
  match ret with
  | [c0, c1] =>
    ((List.range p.nLayers).any fun layer =>
      [c0, c1].all fun r => (r.1 == layer || r.1 + 1 == layer) && decide (r.2 < p.layerSize r.1)) &&
    !afLt (key c0) (key c1)
  | _ => false

theorem alpsSelOKB_sound (key : Coord → Bool × F) (p : Pop α) (ret : List Coord)
    (h : alpsSelOKB key p ret = true) : AlpsSelOK key p ret := by
  unfold alpsSelOKB at h
  split at h
  · rename_i c0 c1
    simp only [Bool.and_eq_true, List.any_eq_true, List.mem_range, List.all_eq_true, Bool.or_eq_true,
      beq_iff_eq, decide_eq_true_eq, Bool.not_eq_true'] at h
    obtain ⟨⟨layer, hl, hall⟩, hk⟩ := h
    exact ⟨c0, c1, rfl, ⟨layer, hl, fun r hr => hall r hr⟩, hk⟩
  · exact absurd h (by simp)

/-- `selection::random<T>::run` (DE): `rounds` existing members -/
def MembersOK (p : Pop α) (ret : List Coord) : Prop := ∀ r ∈ ret, ∃ x, p.get? r = some x

def membersOKB (p : Pop α) (ret : List Coord) : Bool := ret.all fun r => (p.get? r).isSome

theorem membersOKB_sound (p : Pop α) (ret : List Coord) (h : membersOKB p ret = true) : MembersOK p ret := by
  intro r hr
  have := List.all_eq_true.mp h r hr
  exact Option.isSome_iff_exists.mp this

/-! ### transitions -/

variable [DecidableEq α] [DecidableEq F]

def replStdB (eval : α → F) (elitism : Bool) (cands : List Coord) (off : α) (st st' : St α F) : Bool :=
  replPopB eval elitism cands off st.pop st'.pop && decide (st'.sum = updBest eval st.sum off)

theorem replStdB_sound (eval : α → F) (elitism : Bool) (cands : List Coord) (off : α) (st st' : St α F)
    (h : replStdB eval elitism cands off st st' = true) : ReplStd eval elitism cands off st st' := by
  unfold replStdB at h
  simp only [Bool.and_eq_true, decide_eq_true_eq] at h
  exact ⟨replPopB_sound _ _ _ _ _ _ h.1, h.2⟩

def alpsPopB (news : List α) (p p' : Pop α) : Bool :=
  decide (p'.allowed = p.allowed) && p'.layers.length == p.layers.length &&
  ((List.range p.layers.length).all fun l => decide (p.layerSize l ≤ p'.layerSize l)) &&
  p'.members.all fun y => news.contains y || p.members.contains y

theorem alpsPopB_sound (news : List α) (p p' : Pop α) (h : alpsPopB news p p' = true) :
    AlpsPop news p p' := by
  unfold alpsPopB at h
  simp only [Bool.and_eq_true, decide_eq_true_eq, beq_iff_eq, List.all_eq_true, List.mem_range,
    Bool.or_eq_true, List.contains_iff_mem] at h
  obtain ⟨⟨⟨h1, h2⟩, h3⟩, h4⟩ := h
  refine ⟨h1, h2, fun l => ?_, h4⟩
  by_cases hl : l < p.layers.length
  · exact h3 l hl
  · simp [Pop.layerSize, Pop.layer, List.getElem?_eq_none (Nat.le_of_not_lt hl)]

def replAlpsB (eval : α → F) (off : α) (st st' : St α F) : Bool :=
  alpsPopB [off] st.pop st'.pop && (!layerInvB st.pop || layerInvB st'.pop) &&
  decide (st'.sum = updBest eval st.sum off)

theorem replAlpsB_sound (eval : α → F) (off : α) (st st' : St α F)
    (h : replAlpsB eval off st st' = true) : ReplAlps eval off st st' := by
  unfold replAlpsB at h
  simp only [Bool.and_eq_true, Bool.or_eq_true, Bool.not_eq_true', decide_eq_true_eq] at h
  obtain ⟨⟨h1, h2⟩, h3⟩ := h
  refine ⟨alpsPopB_sound _ _ _ h1, fun hl => ?_, h3⟩
  rcases h2 with h2 | h2
  · have := (layerInvB_iff st.pop).mpr hl
    simp [this] at h2
  · exact (layerInvB_iff _).mp h2

/-- an observed event of the real loop -/
inductive Event (α : Type)
  | repl (cands : List Coord) (off : α)      -- one select/recombine/replace iteration
  | afterGen                                  -- es_.after_generation(); ++gen

def transB (cfg : Cfg α F) (ev : Event α) (st st' : St α F) : Bool :=
  match ev with
  | .repl cands off =>
    cfg.wf off &&
    (if cfg.strat = .alps then replAlpsB cfg.eval off st st'
     else replStdB cfg.eval cfg.elitism cands off st st')
  | .afterGen =>
    decide (st'.sum = nextGen st.sum) &&
    (if cfg.strat = .alps then layerInvB st'.pop && st'.pop.members.all cfg.wf
     else decide (st'.pop = st.pop))

theorem transB_sound (cfg : Cfg α F) (ev : Event α) (st st' : St α F)
    (h : transB cfg ev st st' = true) : Trans cfg st st' := by
  unfold transB at h
  cases ev with
  | repl cands off =>
    simp only [Bool.and_eq_true] at h
    by_cases hs : cfg.strat = .alps
    · simp only [hs, if_true] at h
      exact Trans.replAlps _ _ off hs h.1 (replAlpsB_sound _ _ _ _ h.2)
    · simp only [hs, if_false] at h
      exact Trans.replStd _ _ cands off hs h.1 (replStdB_sound _ _ _ _ _ _ h.2)
  | afterGen =>
    simp only [Bool.and_eq_true, decide_eq_true_eq] at h
    by_cases hs : cfg.strat = .alps
    · simp only [hs, if_true, Bool.and_eq_true, List.all_eq_true] at h
      exact Trans.afterGenAlps _ _ hs ((layerInvB_iff _).mp h.2.1) h.2.2 h.1
    · simp only [hs, if_false, decide_eq_true_eq] at h
      exact Trans.afterGenStd _ _ hs h.2 h.1

def runInvB (cfg : Cfg α F) (shape0 : List Nat) (st : St α F) : Bool :=
  st.pop.members.all cfg.wf && layerInvB st.pop &&
  (decide (cfg.strat = .alps) || decide (st.pop.shape = shape0)) &&
  decide (st.sum.bestFit = cfg.eval st.sum.best) && cfg.wf st.sum.best &&
  decide (st.sum.lastImp ≤ st.sum.gen)

omit [FitOrd F] [DecidableEq α] in
theorem runInvB_sound (cfg : Cfg α F) (shape0 : List Nat) (st : St α F)
    (h : runInvB cfg shape0 st = true) : RunInv cfg shape0 st := by
  unfold runInvB at h
  simp only [Bool.and_eq_true, List.all_eq_true, Bool.or_eq_true, decide_eq_true_eq] at h
  obtain ⟨⟨⟨⟨⟨h1, h2⟩, h3⟩, h4⟩, h5⟩, h6⟩ := h
  refine ⟨h1, (layerInvB_iff _).mp h2, fun hs => ?_, h4, h5, h6⟩
  rcases h3 with h3 | h3
  · exact absurd h3 hs
  · exact h3

/-- a monitored run: the observed states with the event leading to each of them -/
def traceOKB (cfg : Cfg α F) : St α F → List (Event α × St α F) → Bool
  | _, [] => true
  | st, (ev, st') :: rest => transB cfg ev st st' && traceOKB cfg st' rest

theorem traceOKB_sound (cfg : Cfg α F) (st : St α F) (tr : List (Event α × St α F))
    (h : traceOKB cfg st tr = true) :
    ∀ s ∈ tr.map (·.2), Reach cfg st s := by
  induction tr generalizing st with
  | nil => intro s hs; simp at hs
  | cons e rest ih =>
    obtain ⟨ev, st'⟩ := e
    simp only [traceOKB, Bool.and_eq_true] at h
    have h1 : Reach cfg st st' := Reach.step _ _ _ (Reach.refl _) (transB_sound _ _ _ _ h.1)
    intro s hs
    simp only [List.map_cons, List.mem_cons] at hs
    rcases hs with rfl | hs
    · exact h1
    · exact h1.trans (ih st' h.2 s hs)

/-! ### sessions: several runs on one evolution object -/

/-- the start of the next run as the model predicts it from the state the previous run ended in -/
def restartB (cfg : Cfg α F) (t : ClearTbl) (d : α) (df : F) (st st' : St α F) : Bool :=
  decide (st'.pop = st.pop) && decide (st'.sum = startSumm cfg.eval t d df (st.pop.get? (0, 0)) st.sum)

/-- a data shake between two observed states (the members re-observed under the new data): nothing
    moves, `last_imp` / `gen` stay, the best-so-far fitness is the score of the best-so-far individual
    under the new data -/
def shakeB (cfg : Cfg α F) (st st' : St α F) : Bool :=
  layerInvB st'.pop && decide (st'.pop.shape = st.pop.shape) && st'.pop.members.all cfg.wf &&
  cfg.wf st'.sum.best && decide (st'.sum.bestFit = cfg.eval st'.sum.best) &&
  decide (st'.sum.lastImp = st.sum.lastImp) && decide (st'.sum.gen = st.sum.gen)

omit [FitOrd F] [DecidableEq α] in
theorem shakeB_sound (cfg : Cfg α F) (st st' : St α F) (h : shakeB cfg st st' = true) : ShakeRel cfg st st' := by
  unfold shakeB at h
  simp only [Bool.and_eq_true, List.all_eq_true, decide_eq_true_eq] at h
  obtain ⟨⟨⟨⟨⟨⟨h1, h2⟩, h3⟩, h4⟩, h5⟩, h6⟩, h7⟩ := h
  exact ⟨(layerInvB_iff _).mp h1, h2, h3, h4, h5, h6, h7⟩

/-- an observed event of a session -/
inductive MEvent (α : Type)
  | ev (e : Event α)       -- inside a run
  | restart                -- `evolution::run` called again: stats_.clear(); best = pop[{0,0}]; …
  | shake                  -- `shake(gen)` returned true at the head of a generation

def mtransB (cfg : Cfg α F) (t : ClearTbl) (d : α) (df : F) (ev : MEvent α) (st st' : St α F) : Bool :=
  match ev with
  | .ev e => transB cfg e st st'
  | .restart => restartB cfg t d df st st'
  | .shake => shakeB cfg st st'

theorem mtransB_sound (cfg : Cfg α F) (t : ClearTbl) (d : α) (df : F) (ev : MEvent α) (st st' : St α F)
    (h : mtransB cfg t d df ev st st' = true) : MTrans cfg t d df st st' := by
  cases ev with
  | ev e => exact MTrans.run _ _ (transB_sound cfg e st st' h)
  | restart =>
    simp only [mtransB, restartB, Bool.and_eq_true, decide_eq_true_eq] at h
    exact MTrans.restart _ _ h.1 h.2
  | shake => exact MTrans.shake _ _ (shakeB_sound cfg st st' h)

def mtraceOKB (cfg : Cfg α F) (t : ClearTbl) (d : α) (df : F) : St α F → List (MEvent α × St α F) → Bool
  | _, [] => true
  | st, (ev, st') :: rest => mtransB cfg t d df ev st st' && mtraceOKB cfg t d df st' rest

theorem mtraceOKB_sound (cfg : Cfg α F) (t : ClearTbl) (d : α) (df : F) (st : St α F)
    (tr : List (MEvent α × St α F)) (h : mtraceOKB cfg t d df st tr = true) :
    ∀ s ∈ tr.map (·.2), MReach cfg t d df st s := by
  induction tr generalizing st with
  | nil => intro s hs; simp at hs
  | cons e rest ih =>
    obtain ⟨ev, st'⟩ := e
    simp only [mtraceOKB, Bool.and_eq_true] at h
    have h1 : MReach cfg t d df st st' :=
      MReach.step _ _ _ (MReach.refl _) (mtransB_sound _ _ _ _ _ _ _ h.1)
    intro s hs
    simp only [List.map_cons, List.mem_cons] at hs
    rcases hs with rfl | hs
    · exact h1
    · exact h1.trans (ih st' h.2 s hs)

end

/-! ### the individuals the driver sees -/

/-- an observed individual: its fitness under the run's evaluator (integer valued in the
    harness), its age, the 128-bit signature (as a number) and `is_valid()` -/
structure Ind where
  fit   : Int
  age   : Nat
  sig   : Nat
  valid : Bool
deriving Repr, DecidableEq

end Vita.C06
