/-
  C06 line-protocol driver.  One request per line, one answer per line.

  book-keeping differential (the driver keeps a `Pop Nat`: individuals are their ages)
    pb-new I M | pb-init l | pb-addlayer | pb-remove l | pb-add l age | pb-pop l
    pb-allow l n | pb-assign l i age | pb-incage          -> "<dump> inv=<0|1>"
  ring
    ring base width n result                              -> ok | bad
  run monitor / component ties (the driver keeps the observed state `St Ind Int`)
    cfg <std|de|alps> <elitism> <rounds> <mate_zone> <age_gap>       -> ok
    state <init|restart|shake|check|aftergen> gen lastImp bestFit <ind> nLayers (allowed size <ind>*)*
    sel <tour|alps|rand> n (l i)*                         -> ok | bad:<clause>
    step <family> n (l i)* <ind off> k (l i <ind>)* gen lastImp bestFit <ind best>
  tune
    tune <base|src|src-holdout|src-dss|src-other|ga> esLayers term0 dsize <18 fields>   (src-X: strategy X installed)
      -> "<18 fields> <valid(false) before> <valid(true) after>"
  <ind> = fit age sig valid
-/
import Vita.C06.Decide
import Vita.C06.Tune
import Vita.C06.GenEvo
open Vita.C06

/-! ### probabilities as bit patterns of doubles -/

structure PBits where
  bits : UInt64
deriving DecidableEq, Repr

instance : ProbOps PBits where
  neg p := Float.ofBits p.bits < 0.0
  gt1 p := Float.ofBits p.bits > 1.0
  pMutDflt := ⟨(0.04 : Float).toBits⟩
  pCrossDflt := ⟨(0.9 : Float).toBits⟩
  pSameDflt := ⟨(0.75 : Float).toBits⟩
  undef := ⟨(-1.0 : Float).toBits⟩

/-! ### token reader -/

abbrev Rd := StateT (List String) Option

def tok : Rd String := do
  match (← get) with
  | [] => failure
  | t :: ts => set ts; pure t

def rdNat : Rd Nat := do
  match (← tok).toNat? with
  | some n => pure n
  | none => failure

def rdInt : Rd Int := do
  match (← tok).toInt? with
  | some n => pure n
  | none => failure

def rdBool : Rd Bool := do pure ((← rdNat) != 0)

def rdOpt : Rd (Option Nat) := do
  let t ← tok
  if t == "-" then pure none else
    match t.toNat? with
    | some n => pure (some n)
    | none => failure

def rdList {β : Type} (n : Nat) (r : Rd β) : Rd (List β) := do
  let mut acc : List β := []
  for _ in [0:n] do
    acc := (← r) :: acc
  pure acc.reverse

def rdInd : Rd Ind := do
  let f ← rdInt; let a ← rdNat; let s ← rdNat; let v ← rdBool
  pure ⟨f, a, s, v⟩

def rdCoord : Rd Coord := do
  let l ← rdNat; let i ← rdNat
  pure (l, i)

def rdEnd : Rd Unit := do
  match (← get) with
  | [] => pure ()
  | _ => failure

/-! ### driver state -/

structure DState where
  pb      : Pop Nat := ⟨[], []⟩
  pbEnv   : PEnv := ⟨0, 0⟩
  strat   : Strat := .std
  elitism : Bool := true
  rounds  : Nat := 0
  mz      : Nat := 0
  ageGap  : Nat := 20
  st      : St Ind Int := ⟨⟨[], []⟩, ⟨⟨0, 0, 0, false⟩, 0, 0, 0⟩⟩
  shape0  : List Nat := []

def DState.cfg (d : DState) : Cfg Ind Int := ⟨d.strat, d.elitism, Ind.fit, Ind.valid⟩

def dumpPb (p : Pop Nat) : String :=
  let body := (List.range p.layers.length).map fun l =>
    s!"{p.allowedAt l} {p.layerSize l}" ++ String.join ((p.layer l).map fun a => s!" {a}")
  s!"{p.layers.length} " ++ " ".intercalate body ++ s!" inv={if layerInvB p then 1 else 0}"

def pbCtx (d : DState) : Ctx Nat := ⟨d.pbEnv, fun _ => 0, (· + 1)⟩

def pbOp (d : DState) (op : Op Nat) : DState × String :=
  let p := op.apply (pbCtx d) d.pb
  ({ d with pb := p }, dumpPb p)

/-- raw write of an observed change: overwrite, or append when `i` = current size -/
def applyChange (p : Pop Ind) (c : Coord) (x : Ind) : Pop Ind :=
  if c.2 < p.layerSize c.1 then p.assign c x
  else if c.2 = p.layerSize c.1 then { p with layers := p.layers.set c.1 (p.layer c.1 ++ [x]) }
  else p

def rdState : Rd (St Ind Int) := do
  let gen ← rdNat; let lastImp ← rdNat; let bestFit ← rdInt; let best ← rdInd
  let n ← rdNat
  let mut layers : List (List Ind) := []
  let mut allowed : List Nat := []
  for _ in [0:n] do
    let a ← rdNat; let s ← rdNat
    let ly ← rdList s rdInd
    layers := ly :: layers
    allowed := a :: allowed
  rdEnd
  pure ⟨⟨layers.reverse, allowed.reverse⟩, ⟨best, bestFit, lastImp, gen⟩⟩

/-- what identifies an observed individual independently of the data its score was computed on -/
def indKey (x : Ind) : Nat × Nat × Bool := (x.age, x.sig, x.valid)

def fitAt (p : Pop Ind) (c : Coord) : Int := ((p.get? c).map Ind.fit).getD 0

def alpsKey (d : DState) (p : Pop Ind) (c : Coord) : Bool × Int :=
  match p.get? c with
  | none => (false, 0)
  | some x => (!(decide (x.age > alpsAllowedAge d.ageGap p.nLayers c.1)), x.fit)

def rdTri : Rd Tri := do
  match (← tok) with
  | "0" => pure .no
  | "1" => pure .yes
  | "2" => pure .unknown
  | _ => failure

def rdP : Rd PBits := do pure ⟨(← rdNat).toUInt64⟩

def rdEnv : Rd (Env PBits) := do
  let codeLength ← rdNat; let patchLength ← rdNat; let elitism ← rdTri
  let pMutation ← rdP; let pCross ← rdP
  let brood ← rdNat; let layers ← rdNat; let individuals ← rdNat; let minIndividuals ← rdNat
  let tournament ← rdNat; let mateZone ← rdNat; let generations ← rdNat
  let maxStuck ← rdOpt; let dss ← rdOpt; let validation ← rdOpt
  let ageGap ← rdNat; let pSameLayer ← rdP; let teamInd ← rdNat
  pure { codeLength, patchLength, elitism, pMutation, pCross, brood, layers, individuals,
         minIndividuals, tournament, mateZone, generations, maxStuck, dss, validation, ageGap,
         pSameLayer, teamInd }

def showOpt : Option Nat → String
  | none => "-"
  | some n => toString n

def showTri : Tri → String
  | .no => "0" | .yes => "1" | .unknown => "2"

def showEnv (e : Env PBits) : String :=
  s!"{e.codeLength} {e.patchLength} {showTri e.elitism} {e.pMutation.bits} {e.pCross.bits} {e.brood} " ++
  s!"{e.layers} {e.individuals} {e.minIndividuals} {e.tournament} {e.mateZone} {e.generations} " ++
  s!"{showOpt e.maxStuck} {showOpt e.dss} {showOpt e.validation} {e.ageGap} {e.pSameLayer.bits} {e.teamInd}"

/-- `static_cast<unsigned>(std::log(d))` and `static_cast<unsigned>(std::pow(std::log2(d), 3))` -/
def lnF (d : Nat) : Nat := (Float.log d.toFloat).toUInt64.toNat
def cubeF (d : Nat) : Nat := (Float.pow (Float.log2 d.toFloat) 3.0).toUInt64.toNat

def b01 (b : Bool) : String := if b then "1" else "0"

def handle (d : DState) (ts : List String) : DState × String :=
  let fail := (d, "bad-op")
  match ts with
  | "pb-new" :: rest =>
    match (do let i ← rdNat; let m ← rdNat; rdEnd; pure (i, m) : Rd _).run' rest with
    | some (i, m) =>
      let e : PEnv := ⟨i, m⟩
      let p := Pop.create e (fun _ => (0 : Nat))
      ({ d with pb := p, pbEnv := e }, dumpPb p)
    | none => fail
  | "pb-init" :: rest =>
    match (do let l ← rdNat; rdEnd; pure l : Rd _).run' rest with
    | some l => pbOp d (.initLayer l) | none => fail
  | ["pb-addlayer"] => pbOp d .addLayer
  | "pb-remove" :: rest =>
    match (do let l ← rdNat; rdEnd; pure l : Rd _).run' rest with
    | some l => pbOp d (.removeLayer l) | none => fail
  | "pb-add" :: rest =>
    match (do let l ← rdNat; let a ← rdNat; rdEnd; pure (l, a) : Rd _).run' rest with
    | some (l, a) => pbOp d (.addToLayer l a) | none => fail
  | "pb-pop" :: rest =>
    match (do let l ← rdNat; rdEnd; pure l : Rd _).run' rest with
    | some l => pbOp d (.popFromLayer l) | none => fail
  | "pb-allow" :: rest =>
    match (do let l ← rdNat; let n ← rdNat; rdEnd; pure (l, n) : Rd _).run' rest with
    | some (l, n) => pbOp d (.setAllowed l n) | none => fail
  | "pb-assign" :: rest =>
    match (do let l ← rdNat; let i ← rdNat; let a ← rdNat; rdEnd; pure (l, i, a) : Rd _).run' rest with
    | some (l, i, a) => pbOp d (.assign (l, i) a) | none => fail
  | ["pb-incage"] => pbOp d .incAge
  | "ring" :: rest =>
    match (do let b ← rdNat; let w ← rdNat; let n ← rdNat; let r ← rdNat; rdEnd; pure (b, w, n, r) : Rd _).run' rest with
    | some (b, w, n, r) => (d, if inZoneB b w n r && decide (r < n) then "ok" else "bad")
    | none => fail
  | "cfg" :: rest =>
    match (do
        let s ← tok
        let strat ← (match s with
          | "std" => pure Strat.std | "de" => pure Strat.de | "alps" => pure Strat.alps
          | _ => failure : Rd Strat)
        let e ← rdBool; let r ← rdNat; let mz ← rdNat; let ag ← rdNat; rdEnd
        pure (strat, e, r, mz, ag) : Rd _).run' rest with
    | some (strat, e, r, mz, ag) =>
      ({ d with strat := strat, elitism := e, rounds := r, mz := mz, ageGap := ag }, "ok")
    | none => fail
  | "state" :: mode :: rest =>
    match rdState.run' rest with
    | none => fail
    | some st' =>
      match mode with
      | "init" =>
        let d' := { d with st := st', shape0 := st'.pop.shape }
        (d', if runInvB d'.cfg d'.shape0 st' then "ok" else "bad:inv")
      | "restart" =>
        -- the next run on the same evolution object: `summary::clear()` as GenEvo.clearSets (the
        -- current sources) describes it, best = pop[{0,0}], gen = 0, population carried over
        let t := restartB d.cfg (clearTblOf GenEvo.clearSets GenEvo.clearNats) ⟨0, 0, 0, false⟩ 0 d.st st'
        let i := runInvB d.cfg d.shape0 st'
        ({ d with st := st' }, if !t then "bad:restart" else if !i then "bad:inv" else "ok")
      | "shake" =>
        -- `shake(gen)` returned true: the same individuals at the same places, their scores observed
        -- again under the new data; last_imp / gen unchanged; best-so-far fitness = score of the
        -- best-so-far individual under the new data (the re-evaluation of the shake branch)
        let t := shakeB d.cfg d.st st'
        let same := decide (st'.pop.allowed = d.st.pop.allowed) &&
          decide (st'.pop.layers.map (·.map indKey) = d.st.pop.layers.map (·.map indKey)) &&
          decide (indKey st'.sum.best = indKey d.st.sum.best)
        let i := runInvB d.cfg d.shape0 st'
        ({ d with st := st' }, if !t then "bad:shake" else if !same then "bad:shake-moved" else if !i then "bad:inv" else "ok")
      | "check" =>
        (d, if decide (d.st = st') then (if runInvB d.cfg d.shape0 st' then "ok" else "bad:inv")
            else "bad:state-diverged")
      | "aftergen" =>
        let t := transB d.cfg .afterGen d.st st'
        let i := runInvB d.cfg d.shape0 st'
        ({ d with st := st' }, if !t then "bad:aftergen" else if !i then "bad:inv" else "ok")
      | _ => fail
  | "sel" :: kind :: rest =>
    match (do let n ← rdNat; let cs ← rdList n rdCoord; rdEnd; pure cs : Rd _).run' rest with
    | none => fail
    | some cs =>
      let p := d.st.pop
      match kind with
      | "tour" => (d, if tournamentOKB (fitAt p) p d.mz d.rounds cs then "ok" else
          (if !membersOKB p cs then "bad:members" else if !descB (fitAt p) cs then "bad:sorted" else "bad:zone"))
      | "alps" => (d, if alpsSelOKB (alpsKey d p) p cs then "ok" else
          (if !membersOKB p cs then "bad:members" else "bad:alps-layer-or-order"))
      | "rand" => (d, if membersOKB p cs && cs.length == d.rounds then "ok" else "bad:members")
      | _ => fail
  | "step" :: rest =>
    match (do
        let family ← rdBool
        let n ← rdNat; let parents ← rdList n rdCoord
        let off ← rdInd
        let k ← rdNat
        let changes ← rdList k (do let c ← rdCoord; let x ← rdInd; pure (c, x))
        let gen ← rdNat; let lastImp ← rdNat; let bestFit ← rdInt; let best ← rdInd
        rdEnd
        pure (family, parents, off, changes, gen, lastImp, bestFit, best) : Rd _).run' rest with
    | none => fail
    | some (family, parents, off, changes, gen, lastImp, bestFit, best) =>
      let pop' := changes.foldl (fun p cx => applyChange p cx.1 cx.2) d.st.pop
      let st' : St Ind Int := ⟨pop', ⟨best, bestFit, lastImp, gen⟩⟩
      let cands := if family then parents.take 2 else parents.getLast?.toList
      let rel := transB d.cfg (.repl cands off) d.st st'
      let exact := family || d.strat == .alps ||
        decide (st' = replTournament Ind.fit d.elitism d.st parents off)
      let inv := runInvB d.cfg d.shape0 st'
      ({ d with st := st' },
        if !rel then "bad:step-relation" else if !exact then "bad:step-model" else if !inv then "bad:inv" else "ok")
  | "tune" :: kind :: rest =>
    match (do
        let k ← (match kind with
          | "base" => pure SearchKind.base | "ga" => pure SearchKind.ga
          | "src" => pure (SearchKind.src .asIs) | "src-holdout" => pure (SearchKind.src .holdout)
          | "src-dss" => pure (SearchKind.src .dss) | "src-other" => pure (SearchKind.src .other)
          | _ => failure : Rd SearchKind)
        let esLayers ← rdNat; let term0 ← rdNat; let dsize ← rdNat
        let u ← rdEnv; rdEnd
        pure (k, esLayers, term0, dsize, u) : Rd _).run' rest with
    | none => fail
    | some (k, esLayers, term0, dsize, u) =>
      let e := tune k lnF cubeF esLayers term0 dsize u
      (d, showEnv e ++ s!" {b01 (isValid false u)} {b01 (isValid true e)}")
  | _ => fail

partial def loop (h : IO.FS.Stream) (out : IO.FS.Stream) (d : DState) : IO Unit := do
  let line ← h.getLine
  if line.isEmpty then return ()
  let ts := (line.trimAscii.toString.splitOn " ").filter (· ≠ "")
  let (d', ans) := handle d ts
  out.putStrLn ans
  loop h out d'

def main : IO Unit := do
  loop (← IO.getStdin) (← IO.getStdout) {}
