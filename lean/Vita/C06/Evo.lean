/-
  C06 (6) — `evolution<T,ES>::run` as the interpretation of its extracted skeleton, several
  consecutive runs on one evolution object, `summary<T>::clear()`.

  * `BX.eval`, `GE.guard`: meaning of the extracted conditions.
  * `ClearTbl` / `clearSumm`: `summary<T>::clear()` as the table `GenEvo.clearSets` describes it
    (which members are reset, to which value); `startRun` = the prologue of `evolution::run`.
  * `execToks` / `evoRunSk`: the interpreter of the statement skeleton (`Skel`); for the model's
    skeleton it IS `runModel` after `startRun` (`evoRunSk_model`).
  * `MTrans` / `MReach`: the transition system of a whole session = steps of a run (`Trans`) and
    restarts (`stats_.clear(); best = pop[{0,0}]; …; gen = 0` with the population carried over);
    `mreach_inv`: the run invariant survives any number of runs.
-/
import Vita.C06.Run
import Vita.C06.EvoSyntax
namespace Vita.C06
open FitOrd

/-! ### conditions -/

section bx
variable {F : Type} [FitOrd F]

/-- a relational operator on fitness values (`a > b` is `b < a`, `a >= b` is `b <= a`) -/
def fitCmp (op : Cmp) (x y : F) : Bool :=
  match op with
  | .lt => lt x y
  | .gt => lt y x
  | .le => le x y
  | .ge => le y x
  | .eq => le x y && le y x
  | .ne => !(le x y && le y x)

def natCmp (op : Cmp) (x y : Nat) : Bool :=
  match op with
  | .lt => decide (x < y)
  | .gt => decide (y < x)
  | .le => decide (x ≤ y)
  | .ge => decide (y ≤ x)
  | .eq => x == y
  | .ne => x != y

/-- `cv op a b` decides the comparison of the operands written `a`, `b`; `bv` the opaque atoms -/
def BX.eval (cv : Cmp → String → String → Bool) (bv : String → Bool) : BX → Bool
  | .cmp op a b => cv op a b
  | .atom t => bv t
  | .not x => !(x.eval cv bv)
  | .and x y => x.eval cv bv && y.eval cv bv
  | .or x y => x.eval cv bv || y.eval cv bv

/-- value of an operand / atom given by an association list -/
def assoc {β : Type} (l : List (String × β)) (d : β) (k : String) : β := (l.lookup k).getD d

/-- comparisons between fitness-valued operands `fs`, between natural-number operands `ns`
    (ages, sizes, layer numbers) and equality tests of enumerations `es` (`elitism == trilean::no`) -/
def mixCmp (fs : List (String × F)) (ns : List (String × Nat)) (es : List (String × Bool))
    (op : Cmp) (a b : String) : Bool :=
  match fs.lookup a, fs.lookup b with
  | some x, some y => fitCmp op x y
  | _, _ =>
    match ns.lookup a, ns.lookup b with
    | some x, some y => natCmp op x y
    | _, _ =>
      match op with
      | .eq => (es.lookup (a ++ "==" ++ b)).getD false
      | .ne => !((es.lookup (a ++ "==" ++ b)).getD false)
      | _ => false

/-- the condition under which an effect is executed: the conjunction of the enclosing
    conditions (`else` negated); `for-init` contributes nothing -/
def pathCond : List (String × BX) → BX
  | [] => .atom "true"
  | [(t, c)] => if t = "else" then .not c else if t = "for-init" then .atom "true" else c
  | (t, c) :: rest =>
    .and (if t = "else" then .not c else if t = "for-init" then .atom "true" else c) (pathCond rest)

def GE.guard (e : GE) : BX := pathCond e.path

/-- the effects of a function that assign `lhs` -/
def setsOf (fn : List GE) (lhs : String) : List GE := fn.filter fun e => e.kind == "set" && e.lhs == lhs

def callsOf (fn : List GE) (rhs : String) : List GE := fn.filter fun e => e.kind == "call" && e.rhs == rhs

end bx

/-! ### the tables the model interprets (Props.lean proves `GenEvo.* = Model.*` by `decide`) -/

namespace Model

def summaryFields : List String := ["az", "best", "crossovers", "elapsed", "gen", "last_imp", "mutations"]

/-- `summary<T>::summary()` -/
def ctorInits : List (String × String) :=
  [("az", ""), ("best", "{T(), model_measurements()}"), ("crossovers", "0"), ("elapsed", "0"), ("gen", "0"),
   ("last_imp", "0"), ("mutations", "0")]

/-- `summary<T>::clear()`: `*this = summary<T>()` -/
def clearSets : List (String × String) := ctorInits

def skel : Skel where
  prologue  := [.clear, .bestSol 0 0, .bestEval, .esInit]
  loopInit  := [.setGen 0]
  genHead   := [.ifShake (.atom "shake(stats_.gen)"), .azStats]
  step      := [.select, .recombine, .replace]
  genTail   := [.esAfterGen, .callback]
  loopIncr  := [.incGen]
  shakeBody := [.bestEval]
  epilogue  := [.ret]

def genLoopCond : BX := .and (.not (.atom "stop_condition(stats_)")) (.not (.atom "stop"))
def stepLoopCond : BX := .and (.cmp .lt "k" "pop_.individuals()") (.not (.atom "stop"))

/-- the "new best" block shared by every replacement strategy -/
def bestGuard : BX := .cmp .gt "eva_(offspring[0])" "s->best.score.fitness"
def bestBlock : List GE :=
  [⟨[("if", bestGuard)], "set", "s->last_imp", "s->gen"⟩,
   ⟨[("if", bestGuard)], "set", "s->best.solution", "offspring[0]"⟩,
   ⟨[("if", bestGuard)], "set", "s->best.score.fitness", "eva_(offspring[0])"⟩]

def elitismIs (v : String) : BX := .cmp .eq "pop_.get_problem().env.elitism" ("trilean::" ++ v)

def replTournamentSrc : List GE :=
  ⟨[("if", .or (elitismIs "no") (.cmp .lt "eva_(pop_[parent.back()])" "eva_(offspring[0])"))], "set",
    "pop_[parent.back()]", "offspring[0]"⟩ :: bestBlock

def worstIdx : String := "((fit_parent[0] < fit_parent[1]) ? 0 : 1)"
def fitWorst : String := "fit_parent[" ++ worstIdx ++ "]"
def replaceP (idx : String) : String :=
  "(1 - (eva_(offspring[0])[0] / (eva_(offspring[0])[0] + fit_parent[" ++ idx ++ "][0])))"

def replFamilySrc : List GE :=
  [⟨[], "decl", "fit_parent", "{eva_(pop_[parent[0]]), eva_(pop_[parent[1]])}"⟩,
   ⟨[("if", elitismIs "yes"), ("if", .cmp .gt "eva_(offspring[0])" fitWorst)], "set",
     "pop_[parent[" ++ worstIdx ++ "]]", "offspring[0]"⟩,
   ⟨[("else", elitismIs "yes")], "decl", "replace", replaceP worstIdx⟩,
   ⟨[("else", elitismIs "yes"), ("if", .atom "boolean(replace)")], "set",
     "pop_[parent[" ++ worstIdx ++ "]]", "offspring[0]"⟩,
   ⟨[("else", elitismIs "yes"), ("else", .atom "boolean(replace)")], "set", "replace", replaceP ("!" ++ worstIdx)⟩,
   ⟨[("else", elitismIs "yes"), ("else", .atom "boolean(replace)"), ("if", .atom "boolean(replace)")], "set",
     "pop_[parent[!" ++ worstIdx ++ "]]", "offspring[0]"⟩] ++ bestBlock

def replAlpsSrc : List GE :=
  [⟨[], "decl", "ins", ""⟩,
   ⟨[], "set", "ins", "try_add_to_layer(max(parent[0].layer, parent[1].layer), offspring[0])"⟩,
   ⟨[("if", bestGuard), ("if", .and (.not (.atom "ins")) (elitismIs "yes"))], "call", "",
     "try_add_to_layer((pop_.layers() - 1), offspring[0])"⟩] ++ bestBlock

def notFull : BX := .cmp .lt "pop_.individuals(layer)" "pop_.allowed(layer)"
def cx : String := "pop_[{layer, sup(pop_.individuals(layer))}]"

/-- NB the kill tournament's `c_x` is a *draw* (`coord{layer, random::sup(…)}`) declared const:
    the translator keeps draws as `decl` effects, so the guard names `c_x` -/
def killGuard : BX :=
  .or (.and (.cmp .gt "pop_[c_x].age()" "pop_[c_worst].age()") (.cmp .gt "pop_[c_x].age()" "allowed_age(layer)"))
      (.and (.and (.cmp .le "pop_[c_worst].age()" "allowed_age(layer)") (.cmp .le "pop_[c_x].age()" "allowed_age(layer)"))
            (.cmp .lt "eva_(pop_[c_x])" "f_worst"))

def acceptGuard : BX :=
  .or (.and (.cmp .le "incoming.age()" "allowed_age(layer)") (.cmp .gt "pop_[c_worst].age()" "allowed_age(layer)"))
      (.and (.or (.cmp .le "incoming.age()" "allowed_age(layer)") (.cmp .gt "pop_[c_worst].age()" "allowed_age(layer)"))
            (.cmp .ge "eva_(incoming)" "f_worst"))

def alpsTryAddSrc : List GE :=
  [⟨[("if", notFull)], "call", "", "pop_.add_to_layer(layer, incoming)"⟩,
   ⟨[("if", notFull)], "ret", "", "true"⟩,
   ⟨[], "decl", "c_worst", "{layer, sup(pop_.individuals(layer))}"⟩,
   ⟨[], "decl", "f_worst", "eva_(pop_[c_worst])"⟩,
   ⟨[], "decl", "rounds", "pop_.get_problem().env.tournament_size"⟩,
   ⟨[("while", .atom "rounds--")], "decl", "c_x", "{layer, sup(pop_.individuals(layer))}"⟩,
   ⟨[("while", .atom "rounds--"), ("if", killGuard)], "set", "c_worst", "c_x"⟩,
   ⟨[("while", .atom "rounds--"), ("if", killGuard)], "set", "f_worst", "eva_(pop_[c_x])"⟩,
   ⟨[("if", acceptGuard), ("if", .cmp .lt "(layer + 1)" "pop_.layers()")], "call", "",
     "try_add_to_layer((layer + 1), pop_[c_worst])"⟩,
   ⟨[("if", acceptGuard)], "set", "pop_[c_worst]", "incoming"⟩,
   ⟨[("if", acceptGuard)], "ret", "", "true"⟩,
   ⟨[], "ret", "", "false"⟩]

def alpsMoveUpSrc : List GE :=
  [⟨[("if", .cmp .lt "(l + 1)" "pop_.layers()"), ("for-init", .atom "")], "decl", "i", "decltype(n)({0})"⟩,
   ⟨[("if", .cmp .lt "(l + 1)" "pop_.layers()"), ("for", .cmp .lt "i" "pop_.individuals(l)")], "call", "",
     "try_add_to_layer((l + 1), pop_[{l, i}])"⟩,
   ⟨[("if", .cmp .lt "(l + 1)" "pop_.layers()"), ("for-incr", .cmp .lt "i" "pop_.individuals(l)")], "set", "i", "(i + 1)"⟩]

def rounds : BX := .cmp .lt "i" "pop_.get_problem().env.tournament_size"
def shiftGuard : BX := .and (.atom "j") (.cmp .gt "eva_(pop_[new_coord])" "eva_(pop_[ret[(j - 1)]])")

def selTournament : List GE :=
  [⟨[], "decl", "target", "pickup(pop_)"⟩,
   ⟨[], "decl", "ret", "pop_.get_problem().env.tournament_size"⟩,
   ⟨[("for-init", .atom "")], "decl", "i", "0"⟩,
   ⟨[("for", rounds)], "decl", "new_coord", "pickup(pop_, target)"⟩,
   ⟨[("for", rounds)], "decl", "j", "i"⟩,
   ⟨[("for", rounds), ("for", shiftGuard)], "set", "ret[j]", "ret[(j - 1)]"⟩,
   ⟨[("for", rounds), ("for-incr", shiftGuard)], "set", "j", "(j - 1)"⟩,
   ⟨[("for", rounds)], "set", "ret[j]", "new_coord"⟩,
   ⟨[("for-incr", rounds)], "set", "i", "(i + 1)"⟩,
   ⟨[], "ret", "", "ret"⟩]

def selAlpsPickup : List GE :=
  [⟨[("if", .and (.cmp .gt "l" "0") (.not (.atom "boolean(p)")))], "set", "l", "(l - 1)"⟩,
   ⟨[], "ret", "", "{l, sup(pop_.individuals(l))}"⟩]

def tmpKey : String := "{!aged(tmp), eva_(pop_[tmp])}"
def beats0 : BX := .cmp .lt "age_fit0" tmpKey
def beats1 : BX := .cmp .lt "age_fit1" tmpKey

def selAlps : List GE :=
  [⟨[], "decl", "layer", "sup(pop_.layers())"⟩,
   ⟨[], "decl", "c0", "pickup(layer)"⟩,
   ⟨[], "decl", "c1", "pickup(layer)"⟩,
   ⟨[], "decl", "age_fit0", "{!aged(c0), eva_(pop_[c0])}"⟩,
   ⟨[], "decl", "age_fit1", "{!aged(c1), eva_(pop_[c1])}"⟩,
   ⟨[("if", .cmp .lt "age_fit0" "age_fit1")], "call", "", "swap(c0, c1)"⟩,
   ⟨[("if", .cmp .lt "age_fit0" "age_fit1")], "call", "", "swap(age_fit0, age_fit1)"⟩,
   ⟨[], "decl", "rounds", "pop_.get_problem().env.tournament_size"⟩,
   ⟨[("while", .atom "rounds--")], "decl", "tmp", "pickup(layer, pop_.get_problem().env.alps.p_same_layer)"⟩,
   ⟨[("while", .atom "rounds--"), ("if", beats0)], "set", "c1", "c0"⟩,
   ⟨[("while", .atom "rounds--"), ("if", beats0)], "set", "age_fit1", "age_fit0"⟩,
   ⟨[("while", .atom "rounds--"), ("if", beats0)], "set", "c0", "tmp"⟩,
   ⟨[("while", .atom "rounds--"), ("if", beats0)], "set", "age_fit0", tmpKey⟩,
   ⟨[("while", .atom "rounds--"), ("else", beats0), ("if", beats1)], "set", "c1", "tmp"⟩,
   ⟨[("while", .atom "rounds--"), ("else", beats0), ("if", beats1)], "set", "age_fit1", tmpKey⟩,
   ⟨[], "ret", "", "{c0, c1}"⟩]

def selRandom : List GE :=
  [⟨[], "decl", "ret", "pop_.get_problem().env.tournament_size"⟩,
   ⟨[("for", .atom "v : ret")], "set", "v", "pickup(pop_)"⟩,
   ⟨[], "ret", "", "ret"⟩]

def fitDist (l : String) : String := "sum_->az.fit_dist(" ++ l ++ ")"
def ageGapGen : BX := .and (.atom "sum_->gen") (.cmp .eq "(sum_->gen % pop_.get_problem().env.alps.age_gap)" "0")
def growCond : BX :=
  .or (.cmp .lt "layers" "pop_.get_problem().env.layers")
      (.cmp .gt "sum_->az.age_dist((layers - 1)).mean()" "pop_.get_problem().env.alps.max_age(layers)")
def converged : BX := .atom ("issmall(" ++ fitDist "l" ++ ".standard_deviation())")

def alpsAfterGenSrc : List GE :=
  [⟨[], "call", "", "pop_.inc_age()"⟩,
   ⟨[("for-init", .atom "")], "decl", "l", "(pop_.layers() - 1)"⟩,
   ⟨[("for", .atom "l"), ("if", .atom ("almost_equal(" ++ fitDist "(l - 1)" ++ ".mean(), " ++ fitDist "l" ++ ".mean())"))],
     "call", "", "pop_.remove_layer(l)"⟩,
   ⟨[("for-incr", .atom "l")], "set", "l", "(l - 1)"⟩,
   ⟨[], "decl", "layers", "pop_.layers()"⟩,
   ⟨[("for-init", .atom "")], "decl", "l", "1"⟩,
   ⟨[("for", .cmp .lt "l" "layers"), ("if", converged)], "call", "",
     "pop_.set_allowed(l, max(pop_.get_problem().env.min_individuals, (pop_.individuals(l) / 2)))"⟩,
   ⟨[("for", .cmp .lt "l" "layers"), ("else", converged)], "call", "",
     "pop_.set_allowed(l, pop_.get_problem().env.individuals)"⟩,
   ⟨[("for-incr", .cmp .lt "l" "layers")], "set", "l", "(l + 1)"⟩,
   ⟨[("if", ageGapGen), ("if", growCond)], "call", "", "pop_.add_layer()"⟩,
   ⟨[("if", ageGapGen), ("else", growCond)], "call", "", "replacement.try_move_up_layer(0)"⟩,
   ⟨[("if", ageGapGen), ("else", growCond)], "call", "", "pop_.init_layer(0)"⟩]

def stdStopSrc : List GE :=
  [⟨[("if", .and (.cmp .gt "(sum_->gen - sum_->last_imp)" "*pop_.get_problem().env.max_stuck_time")
                (.atom "issmall(sum_->az.fit_dist().variance())"))], "ret", "", "true"⟩,
   ⟨[], "ret", "", "false"⟩]

/-! the three `tune_parameters` as read and modelled by Tune.lean (`tuneBase`, `tuneSrc`, `tuneGa`):
    `constrained` = the user's request `u` (a snapshot taken before the assignments), `dflt` = `Env.dflt`,
    `!constrained.x` = "x is open".  The values are tied by the differential run; these tables make any
    edit of the bodies (a changed default expression, a new or dropped assignment, a changed guard) visible. -/

def tuneBaseSrc : List GE := [
  ⟨[], "decl", "dflt", "shape(environment().init())"⟩,
  ⟨[], "decl", "constrained", "prob_.env"⟩,
  ⟨[("if", (.not (.atom "constrained.mep.code_length")))], "set", "prob_.env.mep.code_length", "max(dflt.mep.code_length, (constrained.mep.patch_length + 1))"⟩,
  ⟨[("if", (.not (.atom "constrained.mep.patch_length")))], "set", "prob_.env.mep.patch_length", "min((1 + (prob_.sset.terminals(0) / 2)), (prob_.env.mep.code_length - 1))"⟩,
  ⟨[("if", (.cmp .eq "constrained.elitism" "trilean::unknown"))], "set", "prob_.env.elitism", "dflt.elitism"⟩,
  ⟨[("if", (.cmp .lt "constrained.p_mutation" "0"))], "set", "prob_.env.p_mutation", "dflt.p_mutation"⟩,
  ⟨[("if", (.cmp .lt "constrained.p_cross" "0"))], "set", "prob_.env.p_cross", "dflt.p_cross"⟩,
  ⟨[("if", (.not (.atom "constrained.brood_recombination")))], "set", "prob_.env.brood_recombination", "dflt.brood_recombination"⟩,
  ⟨[("if", (.not (.atom "constrained.layers")))], "set", "prob_.env.layers", "dflt.layers"⟩,
  ⟨[("if", (.not (.atom "constrained.individuals")))], "set", "prob_.env.individuals", "max({dflt.individuals, constrained.min_individuals, constrained.tournament_size})"⟩,
  ⟨[("if", (.not (.atom "constrained.min_individuals")))], "set", "prob_.env.min_individuals", "min(dflt.min_individuals, prob_.env.individuals)"⟩,
  ⟨[("if", (.not (.atom "constrained.tournament_size")))], "set", "prob_.env.tournament_size", "min({dflt.tournament_size, prob_.env.individuals, (constrained.mate_zone ? constrained.mate_zone : dflt.tournament_size)})"⟩,
  ⟨[("if", (.not (.atom "constrained.mate_zone")))], "set", "prob_.env.mate_zone", "max(dflt.mate_zone, prob_.env.tournament_size)"⟩,
  ⟨[("if", (.not (.atom "constrained.generations")))], "set", "prob_.env.generations", "dflt.generations"⟩,
  ⟨[("if", (.not (.atom "constrained.max_stuck_time.has_value()")))], "set", "prob_.env.max_stuck_time", "dflt.max_stuck_time"⟩]

def tuneSrcSrc : List GE := [
  ⟨[], "decl", "dflt", "shape(environment().init())"⟩,
  ⟨[], "decl", "constrained", "prob().env"⟩,
  ⟨[], "call", "", "tune_parameters()"⟩,
  ⟨[], "decl", "d_size", "training_data().size()"⟩,
  ⟨[("if", (.not (.atom "constrained.layers"))), ("if", (.and (.cmp .gt "dflt.layers" "1") (.cmp .gt "d_size" "8")))], "set", "prob().env.layers", "decltype(dflt.layers)(log(d_size))"⟩,
  ⟨[("if", (.not (.atom "constrained.layers"))), ("else", (.and (.cmp .gt "dflt.layers" "1") (.cmp .gt "d_size" "8")))], "set", "prob().env.layers", "dflt.layers"⟩,
  ⟨[("if", (.not (.atom "constrained.individuals"))), ("if", (.cmp .gt "d_size" "8"))], "set", "prob().env.individuals", "((2 * decltype(dflt.individuals)(pow(log2(d_size), 3))) / prob().env.layers)"⟩,
  ⟨[("if", (.not (.atom "constrained.individuals"))), ("else", (.cmp .gt "d_size" "8"))], "set", "prob().env.individuals", "dflt.individuals"⟩,
  ⟨[("if", (.not (.atom "constrained.individuals"))), ("if", (.cmp .lt "prob().env.individuals" "4"))], "set", "prob().env.individuals", "4"⟩,
  ⟨[("if", (.not (.atom "constrained.individuals")))], "set", "prob().env.individuals", "max({prob().env.individuals, constrained.min_individuals, constrained.tournament_size})"⟩,
  ⟨[("if", (.not (.atom "constrained.individuals"))), ("if", (.not (.atom "constrained.tournament_size")))], "set", "prob().env.tournament_size", "min(prob().env.tournament_size, prob().env.individuals)"⟩,
  ⟨[("if", (.and (.not (.atom "constrained.dss.has_value()")) (.cmp .eq "typeid(*vs_)" "typeid(dss)")))], "set", "prob().env.dss", "dflt.dss"⟩,
  ⟨[("if", (.and (.not (.atom "constrained.validation_percentage.has_value()")) (.cmp .eq "typeid(*vs_)" "typeid(holdout_validation)")))], "set", "prob().env.validation_percentage", "dflt.validation_percentage"⟩]

def tuneGaSrc : List GE := [
  ⟨[], "call", "", "tune_parameters()"⟩,
  ⟨[("if", (.cmp .lt "prob_.env.min_individuals" "10"))], "set", "prob_.env.min_individuals", "min(10, prob_.env.individuals)"⟩]

end Model

/-! ### the model functions are the interpretation of the tables -/

section link
variable {α F : Type} [FitOrd F]

/-- the valuation under which the replacement tables are read: fitness operands, elitism -/
def replVal (bestFit offFit : F) (more : List (String × F)) (elitism : Bool) :
    Cmp → String → String → Bool :=
  mixCmp ([("eva_(offspring[0])", offFit), ("s->best.score.fitness", bestFit)] ++ more) []
    [("pop_.get_problem().env.elitism==trilean::no", !elitism),
     ("pop_.get_problem().env.elitism==trilean::yes", elitism)]

/-- the guard of the single assignment to `lhs` (first one when a branch structure repeats it) -/
def guardOfSet (fn : List GE) (lhs : String) : BX :=
  match setsOf fn lhs with
  | e :: _ => e.guard
  | [] => .atom "?"

def guardOfCall (fn : List GE) (rhs : String) : BX :=
  match callsOf fn rhs with
  | e :: _ => e.guard
  | [] => .atom "?"

def noAtoms : String → Bool := fun _ => false

/-- every replacement strategy ends with the same "new best" block -/
theorem bestBlock_shared :
    Model.replTournamentSrc.drop 1 = Model.bestBlock ∧ Model.replFamilySrc.drop 6 = Model.bestBlock ∧
    Model.replAlpsSrc.drop 3 = Model.bestBlock ∧
    Model.bestBlock.map (fun e => (e.guard, e.kind, e.lhs, e.rhs)) =
      [(Model.bestGuard, "set", "s->last_imp", "s->gen"), (Model.bestGuard, "set", "s->best.solution", "offspring[0]"),
       (Model.bestGuard, "set", "s->best.score.fitness", "eva_(offspring[0])")] := by
  decide

/-- `updBest` is the interpretation of that block: it fires iff `fit_off > s->best.score.fitness`
    and then performs the three assignments -/
theorem updBest_is_table (eval : α → F) (s : Summ α F) (off : α) (elitism : Bool) :
    updBest eval s off =
      if Model.bestGuard.eval (replVal s.bestFit (eval off) [] elitism) noAtoms
      then { s with lastImp := s.gen, best := off, bestFit := eval off } else s := by
  simp [updBest, Model.bestGuard, BX.eval, replVal, mixCmp, List.lookup, fitCmp]

/-- `replacement::tournament`: the population is overwritten at `parent.back()` iff the guard of
    the statement `pop[rep_idx] = offspring[0]` holds -/
theorem replTournament_is_table (eval : α → F) (elitism : Bool) (st : St α F) (parents : List Coord)
    (off : α) (rep : Coord) (hrep : parents.getLast? = some rep) (old : α)
    (hold : st.pop.get? rep = some old) :
    (replTournament eval elitism st parents off).pop =
      if (guardOfSet Model.replTournamentSrc "pop_[parent.back()]").eval
           (replVal st.sum.bestFit (eval off) [("eva_(pop_[parent.back()])", eval old)] elitism) noAtoms
      then st.pop.assign rep off else st.pop := by
  simp [replTournament, hrep, hold, guardOfSet, setsOf, Model.replTournamentSrc, Model.bestBlock, Model.bestGuard,
    Model.elitismIs, GE.guard, pathCond, BX.eval, replVal, mixCmp, List.lookup, fitCmp]

theorem family_guard_eq :
    guardOfSet Model.replFamilySrc ("pop_[parent[" ++ Model.worstIdx ++ "]]") =
      .and (Model.elitismIs "yes") (.cmp .gt "eva_(offspring[0])" Model.fitWorst) := by decide

theorem fitWorst_lit : Model.fitWorst = "fit_parent[((fit_parent[0] < fit_parent[1]) ? 0 : 1)]" := by decide

/-- `replacement::family_competition`, elitist branch: the worse parent is overwritten iff
    `fit_off > fit_parent[id_worst]` -/
theorem familyCompetition_is_table (eval : α → F) (b1 b2 : Bool) (st : St α F) (p0 p1 : Coord)
    (off x0 x1 : α) (h0 : st.pop.get? p0 = some x0) (h1 : st.pop.get? p1 = some x1) :
    (familyCompetition eval true b1 b2 st p0 p1 off).pop =
      if (guardOfSet Model.replFamilySrc ("pop_[parent[" ++ Model.worstIdx ++ "]]")).eval
           (replVal st.sum.bestFit (eval off)
             [(Model.fitWorst, if lt (eval x0) (eval x1) then eval x0 else eval x1)] true) noAtoms
      then st.pop.assign (if lt (eval x0) (eval x1) then p0 else p1) off else st.pop := by
  rw [family_guard_eq, fitWorst_lit]
  simp [familyCompetition, h0, h1, Model.elitismIs, BX.eval, replVal, mixCmp, List.lookup, fitCmp]

/-- `replacement::alps::run`: the second insertion attempt (last layer) happens iff the offspring
    is a new best, the first attempt failed and elitism is on -/
theorem replAlps_retry_is_table (eval : α → F) (elitism ins : Bool) (st : St α F) (off : α) :
    decide (lt st.sum.bestFit (eval off) = true ∧ ins = false ∧ elitism = true) =
      (guardOfCall Model.replAlpsSrc "try_add_to_layer((pop_.layers() - 1), offspring[0])").eval
        (replVal st.sum.bestFit (eval off) [] elitism) (assoc [("ins", ins)] false) := by
  cases ins <;> cases elitism <;>
  simp [guardOfCall, callsOf, Model.replAlpsSrc, Model.bestBlock, Model.bestGuard, Model.elitismIs, GE.guard, pathCond,
    BX.eval, replVal, mixCmp, List.lookup, fitCmp, assoc]

/-- the valuation of `try_add_to_layer`: ages, sizes and the fitness operands -/
def tryAddVal (mAge ageInc ageWorst ageX size allowed layer nLayers : Nat) (fInc fWorst fX : F) :
    Cmp → String → String → Bool :=
  mixCmp [("eva_(incoming)", fInc), ("f_worst", fWorst), ("eva_(pop_[c_x])", fX)]
    [("allowed_age(layer)", mAge), ("incoming.age()", ageInc), ("pop_[c_worst].age()", ageWorst),
     ("pop_[c_x].age()", ageX), ("pop_.individuals(layer)", size), ("pop_.allowed(layer)", allowed),
     ("(layer + 1)", layer + 1), ("pop_.layers()", nLayers)] []

/-- the three decisions of `try_add_to_layer` (layer not full / kill tournament step / accept the
    incoming individual) and the recursion test are the guards of the table -/
theorem tryAdd_is_table (mAge ageInc ageWorst ageX size allowed layer nLayers : Nat) (fInc fWorst fX : F) :
    let v := tryAddVal mAge ageInc ageWorst ageX size allowed layer nLayers fInc fWorst fX
    decide (size < allowed) = (guardOfCall Model.alpsTryAddSrc "pop_.add_to_layer(layer, incoming)").eval v noAtoms ∧
    decide ((ageX > ageWorst ∧ ageX > mAge) ∨ (ageWorst ≤ mAge ∧ ageX ≤ mAge ∧ lt fX fWorst = true)) =
      ((guardOfSet Model.alpsTryAddSrc "c_worst").eval v (assoc [("rounds--", true)] false)) ∧
    decide ((ageInc ≤ mAge ∧ ageWorst > mAge) ∨ ((ageInc ≤ mAge ∨ ageWorst > mAge) ∧ le fWorst fInc = true)) =
      (guardOfSet Model.alpsTryAddSrc "pop_[c_worst]").eval v noAtoms ∧
    (decide ((ageInc ≤ mAge ∧ ageWorst > mAge) ∨ ((ageInc ≤ mAge ∨ ageWorst > mAge) ∧ le fWorst fInc = true)) &&
      decide (layer + 1 < nLayers)) =
      (guardOfCall Model.alpsTryAddSrc "try_add_to_layer((layer + 1), pop_[c_worst])").eval v noAtoms := by
  simp [tryAddVal, guardOfCall, guardOfSet, callsOf, setsOf, Model.alpsTryAddSrc, Model.notFull, Model.killGuard,
    Model.acceptGuard, GE.guard, pathCond, BX.eval, mixCmp, List.lookup, fitCmp, natCmp, assoc, Bool.and_assoc]

/-- tournament selection's insertion sort: an element of the sorted prefix is shifted right iff
    `j && new_fitness > eva(pop[ret[j-1]])` (`j` ≠ 0: there is a prefix element) -/
theorem insR_is_table (fit : Coord → F) (x y : Coord) :
    lt (fit y) (fit x) =
      (guardOfSet Model.selTournament "j").eval
        (mixCmp [("eva_(pop_[new_coord])", fit x), ("eva_(pop_[ret[(j - 1)]])", fit y)] [("i", 0), ("pop_.get_problem().env.tournament_size", 1)] [])
        (assoc [("j", true)] false) := by
  simp [guardOfSet, setsOf, Model.selTournament, Model.rounds, Model.shiftGuard, GE.guard, pathCond, BX.eval, mixCmp,
    List.lookup, fitCmp, natCmp, assoc]

/-- `selection::alps::pickup`: one layer down iff `l > 0 && !random::boolean(p)` -/
theorem alpsPickup_is_table (l : Nat) (same : Bool) (d : Nat) :
    (alpsPickup l same d).1 =
      if (guardOfSet Model.selAlpsPickup "l").eval (mixCmp ([] : List (String × Int)) [("l", l), ("0", 0)] [])
           (assoc [("boolean(p)", same)] false)
      then l - 1 else l := by
  cases same <;>
  simp [alpsPickup, guardOfSet, setsOf, Model.selAlpsPickup, GE.guard, pathCond, BX.eval, mixCmp, List.lookup, natCmp, assoc]

end link

/-! ### `summary<T>::clear()`, the start of a run, several runs on one evolution object -/

/-- which of the members the model tracks `summary<T>::clear()` resets, and to what
    (`best.solution` / `best.score.fitness` to the default-constructed values, the counters to a literal) -/
structure ClearTbl where
  best    : Bool
  bestFit : Bool
  lastImp : Option Nat
  gen     : Option Nat
deriving DecidableEq, Repr

/-- read off the extracted table: `sets` = member ↦ value text, `nats` = the integer-literal values -/
def clearTblOf (sets : List (String × String)) (nats : List (String × Nat)) : ClearTbl :=
  ⟨(sets.lookup "best").isSome || (sets.lookup "best.solution").isSome,
   (sets.lookup "best").isSome || (sets.lookup "best.score").isSome || (sets.lookup "best.score.fitness").isSome,
   nats.lookup "last_imp", nats.lookup "gen"⟩

namespace Model
def clearNats : List (String × Nat) := [("crossovers", 0), ("elapsed", 0), ("gen", 0), ("last_imp", 0), ("mutations", 0)]
/-- `*this = summary<T>()`: everything reset -/
def clearTbl : ClearTbl := ⟨true, true, some 0, some 0⟩
theorem clearTbl_eq : clearTblOf clearSets clearNats = clearTbl := by decide
end Model

section runs
variable {α F : Type} [FitOrd F]

/-- `summary<T>::clear()`; `d`, `df` = `T()`, the fitness of `model_measurements()` -/
def clearSumm (t : ClearTbl) (d : α) (df : F) (s : Summ α F) : Summ α F :=
  ⟨if t.best then d else s.best, if t.bestFit then df else s.bestFit, t.lastImp.getD s.lastImp, t.gen.getD s.gen⟩

structure EvoCtx (α F : Type) where
  loop  : LoopCtx α F
  tbl   : ClearTbl
  dflt  : α
  dfltF : F

/-- meaning of one skeleton token in a run WITHOUT data shake (`run(unsigned)`, whose `shake` returns
    false – `GenEvo.noShakeDefault`): `ifShake` is skipped.  Runs with an arbitrary shake functor are
    `execTokD` / `evoRunSkD` (Shake.lean), which agree with this interpreter when no shake fires;
    `select / recombine / replace` are one `stepFn` (see `stepSk`); `esInit` has an empty body in
    every strategy, `azStats`, `callback`, `ret` do not write population or summary. -/
def execTok (e : EvoCtx α F) (ag : AlpsAG) (st : St α F) : Tok → St α F
  | .clear => ⟨st.pop, clearSumm e.tbl e.dflt e.dfltF st.sum⟩
  | .bestSol l i => ⟨st.pop, { st.sum with best := (st.pop.get? (l, i)).getD st.sum.best }⟩
  | .bestEval => ⟨st.pop, { st.sum with bestFit := e.loop.cfg.eval st.sum.best }⟩
  | .setGen n => ⟨st.pop, { st.sum with gen := n }⟩
  | .incGen => ⟨st.pop, nextGen st.sum⟩
  | .esAfterGen =>
    match e.loop.cfg.strat with
    | .alps => ⟨alpsAfterGen e.loop.ctx e.loop.cfg.eval e.loop.age e.loop.allowedAge ag st.pop, st.sum⟩
    | _ => st
  | _ => st

def execToks (e : EvoCtx α F) (ag : AlpsAG) (st : St α F) (ts : List Tok) : St α F :=
  ts.foldl (execTok e ag) st

def noAG : AlpsAG := ⟨[], [], none, []⟩

/-- one iteration of the selection loop: defined when its body is select; recombine; replace -/
def stepSk (sk : Skel) (e : EvoCtx α F) (st : St α F) (i : StepIn α) : St α F :=
  if sk.step = [.select, .recombine, .replace] then stepFn e.loop st i else st

def startRun (sk : Skel) (e : EvoCtx α F) (st : St α F) : St α F :=
  execToks e noAG st (sk.prologue ++ sk.loopInit)

def genSk (sk : Skel) (e : EvoCtx α F) (st : St α F) (g : List (StepIn α) × AlpsAG) : St α F :=
  execToks e g.2 (execToks e g.2 (g.1.foldl (stepSk sk e) (execToks e g.2 st sk.genHead)) sk.genTail) sk.loopIncr

/-- `evolution<T,ES>::run` read from its skeleton; `gens` = what the loop draws / computes outside
    the model, one entry per generation -/
def evoRunSk (sk : Skel) (e : EvoCtx α F) (st : St α F) (gens : List (List (StepIn α) × AlpsAG)) : St α F :=
  gens.foldl (genSk sk e) (startRun sk e st)

/-- several consecutive `run()`s on the same evolution object -/
def evoRunsSk (sk : Skel) (e : EvoCtx α F) (st : St α F) (runs : List (List (List (StepIn α) × AlpsAG))) :
    St α F :=
  runs.foldl (evoRunSk sk e) st

/-- the summary a run starts from: cleared, best = `pop[{0,0}]` and its fitness, `gen = 0` -/
def startSumm (eval : α → F) (t : ClearTbl) (d : α) (df : F) (first : Option α) (s : Summ α F) : Summ α F :=
  ⟨first.getD (clearSumm t d df s).best, eval (first.getD (clearSumm t d df s).best), (clearSumm t d df s).lastImp, 0⟩

theorem startRun_model (e : EvoCtx α F) (st : St α F) :
    startRun Model.skel e st =
      ⟨st.pop, startSumm e.loop.cfg.eval e.tbl e.dflt e.dfltF (st.pop.get? (0, 0)) st.sum⟩ := by
  simp [startRun, Model.skel, execToks, execTok, startSumm, clearSumm]

theorem genSk_model (e : EvoCtx α F) (st : St α F) (g : List (StepIn α) × AlpsAG) :
    genSk Model.skel e st g = generation e.loop st g := by
  have hs : stepSk Model.skel e = stepFn e.loop := by
    funext s i; simp [stepSk, Model.skel]
  simp only [genSk, hs, generation, afterGenFn]
  cases h : e.loop.cfg.strat <;> simp [Model.skel, execToks, execTok, h]

/-- for the model's skeleton the interpreter is the model loop after the run's prologue -/
theorem evoRunSk_model (e : EvoCtx α F) (st : St α F) (gens : List (List (StepIn α) × AlpsAG)) :
    evoRunSk Model.skel e st gens = runModel e.loop (startRun Model.skel e st) gens := by
  have : genSk Model.skel e = generation e.loop := by funext s g; exact genSk_model e s g
  simp [evoRunSk, runModel, this]

/-- a data shake as a monitor of the real run sees it.  The monitor's individuals are *observed*
    individuals (the evaluator's score under the data current at the time of the observation is part
    of the observation, `cfg.eval` reads it), so after `shake(gen)` has changed the data every member
    is re-observed: same places, same capacities, same well-formedness, new scores.  The summary keeps
    `last_imp` and `gen`; the best-so-far fitness is the score of the best-so-far individual UNDER THE
    NEW DATA (the re-evaluation `stats_.best.score.fitness = eva_(stats_.best.solution)` of the shake
    branch).  (The data-indexed model of the branch itself is `execTokD`, Shake.lean.) -/
structure ShakeRel (cfg : Cfg α F) (st st' : St α F) : Prop where
  layers    : LayerInv st'.pop
  shape     : st'.pop.shape = st.pop.shape
  wf_all    : ∀ x ∈ st'.pop.members, cfg.wf x = true
  best_wf   : cfg.wf st'.sum.best = true
  best_eval : st'.sum.bestFit = cfg.eval st'.sum.best
  last_imp  : st'.sum.lastImp = st.sum.lastImp
  gen       : st'.sum.gen = st.sum.gen

/-- the transitions of a session: the steps of a run, the start of the next run on the same
    object (population carried over, summary restarted), and a data shake at the head of a generation -/
inductive MTrans (cfg : Cfg α F) (t : ClearTbl) (d : α) (df : F) : St α F → St α F → Prop
  | run (st st' : St α F) : Trans cfg st st' → MTrans cfg t d df st st'
  | restart (st st' : St α F) : st'.pop = st.pop →
      st'.sum = startSumm cfg.eval t d df (st.pop.get? (0, 0)) st.sum → MTrans cfg t d df st st'
  | shake (st st' : St α F) : ShakeRel cfg st st' → MTrans cfg t d df st st'

inductive MReach (cfg : Cfg α F) (t : ClearTbl) (d : α) (df : F) : St α F → St α F → Prop
  | refl (st : St α F) : MReach cfg t d df st st
  | step (a b c : St α F) : MReach cfg t d df a b → MTrans cfg t d df b c → MReach cfg t d df a c

theorem MReach.trans {cfg : Cfg α F} {t : ClearTbl} {d : α} {df : F} {a b c : St α F}
    (h1 : MReach cfg t d df a b) (h2 : MReach cfg t d df b c) : MReach cfg t d df a c := by
  induction h2 with
  | refl => exact h1
  | step b' c' _ ht ih => exact MReach.step _ _ _ ih ht

theorem MReach.of_reach {cfg : Cfg α F} {t : ClearTbl} {d : α} {df : F} {a b : St α F}
    (h : Reach cfg a b) : MReach cfg t d df a b := by
  induction h with
  | refl => exact MReach.refl _
  | step b' c' _ ht ih => exact MReach.step _ _ _ ih (MTrans.run _ _ ht)

/-- what the proof needs from `clear()`: `last_imp` is reset to 0 (the loop starts at `gen = 0`);
    a default-constructed individual is well-formed (only used when layer 0 is empty) -/
structure ClearOK (cfg : Cfg α F) (t : ClearTbl) (d : α) : Prop where
  lastImp0 : t.lastImp = some 0
  dflt_wf  : cfg.wf d = true

omit [FitOrd F] in
theorem restart_inv (cfg : Cfg α F) (t : ClearTbl) (d : α) (df : F) (ok : ClearOK cfg t d)
    (shape0 : List Nat) (st st' : St α F) (hi : RunInv cfg shape0 st) (hp : st'.pop = st.pop)
    (hs : st'.sum = startSumm cfg.eval t d df (st.pop.get? (0, 0)) st.sum) : RunInv cfg shape0 st' := by
  obtain ⟨w, l, sc, _, bw, _⟩ := hi
  refine ⟨by rw [hp]; exact w, by rw [hp]; exact l, fun h => by rw [hp]; exact sc h, by rw [hs]; rfl, ?_, ?_⟩
  · rw [hs]
    simp only [startSumm, clearSumm]
    cases hg : st.pop.get? (0, 0) with
    | some x => exact w x ((mem_members_iff _ _).mpr ⟨_, hg⟩)
    | none =>
      simp only [Option.getD_none]
      split
      · exact ok.dflt_wf
      · exact bw
  · rw [hs]
    simp [startSumm, clearSumm, ok.lastImp0]

theorem mtrans_inv (cfg : Cfg α F) (t : ClearTbl) (d : α) (df : F) (ok : ClearOK cfg t d)
    (shape0 : List Nat) (st st' : St α F) (hi : RunInv cfg shape0 st) (ht : MTrans cfg t d df st st') :
    RunInv cfg shape0 st' := by
  cases ht with
  | run h => exact trans_inv cfg shape0 st st' hi h
  | restart hp hs => exact restart_inv cfg t d df ok shape0 st st' hi hp hs
  | shake h =>
    exact ⟨h.wf_all, h.layers, fun hs => by rw [h.shape]; exact hi.size_const hs, h.best_eval, h.best_wf,
      by rw [h.last_imp, h.gen]; exact hi.last_imp⟩

/-- the run invariant holds in every state of every run of a session -/
theorem mreach_inv (cfg : Cfg α F) (t : ClearTbl) (d : α) (df : F) (ok : ClearOK cfg t d)
    (shape0 : List Nat) (st st' : St α F) (hi : RunInv cfg shape0 st) (hr : MReach cfg t d df st st') :
    RunInv cfg shape0 st' := by
  induction hr with
  | refl => exact hi
  | step b c _ ht ih => exact mtrans_inv cfg t d df ok shape0 b c ih ht

/-- one run of the interpreter (model skeleton) is a restart followed by run steps -/
theorem evoRunSk_mreach (e : EvoCtx α F) (lok : LoopOK e.loop) (ok : ClearOK e.loop.cfg e.tbl e.dflt)
    (shape0 : List Nat) (gens : List (List (StepIn α) × AlpsAG)) (st : St α F)
    (hi : RunInv e.loop.cfg shape0 st) (hoff : ∀ g ∈ gens, ∀ i ∈ g.1, e.loop.cfg.wf i.off = true) :
    MReach e.loop.cfg e.tbl e.dflt e.dfltF st (evoRunSk Model.skel e st gens) ∧
    Reach e.loop.cfg (startRun Model.skel e st) (evoRunSk Model.skel e st gens) := by
  rw [evoRunSk_model]
  have h0 : MTrans e.loop.cfg e.tbl e.dflt e.dfltF st (startRun Model.skel e st) := by
    rw [startRun_model]; exact MTrans.restart _ _ rfl rfl
  have hi0 := mtrans_inv _ _ _ _ ok shape0 _ _ hi h0
  have hr := runModel_reach e.loop lok shape0 gens _ hi0 hoff
  exact ⟨(MReach.step _ _ _ (MReach.refl _) h0).trans (MReach.of_reach hr), hr⟩

theorem evoRunsSk_mreach (e : EvoCtx α F) (lok : LoopOK e.loop) (ok : ClearOK e.loop.cfg e.tbl e.dflt)
    (shape0 : List Nat) (runs : List (List (List (StepIn α) × AlpsAG))) (st : St α F)
    (hi : RunInv e.loop.cfg shape0 st)
    (hoff : ∀ gens ∈ runs, ∀ g ∈ gens, ∀ i ∈ g.1, e.loop.cfg.wf i.off = true) :
    MReach e.loop.cfg e.tbl e.dflt e.dfltF st (evoRunsSk Model.skel e st runs) := by
  induction runs generalizing st with
  | nil => exact MReach.refl _
  | cons gens rest ih =>
    have h1 := (evoRunSk_mreach e lok ok shape0 gens st hi (hoff gens List.mem_cons_self)).1
    exact h1.trans (ih _ (mreach_inv _ _ _ _ ok shape0 _ _ hi h1)
      (fun g' hg' => hoff g' (List.mem_cons_of_mem _ hg')))

end runs

end Vita.C06
