/-
  C06 — the small syntax in which tools/translate_evolution.py writes what it reads in the clang
  AST of `evolution<T,ES>::run`, `summary<T>::summary/clear` and the strategy classes
  (lean/Vita/C06/GenEvo.lean is plain data over these types).  Syntax only: the meaning is given
  in Evo.lean (`BX.eval`, `execToks`, `clearSumm`), the model functions are proved to be the
  interpretation of the model's tables and Props.lean proves (by `decide`) that the tables
  extracted from the CURRENT sources are the model's.
-/
namespace Vita.C06

inductive Cmp | lt | le | gt | ge | eq | ne
deriving DecidableEq, Repr

/-- a C++ condition: `&&`, `||`, `!`, comparisons (operands kept as canonical source text, const /
    reference locals replaced by their initialiser), anything else an opaque atom -/
inductive BX
  | cmp (op : Cmp) (a b : String)
  | atom (t : String)
  | not (x : BX)
  | and (x y : BX)
  | or (x y : BX)
deriving DecidableEq, Repr

/-- one effect of a function body with the conditions it is nested in (source order).
    `path`: ("if" | "else" | "for" | "for-init" | "for-incr" | "while", condition) from the outside in;
    `kind`: set (assignment) | decl (non-const local) | call | ret -/
structure GE where
  path : List (String × BX)
  kind : String
  lhs  : String
  rhs  : String
deriving DecidableEq, Repr

/-- the statements of `evolution<T,ES>::run` the model knows (everything else – timers, terminal
    handling, progress / log output, `stats_.elapsed` – is recognised as inert and dropped) -/
inductive Tok
  | clear                    -- stats_.clear()
  | bestSol (l i : Nat)      -- stats_.best.solution = pop_[{l, i}]
  | bestEval                 -- stats_.best.score.fitness = eva_(stats_.best.solution)
  | esInit                   -- es_.init()
  | setGen (n : Nat)         -- stats_.gen = n
  | incGen                   -- ++stats_.gen
  | ifShake (c : BX)         -- if (c) { shakeBody }   (c mentions the call `shake(stats_.gen)`; the CONDITION is
                             --                          part of the skeleton: `shake(stats_.gen) && stats_.gen` is another run)
  | azStats                  -- stats_.az = get_stats()
  | select                   -- auto parents(es_.selection.run())
  | recombine                -- auto off(es_.recombination.run(parents))
  | replace                  -- es_.replacement.run(parents, off, &stats_)
  | esAfterGen               -- es_.after_generation()
  | callback                 -- if (after_generation_callback_) after_generation_callback_(pop_, stats_)
  | ret                      -- return stats_
deriving DecidableEq, Repr

/-- `evolution<T,ES>::run`:
    prologue; for (loopInit; genLoopCond; loopIncr) { genHead; for (k…; stepLoopCond; ++k) { step } genTail } epilogue -/
structure Skel where
  prologue  : List Tok
  loopInit  : List Tok
  genHead   : List Tok
  step      : List Tok
  genTail   : List Tok
  loopIncr  : List Tok
  shakeBody : List Tok
  epilogue  : List Tok
deriving DecidableEq, Repr

end Vita.C06
