/-
  C06 (1) — population book-keeping.

  Model of `vita::population<T>` (src/kernel/population.{h,tcc}) at the level the property
  talks about: `pop_` is a list of layers (lists of abstract individuals `α`), `allowed_` a
  list of capacities.  Every operation is a small total function; outside the C++
  precondition (`Expects(l < layers())`, `pop_back` on an empty layer …) the model does
  nothing (the harness never leaves the precondition).

  C++                                   model
  ------------------------------------  ---------------------------------------------
  population(p)                         Pop.create
  init_layer(l)                         Pop.initLayer      (allowed(l) fresh individuals)
  add_layer()                           Pop.addLayer       (new layer 0, allowed = env.individuals)
  remove_layer(l)                       Pop.removeLayer
  add_to_layer(l, i)                    Pop.addToLayer     (only if individuals(l) < allowed(l))
  pop_from_layer(l)                     Pop.popFromLayer
  set_allowed(l, n)                     Pop.setAllowed     (n := max n (min min_individuals individuals); surplus erased)
  operator[](c) = x                     Pop.assign
  inc_age()                             Pop.incAge
-/
namespace Vita.C06

/-- a coordinate `{layer, index}` (population_coord.tcc) -/
abbrev Coord := Nat × Nat

structure Pop (α : Type) where
  layers  : List (List α)
  allowed : List Nat
deriving Repr, DecidableEq

/-- the two environment parameters the book-keeping reads -/
structure PEnv where
  individuals    : Nat
  minIndividuals : Nat
deriving Repr, DecidableEq

namespace Pop
variable {α : Type}

def nLayers (p : Pop α) : Nat := p.layers.length
def layer (p : Pop α) (l : Nat) : List α := p.layers[l]?.getD []
def layerSize (p : Pop α) (l : Nat) : Nat := (p.layer l).length
def allowedAt (p : Pop α) (l : Nat) : Nat := p.allowed[l]?.getD 0
/-- `population::individuals()` -/
def size (p : Pop α) : Nat := (p.layers.map List.length).sum
/-- the vector of layer sizes -/
def shape (p : Pop α) : List Nat := p.layers.map List.length
def get? (p : Pop α) (c : Coord) : Option α := (p.layer c.1)[c.2]?
/-- every individual of the population, in iteration order -/
def members (p : Pop α) : List α := p.layers.flatten

/-- `n` freshly constructed individuals (`T(get_problem())`); `mk k` is the k-th one -/
def fresh (mk : Nat → α) (n : Nat) : List α := (List.range n).map mk

def create (e : PEnv) (mk : Nat → α) : Pop α :=
  ⟨[fresh mk e.individuals], [e.individuals]⟩

def initLayer (mk : Nat → α) (p : Pop α) (l : Nat) : Pop α :=
  { p with layers := p.layers.set l (fresh mk (p.allowedAt l)) }

def addLayer (e : PEnv) (mk : Nat → α) (p : Pop α) : Pop α :=
  ⟨fresh mk e.individuals :: p.layers, e.individuals :: p.allowed⟩

def removeLayer (p : Pop α) (l : Nat) : Pop α :=
  ⟨p.layers.eraseIdx l, p.allowed.eraseIdx l⟩

def addToLayer (p : Pop α) (l : Nat) (x : α) : Pop α :=
  if p.layerSize l < p.allowedAt l then
    { p with layers := p.layers.set l (p.layer l ++ [x]) }
  else p

def popFromLayer (p : Pop α) (l : Nat) : Pop α :=
  { p with layers := p.layers.set l (p.layer l).dropLast }

/-- the clamp applied by `set_allowed` -/
def clampAllowed (e : PEnv) (n : Nat) : Nat := max n (min e.minIndividuals e.individuals)

def setAllowed (e : PEnv) (p : Pop α) (l n : Nat) : Pop α :=
  if l < p.nLayers then
    ⟨p.layers.set l ((p.layer l).take (clampAllowed e n)), p.allowed.set l (clampAllowed e n)⟩
  else p

def assign (p : Pop α) (c : Coord) (x : α) : Pop α :=
  { p with layers := p.layers.set c.1 ((p.layer c.1).set c.2 x) }

def incAge (older : α → α) (p : Pop α) : Pop α :=
  { p with layers := p.layers.map (·.map older) }

end Pop

/-- the book-keeping operations as data (for histories) -/
inductive Op (α : Type)
  | initLayer (l : Nat)
  | addLayer
  | removeLayer (l : Nat)
  | addToLayer (l : Nat) (x : α)
  | popFromLayer (l : Nat)
  | setAllowed (l n : Nat)
  | assign (c : Coord) (x : α)
  | incAge

/-- parameters of a history: the environment, the constructor of random individuals and ageing -/
structure Ctx (α : Type) where
  env   : PEnv
  make  : Nat → α
  older : α → α

def Op.apply {α : Type} (k : Ctx α) (p : Pop α) : Op α → Pop α
  | .initLayer l    => p.initLayer k.make l
  | .addLayer       => p.addLayer k.env k.make
  | .removeLayer l  => p.removeLayer l
  | .addToLayer l x => p.addToLayer l x
  | .popFromLayer l => p.popFromLayer l
  | .setAllowed l n => p.setAllowed k.env l n
  | .assign c x     => p.assign c x
  | .incAge         => p.incAge k.older

def runOps {α : Type} (k : Ctx α) (p : Pop α) (ops : List (Op α)) : Pop α :=
  ops.foldl (Op.apply k) p

/-- `population::is_valid`, the part about sizes: one capacity per layer, no layer above it -/
def LayerInv {α : Type} (p : Pop α) : Prop :=
  p.layers.length = p.allowed.length ∧ ∀ l, p.layerSize l ≤ p.allowedAt l

/-! ### preservation lemmas -/

section lemmas
variable {α : Type}

theorem fresh_length (mk : Nat → α) (n : Nat) : (Pop.fresh mk n).length = n := by
  simp [Pop.fresh]

theorem layerInv_create (e : PEnv) (mk : Nat → α) : LayerInv (Pop.create e mk) := by
  refine ⟨rfl, fun l => ?_⟩
  cases l <;> simp [Pop.create, Pop.layerSize, Pop.layer, Pop.allowedAt, fresh_length]

theorem layerInv_initLayer (mk : Nat → α) (p : Pop α) (l : Nat) (h : LayerInv p) :
    LayerInv (p.initLayer mk l) := by
  obtain ⟨hl, hs⟩ := h
  refine ⟨by simp [Pop.initLayer, hl], fun j => ?_⟩
  have := hs j
  simp only [Pop.initLayer, Pop.layerSize, Pop.layer, Pop.allowedAt, List.getElem?_set] at *
  split
  · split
    · subst_vars; simp [fresh_length]
    · simp
  · exact this

theorem layerInv_addLayer (e : PEnv) (mk : Nat → α) (p : Pop α) (h : LayerInv p) :
    LayerInv (p.addLayer e mk) := by
  obtain ⟨hl, hs⟩ := h
  refine ⟨by simp [Pop.addLayer, hl], fun j => ?_⟩
  cases j with
  | zero => simp [Pop.addLayer, Pop.layerSize, Pop.layer, Pop.allowedAt, fresh_length]
  | succ j => simpa [Pop.addLayer, Pop.layerSize, Pop.layer, Pop.allowedAt] using hs j

theorem layerInv_removeLayer (p : Pop α) (l : Nat) (h : LayerInv p) :
    LayerInv (p.removeLayer l) := by
  obtain ⟨hl, hs⟩ := h
  refine ⟨by simp [Pop.removeLayer, List.length_eraseIdx, hl], fun j => ?_⟩
  have h1 := hs j
  have h2 := hs (j + 1)
  simp only [Pop.removeLayer, Pop.layerSize, Pop.layer, Pop.allowedAt, List.getElem?_eraseIdx] at *
  split <;> assumption

theorem layerInv_addToLayer (p : Pop α) (l : Nat) (x : α) (h : LayerInv p) :
    LayerInv (p.addToLayer l x) := by
  unfold Pop.addToLayer
  split
  · rename_i hlt
    obtain ⟨hl, hs⟩ := h
    refine ⟨by simp [hl], fun j => ?_⟩
    have := hs j
    simp only [Pop.layerSize, Pop.layer, Pop.allowedAt, List.getElem?_set] at *
    split
    · split
      · subst_vars; simp; omega
      · simp
    · exact this
  · exact h

theorem layerInv_popFromLayer (p : Pop α) (l : Nat) (h : LayerInv p) :
    LayerInv (p.popFromLayer l) := by
  obtain ⟨hl, hs⟩ := h
  refine ⟨by simp [Pop.popFromLayer, hl], fun j => ?_⟩
  have := hs j
  simp only [Pop.popFromLayer, Pop.layerSize, Pop.layer, Pop.allowedAt, List.getElem?_set] at *
  split
  · split
    · subst_vars; simp; omega
    · simp
  · exact this

theorem layerInv_setAllowed (e : PEnv) (p : Pop α) (l n : Nat) (h : LayerInv p) :
    LayerInv (p.setAllowed e l n) := by
  unfold Pop.setAllowed
  split
  · rename_i hlt
    obtain ⟨hl, hs⟩ := h
    refine ⟨by simp [hl], fun j => ?_⟩
    have := hs j
    simp only [Pop.nLayers] at hlt
    simp only [Pop.layerSize, Pop.layer, Pop.allowedAt, List.getElem?_set] at *
    by_cases hj : l = j
    · subst hj
      have h2 : l < p.allowed.length := by omega
      simp [hlt, h2, List.length_take]
      omega
    · simp [hj]; exact this
  · exact h

theorem layerInv_assign (p : Pop α) (c : Coord) (x : α) (h : LayerInv p) :
    LayerInv (p.assign c x) := by
  obtain ⟨hl, hs⟩ := h
  refine ⟨by simp [Pop.assign, hl], fun j => ?_⟩
  have := hs j
  simp only [Pop.assign, Pop.layerSize, Pop.layer, Pop.allowedAt, List.getElem?_set] at *
  split
  · split
    · subst_vars; simpa using this
    · simp
  · exact this

theorem layerInv_incAge (older : α → α) (p : Pop α) (h : LayerInv p) :
    LayerInv (p.incAge older) := by
  obtain ⟨hl, hs⟩ := h
  refine ⟨by simp [Pop.incAge, hl], fun j => ?_⟩
  have := hs j
  simp only [Pop.incAge, Pop.layerSize, Pop.layer, Pop.allowedAt, List.getElem?_map] at *
  cases hj : p.layers[j]? <;> simp_all

theorem layerInv_apply (k : Ctx α) (p : Pop α) (op : Op α) (h : LayerInv p) :
    LayerInv (op.apply k p) := by
  cases op with
  | initLayer l => exact layerInv_initLayer _ _ _ h
  | addLayer => exact layerInv_addLayer _ _ _ h
  | removeLayer l => exact layerInv_removeLayer _ _ h
  | addToLayer l x => exact layerInv_addToLayer _ _ _ h
  | popFromLayer l => exact layerInv_popFromLayer _ _ h
  | setAllowed l n => exact layerInv_setAllowed _ _ _ _ h
  | assign c x => exact layerInv_assign _ _ _ h
  | incAge => exact layerInv_incAge _ _ h

theorem layerInv_runOps (k : Ctx α) (ops : List (Op α)) (p : Pop α) (h : LayerInv p) :
    LayerInv (runOps k p ops) := by
  induction ops generalizing p with
  | nil => exact h
  | cons op ops ih => exact ih _ (layerInv_apply k p op h)

/-- assignment at a coordinate never changes the shape (vector of layer sizes) -/
theorem shape_assign (p : Pop α) (c : Coord) (x : α) : (p.assign c x).shape = p.shape := by
  simp only [Pop.assign, Pop.shape, Pop.layer]
  apply List.ext_getElem?
  intro j
  simp only [List.getElem?_map, List.getElem?_set]
  split
  · split
    · subst_vars
      rename_i h
      simp [List.getElem?_eq_getElem h]
    · rename_i h1 h2
      subst h1
      simp [List.getElem?_eq_none (Nat.le_of_not_lt h2)]
  · rfl

theorem size_eq_shape_sum (p : Pop α) : p.size = p.shape.sum := rfl

end lemmas

end Vita.C06
