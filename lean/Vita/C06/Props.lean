/-
  C06 — invariants of an evolutionary run: the property theorems.

  Models: Pop.lean (population book-keeping), Select.lean (ring, tournament, ALPS
  selection), Replace.lean (replacement strategies, best-so-far), Tune.lean
  (tune_parameters / is_valid), Run.lean (the loop as a transition system),
  Evo.lean (evolution::run as the interpretation of its extracted skeleton, summary::clear,
  several runs on one evolution object, the guard tables of the strategies),
  Shake.lean (evolution::run with an arbitrary shake functor: evaluator over mutable data, the shake
  branch WITH its condition), Decide.lean (the deciders the driver runs on observations of real executions).
  Gen.lean / GenEvo.lean are regenerated from the clang AST of the current sources on every run.
  Individuals are abstract (`α`), the evaluator is a function `α → F`, `F` carries a
  total preorder (`FitOrd`; C18 proves it for `fitness_t`).
-/
import Vita.C06.Decide
import Vita.C06.Shake
import Vita.C06.Tune
import Vita.C06.Gen
import Vita.C06.GenEvo
set_option linter.unusedSectionVars false

namespace Vita.C06
open FitOrd

/-! ## (1) population book-keeping -/

/-- "no layer exceeds its allowed size" (and one capacity per layer) is preserved by every
    book-keeping operation, hence by every history of operations. -/
theorem layer_inv {α : Type} (k : Ctx α) (ops : List (Op α)) (p : Pop α) (h : LayerInv p) :
    LayerInv (runOps k p ops) :=
  layerInv_runOps k ops p h

/-- a freshly constructed population satisfies the invariant -/
theorem layer_inv_create {α : Type} (e : PEnv) (mk : Nat → α) : LayerInv (Pop.create e mk) :=
  layerInv_create e mk

/-- the only population operation the standard and DE strategies perform is the assignment at a
    coordinate; any number of them leaves every layer size – hence the population size – unchanged. -/
theorem std_de_size_const {α : Type} (k : Ctx α) (asg : List (Coord × α)) (p : Pop α) :
    (runOps k p (asg.map fun a => Op.assign a.1 a.2)).shape = p.shape ∧
    (runOps k p (asg.map fun a => Op.assign a.1 a.2)).size = p.size := by
  induction asg generalizing p with
  | nil => exact ⟨rfl, rfl⟩
  | cons a rest ih =>
    have h := ih (p.assign a.1 a.2)
    simp only [List.map_cons, runOps, List.foldl_cons, Op.apply] at h ⊢
    rw [size_eq_shape_sum, size_eq_shape_sum] at *
    rw [shape_assign] at h
    exact h

example : LayerInv (runOps ⟨⟨3, 2⟩, id, (· + 1)⟩ (Pop.create ⟨3, 2⟩ id)
    [.addLayer, .setAllowed 1 1, .addToLayer 1 7, .incAge, .removeLayer 0]) :=
  layer_inv _ _ _ (layer_inv_create _ _)

/-! ## (2) ring, tournament selection, ALPS selection -/

/-- `random::ring`: for `width < n` the result lies in the mating zone
    `{(base − width/2 + k) mod n | k < width}`, otherwise anywhere in `[0, n)`; always `< n`.
    (`3·n ≤ 2^32`: the unsigned sum `base + n − width/2 + d` does not wrap.) -/
theorem ring_in_zone (base width n d : Nat) (hb : base < n) (hn : 3 * n ≤ U32)
    (hd : if width ≥ n then d < n else d < width) :
    InZone base width n (ring base width n d) ∧ ring base width n d < n := by
  have hz : InZone base width n (ring base width n d) := by
    unfold InZone ring
    split
    · rename_i h; simpa [h] using hd
    · rename_i h
      simp only [h, if_false] at hd
      refine ⟨d, hd, ?_⟩
      simp only [U32] at *
      have h1 : (base + n + 4294967296 - width / 2) % 4294967296 = base + n - width / 2 := by omega
      have h2 : (base + n - width / 2 + d) % 4294967296 = base + n - width / 2 + d := by omega
      rw [h1, h2]
  exact ⟨hz, inZone_lt (by omega) hz⟩

example : inZoneB 1 4 10 (ring 1 4 10 0) = true ∧ ring 1 4 10 0 = 9 := by decide

variable {F : Type} [FitOrd F]

/-- tournament selection returns exactly the drawn coordinates (as a multiset): with `drawn`
    all existing members, so are the selected parents. -/
theorem tournament_members (fit : Coord → F) (drawn : List Coord) :
    (tournament fit drawn).Perm drawn ∧ (tournament fit drawn).length = drawn.length :=
  ⟨tournament_perm fit drawn, (tournament_perm fit drawn).length_eq⟩

/-- all selected parents come from the layer of the target and from its mating zone,
    and are valid indices of that layer. -/
theorem tournament_same_zone (fit : Coord → F) (mz n : Nat) (target : Coord) (ds : List Nat)
    (ht : target.2 < n) (hn : 3 * n ≤ U32)
    (hd : ∀ d ∈ ds, if mz ≥ n then d < n else d < mz) :
    ∀ r ∈ tournament fit (ds.map (pickupNear mz n target)),
      r.1 = target.1 ∧ r.2 < n ∧ InZone target.2 mz n r.2 := by
  intro r hr
  have := (tournament_perm fit _).mem_iff.mp hr
  obtain ⟨d, hdm, rfl⟩ := List.mem_map.mp this
  have hz := ring_in_zone target.2 mz n d ht hn (hd d hdm)
  exact ⟨rfl, hz.2, hz.1⟩

/-- the selected parents are in non-increasing fitness order. -/
theorem tournament_sorted (fit : Coord → F) (drawn : List Coord) :
    (tournament fit drawn).Pairwise fun a b => le (fit b) (fit a) = true := by
  unfold tournament
  have h := foldl_insR_asc fit drawn [] (by simp [AscBy])
  unfold AscBy at h
  exact List.pairwise_reverse.mpr h

example : tournament (fun c : Coord => (c.2 : Int) % 3) [(0, 4), (0, 2), (0, 5), (0, 3)] =
    [(0, 2), (0, 5), (0, 4), (0, 3)] := by decide

/-- `alps<T>::pickup(l, p)` returns a coordinate of layer `l` or `l − 1`. -/
theorem alps_layer_choice (l : Nat) (same : Bool) (d : Nat) :
    (alpsPickup l same d).1 = l ∨ (alpsPickup l same d).1 + 1 = l := by
  unfold alpsPickup
  split
  · right; omega
  · left; rfl

/-- both parents returned by ALPS selection are among the picked coordinates, hence in the
    chosen layer or the one below. -/
theorem alps_select_members (key : Coord → Bool × F) (layer : Nat) (b0 b1 : Bool) (d0 d1 : Nat)
    (picks : List (Bool × Nat)) :
    let r := alpsSelect key (alpsPickup layer b0 d0) (alpsPickup layer b1 d1)
               (picks.map fun bd => alpsPickup layer bd.1 bd.2)
    (r.1.1 = layer ∨ r.1.1 + 1 = layer) ∧ (r.2.1 = layer ∨ r.2.1 + 1 = layer) := by
  intro r
  let pool := alpsPickup layer b0 d0 :: alpsPickup layer b1 d1 ::
              picks.map fun bd => alpsPickup layer bd.1 bd.2
  have hpool : ∀ c ∈ pool, c.1 = layer ∨ c.1 + 1 = layer := by
    intro c hc
    simp only [pool, List.mem_cons, List.mem_map] at hc
    rcases hc with rfl | rfl | ⟨bd, _, rfl⟩ <;> exact alps_layer_choice _ _ _
  have hmem : r.1 ∈ pool ∧ r.2 ∈ pool := by
    apply foldl_alpsStep_mem
    · split <;> simp [pool]
    · split <;> simp [pool]
    · intro t ht; simp [pool, ht]
  exact ⟨hpool _ hmem.1, hpool _ hmem.2⟩

/-! ## (3) replacement and best-so-far -/

variable {α : Type}

/-- with elitism, `replacement::tournament` and `family_competition` never lower the highest
    fitness present in the population: every member is matched or beaten by a member afterwards
    (the replaced member is strictly worse than the offspring). -/
theorem elitism_max (eval : α → F) (cands : List Coord) (off : α) (st st' : St α F)
    (h : ReplStd eval true cands off st st') : MaxDom eval st.pop st'.pop :=
  replPop_elitism_max eval cands off _ _ h.1

/-- the two model functions are instances of the step relation -/
theorem elitism_max_tournament (eval : α → F) (st : St α F) (parents : List Coord) (off : α) :
    MaxDom eval st.pop (replTournament eval true st parents off).pop := by
  cases hrep : parents.getLast? with
  | none => simp only [replTournament, hrep]; exact MaxDom.refl _ _
  | some rep =>
    cases hold : st.pop.get? rep with
    | none => simp only [replTournament, hrep, hold]; exact MaxDom.refl _ _
    | some old => exact elitism_max eval [rep] off _ _ (replTournament_rel _ _ _ _ _ rep hrep old hold)

theorem elitism_max_family (eval : α → F) (b1 b2 : Bool) (st : St α F) (p0 p1 : Coord) (off : α) :
    MaxDom eval st.pop (familyCompetition eval true b1 b2 st p0 p1 off).pop := by
  cases h0 : st.pop.get? p0 with
  | none => simp only [familyCompetition, h0]; exact MaxDom.refl _ _
  | some x0 =>
    cases h1 : st.pop.get? p1 with
    | none => simp only [familyCompetition, h0, h1]; exact MaxDom.refl _ _
    | some x1 => exact elitism_max eval [p0, p1] off _ _ (familyCompetition_rel _ _ _ _ _ _ _ _ _ _ h0 h1)

/-- the best-so-far fitness never decreases in a replacement step -/
theorem best_monotone (eval : α → F) (s : Summ α F) (off : α) :
    le s.bestFit (updBest eval s off).bestFit = true :=
  updBest_monotone eval s off

/-- it always equals the evaluator's score of the best-so-far individual -/
theorem best_is_eval (eval : α → F) (s : Summ α F) (off : α) (h : s.bestFit = eval s.best) :
    (updBest eval s off).bestFit = eval (updBest eval s off).best :=
  updBest_is_eval eval s off h

/-- the generation of last improvement never exceeds the current one -/
theorem last_imp_le_gen (eval : α → F) (s : Summ α F) (off : α) (h : s.lastImp ≤ s.gen) :
    (updBest eval s off).lastImp ≤ (updBest eval s off).gen :=
  (updBest_last_imp eval s off h).1

/-- ALPS `try_add_to_layer`: capacities untouched, no layer shrinks or exceeds its capacity,
    every individual written is the incoming one or an old member. -/
theorem alps_try_add (eval : α → F) (age : α → Nat) (allowedAge : Nat → Nat)
    (draws : List (List Nat)) (p : Pop α) (layer : Nat) (inc : α) (h : LayerInv p) :
    LayerInv (tryAdd eval age allowedAge draws p layer inc) ∧
    AlpsPop [inc] p (tryAdd eval age allowedAge draws p layer inc) := by
  refine ⟨tryAdd_layerInv _ _ _ _ _ _ _ h, ?_⟩
  have := tryAdd_alpsPop eval age allowedAge draws p layer inc [inc] (Or.inl List.mem_cons_self)
  obtain ⟨a, b, c, d⟩ := this
  refine ⟨a, b, c, fun y hy => ?_⟩
  rcases d y hy with h | h
  · left; simp at h; simp [h]
  · exact Or.inr h

example : (replTournament (fun x : Int => x) true ⟨⟨[[5, 3, 9]], [3]⟩, ⟨9, 9, 0, 2⟩⟩ [(0, 2), (0, 1)] 4).pop
    = ⟨[[5, 4, 9]], [3]⟩ := by decide
example : (replTournament (fun x : Int => x) true ⟨⟨[[5, 3, 9]], [3]⟩, ⟨9, 9, 0, 2⟩⟩ [(0, 2), (0, 1)] 3).pop
    = ⟨[[5, 3, 9]], [3]⟩ := by decide

/-! ## (4) tune_parameters and is_valid -/

section tune
variable {P : Type} [ProbOps P]

/-- after tuning every parameter the user left open has a value
    (`code_length = 1` is rejected by `is_valid` already before tuning) -/
theorem tune_defined (laws : ProbLaws P) (kind : SearchKind) (lnF cubeF : Nat → Nat)
    (hln : ∀ n, 8 < n → lnF n ≠ 0) (esLayers : Nat) (hL : esLayers ≠ 0) (term0 dsize : Nat) (u : Env P)
    (hu : u.codeLength ≠ 1) :
    Defined (tune kind lnF cubeF esLayers term0 dsize u) := by
  have hc : 2 ≤ (Env.dflt esLayers : Env P).codeLength := by simp [Env.dflt]
  cases kind
  · exact tuneBase_defined _ (dflt_defined laws _ hL) hc _ _ hu
  · exact tuneSrc_defined _ _ _ hln _ (dflt_defined laws _ hL) hc _ _ _ hu
  · exact tuneGa_defined _ (dflt_defined laws _ hL) hc _ _ hu

/-- the user's own settings are kept (apart from the strategy-imposed minimum on
    `min_individuals`: 10 for GA/DE, capped by the population size) – a user-set `dss` /
    `validation_percentage` included –, the parameters outside the tuning are untouched -/
theorem tune_keeps_user (kind : SearchKind) (lnF cubeF : Nat → Nat) (esLayers term0 dsize : Nat)
    (u : Env P) : Keeps (strategyFloor kind) u (tune kind lnF cubeF esLayers term0 dsize u) := by
  cases kind
  · exact tuneBase_keeps _ _ _
  · exact tuneSrc_keeps _ _ _ _ _ _ _
  · exact tuneGa_keeps _ _ _

/-- the two parameters read by the validation strategies (`src_search`, fix 237a8f6): an open `dss` /
    `validation_percentage` takes its default (1 / 20) exactly when the DSS / hold-out strategy is the
    one installed in the search object – so the installed strategy never reads an empty value –; a
    user-set value, or an open one with another strategy installed, is left as it is -/
theorem tune_validator_params (vs : VsKind) (lnF cubeF : Nat → Nat) (esLayers term0 dsize : Nat) (u : Env P) :
    let e := tune (.src vs) lnF cubeF esLayers term0 dsize u
    e.dss = (if u.dss.isNone ∧ vs = .dss then some 1 else u.dss) ∧
    e.validation = (if u.validation.isNone ∧ vs = .holdout then some 20 else u.validation) ∧
    (vs = .dss → e.dss.isSome = true) ∧ (vs = .holdout → e.validation.isSome = true) := by
  have h := tuneSrc_validator vs lnF cubeF (Env.dflt esLayers : Env P) term0 dsize u
  exact ⟨h.1, h.2.1, fun hv => h.2.2.1 hv rfl, fun hv => h.2.2.2 hv rfl⟩

example : (tune (.src .dss) (fun _ => 2) (fun _ => 31) 1 2 12 (Env.blank : Env Int)).dss = some 1 ∧
    (tune (.src .dss) (fun _ => 2) (fun _ => 31) 1 2 12 (Env.blank : Env Int)).validation = none ∧
    (tune (.src .holdout) (fun _ => 2) (fun _ => 31) 1 2 12 (Env.blank : Env Int)).validation = some 20 ∧
    (tune (.src .holdout) (fun _ => 2) (fun _ => 31) 1 2 12 { (Env.blank : Env Int) with validation := some 35 }).validation = some 35 ∧
    (tune (.src .asIs) (fun _ => 2) (fun _ => 31) 1 2 12 (Env.blank : Env Int)).dss = none := by decide

/-- the full clause: a consistent user environment is consistent and fully defined after tuning.
    (`individuals = 1` is excluded: no `min_individuals` is both ≥ 2 and ≤ 1, `is_valid(false)`
    nevertheless accepts the request – it cannot be completed by any tuning.) -/
def TuneValidFull (P : Type) [ProbOps P] (kind : SearchKind) : Prop :=
  ∀ (lnF cubeF : Nat → Nat) (esLayers term0 dsize : Nat) (u : Env P),
    (∀ n, 8 < n → lnF n ≠ 0) → esLayers ≠ 0 → isValid false u = true → Untuned u →
    u.individuals ≠ 1 →
    isValid true (tune kind lnF cubeF esLayers term0 dsize u) = true

/-- **proved for all three search classes** (since the fix "defaults adjusted to the user's
    settings": a default `code_length` above the user's `patch_length`, a default population not
    below the user's `min_individuals` / `tournament_size`, a default tournament within the
    population and the mating zone, a default mating zone not below the tournament) -/
theorem tune_valid_full (laws : ProbLaws P) (kind : SearchKind) : TuneValidFull P kind := by
  intro lnF cubeF esLayers term0 dsize u hln hL hv hu hpop
  cases kind
  · exact tuneBase_valid laws _ hL _ _ hv hu hpop
  · exact tuneSrc_valid laws _ _ _ hln _ hL _ _ _ hv hu hpop
  · exact tuneGa_valid laws _ hL _ _ hv hu hpop

/-- the user only fixes the population size -/
def onlyIndividuals (n : Nat) : Env Int := { (Env.blank : Env Int) with individuals := n }

/-- non-vacuity, on the requests that used to end invalid: `individuals = 4` (default tournament 5),
    `tournament_size = 30` (default mating zone 20), `min_individuals = 101` (default population 100),
    `patch_length = 100` (default code length 100); many terminals (fix a44e556) -/
example (kind : SearchKind) :
    isValid true (tune kind (fun _ => 2) (fun _ => 31) 1 2 1 (onlyIndividuals 4)) = true ∧
    (tune kind (fun _ => 2) (fun _ => 31) 1 2 1 (onlyIndividuals 4)).tournament = 4 := by
  cases kind <;> (try (rename_i vs; cases vs)) <;> decide
example (kind : SearchKind) :
    isValid true (tune kind (fun _ => 2) (fun _ => 31) 1 2 1 { (Env.blank : Env Int) with tournament := 30 }) = true ∧
    isValid true (tune kind (fun _ => 2) (fun _ => 31) 1 2 9 { (Env.blank : Env Int) with minIndividuals := 101 }) = true ∧
    isValid true (tune kind (fun _ => 2) (fun _ => 31) 1 2 1 { (Env.blank : Env Int) with patchLength := 100 }) = true := by
  cases kind <;> (try (rename_i vs; cases vs)) <;> decide
example (kind : SearchKind) :
    isValid true (tune kind (fun _ => 2) (fun _ => 31) 1 2 1 (onlyIndividuals 20)) = true := by
  cases kind <;> (try (rename_i vs; cases vs)) <;> decide
example (kind : SearchKind) :
    isValid true (tune kind (fun _ => 2) (fun _ => 31) 1 400 12 (Env.blank : Env Int)) = true := by
  cases kind <;> (try (rename_i vs; cases vs)) <;> decide
/-- the excluded request really cannot be completed -/
example (kind : SearchKind) :
    isValid false (onlyIndividuals 1) = true ∧
    isValid true (tune kind (fun _ => 2) (fun _ => 31) 1 2 1 (onlyIndividuals 1)) = false := by
  cases kind <;> (try (rename_i vs; cases vs)) <;> decide

end tune

/-- the parameters `is_valid` and the three `tune_parameters` touch in the current sources
    (Gen.lean, regenerated from the clang AST on every run) are exactly the ones the model covers,
    plus the six `stat.*` path checks it deliberately leaves out -/
theorem tune_tables_cover_source :
    Gen.forcedFields = modelForced ∧
    Gen.checkedFields = modelChecked ∧ Gen.statFields = notModelledChecked ∧
    Gen.tunedBase = modelTunedBase ∧ Gen.tunedSrc = modelTunedSrc ∧ Gen.tunedGa = modelTunedGa := by
  decide

/-! ## (5) whole runs -/

/-- the run invariant (all individuals well-formed, no layer above its capacity, layer sizes
    constant under std/DE, best fitness = evaluator(best individual), last_imp ≤ gen) holds in
    every state reachable through replacement steps and end-of-generation moves. -/
theorem gen_inv (cfg : Cfg α F) (shape0 : List Nat) (st st' : St α F)
    (hi : RunInv cfg shape0 st) (hr : Reach cfg st st') : RunInv cfg shape0 st' :=
  reach_inv cfg shape0 st st' hi hr

/-- the state `evolution::run` starts from satisfies it -/
theorem gen_inv_init (cfg : Cfg α F) (p : Pop α) (first : α) (hf : p.get? (0, 0) = some first)
    (hl : LayerInv p) (hw : ∀ x ∈ p.members, cfg.wf x = true) :
    RunInv cfg p.shape ⟨p, initSumm cfg.eval first⟩ :=
  init_inv cfg p first hf hl hw

/-- within a run the best-so-far fitness never decreases and `gen` never goes back -/
theorem run_best_monotone (cfg : Cfg α F) (st st' : St α F) (hr : Reach cfg st st') :
    le st.sum.bestFit st'.sum.bestFit = true ∧ st.sum.gen ≤ st'.sum.gen :=
  reach_best_monotone cfg st st' hr

/-- with elitism the standard and DE strategies never lower the highest fitness in the population -/
theorem run_elitism_max (cfg : Cfg α F) (hs : cfg.strat ≠ .alps) (he : cfg.elitism = true)
    (st st' : St α F) (hr : Reach cfg st st') : MaxDom cfg.eval st.pop st'.pop :=
  reach_elitism_max cfg hs he st st' hr

/-- the model loop (a fold of select;recombine;replace iterations and end-of-generation moves,
    every draw and every offspring an arbitrary input) only visits reachable states; so all of the
    above holds after every generation of every run of the model loop, under every strategy. -/
theorem model_loop_gen_inv (k : LoopCtx α F) (ok : LoopOK k) (shape0 : List Nat)
    (gens : List (List (StepIn α) × AlpsAG)) (st : St α F) (hi : RunInv k.cfg shape0 st)
    (hoff : ∀ g ∈ gens, ∀ i ∈ g.1, k.cfg.wf i.off = true) :
    RunInv k.cfg shape0 (runModel k st gens) ∧
    le st.sum.bestFit (runModel k st gens).sum.bestFit = true := by
  have hr := runModel_reach k ok shape0 gens st hi hoff
  exact ⟨gen_inv _ _ _ _ hi hr, (run_best_monotone _ _ _ hr).1⟩

/-- ALPS `after_generation` (inc_age; remove_layer*; set_allowed*; add_layer | try_move_up_layer(0);
    init_layer(0)) keeps the layer invariant and the well-formedness of all individuals. -/
theorem alps_after_generation_inv (k : Ctx α) (eval : α → F) (age : α → Nat) (allowedAge : Nat → Nat)
    (wf : α → Prop) (hm : ∀ n, wf (k.make n)) (ho : ∀ x, wf x → wf (k.older x)) (ag : AlpsAG)
    (p : Pop α) (hl : LayerInv p) (hq : p.All wf) :
    LayerInv (alpsAfterGen k eval age allowedAge ag p) ∧ (alpsAfterGen k eval age allowedAge ag p).All wf :=
  alpsAfterGen_inv k eval age allowedAge wf hm ho ag p hl hq

variable [DecidableEq α] [DecidableEq F]

/-- soundness of the run monitor: if the driver's deciders accepted the initial state and every
    observed transition of a real run, then every observed state satisfies the run invariant and
    the best-so-far fitness is non-decreasing along the observation. -/
theorem monitor_sound (cfg : Cfg α F) (shape0 : List Nat) (st : St α F) (tr : List (Event α × St α F))
    (h0 : runInvB cfg shape0 st = true) (ht : traceOKB cfg st tr = true) :
    ∀ s ∈ tr.map (·.2), RunInv cfg shape0 s ∧ le st.sum.bestFit s.sum.bestFit = true := by
  intro s hs
  have hr := traceOKB_sound cfg st tr ht s hs
  exact ⟨gen_inv _ _ _ _ (runInvB_sound _ _ _ h0) hr, (run_best_monotone _ _ _ hr).1⟩

/-- soundness of the selection deciders -/
theorem selection_deciders_sound (fit : Coord → F) (key : Coord → Bool × F) (p : Pop α)
    (mz rounds : Nat) (ret : List Coord) :
    (tournamentOKB fit p mz rounds ret = true → TournamentOK fit p mz rounds ret) ∧
    (alpsSelOKB key p ret = true → AlpsSelOK key p ret) ∧
    (membersOKB p ret = true → MembersOK p ret) :=
  ⟨tournamentOKB_sound _ _ _ _ _, alpsSelOKB_sound _ _ _, membersOKB_sound _ _⟩

/-! ## (6) what the CURRENT sources say (GenEvo.lean, regenerated from the clang AST on every run) -/

/-- is the member `f` of `summary<T>` reset by `clear()`?  (`best` may be reset member by member) -/
def clearCovers (sets : List (String × String)) (f : String) : Bool :=
  (sets.lookup f).isSome ||
  (f == "best" && (sets.lookup "best.solution").isSome &&
    ((sets.lookup "best.score").isSome || (sets.lookup "best.score.fitness").isSome))

/-- `summary<T>`: the members are the ones the model knows, the constructor starts `gen` and
    `last_imp` at 0, and `clear()` resets EVERY member – `best`, `gen := 0`, `last_imp := 0` in
    particular (the table the model's `clearSumm` / `startRun` read).  Stated on what `clear()`
    achieves, not on how it is written: `*this = summary<T>()` and a complete member-wise reset
    both satisfy it, a reset that forgets a member does not. -/
theorem summary_tables_match_source :
    GenEvo.summaryFields = Model.summaryFields ∧
    GenEvo.ctorInits.lookup "gen" = some "0" ∧ GenEvo.ctorInits.lookup "last_imp" = some "0" ∧
    clearTblOf GenEvo.clearSets GenEvo.clearNats = Model.clearTbl ∧
    GenEvo.summaryFields.all (clearCovers GenEvo.clearSets) = true :=
  ⟨by decide, by decide, by decide, by decide, by decide⟩

/-- the two ways of writing a complete `clear()` give the model's table; the seeded in-place
    variant that forgets `last_imp` does not -/
example : clearTblOf Model.clearSets Model.clearNats = Model.clearTbl := by decide
example : clearTblOf [("az", "clear()"), ("best.score", "model_measurements()"), ("best.solution", "T()"),
    ("crossovers", "0"), ("elapsed", "0"), ("gen", "0"), ("last_imp", "0"), ("mutations", "0")]
    [("crossovers", 0), ("elapsed", 0), ("gen", 0), ("last_imp", 0), ("mutations", 0)] = Model.clearTbl := by decide
example : clearTblOf [("az", "clear()"), ("best.score", "model_measurements()"), ("best.solution", "T()"),
    ("crossovers", "0"), ("elapsed", "0"), ("gen", "0"), ("mutations", "0")]
    [("crossovers", 0), ("elapsed", 0), ("gen", 0), ("mutations", 0)] ≠ Model.clearTbl := by decide

/-- the statement skeleton of `evolution<T,ES>::run` (clear; best = pop[{0,0}]; fitness = eva(best);
    es.init(); for (gen = 0; …; ++gen) { if (shake(gen)) fitness = eva(best); stats; for (k…) { select;
    recombine; replace } es.after_generation(); callback }; return stats) and its loop conditions are
    the ones the interpreters `evoRunSk` / `evoRunSkD` are proved about – the CONDITION of the shake
    branch (the bare call `shake(stats_.gen)`: `Tok.ifShake c`) and its body (`shakeBody`) included;
    `run(unsigned)` runs without shake -/
theorem run_skeleton_matches_source :
    GenEvo.skel = Model.skel ∧ GenEvo.genLoopCond = Model.genLoopCond ∧
    GenEvo.stepLoopCond = Model.stepLoopCond ∧ GenEvo.noShakeDefault = true :=
  ⟨by decide, by decide, by decide, by decide⟩

/-- the bodies of the selection / replacement strategies, of ALPS' `after_generation` and of
    `std_es::stop_condition` (every assignment, call and return with the conditions it is nested in)
    are the tables the model functions are proved to interpret (Evo.lean) -/
theorem strategy_tables_match_source :
    GenEvo.replTournamentSrc = Model.replTournamentSrc ∧ GenEvo.replFamilySrc = Model.replFamilySrc ∧
    GenEvo.replAlpsSrc = Model.replAlpsSrc ∧ GenEvo.alpsTryAddSrc = Model.alpsTryAddSrc ∧
    GenEvo.alpsMoveUpSrc = Model.alpsMoveUpSrc ∧ GenEvo.selTournament = Model.selTournament ∧
    GenEvo.selAlpsPickup = Model.selAlpsPickup ∧ GenEvo.selAlps = Model.selAlps ∧
    GenEvo.selRandom = Model.selRandom ∧ GenEvo.alpsAfterGenSrc = Model.alpsAfterGenSrc ∧
    GenEvo.stdStopSrc = Model.stdStopSrc :=
  ⟨by decide, by decide, by decide, by decide, by decide, by decide, by decide, by decide, by decide,
   by decide, by decide⟩

set_option maxRecDepth 8192 in
/-- the bodies of the three `tune_parameters` are the ones Tune.lean models (`tuneBase`, `tuneSrc`,
    `tuneGa`): same guards (`!constrained.x`), same default expressions, same order -/
theorem tune_bodies_match_source :
    GenEvo.tuneBaseSrc = Model.tuneBaseSrc ∧ GenEvo.tuneSrcSrc = Model.tuneSrcSrc ∧
    GenEvo.tuneGaSrc = Model.tuneGaSrc :=
  ⟨by decide, by decide, by decide⟩

/-- `tuneSrc` fills `dss` / `validation_percentage` exactly under the guards of the SOURCE's two
    assignments: `!constrained.dss.has_value() && typeid(*vs_) == typeid(dss)` and
    `!constrained.validation_percentage.has_value() && typeid(*vs_) == typeid(holdout_validation)`
    (`typeid(*vs_)`: the dynamic type of the installed strategy object = `vs`) -/
theorem validator_guards_from_source (vs : VsKind) (dssSet valSet : Bool) :
    decide (dssSet = false ∧ vs = .dss) =
      (guardOfSet GenEvo.tuneSrcSrc "prob().env.dss").eval
        (mixCmp ([] : List (String × Int)) [] [("typeid(*vs_)==typeid(dss)", decide (vs = .dss))])
        (assoc [("constrained.dss.has_value()", dssSet)] false) ∧
    decide (valSet = false ∧ vs = .holdout) =
      (guardOfSet GenEvo.tuneSrcSrc "prob().env.validation_percentage").eval
        (mixCmp ([] : List (String × Int)) [] [("typeid(*vs_)==typeid(holdout_validation)", decide (vs = .holdout))])
        (assoc [("constrained.validation_percentage.has_value()", valSet)] false) := by
  rw [show guardOfSet GenEvo.tuneSrcSrc "prob().env.dss" =
        .and (.not (.atom "constrained.dss.has_value()")) (.cmp .eq "typeid(*vs_)" "typeid(dss)") by decide,
      show guardOfSet GenEvo.tuneSrcSrc "prob().env.validation_percentage" =
        .and (.not (.atom "constrained.validation_percentage.has_value()"))
             (.cmp .eq "typeid(*vs_)" "typeid(holdout_validation)") by decide]
  cases vs <;> cases dssSet <;> cases valSet <;> simp [BX.eval, mixCmp, List.lookup, assoc]

omit [DecidableEq α] [DecidableEq F] in
/-- the best-so-far update of the model is the interpretation of the "new best" block of the
    source (same block in all three replacement strategies): it fires iff
    `fit_off > s->best.score.fitness` (strictly) and then sets last_imp := gen, solution, fitness -/
theorem best_update_from_source (eval : α → F) (s : Summ α F) (off : α) (elitism : Bool) :
    (GenEvo.replTournamentSrc.drop 1 = GenEvo.replFamilySrc.drop 6 ∧
     GenEvo.replTournamentSrc.drop 1 = GenEvo.replAlpsSrc.drop 3) ∧
    updBest eval s off =
      if (guardOfSet GenEvo.replTournamentSrc "s->best.score.fitness").eval
           (replVal s.bestFit (eval off) [] elitism) noAtoms
      then { s with lastImp := s.gen, best := off, bestFit := eval off } else s := by
  refine ⟨⟨by decide, by decide⟩, ?_⟩
  rw [show guardOfSet GenEvo.replTournamentSrc "s->best.score.fitness" = Model.bestGuard by decide]
  exact updBest_is_table eval s off elitism

omit [DecidableEq α] [DecidableEq F] in
/-- `replacement::tournament` / `family_competition` (elitist branch) overwrite a member exactly
    when the guard of the source's assignment `pop[…] = offspring[0]` holds -/
theorem replacement_guards_from_source (eval : α → F) (elitism : Bool) (st : St α F) :
    (∀ (parents : List Coord) (off : α) (rep : Coord) (old : α),
      parents.getLast? = some rep → st.pop.get? rep = some old →
      (replTournament eval elitism st parents off).pop =
        if (guardOfSet GenEvo.replTournamentSrc "pop_[parent.back()]").eval
             (replVal st.sum.bestFit (eval off) [("eva_(pop_[parent.back()])", eval old)] elitism) noAtoms
        then st.pop.assign rep off else st.pop) ∧
    (∀ (b1 b2 : Bool) (p0 p1 : Coord) (off x0 x1 : α), st.pop.get? p0 = some x0 → st.pop.get? p1 = some x1 →
      (familyCompetition eval true b1 b2 st p0 p1 off).pop =
        if (guardOfSet GenEvo.replFamilySrc ("pop_[parent[" ++ Model.worstIdx ++ "]]")).eval
             (replVal st.sum.bestFit (eval off)
               [(Model.fitWorst, if lt (eval x0) (eval x1) then eval x0 else eval x1)] true) noAtoms
        then st.pop.assign (if lt (eval x0) (eval x1) then p0 else p1) off else st.pop) ∧
    (∀ (ins : Bool) (off : α),
      decide (lt st.sum.bestFit (eval off) = true ∧ ins = false ∧ elitism = true) =
        (guardOfCall GenEvo.replAlpsSrc "try_add_to_layer((pop_.layers() - 1), offspring[0])").eval
          (replVal st.sum.bestFit (eval off) [] elitism) (assoc [("ins", ins)] false)) := by
  rw [strategy_tables_match_source.1, strategy_tables_match_source.2.1, strategy_tables_match_source.2.2.1]
  exact ⟨fun parents off rep old h1 h2 => replTournament_is_table eval elitism st parents off rep h1 old h2,
    fun b1 b2 p0 p1 off x0 x1 h0 h1 => familyCompetition_is_table eval b1 b2 st p0 p1 off x0 x1 h0 h1,
    fun ins off => replAlps_retry_is_table eval elitism ins st off⟩

omit [DecidableEq F] in
/-- the decisions of `try_add_to_layer` (layer not full; kill-tournament step; accept the incoming
    individual – with `>=` –; push the displaced one up) are the guards of the source -/
theorem try_add_guards_from_source (mAge ageInc ageWorst ageX size allowed layer nLayers : Nat)
    (fInc fWorst fX : F) :
    let v := tryAddVal mAge ageInc ageWorst ageX size allowed layer nLayers fInc fWorst fX
    decide (size < allowed) = (guardOfCall GenEvo.alpsTryAddSrc "pop_.add_to_layer(layer, incoming)").eval v noAtoms ∧
    decide ((ageX > ageWorst ∧ ageX > mAge) ∨ (ageWorst ≤ mAge ∧ ageX ≤ mAge ∧ lt fX fWorst = true)) =
      ((guardOfSet GenEvo.alpsTryAddSrc "c_worst").eval v (assoc [("rounds--", true)] false)) ∧
    decide ((ageInc ≤ mAge ∧ ageWorst > mAge) ∨ ((ageInc ≤ mAge ∨ ageWorst > mAge) ∧ le fWorst fInc = true)) =
      (guardOfSet GenEvo.alpsTryAddSrc "pop_[c_worst]").eval v noAtoms ∧
    (decide ((ageInc ≤ mAge ∧ ageWorst > mAge) ∨ ((ageInc ≤ mAge ∨ ageWorst > mAge) ∧ le fWorst fInc = true)) &&
      decide (layer + 1 < nLayers)) =
      (guardOfCall GenEvo.alpsTryAddSrc "try_add_to_layer((layer + 1), pop_[c_worst])").eval v noAtoms := by
  rw [strategy_tables_match_source.2.2.2.1]
  exact tryAdd_is_table mAge ageInc ageWorst ageX size allowed layer nLayers fInc fWorst fX

omit [DecidableEq F] in
/-- tournament selection shifts a prefix element iff `j && new_fitness > eva(pop[ret[j-1]])`
    (strictly), ALPS `pickup` steps one layer down iff `l > 0 && !random::boolean(p)` -/
theorem selection_guards_from_source (fit : Coord → F) (x y : Coord) (l : Nat) (same : Bool) (d : Nat) :
    lt (fit y) (fit x) =
      (guardOfSet GenEvo.selTournament "j").eval
        (mixCmp [("eva_(pop_[new_coord])", fit x), ("eva_(pop_[ret[(j - 1)]])", fit y)]
          [("i", 0), ("pop_.get_problem().env.tournament_size", 1)] [])
        (assoc [("j", true)] false) ∧
    (alpsPickup l same d).1 =
      if (guardOfSet GenEvo.selAlpsPickup "l").eval (mixCmp ([] : List (String × Int)) [("l", l), ("0", 0)] [])
           (assoc [("boolean(p)", same)] false)
      then l - 1 else l := by
  rw [strategy_tables_match_source.2.2.2.2.2.1, strategy_tables_match_source.2.2.2.2.2.2.1]
  exact ⟨insR_is_table fit x y, alpsPickup_is_table l same d⟩

/-! ## (7) several runs on one evolution object, `evolution::run` read from its skeleton -/

/-- `summary::clear()` as the current sources define it (GenEvo) -/
def srcClear : ClearTbl := clearTblOf GenEvo.clearSets GenEvo.clearNats

omit [DecidableEq α] [DecidableEq F] in
/-- **across runs**: starting from a state that satisfies the run invariant, after any sequence of
    run steps and restarts (`evolution::run` called again on the same object: `stats_.clear()` as
    the sources define it, best = pop[{0,0}], gen = 0, population carried over) the invariant
    still holds – in particular `last_imp ≤ gen` in every state of every run. -/
theorem last_imp_le_gen_runs (cfg : Cfg α F) (d : α) (df : F) (hd : cfg.wf d = true) (shape0 : List Nat)
    (st st' : St α F) (hi : RunInv cfg shape0 st) (hr : MReach cfg srcClear d df st st') :
    st'.sum.lastImp ≤ st'.sum.gen ∧ RunInv cfg shape0 st' := by
  have ok : ClearOK cfg srcClear d := ⟨by decide, hd⟩
  have := mreach_inv cfg srcClear d df ok shape0 st st' hi hr
  exact ⟨this.last_imp, this⟩

omit [DecidableEq α] [DecidableEq F] in
/-- the interpreter of the SOURCE skeleton with the SOURCE `clear()`, run any number of times on
    one object with arbitrary draws / offspring (offspring well-formed): the invariant holds after
    every run, and inside each run the best-so-far fitness never decreases from the run's start. -/
theorem source_runs_gen_inv (e : EvoCtx α F) (htbl : e.tbl = srcClear) (lok : LoopOK e.loop)
    (hd : e.loop.cfg.wf e.dflt = true) (shape0 : List Nat)
    (runs : List (List (List (StepIn α) × AlpsAG))) (st : St α F) (hi : RunInv e.loop.cfg shape0 st)
    (hoff : ∀ gens ∈ runs, ∀ g ∈ gens, ∀ i ∈ g.1, e.loop.cfg.wf i.off = true) :
    RunInv e.loop.cfg shape0 (evoRunsSk GenEvo.skel e st runs) ∧
    ∀ gens, (∀ g ∈ gens, ∀ i ∈ g.1, e.loop.cfg.wf i.off = true) →
      RunInv e.loop.cfg shape0 (evoRunSk GenEvo.skel e st gens) ∧
      le (startRun GenEvo.skel e st).sum.bestFit (evoRunSk GenEvo.skel e st gens).sum.bestFit = true := by
  have ok : ClearOK e.loop.cfg e.tbl e.dflt := ⟨by rw [htbl]; decide, hd⟩
  rw [run_skeleton_matches_source.1]
  refine ⟨mreach_inv _ _ _ _ ok shape0 _ _ hi (evoRunsSk_mreach e lok ok shape0 runs st hi hoff), ?_⟩
  intro gens hg
  have h := evoRunSk_mreach e lok ok shape0 gens st hi hg
  exact ⟨mreach_inv _ _ _ _ ok shape0 _ _ hi h.1, (run_best_monotone _ _ _ h.2).1⟩

/-- soundness of the session monitor: the driver accepted the first state and every observed
    transition (run steps, generation boundaries, restarts checked against the SOURCE `clear()`,
    data shakes – `shakeB`: nothing moved, best-so-far fitness = score of the best-so-far individual
    under the new data) ⇒ every observed state of every run satisfies the run invariant. -/
theorem monitor_sound_runs (cfg : Cfg α F) (d : α) (df : F) (hd : cfg.wf d = true) (shape0 : List Nat)
    (st : St α F) (tr : List (MEvent α × St α F)) (h0 : runInvB cfg shape0 st = true)
    (ht : mtraceOKB cfg srcClear d df st tr = true) :
    ∀ s ∈ tr.map (·.2), RunInv cfg shape0 s := by
  intro s hs
  exact (last_imp_le_gen_runs cfg d df hd shape0 st s (runInvB_sound _ _ _ h0)
    (mtraceOKB_sound cfg srcClear d df st tr ht s hs)).2

/-! ## (8) runs with a shake functor (the evaluator reads mutable data) -/

omit [DecidableEq α] [DecidableEq F] in
/-- **best-so-far fitness = evaluator's score of the best-so-far individual, across data shakes**:
    after the head of a generation of the SOURCE skeleton (shake branch with the source's condition
    and body) the stored fitness is the score under the data as they are now – for ANY outcome of
    `shake(gen)` (returned false; returned true with new, or the same, data) and at ANY generation,
    generation 0 included. -/
theorem best_is_eval_shake {D : Type} (e : DEvoCtx α F D) (st : St α F) (d : D) (g : GenIn α D)
    (h : st.sum.bestFit = e.evalD d st.sum.best) :
    (genHeadD GenEvo.skel e (st, d) g).1.sum.bestFit =
      e.evalD (genHeadD GenEvo.skel e (st, d) g).2 (genHeadD GenEvo.skel e (st, d) g).1.sum.best := by
  rw [run_skeleton_matches_source.1]
  exact head_best_is_eval e st d g h

omit [DecidableEq α] [DecidableEq F] in
/-- the interpreter of the SOURCE skeleton driven by an arbitrary shake functor (one arbitrary
    outcome per generation), arbitrary draws / offspring (offspring well-formed), any number of runs
    on one object: the run invariant w.r.t. the CURRENT data – layers within their capacities, sizes
    constant under std/DE, `bestFit = evalD (data now) best`, `last_imp ≤ gen`, everybody
    well-formed – holds after every run and at the end of every generation of a run (every list of
    generations = every prefix). -/
theorem source_runs_shake_inv {D : Type} (e : DEvoCtx α F D) (htbl : e.base.tbl = srcClear)
    (lok : LoopOK e.base.loop) (hd : e.base.loop.cfg.wf e.base.dflt = true) (shape0 : List Nat)
    (st : St α F) (d : D) (hi : RunInv (e.cfgAt d) shape0 st) :
    (∀ runs : List (List (GenIn α D)), (∀ gens ∈ runs, ∀ g ∈ gens, ∀ i ∈ g.1, e.base.loop.cfg.wf i.off = true) →
      RunInv (e.cfgAt (evoRunsSkD GenEvo.skel e (st, d) runs).2) shape0 (evoRunsSkD GenEvo.skel e (st, d) runs).1) ∧
    (∀ gens : List (GenIn α D), (∀ g ∈ gens, ∀ i ∈ g.1, e.base.loop.cfg.wf i.off = true) →
      RunInv (e.cfgAt (evoRunSkD GenEvo.skel e (st, d) gens).2) shape0 (evoRunSkD GenEvo.skel e (st, d) gens).1) := by
  have ok : ClearOK e.base.loop.cfg e.base.tbl e.base.dflt := ⟨by rw [htbl]; decide, hd⟩
  rw [run_skeleton_matches_source.1]
  exact ⟨fun runs h => evoRunsSkD_inv e lok ok shape0 runs st d hi h,
    fun gens h => evoRunSkD_inv e lok ok shape0 gens st d hi h⟩

omit [DecidableEq α] [DecidableEq F] in
/-- "absent a data shake": a generation in which the functor returns false leaves the data alone and
    does not lower the best-so-far fitness; a run in which it never fires is the shake-free
    interpreter `evoRunSk` (to which `source_runs_gen_inv` / `run_best_monotone` apply). -/
theorem shake_free_monotone {D : Type} (e : DEvoCtx α F D) (lok : LoopOK e.base.loop) (shape0 : List Nat)
    (st : St α F) (d : D) (hi : RunInv (e.cfgAt d) shape0 st) :
    (∀ g : GenIn α D, g.2.2 = none → (∀ i ∈ g.1, e.base.loop.cfg.wf i.off = true) →
      (genSkD GenEvo.skel e (st, d) g).2 = d ∧
      le st.sum.bestFit (genSkD GenEvo.skel e (st, d) g).1.sum.bestFit = true) ∧
    (∀ gens : List (GenIn α D), (∀ g ∈ gens, g.2.2 = none) →
      evoRunSkD GenEvo.skel e (st, d) gens =
        (evoRunSk GenEvo.skel (e.at d) st (gens.map fun g => (g.1, g.2.1)), d)) := by
  rw [run_skeleton_matches_source.1]
  exact ⟨fun g hn hoff => genSkD_noshake_monotone e lok shape0 st d g hn hi hoff,
    fun gens hn => evoRunSkD_noshake e st d gens hn⟩

/-- the condition of the shake branch is load-bearing: with `shake(stats_.gen) && stats_.gen` (no
    re-evaluation for a shake at generation 0) the interpreter reaches a state whose best-so-far
    fitness is NOT the score of the best-so-far individual under the current data – such a
    skeleton is not the model's, so `run_skeleton_matches_source` fails on it. -/
theorem shake_condition_matters :
    (genHeadD guardedSkel exShakeCtx (exShakeSt, 1) ([], noAG, some 2)) = (exShakeSt, 2) ∧
    exShakeSt.sum.bestFit ≠ exShakeCtx.evalD 2 exShakeSt.sum.best ∧ guardedSkel ≠ Model.skel :=
  guarded_breaks_best_eval

/-- non-vacuity: the hypotheses of `source_runs_shake_inv` hold for a concrete context; a run of two
    generations with a shake at generation 0 (data 1 → 2) and none at generation 1 -/
example : LoopOK exShakeCtx.base.loop ∧ exShakeCtx.base.tbl = srcClear ∧
    runInvB (exShakeCtx.cfgAt 1) [1] exShakeSt = true := ⟨⟨fun _ => rfl, fun _ h => h⟩, by decide, by decide⟩
example : evoRunSkD GenEvo.skel exShakeCtx (exShakeSt, 1)
    [([⟨[(0, 0)], 4, 0, false, [], []⟩], noAG, some 2), ([], noAG, none)] =
    (⟨⟨[[4]], [1]⟩, ⟨4, 8, 0, 2⟩⟩, 2) := by decide
/-! ### non-vacuity of the run-level hypotheses -/

/-- a concrete configuration, state and one-iteration model run: the invariant holds before,
    the loop hypotheses are satisfiable, the state after one generation is different and valid -/
def exCfg : Cfg Ind Int := ⟨.std, true, Ind.fit, Ind.valid⟩
def exSt : St Ind Int :=
  ⟨⟨[[⟨-5, 0, 11, true⟩, ⟨-3, 0, 12, true⟩, ⟨-9, 0, 13, true⟩]], [3]⟩, ⟨⟨-5, 0, 11, true⟩, -5, 0, 0⟩⟩
def exLoop : LoopCtx Ind Int :=
  ⟨exCfg, ⟨⟨3, 2⟩, fun n => ⟨0, 0, n, true⟩, fun x => { x with age := x.age + 1 }⟩, Ind.age, fun _ => 3⟩
def exStep : StepIn Ind := ⟨[(0, 1), (0, 2)], ⟨-1, 0, 14, true⟩, 0, false, [], []⟩

example : runInvB exCfg [3] exSt = true := by decide
example : LoopOK exLoop := ⟨fun _ => rfl, fun _ h => h⟩
example : (runModel exLoop exSt [([exStep], ⟨[], [], none, []⟩)]) =
    ⟨⟨[[⟨-5, 0, 11, true⟩, ⟨-3, 0, 12, true⟩, ⟨-1, 0, 14, true⟩]], [3]⟩, ⟨⟨-1, 0, 14, true⟩, -1, 0, 1⟩⟩ := by
  decide
example : transB exCfg (.repl [(0, 2)] ⟨-1, 0, 14, true⟩) exSt
    ⟨⟨[[⟨-5, 0, 11, true⟩, ⟨-3, 0, 12, true⟩, ⟨-1, 0, 14, true⟩]], [3]⟩, ⟨⟨-1, 0, 14, true⟩, -1, 0, 0⟩⟩ = true := by
  decide
/-- the decider rejects the overwrite of an equally fit member under elitism -/
example : transB exCfg (.repl [(0, 2)] ⟨-9, 0, 14, true⟩) exSt
    ⟨⟨[[⟨-5, 0, 11, true⟩, ⟨-3, 0, 12, true⟩, ⟨-9, 0, 14, true⟩]], [3]⟩, exSt.sum⟩ = false := by
  decide

/-- a second run on the same object: the first run ended with last_imp = 3 at gen = 7; the
    restart predicted from the source tables puts last_imp back to 0 -/
def exEvo : EvoCtx Ind Int := ⟨exLoop, srcClear, ⟨0, 0, 0, true⟩, 0⟩
def exEnd : St Ind Int := ⟨exSt.pop, ⟨⟨-3, 0, 12, true⟩, -3, 3, 7⟩⟩
example : runInvB exCfg [3] exEnd = true := by decide
example : (startRun GenEvo.skel exEvo exEnd).sum = ⟨⟨-5, 0, 11, true⟩, -5, 0, 0⟩ := by decide
example : restartB exCfg srcClear exEvo.dflt 0 exEnd (startRun GenEvo.skel exEvo exEnd) = true := by decide
example : (evoRunsSk GenEvo.skel exEvo exSt [[([exStep], ⟨[], [], none, []⟩)], [([exStep], ⟨[], [], none, []⟩)]]).sum =
    ⟨⟨-1, 0, 14, true⟩, -1, 0, 1⟩ := by decide
example : mtraceOKB exCfg srcClear exEvo.dflt 0 exEnd [(.restart, startRun GenEvo.skel exEvo exEnd)] = true := by decide
/-- a `clear()` that forgets `last_imp` is rejected by the obligation `ClearOK` -/
example : (clearTblOf [("gen", "0"), ("best", "")] [("gen", 0)]).lastImp = none := by decide

/-- the monitor's shake decider: accepts the re-observed state with the re-evaluated best, rejects a
    stale best-so-far fitness -/
example : shakeB exCfg exSt ⟨⟨[[⟨-7, 0, 11, true⟩, ⟨-2, 0, 12, true⟩, ⟨-4, 0, 13, true⟩]], [3]⟩,
    ⟨⟨-7, 0, 11, true⟩, -7, 0, 0⟩⟩ = true := by decide
example : shakeB exCfg exSt ⟨⟨[[⟨-7, 0, 11, true⟩, ⟨-2, 0, 12, true⟩, ⟨-4, 0, 13, true⟩]], [3]⟩,
    ⟨⟨-7, 0, 11, true⟩, -5, 0, 0⟩⟩ = false := by decide

end Vita.C06
