/-
  C06 (3) — replacement strategies and the best-so-far update.

  src/kernel/evolution_replacement.tcc
     tournament<T>::run            replTournament       (std_es, de_es)
     family_competition<T>::run    familyCompetition    (elitist branch + the two coin flips)
     alps<T>::try_add_to_layer     tryAdd               (kill tournament with explicit draws)
     alps<T>::run                  replAlps
     "if (fit_off > s->best.score.fitness) …"   updBest (identical in every strategy)
-/
import Vita.C06.Select
namespace Vita.C06
open FitOrd

structure Summ (α F : Type) where
  best    : α
  bestFit : F
  lastImp : Nat
  gen     : Nat
deriving Repr, DecidableEq

structure St (α F : Type) where
  pop : Pop α
  sum : Summ α F
deriving Repr, DecidableEq

section
variable {α F : Type} [FitOrd F]

/-- the block shared by every replacement strategy -/
def updBest (eval : α → F) (s : Summ α F) (off : α) : Summ α F :=
  if lt s.bestFit (eval off) then { s with best := off, bestFit := eval off, lastImp := s.gen } else s

/-- `replacement::tournament<T>::run` -/
def replTournament (eval : α → F) (elitism : Bool) (st : St α F) (parents : List Coord) (off : α) :
    St α F :=
  match parents.getLast? with
  | none => st
  | some rep =>
    match st.pop.get? rep with
    | none => st
    | some old =>
      let pop' := if elitism = false ∨ lt (eval old) (eval off) then st.pop.assign rep off else st.pop
      ⟨pop', updBest eval st.sum off⟩

/-- `replacement::family_competition<T>::run`; `b1 b2` are the outcomes of the two
    `random::boolean(replace)` calls of the non-elitist branch -/
def familyCompetition (eval : α → F) (elitism : Bool) (b1 b2 : Bool) (st : St α F) (p0 p1 : Coord)
    (off : α) : St α F :=
  match st.pop.get? p0, st.pop.get? p1 with
  | some x0, some x1 =>
    let worst := if lt (eval x0) (eval x1) then p0 else p1
    let fworst := if lt (eval x0) (eval x1) then eval x0 else eval x1
    let other := if lt (eval x0) (eval x1) then p1 else p0
    let pop' :=
      if elitism then (if lt fworst (eval off) then st.pop.assign worst off else st.pop)
      else if b1 then st.pop.assign worst off
      else if b2 then st.pop.assign other off
      else st.pop
    ⟨pop', updBest eval st.sum off⟩
  | _, _ => st

/-! ### what a std / DE replacement step may do (decidable step relation) -/

/-- the population is untouched, or `off` overwrote one of `cands`; with elitism the
    overwritten member was strictly worse than `off` -/
def ReplPop (eval : α → F) (elitism : Bool) (cands : List Coord) (off : α) (p p' : Pop α) : Prop :=
  p' = p ∨ ∃ c, c ∈ cands ∧ ∃ old, p.get? c = some old ∧ p' = p.assign c off ∧
    (elitism = true → lt (eval old) (eval off) = true)

def ReplStd (eval : α → F) (elitism : Bool) (cands : List Coord) (off : α) (st st' : St α F) : Prop :=
  ReplPop eval elitism cands off st.pop st'.pop ∧ st'.sum = updBest eval st.sum off

def replPopB [DecidableEq α] (eval : α → F) (elitism : Bool) (cands : List Coord) (off : α)
    (p p' : Pop α) : Bool :=
  decide (p' = p) || cands.any fun c =>
    match p.get? c with
    | none => false
    | some old => decide (p' = p.assign c off) && (!elitism || lt (eval old) (eval off))

theorem replPopB_sound [DecidableEq α] (eval : α → F) (elitism : Bool) (cands : List Coord) (off : α)
    (p p' : Pop α) (h : replPopB eval elitism cands off p p' = true) :
    ReplPop eval elitism cands off p p' := by
  unfold replPopB at h
  simp only [Bool.or_eq_true, decide_eq_true_eq, List.any_eq_true] at h
  rcases h with h | ⟨c, hc, h⟩
  · exact Or.inl h
  · right
    refine ⟨c, hc, ?_⟩
    cases hg : p.get? c with
    | none => simp [hg] at h
    | some old =>
      simp only [hg, Bool.and_eq_true, decide_eq_true_eq, Bool.or_eq_true, Bool.not_eq_true'] at h
      refine ⟨old, rfl, h.1, fun he => ?_⟩
      rcases h.2 with h2 | h2
      · simp [he] at h2
      · exact h2

/-! ### coordinates and members -/

theorem get?_assign (p : Pop α) (c c' : Coord) (x : α) :
    (p.assign c x).get? c' = if c' = c then (p.get? c).map (fun _ => x) else p.get? c' := by
  obtain ⟨l, i⟩ := c
  obtain ⟨l', i'⟩ := c'
  simp only [Pop.assign, Pop.get?, Pop.layer, List.getElem?_set, Prod.mk.injEq]
  by_cases hl : l = l'
  · subst hl
    by_cases hlt : l < p.layers.length
    · simp only [hlt, if_true, Option.getD_some, List.getElem?_set, true_and]
      by_cases hi : i = i'
      · subst hi
        by_cases hilt : i < (p.layers[l]?.getD []).length
        · simp [hilt]
        · simp [hilt]
      · have : ¬ i' = i := fun h => hi h.symm
        simp [hi, this]
    · simp [hlt]
  · have : ¬ l' = l := fun h => hl h.symm
    simp [hl, this]

theorem mem_members_iff (p : Pop α) (x : α) : x ∈ p.members ↔ ∃ c, p.get? c = some x := by
  simp only [Pop.members, List.mem_flatten, Pop.get?, Pop.layer]
  constructor
  · rintro ⟨ly, hly, hx⟩
    obtain ⟨l, hl⟩ := List.mem_iff_getElem?.mp hly
    obtain ⟨i, hi⟩ := List.mem_iff_getElem?.mp hx
    exact ⟨(l, i), by simp [hl, hi]⟩
  · rintro ⟨⟨l, i⟩, h⟩
    cases hl : p.layers[l]? with
    | none => simp [hl] at h
    | some ly =>
      simp only [hl, Option.getD_some] at h
      exact ⟨ly, List.mem_iff_getElem?.mpr ⟨l, hl⟩, List.mem_iff_getElem?.mpr ⟨i, h⟩⟩

/-- members after an assignment: the new one, or an old one -/
theorem mem_members_assign (p : Pop α) (c : Coord) (x y : α) (h : y ∈ (p.assign c x).members) :
    y = x ∨ y ∈ p.members := by
  obtain ⟨c', hc'⟩ := (mem_members_iff _ _).mp h
  rw [get?_assign] at hc'
  split at hc'
  · cases hg : p.get? c with
    | none => simp [hg] at hc'
    | some old => simp [hg] at hc'; exact Or.inl hc'.symm
  · exact Or.inr ((mem_members_iff _ _).mpr ⟨c', hc'⟩)

/-- an old member survives an assignment at `c` unless it sat at `c` -/
theorem mem_assign_of_mem (p : Pop α) (c : Coord) (x y old : α) (hc : p.get? c = some old)
    (h : y ∈ p.members) : y ∈ (p.assign c x).members ∨ y = old := by
  obtain ⟨c', hc'⟩ := (mem_members_iff _ _).mp h
  by_cases he : c' = c
  · subst he; right; rw [hc] at hc'; exact (Option.some.inj hc').symm
  · left
    exact (mem_members_iff _ _).mpr ⟨c', by rw [get?_assign]; simp [he, hc']⟩

theorem new_mem_assign (p : Pop α) (c : Coord) (x old : α) (hc : p.get? c = some old) :
    x ∈ (p.assign c x).members :=
  (mem_members_iff _ _).mpr ⟨c, by rw [get?_assign]; simp [hc]⟩

/-! ### the model functions satisfy the step relation -/

theorem replTournament_rel (eval : α → F) (elitism : Bool) (st : St α F) (parents : List Coord)
    (off : α) (rep : Coord) (hrep : parents.getLast? = some rep) (old : α)
    (hold : st.pop.get? rep = some old) :
    ReplStd eval elitism [rep] off st (replTournament eval elitism st parents off) := by
  unfold replTournament
  simp only [hrep, hold]
  refine ⟨?_, rfl⟩
  split
  · rename_i hc
    right
    refine ⟨rep, List.mem_singleton.mpr rfl, old, hold, rfl, fun he => ?_⟩
    rcases hc with hc | hc
    · simp [he] at hc
    · exact hc
  · exact Or.inl rfl

theorem familyCompetition_rel (eval : α → F) (elitism b1 b2 : Bool) (st : St α F) (p0 p1 : Coord)
    (off x0 x1 : α) (h0 : st.pop.get? p0 = some x0) (h1 : st.pop.get? p1 = some x1) :
    ReplStd eval elitism [p0, p1] off st (familyCompetition eval elitism b1 b2 st p0 p1 off) := by
  unfold familyCompetition
  simp only [h0, h1]
  refine ⟨?_, rfl⟩
  cases elitism with
  | true =>
    simp only [if_true]
    cases hw : lt (eval x0) (eval x1) with
    | true =>
      simp only [if_true]
      split
      · rename_i hlt
        exact Or.inr ⟨p0, by simp, x0, h0, rfl, fun _ => hlt⟩
      · exact Or.inl rfl
    | false =>
      simp only [Bool.false_eq_true, if_false]
      split
      · rename_i hlt
        exact Or.inr ⟨p1, by simp, x1, h1, rfl, fun _ => hlt⟩
      · exact Or.inl rfl
  | false =>
    simp only [Bool.false_eq_true, if_false]
    cases hw : lt (eval x0) (eval x1) with
    | true =>
      simp only [if_true]
      cases b1 with
      | true => exact Or.inr ⟨p0, by simp, x0, h0, rfl, fun h => by simp at h⟩
      | false =>
        cases b2 with
        | true => exact Or.inr ⟨p1, by simp, x1, h1, rfl, fun h => by simp at h⟩
        | false => exact Or.inl rfl
    | false =>
      simp only [Bool.false_eq_true, if_false]
      cases b1 with
      | true => exact Or.inr ⟨p1, by simp, x1, h1, rfl, fun h => by simp at h⟩
      | false =>
        cases b2 with
        | true => exact Or.inr ⟨p0, by simp, x0, h0, rfl, fun h => by simp at h⟩
        | false => exact Or.inl rfl

/-! ### consequences of the step relation -/

theorem replPop_shape (eval : α → F) (elitism : Bool) (cands : List Coord) (off : α) (p p' : Pop α)
    (h : ReplPop eval elitism cands off p p') : p'.shape = p.shape ∧ p'.allowed = p.allowed := by
  rcases h with rfl | ⟨c, _, old, _, rfl, _⟩
  · exact ⟨rfl, rfl⟩
  · exact ⟨shape_assign _ _ _, rfl⟩

theorem replPop_layerInv (eval : α → F) (elitism : Bool) (cands : List Coord) (off : α) (p p' : Pop α)
    (h : ReplPop eval elitism cands off p p') (hi : LayerInv p) : LayerInv p' := by
  rcases h with rfl | ⟨c, _, old, _, rfl, _⟩
  · exact hi
  · exact layerInv_assign _ _ _ hi

theorem replPop_members (eval : α → F) (elitism : Bool) (cands : List Coord) (off : α) (p p' : Pop α)
    (h : ReplPop eval elitism cands off p p') : ∀ y ∈ p'.members, y = off ∨ y ∈ p.members := by
  rcases h with rfl | ⟨c, _, old, _, rfl, _⟩
  · exact fun y hy => Or.inr hy
  · exact fun y hy => mem_members_assign _ _ _ _ hy

/-- with elitism every member is still matched or beaten by a member afterwards:
    the highest fitness present in the population never decreases -/
theorem replPop_elitism_max (eval : α → F) (cands : List Coord) (off : α) (p p' : Pop α)
    (h : ReplPop eval true cands off p p') :
    ∀ x ∈ p.members, ∃ y ∈ p'.members, le (eval x) (eval y) = true := by
  intro x hx
  rcases h with rfl | ⟨c, _, old, hold, rfl, hlt⟩
  · exact ⟨x, hx, le_refl _⟩
  · rcases mem_assign_of_mem p c off x old hold hx with h1 | rfl
    · exact ⟨x, h1, le_refl _⟩
    · exact ⟨off, new_mem_assign p c off _ hold, le_of_lt (hlt rfl)⟩

theorem updBest_monotone (eval : α → F) (s : Summ α F) (off : α) :
    le s.bestFit (updBest eval s off).bestFit = true := by
  unfold updBest
  split
  · rename_i h; exact le_of_lt h
  · exact le_refl _

theorem updBest_is_eval (eval : α → F) (s : Summ α F) (off : α) (h : s.bestFit = eval s.best) :
    (updBest eval s off).bestFit = eval (updBest eval s off).best := by
  unfold updBest
  split
  · rfl
  · exact h

theorem updBest_last_imp (eval : α → F) (s : Summ α F) (off : α) (h : s.lastImp ≤ s.gen) :
    (updBest eval s off).lastImp ≤ (updBest eval s off).gen ∧ (updBest eval s off).gen = s.gen := by
  unfold updBest
  split
  · exact ⟨Nat.le_refl _, rfl⟩
  · exact ⟨h, rfl⟩

theorem updBest_gen (eval : α → F) (s : Summ α F) (off : α) : (updBest eval s off).gen = s.gen := by
  unfold updBest
  split <;> rfl

theorem updBest_best (eval : α → F) (s : Summ α F) (off : α) :
    (updBest eval s off).best = off ∨ (updBest eval s off).best = s.best := by
  unfold updBest
  split
  · exact Or.inl rfl
  · exact Or.inr rfl

end

/-! ### ALPS: try_add_to_layer -/

section alps
variable {α F : Type} [FitOrd F]

/-- the kill tournament of `try_add_to_layer`: `w` is the index of the worst found so far,
    `ds` the further drawn indices; `mAge` = `allowed_age(layer)` -/
def killTournament (eval : α → F) (age : α → Nat) (mAge : Nat) (ly : List α) (w : Nat) : List Nat → Nat
  | [] => w
  | d :: ds =>
    match ly[d]?, ly[w]? with
    | some x, some cw =>
      if (age x > age cw ∧ age x > mAge) ∨
         (age cw ≤ mAge ∧ age x ≤ mAge ∧ lt (eval x) (eval cw) = true)
      then killTournament eval age mAge ly d ds
      else killTournament eval age mAge ly w ds
    | _, _ => killTournament eval age mAge ly w ds

/-- `alps<T>::try_add_to_layer(layer, incoming)`.  One list of draws per recursion level
    (head = first pick, tail = the `tournament_size` further picks). -/
def tryAdd (eval : α → F) (age : α → Nat) (allowedAge : Nat → Nat) :
    List (List Nat) → Pop α → Nat → α → Pop α
  | [], p, _, _ => p
  | ds :: rest, p, layer, inc =>
    if p.layerSize layer < p.allowedAt layer then p.addToLayer layer inc
    else
      let mAge := allowedAge layer
      let w := killTournament eval age mAge (p.layer layer) (ds.headD 0) ds.tail
      match (p.layer layer)[w]? with
      | none => p
      | some worst =>
        if (age inc ≤ mAge ∧ age worst > mAge) ∨
           ((age inc ≤ mAge ∨ age worst > mAge) ∧ le (eval worst) (eval inc) = true)
        then
          let p1 := if layer + 1 < p.nLayers then tryAdd eval age allowedAge rest p (layer + 1) worst else p
          p1.assign (layer, w) inc
        else p

/-- what an ALPS replacement / after-generation move may do: same layers and capacities,
    no layer shrinks, nobody appears from nowhere -/
def AlpsPop (news : List α) (p p' : Pop α) : Prop :=
  p'.allowed = p.allowed ∧ p'.layers.length = p.layers.length ∧
  (∀ l, p.layerSize l ≤ p'.layerSize l) ∧
  ∀ y ∈ p'.members, y ∈ news ∨ y ∈ p.members

theorem alpsPop_refl (news : List α) (p : Pop α) : AlpsPop news p p :=
  ⟨rfl, rfl, fun _ => Nat.le_refl _, fun _ hy => Or.inr hy⟩

theorem alpsPop_trans (news : List α) (p q r : Pop α) (h1 : AlpsPop news p q) (h2 : AlpsPop news q r) :
    AlpsPop news p r := by
  obtain ⟨a1, b1, c1, d1⟩ := h1
  obtain ⟨a2, b2, c2, d2⟩ := h2
  refine ⟨a2.trans a1, b2.trans b1, fun l => Nat.le_trans (c1 l) (c2 l), fun y hy => ?_⟩
  rcases d2 y hy with h | h
  · exact Or.inl h
  · exact d1 y h

theorem layerSize_assign (p : Pop α) (c : Coord) (x : α) (l : Nat) :
    (p.assign c x).layerSize l = p.layerSize l := by
  have := congrArg (fun s => (s[l]?).getD 0) (shape_assign p c x)
  simp only [Pop.shape, List.getElem?_map] at this
  simp only [Pop.layerSize, Pop.layer]
  cases h1 : (p.assign c x).layers[l]? <;> cases h2 : p.layers[l]? <;> simp_all

theorem alpsPop_assign (p : Pop α) (c : Coord) (x : α) (news : List α) (hx : x ∈ news) :
    AlpsPop news p (p.assign c x) := by
  refine ⟨rfl, by simp [Pop.assign], fun l => Nat.le_of_eq (layerSize_assign p c x l).symm, fun y hy => ?_⟩
  rcases mem_members_assign p c x y hy with rfl | h
  · exact Or.inl hx
  · exact Or.inr h

theorem alpsPop_addToLayer (p : Pop α) (l : Nat) (x : α) (news : List α) (hx : x ∈ news) :
    AlpsPop news p (p.addToLayer l x) := by
  unfold Pop.addToLayer
  split
  · refine ⟨rfl, by simp, fun j => ?_, fun y hy => ?_⟩
    · simp only [Pop.layerSize, Pop.layer, List.getElem?_set]
      split
      · split
        · subst_vars; simp
        · rename_i h1 h2
          subst h1
          simp [List.getElem?_eq_none (Nat.le_of_not_lt h2)]
      · exact Nat.le_refl _
    · simp only [Pop.members, List.mem_flatten] at hy ⊢
      obtain ⟨ly, hly, hy⟩ := hy
      rcases List.mem_or_eq_of_mem_set hly with h | rfl
      · exact Or.inr ⟨ly, h, hy⟩
      · rcases List.mem_append.mp hy with h | h
        · right
          simp only [Pop.layer] at h
          cases hl : p.layers[l]? with
          | none => simp [hl] at h
          | some ly0 =>
            simp only [hl, Option.getD_some] at h
            exact ⟨ly0, List.mem_iff_getElem?.mpr ⟨l, hl⟩, h⟩
        · left; simp at h; subst h; exact hx
  · exact alpsPop_refl _ _

/-- every individual `try_add_to_layer` writes is the incoming one or an old member
    (a displaced individual moving up) -/
theorem tryAdd_alpsPop (eval : α → F) (age : α → Nat) (allowedAge : Nat → Nat) (draws : List (List Nat))
    (p : Pop α) (layer : Nat) (inc : α) (news : List α) (hinc : inc ∈ news ∨ inc ∈ p.members) :
    AlpsPop (inc :: news) p (tryAdd eval age allowedAge draws p layer inc) := by
  induction draws generalizing p layer inc with
  | nil => exact alpsPop_refl _ _
  | cons ds rest ih =>
    simp only [tryAdd]
    split
    · exact alpsPop_addToLayer p layer inc _ List.mem_cons_self
    · split
      · exact alpsPop_refl _ _
      · rename_i worst hw
        split
        · have hworst : worst ∈ p.members :=
            (mem_members_iff _ _).mpr ⟨(layer, _), by simpa [Pop.get?] using hw⟩
          have h1 : AlpsPop (inc :: news) p
              (if layer + 1 < p.nLayers then tryAdd eval age allowedAge rest p (layer + 1) worst else p) := by
            split
            · have := ih p (layer + 1) worst (Or.inr hworst)
              obtain ⟨a, b, c, d⟩ := this
              refine ⟨a, b, c, fun y hy => ?_⟩
              rcases d y hy with h | h
              · rcases List.mem_cons.mp h with rfl | h
                · exact Or.inr hworst
                · exact Or.inl (List.mem_cons_of_mem _ h)
              · exact Or.inr h
            · exact alpsPop_refl _ _
          exact alpsPop_trans _ _ _ _ h1 (alpsPop_assign _ _ _ _ List.mem_cons_self)
        · exact alpsPop_refl _ _

theorem tryAdd_layerInv (eval : α → F) (age : α → Nat) (allowedAge : Nat → Nat) (draws : List (List Nat))
    (p : Pop α) (layer : Nat) (inc : α) (h : LayerInv p) :
    LayerInv (tryAdd eval age allowedAge draws p layer inc) := by
  induction draws generalizing p layer inc with
  | nil => exact h
  | cons ds rest ih =>
    simp only [tryAdd]
    split
    · exact layerInv_addToLayer _ _ _ h
    · split
      · exact h
      · split
        · apply layerInv_assign
          split
          · exact ih _ _ _ h
          · exact h
        · exact h

/-- `alps<T>::run`: insertion into `max(parent[0].layer, parent[1].layer)`; when the offspring is a
    new best, was not inserted and elitism is on, a second attempt in the last layer.
    `ins` mirrors the return value of the first `try_add_to_layer` (it only steers the retry). -/
def replAlps (eval : α → F) (age : α → Nat) (allowedAge : Nat → Nat) (elitism ins : Bool)
    (draws1 draws2 : List (List Nat)) (st : St α F) (layer : Nat) (off : α) : St α F :=
  let p1 := tryAdd eval age allowedAge draws1 st.pop layer off
  let p2 := if lt st.sum.bestFit (eval off) ∧ ins = false ∧ elitism = true
            then tryAdd eval age allowedAge draws2 p1 (p1.nLayers - 1) off else p1
  ⟨p2, updBest eval st.sum off⟩

def ReplAlps (eval : α → F) (off : α) (st st' : St α F) : Prop :=
  AlpsPop [off] st.pop st'.pop ∧ (LayerInv st.pop → LayerInv st'.pop) ∧ st'.sum = updBest eval st.sum off

theorem replAlps_rel (eval : α → F) (age : α → Nat) (allowedAge : Nat → Nat) (elitism ins : Bool)
    (draws1 draws2 : List (List Nat)) (st : St α F) (layer : Nat) (off : α) :
    ReplAlps eval off st (replAlps eval age allowedAge elitism ins draws1 draws2 st layer off) := by
  unfold replAlps
  refine ⟨?_, ?_, rfl⟩
  · have h1 := tryAdd_alpsPop eval age allowedAge draws1 st.pop layer off [off] (Or.inl List.mem_cons_self)
    have fix : ∀ p q : Pop α, AlpsPop [off, off] p q → AlpsPop [off] p q := by
      intro p q ⟨a, b, c, d⟩
      refine ⟨a, b, c, fun y hy => ?_⟩
      rcases d y hy with h | h
      · left; simp at h; simp [h]
      · exact Or.inr h
    simp only
    split
    · have h2 := tryAdd_alpsPop eval age allowedAge draws2
        (tryAdd eval age allowedAge draws1 st.pop layer off)
        ((tryAdd eval age allowedAge draws1 st.pop layer off).nLayers - 1) off [off] (Or.inl List.mem_cons_self)
      exact alpsPop_trans _ _ _ _ (fix _ _ h1) (fix _ _ h2)
    · exact fix _ _ h1
  · intro h
    simp only
    split
    · exact tryAdd_layerInv _ _ _ _ _ _ _ (tryAdd_layerInv _ _ _ _ _ _ _ h)
    · exact tryAdd_layerInv _ _ _ _ _ _ _ h

end alps

end Vita.C06
