/-
  C06 (5) — whole runs: the loop of `evolution<T,ES>::run` as a transition system.

  A run is a sequence of states `St` (population + summary) linked by
    * replacement steps (`ReplStd` for std_es / de_es, `ReplAlps` for ALPS), one per
      `selection.run(); recombination.run(); replacement.run()` iteration, and
    * end-of-generation moves (`es_.after_generation()` then `++stats_.gen`).
  `Trans` is the union of these step relations; the monitor of the real loop decides
  `Trans` for every observed pair of consecutive states (Decide.lean), the theorems below
  show that every `Trans`-chain keeps `RunInv`, never lowers the best-so-far fitness and,
  with elitism under std/DE, never lowers the highest fitness in the population.
  The model loop (`runModel`) is a fold of the model step functions and is such a chain.
-/
import Vita.C06.Replace
namespace Vita.C06
open FitOrd

inductive Strat | std | de | alps
deriving Repr, DecidableEq

structure Cfg (α F : Type) where
  strat   : Strat
  elitism : Bool
  eval    : α → F
  wf      : α → Bool          -- `T::is_valid()` (C02 proves the operators preserve it)

section
variable {α F : Type} [FitOrd F]

/-- the invariant of a run (`shape0` = the layer sizes at the start of the run) -/
structure RunInv (cfg : Cfg α F) (shape0 : List Nat) (st : St α F) : Prop where
  wf_all     : ∀ x ∈ st.pop.members, cfg.wf x = true
  layers     : LayerInv st.pop
  size_const : cfg.strat ≠ .alps → st.pop.shape = shape0
  best_eval  : st.sum.bestFit = cfg.eval st.sum.best
  best_wf    : cfg.wf st.sum.best = true
  last_imp   : st.sum.lastImp ≤ st.sum.gen

def nextGen (s : Summ α F) : Summ α F := { s with gen := s.gen + 1 }

inductive Trans (cfg : Cfg α F) : St α F → St α F → Prop
  | replStd (st st' : St α F) (cands : List Coord) (off : α) :
      cfg.strat ≠ .alps → cfg.wf off = true →
      ReplStd cfg.eval cfg.elitism cands off st st' → Trans cfg st st'
  | replAlps (st st' : St α F) (off : α) :
      cfg.strat = .alps → cfg.wf off = true → ReplAlps cfg.eval off st st' → Trans cfg st st'
  | afterGenStd (st st' : St α F) :
      cfg.strat ≠ .alps → st'.pop = st.pop → st'.sum = nextGen st.sum → Trans cfg st st'
  | afterGenAlps (st st' : St α F) :
      cfg.strat = .alps → LayerInv st'.pop → (∀ x ∈ st'.pop.members, cfg.wf x = true) →
      st'.sum = nextGen st.sum → Trans cfg st st'

inductive Reach (cfg : Cfg α F) : St α F → St α F → Prop
  | refl (st : St α F) : Reach cfg st st
  | step (a b c : St α F) : Reach cfg a b → Trans cfg b c → Reach cfg a c

theorem Reach.trans {cfg : Cfg α F} {a b c : St α F} (h1 : Reach cfg a b) (h2 : Reach cfg b c) :
    Reach cfg a c := by
  induction h2 with
  | refl => exact h1
  | step b' c' _ ht ih => exact Reach.step _ _ _ ih ht

/-! ### one transition keeps the invariant -/

theorem updBest_inv (cfg : Cfg α F) (s : Summ α F) (off : α) (hwf : cfg.wf off = true)
    (h1 : s.bestFit = cfg.eval s.best) (h2 : cfg.wf s.best = true) (h3 : s.lastImp ≤ s.gen) :
    (updBest cfg.eval s off).bestFit = cfg.eval (updBest cfg.eval s off).best ∧
    cfg.wf (updBest cfg.eval s off).best = true ∧
    (updBest cfg.eval s off).lastImp ≤ (updBest cfg.eval s off).gen := by
  refine ⟨updBest_is_eval _ _ _ h1, ?_, (updBest_last_imp _ _ _ h3).1⟩
  rcases updBest_best cfg.eval s off with h | h <;> rw [h] <;> assumption

theorem trans_inv (cfg : Cfg α F) (shape0 : List Nat) (st st' : St α F)
    (hi : RunInv cfg shape0 st) (ht : Trans cfg st st') : RunInv cfg shape0 st' := by
  obtain ⟨w, l, sc, be, bw, li⟩ := hi
  cases ht with
  | replStd cands off hs hwf hr =>
    obtain ⟨hp, hsum⟩ := hr
    have hu := updBest_inv cfg st.sum off hwf be bw li
    rw [← hsum] at hu
    refine ⟨fun x hx => ?_, replPop_layerInv _ _ _ _ _ _ hp l, fun h => ?_, hu.1, hu.2.1, hu.2.2⟩
    · rcases replPop_members _ _ _ _ _ _ hp x hx with rfl | h
      · exact hwf
      · exact w x h
    · rw [(replPop_shape _ _ _ _ _ _ hp).1]; exact sc h
  | replAlps off hs hwf hr =>
    obtain ⟨hp, hl, hsum⟩ := hr
    have hu := updBest_inv cfg st.sum off hwf be bw li
    rw [← hsum] at hu
    refine ⟨fun x hx => ?_, hl l, fun h => absurd hs h, hu.1, hu.2.1, hu.2.2⟩
    rcases hp.2.2.2 x hx with h | h
    · simp at h; subst h; exact hwf
    · exact w x h
  | afterGenStd hs hp hsum =>
    refine ⟨by rw [hp]; exact w, by rw [hp]; exact l, fun h => by rw [hp]; exact sc h, ?_, ?_, ?_⟩
    · rw [hsum]; exact be
    · rw [hsum]; exact bw
    · rw [hsum]; simp only [nextGen]; omega
  | afterGenAlps hs hl hw hsum =>
    refine ⟨hw, hl, fun h => absurd hs h, ?_, ?_, ?_⟩
    · rw [hsum]; exact be
    · rw [hsum]; exact bw
    · rw [hsum]; simp only [nextGen]; omega

theorem trans_best_monotone (cfg : Cfg α F) (st st' : St α F) (ht : Trans cfg st st') :
    le st.sum.bestFit st'.sum.bestFit = true ∧ st.sum.gen ≤ st'.sum.gen := by
  cases ht with
  | replStd cands off _ _ hr =>
    rw [hr.2]; exact ⟨updBest_monotone _ _ _, Nat.le_of_eq (updBest_gen _ _ _).symm⟩
  | replAlps off _ _ hr =>
    rw [hr.2.2]; exact ⟨updBest_monotone _ _ _, Nat.le_of_eq (updBest_gen _ _ _).symm⟩
  | afterGenStd _ _ hsum => rw [hsum]; exact ⟨le_refl _, Nat.le_succ _⟩
  | afterGenAlps _ _ _ hsum => rw [hsum]; exact ⟨le_refl _, Nat.le_succ _⟩

/-- every member of `p` is matched or beaten by a member of `p'` -/
def MaxDom (eval : α → F) (p p' : Pop α) : Prop :=
  ∀ x ∈ p.members, ∃ y ∈ p'.members, le (eval x) (eval y) = true

theorem MaxDom.refl (eval : α → F) (p : Pop α) : MaxDom eval p p := fun x hx => ⟨x, hx, le_refl _⟩

theorem MaxDom.trans {eval : α → F} {p q r : Pop α} (h1 : MaxDom eval p q) (h2 : MaxDom eval q r) :
    MaxDom eval p r := by
  intro x hx
  obtain ⟨y, hy, hxy⟩ := h1 x hx
  obtain ⟨z, hz, hyz⟩ := h2 y hy
  exact ⟨z, hz, le_trans _ _ _ hxy hyz⟩

theorem trans_elitism_max (cfg : Cfg α F) (hs : cfg.strat ≠ .alps) (he : cfg.elitism = true)
    (st st' : St α F) (ht : Trans cfg st st') : MaxDom cfg.eval st.pop st'.pop := by
  cases ht with
  | replStd cands off _ _ hr =>
    have := hr.1; rw [he] at this
    exact replPop_elitism_max _ _ _ _ _ this
  | replAlps off h _ _ => exact absurd h hs
  | afterGenStd _ hp _ => rw [hp]; exact MaxDom.refl _ _
  | afterGenAlps h _ _ _ => exact absurd h hs

/-! ### every reachable state -/

theorem reach_inv (cfg : Cfg α F) (shape0 : List Nat) (st st' : St α F)
    (hi : RunInv cfg shape0 st) (hr : Reach cfg st st') : RunInv cfg shape0 st' := by
  induction hr with
  | refl => exact hi
  | step b c _ ht ih => exact trans_inv cfg shape0 b c ih ht

theorem reach_best_monotone (cfg : Cfg α F) (st st' : St α F) (hr : Reach cfg st st') :
    le st.sum.bestFit st'.sum.bestFit = true ∧ st.sum.gen ≤ st'.sum.gen := by
  induction hr with
  | refl => exact ⟨le_refl _, Nat.le_refl _⟩
  | step b c _ ht ih =>
    have := trans_best_monotone cfg b c ht
    exact ⟨le_trans _ _ _ ih.1 this.1, Nat.le_trans ih.2 this.2⟩

theorem reach_elitism_max (cfg : Cfg α F) (hs : cfg.strat ≠ .alps) (he : cfg.elitism = true)
    (st st' : St α F) (hr : Reach cfg st st') : MaxDom cfg.eval st.pop st'.pop := by
  induction hr with
  | refl => exact MaxDom.refl _ _
  | step b c _ ht ih => exact ih.trans (trans_elitism_max cfg hs he b c ht)

/-- `evolution::run` before the first generation: `stats_.clear(); best = pop[{0,0}]` -/
def initSumm (eval : α → F) (first : α) : Summ α F := ⟨first, eval first, 0, 0⟩

omit [FitOrd F] in
theorem init_inv (cfg : Cfg α F) (p : Pop α) (first : α) (hf : p.get? (0, 0) = some first)
    (hl : LayerInv p) (hw : ∀ x ∈ p.members, cfg.wf x = true) :
    RunInv cfg p.shape ⟨p, initSumm cfg.eval first⟩ :=
  ⟨hw, hl, fun _ => rfl, rfl, hw first ((mem_members_iff _ _).mpr ⟨_, hf⟩), Nat.le_refl _⟩

end

/-! ### ALPS `after_generation` as a sequence of book-keeping moves -/

section alpsAfterGen
variable {α F : Type} [FitOrd F]

/-- every individual of the population satisfies `Q` -/
def Pop.All (Q : α → Prop) (p : Pop α) : Prop := ∀ x ∈ p.members, Q x

theorem all_of_subset (Q : α → Prop) (p p' : Pop α) (h : ∀ x ∈ p'.members, x ∈ p.members)
    (hp : p.All Q) : p'.All Q := fun x hx => hp x (h x hx)

theorem members_removeLayer (p : Pop α) (l : Nat) : ∀ x ∈ (p.removeLayer l).members, x ∈ p.members := by
  intro x hx
  simp only [Pop.members, Pop.removeLayer, List.mem_flatten] at *
  obtain ⟨ly, hly, hx⟩ := hx
  exact ⟨ly, List.mem_of_mem_eraseIdx hly, hx⟩

theorem members_setAllowed (e : PEnv) (p : Pop α) (l n : Nat) :
    ∀ x ∈ (p.setAllowed e l n).members, x ∈ p.members := by
  intro x hx
  unfold Pop.setAllowed at hx
  split at hx
  · simp only [Pop.members, List.mem_flatten] at *
    obtain ⟨ly, hly, hx⟩ := hx
    rcases List.mem_or_eq_of_mem_set hly with h | rfl
    · exact ⟨ly, h, hx⟩
    · have hx' := List.mem_of_mem_take hx
      simp only [Pop.layer] at hx'
      cases hl : p.layers[l]? with
      | none => simp [hl] at hx'
      | some ly0 =>
        simp only [hl, Option.getD_some] at hx'
        exact ⟨ly0, List.mem_iff_getElem?.mpr ⟨l, hl⟩, hx'⟩
  · exact hx

theorem all_fresh (Q : α → Prop) (mk : Nat → α) (hm : ∀ k, Q (mk k)) (n : Nat) :
    ∀ x ∈ Pop.fresh mk n, Q x := by
  intro x hx
  simp only [Pop.fresh, List.mem_map] at hx
  obtain ⟨k, _, rfl⟩ := hx
  exact hm k

theorem all_addLayer (Q : α → Prop) (e : PEnv) (mk : Nat → α) (hm : ∀ k, Q (mk k)) (p : Pop α)
    (hp : p.All Q) : (p.addLayer e mk).All Q := by
  intro x hx
  simp only [Pop.members, Pop.addLayer, List.flatten_cons, List.mem_append] at hx
  rcases hx with h | h
  · exact all_fresh Q mk hm _ x h
  · exact hp x h

theorem all_initLayer (Q : α → Prop) (mk : Nat → α) (hm : ∀ k, Q (mk k)) (p : Pop α) (l : Nat)
    (hp : p.All Q) : (p.initLayer mk l).All Q := by
  intro x hx
  simp only [Pop.members, Pop.initLayer, List.mem_flatten] at hx
  obtain ⟨ly, hly, hx⟩ := hx
  rcases List.mem_or_eq_of_mem_set hly with h | rfl
  · exact hp x (by simp only [Pop.members, List.mem_flatten]; exact ⟨ly, h, hx⟩)
  · exact all_fresh Q mk hm _ x hx

theorem all_incAge (Q : α → Prop) (older : α → α) (ho : ∀ x, Q x → Q (older x)) (p : Pop α)
    (hp : p.All Q) : (p.incAge older).All Q := by
  intro x hx
  simp only [Pop.members, Pop.incAge, List.mem_flatten, List.mem_map] at hx
  obtain ⟨ly, ⟨ly0, hly0, rfl⟩, hx⟩ := hx
  simp only [List.mem_map] at hx
  obtain ⟨y, hy, rfl⟩ := hx
  exact ho y (hp y (by simp only [Pop.members, List.mem_flatten]; exact ⟨ly0, hly0, hy⟩))

theorem all_alpsPop (Q : α → Prop) (news : List α) (p p' : Pop α) (h : AlpsPop news p p')
    (hn : ∀ x ∈ news, Q x) (hp : p.All Q) : p'.All Q := by
  intro x hx
  rcases h.2.2.2 x hx with h1 | h1
  · exact hn x h1
  · exact hp x h1

/-- `alps<T>::try_move_up_layer(0)`: one `try_add_to_layer(1, pop[{0,i}])` per individual of layer 0 -/
def tryMoveUp (eval : α → F) (age : α → Nat) (allowedAge : Nat → Nat) :
    List (List (List Nat)) → Nat → Pop α → Pop α
  | [], _, p => p
  | ds :: rest, i, p =>
    if 1 < p.nLayers then
      match p.get? (0, i) with
      | none => p
      | some x => tryMoveUp eval age allowedAge rest (i + 1) (tryAdd eval age allowedAge ds p 1 x)
    else p

theorem tryMoveUp_inv (eval : α → F) (age : α → Nat) (allowedAge : Nat → Nat) (Q : α → Prop)
    (draws : List (List (List Nat))) (i : Nat) (p : Pop α) (hl : LayerInv p) (hq : p.All Q) :
    LayerInv (tryMoveUp eval age allowedAge draws i p) ∧ (tryMoveUp eval age allowedAge draws i p).All Q := by
  induction draws generalizing i p with
  | nil => exact ⟨hl, hq⟩
  | cons ds rest ih =>
    simp only [tryMoveUp]
    split
    · split
      · exact ⟨hl, hq⟩
      · rename_i x hx
        have hxm : x ∈ p.members := (mem_members_iff _ _).mpr ⟨_, hx⟩
        apply ih
        · exact tryAdd_layerInv _ _ _ _ _ _ _ hl
        · exact all_alpsPop Q _ _ _ (tryAdd_alpsPop eval age allowedAge ds p 1 x [] (Or.inr hxm))
            (fun y hy => by simp at hy; rw [hy]; exact hq x hxm) hq
    · exact ⟨hl, hq⟩

/-- the decisions `basic_alps_es::after_generation` takes from the statistics -/
structure AlpsAG where
  remove : List Nat                       -- layers removed (almost equal mean fitness)
  resize : List (Nat × Nat)               -- the `set_allowed(l, n)` calls
  grow   : Option Bool                    -- `none`: not an age-gap generation; `some true`: add_layer
  draws  : List (List (List Nat))         -- kill-tournament draws of `try_move_up_layer(0)`

def alpsAfterGen (k : Ctx α) (eval : α → F) (age : α → Nat) (allowedAge : Nat → Nat) (ag : AlpsAG)
    (p : Pop α) : Pop α :=
  let p1 := p.incAge k.older
  let p2 := ag.remove.foldl Pop.removeLayer p1
  let p3 := ag.resize.foldl (fun q ln => q.setAllowed k.env ln.1 ln.2) p2
  match ag.grow with
  | none => p3
  | some true => p3.addLayer k.env k.make
  | some false => (tryMoveUp eval age allowedAge ag.draws 0 p3).initLayer k.make 0

theorem alpsAfterGen_inv (k : Ctx α) (eval : α → F) (age : α → Nat) (allowedAge : Nat → Nat)
    (Q : α → Prop) (hm : ∀ n, Q (k.make n)) (ho : ∀ x, Q x → Q (k.older x)) (ag : AlpsAG) (p : Pop α)
    (hl : LayerInv p) (hq : p.All Q) :
    LayerInv (alpsAfterGen k eval age allowedAge ag p) ∧ (alpsAfterGen k eval age allowedAge ag p).All Q := by
  unfold alpsAfterGen
  have h1 : LayerInv (p.incAge k.older) ∧ (p.incAge k.older).All Q :=
    ⟨layerInv_incAge _ _ hl, all_incAge Q _ ho _ hq⟩
  have h2 : ∀ (rs : List Nat) (q : Pop α), LayerInv q ∧ q.All Q →
      LayerInv (rs.foldl Pop.removeLayer q) ∧ (rs.foldl Pop.removeLayer q).All Q := by
    intro rs
    induction rs with
    | nil => exact fun q h => h
    | cons r rs ih =>
      exact fun q h => ih _ ⟨layerInv_removeLayer _ _ h.1, all_of_subset Q _ _ (members_removeLayer q r) h.2⟩
  have h3 : ∀ (rs : List (Nat × Nat)) (q : Pop α), LayerInv q ∧ q.All Q →
      LayerInv (rs.foldl (fun q ln => q.setAllowed k.env ln.1 ln.2) q) ∧
      (rs.foldl (fun q ln => q.setAllowed k.env ln.1 ln.2) q).All Q := by
    intro rs
    induction rs with
    | nil => exact fun q h => h
    | cons r rs ih =>
      exact fun q h => ih _ ⟨layerInv_setAllowed _ _ _ _ h.1,
        all_of_subset Q _ _ (members_setAllowed k.env q r.1 r.2) h.2⟩
  have h4 := h3 ag.resize _ (h2 ag.remove _ h1)
  simp only
  split
  · exact h4
  · exact ⟨layerInv_addLayer _ _ _ h4.1, all_addLayer Q _ _ hm _ h4.2⟩
  · have h5 := tryMoveUp_inv eval age allowedAge Q ag.draws 0 _ h4.1 h4.2
    exact ⟨layerInv_initLayer _ _ _ h5.1, all_initLayer Q _ hm _ _ h5.2⟩

end alpsAfterGen

/-! ### the model loop -/

section loop
variable {α F : Type} [FitOrd F]

/-- everything the loop draws or computes outside the model in one iteration -/
structure StepIn (α : Type) where
  parents : List Coord          -- `selection.run()`
  off     : α                   -- `recombination.run(parents)[0]`
  layer   : Nat                 -- ALPS: max(parent[0].layer, parent[1].layer)
  ins     : Bool                -- ALPS: outcome of the first try_add_to_layer
  draws1  : List (List Nat)
  draws2  : List (List Nat)

structure LoopCtx (α F : Type) where
  cfg        : Cfg α F
  ctx        : Ctx α
  age        : α → Nat
  allowedAge : Nat → Nat

def stepFn (k : LoopCtx α F) (st : St α F) (i : StepIn α) : St α F :=
  match k.cfg.strat with
  | .alps => replAlps k.cfg.eval k.age k.allowedAge k.cfg.elitism i.ins i.draws1 i.draws2 st i.layer i.off
  | _ => replTournament k.cfg.eval k.cfg.elitism st i.parents i.off

def afterGenFn (k : LoopCtx α F) (ag : AlpsAG) (st : St α F) : St α F :=
  match k.cfg.strat with
  | .alps => ⟨alpsAfterGen k.ctx k.cfg.eval k.age k.allowedAge ag st.pop, nextGen st.sum⟩
  | _ => ⟨st.pop, nextGen st.sum⟩

def generation (k : LoopCtx α F) (st : St α F) (g : List (StepIn α) × AlpsAG) : St α F :=
  afterGenFn k g.2 (g.1.foldl (stepFn k) st)

def runModel (k : LoopCtx α F) (st : St α F) (gens : List (List (StepIn α) × AlpsAG)) : St α F :=
  gens.foldl (generation k) st

/-- hypotheses on the parts of the loop that are outside this model -/
structure LoopOK (k : LoopCtx α F) : Prop where
  make_wf  : ∀ n, k.cfg.wf (k.ctx.make n) = true
  older_wf : ∀ x, k.cfg.wf x = true → k.cfg.wf (k.ctx.older x) = true

theorem stepFn_reach (k : LoopCtx α F) (st : St α F) (i : StepIn α) (hoff : k.cfg.wf i.off = true) :
    Reach k.cfg st (stepFn k st i) := by
  unfold stepFn
  have std : k.cfg.strat ≠ .alps →
      Reach k.cfg st (replTournament k.cfg.eval k.cfg.elitism st i.parents i.off) := by
    intro hs
    cases hrep : i.parents.getLast? with
    | none => simp only [replTournament, hrep]; exact Reach.refl _
    | some rep =>
      cases hold : st.pop.get? rep with
      | none => simp only [replTournament, hrep, hold]; exact Reach.refl _
      | some old =>
        exact Reach.step _ _ _ (Reach.refl _)
          (Trans.replStd _ _ [rep] i.off hs hoff (replTournament_rel _ _ _ _ _ rep hrep old hold))
  cases hs : k.cfg.strat with
  | alps =>
    exact Reach.step _ _ _ (Reach.refl _) (Trans.replAlps _ _ i.off hs hoff (replAlps_rel _ _ _ _ _ _ _ _ _ _))
  | std => exact std (by simp [hs])
  | de => exact std (by simp [hs])

theorem afterGenFn_reach (k : LoopCtx α F) (ok : LoopOK k) (shape0 : List Nat) (ag : AlpsAG)
    (st : St α F) (hi : RunInv k.cfg shape0 st) : Reach k.cfg st (afterGenFn k ag st) := by
  unfold afterGenFn
  cases hs : k.cfg.strat with
  | alps =>
    have := alpsAfterGen_inv k.ctx k.cfg.eval k.age k.allowedAge (fun x => k.cfg.wf x = true)
      ok.make_wf ok.older_wf ag st.pop hi.layers hi.wf_all
    exact Reach.step _ _ _ (Reach.refl _) (Trans.afterGenAlps _ _ hs this.1 this.2 rfl)
  | std => exact Reach.step _ _ _ (Reach.refl _) (Trans.afterGenStd _ _ (by simp [hs]) rfl rfl)
  | de => exact Reach.step _ _ _ (Reach.refl _) (Trans.afterGenStd _ _ (by simp [hs]) rfl rfl)

theorem steps_reach (k : LoopCtx α F) (ins : List (StepIn α)) (st : St α F)
    (hoff : ∀ i ∈ ins, k.cfg.wf i.off = true) : Reach k.cfg st (ins.foldl (stepFn k) st) := by
  induction ins generalizing st with
  | nil => exact Reach.refl _
  | cons i is ih =>
    exact (stepFn_reach k st i (hoff i List.mem_cons_self)).trans
      (ih _ (fun j hj => hoff j (List.mem_cons_of_mem _ hj)))

theorem generation_reach (k : LoopCtx α F) (ok : LoopOK k) (shape0 : List Nat) (st : St α F)
    (g : List (StepIn α) × AlpsAG) (hi : RunInv k.cfg shape0 st)
    (hoff : ∀ i ∈ g.1, k.cfg.wf i.off = true) : Reach k.cfg st (generation k st g) := by
  have h1 := steps_reach k g.1 st hoff
  exact h1.trans (afterGenFn_reach k ok shape0 g.2 _ (reach_inv _ _ _ _ hi h1))

theorem runModel_reach (k : LoopCtx α F) (ok : LoopOK k) (shape0 : List Nat)
    (gens : List (List (StepIn α) × AlpsAG)) (st : St α F) (hi : RunInv k.cfg shape0 st)
    (hoff : ∀ g ∈ gens, ∀ i ∈ g.1, k.cfg.wf i.off = true) : Reach k.cfg st (runModel k st gens) := by
  induction gens generalizing st with
  | nil => exact Reach.refl _
  | cons g gs ih =>
    have h1 := generation_reach k ok shape0 st g hi (hoff g List.mem_cons_self)
    exact h1.trans (ih _ (reach_inv _ _ _ _ hi h1) (fun g' hg' => hoff g' (List.mem_cons_of_mem _ hg')))

end loop

end Vita.C06
