/-
  C06 (2) — `random::ring`, `pickup(pop, target)`, tournament selection, ALPS selection.

  Every PRNG draw is an explicit argument (the order of draws is irrelevant to the
  theorems, so a re-ordering of draws in the code does not break the tie).

  src/kernel/random.cc            ring
  src/kernel/population.tcc       pickup(p, target)
  src/kernel/evolution_selection.tcc   tournament<T>::run, alps<T>::pickup, alps<T>::run
-/
import Vita.C06.Pop
namespace Vita.C06

/-! ### fitness: any carrier with a total preorder (C18 proves it for `fitness_t`) -/

class FitOrd (F : Type) where
  le : F → F → Bool
  le_total : ∀ a b, le a b = true ∨ le b a = true
  le_trans : ∀ a b c, le a b = true → le b c = true → le a c = true

namespace FitOrd
variable {F : Type} [FitOrd F]
/-- `a < b` (C++ `a < b`, `b > a`) -/
def lt (a b : F) : Bool := !le b a
theorem le_refl (a : F) : le a a = true := by cases le_total a a <;> assumption
theorem le_of_lt {a b : F} (h : lt a b = true) : le a b = true := by
  unfold lt at h
  cases le_total a b with
  | inl h1 => exact h1
  | inr h1 => simp [h1] at h
theorem le_of_not_lt {a b : F} (h : lt a b = false) : le b a = true := by
  unfold lt at h; simpa using h
theorem lt_of_lt_of_le {a b c : F} (h1 : lt a b = true) (h2 : le b c = true) : lt a c = true := by
  unfold lt at *
  cases h : le c a with
  | false => rfl
  | true => have := le_trans b c a h2 h; simp [this] at h1
theorem lt_of_le_of_lt {a b c : F} (h1 : le a b = true) (h2 : lt b c = true) : lt a c = true := by
  unfold lt at *
  cases h : le c a with
  | false => rfl
  | true => have := le_trans c a b h h1; simp [this] at h2
theorem lt_irrefl (a : F) : lt a a = false := by simp [lt, le_refl]
end FitOrd

instance : FitOrd Int where
  le a b := decide (a ≤ b)
  le_total a b := by simp; omega
  le_trans a b c := by simp; omega

/-! ### random::ring -/

def U32 : Nat := 4294967296

/-- `random::ring(base, width, n)`; `d` is the value drawn by `random::between(0u, width)`
    (`width < n`) or `random::between(0u, n)` (`width ≥ n`).  Unsigned arithmetic wraps. -/
def ring (base width n d : Nat) : Nat :=
  if width ≥ n then d
  else (((base + n + U32 - width / 2) % U32 + d) % U32) % n

/-- the mating zone of `base`: `{(base − width/2 + k) mod n | k < width}`, the whole ring if `width ≥ n` -/
def InZone (base width n x : Nat) : Prop :=
  if width ≥ n then x < n else ∃ k, k < width ∧ x = (base + n - width / 2 + k) % n

def inZoneB (base width n x : Nat) : Bool :=
  if width ≥ n then decide (x < n)
  else (List.range width).any fun k => x == (base + n - width / 2 + k) % n

theorem inZoneB_iff (base width n x : Nat) : inZoneB base width n x = true ↔ InZone base width n x := by
  unfold inZoneB InZone
  split
  · simp
  · simp [List.any_eq_true]

theorem inZone_lt {base width n x : Nat} (hn : 0 < n) (h : InZone base width n x) : x < n := by
  unfold InZone at h
  split at h
  · exact h
  · obtain ⟨k, _, rfl⟩ := h; exact Nat.mod_lt _ hn

/-- `pickup(p, target)` -/
def pickupNear (mateZone : Nat) (n : Nat) (target : Coord) (d : Nat) : Coord :=
  (target.1, ring target.2 mateZone n d)

/-! ### tournament selection: insertion sort on the fitness of the drawn coordinates -/

section tournament
variable {F : Type} [FitOrd F]
open FitOrd

/-- one pass of the inner loop of `tournament<T>::run` on `ret[0..i)` kept *reversed*
    (head = `ret[i-1]`): elements strictly worse than the newcomer are shifted right. -/
def insR (fit : Coord → F) (x : Coord) : List Coord → List Coord
  | [] => [x]
  | y :: ys => if lt (fit y) (fit x) then y :: insR fit x ys else x :: y :: ys

/-- `tournament<T>::run` given the drawn coordinates (in drawing order) -/
def tournament (fit : Coord → F) (drawn : List Coord) : List Coord :=
  (drawn.foldl (fun acc c => insR fit c acc) []).reverse

theorem insR_perm (fit : Coord → F) (x : Coord) (l : List Coord) : (insR fit x l).Perm (x :: l) := by
  induction l with
  | nil => exact List.Perm.refl _
  | cons y ys ih =>
    simp only [insR]
    split
    · exact (List.Perm.cons y ih).trans (List.Perm.swap x y ys)
    · exact List.Perm.refl _

/-- ascending (worst first) -/
def AscBy (fit : Coord → F) (l : List Coord) : Prop := l.Pairwise fun a b => le (fit a) (fit b) = true

theorem insR_asc (fit : Coord → F) (x : Coord) (l : List Coord) (h : AscBy fit l) :
    AscBy fit (insR fit x l) := by
  induction l with
  | nil => simp [insR, AscBy]
  | cons y ys ih =>
    unfold AscBy at *
    rw [List.pairwise_cons] at h
    simp only [insR]
    split
    · rename_i hlt
      rw [List.pairwise_cons]
      refine ⟨fun z hz => ?_, ih h.2⟩
      have := (insR_perm fit x ys).mem_iff.mp hz
      rcases List.mem_cons.mp this with rfl | hz'
      · exact le_of_lt hlt
      · exact h.1 z hz'
    · rename_i hnlt
      have hxy : le (fit x) (fit y) = true := le_of_not_lt (by simpa using hnlt)
      rw [List.pairwise_cons]
      refine ⟨fun z hz => ?_, List.pairwise_cons.mpr h⟩
      rcases List.mem_cons.mp hz with rfl | hz'
      · exact hxy
      · exact le_trans _ _ _ hxy (h.1 z hz')

theorem foldl_insR_perm (fit : Coord → F) (drawn acc : List Coord) :
    (drawn.foldl (fun acc c => insR fit c acc) acc).Perm (drawn.reverse ++ acc) := by
  induction drawn generalizing acc with
  | nil => simp
  | cons c cs ih =>
    simp only [List.foldl_cons, List.reverse_cons, List.append_assoc, List.singleton_append]
    exact (ih _).trans (List.Perm.append_left _ (insR_perm fit c acc))

theorem foldl_insR_asc (fit : Coord → F) (drawn acc : List Coord) (h : AscBy fit acc) :
    AscBy fit (drawn.foldl (fun acc c => insR fit c acc) acc) := by
  induction drawn generalizing acc with
  | nil => exact h
  | cons c cs ih => exact ih _ (insR_asc fit c acc h)

theorem tournament_perm (fit : Coord → F) (drawn : List Coord) : (tournament fit drawn).Perm drawn := by
  unfold tournament
  have := foldl_insR_perm fit drawn []
  simp only [List.append_nil] at this
  exact (List.reverse_perm _).trans (this.trans (List.reverse_perm _))

end tournament

/-! ### ALPS selection -/

/-- `alps<T>::pickup(l, p)`: `same` is the outcome of `random::boolean(p)`, `d` the drawn index -/
def alpsPickup (l : Nat) (same : Bool) (d : Nat) : Coord :=
  (if 0 < l ∧ same = false then l - 1 else l, d)

section alps
variable {F : Type} [FitOrd F]
open FitOrd

/-- `operator<` of `std::pair<bool, fitness_t>` (`first` = "not aged") -/
def afLt (a b : Bool × F) : Bool := (!a.1 && b.1) || (a.1 == b.1 && lt a.2 b.2)

def alpsStep (key : Coord → Bool × F) (s : Coord × Coord) (t : Coord) : Coord × Coord :=
  if afLt (key s.1) (key t) then (t, s.1)
  else if afLt (key s.2) (key t) then (s.1, t)
  else s

/-- `alps<T>::run`: `c0 c1` are the first two picks, `picks` the `tournament_size` further ones -/
def alpsSelect (key : Coord → Bool × F) (c0 c1 : Coord) (picks : List Coord) : Coord × Coord :=
  picks.foldl (alpsStep key) (if afLt (key c0) (key c1) then (c1, c0) else (c0, c1))

theorem alpsStep_mem (key : Coord → Bool × F) (s : Coord × Coord) (t : Coord) (pool : List Coord)
    (h1 : s.1 ∈ pool) (h2 : s.2 ∈ pool) (ht : t ∈ pool) :
    (alpsStep key s t).1 ∈ pool ∧ (alpsStep key s t).2 ∈ pool := by
  unfold alpsStep
  split
  · exact ⟨ht, h1⟩
  · split
    · exact ⟨h1, ht⟩
    · exact ⟨h1, h2⟩

theorem foldl_alpsStep_mem (key : Coord → Bool × F) (picks : List Coord) (s : Coord × Coord)
    (pool : List Coord) (h1 : s.1 ∈ pool) (h2 : s.2 ∈ pool) (hp : ∀ t ∈ picks, t ∈ pool) :
    (picks.foldl (alpsStep key) s).1 ∈ pool ∧ (picks.foldl (alpsStep key) s).2 ∈ pool := by
  induction picks generalizing s with
  | nil => exact ⟨h1, h2⟩
  | cons t ts ih =>
    have := alpsStep_mem key s t pool h1 h2 (hp t (List.mem_cons_self))
    exact ih _ this.1 this.2 (fun u hu => hp u (List.mem_cons_of_mem _ hu))

end alps

end Vita.C06
