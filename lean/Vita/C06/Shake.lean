/-
  C06 (6b) — `evolution<T,ES>::run(run_count, shake)` with an ARBITRARY shake functor.

  The evaluator reads mutable data (`evalD : D → α → F`, `D` = whatever the training data is);
  `shake(gen)` is called at the head of every generation, may replace the data and says whether it
  did.  The shake branch of the extracted skeleton is `Tok.ifShake c` (+ `Skel.shakeBody`): the
  CONDITION `c` is part of the skeleton and is interpreted here (`BX.evalT`: C++ short-circuit
  evaluation that also tells whether the call `shake(stats_.gen)` was reached, because the call is
  what changes the data).

  * `execTokD` / `genSkD` / `evoRunSkD`: the interpreter of the skeleton, state = (population,
    summary, current data); one `Option D` per generation = what the functor did (`some d'`: it
    returned true and the data are now `d'` – possibly the same –, `none`: it returned false and
    left the data alone.  A functor that changes the data and returns false breaks the contract
    documented in evolution.tcc / validation_strategy.h and is outside the property).
  * for the model's skeleton (condition = the bare call, body = re-evaluation of the best-so-far
    individual): after the head of EVERY generation – generation 0 included –, whatever the functor
    did, `bestFit = evalD (data now) best` (`head_model`, `head_best_is_eval`), and the whole run
    invariant holds w.r.t. the current data after every generation of every run (`evoRunSkD_inv`).
  * without a firing shake the interpreter is `evoRunSk` (`evoRunSkD_noshake`): the theorems about
    runs without shake (monotone best-so-far fitness in particular) are the special case.
  * `guardedSkel`: the skeleton with the condition `shake(stats_.gen) && stats_.gen` (no
    re-evaluation for a shake at generation 0) – `guarded_breaks_best_eval`: the invariant fails.
-/
import Vita.C06.Evo
namespace Vita.C06
open FitOrd

/-! ### short-circuit evaluation of a condition, tracing one call -/

/-- `(value, was the atom `t` evaluated?)` under C++'s left-to-right short-circuit rules -/
def BX.evalT (cv : Cmp → String → String → Bool) (bv : String → Bool) (t : String) : BX → Bool × Bool
  | .cmp op a b => (cv op a b, false)
  | .atom s => (bv s, s == t)
  | .not x => (!(x.evalT cv bv t).1, (x.evalT cv bv t).2)
  | .and x y =>
    if (x.evalT cv bv t).1 then ((y.evalT cv bv t).1, (x.evalT cv bv t).2 || (y.evalT cv bv t).2)
    else (false, (x.evalT cv bv t).2)
  | .or x y =>
    if (x.evalT cv bv t).1 then (true, (x.evalT cv bv t).2)
    else ((y.evalT cv bv t).1, (x.evalT cv bv t).2 || (y.evalT cv bv t).2)

theorem BX.evalT_fst (cv : Cmp → String → String → Bool) (bv : String → Bool) (t : String) (c : BX) :
    (c.evalT cv bv t).1 = c.eval cv bv := by
  induction c with
  | cmp op a b => rfl
  | atom s => rfl
  | not x ih => simp [BX.evalT, BX.eval, ih]
  | and x y ihx ihy => simp only [BX.evalT, BX.eval]; split <;> simp_all
  | or x y ihx ihy => simp only [BX.evalT, BX.eval]; split <;> simp_all

/-- the call in the condition of the shake branch (canonical text) -/
def shakeCall : String := "shake(stats_.gen)"

/-- atoms of the shake condition: the call itself (= what the functor returned), `stats_.gen` used
    as a truth value -/
def shakeBv (fired : Bool) (gen : Nat) (s : String) : Bool :=
  if s == shakeCall then fired else if s == "stats_.gen" then gen != 0 else false

/-- comparisons in the shake condition: `stats_.gen` against literals -/
def shakeCv (gen : Nat) (op : Cmp) (a b : String) : Bool :=
  natCmp op (if a == "stats_.gen" then gen else a.toNat?.getD 0) (if b == "stats_.gen" then gen else b.toNat?.getD 0)

section shake
variable {α F D : Type} [FitOrd F]

/-- a run whose evaluator reads the data `D`; `base.loop.cfg.eval` is not used -/
structure DEvoCtx (α F D : Type) where
  base  : EvoCtx α F
  evalD : D → α → F

/-- the context as it is while the data are `d` -/
def DEvoCtx.at (e : DEvoCtx α F D) (d : D) : EvoCtx α F :=
  { e.base with loop := { e.base.loop with cfg := { e.base.loop.cfg with eval := e.evalD d } } }

/-- the configuration (strategy, elitism, well-formedness) with the evaluator of the data `d` -/
def DEvoCtx.cfgAt (e : DEvoCtx α F D) (d : D) : Cfg α F := (e.at d).loop.cfg

/-- meaning of one skeleton token; `sh` = what `shake(gen)` does in this generation.
    `ifShake c`: the condition is evaluated left to right; the data change iff the call is reached
    (and the functor changed them); the body runs iff the condition holds. -/
def execTokD (sk : Skel) (e : DEvoCtx α F D) (ag : AlpsAG) (sh : Option D) (s : St α F × D) : Tok → St α F × D
  | .ifShake c =>
    let r := c.evalT (shakeCv s.1.sum.gen) (shakeBv sh.isSome s.1.sum.gen) shakeCall
    let d' := if r.2 then sh.getD s.2 else s.2
    (if r.1 then execToks (e.at d') ag s.1 sk.shakeBody else s.1, d')
  | t => (execTok (e.at s.2) ag s.1 t, s.2)

def execToksD (sk : Skel) (e : DEvoCtx α F D) (ag : AlpsAG) (sh : Option D) (s : St α F × D) (ts : List Tok) :
    St α F × D :=
  ts.foldl (execTokD sk e ag sh) s

/-- what one generation draws / computes outside the model: the iterations of the selection loop,
    the decisions of ALPS' `after_generation`, what `shake(gen)` did -/
abbrev GenIn (α D : Type) := List (StepIn α) × AlpsAG × Option D

def startRunD (sk : Skel) (e : DEvoCtx α F D) (s : St α F × D) : St α F × D :=
  execToksD sk e noAG none s (sk.prologue ++ sk.loopInit)

/-- the state after the head of a generation (shake branch, statistics) -/
def genHeadD (sk : Skel) (e : DEvoCtx α F D) (s : St α F × D) (g : GenIn α D) : St α F × D :=
  execToksD sk e g.2.1 g.2.2 s sk.genHead

def genSkD (sk : Skel) (e : DEvoCtx α F D) (s : St α F × D) (g : GenIn α D) : St α F × D :=
  let h := genHeadD sk e s g
  let b : St α F × D := (g.1.foldl (stepSk sk (e.at h.2)) h.1, h.2)
  execToksD sk e g.2.1 g.2.2 (execToksD sk e g.2.1 g.2.2 b sk.genTail) sk.loopIncr

/-- `evolution<T,ES>::run(run_count, shake)` read from its skeleton -/
def evoRunSkD (sk : Skel) (e : DEvoCtx α F D) (s : St α F × D) (gens : List (GenIn α D)) : St α F × D :=
  gens.foldl (genSkD sk e) (startRunD sk e s)

/-- several consecutive runs on one evolution object (the data carry over as well) -/
def evoRunsSkD (sk : Skel) (e : DEvoCtx α F D) (s : St α F × D) (runs : List (List (GenIn α D))) : St α F × D :=
  runs.foldl (evoRunSkD sk e) s

/-- the shake branch of the source: the data are replaced, the best-so-far individual is evaluated again -/
def shaken (e : DEvoCtx α F D) (st : St α F) (d' : D) : St α F :=
  ⟨st.pop, { st.sum with bestFit := e.evalD d' st.sum.best }⟩

/-! ### the model's skeleton -/

theorem shakeBv_call (fired : Bool) (gen : Nat) : shakeBv fired gen "shake(stats_.gen)" = fired := by
  simp [shakeBv, shakeCall]

theorem shakeCall_beq : ("shake(stats_.gen)" == shakeCall) = true := by decide

/-- head of a generation: whatever the functor does, at whatever generation -/
theorem head_model (e : DEvoCtx α F D) (st : St α F) (d : D) (g : GenIn α D) :
    genHeadD Model.skel e (st, d) g =
      match g.2.2 with
      | some d' => (shaken e st d', d')
      | none => (st, d) := by
  obtain ⟨ins, ag, sh⟩ := g
  cases sh with
  | none =>
    simp [genHeadD, execToksD, execTokD, Model.skel, BX.evalT, shakeBv_call, shakeCall_beq, execTok]
  | some d' =>
    simp [genHeadD, execToksD, execTokD, Model.skel, BX.evalT, shakeBv_call, shakeCall_beq, execTok, execToks,
      shaken, DEvoCtx.at]

/-- **after the head of every generation the best-so-far fitness is the evaluator's score of the
    best-so-far individual under the data as they are now** – for any shake outcome, generation 0
    included (no hypothesis on `st.sum.gen`) -/
theorem head_best_is_eval (e : DEvoCtx α F D) (st : St α F) (d : D) (g : GenIn α D)
    (h : st.sum.bestFit = e.evalD d st.sum.best) :
    (genHeadD Model.skel e (st, d) g).1.sum.bestFit =
      e.evalD (genHeadD Model.skel e (st, d) g).2 (genHeadD Model.skel e (st, d) g).1.sum.best := by
  rw [head_model]
  cases g.2.2 with
  | none => exact h
  | some d' => rfl

omit [FitOrd F] in
theorem shaken_inv (e : DEvoCtx α F D) (shape0 : List Nat) (st : St α F) (d d' : D)
    (hi : RunInv (e.cfgAt d) shape0 st) : RunInv (e.cfgAt d') shape0 (shaken e st d') :=
  ⟨hi.wf_all, hi.layers, hi.size_const, rfl, hi.best_wf, hi.last_imp⟩

omit [FitOrd F] in
theorem loopOK_at (e : DEvoCtx α F D) (d : D) (lok : LoopOK e.base.loop) : LoopOK (e.at d).loop :=
  ⟨lok.make_wf, lok.older_wf⟩

omit [FitOrd F] in
theorem clearOK_at (e : DEvoCtx α F D) (d : D) (ok : ClearOK e.base.loop.cfg e.base.tbl e.base.dflt) :
    ClearOK (e.at d).loop.cfg (e.at d).tbl (e.at d).dflt :=
  ⟨ok.lastImp0, ok.dflt_wf⟩

theorem genSkD_model (e : DEvoCtx α F D) (st : St α F) (d : D) (g : GenIn α D) :
    genSkD Model.skel e (st, d) g =
      (generation (e.at (genHeadD Model.skel e (st, d) g).2).loop (genHeadD Model.skel e (st, d) g).1 (g.1, g.2.1),
       (genHeadD Model.skel e (st, d) g).2) := by
  have hs : ∀ d', stepSk Model.skel (e.at d') = stepFn (e.at d').loop := by
    intro d'; funext s i; simp [stepSk, Model.skel]
  simp only [genSkD, hs, generation, afterGenFn]
  generalize genHeadD Model.skel e (st, d) g = h
  cases hst : e.base.loop.cfg.strat <;>
    simp [Model.skel, execToksD, execTokD, execTok, DEvoCtx.at, hst]

theorem startRunD_model (e : DEvoCtx α F D) (st : St α F) (d : D) :
    startRunD Model.skel e (st, d) = (startRun Model.skel (e.at d) st, d) := by
  simp [startRunD, startRun, Model.skel, execToksD, execTokD, execToks]

/-- one generation keeps the run invariant w.r.t. the data as they are at its end -/
theorem genSkD_inv (e : DEvoCtx α F D) (lok : LoopOK e.base.loop) (shape0 : List Nat) (st : St α F) (d : D)
    (g : GenIn α D) (hi : RunInv (e.cfgAt d) shape0 st) (hoff : ∀ i ∈ g.1, e.base.loop.cfg.wf i.off = true) :
    RunInv (e.cfgAt (genSkD Model.skel e (st, d) g).2) shape0 (genSkD Model.skel e (st, d) g).1 := by
  rw [genSkD_model]
  have hh : RunInv (e.cfgAt (genHeadD Model.skel e (st, d) g).2) shape0 (genHeadD Model.skel e (st, d) g).1 := by
    rw [head_model]
    cases g.2.2 with
    | none => exact hi
    | some d' => exact shaken_inv e shape0 st d d' hi
  exact reach_inv _ _ _ _ hh
    (generation_reach (e.at _).loop (loopOK_at e _ lok) shape0 _ (g.1, g.2.1) hh hoff)

/-- a whole run with an arbitrary shake functor: the run invariant – `bestFit = evalD (data now) best`
    in particular – holds at the end of every generation (the statement is for every list of
    generations, hence for every prefix of a run) -/
theorem evoRunSkD_inv (e : DEvoCtx α F D) (lok : LoopOK e.base.loop)
    (ok : ClearOK e.base.loop.cfg e.base.tbl e.base.dflt) (shape0 : List Nat)
    (gens : List (GenIn α D)) (st : St α F) (d : D) (hi : RunInv (e.cfgAt d) shape0 st)
    (hoff : ∀ g ∈ gens, ∀ i ∈ g.1, e.base.loop.cfg.wf i.off = true) :
    RunInv (e.cfgAt (evoRunSkD Model.skel e (st, d) gens).2) shape0 (evoRunSkD Model.skel e (st, d) gens).1 := by
  unfold evoRunSkD
  rw [startRunD_model]
  have h0 : RunInv (e.cfgAt d) shape0 (startRun Model.skel (e.at d) st) := by
    rw [startRun_model]
    exact restart_inv (e.at d).loop.cfg _ _ _ (clearOK_at e d ok) shape0 st _ hi rfl rfl
  generalize startRun Model.skel (e.at d) st = s0 at h0
  clear hi
  induction gens generalizing s0 d with
  | nil => exact h0
  | cons g gs ih =>
    simp only [List.foldl_cons]
    have h1 := genSkD_inv e lok shape0 s0 d g h0 (hoff g List.mem_cons_self)
    generalize hg : genSkD Model.skel e (s0, d) g = s1 at h1
    obtain ⟨s1, d1⟩ := s1
    exact ih d1 (fun g' hg' => hoff g' (List.mem_cons_of_mem _ hg')) s1 h1

theorem evoRunsSkD_inv (e : DEvoCtx α F D) (lok : LoopOK e.base.loop)
    (ok : ClearOK e.base.loop.cfg e.base.tbl e.base.dflt) (shape0 : List Nat)
    (runs : List (List (GenIn α D))) (st : St α F) (d : D) (hi : RunInv (e.cfgAt d) shape0 st)
    (hoff : ∀ gens ∈ runs, ∀ g ∈ gens, ∀ i ∈ g.1, e.base.loop.cfg.wf i.off = true) :
    RunInv (e.cfgAt (evoRunsSkD Model.skel e (st, d) runs).2) shape0 (evoRunsSkD Model.skel e (st, d) runs).1 := by
  unfold evoRunsSkD
  induction runs generalizing st d with
  | nil => exact hi
  | cons gens rest ih =>
    simp only [List.foldl_cons]
    have h1 := evoRunSkD_inv e lok ok shape0 gens st d hi (hoff gens List.mem_cons_self)
    generalize evoRunSkD Model.skel e (st, d) gens = s1 at h1
    obtain ⟨s1, d1⟩ := s1
    exact ih s1 d1 h1 (fun g' hg' => hoff g' (List.mem_cons_of_mem _ hg'))

/-- a generation in which the functor returns false is a generation of the shake-free interpreter:
    data unchanged, best-so-far fitness not lowered -/
theorem genSkD_noshake (e : DEvoCtx α F D) (st : St α F) (d : D) (g : GenIn α D) (hn : g.2.2 = none) :
    genSkD Model.skel e (st, d) g = (genSk Model.skel (e.at d) st (g.1, g.2.1), d) := by
  rw [genSkD_model, head_model, hn, genSk_model]

theorem evoRunSkD_noshake (e : DEvoCtx α F D) (st : St α F) (d : D) (gens : List (GenIn α D))
    (hn : ∀ g ∈ gens, g.2.2 = none) :
    evoRunSkD Model.skel e (st, d) gens =
      (evoRunSk Model.skel (e.at d) st (gens.map fun g => (g.1, g.2.1)), d) := by
  unfold evoRunSkD evoRunSk
  rw [startRunD_model]
  generalize startRun Model.skel (e.at d) st = s0
  induction gens generalizing s0 with
  | nil => rfl
  | cons g gs ih =>
    simp only [List.foldl_cons, List.map_cons]
    rw [genSkD_noshake e s0 d g (hn g List.mem_cons_self)]
    exact ih (fun g' hg' => hn g' (List.mem_cons_of_mem _ hg')) _

/-- "absent a data shake the best-so-far fitness never decreases": generation by generation -/
theorem genSkD_noshake_monotone (e : DEvoCtx α F D) (lok : LoopOK e.base.loop) (shape0 : List Nat)
    (st : St α F) (d : D) (g : GenIn α D) (hn : g.2.2 = none) (hi : RunInv (e.cfgAt d) shape0 st)
    (hoff : ∀ i ∈ g.1, e.base.loop.cfg.wf i.off = true) :
    (genSkD Model.skel e (st, d) g).2 = d ∧
    le st.sum.bestFit (genSkD Model.skel e (st, d) g).1.sum.bestFit = true := by
  rw [genSkD_noshake e st d g hn, genSk_model]
  exact ⟨rfl, (reach_best_monotone _ _ _
    (generation_reach (e.at d).loop (loopOK_at e d lok) shape0 st (g.1, g.2.1) hi hoff)).1⟩

end shake

/-! ### the condition matters: `shake(stats_.gen) && stats_.gen` -/

/-- the model's skeleton with the shake branch guarded by `&& stats_.gen` (the re-evaluation is
    skipped for a shake at generation 0 "because the best individual has just been evaluated") -/
def guardedSkel : Skel :=
  { Model.skel with genHead := [.ifShake (.and (.atom "shake(stats_.gen)") (.atom "stats_.gen")), .azStats] }

/-- scores = value × data; one individual `3`; the data go from 1 to 2 at the head of generation 0 -/
def exShakeCtx : DEvoCtx Int Int Int :=
  ⟨⟨⟨⟨.std, true, fun x => x, fun _ => true⟩, ⟨⟨1, 1⟩, fun _ => 0, fun x => x⟩, fun _ => 0, fun _ => 0⟩,
     Model.clearTbl, 0, 0⟩, fun d x => x * d⟩
def exShakeSt : St Int Int := ⟨⟨[[3]], [1]⟩, ⟨3, 3, 0, 0⟩⟩

/-- with the source's condition the invariant survives the shake at generation 0 … -/
theorem model_head_gen0 :
    (genHeadD Model.skel exShakeCtx (exShakeSt, 1) ([], noAG, some 2)).1.sum = ⟨3, 6, 0, 0⟩ := by decide

/-- … with the guarded condition the data are shaken (the call is still made) but the best-so-far
    fitness keeps the score under the OLD data: `bestFit = 3 ≠ 6 = evalD 2 best` -/
theorem guarded_breaks_best_eval :
    (genHeadD guardedSkel exShakeCtx (exShakeSt, 1) ([], noAG, some 2)) = (exShakeSt, 2) ∧
    exShakeSt.sum.bestFit ≠ exShakeCtx.evalD 2 exShakeSt.sum.best ∧
    guardedSkel ≠ Model.skel := by decide

end Vita.C06
