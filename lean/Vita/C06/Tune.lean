/-
  C06 (4) — `tune_parameters` of the three search classes and `environment::is_valid`
  as decision tables.

  src/kernel/environment.{h,cc}     environment(), init(), is_valid(force_defined)
  src/kernel/search.tcc             search<T,ES>::tune_parameters
  src/kernel/gp/src/search.tcc      src_search<T,ES>::tune_parameters
  src/kernel/ga/search.tcc          basic_ga_search<T,ES,F>::tune_parameters

  "Undefined" encodings (environment.h): 0 for the unsigned fields, `trilean::unknown`,
  a negative probability, an empty `facultative`.

  Probabilities are `double`s: the model only needs the two tests the code performs
  (`p < 0.0`, `p > 1.0`), so they are an abstract type with these two tests (`ProbOps`);
  the theorems assume nothing else (`ProbLaws`: the three literal defaults are in [0,1]).
  Not modelled: the `stat.*` path checks of `is_valid` (the tie keeps them at their defaults).
-/
namespace Vita.C06

inductive Tri | no | yes | unknown
deriving Repr, DecidableEq

class ProbOps (P : Type) where
  neg : P → Bool            -- `p < 0.0`
  gt1 : P → Bool            -- `p > 1.0`
  pMutDflt   : P            -- 0.04
  pCrossDflt : P            -- 0.9
  pSameDflt  : P            -- 0.75
  undef      : P            -- -1.0

structure ProbLaws (P : Type) [ProbOps P] : Prop where
  mut_ok   : ProbOps.neg (ProbOps.pMutDflt : P) = false ∧ ProbOps.gt1 (ProbOps.pMutDflt : P) = false
  cross_ok : ProbOps.neg (ProbOps.pCrossDflt : P) = false ∧ ProbOps.gt1 (ProbOps.pCrossDflt : P) = false
  same_ok  : ProbOps.neg (ProbOps.pSameDflt : P) = false ∧ ProbOps.gt1 (ProbOps.pSameDflt : P) = false
  undef_ok : ProbOps.neg (ProbOps.undef : P) = true ∧ ProbOps.gt1 (ProbOps.undef : P) = false

/-- probabilities in thousandths: the instance used for examples and counterexamples -/
instance : ProbOps Int where
  neg p := decide (p < 0)
  gt1 p := decide (p > 1000)
  pMutDflt := 40
  pCrossDflt := 900
  pSameDflt := 750
  undef := -1000

theorem intProbLaws : ProbLaws Int := by constructor <;> decide

structure Env (P : Type) where
  codeLength     : Nat
  patchLength    : Nat
  elitism        : Tri
  pMutation      : P
  pCross         : P
  brood          : Nat
  layers         : Nat
  individuals    : Nat
  minIndividuals : Nat
  tournament     : Nat
  mateZone       : Nat
  generations    : Nat
  maxStuck       : Option Nat
  dss            : Option Nat
  validation     : Option Nat
  ageGap         : Nat
  pSameLayer     : P
  teamInd        : Nat
deriving Repr, DecidableEq

section
variable {P : Type} [ProbOps P]
open ProbOps

/-- `environment()` : every tunable parameter undefined -/
def Env.blank : Env P :=
  { codeLength := 0, patchLength := 0, elitism := .unknown, pMutation := undef, pCross := undef,
    brood := 0, layers := 0, individuals := 0, minIndividuals := 0, tournament := 0, mateZone := 0,
    generations := 0, maxStuck := none, dss := none, validation := none,
    ageGap := 20, pSameLayer := pSameDflt, teamInd := 3 }

/-- `ES<T>::shape(environment().init())`; `esLayers` = 1 (std_es, de_es) or 4 (ALPS) -/
def Env.dflt (esLayers : Nat) : Env P :=
  { codeLength := 100, patchLength := 1, elitism := .yes, pMutation := pMutDflt, pCross := pCrossDflt,
    brood := 1, layers := esLayers, individuals := 100, minIndividuals := 2, tournament := 5,
    mateZone := 20, generations := 100, maxStuck := some 4294967295, dss := some 1,
    validation := some 20, ageGap := 20, pSameLayer := pSameDflt, teamInd := 3 }

/-- `environment::is_valid(force_defined)` without the `stat.*` path checks -/
def isValid (force : Bool) (e : Env P) : Bool :=
  (!force ||
    (e.codeLength != 0 && e.patchLength != 0 && e.elitism != .unknown && !neg e.pMutation &&
     !neg e.pCross && e.brood != 0 && e.layers != 0 && e.individuals != 0 &&
     e.minIndividuals != 0 && e.tournament != 0 && e.mateZone != 0 && e.generations != 0 &&
     e.maxStuck.isSome && e.ageGap != 0 && !neg e.pSameLayer && e.teamInd != 0))
  && e.codeLength != 1
  && !(e.codeLength != 0 && e.patchLength != 0 && decide (e.patchLength ≥ e.codeLength))
  && !gt1 e.pMutation && !gt1 e.pCross
  && !(match e.validation with | some v => decide (v ≥ 100) | none => false)
  && !(e.dss == some 0)
  && !gt1 e.pSameLayer
  && e.minIndividuals != 1
  && !(e.individuals != 0 && e.minIndividuals != 0 && decide (e.individuals < e.minIndividuals))
  && !(e.individuals != 0 && e.tournament != 0 && decide (e.tournament > e.individuals))
  && !(e.mateZone != 0 && e.tournament != 0 && decide (e.tournament > e.mateZone))

/-- `search<T,ES>::tune_parameters`; `term0` = `prob_.sset.terminals(0)`
    (the auto-tuned `patch_length` is kept below `code_length`: fix a44e556; every default is
    adjusted to the related parameters the user did set: fix "defaults contradict user settings") -/
def tuneBase (d : Env P) (term0 : Nat) (u : Env P) : Env P :=
  let code := if u.codeLength = 0 then max d.codeLength (u.patchLength + 1) else u.codeLength
  let ind  := if u.individuals = 0 then max d.individuals (max u.minIndividuals u.tournament) else u.individuals
  let tour := if u.tournament = 0
              then min d.tournament (min ind (if u.mateZone = 0 then d.tournament else u.mateZone))
              else u.tournament
  { u with
    codeLength     := code
    patchLength    := if u.patchLength = 0 then min (1 + term0 / 2) (code - 1) else u.patchLength
    elitism        := if u.elitism = .unknown then d.elitism else u.elitism
    pMutation      := if neg u.pMutation then d.pMutation else u.pMutation
    pCross         := if neg u.pCross then d.pCross else u.pCross
    brood          := if u.brood = 0 then d.brood else u.brood
    layers         := if u.layers = 0 then d.layers else u.layers
    individuals    := ind
    minIndividuals := if u.minIndividuals = 0 then min d.minIndividuals ind else u.minIndividuals
    tournament     := tour
    mateZone       := if u.mateZone = 0 then max d.mateZone tour else u.mateZone
    generations    := if u.generations = 0 then d.generations else u.generations
    maxStuck       := if u.maxStuck.isNone then d.maxStuck else u.maxStuck }

/-- `src_search`: the number of layers computed from the size of the training set -/
def srcLayers (lnF : Nat → Nat) (d : Env P) (dsize : Nat) (u : Env P) : Nat :=
  if u.layers = 0 then (if d.layers > 1 ∧ dsize > 8 then lnF dsize else d.layers) else u.layers

/-- `src_search`: the population size computed from the size of the training set (at least 4) -/
def srcInd (lnF cubeF : Nat → Nat) (d : Env P) (dsize : Nat) (u : Env P) : Nat :=
  let ind0 := if dsize > 8 then 2 * cubeF dsize / srcLayers lnF d dsize u else d.individuals
  if ind0 < 4 then 4 else ind0

omit [ProbOps P] in
theorem four_le_srcInd (lnF cubeF : Nat → Nat) (d : Env P) (dsize : Nat) (u : Env P) :
    4 ≤ srcInd lnF cubeF d dsize u := by
  unfold srcInd
  simp only
  generalize (if dsize > 8 then _ else _) = y
  split <;> omega

/-- the validation strategy installed in the search object (`search::vs_`): the library's three
    (`src_search::validation_strategy(validator_id)`) or any user-defined one -/
inductive VsKind | asIs | holdout | dss | other
deriving Repr, DecidableEq

/-- `src_search<T,ES>::tune_parameters`; `dsize` = `training_data().size()`,
    `lnF dsize` = `static_cast<unsigned>(std::log(dsize))`,
    `cubeF dsize` = `static_cast<unsigned>(std::pow(std::log2(dsize), 3))`.
    The computed population is raised to the user's `min_individuals` / `tournament_size` and a
    default tournament is cut down to it.
    An open `dss` / `validation_percentage` takes its default when the DSS / hold-out strategy is the
    installed one (`typeid(*vs_) == typeid(dss)` / `typeid(holdout_validation)`: the dynamic type of
    the strategy object – fix 237a8f6; before, the type of the POINTER was compared and the two
    parameters were never filled). -/
def tuneSrc (vs : VsKind) (lnF cubeF : Nat → Nat) (d : Env P) (term0 dsize : Nat) (u : Env P) : Env P :=
  let e := tuneBase d term0 u
  let ind := if u.individuals = 0 then max (srcInd lnF cubeF d dsize u) (max u.minIndividuals u.tournament)
             else e.individuals
  let tour := if u.individuals = 0 ∧ u.tournament = 0 then min e.tournament ind else e.tournament
  { e with layers := srcLayers lnF d dsize u, individuals := ind, tournament := tour
           dss := if u.dss.isNone ∧ vs = .dss then d.dss else u.dss
           validation := if u.validation.isNone ∧ vs = .holdout then d.validation else u.validation }

/-- `basic_ga_search<T,ES,F>::tune_parameters` (the minimum of 10 is capped by the population
    size: fix a334a4f) -/
def tuneGa (d : Env P) (term0 : Nat) (u : Env P) : Env P :=
  let e := tuneBase d term0 u
  { e with minIndividuals := if e.minIndividuals < 10 then min 10 e.individuals else e.minIndividuals }

/-! ### the clauses of the property as propositions -/

/-- every tunable parameter has a value -/
def Defined (e : Env P) : Prop :=
  e.codeLength ≠ 0 ∧ e.patchLength ≠ 0 ∧ e.elitism ≠ .unknown ∧ neg e.pMutation = false ∧
  neg e.pCross = false ∧ e.brood ≠ 0 ∧ e.layers ≠ 0 ∧ e.individuals ≠ 0 ∧ e.minIndividuals ≠ 0 ∧
  e.tournament ≠ 0 ∧ e.mateZone ≠ 0 ∧ e.generations ≠ 0 ∧ e.maxStuck.isSome = true

/-- the three parameters `is_valid(true)` wants defined but no `tune_parameters` touches -/
def Untuned (e : Env P) : Prop := e.ageGap ≠ 0 ∧ neg e.pSameLayer = false ∧ e.teamInd ≠ 0

/-- the field-local range checks of `is_valid` -/
def Single (e : Env P) : Prop :=
  e.codeLength ≠ 1 ∧ gt1 e.pMutation = false ∧ gt1 e.pCross = false ∧
  (∀ v, e.validation = some v → v < 100) ∧ e.dss ≠ some 0 ∧ gt1 e.pSameLayer = false ∧
  e.minIndividuals ≠ 1

/-- the cross-field checks of `is_valid` -/
def Cross (e : Env P) : Prop :=
  (e.codeLength ≠ 0 → e.patchLength ≠ 0 → e.patchLength < e.codeLength) ∧
  (e.individuals ≠ 0 → e.minIndividuals ≠ 0 → e.minIndividuals ≤ e.individuals) ∧
  (e.individuals ≠ 0 → e.tournament ≠ 0 → e.tournament ≤ e.individuals) ∧
  (e.mateZone ≠ 0 → e.tournament ≠ 0 → e.tournament ≤ e.mateZone)

theorem isValid_iff (force : Bool) (e : Env P) :
    isValid force e = true ↔
      ((force = true → Defined e ∧ Untuned e) ∧ Single e ∧ Cross e) := by
  unfold isValid Defined Untuned Single Cross
  cases force <;> cases hv : e.validation <;>
    simp <;> (try omega) <;>
    constructor <;> intro h <;> simp_all <;> omega

/-! ### every open parameter gets a value -/

theorem dflt_defined (laws : ProbLaws P) (L : Nat) (hL : L ≠ 0) : Defined (Env.dflt L : Env P) := by
  have := laws.mut_ok; have := laws.cross_ok
  simp_all [Defined, Env.dflt]

theorem tuneBase_defined (d : Env P) (hd : Defined d) (hcode : 2 ≤ d.codeLength) (term0 : Nat)
    (u : Env P) (hu : u.codeLength ≠ 1) : Defined (tuneBase d term0 u) := by
  obtain ⟨h1, h2, h3, h4, h5, h6, h7, h8, h9, h10, h11, h12, h13⟩ := hd
  unfold Defined tuneBase
  refine ⟨?_, ?_, ?_, ?_, ?_, ?_, ?_, ?_, ?_, ?_, ?_, ?_, ?_⟩ <;> simp only <;> (repeat' split) <;>
    first | assumption | omega | (cases hm : u.maxStuck <;> simp_all)

theorem tuneGa_defined (d : Env P) (hd : Defined d) (hcode : 2 ≤ d.codeLength) (term0 : Nat)
    (u : Env P) (hu : u.codeLength ≠ 1) : Defined (tuneGa d term0 u) := by
  have h := tuneBase_defined d hd hcode term0 u hu
  obtain ⟨h1, h2, h3, h4, h5, h6, h7, h8, h9, h10, h11, h12, h13⟩ := h
  refine ⟨h1, h2, h3, h4, h5, h6, h7, h8, ?_, h10, h11, h12, h13⟩
  simp only [tuneGa]
  split <;> omega

theorem tuneSrc_defined (vs : VsKind) (lnF cubeF : Nat → Nat) (hln : ∀ n, 8 < n → lnF n ≠ 0) (d : Env P)
    (hd : Defined d) (hcode : 2 ≤ d.codeLength) (term0 dsize : Nat) (u : Env P) (hu : u.codeLength ≠ 1) :
    Defined (tuneSrc vs lnF cubeF d term0 dsize u) := by
  have h := tuneBase_defined d hd hcode term0 u hu
  have h4 := four_le_srcInd lnF cubeF d dsize u
  obtain ⟨h1, h2, h3, h4', h5, h6, h7, h8, h9, h10, h11, h12, h13⟩ := h
  refine ⟨h1, h2, h3, h4', h5, h6, ?_, ?_, h9, ?_, h11, h12, h13⟩
  · simp only [tuneSrc, srcLayers]
    split
    · split
      · rename_i h; exact hln _ h.2
      · exact hd.2.2.2.2.2.2.1
    · assumption
  · simp only [tuneSrc]
    split
    · omega
    · exact h8
  · simp only [tuneSrc]
    split
    · rename_i hc
      simp only [hc.1, if_true]
      omega
    · exact h10

/-! ### the user's own settings are kept -/

/-- `e` keeps every setting of `u` that was defined; `floorMin` is the strategy-imposed minimum
    on `min_individuals` (0 = none, 10 for GA/DE; a smaller user value is raised to it, but never
    above the population size); a user-set `dss` / `validation_percentage` is kept (an open one is
    filled by `src_search` when the corresponding strategy is installed: `tuneSrc_validator`);
    parameters outside the tuning are untouched -/
def Keeps (floorMin : Nat) (u e : Env P) : Prop :=
  (u.codeLength ≠ 0 → e.codeLength = u.codeLength) ∧
  (u.patchLength ≠ 0 → e.patchLength = u.patchLength) ∧
  (u.elitism ≠ .unknown → e.elitism = u.elitism) ∧
  (neg u.pMutation = false → e.pMutation = u.pMutation) ∧
  (neg u.pCross = false → e.pCross = u.pCross) ∧
  (u.brood ≠ 0 → e.brood = u.brood) ∧
  (u.layers ≠ 0 → e.layers = u.layers) ∧
  (u.individuals ≠ 0 → e.individuals = u.individuals) ∧
  (u.minIndividuals ≠ 0 →
    e.minIndividuals = if u.minIndividuals < floorMin then min floorMin e.individuals else u.minIndividuals) ∧
  (u.tournament ≠ 0 → e.tournament = u.tournament) ∧
  (u.mateZone ≠ 0 → e.mateZone = u.mateZone) ∧
  (u.generations ≠ 0 → e.generations = u.generations) ∧
  (u.maxStuck.isSome = true → e.maxStuck = u.maxStuck) ∧
  (u.dss.isSome = true → e.dss = u.dss) ∧ (u.validation.isSome = true → e.validation = u.validation) ∧
  e.ageGap = u.ageGap ∧ e.pSameLayer = u.pSameLayer ∧ e.teamInd = u.teamInd

theorem tuneBase_keeps (d : Env P) (term0 : Nat) (u : Env P) : Keeps 0 u (tuneBase d term0 u) := by
  unfold Keeps tuneBase
  refine ⟨?_, ?_, ?_, ?_, ?_, ?_, ?_, ?_, ?_, ?_, ?_, ?_, ?_, fun _ => rfl, fun _ => rfl, rfl, rfl, rfl⟩ <;>
    intro h <;> first | (cases hm : u.maxStuck <;> simp_all; done) | simp_all

theorem tuneSrc_keeps (vs : VsKind) (lnF cubeF : Nat → Nat) (d : Env P) (term0 dsize : Nat) (u : Env P) :
    Keeps 0 u (tuneSrc vs lnF cubeF d term0 dsize u) := by
  have h := tuneBase_keeps d term0 u
  obtain ⟨h1, h2, h3, h4, h5, h6, h7, h8, h9, h10, h11, h12, h13, h14, h15, h16, h17, h18⟩ := h
  refine ⟨h1, h2, h3, h4, h5, h6, ?_, ?_, h9, ?_, h11, h12, h13, ?_, ?_, h16, h17, h18⟩
  · intro h; simp only [tuneSrc, srcLayers, h, if_false]
  · intro h; simp only [tuneSrc, h, if_false]; exact h8 h
  · intro h; simp only [tuneSrc, h, and_false, if_false]; exact h10 h
  · intro h; cases hd : u.dss <;> simp_all [tuneSrc]
  · intro h; cases hd : u.validation <;> simp_all [tuneSrc]

/-- what `src_search::tune_parameters` does to the two validator parameters, exactly: an open `dss`
    becomes the default iff the DSS strategy is installed, an open `validation_percentage` iff the
    hold-out strategy is; everything else (set by the user, or another strategy installed) is kept;
    hence with the strategy installed the parameter it reads is defined afterwards -/
theorem tuneSrc_validator (vs : VsKind) (lnF cubeF : Nat → Nat) (d : Env P) (term0 dsize : Nat) (u : Env P) :
    (tuneSrc vs lnF cubeF d term0 dsize u).dss = (if u.dss.isNone ∧ vs = .dss then d.dss else u.dss) ∧
    (tuneSrc vs lnF cubeF d term0 dsize u).validation =
      (if u.validation.isNone ∧ vs = .holdout then d.validation else u.validation) ∧
    (vs = .dss → d.dss.isSome = true → (tuneSrc vs lnF cubeF d term0 dsize u).dss.isSome = true) ∧
    (vs = .holdout → d.validation.isSome = true →
      (tuneSrc vs lnF cubeF d term0 dsize u).validation.isSome = true) := by
  refine ⟨rfl, rfl, ?_, ?_⟩
  · intro hv hd; cases h : u.dss <;> simp_all [tuneSrc]
  · intro hv hd; cases h : u.validation <;> simp_all [tuneSrc]

theorem tuneGa_keeps (d : Env P) (term0 : Nat) (u : Env P) : Keeps 10 u (tuneGa d term0 u) := by
  have h := tuneBase_keeps d term0 u
  obtain ⟨h1, h2, h3, h4, h5, h6, h7, h8, h9, h10, h11, h12, h13, h14, h15, h16, h17, h18⟩ := h
  refine ⟨h1, h2, h3, h4, h5, h6, h7, h8, ?_, h10, h11, h12, h13, h14, h15, h16, h17, h18⟩
  intro h
  have := h9 h
  simp only [tuneGa] at this ⊢
  simp only [Nat.not_lt_zero, if_false] at this
  rw [this]

/-! ### the consistency check after tuning -/

theorem dflt_single (laws : ProbLaws P) (L : Nat) : Single (Env.dflt L : Env P) := by
  have := laws.mut_ok; have := laws.cross_ok; have := laws.same_ok
  simp_all [Single, Env.dflt]

/-- (`individuals = 1` cannot be completed: `min_individuals` must be ≥ 2 and ≤ `individuals`) -/
theorem tuneBase_single (laws : ProbLaws P) (L term0 : Nat) (u : Env P) (h : Single u)
    (hpop : u.individuals ≠ 1) : Single (tuneBase (Env.dflt L) term0 u) := by
  have hm := laws.mut_ok; have hc := laws.cross_ok
  obtain ⟨h1, h2, h3, h4, h5, h6, h7⟩ := h
  unfold Single tuneBase Env.dflt
  refine ⟨?_, ?_, ?_, h4, h5, h6, ?_⟩ <;> simp only <;> (repeat' split) <;>
    first | omega | simp_all

theorem tuneBase_untuned (d : Env P) (term0 : Nat) (u : Env P) (h : Untuned u) :
    Untuned (tuneBase d term0 u) := h

/-- every default `search::tune_parameters` fills in is adjusted to the parameters the user set:
    the cross-field checks hold on the tuned values -/
theorem tuneBase_cross (L term0 : Nat) (u : Env P) (hs : Single u) (hc : Cross u) :
    Cross (tuneBase (Env.dflt L : Env P) term0 u) := by
  obtain ⟨c1, c2, c3, c4⟩ := hc
  have h1 := hs.1
  unfold Cross tuneBase Env.dflt
  refine ⟨?_, ?_, ?_, ?_⟩ <;> simp only <;> intro _ _ <;> (repeat' split) <;> omega

theorem tuneSrc_cross (vs : VsKind) (lnF cubeF : Nat → Nat) (L term0 dsize : Nat) (u : Env P) (hs : Single u)
    (hc : Cross u) : Cross (tuneSrc vs lnF cubeF (Env.dflt L : Env P) term0 dsize u) := by
  obtain ⟨c1, c2, c3, c4⟩ := hc
  have h1 := hs.1
  have h4 := four_le_srcInd lnF cubeF (Env.dflt L : Env P) dsize u
  unfold Cross tuneSrc tuneBase
  generalize srcInd lnF cubeF (Env.dflt L : Env P) dsize u = x at h4
  simp only [Env.dflt]
  refine ⟨?_, ?_, ?_, ?_⟩ <;> intro _ _ <;> (repeat' split) <;> omega

theorem tuneGa_cross (L term0 : Nat) (u : Env P) (hs : Single u) (hc : Cross u) :
    Cross (tuneGa (Env.dflt L : Env P) term0 u) := by
  obtain ⟨c1, c2, c3, c4⟩ := hc
  have h1 := hs.1
  unfold Cross tuneGa tuneBase Env.dflt
  refine ⟨?_, ?_, ?_, ?_⟩ <;> simp only <;> intro _ _ <;> (repeat' split) <;> omega

/-- **`search::tune_parameters` ends in a state that passes `is_valid(true)`** -/
theorem tuneBase_valid (laws : ProbLaws P) (L : Nat) (hL : L ≠ 0) (term0 : Nat) (u : Env P)
    (hv : isValid false u = true) (hu : Untuned u) (hpop : u.individuals ≠ 1) :
    isValid true (tuneBase (Env.dflt L) term0 u) = true := by
  rw [isValid_iff] at hv ⊢
  exact ⟨fun _ => ⟨tuneBase_defined _ (dflt_defined laws L hL) (by simp [Env.dflt]) _ _ hv.2.1.1, hu⟩,
         tuneBase_single laws L term0 u hv.2.1 hpop, tuneBase_cross L term0 u hv.2.1 hv.2.2⟩

/-- the defaults of the two validator parameters pass their range checks (`dss = 1 ≠ 0`,
    `validation_percentage = 20 < 100`) -/
theorem tuneSrc_single (laws : ProbLaws P) (vs : VsKind) (lnF cubeF : Nat → Nat) (L term0 dsize : Nat) (u : Env P)
    (h : Single u) (hpop : u.individuals ≠ 1) : Single (tuneSrc vs lnF cubeF (Env.dflt L) term0 dsize u) := by
  obtain ⟨h1, h2, h3, h4, h5, h6, h7⟩ := tuneBase_single laws L term0 u h hpop
  refine ⟨h1, h2, h3, ?_, ?_, h6, h7⟩
  · intro v hv
    simp only [tuneSrc] at hv
    split at hv
    · simp only [Env.dflt, Option.some.injEq] at hv; omega
    · exact h.2.2.2.1 v hv
  · simp only [tuneSrc]
    split
    · simp [Env.dflt]
    · exact h.2.2.2.2.1

theorem tuneSrc_valid (laws : ProbLaws P) (vs : VsKind) (lnF cubeF : Nat → Nat) (hln : ∀ n, 8 < n → lnF n ≠ 0)
    (L : Nat) (hL : L ≠ 0) (term0 dsize : Nat) (u : Env P)
    (hv : isValid false u = true) (hu : Untuned u) (hpop : u.individuals ≠ 1) :
    isValid true (tuneSrc vs lnF cubeF (Env.dflt L) term0 dsize u) = true := by
  rw [isValid_iff] at hv ⊢
  exact ⟨fun _ => ⟨tuneSrc_defined vs lnF cubeF hln _ (dflt_defined laws L hL) (by simp [Env.dflt]) _ _ _ hv.2.1.1, hu⟩,
         tuneSrc_single laws vs lnF cubeF L term0 dsize u hv.2.1 hpop, tuneSrc_cross vs lnF cubeF L term0 dsize u hv.2.1 hv.2.2⟩

theorem tuneGa_valid (laws : ProbLaws P) (L : Nat) (hL : L ≠ 0) (term0 : Nat) (u : Env P)
    (hv : isValid false u = true) (hu : Untuned u) (hpop : u.individuals ≠ 1) :
    isValid true (tuneGa (Env.dflt L) term0 u) = true := by
  rw [isValid_iff] at hv ⊢
  refine ⟨fun _ => ⟨tuneGa_defined _ (dflt_defined laws L hL) (by simp [Env.dflt]) _ _ hv.2.1.1, hu⟩, ?_,
    tuneGa_cross L term0 u hv.2.1 hv.2.2⟩
  obtain ⟨h1, h2, h3, h4, h5, h6, h7⟩ := tuneBase_single laws L term0 u hv.2.1 hpop
  refine ⟨h1, h2, h3, h4, h5, h6, ?_⟩
  have hi : (tuneBase (Env.dflt L) term0 u).individuals ≠ 1 := by
    simp only [tuneBase, Env.dflt]
    split <;> omega
  simp only [tuneGa]
  split <;> omega

end

section
variable {P : Type} [ProbOps P]

/-- the three search classes; `src_search` with the validation strategy installed in it -/
inductive SearchKind | base | src (vs : VsKind) | ga
deriving Repr, DecidableEq

/-- the three `tune_parameters` -/
def tune (kind : SearchKind) (lnF cubeF : Nat → Nat) (esLayers term0 dsize : Nat) (u : Env P) : Env P :=
  match kind with
  | .base => tuneBase (Env.dflt esLayers) term0 u
  | .src vs => tuneSrc vs lnF cubeF (Env.dflt esLayers) term0 dsize u
  | .ga   => tuneGa (Env.dflt esLayers) term0 u

def strategyFloor : SearchKind → Nat
  | .ga => 10
  | _ => 0

end

/-! ### the parameters this model covers, by their names in environment.h

Compared (Props.lean, `tune_tables_cover_source`) with the lists tools/translate_tune.py extracts
from the clang AST of the current sources, so that a parameter added to `is_valid` or to one of
the `tune_parameters` but not to this model is noticed. -/

/-- tested by `if (force_defined) {…}` : `Defined` (13 tunable) + `Untuned` (3) -/
def modelForced : List String :=
  ["alps.age_gap", "alps.p_same_layer", "brood_recombination", "elitism", "generations", "individuals",
   "layers", "mate_zone", "max_stuck_time", "mep.code_length", "mep.patch_length", "min_individuals",
   "p_cross", "p_mutation", "team.individuals", "tournament_size"]

/-- read by the range / cross-field checks: `Single`, `Cross` … -/
def modelChecked : List String :=
  ["alps.p_same_layer", "dss", "individuals", "mate_zone", "mep.code_length", "mep.patch_length",
   "min_individuals", "p_cross", "p_mutation", "tournament_size", "validation_percentage"]

/-- … and the six path checks this model leaves out (the tie keeps them at their defaults) -/
def notModelledChecked : List String :=
  ["stat.dir", "stat.dynamic_file", "stat.layers_file", "stat.population_file", "stat.summary_file",
   "stat.test_file"]

/-- assigned by `search::tune_parameters` (= the fields `tuneBase` rewrites) -/
def modelTunedBase : List String :=
  ["brood_recombination", "elitism", "generations", "individuals", "layers", "mate_zone",
   "max_stuck_time", "mep.code_length", "mep.patch_length", "min_individuals", "p_cross", "p_mutation",
   "tournament_size"]

/-- assigned by `src_search::tune_parameters` beyond the base call (`dss` / `validation_percentage`
    when the DSS / hold-out strategy is installed; a default `tournament_size` is cut down to the
    computed population) -/
def modelTunedSrc : List String := ["dss", "individuals", "layers", "tournament_size", "validation_percentage"]

/-- assigned by `basic_ga_search::tune_parameters` beyond the base call -/
def modelTunedGa : List String := ["min_individuals"]

end Vita.C06
