/-
  C07 — the translated unsigned 64-bit code of xoshiro256ss.{h,cc} (Vita/C07/GenCode.lean, regenerated on
  every run) means exactly the hand-written model of Vita/Common/Rng.lean: every theorem about `Xo.next`,
  `Xo.seed`, `splitmixNext`, `rotl` is a theorem about the code as it is now.
-/
import Vita.C07.U64E
import Vita.C07.GenCode
import Vita.Common.Rng
namespace Vita.C07
open Vita.Rng Vita.C07.U

/-- the four state words of an engine, as the array `state` -/
def words (e : Xo) : List UInt64 := [e.s0, e.s1, e.s2, e.s3]

theorem words_inj {a b : Xo} (h : words a = words b) : a = b := by
  cases a; cases b; simp [words] at h; simp [h]

theorem p_rotlE : GenCode.prog.rotlE = GenCode.rotlE := rfl
theorem p_smCtor : GenCode.prog.smCtor = GenCode.smCtor := rfl
theorem p_smNext : GenCode.prog.smNext = GenCode.smNext := rfl
theorem p_seedWith : GenCode.prog.seedWith = GenCode.seedWith := rfl
theorem p_seed : GenCode.prog.seed = GenCode.seed := rfl
theorem p_next : GenCode.prog.next = GenCode.next := rfl
theorem p_eqPairs : GenCode.prog.eqPairs = GenCode.eqPairs := rfl

theorem sub_lt_64 (k : UInt64) (h0 : 0 < k) (h1 : k < 64) : 64 - k < 64 := by
  have a := UInt64.lt_iff_toNat_lt.mp h0
  have b := UInt64.lt_iff_toNat_lt.mp h1
  apply UInt64.lt_iff_toNat_lt.mpr
  rw [UInt64.toNat_sub_of_le _ _ (UInt64.le_iff_toNat_le.mpr (by simp at *; omega))]
  simp at *
  omega

/-- `vigna::rotl(x, k)` for a defined shift count -/
theorem gen_rotl_eq (x k : UInt64) (h0 : 0 < k) (h1 : k < 64) :
    rotlOf GenCode.prog x k = some (rotl x k) := by
  have h2 := sub_lt_64 k h0 h1
  simp only [rotlOf, p_rotlE, GenCode.rotlE, evalB, Op.eval, rotl]
  simp [h1, h2]

/-- `splitmix64::next` -/
theorem gen_splitmix_eq (x : UInt64) : smNextOf GenCode.prog x = some (splitmixNext x) := by
  simp only [smNextOf, p_smNext, GenCode.smNext, run, step, eval, Op.eval, setNth, splitmixNext]
  simp

/-- `xoshiro256ss::operator()`: result and new state, for every state -/
theorem gen_next_eq (e : Xo) : nextOf GenCode.prog (words e) = some ((e.next).1, words (e.next).2) := by
  simp only [nextOf, p_next, p_rotlE, GenCode.next, GenCode.rotlE, run, step, eval, evalB, Op.eval, setNth, words,
    Xo.next, rotl]
  simp

/-- `std::generate` over a four-word state with `[&sm]{ return sm.next(); }` -/
theorem fill_four (a b c d x : UInt64) (l ar : List UInt64) :
    fill GenCode.prog 4 0 ⟨[a, b, c, d], x, l, ar⟩ =
      (let r0 := splitmixNext x
       let r1 := splitmixNext r0.2
       let r2 := splitmixNext r1.2
       let r3 := splitmixNext r2.2
       some ⟨[r0.1, r1.1, r2.1, r3.1], r3.2, l, ar⟩) := by
  simp only [fill, p_smNext, GenCode.smNext, run, step, eval, Op.eval, setNth, splitmixNext]
  simp

/-- `xoshiro256ss::seed(s)`: the new state is the model's – whatever the state was before -/
theorem gen_seed_eq (s : UInt64) (e : Xo) : seedOf GenCode.prog s (words e) = some (words (Xo.seed s)) := by
  by_cases hs : s = 0
  · subst hs
    simp only [seedOf, p_seed, p_seedWith, p_smCtor, GenCode.seed, GenCode.seedWith, GenCode.smCtor, run, step,
      call2, call1, eval, evalB, setNth, words, List.length_cons, List.length_nil]
    simp [fill_four, Xo.seed, Xo.defSeed]
  · simp only [seedOf, p_seed, p_seedWith, p_smCtor, GenCode.seed, GenCode.seedWith, GenCode.smCtor, run, step,
      call2, call1, eval, evalB, setNth, words, List.length_cons, List.length_nil]
    simp [fill_four, Xo.seed, hs]

/-- `operator==` compares exactly the four state words -/
theorem gen_eq_eq (a b : Xo) : eqOf GenCode.prog (words a) (words b) = some (decide (a = b)) := by
  cases a; cases b
  simp [eqOf, p_eqPairs, GenCode.eqPairs, words]
  simp [Bool.and_assoc, BEq.beq]

/-! ### the stream of the translated `operator()` -/

/-- the state words after `k` calls of the translated `operator()` -/
def genAdvance (st : List UInt64) : Nat → Option (List UInt64)
  | 0 => some st
  | k + 1 => (nextOf GenCode.prog st).bind fun r => genAdvance r.2 k

/-- the `n`-th number (0-based) the translated `operator()` produces from the state words `st` -/
def genNth (st : List UInt64) (n : Nat) : Option UInt64 :=
  (genAdvance st n).bind fun st' => (nextOf GenCode.prog st').map (·.1)

theorem genAdvance_eq (e : Xo) (k : Nat) : genAdvance (words e) k = some (words (e.advance k)) := by
  induction k generalizing e with
  | zero => rfl
  | succ k ih => simp [genAdvance, gen_next_eq, ih, Xo.advance]

theorem genNth_eq (e : Xo) (n : Nat) : genNth (words e) n = some (e.nth n) := by
  simp [genNth, genAdvance_eq, gen_next_eq, Xo.nth]

end Vita.C07
