/-
  C07 line-protocol driver (the harness harness/c07_rng.cc answers the same requests):

    gen                                   -> the generated operand lists (diagnostic)
    gstream <seed|default> <n>            -> as `stream`, by interpreting the translated seed / operator()
    geq <A> <B>                           -> equal | different   (translated operator==)
    stream <seed|default> <n>             -> o0 o1 o2 o3 o(n-1) fold          (n ≥ 4)
    save <seed> <k>                       -> text <decimal text, blanks as _> | oob
    load <seedB> <j> <hex text> <n>       -> ok|fail|oob <state text> <o0 … o(n-1)>
    roundtrip <seedA> <k> <seedB> <j> <n> -> same | diff <pos> | fail | oob
    sup <seed32> <bound> <count>          -> v0 v1 v2 v3 fold                 (random::sup<size_t>)
    between <seed32> <a> <b> <count>      -> v0 v1 v2 v3 fold                 (random::between<int>)
-/
import Vita.C07.Stream
import Vita.C07.Gen
import Vita.C07.GenCode
import Vita.C07.Random
open Vita.C07 Vita.Rng

def fold (h : UInt64) (o : UInt64) : UInt64 := h * 0x100000001B3 + o

def unhex (s : String) : Option Text :=
  if s = "-" then some [] else
  let rec go : List Char → Option Text
    | a :: b :: r => do
      let v (c : Char) : Option Nat :=
        if c.isDigit then some (c.toNat - 48)
        else if 'a' ≤ c ∧ c ≤ 'f' then some (c.toNat - 87) else none
      let x ← v a
      let y ← v b
      let rest ← go r
      pure (Char.ofNat (x * 16 + y) :: rest)
    | [] => some []
    | _ => none
  go s.toList

def engineOf (s : String) : Option Xo :=
  if s = "default" then some (Xo.seed Xo.defSeed)
  else if s.startsWith "st:" then
    match (s.splitOn ":").drop 1 |>.map String.toNat? with
    | [some a, some b, some c, some d] => some ⟨a.toUInt64, b.toUInt64, c.toUInt64, d.toUInt64⟩
    | _ => none
  else s.toNat?.map fun n => Xo.seed n.toUInt64

def hexOf (t : Text) : String :=
  if t = [] then "-" else
  let d (n : Nat) : Char := if n < 10 then Char.ofNat (48 + n) else Char.ofNat (87 + n)
  String.ofList (t.flatMap fun c => [d (c.toNat / 16 % 16), d (c.toNat % 16)])

/-- base:showbase:uppercase:showpos:width:fill:adjust:skipws:sep:grouping (see harness/c07_rng.cc) -/
def cfgOf (s : String) : Option Cfg :=
  match s.splitOn ":" with
  | [b, sb, up, sp, w, f, a, ws, sep, g] =>
    match b.toNat?, w.toNat?, f.toNat?, a.toNat? with
    | some b, some w, some f, some a =>
      let facet := sep ≠ "-"
      let grouping : Option (List Nat) :=
        if facet then (unhex g).map (·.map Char.toNat) else some []
      match grouping, (if facet then sep.toNat? else some 44) with
      | some gs, some sc =>
        some { base := b, showbase := sb = "1", upper := up = "1", showpos := sp = "1", width := w,
               fill := Char.ofNat f, adjust := a, skipws := ws = "1", facet := facet,
               sep := Char.ofNat sc, grouping := gs }
      | _, _ => none
    | _, _, _, _ => none
  | _ => none

def wordsText (e : Xo) : String := s!"{e.s0} {e.s1} {e.s2} {e.s3}"

def showText (t : Text) : String := String.ofList (t.map fun c => if c = ' ' then '_' else c)

def streamAnswer (e : Xo) (n : Nat) : String := Id.run do
  let mut e := e
  let mut h : UInt64 := 0
  let mut firsts : List UInt64 := []
  let mut last : UInt64 := 0
  for i in [0:n] do
    let (o, e') := e.next
    e := e'
    h := fold h o
    if i < 4 then firsts := firsts ++ [o]
    last := o
  return " ".intercalate ((firsts ++ [last, h]).map toString)

/-- the same answer as `stream`, computed by interpreting the TRANSLATED code (GenCode.prog: seed, operator()) -/
def gstreamAnswer (seed : UInt64) (n : Nat) : String := Id.run do
  match U.seedOf GenCode.prog seed [0, 0, 0, 0] with
  | none => return "undefined"
  | some st0 =>
    let mut st := st0
    let mut h : UInt64 := 0
    let mut firsts : List UInt64 := []
    let mut last : UInt64 := 0
    for i in [0:n] do
      match U.nextOf GenCode.prog st with
      | none => return "undefined"
      | some (o, st') =>
        st := st'
        h := fold h o
        if i < 4 then firsts := firsts ++ [o]
        last := o
    return " ".intercalate ((firsts ++ [last, h]).map toString)

def stateText (e : Xo) : String :=
  match writeState Gen.writeItems e with
  | some t => showText t
  | none => "oob"

def drawsAnswer (count : Nat) (e : Xo) (draw : Xo → Int × Xo) : String := Id.run do
  let mut e := e
  let mut h : UInt64 := 0
  let mut firsts : List Int := []
  for i in [0:count] do
    let (v, e') := draw e
    e := e'
    h := fold h (v.toInt64.toUInt64)
    if i < 4 then firsts := firsts ++ [v]
  return " ".intercalate (firsts.map toString ++ [toString h])

/-- engine of the `vita::random` requests: a 32-bit seed or explicit state words -/
def rEngineOf (s : String) : Option Xo :=
  if s.startsWith "st:" then engineOf s
  else s.toNat?.bind fun n => if n < 2 ^ 32 then some (Xo.seed n.toUInt64) else none

def betdAnswer (count : Nat) (e : Xo) (a b : Float) : String := Id.run do
  let mut e := e
  let mut h : UInt64 := 0
  let mut firsts : List UInt64 := []
  let mut lo := 0
  let mut eq := 0
  let mut hi := 0
  for i in [0:count] do
    let (v, e') := betweenD a b e
    e := e'
    h := fold h v.toBits
    if i < 4 then firsts := firsts ++ [v.toBits]
    if v < a then lo := lo + 1
    if v == b then eq := eq + 1
    if v > b then hi := hi + 1
  return " ".intercalate (firsts.map toString ++ [toString h, s!"lo={lo}", s!"eq={eq}", s!"hi={hi}"])

def boolAnswer (count : Nat) (e : Xo) (p : Float) : String := Id.run do
  let mut e := e
  let mut h : UInt64 := 0
  let mut ones := 0
  for _ in [0:count] do
    let (v, e') := boolean p e
    e := e'
    h := fold h (if v then 1 else 0)
    if v then ones := ones + 1
  return s!"{h} ones={ones}"

def answer (line : String) : String :=
  match (line.trimAscii.toString.splitOn " ").filter (· ≠ "") with
  | ["gen"] =>
    let w := Gen.writeItems.map fun | .st i => s!"state[{i}]" | .ch c => s!"chr({c.toNat})"
    s!"write={w} read={Gen.readIdx} size={Gen.stateSize}"
  | ["stream", s, n] =>
    match engineOf s, n.toNat? with
    | some e, some n => if n ≥ 4 then streamAnswer e n else "bad-op"
    | _, _ => "bad-op"
  | ["gstream", s, n] =>
    match (if s = "default" then some Xo.defSeed else s.toNat?.map Nat.toUInt64), n.toNat? with
    | some seed, some n => if n ≥ 4 then gstreamAnswer seed n else "bad-op"
    | _, _ => "bad-op"
  | ["geq", sa, sb] =>
    match engineOf sa, engineOf sb with
    | some a, some b =>
      match U.eqOf GenCode.prog [a.s0, a.s1, a.s2, a.s3] [b.s0, b.s1, b.s2, b.s3] with
      | some r => (if r then "equal" else "different") ++ (if a.take 4 = b.take 4 then " same4" else " diff4")
      | none => "undefined"
    | _, _ => "bad-op"
  | ["save", s, k] =>
    match engineOf s, k.toNat? with
    | some e, some k =>
      match writeState Gen.writeItems (e.advance k) with
      | some t => "text " ++ showText t
      | none => "oob"
    | _, _ => "bad-op"
  | ["load", sb, j, hex, n] =>
    match engineOf sb, j.toNat?, unhex hex, n.toNat? with
    | some b, some j, some t, some n =>
      match readState Gen.readIdx (b.advance j) t false with
      | none => "oob"
      | some (r, good) =>
        (if good then "ok " else "fail ") ++ stateText r ++ " " ++
          " ".intercalate ((r.take n).map toString)
    | _, _, _, _ => "bad-op"
  | ["roundtrip", sa, k, sb, j, n] =>
    match engineOf sa, k.toNat?, engineOf sb, j.toNat?, n.toNat? with
    | some a, some k, some b, some j, some n =>
      let a := a.advance k
      match saveRestore Gen.writeItems Gen.readIdx a (b.advance j) with
      | none => "oob"
      | some (_, false) => "fail"
      | some (r, true) =>
        let xs := a.take n
        let ys := r.take n
        match (List.range n).find? (fun i => xs[i]? != ys[i]?) with
        | none => "same"
        | some i => s!"diff {i}"
    | _, _, _, _, _ => "bad-op"
  | ["cfgrt", sa, k, sb, j, _n, cfg] =>
    match engineOf sa, k.toNat?, engineOf sb, j.toNat?, cfgOf cfg with
    | some a, some k, some b, some j, some c =>
      let a := a.advance k
      let b := b.advance j
      match putState c Gen.writeItems c.width a with
      | none => "oob"
      | some t =>
        match getState c Gen.readIdx b t false false with
        | none => "oob"
        | some (r, good) =>
          (if !good then "fail" else if r = a then "same" else "diff") ++ " " ++ wordsText r ++ " " ++ hexOf t
    | _, _, _, _, _ => "bad-op"
  | ["cfgload", sb, j, cfg, hex, n] =>
    match engineOf sb, j.toNat?, cfgOf cfg, unhex hex, n.toNat? with
    | some b, some j, some c, some t, some n =>
      match getState c Gen.readIdx (b.advance j) t false false with
      | none => "oob"
      | some (r, good) =>
        (if good then "ok " else "fail ") ++ wordsText r ++
          String.join ((r.take n).map fun o => " " ++ toString o)
    | _, _, _, _, _ => "bad-op"
  | ["sup", s, bound, count] =>
    match s.toNat?, bound.toNat?, count.toNat? with
    | some s, some bound, some count =>
      if bound = 0 ∨ s ≥ 2 ^ 32 then "bad-op"
      else drawsAnswer count (Xo.seed s.toUInt64) fun e => let (v, e) := sup bound e; ((v : Int), e)
    | _, _, _ => "bad-op"
  | ["supu", s, bound, count] =>
    match rEngineOf s, bound.toNat?, count.toNat? with
    | some e, some bound, some count =>
      if bound = 0 ∨ bound ≥ 2 ^ 32 then "bad-op"
      else drawsAnswer count e fun e => let (v, e) := sup bound e; ((v : Int), e)
    | _, _, _ => "bad-op"
  | ["betu64", s, a, b, count] =>
    match rEngineOf s, a.toNat?, b.toNat?, count.toNat? with
    | some e, some a, some b, some count =>
      if a ≥ b ∨ b ≥ 2 ^ 64 then "bad-op" else drawsAnswer count e (between a b)
    | _, _, _, _ => "bad-op"
  | ["inr", s, a, b, count] =>
    match rEngineOf s, a.toInt?, b.toInt?, count.toNat? with
    | some e, some a, some b, some count => if a ≥ b then "bad-op" else drawsAnswer count e (between a b)
    | _, _, _, _ => "bad-op"
  | ["elem", s, size, count] =>
    match rEngineOf s, size.toNat?, count.toNat? with
    | some e, some size, some count =>
      if size = 0 then "bad-op"
      else
        -- the harness first draws from both overloads of element() in turn (2 draws per round, equal indices
        -- would need equal draws: answers 1 unless they coincide), then the index through the const overload
        let both := drawsAnswer count e fun e =>
          let (i, e) := elementIdx size e
          let (j, e) := elementIdx size e
          ((if i = j then 0 else 1 : Int), e)
        let idx := drawsAnswer count e fun e => let (v, e) := elementIdx size e; ((v : Int), e)
        both ++ " | " ++ idx
    | _, _, _ => "bad-op"
  | ["ring", s, base, width, n, count] =>
    match rEngineOf s, base.toNat?, width.toNat?, n.toNat?, count.toNat? with
    | some e, some base, some width, some n, some count =>
      if width = 0 ∨ n < 2 ∨ base ≥ n then "bad-op"
      else drawsAnswer count e fun e => let (v, e) := ring base width n e; ((v : Int), e)
    | _, _, _, _, _ => "bad-op"
  | ["betd", s, a, b, count] =>
    match rEngineOf s, a.toNat?, b.toNat?, count.toNat? with
    | some e, some a, some b, some count => betdAnswer count e (Float.ofBits a.toUInt64) (Float.ofBits b.toUInt64)
    | _, _, _, _ => "bad-op"
  | ["bool", s, p, count] =>
    match rEngineOf s, p.toNat?, count.toNat? with
    | some e, some p, some count => boolAnswer count e (Float.ofBits p.toUInt64)
    | _, _, _ => "bad-op"
  | ["between", s, a, b, count] =>
    match s.toNat?, a.toInt?, b.toInt?, count.toNat? with
    | some s, some a, some b, some count =>
      if a ≥ b ∨ s ≥ 2 ^ 32 then "bad-op"
      else drawsAnswer count (Xo.seed s.toUInt64) (between a b)
    | _, _, _, _ => "bad-op"
  | _ => "bad-op"

partial def loop (h : IO.FS.Stream) (out : IO.FS.Stream) : IO Unit := do
  let line ← h.getLine
  if line.isEmpty then return ()
  out.putStrLn (answer line)
  loop h out

def main : IO Unit := do
  loop (← IO.getStdin) (← IO.getStdout)
