/-
  C07 — algebra of the generator itself (model of Vita/Common/Rng.lean; tied to the code by the generated
  terms, Vita/C07/CodeLemmas.lean):

  * the output scrambler `rotl(s1 * 5, 7) * 9` and `rotl(·, 45)` are injective, hence four consecutive
    outputs determine the whole 256-bit state (`state_of_outputs`);
  * the finaliser of splitmix64 is a bijection fixing 0, hence a seeding never produces the all-zero
    state (`seed_ne_zero`) – the one state xoshiro256** never leaves.
-/
import Vita.Common.Rng
namespace Vita.C07
open Vita.Rng

/-! ### rotations -/

theorem rotl7_bv (x : UInt64) : (rotl x 7).toBitVec = x.toBitVec.rotateLeft 7 := by
  simp [rotl, BitVec.rotateLeft_def]

theorem rotl45_bv (x : UInt64) : (rotl x 45).toBitVec = x.toBitVec.rotateLeft 45 := by
  simp [rotl, BitVec.rotateLeft_def]

theorem rotateLeft_inj (r : Nat) (hr : r < 64) (x y : BitVec 64) (h : x.rotateLeft r = y.rotateLeft r) :
    x = y := by
  apply BitVec.eq_of_getLsbD_eq
  intro j hj
  by_cases hlt : j + r < 64
  · have := congrArg (fun v => v.getLsbD (j + r)) h
    simp only [BitVec.getLsbD_rotateLeft, Nat.mod_eq_of_lt hr] at this
    have h1 : ¬ (j + r < r) := by omega
    simp [h1, hlt] at this
    exact this
  · have := congrArg (fun v => v.getLsbD (j + r - 64)) h
    simp only [BitVec.getLsbD_rotateLeft, Nat.mod_eq_of_lt hr] at this
    have h1 : j + r - 64 < r := by omega
    simp [h1] at this
    rw [show 64 - r + (j + r - 64) = j by omega] at this
    exact this

theorem rotl7_inj {x y : UInt64} (h : rotl x 7 = rotl y 7) : x = y := by
  apply UInt64.toBitVec_inj.1
  apply rotateLeft_inj 7 (by decide)
  rw [← rotl7_bv, ← rotl7_bv, h]

theorem rotl45_inj {x y : UInt64} (h : rotl x 45 = rotl y 45) : x = y := by
  apply UInt64.toBitVec_inj.1
  apply rotateLeft_inj 45 (by decide)
  rw [← rotl45_bv, ← rotl45_bv, h]

/-! ### multiplication by an odd constant -/

theorem mul_inj_of_inv (c i : UInt64) (hci : c * i = 1) {x y : UInt64} (h : x * c = y * c) : x = y := by
  have hx : x = x * c * i := by rw [UInt64.mul_assoc, hci, UInt64.mul_one]
  have hy : y = y * c * i := by rw [UInt64.mul_assoc, hci, UInt64.mul_one]
  rw [hx, hy, h]

theorem mul5_inj {x y : UInt64} (h : x * 5 = y * 5) : x = y :=
  mul_inj_of_inv 5 14757395258967641293 (by decide) h
theorem mul9_inj {x y : UInt64} (h : x * 9 = y * 9) : x = y :=
  mul_inj_of_inv 9 10248191152060862009 (by decide) h

/-- the `**` scrambler is injective -/
theorem scrambler_inj {x y : UInt64} (h : rotl (x * 5) 7 * 9 = rotl (y * 5) 7 * 9) : x = y :=
  mul5_inj (rotl7_inj (mul9_inj h))

/-! ### four outputs determine the state -/

theorem next_out (e : Xo) : (e.next).1 = rotl (e.s1 * 5) 7 * 9 := rfl
theorem next_s0 (e : Xo) : (e.next).2.s0 = e.s0 ^^^ (e.s3 ^^^ e.s1) := rfl
theorem next_s1 (e : Xo) : (e.next).2.s1 = e.s1 ^^^ (e.s2 ^^^ e.s0) := rfl
theorem next_s2 (e : Xo) : (e.next).2.s2 = e.s2 ^^^ e.s0 ^^^ (e.s1 <<< 17) := rfl
theorem next_s3 (e : Xo) : (e.next).2.s3 = rotl (e.s3 ^^^ e.s1) 45 := rfl

/-- equal `s1` now and after one step: `s2 ^ s0` agree -/
theorem agree_step {a b : Xo} (h0 : a.s1 = b.s1) (h1 : (a.next).2.s1 = (b.next).2.s1) :
    a.s2 ^^^ a.s0 = b.s2 ^^^ b.s0 := by
  rw [next_s1 a, next_s1 b, h0] at h1
  exact (UInt64.xor_right_inj _).1 h1

/-- **state_of_outputs**: two engines that produce the same first four numbers have the same state. -/
theorem state_of_outputs (a b : Xo) (h : ∀ n, n < 4 → a.nth n = b.nth n) : a = b := by
  have o0 : a.s1 = b.s1 := scrambler_inj (by simpa [Xo.nth, Xo.advance, next_out] using h 0 (by decide))
  have o1 : (a.next).2.s1 = (b.next).2.s1 :=
    scrambler_inj (by simpa [Xo.nth, Xo.advance, next_out] using h 1 (by decide))
  have o2 : ((a.next).2.next).2.s1 = ((b.next).2.next).2.s1 :=
    scrambler_inj (by simpa [Xo.nth, Xo.advance, next_out] using h 2 (by decide))
  have o3 : (((a.next).2.next).2.next).2.s1 = (((b.next).2.next).2.next).2.s1 :=
    scrambler_inj (by simpa [Xo.nth, Xo.advance, next_out] using h 3 (by decide))
  -- one step: s2 ^ s0
  have hU : a.s2 ^^^ a.s0 = b.s2 ^^^ b.s0 := agree_step o0 o1
  -- the successor states agree on s1 (o1), s2 and – from the next output – s0
  have n2 : (a.next).2.s2 = (b.next).2.s2 := by rw [next_s2 a, next_s2 b, hU, o0]
  have hU1 : (a.next).2.s2 ^^^ (a.next).2.s0 = (b.next).2.s2 ^^^ (b.next).2.s0 := agree_step o1 o2
  have n0 : (a.next).2.s0 = (b.next).2.s0 := by
    rw [n2] at hU1; exact (UInt64.xor_right_inj _).1 hU1
  -- two steps on: s2, then s0, hence s3 of the successor
  have nn2 : ((a.next).2.next).2.s2 = ((b.next).2.next).2.s2 := by
    rw [next_s2 (a.next).2, next_s2 (b.next).2, hU1, o1]
  have hU2 := agree_step o2 o3
  have nn0 : ((a.next).2.next).2.s0 = ((b.next).2.next).2.s0 := by
    rw [nn2] at hU2; exact (UInt64.xor_right_inj _).1 hU2
  have n3 : (a.next).2.s3 = (b.next).2.s3 := by
    rw [next_s0 (a.next).2, next_s0 (b.next).2, n0, o1] at nn0
    have := (UInt64.xor_right_inj _).1 nn0
    exact (UInt64.xor_left_inj _).1 this
  -- back to the original state
  have h31 : a.s3 ^^^ a.s1 = b.s3 ^^^ b.s1 := by
    rw [next_s3 a, next_s3 b] at n3; exact rotl45_inj n3
  have e3 : a.s3 = b.s3 := by rw [o0] at h31; exact (UInt64.xor_left_inj _).1 h31
  have e0 : a.s0 = b.s0 := by
    rw [next_s0 a, next_s0 b, h31] at n0; exact (UInt64.xor_left_inj _).1 n0
  have e2 : a.s2 = b.s2 := by rw [e0] at hU; exact (UInt64.xor_left_inj _).1 hU
  cases a; cases b; simp_all

/-! ### splitmix64 never seeds the all-zero state -/

theorem xorshift_zero (w : UInt64) (k : UInt64) (hk0 : 0 < k.toNat % 64) (h : w ^^^ (w >>> k) = 0) : w = 0 := by
  have heq : w = w >>> k := UInt64.xor_eq_zero_iff.1 h
  have hn := congrArg UInt64.toNat heq
  rw [UInt64.toNat_shiftRight] at hn
  apply UInt64.toNat_inj.1
  rw [Nat.shiftRight_eq_div_pow] at hn
  have hp : 2 ≤ 2 ^ (k.toNat % 64) := by
    calc 2 = 2 ^ 1 := rfl
      _ ≤ 2 ^ (k.toNat % 64) := Nat.pow_le_pow_right (by decide) hk0
  have hle : w.toNat / 2 ^ (k.toNat % 64) ≤ w.toNat / 2 := Nat.div_le_div_left hp (by decide)
  show w.toNat = 0
  omega

theorem mul_zero_of_inv (c i : UInt64) (hci : c * i = 1) {x : UInt64} (h : x * c = 0) : x = 0 := by
  have : x * c = 0 * c := by rw [h]; simp
  exact mul_inj_of_inv c i hci this

/-- the finaliser of splitmix64 maps only 0 to 0 -/
theorem splitmix_out_zero (x : UInt64) (h : (splitmixNext x).1 = 0) : x + 0x9E3779B97F4A7C15 = 0 := by
  simp only [splitmixNext] at h
  have h3 := xorshift_zero _ 31 (by decide) h
  have h2 := mul_zero_of_inv 0x94D049BB133111EB 3573116690164977347 (by decide) h3
  have h2' := xorshift_zero _ 27 (by decide) h2
  have h1 := mul_zero_of_inv 0xBF58476D1CE4E5B9 10871156337175269513 (by decide) h2'
  exact xorshift_zero _ 30 (by decide) h1

/-- **seed_ne_zero**: whatever the seed, the state after `seed(s)` is not the all-zero state (its first two
    words cannot both be zero). -/
theorem seed_ne_zero (s : UInt64) : Xo.seed s ≠ ⟨0, 0, 0, 0⟩ := by
  intro h
  have a0 : (Xo.seed s).s0 = 0 := by rw [h]
  have b0 : (Xo.seed s).s1 = 0 := by rw [h]
  simp only [Xo.seed] at a0 b0
  have ha := splitmix_out_zero _ a0
  have hb := splitmix_out_zero _ b0
  have hx : (splitmixNext (if (s == 0) = true then Xo.defSeed else s)).2
      = (if (s == 0) = true then Xo.defSeed else s) + 0x9E3779B97F4A7C15 := rfl
  rw [hx, ha] at hb
  revert hb
  decide

end Vita.C07
