/-
  C07 helper lemmas: decimal text of a `UInt64` is extracted back exactly.
-/
import Vita.C07.Model
namespace Vita.C07
open Vita.Rng

theorem isSpace_of_isDigit {c : Char} (h : c.isDigit = true) : isSpace c = false := by
  cases hs : isSpace c with
  | false => rfl
  | true =>
    exfalso
    simp only [isSpace, Bool.or_eq_true, beq_iff_eq] at hs
    rcases hs with ((((rfl | rfl) | rfl) | rfl) | rfl) | rfl <;> simp [Char.isDigit] at h

theorem takeWhile_append_stop {α} (p : α → Bool) (l t : List α) (hl : ∀ x ∈ l, p x = true)
    (ht : t = [] ∨ ∃ y r, t = y :: r ∧ p y = false) :
    (l ++ t).takeWhile p = l ∧ (l ++ t).dropWhile p = t := by
  induction l with
  | nil =>
    rcases ht with rfl | ⟨y, r, rfl, hy⟩
    · simp
    · simp [hy]
  | cons a l ih =>
    have ha : p a = true := hl a (by simp)
    have := ih (fun x hx => hl x (by simp [hx]))
    simp [ha, this]

/-- a separator / end of text after a number: nothing, or a character that is not a digit -/
def Stops (t : Text) : Prop := t = [] ∨ ∃ y r, t = y :: r ∧ y.isDigit = false

theorem extract_digits (ds tail : Text) (hne : ds ≠ []) (hd : ∀ c ∈ ds, c.isDigit = true)
    (ht : Stops tail) (hlt : Nat.ofDigitChars 10 ds 0 < 2 ^ 64) :
    extract (ds ++ tail) = .val (Nat.ofDigitChars 10 ds 0).toUInt64 tail := by
  obtain ⟨c, cs, rfl⟩ := List.exists_cons_of_ne_nil hne
  have hc : isSpace c = false := isSpace_of_isDigit (hd c (by simp))
  have h1 : ((c :: cs) ++ tail).dropWhile isSpace = (c :: cs) ++ tail := by
    simp [hc]
  have h2 := takeWhile_append_stop Char.isDigit (c :: cs) tail hd ht
  unfold extract
  simp only [h1, h2.1, h2.2]
  simp [hlt]

theorem extract_writeU64 (v : UInt64) (tail : Text) (ht : Stops tail) :
    extract (writeU64 v ++ tail) = .val v tail := by
  have hlt : Nat.ofDigitChars 10 (Nat.toDigits 10 v.toNat) 0 < 2 ^ 64 := by
    rw [Nat.ofDigitChars_ten_toDigits]; exact v.toNat_lt
  have := extract_digits (Nat.toDigits 10 v.toNat) tail Nat.toDigits_ne_nil
    (fun c hc => Nat.isDigit_of_mem_toDigits (by decide) (by decide) hc) ht hlt
  rw [Nat.ofDigitChars_ten_toDigits] at this
  simpa [writeU64] using this

theorem extract_space (t : Text) : extract (' ' :: t) = extract t := by
  unfold extract
  simp [isSpace]

theorem stops_space (t : Text) : Stops (' ' :: t) := Or.inr ⟨' ', t, rfl, by decide⟩

/-- text written for a state -/
theorem writeState_good (a : Xo) :
    writeState goodItems a =
      some (writeU64 a.s0 ++ ' ' :: (writeU64 a.s1 ++ ' ' :: (writeU64 a.s2 ++ ' ' :: (writeU64 a.s3 ++ [])))) := by
  simp [writeState, goodItems, Xo.get]

/-- Round trip for the proved format: whatever the receiving engine `b` held, after reading the text
    written for `a` the stream is still good and the engine equals `a`. -/
theorem roundtrip_good (a b : Xo) : saveRestore goodItems goodIdx a b = some (a, true) := by
  unfold saveRestore
  rw [writeState_good]
  simp only [goodIdx, readState, Bool.false_eq_true, ↓reduceIte,
    show (0 : Nat) < 4 by decide, show (1 : Nat) < 4 by decide, show (2 : Nat) < 4 by decide,
    show (3 : Nat) < 4 by decide]
  rw [extract_writeU64 _ _ (stops_space _)]
  simp only [extract_space]
  rw [extract_writeU64 _ _ (stops_space _)]
  simp only [extract_space]
  rw [extract_writeU64 _ _ (stops_space _)]
  simp only [extract_space]
  rw [extract_writeU64 _ _ (Or.inl rfl)]
  simp [Xo.set]


end Vita.C07
