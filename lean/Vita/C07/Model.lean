/-
  C07 — semantics of the state save / restore of the generator.

  `writeState items e`   : the text `operator<<` produces for the operand list `items`
  `readState idx e text` : what `operator>>` does to engine `e` when it extracts into the
                           `e.state[i]`, `i ∈ idx`, from `text`
  Both are defined for ARBITRARY operand lists; the lists of the real code are generated into
  Vita/C07/Gen.lean on every run.  An index outside `[0, 4)` is an out-of-bounds access (`none`).

  `std::istream >> std::uint64_t` (classic locale, decimal):
    * the sentry skips white space; at end of input it sets eofbit|failbit and nothing is stored;
    * otherwise the longest run of digits is converted; no digit: 0 is stored and failbit set;
      a value above 2^64−1: 2^64−1 is stored and failbit set;
    * once failbit is set every later extraction is a no-op.
  (Classic stream only; signs, bases, widths and locale grouping: Vita/C07/Stream.lean, whose classic
  instance this is – `put_classic` in Props.lean.)
-/
import Vita.Common.Rng
import Vita.C07.Syntax
namespace Vita.C07
open Vita.Rng

abbrev Text := List Char

/-- `ostream << uint64` : decimal digits -/
def writeU64 (v : UInt64) : Text := Nat.toDigits 10 v.toNat

/-- `operator<<` for an operand list; `none` = out-of-bounds read of `state` -/
def writeState : List Item → Xo → Option Text
  | [], _ => some []
  | .st i :: r, e => if i < 4 then (writeState r e).map (writeU64 (e.get i) ++ ·) else none
  | .ch c :: r, e => (writeState r e).map (c :: ·)

/-- `std::isspace` in the classic locale -/
def isSpace (c : Char) : Bool :=
  c == ' ' || c == '\t' || c == '\n' || c == Char.ofNat 11 || c == Char.ofNat 12 || c == '\r'

/-- result of one `istream >> uint64` -/
inductive Ext
  | eof                                   -- sentry failed: nothing stored, failbit
  | nodigits                              -- 0 stored, failbit
  | overflow                              -- 2^64−1 stored, failbit
  | val (v : UInt64) (rest : Text)        -- success
deriving DecidableEq, Repr

def extract (t : Text) : Ext :=
  let t := t.dropWhile isSpace
  if t = [] then .eof
  else
    let ds := t.takeWhile Char.isDigit
    if ds = [] then .nodigits
    else
      let n := Nat.ofDigitChars 10 ds 0
      if n < 2 ^ 64 then .val n.toUInt64 (t.dropWhile Char.isDigit) else .overflow

/-- `operator>>` for an index list: `some (engine, stream still good)`; `none` = out-of-bounds
    subscript (`e.state[i]` with `i ≥ 4` is evaluated whatever the stream state is). -/
def readState : List Nat → Xo → Text → (failed : Bool) → Option (Xo × Bool)
  | [], e, _, failed => some (e, !failed)
  | i :: r, e, t, failed =>
    if i < 4 then
      if failed then readState r e t true
      else
        match extract t with
        | .eof => readState r e [] true
        | .nodigits => readState r (e.set i 0) [] true
        | .overflow => readState r (e.set i 0xFFFFFFFFFFFFFFFF) [] true
        | .val v rest => readState r (e.set i v) rest false
    else none

/-- save engine `a`, restore into engine `b` (the scenario of the property) -/
def saveRestore (items : List Item) (idx : List Nat) (a b : Xo) : Option (Xo × Bool) :=
  match writeState items a with
  | none => none
  | some t => readState idx b t false

/-- the save format for which the round trip is proved -/
def goodItems : List Item := [.st 0, .ch ' ', .st 1, .ch ' ', .st 2, .ch ' ', .st 3]
def goodIdx : List Nat := [0, 1, 2, 3]


end Vita.C07
