/-
  C07 — property theorems (generator part).  Statements in words: design/C07.md.
  `Gen.writeItems` / `Gen.readIdx` / `Gen.stateSize` are regenerated from the clang AST of
  src/utility/xoshiro256ss.cc on every run: the premises `gen_*` below are facts about the code as it
  is now, closed by `decide`; they fail (and with them everything else) when the stream operators do
  not save and restore exactly the four state words.
-/
import Vita.C07.Lemmas
import Vita.C07.StreamLemmas
import Vita.C07.CodeLemmas
import Vita.C07.EngineLemmas
import Vita.C07.RandomLemmas
import Vita.C07.Gen
namespace Vita.C07
open Vita.Rng

/-- The code, today, writes the four state words separated by blanks … -/
theorem gen_write : Gen.writeItems = goodItems := by decide
/-- … and reads into exactly the same four words, in the same order … -/
theorem gen_read : Gen.readIdx = goodIdx := by decide
/-- … of a four-word state. -/
theorem gen_size : Gen.stateSize = 4 := by decide

/-- **state_roundtrip**: a generator state written with the code's `operator<<` and read back with
    the code's `operator>>` (into any engine) is restored exactly, and the stream stays good –
    for every state (in particular every state reached after any number of draws from any seed). -/
theorem state_roundtrip (a b : Xo) :
    saveRestore Gen.writeItems Gen.readIdx a b = some (a, true) := by
  rw [gen_write, gen_read]; exact roundtrip_good a b

/-- **stream_after_roundtrip**: the restored engine continues with exactly the same sequence of
    numbers, forever. -/
theorem stream_after_roundtrip (a b : Xo) :
    ∃ r, saveRestore Gen.writeItems Gen.readIdx a b = some (r, true) ∧ ∀ n, r.nth n = a.nth n :=
  ⟨a, state_roundtrip a b, fun _ => rfl⟩

/-- … in particular for the state reached from any seed after any number `k` of draws, restored into
    an engine seeded differently and advanced arbitrarily. -/
theorem stream_after_roundtrip_seeded (seedA seedB : UInt64) (k j : Nat) :
    ∃ r, saveRestore Gen.writeItems Gen.readIdx ((Xo.seed seedA).advance k) ((Xo.seed seedB).advance j)
          = some (r, true) ∧
         ∀ n, r.nth n = (Xo.seed seedA).nth (k + n) := by
  refine ⟨_, state_roundtrip _ _, ?_⟩
  intro n
  have adv : ∀ (e : Xo) (k n : Nat), (e.advance k).advance n = e.advance (k + n) := by
    intro e k
    induction k generalizing e with
    | zero => intro n; simp [Xo.advance]
    | succ k ih =>
      intro n
      show ((e.next).2.advance k).advance n = e.advance (k + 1 + n)
      rw [ih, show k + 1 + n = (k + n) + 1 by omega]
      rfl
  simp [Xo.nth, adv]

/-- The saved text determines the state: two different states never have the same text. -/
theorem write_injective (a a' : Xo) (h : writeState Gen.writeItems a = writeState Gen.writeItems a') :
    a = a' := by
  have h1 := state_roundtrip a a
  have h2 := state_roundtrip a' a
  unfold saveRestore at h1 h2
  rw [h] at h1
  rw [h1] at h2
  simpa using h2

/-- `seed_deterministic`: in the model a run of draws is a function of the seed alone – stated to
    document that the *model* cannot exhibit what the property fears (uninitialised reads, hidden
    static state); for the implementation this is the business of the differential/transcript tie. -/
theorem seed_deterministic (s : UInt64) (n : Nat) : (Xo.seed s).take n = (Xo.seed s).take n := rfl

/-- `seed(0)` selects the default seed (as `xoshiro256ss::seed` does). -/
theorem seed_zero_default : Xo.seed 0 = Xo.seed Xo.defSeed := by decide

/-! ### the same, under every stream configuration the property demands

`Cfg` = formatting state + numpunct facet of the stream the engine is written to and read from
(Vita/C07/Stream.lean: libstdc++'s `num_put` / `num_get` for `unsigned long`, incl. thousands separators
and `__verify_grouping`).  `Demanded c`: decimal, `skipws` on, padding (if a width is pending) made of
white space, and – when the imbued locale groups digits – a thousands separator that is neither a digit
nor white space.  Any width, adjustment, showbase/uppercase/showpos, any grouping string, any such
separator. -/

/-- **cfg_state_roundtrip**: written with the code's `operator<<` to a stream in configuration `c` and read
    back with the code's `operator>>` from the same stream, every state is restored exactly and the
    stream stays good – for every demanded configuration, every state, every receiving engine. -/
theorem cfg_state_roundtrip (c : Cfg) (h : Demanded c) (a b : Xo) :
    saveRestoreC c Gen.writeItems Gen.readIdx a b = some (a, true) := by
  rw [gen_write, gen_read]; exact cfg_roundtrip_good c h a b

/-- … and the restored engine continues with the same sequence of numbers, forever. -/
theorem cfg_stream_after_roundtrip (c : Cfg) (h : Demanded c) (a b : Xo) :
    ∃ r, saveRestoreC c Gen.writeItems Gen.readIdx a b = some (r, true) ∧ ∀ n, r.nth n = a.nth n :=
  ⟨a, cfg_state_roundtrip c h a b, fun _ => rfl⟩

/-- the classic configuration (what the first model fixed) is demanded -/
theorem classic_demanded : Demanded Cfg.classic := by decide

/-- in the classic configuration the configuration-aware writer is the writer of `Model.lean` -/
theorem put_classic (items : List Item) (e : Xo) : putState Cfg.classic items 0 e = writeState items e := by
  induction items with
  | nil => rfl
  | cons it r ih =>
    cases it with
    | st i =>
      simp only [putState, writeState, ih]
      split
      · congr 1
      · rfl
    | ch c =>
      simp only [putState, writeState, ih]
      congr 1

/-- Each hypothesis of `Demanded` is needed – witnesses in the model (the compiled library agrees, see the
    `cfgrt` requests of the differential run): with `skipws` cleared, with a non-blank fill character
    and a pending width, with a blank as thousands separator, the SAME text is not read back. -/
theorem noskipws_witness :
    saveRestoreC { skipws := false } goodItems goodIdx ⟨1, 2, 3, 4⟩ ⟨9, 9, 9, 9⟩ = some (⟨1, 0, 9, 9⟩, false) := by
  decide
theorem fill_witness :
    saveRestoreC { width := 3, fill := '*', adjust := 1 } goodItems goodIdx ⟨1, 2, 3, 4⟩ ⟨9, 9, 9, 9⟩
      = some (⟨0, 9, 9, 9⟩, false) := by
  decide
theorem fill_digit_witness :   -- silently wrong: no failbit, another state
    saveRestoreC { width := 3, fill := '7', adjust := 1 } goodItems goodIdx ⟨1, 2, 3, 4⟩ ⟨9, 9, 9, 9⟩
      = some (⟨771, 2, 3, 4⟩, true) := by
  decide
theorem blank_separator_witness :
    saveRestoreC { facet := true, sep := ' ', grouping := [3] } goodItems goodIdx ⟨1, 222, 333, 444⟩ ⟨9, 9, 9, 9⟩
      = some (⟨1222333444, 9, 9, 9⟩, false) := by
  decide

/-! ### the code of the generator itself

`GenCode.prog` is regenerated on every run from the clang AST of `vigna::rotl`, `splitmix64` (constructor,
`next`), `seed_with_sm64`, `xoshiro256ss::seed`, `operator()`, `operator==` (terms of Vita/C07/U64E.lean:
`std::uint64_t` arithmetic, shifts ≥ 64 and subscripts outside `state` undefined).  The `gen_*_code`
theorems say that this code, as it is now, is defined on every input and computes the model of
Vita/Common/Rng.lean; the others are properties of the code obtained through them. -/

theorem gen_rotl_code (x k : UInt64) (h0 : 0 < k) (h1 : k < 64) : U.rotlOf GenCode.prog x k = some (rotl x k) :=
  gen_rotl_eq x k h0 h1
theorem gen_splitmix_code (x : UInt64) : U.smNextOf GenCode.prog x = some (splitmixNext x) := gen_splitmix_eq x
/-- `operator()`: no undefined behaviour in any state; result and successor state are the model's -/
theorem gen_next_code (e : Xo) : U.nextOf GenCode.prog (words e) = some ((e.next).1, words (e.next).2) :=
  gen_next_eq e
/-- `seed(s)` -/
theorem gen_seed_code (s : UInt64) (e : Xo) : U.seedOf GenCode.prog s (words e) = some (words (Xo.seed s)) :=
  gen_seed_eq s e
/-- `operator==` -/
theorem gen_eq_code (a b : Xo) : U.eqOf GenCode.prog (words a) (words b) = some (decide (a = b)) := gen_eq_eq a b
/-- the stream of the translated `operator()` is the model's stream -/
theorem gen_stream_code (e : Xo) (n : Nat) : genNth (words e) n = some (e.nth n) := genNth_eq e n

/-- **seeding_deterministic**: the state after `seed(s)` – hence every number drawn afterwards – is a function
    of `s` alone: nothing of the engine's previous state survives a seeding. -/
theorem seeding_deterministic (s : UInt64) (e e' : Xo) :
    U.seedOf GenCode.prog s (words e) = U.seedOf GenCode.prog s (words e') ∧
    ∃ st, U.seedOf GenCode.prog s (words e) = some st ∧ ∀ n, genNth st n = some ((Xo.seed s).nth n) := by
  refine ⟨by rw [gen_seed_eq, gen_seed_eq], words (Xo.seed s), gen_seed_eq s e, fun n => genNth_eq _ n⟩

/-- **seed_never_all_zero**: no seed puts the engine into the all-zero state (the fixed point of xoshiro256**,
    from which every draw would be 0). -/
theorem seed_never_all_zero (s : UInt64) (e : Xo) : U.seedOf GenCode.prog s (words e) ≠ some [0, 0, 0, 0] := by
  rw [gen_seed_eq]
  intro h
  have : words (Xo.seed s) = words ⟨0, 0, 0, 0⟩ := by
    have h' : words (Xo.seed s) = [0, 0, 0, 0] := by simpa using h
    rw [h']; rfl
  exact seed_ne_zero s (words_inj this)

/-- **eq_iff_same_stream**: the code's `operator==` answers `true` exactly when the two engines will produce
    the same sequence of numbers forever (four equal numbers suffice). -/
theorem eq_iff_same_stream (a b : Xo) :
    U.eqOf GenCode.prog (words a) (words b) = some true ↔ ∀ n, genNth (words a) n = genNth (words b) n := by
  rw [gen_eq_eq]
  constructor
  · intro h
    have hab : a = b := by simpa using h
    intro n; rw [hab]
  · intro h
    have : a = b := state_of_outputs a b (fun n _ => by
      have := h n
      rw [genNth_eq, genNth_eq] at this
      simpa using this)
    simp [this]

theorem eq_of_four_outputs (a b : Xo) (h : ∀ n, n < 4 → a.nth n = b.nth n) : a = b := state_of_outputs a b h

/-- **stream_after_roundtrip_code**: under every demanded stream configuration the restored engine makes the
    translated `operator()` produce exactly the numbers the original would have produced. -/
theorem stream_after_roundtrip_code (c : Cfg) (h : Demanded c) (a b : Xo) :
    ∃ r, saveRestoreC c Gen.writeItems Gen.readIdx a b = some (r, true) ∧
      ∀ n, genNth (words r) n = genNth (words a) n :=
  ⟨a, cfg_state_roundtrip c h a b, fun _ => rfl⟩

/-! ### vita::random: ranges

Integral draws go through libstdc++'s `uniform_int_distribution` (Lemire's method, modelled in
Vita/Common/Rng.lean and compared bit for bit with the compiled functions); floating-point draws are
`canonical * (sup - min) + min` with a rounding after every operation: `Rounding` states the IEEE hypotheses used
(round-to-nearest is monotone and the identity on representable numbers).  `[min, sup)` holds for the
integral functions; for doubles `min ≤ x` always, `x ≤ sup` when `sup - min` is computed exactly, and `x < sup`
for every draw iff it holds for the largest canonical value (it does not for e.g. `between(1.0, 2.0)`: the
differential run constructs that draw, see design/C07.md). -/

/-- `random::between<integral>(min, sup)`, `random::in(range)`: `min ≤ x < sup` for every engine state -/
theorem between_int_in_range (min sup : Int) (e : Xo) (h : min < sup) (hw : sup - min ≤ 2 ^ 64) :
    min ≤ (between min sup e).1 ∧ (between min sup e).1 < sup := between_in_range min sup e h hw
/-- `random::sup(n)` -/
theorem sup_below (n : Nat) (e : Xo) (h : 0 < n) (hw : n ≤ 2 ^ 64) : (sup n e).1 < n := sup_lt n e h hw
/-- `random::element(c)`: the index drawn is inside the container -/
theorem element_in_bounds (size : Nat) (e : Xo) (h : 0 < size) (hw : size ≤ 2 ^ 64) :
    (elementIdx size e).1 < size := sup_lt size e h hw
/-- `random::ring(base, width, n)` stays in `[0, n)` -/
theorem ring_below (base width n : Nat) (e : Xo) (hn : 1 < n) (hn32 : n ≤ 2 ^ 32) :
    (ring base width n e).1 < n := ring_lt base width n e hn hn32
/-- `random::between<floating>(min, sup)`: never below `min` -/
theorem between_real_lower (R : Rounding) (a b c : Rat) (ha : R.rep a) (hab : a ≤ b) (hc : 0 ≤ c) :
    a ≤ betweenQ R a b c := betweenQ_ge R a b c ha hab hc
/-- … not above `sup` when the width `sup - min` is representable -/
theorem between_real_upper (R : Rounding) (a b c : Rat) (hb : R.rep b) (hw : R.rnd (b - a) = b - a)
    (hab : a ≤ b) (hc : c ≤ 1) : betweenQ R a b c ≤ b := betweenQ_le R a b c hb hw hab hc
/-- … monotone in the canonical value: `x < sup` for all draws iff for the largest canonical value -/
theorem between_real_strict_of_max (R : Rounding) (a b c cmax : Rat) (hab : a ≤ b) (hc : c ≤ cmax)
    (hmax : betweenQ R a b cmax < b) : betweenQ R a b c < b := betweenQ_lt_of_max R a b c cmax hab hc hmax
/-- `random::boolean(0)` is never true, `random::boolean(1)` always (canonical values lie in `[0, 1)`) -/
theorem boolean_zero (c : Rat) (hc : 0 ≤ c) : booleanQ 0 c = false := by
  simp [booleanQ]; exact Rat.not_lt.mpr hc
theorem boolean_one (c : Rat) (hc : c < 1) : booleanQ 1 c = true := by
  simp [booleanQ, hc]

/-! ### non-vacuity -/
/-- exact arithmetic is a `Rounding` -/
def exactRounding : Rounding := ⟨id, fun _ _ h => h, fun _ => True, fun _ _ => rfl, trivial⟩
example : (1 : Rat) ≤ betweenQ exactRounding 1 3 1 :=
  between_real_lower exactRounding 1 3 1 trivial (by decide) (by decide)
example : betweenQ exactRounding 1 3 1 ≤ 3 :=
  between_real_upper exactRounding 1 3 1 trivial rfl (by decide) (by decide)
example : U.seedOf GenCode.prog 0 (words ⟨7, 7, 7, 7⟩) = some (words (Xo.seed Xo.defSeed)) := by
  rw [gen_seed_eq]; rfl
example : U.rotlOf GenCode.prog 1 64 = none := by decide
example : Demanded { facet := true, sep := ',', grouping := [3], width := 30, fill := ' ', adjust := 2,
                     showbase := true, showpos := true } := by decide
example : putState { facet := true, sep := ',', grouping := [3, 2] } Gen.writeItems 0
      ⟨1, 20000, 0, 18446744073709551615⟩ = some "1 20,000 0 1,84,46,74,40,73,70,95,51,615".toList := by decide
example : saveRestoreC { facet := true, sep := '.', grouping := [3], width := 12, adjust := 1 }
      Gen.writeItems Gen.readIdx ⟨1234567, 20, 0, 18446744073709551615⟩ ⟨9, 9, 9, 9⟩
    = some (⟨1234567, 20, 0, 18446744073709551615⟩, true) := by decide
example : writeState Gen.writeItems ⟨1, 20, 0, 18446744073709551615⟩ =
    some "1 20 0 18446744073709551615".toList := by decide
example : readState Gen.readIdx ⟨9, 9, 9, 9⟩ "1 20 0 18446744073709551615".toList false =
    some (⟨1, 20, 0, 18446744073709551615⟩, true) := by decide

end Vita.C07
