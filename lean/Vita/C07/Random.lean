/-
  C07 — `vita::random` (src/kernel/random.h, random.cc) as functions of the engine stream, on top of the
  libstdc++ 12 distribution algorithms (this engine: 64-bit URNG, range [0, 2^64)):

    uniform_int_distribution           Vita.Rng.uniformInt (Lemire's multiply-shift with rejection)
    generate_canonical<double, 53>     k = 1 draw: double(g) / 2^64, and the largest double below 1 when that
                                       rounds to 1 (`canonical`)
    uniform_real_distribution(a, b)    canonical * (b - a) + a                       (`betweenD`)
    bernoulli_distribution(p)          canonical < p                                 (`boolean`)
    ring, sup, element, in             arithmetic around the above

  Executable part on hardware doubles (`Float`; compared bit for bit with the compiled functions), and a
  model over ℚ with an abstract rounding function for the range theorems (`Rounding`: monotone, identity on
  the representable numbers – the stated IEEE hypotheses).
-/
import Vita.Common.Rng
namespace Vita.C07
open Vita.Rng

/-- `std::generate_canonical<double, 53>(engine)` -/
def canonical (e : Xo) : Float × Xo :=
  let (g, e) := e.next
  let r := g.toFloat / 18446744073709551616.0
  ((if r ≥ 1.0 then Float.ofBits 0x3FEFFFFFFFFFFFFF else r), e)

/-- `vita::random::between<double>(min, sup)` = `std::uniform_real_distribution<double>(min, sup)(engine)` -/
def betweenD (a b : Float) (e : Xo) : Float × Xo :=
  let (c, e) := canonical e
  (c * (b - a) + a, e)

/-- `vita::random::boolean(p)` = `std::bernoulli_distribution(p)(engine)` -/
def boolean (p : Float) (e : Xo) : Bool × Xo :=
  let (c, e) := canonical e
  (c < p, e)

/-- `vita::random::ring(base, width, n)` (unsigned 32-bit arithmetic) -/
def ring (base width n : Nat) (e : Xo) : Nat × Xo :=
  if width ≥ n then
    let (v, e) := between 0 n e
    (v.toNat, e)
  else
    let minVal := (base + n - width / 2) % 2 ^ 32
    let (v, e) := between 0 width e
    (((minVal + v.toNat) % 2 ^ 32) % n, e)

/-- `vita::random::element(c)`: the index chosen in a container of `size` elements -/
def elementIdx (size : Nat) (e : Xo) : Nat × Xo := sup size e

/-! ### ranges over ℚ with an abstract rounding -/

/-- round-to-nearest as far as the proofs need it -/
structure Rounding where
  rnd : Rat → Rat
  mono : ∀ x y, x ≤ y → rnd x ≤ rnd y
  /-- the representable numbers -/
  rep : Rat → Prop
  rnd_rep : ∀ x, rep x → rnd x = x
  rep_zero : rep 0

/-- `c * (b - a) + a` with a rounding after every operation -/
def betweenQ (R : Rounding) (a b c : Rat) : Rat := R.rnd (R.rnd (c * R.rnd (b - a)) + a)

/-- `canonical < p` -/
def booleanQ (p c : Rat) : Bool := decide (c < p)

end Vita.C07
