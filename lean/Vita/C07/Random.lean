/-
  C07 — `vita::random` (src/kernel/random.h, random.cc) as functions of the engine stream, on top of the
  libstdc++ 12 distribution algorithms (this engine: 64-bit URNG, range [0, 2^64)):

    uniform_int_distribution           Vita.Rng.uniformInt (Lemire's multiply-shift with rejection)
    generate_canonical<double, 53>     k = 1 draw: double(g) / 2^64, and the largest double below 1 when that
                                       rounds to 1 (`canonical`)
    uniform_real_distribution(a, b)    canonical * (b - a) + a                       (`betweenD`)
    bernoulli_distribution(p)          canonical < p                                 (`boolean`)
    ring, sup, element, in             arithmetic around the above

  Executable part on hardware doubles (`Float`; compared bit for bit with the compiled functions), and a
  model over ℚ with an abstract rounding function for the range theorems (`Rounding`: monotone, identity on
  the representable numbers – the stated IEEE hypotheses).
-/
import Vita.Common.Rng
namespace Vita.C07
open Vita.Rng

/-- `std::generate_canonical<double, 53>(engine)` -/
def canonical (e : Xo) : Float × Xo :=
  let (g, e) := e.next
  let r := g.toFloat / 18446744073709551616.0
  ((if r ≥ 1.0 then Float.ofBits 0x3FEFFFFFFFFFFFFF else r), e)

/-- `std::nextafter(x, y)` on finite doubles -/
def nextafterD (x y : Float) : Float :=
  if x == y then y
  else if x == 0.0 then (if y > 0.0 then Float.ofBits 1 else Float.ofBits 0x8000000000000001)
  else if (x < y) == (x > 0.0) then Float.ofBits (x.toBits + 1) else Float.ofBits (x.toBits - 1)

/-- `std::uniform_real_distribution<double>(min, sup)(engine)` clamped below `sup`
    (`ret < sup ? ret : std::nextafter(sup, min)`, fix 0273cad) -/
def betweenD1 (a b : Float) (e : Xo) : Float × Xo :=
  let (c, e) := canonical e
  let x := c * (b - a) + a
  ((if x < b then x else nextafterD b a), e)

/-- `vita::random::between<double>(min, sup)`: an interval whose width is not representable is drawn at half
    scale (fix 8748247) -/
def betweenD (a b : Float) (e : Xo) : Float × Xo :=
  if (b - a).isFinite then betweenD1 a b e
  else
    let (v, e) := betweenD1 (a / 2.0) (b / 2.0) e
    (2.0 * v, e)

/-- `vita::random::boolean(p)` = `std::bernoulli_distribution(p)(engine)` -/
def boolean (p : Float) (e : Xo) : Bool × Xo :=
  let (c, e) := canonical e
  (c < p, e)

/-- `vita::random::ring(base, width, n)` (unsigned 32-bit arithmetic) -/
def ring (base width n : Nat) (e : Xo) : Nat × Xo :=
  if width ≥ n then
    let (v, e) := between 0 n e
    (v.toNat, e)
  else
    let minVal := (base + n - width / 2) % 2 ^ 32
    let (v, e) := between 0 width e
    (((minVal + v.toNat) % 2 ^ 32) % n, e)

/-- `vita::random::element(c)`: the index chosen in a container of `size` elements -/
def elementIdx (size : Nat) (e : Xo) : Nat × Xo := sup size e

/-! ### ranges over ℚ with an abstract rounding -/

/-- round-to-nearest as far as the proofs need it -/
structure Rounding where
  rnd : Rat → Rat
  mono : ∀ x y, x ≤ y → rnd x ≤ rnd y
  /-- the representable numbers -/
  rep : Rat → Prop
  rnd_rep : ∀ x, rep x → rnd x = x
  rep_zero : rep 0

/-- `c * (b - a) + a` with a rounding after every operation -/
def betweenQ (R : Rounding) (a b c : Rat) : Rat := R.rnd (R.rnd (c * R.rnd (b - a)) + a)

/-- `canonical < p` -/
def booleanQ (p c : Rat) : Bool := decide (c < p)

end Vita.C07
