/-
  C07 — range lemmas for `vita::random` (Vita/C07/Random.lean).
-/
import Vita.C07.Random
import Vita.Common.RngLemmas
namespace Vita.C07
open Vita.Rng

theorem rnd_nonneg (R : Rounding) {x : Rat} (h : 0 ≤ x) : 0 ≤ R.rnd x := by
  have := R.mono 0 x h
  rwa [R.rnd_rep 0 R.rep_zero] at this

theorem betweenQ_ge (R : Rounding) (a b c : Rat) (ha : R.rep a) (hab : a ≤ b) (hc : 0 ≤ c) :
    a ≤ betweenQ R a b c := by
  unfold betweenQ
  have h1 : 0 ≤ R.rnd (b - a) := rnd_nonneg R (by grind)
  have h2 : 0 ≤ R.rnd (c * R.rnd (b - a)) := rnd_nonneg R (Rat.mul_nonneg hc h1)
  have h3 : a ≤ R.rnd (c * R.rnd (b - a)) + a := by grind
  have := R.mono _ _ h3
  rwa [R.rnd_rep a ha] at this

theorem betweenQ_mono (R : Rounding) (a b c c' : Rat) (hab : a ≤ b) (h : c ≤ c') :
    betweenQ R a b c ≤ betweenQ R a b c' := by
  unfold betweenQ
  have h1 : 0 ≤ R.rnd (b - a) := rnd_nonneg R (by grind)
  have h2 := R.mono _ _ (Rat.mul_le_mul_of_nonneg_right h h1)
  exact R.mono _ _ (by grind)

theorem betweenQ_le (R : Rounding) (a b c : Rat) (hb : R.rep b) (hw : R.rnd (b - a) = b - a) (hab : a ≤ b)
    (hc : c ≤ 1) : betweenQ R a b c ≤ b := by
  unfold betweenQ
  rw [hw]
  have h0 : 0 ≤ b - a := by grind
  have h1 : c * (b - a) ≤ 1 * (b - a) := Rat.mul_le_mul_of_nonneg_right hc h0
  have h2 := R.mono _ _ h1
  rw [Rat.one_mul, hw] at h2
  have h3 : R.rnd (c * (b - a)) + a ≤ b := by grind
  have := R.mono _ _ h3
  rwa [R.rnd_rep b hb] at this

theorem betweenQ_lt_of_max (R : Rounding) (a b c cmax : Rat) (hab : a ≤ b) (hc : c ≤ cmax)
    (hmax : betweenQ R a b cmax < b) : betweenQ R a b c < b := by
  have := betweenQ_mono R a b c cmax hab hc
  grind

theorem ring_lt (base width n : Nat) (e : Xo) (hn : 1 < n) (hn32 : n ≤ 2 ^ 32) :
    (ring base width n e).1 < n := by
  unfold ring
  split
  · have := between_in_range 0 n e (by omega) (by omega)
    simp only
    omega
  · simp only
    exact Nat.mod_lt _ (by omega)

end Vita.C07
