/-
  C07 — the state save / restore of the generator under an ARBITRARY stream configuration.

  `operator<<` / `operator>>` of xoshiro256ss are chains of formatted insertions / extractions of
  `std::uint64_t`; what they write and accept therefore depends on the formatting state and the
  locale of the stream they are handed, none of which the engine fixes:

    basefield (dec / hex / oct / none), showbase, uppercase, showpos, width + fill + adjustfield
    (the width applies to the FIRST insertion only: every formatted insertion resets it),
    skipws, and the `std::numpunct<char>` facet of the imbued locale (thousands separator and
    grouping string; decimal point fixed to '.').

  `Cfg` is that configuration.  `putWord` models libstdc++ 12's `num_put::_M_insert_int` for an unsigned
  64-bit value (digits, `std::__add_grouping`, base prefix, `__pad::_S_pad`), `getWord` models the
  `istream::sentry` + `num_get::_M_extract_int` (sign, leading zeros / base prefix, digits and thousands
  separators, `std::__verify_grouping`, overflow, the eofbit).  Both are executable and compared with the
  compiled library on every run (requests `cfgrt`, `cfgload` of the driver).

  Reversed formulation of the grouping algorithms (they work from the right end of the digit string):
  `splitRev gs fuel dr` cuts the REVERSED digit string `dr` into chunks, rightmost group first, following
  the grouping string `gs` whose last element repeats; `verifyRev gs fr` checks the REVERSED list of group
  sizes found by the reader.
-/
import Vita.C07.Model
namespace Vita.C07
open Vita.Rng

structure Cfg where
  base : Nat := 10          -- 10 dec, 16 hex, 8 oct, 0 = no basefield bit (writes decimal, reads like %i)
  showbase : Bool := false
  upper : Bool := false
  showpos : Bool := false   -- no effect on an unsigned value (kept to show it)
  width : Nat := 0
  fill : Char := ' '
  adjust : Nat := 0         -- 0 left, 1 right, 2 internal, 3 none
  skipws : Bool := true
  facet : Bool := false     -- a numpunct facet is imbued
  sep : Char := ','         -- numpunct::thousands_sep()
  grouping : List Nat := [] -- numpunct::grouping(), bytes as 0..255
deriving Repr

/-- the configuration of a default-constructed stream in the classic locale -/
def Cfg.classic : Cfg := {}

/-- a grouping byte that limits a group: positive as `signed char` and not CHAR_MAX -/
def posG (g : Nat) : Bool := decide (0 < g ∧ g < 127)

/-- the grouping string as the numpunct cache of the shipped libstdc++.so.6 sees it: a NUL byte ends it
    (observed: grouping "\3\0\2" behaves like "\3") -/
def Cfg.gs (c : Cfg) : List Nat := c.grouping.takeWhile (· ≠ 0)

/-- `__numpunct_cache::_M_use_grouping` -/
def Cfg.useg (c : Cfg) : Bool :=
  c.facet && match c.gs with
    | g :: _ => posG g
    | [] => false

/-- current grouping byte (0 when the string is empty) -/
def headG : List Nat → Nat
  | g :: _ => g
  | [] => 0

/-- next position in the grouping string: the last element repeats -/
def nextG : List Nat → List Nat
  | _ :: h :: t => h :: t
  | gs => gs

/-- `std::__add_grouping` on the reversed digit string: chunks, rightmost group first -/
def splitRev : List Nat → Nat → Text → List Text
  | _, 0, dr => [dr]
  | gs, fuel + 1, dr =>
    let g := headG gs
    if g < dr.length ∧ posG g = true then dr.take g :: splitRev (nextG gs) fuel (dr.drop g)
    else [dr]

/-- the groups of a digit string, leftmost first -/
def groupsOf (gs : List Nat) (ds : Text) : List Text :=
  (splitRev gs ds.length ds.reverse).reverse.map List.reverse

def joinSep (sep : Char) : List Text → Text
  | [] => []
  | [g] => g
  | g :: r => g ++ sep :: joinSep sep r

def upperHex (ch : Char) : Char := if 'a' ≤ ch ∧ ch ≤ 'f' then Char.ofNat (ch.toNat - 32) else ch

/-- stage 1 of `_M_insert_int`: the digits of `v` in the stream's base -/
def digitsOf (c : Cfg) (v : UInt64) : Text :=
  if c.base = 16 then
    let ds := Nat.toDigits 16 v.toNat
    if c.upper then ds.map upperHex else ds
  else if c.base = 8 then Nat.toDigits 8 v.toNat
  else Nat.toDigits 10 v.toNat

/-- digits with thousands separators, then the base prefix -/
def unpadded (c : Cfg) (v : UInt64) : Text :=
  let ds := digitsOf c v
  let body := if c.useg then joinSep c.sep (groupsOf c.gs ds) else ds
  let pre : Text :=
    if c.showbase ∧ v ≠ 0 then
      if c.base = 16 then ['0', if c.upper then 'X' else 'x']
      else if c.base = 8 then ['0'] else []
    else []
  pre ++ body

/-- `__pad<char>::_S_pad` -/
def padTo (c : Cfg) (w : Nat) (t : Text) : Text :=
  if t.length < w then
    let f := List.replicate (w - t.length) c.fill
    if c.adjust = 0 then t ++ f
    else if c.adjust = 2 then
      match t with
      | a :: b :: r =>
        if a = '-' ∨ a = '+' then a :: (f ++ b :: r)
        else if a = '0' ∧ (b = 'x' ∨ b = 'X') then a :: b :: (f ++ r)
        else f ++ t
      | [a] => if a = '-' ∨ a = '+' then a :: f else f ++ t
      | [] => f
    else f ++ t
  else t

/-- `ostream << uint64` with width `w` pending -/
def putWord (c : Cfg) (w : Nat) (v : UInt64) : Text := padTo c w (unpadded c v)

/-- `ostream << char` with width `w` pending (`__ostream_insert`) -/
def putChar (c : Cfg) (w : Nat) (ch : Char) : Text :=
  if 1 < w then
    if c.adjust = 0 then ch :: List.replicate (w - 1) c.fill else List.replicate (w - 1) c.fill ++ [ch]
  else [ch]

/-- `operator<<` for an operand list on a stream with configuration `c` and pending width `w`;
    `none` = out-of-bounds read of `state` -/
def putState (c : Cfg) : List Item → Nat → Xo → Option Text
  | [], _, _ => some []
  | .st i :: r, w, e => if i < 4 then (putState c r 0 e).map (putWord c w (e.get i) ++ ·) else none
  | .ch ch :: r, w, e => (putState c r 0 e).map (putChar c w ch ++ ·)

/-! ### reading -/

/-- value of a digit of the base (`_M_atoms_in` from `_S_izero`: 0-9 a-f A-F; first `base` of them) -/
def digitVal (base : Nat) (ch : Char) : Option Nat :=
  if ch.isDigit ∧ (ch.toNat - 48 < base) then some (ch.toNat - 48)
  else if base = 16 ∧ 'a' ≤ ch ∧ ch ≤ 'f' then some (ch.toNat - 87)
  else if base = 16 ∧ 'A' ≤ ch ∧ ch ≤ 'F' then some (ch.toNat - 55)
  else none

/-- result of the leading-zeros / base-prefix loop of `_M_extract_int` -/
structure Lead where
  base : Nat
  foundZero : Bool
  sepPos : Nat
  rest : Text
deriving Repr

/-- the loop "look for leading zeros and check required digits for base formats";
    `bf0` = no basefield bit set (the base is determined by the text) -/
def lead (useg : Bool) (sep : Char) (bf0 : Bool) : Nat → Bool → Nat → Text → Lead
  | base, fz, sp, [] => ⟨base, fz, sp, []⟩
  | base, fz, sp, ch :: r =>
    if (useg ∧ ch = sep) ∨ ch = '.' then ⟨base, fz, sp, ch :: r⟩
    else if ch = '0' ∧ (fz = false ∨ base = 10) then
      let base' := if bf0 then 8 else base
      lead useg sep bf0 base' true (if base' = 8 then 0 else sp + 1) r
    else if fz = true ∧ (ch = 'x' ∨ ch = 'X') then
      let base' := if bf0 then 16 else base
      if base' = 16 then ⟨16, false, 0, r⟩ else ⟨base', fz, sp, ch :: r⟩
    else ⟨base, fz, sp, ch :: r⟩

/-- result of the digit loop -/
structure Scan where
  acc : Nat              -- `__result` (an unsigned 64-bit accumulator: wraps once it has overflowed)
  ovf : Bool             -- `__testoverflow`
  sepPos : Nat           -- digits accepted since the last separator
  found : List Nat       -- sizes of the groups closed by a separator, leftmost first
  testfail : Bool        -- separator not preceded by an accepted digit
  rest : Text
deriving Repr

/-- the digit loop of `_M_extract_int`.  As in the library a digit met when `__result > max / base` only
    raises the overflow flag: it is not accumulated and does not count for the grouping. -/
def scan (useg : Bool) (sep : Char) (base : Nat) : Nat → Bool → Nat → List Nat → Text → Scan
  | acc, ovf, sp, fd, [] => ⟨acc, ovf, sp, fd, false, []⟩
  | acc, ovf, sp, fd, ch :: r =>
    if useg ∧ ch = sep then
      if sp ≠ 0 then scan useg sep base acc ovf 0 (fd ++ [sp]) r
      else ⟨acc, ovf, sp, fd, true, ch :: r⟩
    else if ch = '.' then ⟨acc, ovf, sp, fd, false, ch :: r⟩
    else
      match digitVal base ch with
      | none => ⟨acc, ovf, sp, fd, false, ch :: r⟩
      | some d =>
        if acc > (2 ^ 64 - 1) / base then scan useg sep base acc true sp fd r
        else scan useg sep base ((base * acc + d) % 2 ^ 64) (ovf || decide (base * acc + d ≥ 2 ^ 64)) (sp + 1) fd r

/-- `std::__verify_grouping` on the reversed list of found group sizes -/
def verifyRev : List Nat → List Nat → Bool
  | _, [] => true
  | gs, [f0] => let g := headG gs; if posG g then decide (f0 ≤ g) else true
  | gs, f :: r => decide (f = headG gs) && verifyRev (nextG gs) r

/-- outcome of one `istream >> uint64` -/
structure Got where
  store : Option UInt64   -- value stored into the variable (`none`: untouched)
  fail : Bool             -- failbit
  eof : Bool              -- eofbit
  rest : Text
deriving Repr

/-- the sign test of `_M_extract_int`: (negative, text after the sign) -/
def signOf (useg : Bool) (sep : Char) : Text → Bool × Text
  | ch :: r =>
    if (ch = '-' ∨ ch = '+') ∧ ¬ (useg = true ∧ ch = sep) ∧ ch ≠ '.' then (decide (ch = '-'), r)
    else (false, ch :: r)
  | [] => (false, [])

/-- the base `_M_extract_int` starts with -/
def base0 (c : Cfg) : Nat := if c.base = 8 then 8 else if c.base = 16 then 16 else 10

/-- the end of `_M_extract_int`: grouping check, "no digits", overflow, the value -/
def verdict (gs : List Nat) (neg fz : Bool) (s : Scan) : Got :=
  let found := if s.found = [] then [] else s.found ++ [s.sepPos]
  let gfail := !(found == []) && !(verifyRev gs found.reverse)
  let eof := decide (s.rest = [])
  if (s.sepPos = 0 ∧ fz = false ∧ s.found = []) ∨ s.testfail = true then ⟨some 0, true, eof, s.rest⟩
  else if s.ovf then ⟨some 0xFFFFFFFFFFFFFFFF, true, eof, s.rest⟩
  else
    let v := s.acc.toUInt64
    ⟨some (if neg then 0 - v else v), gfail, eof, s.rest⟩

/-- `num_get::_M_extract_int<unsigned long>` -/
def getInt (c : Cfg) (t : Text) : Got :=
  let sg := signOf c.useg c.sep t
  let l := lead c.useg c.sep (decide (c.base = 0)) (base0 c) false 0 sg.2
  let s := scan c.useg c.sep l.base 0 false l.sepPos [] l.rest
  verdict c.gs sg.1 l.foundZero s

/-- the sentry, then `num_get`; `bad` = the stream was not good() (eofbit or failbit already set) -/
def getWord (c : Cfg) (t : Text) (bad : Bool) : Got :=
  if bad then ⟨none, true, true, t⟩
  else
    let t' := if c.skipws then t.dropWhile isSpace else t
    if c.skipws ∧ t' = [] then ⟨none, true, true, []⟩
    else getInt c t'

/-- `operator>>` for an index list; the state threaded is (engine, text, failbit, eofbit);
    `none` = out-of-bounds subscript -/
def getState (c : Cfg) : List Nat → Xo → Text → (failed eof : Bool) → Option (Xo × Bool)
  | [], e, _, failed, _ => some (e, !failed)
  | i :: r, e, t, failed, eof =>
    if i < 4 then
      if failed then getState c r e t true eof
      else
        let g := getWord c t eof
        let e' := match g.store with
          | some v => e.set i v
          | none => e
        getState c r e' g.rest g.fail g.eof
    else none

/-- save engine `a` on a stream with configuration `c`, restore from the same stream into engine `b` -/
def saveRestoreC (c : Cfg) (items : List Item) (idx : List Nat) (a b : Xo) : Option (Xo × Bool) :=
  match putState c items c.width a with
  | none => none
  | some t => getState c idx b t false false

/-- The configurations for which the property demands the round trip (design/C07.md):
    decimal, white space skipped, padding (if any) made of blanks, and the thousands separator of an
    imbued grouping locale neither a digit nor a blank. -/
def Demanded (c : Cfg) : Prop :=
  c.base = 10 ∧ c.skipws = true ∧ (c.width = 0 ∨ isSpace c.fill = true) ∧
  (c.useg = true → c.sep.isDigit = false ∧ isSpace c.sep = false)

instance (c : Cfg) : Decidable (Demanded c) := by unfold Demanded; exact inferInstance

end Vita.C07
