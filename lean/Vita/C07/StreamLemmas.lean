/-
  C07 helper lemmas for the stream-configuration model (Vita/C07/Stream.lean):
  what `putWord` writes under a demanded configuration is read back exactly by `getWord`.
-/
import Vita.C07.Stream
import Vita.C07.Lemmas
namespace Vita.C07
open Vita.Rng

/-! ### grouping: `splitRev` / `verifyRev` -/

theorem splitRev_ne_nil (gs : List Nat) (fuel : Nat) (dr : Text) : splitRev gs fuel dr ≠ [] := by
  cases fuel with
  | zero => simp [splitRev]
  | succ f =>
    unfold splitRev
    simp only
    split <;> simp

theorem splitRev_flatten (gs : List Nat) (fuel : Nat) (dr : Text) :
    (splitRev gs fuel dr).flatten = dr := by
  induction fuel generalizing gs dr with
  | zero => simp [splitRev]
  | succ f ih =>
    unfold splitRev
    simp only
    split
    · simp [ih]
    · simp

theorem splitRev_nonempty (gs : List Nat) (fuel : Nat) (dr : Text) (h : dr ≠ []) :
    ∀ x ∈ splitRev gs fuel dr, x ≠ [] := by
  induction fuel generalizing gs dr with
  | zero => simp [splitRev, h]
  | succ f ih =>
    unfold splitRev
    simp only
    split
    · rename_i hc
      intro x hx
      simp only [List.mem_cons] at hx
      rcases hx with rfl | hx
      · have hg : 0 < headG gs := by
          have := hc.2
          simp [posG] at this
          omega
        intro h0
        have hl : (dr.take (headG gs)).length = min (headG gs) dr.length := List.length_take
        rw [h0] at hl
        have := hc.1
        simp only [List.length_nil] at hl
        omega
      · refine ih _ _ ?_ x hx
        intro h0
        have := congrArg List.length h0
        simp at this
        omega
    · simp [h]

theorem verifyRev_splitRev (gs : List Nat) (fuel : Nat) (dr : Text) (hf : dr.length ≤ fuel) :
    verifyRev gs ((splitRev gs fuel dr).map List.length) = true := by
  induction fuel generalizing gs dr with
  | zero =>
    have : dr.length = 0 := by omega
    simp [splitRev, verifyRev, this]
  | succ f ih =>
    unfold splitRev
    simp only
    split
    · rename_i hc
      have hg : 0 < headG gs := by
        have := hc.2
        simp [posG] at this
        omega
      have hrec := ih (nextG gs) (dr.drop (headG gs)) (by simp; omega)
      have hne := splitRev_ne_nil (nextG gs) f (dr.drop (headG gs))
      obtain ⟨x, xs, hx⟩ := List.exists_cons_of_ne_nil hne
      rw [hx] at hrec ⊢
      simp only [List.map_cons, verifyRev] at hrec ⊢
      simp [hrec]
      omega
    · rename_i hc
      simp only [List.map_cons, List.map_nil, verifyRev]
      split
      · rename_i hp
        simp
        have : ¬ (headG gs < dr.length) := fun h => hc ⟨h, hp⟩
        omega
      · rfl

/-! ### joined groups -/

/-- size of the last (open) group after reading the groups `G` starting with `sp` digits pending -/
def lastSp : Nat → List Text → Nat
  | sp, [] => sp
  | sp, [g] => sp + g.length
  | _, _ :: r => lastSp 0 r

/-- closed groups found after reading the groups `G` -/
def foundOf : Nat → List Nat → List Text → List Nat
  | sp, fd, g :: g' :: r => foundOf 0 (fd ++ [sp + g.length]) (g' :: r)
  | _, fd, _ => fd

theorem foundOf_lastSp (sp : Nat) (fd : List Nat) (g : Text) (r : List Text) :
    foundOf sp fd (g :: r) ++ [lastSp sp (g :: r)] = fd ++ (sp + g.length) :: r.map List.length := by
  induction r generalizing sp fd g with
  | nil => simp [foundOf, lastSp]
  | cons g' r ih =>
    simp only [foundOf, lastSp]
    rw [ih]
    simp

theorem foundOf_eq_nil_iff (sp : Nat) (g : Text) (r : List Text) :
    foundOf sp [] (g :: r) = [] ↔ r = [] := by
  cases r with
  | nil => simp [foundOf]
  | cons g' r =>
    simp only [foundOf, List.nil_append]
    constructor
    · intro h
      have := foundOf_lastSp 0 [sp + g.length] g' r
      rw [h] at this
      have := congrArg List.length this
      simp at this
    · intro h; cases h

theorem lastSp_pos (sp : Nat) (G : List Text) (hne : G ≠ []) (hG : ∀ g ∈ G, g ≠ []) : lastSp sp G ≠ 0 := by
  induction G generalizing sp with
  | nil => exact absurd rfl hne
  | cons g r ih =>
    cases r with
    | nil =>
      have : g ≠ [] := hG g (by simp)
      have : 0 < g.length := List.length_pos_iff.mpr this
      show sp + g.length ≠ 0
      omega
    | cons g' r =>
      simp only [lastSp]
      exact ih 0 (by simp) (fun x hx => hG x (by simp [hx]))

/-! ### digits -/

theorem le_ofDigitChars (l : Text) (init : Nat) : init ≤ Nat.ofDigitChars 10 l init := by
  rw [Nat.ofDigitChars_eq_ofDigitChars_zero]
  have : 1 ≤ 10 ^ l.length := Nat.pow_pos (by decide)
  have := Nat.mul_le_mul_right init this
  omega

theorem digitVal_ten_of_isDigit {ch : Char} (h : ch.isDigit = true) :
    digitVal 10 ch = some (ch.toNat - '0'.toNat) := by
  have h' := h
  simp only [Char.isDigit, Bool.and_eq_true, decide_eq_true_eq] at h'
  have h1 : ch.toNat - 48 < 10 := by
    have := h'.1; have := h'.2
    simp only [UInt32.le_iff_toNat_le] at *
    simp only [Char.toNat]
    simp at *
    omega
  unfold digitVal
  simp [h, h1]

theorem digitVal_ten_none {ch : Char} (h : ch.isDigit = false) : digitVal 10 ch = none := by
  unfold digitVal
  simp [h]

/-- a character after which the digit loop stops: not a digit, not the thousands separator -/
def StopsC (useg : Bool) (sep : Char) (t : Text) : Prop :=
  t = [] ∨ ∃ y r, t = y :: r ∧ y.isDigit = false ∧ ¬ (useg = true ∧ y = sep)

theorem scan_stop (useg : Bool) (sep : Char) (acc : Nat) (ovf : Bool) (sp : Nat) (fd : List Nat) (t : Text)
    (ht : StopsC useg sep t) : scan useg sep 10 acc ovf sp fd t = ⟨acc, ovf, sp, fd, false, t⟩ := by
  rcases ht with rfl | ⟨y, r, rfl, hy, hs⟩
  · simp [scan]
  · unfold scan
    simp only [hs, if_false]
    split
    · rfl
    · simp [digitVal_ten_none hy]

/-- a block of digits that are neither the separator nor '.' -/
def DigitBlock (useg : Bool) (sep : Char) (ds : Text) : Prop :=
  ∀ x ∈ ds, x.isDigit = true ∧ ¬ (useg = true ∧ x = sep)

theorem isDigit_ne_dot {x : Char} (h : x.isDigit = true) : x ≠ '.' := by
  intro h0; subst h0; simp [Char.isDigit] at h

theorem scan_digits (useg : Bool) (sep : Char) (ds : Text) (hds : DigitBlock useg sep ds) :
    ∀ (acc sp : Nat) (fd : List Nat) (tail : Text), Nat.ofDigitChars 10 ds acc < 2 ^ 64 →
      scan useg sep 10 acc false sp fd (ds ++ tail) =
        scan useg sep 10 (Nat.ofDigitChars 10 ds acc) false (sp + ds.length) fd tail := by
  induction ds with
  | nil => intro acc sp fd tail _; simp [Nat.ofDigitChars_nil]
  | cons ch ds ih =>
    intro acc sp fd tail hlt
    have hch := hds ch (by simp)
    have hrest : DigitBlock useg sep ds := fun x hx => hds x (by simp [hx])
    rw [Nat.ofDigitChars_cons] at hlt ⊢
    have hle := le_ofDigitChars ds (10 * acc + (ch.toNat - '0'.toNat))
    have hacc : ¬ (acc > (2 ^ 64 - 1) / 10) := by omega
    have hno : (10 * acc + (ch.toNat - '0'.toNat)) % 2 ^ 64 = 10 * acc + (ch.toNat - '0'.toNat) :=
      Nat.mod_eq_of_lt (by omega)
    have hge : ¬ (10 * acc + (ch.toNat - '0'.toNat) ≥ 2 ^ 64) := by omega
    show scan useg sep 10 acc false sp fd (ch :: (ds ++ tail)) = _
    rw [scan]
    simp only [hch.2, if_false, isDigit_ne_dot hch.1, digitVal_ten_of_isDigit hch.1, hacc, hno, hge,
      decide_false, Bool.or_false]
    rw [ih hrest _ _ _ _ hlt]
    simp [Nat.add_assoc, Nat.add_comm 1]

/-- reading groups of digits joined by the separator -/
theorem scan_groups (sep : Char) (G : List Text) :
    ∀ (useg : Bool) (acc sp : Nat) (fd : List Nat) (tail : Text),
      G ≠ [] → (∀ g ∈ G, g ≠ [] ∧ DigitBlock useg sep g) → (G.length > 1 → useg = true) →
      StopsC useg sep tail → Nat.ofDigitChars 10 G.flatten acc < 2 ^ 64 →
      scan useg sep 10 acc false sp fd (joinSep sep G ++ tail) =
        ⟨Nat.ofDigitChars 10 G.flatten acc, false, lastSp sp G, foundOf sp fd G, false, tail⟩ := by
  induction G with
  | nil => intro _ _ _ _ _ h; exact absurd rfl h
  | cons g r ih =>
    intro useg acc sp fd tail _ hG hu ht hlt
    have hg := hG g (by simp)
    cases r with
    | nil =>
      simp only [joinSep, List.flatten_cons, List.flatten_nil, List.append_nil, lastSp, foundOf] at hlt ⊢
      rw [scan_digits useg sep g hg.2 _ _ _ _ hlt, scan_stop useg sep _ _ _ _ _ ht]
    | cons g' r =>
      have hu' : useg = true := hu (by simp)
      subst hu'
      simp only [List.flatten_cons] at hlt
      rw [Nat.ofDigitChars_append] at hlt
      have hlt1 : Nat.ofDigitChars 10 g acc < 2 ^ 64 := by
        have := le_ofDigitChars (g' :: r).flatten (Nat.ofDigitChars 10 g acc)
        simp only [List.flatten_cons] at this
        omega
      simp only [joinSep, List.flatten_cons, lastSp, foundOf]
      rw [List.append_assoc, scan_digits true sep g hg.2 _ _ _ _ hlt1]
      have hgl : 0 < g.length := List.length_pos_iff.mpr hg.1
      show scan true sep 10 _ false (sp + g.length) fd (sep :: (joinSep sep (g' :: r) ++ tail)) = _
      rw [scan]
      have hne : sp + g.length ≠ 0 := by omega
      simp only [and_self, if_true, hne, ne_eq, not_false_eq_true]
      rw [ih true _ 0 _ tail (by simp) (fun x hx => hG x (by simp [hx])) (fun _ => rfl) ht hlt]
      simp [Nat.ofDigitChars_append]

/-! ### the groups of a digit string -/

theorem groupsOf_flatten (gs : List Nat) (ds : Text) : (groupsOf gs ds).flatten = ds := by
  unfold groupsOf
  rw [List.map_reverse, ← List.reverse_flatten, splitRev_flatten, List.reverse_reverse]

theorem groupsOf_ne_nil (gs : List Nat) (ds : Text) : groupsOf gs ds ≠ [] := by
  unfold groupsOf
  simp [splitRev_ne_nil]

theorem groupsOf_nonempty (gs : List Nat) (ds : Text) (h : ds ≠ []) : ∀ g ∈ groupsOf gs ds, g ≠ [] := by
  intro g hg
  unfold groupsOf at hg
  simp only [List.mem_map, List.mem_reverse] at hg
  obtain ⟨x, hx, rfl⟩ := hg
  have := splitRev_nonempty gs ds.length ds.reverse (by simpa using h) x hx
  simpa using this

theorem groupsOf_mem (gs : List Nat) (ds : Text) : ∀ g ∈ groupsOf gs ds, ∀ x ∈ g, x ∈ ds := by
  intro g hg x hx
  have : x ∈ (groupsOf gs ds).flatten := List.mem_flatten.mpr ⟨g, hg, hx⟩
  rwa [groupsOf_flatten] at this

theorem groupsOf_lengths (gs : List Nat) (ds : Text) :
    ((groupsOf gs ds).map List.length).reverse = (splitRev gs ds.length ds.reverse).map List.length := by
  unfold groupsOf
  simp [List.map_reverse, Function.comp_def]

theorem verifyRev_groupsOf (gs : List Nat) (ds : Text) :
    verifyRev gs ((groupsOf gs ds).map List.length).reverse = true := by
  rw [groupsOf_lengths]
  exact verifyRev_splitRev gs ds.length ds.reverse (by simp)

theorem joinSep_head (sep : Char) (d : Char) (g : Text) (r : List Text) :
    ∃ rest, joinSep sep ((d :: g) :: r) = d :: rest := by
  cases r with
  | nil => exact ⟨g, rfl⟩
  | cons g' r => exact ⟨g ++ sep :: joinSep sep (g' :: r), rfl⟩

/-- the first decimal digit is '0' only for the number 0 -/
theorem toDigits_ten_head (n : Nat) :
    ∃ d ds, Nat.toDigits 10 n = d :: ds ∧ (d = '0' → ds = []) := by
  induction n using Nat.strongRecOn with
  | _ n ih =>
    by_cases h : n < 10
    · exact ⟨n.digitChar, [], Nat.toDigits_of_lt_base h, fun _ => rfl⟩
    · have hq : 0 < n / 10 := Nat.div_pos (by omega) (by decide)
      obtain ⟨d, ds, hd, h0⟩ := ih (n / 10) (by omega)
      refine ⟨d, ds ++ [Nat.digitChar (n % 10)], ?_, ?_⟩
      · rw [Nat.toDigits_of_base_le (by decide) (by omega), hd]; rfl
      · intro hz
        exfalso
        have hds := h0 hz
        subst hz hds
        have := Nat.ofDigitChars_ten_toDigits (n := n / 10)
        rw [hd] at this
        simp [Nat.ofDigitChars] at this
        omega

/-- what `unpadded` produces in a decimal configuration -/
def bodyGroups (c : Cfg) (v : UInt64) : List Text :=
  if c.useg then groupsOf c.gs (Nat.toDigits 10 v.toNat) else [Nat.toDigits 10 v.toNat]

theorem unpadded_dec (c : Cfg) (hb : c.base = 10) (v : UInt64) :
    unpadded c v = joinSep c.sep (bodyGroups c v) := by
  unfold unpadded digitsOf bodyGroups
  simp only [hb]
  by_cases hu : c.useg = true
  · simp [hu]
  · simp [hu, joinSep]

theorem bodyGroups_flatten (c : Cfg) (v : UInt64) : (bodyGroups c v).flatten = Nat.toDigits 10 v.toNat := by
  unfold bodyGroups
  split
  · exact groupsOf_flatten _ _
  · simp

theorem bodyGroups_ne_nil (c : Cfg) (v : UInt64) : bodyGroups c v ≠ [] := by
  unfold bodyGroups
  split
  · exact groupsOf_ne_nil _ _
  · simp

theorem bodyGroups_block (c : Cfg) (hs : c.useg = true → c.sep.isDigit = false) (v : UInt64) :
    ∀ g ∈ bodyGroups c v, g ≠ [] ∧ DigitBlock c.useg c.sep g := by
  intro g hg
  have hmem : ∀ x ∈ g, x ∈ Nat.toDigits 10 v.toNat := by
    intro x hx
    have : x ∈ (bodyGroups c v).flatten := List.mem_flatten.mpr ⟨g, hg, hx⟩
    rwa [bodyGroups_flatten] at this
  constructor
  · unfold bodyGroups at hg
    split at hg
    · exact groupsOf_nonempty _ _ Nat.toDigits_ne_nil g hg
    · simp at hg; subst hg; exact Nat.toDigits_ne_nil
  · intro x hx
    have hd : x.isDigit = true := Nat.isDigit_of_mem_toDigits (by decide) (by decide) (hmem x hx)
    refine ⟨hd, ?_⟩
    rintro ⟨hu, rfl⟩
    have := hs hu
    simp [hd] at this

theorem bodyGroups_single (c : Cfg) (v : UInt64) (h : (bodyGroups c v).length > 1) : c.useg = true := by
  unfold bodyGroups at h
  split at h
  · assumption
  · simp at h

/-- the text of a word starts with a digit, and with '0' only when it is exactly "0" -/
theorem unpadded_head (c : Cfg) (hb : c.base = 10) (v : UInt64) :
    ∃ d rest, unpadded c v = d :: rest ∧ d.isDigit = true ∧ (d = '0' → rest = []) := by
  rw [unpadded_dec c hb]
  obtain ⟨d, ds, hd, h0⟩ := toDigits_ten_head v.toNat
  have hfl := bodyGroups_flatten c v
  have hne := bodyGroups_ne_nil c v
  have hdig : d.isDigit = true :=
    Nat.isDigit_of_mem_toDigits (b := 10) (n := v.toNat) (by decide) (by decide) (by rw [hd]; simp)
  -- every group is non-empty (digits are never empty)
  have hnonempty : ∀ g ∈ bodyGroups c v, g ≠ [] := by
    intro g hg
    unfold bodyGroups at hg
    split at hg
    · exact groupsOf_nonempty _ _ Nat.toDigits_ne_nil g hg
    · simp at hg; subst hg; exact Nat.toDigits_ne_nil
  obtain ⟨g, r, hG⟩ := List.exists_cons_of_ne_nil hne
  have hg : g ≠ [] := hnonempty g (by rw [hG]; simp)
  obtain ⟨x, g', rfl⟩ := List.exists_cons_of_ne_nil hg
  rw [hG, hd] at hfl
  simp only [List.flatten_cons, List.cons_append, List.cons.injEq] at hfl
  obtain ⟨rfl, hrest⟩ := hfl
  rw [hG]
  obtain ⟨rest, hr⟩ := joinSep_head c.sep x g' r
  refine ⟨x, rest, hr, hdig, ?_⟩
  intro hz
  have hds := h0 hz
  subst hds
  have hlen := congrArg List.length hrest
  simp only [List.length_append, List.length_nil] at hlen
  have hg' : g' = [] := List.eq_nil_of_length_eq_zero (by omega)
  have hr' : r = [] := by
    cases r with
    | nil => rfl
    | cons g2 r2 =>
      exfalso
      have h2 : g2 ≠ [] := hnonempty g2 (by rw [hG]; simp)
      have : 0 < g2.length := List.length_pos_iff.mpr h2
      simp only [List.flatten_cons, List.length_append] at hlen
      omega
  subst hg' hr'
  simp [joinSep] at hr
  exact hr

/-! ### leading zeros in base 10 -/

theorem lead_ten (useg : Bool) (sep : Char) (t : Text) :
    ∀ (fz : Bool) (sp : Nat),
      (lead useg sep false 10 fz sp t).base = 10 ∧
      scan useg sep 10 0 false (lead useg sep false 10 fz sp t).sepPos [] (lead useg sep false 10 fz sp t).rest
        = scan useg sep 10 0 false sp [] t := by
  induction t with
  | nil => intro fz sp; simp [lead]
  | cons ch r ih =>
    intro fz sp
    unfold lead
    split
    · simp
    · rename_i h1
      split
      · rename_i h2
        have hz : ch = '0' := h2.1
        subst hz
        simp only [Bool.false_eq_true, if_false]
        have := ih true (sp + 1)
        refine ⟨this.1, ?_⟩
        rw [show (if (10 : Nat) = 8 then 0 else sp + 1) = sp + 1 by simp, this.2]
        have hns : ¬ (useg = true ∧ '0' = sep) := fun h => h1 (Or.inl h)
        conv => rhs; rw [scan]
        simp [hns, digitVal]
      · split
        · simp
        · simp

/-! ### one word -/

/-- white space in front, the text of the word, then nothing or more white space: the word is read back -/
theorem getWord_word (c : Cfg) (hd : Demanded c) (v : UInt64) (pre tail : Text)
    (hpre : ∀ x ∈ pre, isSpace x = true)
    (ht : tail = [] ∨ ∃ y r, tail = y :: r ∧ isSpace y = true) :
    getWord c (pre ++ unpadded c v ++ tail) false = ⟨some v, false, decide (tail = []), tail⟩ := by
  obtain ⟨hb, hws, _, hsep⟩ := hd
  obtain ⟨d, rest, hU, hdig, _⟩ := unpadded_head c hb v
  have hdsp : isSpace d = false := isSpace_of_isDigit hdig
  -- the sentry skips `pre`
  have hdrop : (pre ++ unpadded c v ++ tail).dropWhile isSpace = unpadded c v ++ tail := by
    rw [List.append_assoc, hU]
    induction pre with
    | nil => simp [hdsp]
    | cons p ps ihp =>
      have : isSpace p = true := hpre p (by simp)
      simp only [List.cons_append, List.dropWhile_cons, this, if_true]
      exact ihp (fun x hx => hpre x (by simp [hx]))
  unfold getWord
  simp only [Bool.false_eq_true, if_false, hws, if_true, hdrop]
  have hne : unpadded c v ++ tail ≠ [] := by rw [hU]; simp
  simp only [hne, and_false, if_false]
  -- the stop condition for the digit loop
  have hstop : StopsC c.useg c.sep tail := by
    rcases ht with rfl | ⟨y, r, rfl, hy⟩
    · exact Or.inl rfl
    · refine Or.inr ⟨y, r, rfl, ?_, ?_⟩
      · cases hyd : y.isDigit with
        | false => rfl
        | true => have := isSpace_of_isDigit hyd; simp [hy] at this
      · rintro ⟨hu, rfl⟩
        have := (hsep hu).2
        simp [hy] at this
  have hblock := bodyGroups_block c (fun hu => (hsep hu).1) v
  have hval : Nat.ofDigitChars 10 (bodyGroups c v).flatten 0 = v.toNat := by
    rw [bodyGroups_flatten, Nat.ofDigitChars_ten_toDigits]
  have hlt : Nat.ofDigitChars 10 (bodyGroups c v).flatten 0 < 2 ^ 64 := by rw [hval]; exact v.toNat_lt
  have hscan := scan_groups c.sep (bodyGroups c v) c.useg 0 0 [] tail (bodyGroups_ne_nil c v) hblock
    (bodyGroups_single c v) hstop hlt
  rw [← unpadded_dec c hb] at hscan
  -- the sign test does not fire: the first character is a digit
  have hsign : signOf c.useg c.sep (unpadded c v ++ tail) = (false, unpadded c v ++ tail) := by
    rw [hU]
    simp only [List.cons_append, signOf]
    have : ¬ ((d = '-' ∨ d = '+') ∧ ¬ (c.useg = true ∧ d = c.sep) ∧ d ≠ '.') := by
      rintro ⟨h | h, _⟩ <;> (subst h; simp [Char.isDigit] at hdig)
    rw [if_neg this]
  have hl := lead_ten c.useg c.sep (unpadded c v ++ tail) false 0
  unfold getInt
  simp only [hsign, base0, hb, show ((10 : Nat) = 0) = False by simp, decide_false,
    show (if (10 : Nat) = 8 then 8 else if (10 : Nat) = 16 then 16 else 10) = 10 by simp]
  rw [hl.1, hl.2, hscan, hval]
  have hG := bodyGroups_ne_nil c v
  obtain ⟨g, r, hGe⟩ := List.exists_cons_of_ne_nil hG
  have hlast : lastSp 0 (bodyGroups c v) ≠ 0 :=
    lastSp_pos 0 _ hG (fun g hg => (hblock g hg).1)
  have hv : v.toNat.toUInt64 = v := by simp
  -- the grouping check
  have hgf : (!((if foundOf 0 [] (bodyGroups c v) = [] then []
        else foundOf 0 [] (bodyGroups c v) ++ [lastSp 0 (bodyGroups c v)]) == []) &&
      !(verifyRev c.gs (if foundOf 0 [] (bodyGroups c v) = [] then []
        else foundOf 0 [] (bodyGroups c v) ++ [lastSp 0 (bodyGroups c v)]).reverse)) = false := by
    by_cases hf : foundOf 0 [] (bodyGroups c v) = []
    · simp [hf]
    · simp only [hf, if_false]
      have hu : c.useg = true := by
        apply bodyGroups_single
        rw [hGe]
        cases r with
        | nil => rw [hGe] at hf; simp [foundOf] at hf
        | cons _ _ => simp
      have hbg : bodyGroups c v = groupsOf c.gs (Nat.toDigits 10 v.toNat) := by simp [bodyGroups, hu]
      have hver := verifyRev_groupsOf c.gs (Nat.toDigits 10 v.toNat)
      rw [← hbg, hGe] at hver
      rw [hGe, foundOf_lastSp]
      simp only [List.map_cons, List.nil_append, Nat.zero_add] at hver ⊢
      rw [hver]
      simp
  simp only [verdict, hlast, false_and, Bool.false_eq_true, or_self, if_false, hgf, hv]

/-! ### padding, and the whole state -/

theorem putWord_zero (c : Cfg) (v : UInt64) : putWord c 0 v = unpadded c v := by
  simp [putWord, padTo]

theorem putWord_shape (c : Cfg) (hb : c.base = 10) (w : Nat) (hw : w = 0 ∨ isSpace c.fill = true)
    (v : UInt64) :
    ∃ pre post, putWord c w v = pre ++ unpadded c v ++ post ∧
      (∀ x ∈ pre, isSpace x = true) ∧ (∀ x ∈ post, isSpace x = true) := by
  by_cases hlen : (unpadded c v).length < w
  · have hf : isSpace c.fill = true := by
      rcases hw with h | h
      · omega
      · exact h
    have hfill : ∀ x ∈ List.replicate (w - (unpadded c v).length) c.fill, isSpace x = true := by
      intro x hx
      rw [(List.mem_replicate.mp hx).2]; exact hf
    obtain ⟨d, rest, hU, hdig, h0⟩ := unpadded_head c hb v
    have hnm : ¬ (d = '-' ∨ d = '+') := by
      rintro (h | h) <;> (subst h; simp [Char.isDigit] at hdig)
    unfold putWord padTo
    simp only [hlen, if_true]
    by_cases ha0 : c.adjust = 0
    · exact ⟨[], _, by simp [ha0], by simp, hfill⟩
    · by_cases ha2 : c.adjust = 2
      · simp only [ha2, if_true]
        refine ⟨_, [], ?_, hfill, by simp⟩
        rw [hU]
        cases rest with
        | nil => simp [hnm]
        | cons b r =>
          have hd0 : ¬ (d = '0' ∧ (b = 'x' ∨ b = 'X')) := by
            rintro ⟨hz, _⟩
            have := h0 hz
            cases this
          simp [hnm, hd0]
      · exact ⟨_, [], by simp [ha0, ha2], hfill, by simp⟩
  · exact ⟨[], [], by simp [putWord, padTo, hlen], by simp, by simp⟩

theorem putState_good (c : Cfg) (a : Xo) :
    putState c goodItems c.width a =
      some (putWord c c.width a.s0 ++ (' ' :: (putWord c 0 a.s1 ++ (' ' :: (putWord c 0 a.s2 ++
        (' ' :: (putWord c 0 a.s3 ++ []))))))) := by
  simp [putState, goodItems, Xo.get, putChar]

/-- Round trip for the proved format under every demanded stream configuration. -/
theorem cfg_roundtrip_good (c : Cfg) (hd : Demanded c) (a b : Xo) :
    saveRestoreC c goodItems goodIdx a b = some (a, true) := by
  have hd' := hd
  obtain ⟨hb, _, hw, _⟩ := hd'
  obtain ⟨pre, post, hW0, hpre, hpost⟩ := putWord_shape c hb c.width hw a.s0
  unfold saveRestoreC
  rw [putState_good, hW0, putWord_zero, putWord_zero, putWord_zero]
  -- the four tails
  have hsp : isSpace ' ' = true := by decide
  have e1 : pre ++ unpadded c a.s0 ++ post ++ (' ' :: (unpadded c a.s1 ++ (' ' :: (unpadded c a.s2 ++
        (' ' :: (unpadded c a.s3 ++ [])))))) =
      pre ++ unpadded c a.s0 ++ (post ++ (' ' :: (unpadded c a.s1 ++ (' ' :: (unpadded c a.s2 ++
        (' ' :: (unpadded c a.s3 ++ []))))))) := by simp
  have t1 : ∀ X : Text, (post ++ ' ' :: X = [] ∨ ∃ y r, post ++ ' ' :: X = y :: r ∧ isSpace y = true) := by
    intro X
    right
    cases post with
    | nil => exact ⟨' ', X, rfl, hsp⟩
    | cons p ps => exact ⟨p, ps ++ ' ' :: X, rfl, hpost p (by simp)⟩
  have e2 : ∀ X : Text, post ++ ' ' :: (unpadded c a.s1 ++ X) = (post ++ [' ']) ++ unpadded c a.s1 ++ X := by
    intro X; simp
  have hpre2 : ∀ x ∈ post ++ [' '], isSpace x = true := by
    intro x hx
    rcases List.mem_append.mp hx with h | h
    · exact hpost x h
    · simp at h; subst h; exact hsp
  have e3 : ∀ (u : UInt64) (X : Text), ' ' :: (unpadded c u ++ X) = [' '] ++ unpadded c u ++ X := by
    intro u X; simp
  have hpre3 : ∀ x ∈ [' '], isSpace x = true := by
    intro x hx; simp at hx; subst hx; exact hsp
  have tsp : ∀ X : Text, (' ' :: X = [] ∨ ∃ y r, ' ' :: X = y :: r ∧ isSpace y = true) :=
    fun X => Or.inr ⟨' ', X, rfl, hsp⟩
  simp only [goodIdx, getState, Bool.false_eq_true, ↓reduceIte,
    show (0 : Nat) < 4 by decide, show (1 : Nat) < 4 by decide, show (2 : Nat) < 4 by decide,
    show (3 : Nat) < 4 by decide]
  rw [e1, getWord_word c hd a.s0 pre _ hpre (t1 _)]
  have hne1 : ∀ X : Text, decide (post ++ ' ' :: X = []) = false := by intro X; simp
  simp only [hne1, Bool.false_eq_true, ↓reduceIte]
  rw [e2, getWord_word c hd a.s1 _ _ hpre2 (tsp _)]
  simp only [show ∀ X : Text, decide (' ' :: X = []) = false by intro X; simp, Bool.false_eq_true, ↓reduceIte]
  rw [e3, getWord_word c hd a.s2 _ _ hpre3 (tsp _)]
  simp only [show ∀ X : Text, decide (' ' :: X = []) = false by intro X; simp, Bool.false_eq_true, ↓reduceIte]
  rw [e3, getWord_word c hd a.s3 _ _ hpre3 (Or.inl rfl)]
  simp [Xo.set]

end Vita.C07
