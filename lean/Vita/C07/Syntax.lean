/-
  C07 — syntax produced by tools/translate_rng.py for the stream operators of xoshiro256ss.
-/
namespace Vita.C07

/-- one operand of the `operator<<` chain: a state element (written in decimal) or a character -/
inductive Item
  | st (i : Nat)
  | ch (c : Char)
deriving DecidableEq, Repr

end Vita.C07
