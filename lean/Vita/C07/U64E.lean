/-
  C07 — deep embedding of the unsigned 64-bit code of src/utility/xoshiro256ss.{h,cc} that
  tools/translate_rng.py extracts from the clang AST (syntax only is generated, Vita/C07/GenCode.lean;
  every meaning is written here, once):

    vigna::rotl                         an expression over its two parameters
    splitmix64::splitmix64 / ::next     constructor initialiser, statement list
    seed_with_sm64<std::array<u64,N>>   `splitmix64 sm(seed); std::generate(state.begin(), state.end(), [&sm]{ return sm.next(); });`
    xoshiro256ss::seed(result_type)     statement list
    xoshiro256ss::operator()            statement list
    xoshiro256ss::operator==            the pairs of state elements compared

  Arithmetic is `std::uint64_t` wrap-around (`UInt64`).  A shift whose count is not below 64 and a
  subscript of `state` outside the array are undefined behaviour: evaluation answers `none`.  (`int`
  sub-expressions – the shift counts of `rotl` – are evaluated in `UInt64` as well: whenever that differs
  from `int` arithmetic the count is ≥ 64 or negative, undefined in C++ and `none` here.)
-/
namespace Vita.C07.U

inductive Op | add | sub | mul | xor | or | and | shl | shr
deriving DecidableEq, Repr

/-- expressions -/
inductive E
  | lit (v : UInt64)
  | st (i : Nat)        -- this->state[i]
  | x                   -- this->x (splitmix64)
  | loc (i : Nat)       -- i-th local variable of the body, in declaration order
  | arg (i : Nat)       -- i-th parameter
  | bin (op : Op) (a b : E)
  | rotl (a k : E)      -- call of vigna::rotl
deriving Repr

/-- statements -/
inductive S
  | decl (e : E)                         -- T v(e);   (a new local)
  | setLoc (i : Nat) (e : E)             -- v = e;
  | setArg (i : Nat) (e : E)             -- parameter = e;
  | setSt (i : Nat) (e : E)              -- state[i] = e;
  | updSt (i : Nat) (op : Op) (e : E)    -- state[i] op= e;
  | updX (op : Op) (e : E)               -- x op= e;
  | ifEq (a b : E) (t : S)               -- if (a == b) t;
  | newSm (e : E)                        -- splitmix64 sm(e);
  | generate (n : Nat)                   -- std::generate(state.begin(), state.end(), [&sm]{ return sm.next(); }), N = n
  | seedWith (e : E)                     -- seed_with_sm64(e, state);
  | ret (e : E)
deriving Repr

/-- the translated code -/
structure Prog where
  rotlE : E                -- body of rotl: parameters x = arg 0, k = arg 1
  smCtor : E               -- what the constructor of splitmix64 initialises `x` with (arg 0 = its parameter)
  smNext : List S          -- splitmix64::next
  seedWith : List S        -- seed_with_sm64<std::array<std::uint64_t, N>>: arg 0 = seed
  seed : List S            -- xoshiro256ss::seed(result_type): arg 0 = s
  next : List S            -- xoshiro256ss::operator()
  eqPairs : List (Nat × Nat)   -- operator==: state[i] == rhs.state[j] for every pair
  size : Nat               -- N of std::array<std::uint64_t, N> state

/-- machine state while a body runs -/
structure M where
  st : List UInt64
  x : UInt64
  locs : List UInt64
  args : List UInt64
deriving Repr, DecidableEq

def Op.eval : Op → UInt64 → UInt64 → Option UInt64
  | .add, a, b => some (a + b)
  | .sub, a, b => some (a - b)
  | .mul, a, b => some (a * b)
  | .xor, a, b => some (a ^^^ b)
  | .or, a, b => some (a ||| b)
  | .and, a, b => some (a &&& b)
  | .shl, a, k => if k < 64 then some (a <<< k) else none
  | .shr, a, k => if k < 64 then some (a >>> k) else none

/-- expressions without calls (the body of `rotl`) -/
def evalB (m : M) : E → Option UInt64
  | .lit v => some v
  | .st i => m.st[i]?
  | .x => some m.x
  | .loc i => m.locs[i]?
  | .arg i => m.args[i]?
  | .bin op a b =>
    match evalB m a, evalB m b with
    | some va, some vb => op.eval va vb
    | _, _ => none
  | .rotl _ _ => none

def eval (p : Prog) (m : M) : E → Option UInt64
  | .lit v => some v
  | .st i => m.st[i]?
  | .x => some m.x
  | .loc i => m.locs[i]?
  | .arg i => m.args[i]?
  | .bin op a b =>
    match eval p m a, eval p m b with
    | some va, some vb => op.eval va vb
    | _, _ => none
  | .rotl a k =>
    match eval p m a, eval p m k with
    | some va, some vk => evalB ⟨[], 0, [], [va, vk]⟩ p.rotlE
    | _, _ => none

def setNth (l : List UInt64) (i : Nat) (v : UInt64) : Option (List UInt64) :=
  if i < l.length then some (l.set i v) else none

/-- one statement; `call` gives the meaning of the statements that run other translated bodies -/
def step (call : S → M → Option M) (p : Prog) : S → M → Option (M × Option UInt64)
  | .decl e, m => (eval p m e).map fun v => ({ m with locs := m.locs ++ [v] }, none)
  | .setLoc i e, m => (eval p m e).bind fun v => (setNth m.locs i v).map fun l => ({ m with locs := l }, none)
  | .setArg i e, m => (eval p m e).bind fun v => (setNth m.args i v).map fun l => ({ m with args := l }, none)
  | .setSt i e, m => (eval p m e).bind fun v => (setNth m.st i v).map fun l => ({ m with st := l }, none)
  | .updSt i op e, m =>
    match m.st[i]?, eval p m e with
    | some old, some v => (op.eval old v).bind fun w => (setNth m.st i w).map fun l => ({ m with st := l }, none)
    | _, _ => none
  | .updX op e, m => (eval p m e).bind fun v => (op.eval m.x v).map fun w => ({ m with x := w }, none)
  | .ifEq a b t, m =>
    match eval p m a, eval p m b with
    | some va, some vb => if va = vb then step call p t m else some (m, none)
    | _, _ => none
  | .ret e, m => (eval p m e).map fun v => (m, some v)
  | s, m => (call s m).map fun m' => (m', none)

def run (call : S → M → Option M) (p : Prog) : List S → M → Option (M × Option UInt64)
  | [], m => some (m, none)
  | s :: r, m =>
    match step call p s m with
    | none => none
    | some (m', some v) => some (m', some v)
    | some (m', none) => run call p r m'

def call0 : S → M → Option M := fun _ _ => none

/-- `std::generate(first, last, g)`: assigns `g()` to every element, in order -/
def fill (p : Prog) : Nat → Nat → M → Option M
  | 0, _, m => some m
  | k + 1, i, m =>
    match run call0 p p.smNext { m with locs := [], args := [] } with
    | some (m', some v) => (setNth m.st i v).bind fun l => fill p k (i + 1) { m with st := l, x := m'.x }
    | _ => none

/-- statements of `seed_with_sm64` -/
def call1 (p : Prog) : S → M → Option M
  | .newSm e, m =>
    (eval p m e).bind fun v => (evalB ⟨[], 0, [], [v]⟩ p.smCtor).map fun x0 => { m with x := x0 }
  | .generate n, m => if n = m.st.length then fill p n 0 m else none
  | _, _ => none

/-- statements of `xoshiro256ss::seed` -/
def call2 (p : Prog) : S → M → Option M
  | .seedWith e, m =>
    (eval p m e).bind fun v =>
      match run (call1 p) p p.seedWith ⟨m.st, 0, [], [v]⟩ with
      | some (m', none) => some { m with st := m'.st }
      | _ => none
  | _, _ => none

/-! ### the translated member functions as functions -/

def rotlOf (p : Prog) (x k : UInt64) : Option UInt64 := evalB ⟨[], 0, [], [x, k]⟩ p.rotlE

/-- `splitmix64::next` on an object whose `x` is `x`: (result, new `x`) -/
def smNextOf (p : Prog) (x : UInt64) : Option (UInt64 × UInt64) :=
  match run call0 p p.smNext ⟨[], x, [], []⟩ with
  | some (m, some v) => some (v, m.x)
  | _ => none

/-- `xoshiro256ss::operator()`: (result, new state words) -/
def nextOf (p : Prog) (st : List UInt64) : Option (UInt64 × List UInt64) :=
  match run call0 p p.next ⟨st, 0, [], []⟩ with
  | some (m, some v) => some (v, m.st)
  | _ => none

/-- `xoshiro256ss::seed(s)` on an engine whose state words are `st`: the new state words -/
def seedOf (p : Prog) (s : UInt64) (st : List UInt64) : Option (List UInt64) :=
  match run (call2 p) p p.seed ⟨st, 0, [], [s]⟩ with
  | some (m, none) => some m.st
  | _ => none

/-- `operator==` -/
def eqOf (p : Prog) (a b : List UInt64) : Option Bool :=
  p.eqPairs.foldl (fun acc (ij : Nat × Nat) =>
    match acc, a[ij.1]?, b[ij.2]? with
    | some r, some x, some y => some (r && x == y)
    | _, _, _ => none) (some true)

end Vita.C07.U
